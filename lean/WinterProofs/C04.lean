-- C04: Fiat–Shamir transcript — property theorems about Winter/Model/Transcript.lean
-- (helper lemmas: WinterProofs/Lemmas/C04.lean).  `proverScript` / `verifierScript` are two independent
-- transcriptions of the coin operations of the prover and of the verifier; `protocol` is the protocol's own
-- order of messages and challenges.  The scripts are tied to the code by the recording coin of
-- harness/src/bin/c04.rs (op-for-op comparison of the observed trait calls with the scripts, for every
-- configuration the harness runs).  All theorems are for ALL configurations: any number of FRI layers, with
-- or without auxiliary segment / Lagrange kernel, any counts.
import Winter.Model.Transcript
import WinterProofs.Lemmas.C04
import WinterProofs.Lemmas.C04Run
import WinterProofs.Lemmas.C04Ctx
import WinterProofs.Lemmas.C04Gen

namespace C04
open Model.Transcript C04L
open Model.Coin (HashOps Coin Out isPanic runFrom)

-- =================================================================== the protocol has no repeated event
theorem protocol_nodup (cfg : Cfg) : (protocol cfg).Nodup := by
  unfold protocol
  have hF := nodup_protoFri cfg.friLayers 0
  have hm := mem_protoFri
  rcases cfg with ⟨aux, lag, _, _, _, _, _, _, _, L, _, _, _, _⟩
  cases aux <;> cases lag <;>
    simp [List.nodup_append, List.nodup_cons, hF, hm] <;>
    (intro a x _ h; rcases h with h | h <;> subst h <;> simp)

/-- the event sequence of the prover's script IS the protocol -/
theorem events_proverScript (cfg : Cfg) : events (proverScript cfg) = protocol cfg := by
  rcases cfg with ⟨aux, lag, _, _, _, _, _, _, _, L, _, _, _, _⟩
  cases aux <;> cases lag <;>
    simp [proverScript, protocol, friProver, events_append, events_cons, events_nil, CoinOp.events,
      events_friProverLayers]

/-- the event sequence of the verifier's script is the protocol with one more event: the α drawn after the
    remainder commitment -/
theorem events_verifierScript (cfg : Cfg) :
    events (verifierScript cfg)
      = (protocol cfg).take ((protocol cfg).length - 3)
        ++ [.chal (.elems (.friAlpha cfg.friLayers)), .chal .pow, .nonce, .chal .queries] := by
  rcases cfg with ⟨aux, lag, _, _, _, _, _, _, _, L, _, _, _, _⟩
  have hF := events_friVerifierLoop L 0
  simp only [Nat.zero_add] at hF
  cases aux <;> cases lag <;>
    simp [verifierScript, protocol, friCommitments, events_append, events_cons, events_nil, CoinOp.events, hF,
      List.take_append, List.take_of_length_le]

/-- the α drawn after the remainder commitment is not an event of the protocol -/
theorem unused_alpha_not_in_protocol (cfg : Cfg) :
    Event.chal (.elems (.friAlpha cfg.friLayers)) ∉ protocol cfg := by
  rcases cfg with ⟨aux, lag, _, _, _, _, _, _, _, L, _, _, _, _⟩
  have hm := mem_protoFri
  cases aux <;> cases lag <;> simp [protocol, hm]

/-- restricted to the events of the protocol, the verifier's events are exactly the protocol -/
theorem verifier_filter (cfg : Cfg) :
    (events (verifierScript cfg)).filter (fun e => decide (e ∈ protocol cfg)) = protocol cfg := by
  have hun := unused_alpha_not_in_protocol cfg
  rw [events_verifierScript]
  have hsplit : protocol cfg = (protocol cfg).take ((protocol cfg).length - 3) ++ [.chal .pow, .nonce, .chal .queries] := by
    rcases cfg with ⟨aux, lag, _, _, _, _, _, _, _, L, _, _, _, _⟩
    cases aux <;> cases lag <;> simp [protocol, List.take_append, List.take_of_length_le]
  have hpre : ∀ x ∈ (protocol cfg).take ((protocol cfg).length - 3), decide (x ∈ protocol cfg) = true := by
    intro x hx
    simp [List.mem_of_mem_take hx]
  have h1 : Event.chal .pow ∈ protocol cfg := by rw [hsplit]; simp
  have h2 : Event.nonce ∈ protocol cfg := by rw [hsplit]; simp
  have h3 : Event.chal .queries ∈ protocol cfg := by rw [hsplit]; simp
  rw [List.filter_append, filter_eq_self_of_all _ _ hpre]
  simp only [List.filter_cons, hun, h1, h2, h3, decide_true, decide_false, if_true, List.filter_nil]
  simp only [Bool.false_eq_true, if_false]
  exact hsplit.symm

-- =================================================================== (1) challenges after all earlier messages
/-- ★ (1, prover) whenever the prover draws a challenge — auxiliary-segment randomness (and the Lagrange
    kernel randomness before it), composition coefficients, the out-of-domain point, DEEP coefficients, any
    FRI α, the proof-of-work check, the query positions — the coin has been created from the context and the
    public inputs and has absorbed every message that precedes that challenge in protocol order -/
theorem prover_challenges_after_all_earlier_messages (cfg : Cfg) :
    Respects (protocol cfg) (events (proverScript cfg)) := by
  apply respects_of_filter _ _ (protocol_nodup cfg)
  rw [events_proverScript]
  exact filter_eq_self_of_all _ _ (fun x hx => by simp [hx])

/-- ★ (1, verifier) the same for the verifier -/
theorem verifier_challenges_after_all_earlier_messages (cfg : Cfg) :
    Respects (protocol cfg) (events (verifierScript cfg)) :=
  respects_of_filter _ _ (protocol_nodup cfg) (verifier_filter cfg)

/-- the statement of (1) is not vacuous: every challenge event of the protocol does occur in both scripts … -/
theorem every_protocol_challenge_is_drawn (cfg : Cfg) (c : Chal) (hc : Event.chal c ∈ protocol cfg) :
    Event.chal c ∈ events (proverScript cfg) ∧ Event.chal c ∈ events (verifierScript cfg) := by
  refine ⟨by rw [events_proverScript]; exact hc, ?_⟩
  have := verifier_filter cfg
  have h : Event.chal c ∈ (events (verifierScript cfg)).filter (fun e => decide (e ∈ protocol cfg)) := by
    rw [this]; exact hc
  exact (List.mem_filter.mp h).1

/-- … and, e.g., the query positions are preceded by every message of the protocol, the statement parts and
    the nonce, in both scripts (instance of (1) spelled out: nothing the prover sends is missing) -/
theorem queries_after_everything (cfg : Cfg) (x : Event) (hx : x ∈ protocol cfg) (ha : x.isAbsorbed = true)
    (s : List CoinOp) (hs : s = proverScript cfg ∨ s = verifierScript cfg)
    (pre post : List Event) (hsplit : events s = pre ++ .chal .queries :: post) : x ∈ pre := by
  have hlast : protocol cfg = (protocol cfg).take ((protocol cfg).length - 1) ++ [.chal .queries] := by
    rcases cfg with ⟨aux, lag, _, _, _, _, _, _, _, L, _, _, _, _⟩
    cases aux <;> cases lag <;> simp [protocol, List.take_append, List.take_of_length_le]
  have hb : Before (protocol cfg) x (.chal .queries) := by
    refine ⟨(protocol cfg).take ((protocol cfg).length - 1), [], hlast, ?_⟩
    rw [hlast] at hx
    rcases List.mem_append.mp hx with h | h
    · exact h
    · simp at h; subst h; cases ha
  rcases hs with hs | hs
  · subst hs; exact prover_challenges_after_all_earlier_messages cfg .queries x ha hb pre post hsplit
  · subst hs; exact verifier_challenges_after_all_earlier_messages cfg .queries x ha hb pre post hsplit

-- =================================================================== (2) the two scripts are the same
/-- ★ (2) deleting from the verifier's script the one draw whose value is never used — the α that
    `FriVerifier::new` draws after the LAST entry of `layer_commitments`, the remainder commitment — gives
    exactly the prover's script: same operations, same messages, same order, same draw counts -/
theorem scripts_equal_up_to_unused_draw (cfg : Cfg) :
    dropUnused cfg (verifierScript cfg) = proverScript cfg := by
  rcases cfg with ⟨aux, lag, _, _, _, _, _, _, _, L, _, _, _, _⟩
  have hF := filter_friVerifierLoop L L 0 (by omega)
  cases aux <;> cases lag <;>
    simp [dropUnused, unusedDraw, verifierScript, proverScript, friCommitments, friProver, List.filter_append, hF]

/-- the deleted draw is really unused: its α is not among the α's the query phase reads … -/
theorem unused_alpha_is_not_read (cfg : Cfg) : Purpose.friAlpha cfg.friLayers ∉ alphasUsed cfg := by
  simp [alphasUsed]

/-- … every other α the verifier draws is read … -/
theorem other_alphas_are_read (cfg : Cfg) (j n : Nat) (h : CoinOp.draw (.friAlpha j) n ∈ verifierScript cfg)
    (hj : j ≠ cfg.friLayers) : Purpose.friAlpha j ∈ alphasUsed cfg := by
  have hev : Event.chal (.elems (.friAlpha j)) ∈ events (verifierScript cfg) := by
    simp only [events, List.mem_flatMap]
    exact ⟨_, h, by simp [CoinOp.events]⟩
  rw [events_verifierScript] at hev
  rcases List.mem_append.mp hev with h1 | h1
  · have h2 := List.mem_of_mem_take h1
    rcases cfg with ⟨aux, lag, _, _, _, _, _, _, _, L, _, _, _, _⟩
    have hm := mem_protoFri
    simp only [alphasUsed, List.mem_map, List.mem_range]
    cases aux <;> cases lag <;> simp [protocol, hm] at h2 <;> exact ⟨j, h2, rfl⟩
  · simp at h1; exact absurd h1 hj

/-- … and the prover draws no unused value at all -/
theorem prover_has_no_unused_draw (cfg : Cfg) : dropUnused cfg (proverScript cfg) = proverScript cfg := by
  rcases cfg with ⟨aux, lag, _, _, _, _, _, _, _, L, _, _, _, _⟩
  have hF := filter_friProverLayers L L 0 (by omega)
  cases aux <;> cases lag <;>
    simp [dropUnused, unusedDraw, proverScript, friProver, List.filter_append, hF]

-- =================================================================== (2') identical VALUES of the used challenges
/-- ★ (2') run on the public coin of C19 (any hasher `H`, any statement, any message digests, any nonce), the
    verifier's script produces exactly the outputs of the prover's script — every drawn element, the
    proof-of-work count, the query positions — with ONE more output `o` (the unused α) inserted before the last
    two (proof-of-work count and query positions): the extra draw advances the counter only, and the two calls
    after it read the seed only. Hypothesis: the coin's 64-bit draw counter does not overflow in the verifier's
    run (`isPanic`; it would need 2^64 consecutive draws) -/
theorem used_challenge_values_agree {D : Type} (H : HashOps D) (env : Env D) (cfg : Cfg)
    (hnp : ∀ o ∈ runScript H env cfg (verifierScript cfg), isPanic o = false) :
    ∃ (pre : List Out) (o : Out) (tail : List Out),
      runScript H env cfg (verifierScript cfg) = pre ++ o :: tail ∧
      runScript H env cfg (proverScript cfg) = pre ++ tail ∧ tail.length = 2 := by
  obtain ⟨rest, hhead⟩ := prefixScript_head cfg
  have hV := verifierScript_split cfg
  have hP := proverScript_split cfg
  -- both runs start from the same coin
  have hseedV : seedOf env (verifierScript cfg) = seedOf env (proverScript cfg) := by
    rw [hV, hP, hhead]; rfl
  -- compiled histories
  let A := compile env cfg (prefixScript cfg)
  let T : List (Model.Coin.Op D) := [.checkLeadingZeros env.nonce, .drawIntegers cfg.queries cfg.ldeSize env.nonce]
  have hcV : compile env cfg (verifierScript cfg) = A ++ (Model.Coin.Op.draw env.fd cfg.ext :: T) := by
    rw [hV, compile_append]; simp [A, T, compile, compileOp, tailScript]
  have hcP : compile env cfg (proverScript cfg) = A ++ T := by
    rw [hP, compile_append]; simp [A, T, compile, compileOp, tailScript]
  let c0 := Model.Coin.new H (seedOf env (proverScript cfg))
  have hrunV : runScript H env cfg (verifierScript cfg) = (runFrom H c0 (A ++ (Model.Coin.Op.draw env.fd cfg.ext :: T))).1 := by
    simp only [runScript, Model.Coin.run, hseedV, hcV, c0]
  have hrunP : runScript H env cfg (proverScript cfg) = (runFrom H c0 (A ++ T)).1 := by
    simp only [runScript, Model.Coin.run, hcP, c0]
  rw [hrunV] at hnp
  have hnpA := nopanic_prefix H c0 A _ hnp
  let cA := (runFrom H c0 A).2
  have e1 := runFrom_append' H c0 A (Model.Coin.Op.draw env.fd cfg.ext :: T) hnpA
  have e2 := runFrom_append' H c0 A T hnpA
  -- the extra draw
  have hstep : Model.Coin.step H cA (Model.Coin.Op.draw env.fd cfg.ext) = Model.Coin.draw H env.fd cfg.ext cA := rfl
  have hop : isPanic (Model.Coin.step H cA (Model.Coin.Op.draw env.fd cfg.ext)).1 = false := by
    apply hnp
    rw [e1]
    exact List.mem_append_right _ (runFrom_cons_head H cA _ T)
  have e3 := runFrom_cons_nopanic H cA (Model.Coin.Op.draw env.fd cfg.ext) T hop
  have hseed : (Model.Coin.step H cA (Model.Coin.Op.draw env.fd cfg.ext)).2.seed = cA.seed := by
    rw [hstep]; exact draw_seed H env.fd cfg.ext cA
  refine ⟨(runFrom H c0 A).1, (Model.Coin.step H cA (Model.Coin.Op.draw env.fd cfg.ext)).1, (runFrom H cA T).1, ?_, ?_,
    tail_outputs_length H _ _ _ cA⟩
  · rw [hrunV, e1, e3, tail_outputs H _ _ _ _ cA hseed]
  · rw [hrunP, e2]

/-- a (cryptographically worthless, but executable) hasher and data with which the hypothesis of (2') holds:
    the verifier's run of the configuration `cfgRun` has no panic, and its outputs are the prover's plus one -/
def trivOps : HashOps Nat :=
  ⟨fun es => es.length + es.sum, fun a b => a + 2 * b + 1, fun s v => 3 * s + v, fun d => List.replicate 32 (d % 251)⟩

def envRun : Env Nat :=
  { seed := fun p => match p with | .context => [1, 2] | .pubInputs => [3], msg := fun _ => 7, nonce := 5,
    fd := ⟨18446744069414584321, 8⟩ }

def cfgRun : Cfg :=
  { aux := true, lagrange := false, gkrDraws := 0, auxRands := 2, nTrans := 1, nAssert := 2, logLen := 3, width := 2,
    cols := 1, friLayers := 2, queries := 2, ldeSize := 16, ext := 1, grinding := 0 }

example : ∀ o ∈ runScript trivOps envRun cfgRun (verifierScript cfgRun), isPanic o = false := by decide +kernel

example : (runScript trivOps envRun cfgRun (verifierScript cfgRun)).length
    = (runScript trivOps envRun cfgRun (proverScript cfgRun)).length + 1 := by decide +kernel

-- =================================================================== (3) provenance of the absorbed values
/-- the messages of a configuration, in protocol order -/
def allMsgs (cfg : Cfg) : List Msg :=
  [.mainTraceRoot] ++ (if cfg.aux then [.auxTraceRoot] else [])
    ++ [.constraintRoot, .oodTraceFrameHash, .oodEvaluationsHash] ++ friCommitments cfg.friLayers

/-- both sides absorb exactly the messages of the protocol, each once, in protocol order -/
theorem absorbed_messages (cfg : Cfg) :
    absorbedMsgs (verifierScript cfg) = allMsgs cfg ∧ absorbedMsgs (proverScript cfg) = allMsgs cfg := by
  rcases cfg with ⟨aux, lag, _, _, _, _, _, _, _, L, _, _, _, _⟩
  have hV := absorbedMsgs_friVerifierLoop (friCommitmentsFrom 0 L) 0
  have hP : absorbedMsgs (friProverLayers 0 L) ++ [Msg.remainderCommitment] = friCommitmentsFrom 0 L := by
    simpa [absorbedMsgs_append, absorbedMsgs] using absorbedMsgs_friProverLayers L 0
  constructor <;> cases aux <;> cases lag <;>
    simp [verifierScript, proverScript, allMsgs, friCommitments, friProver, absorbedMsgs_append, absorbedMsgs, hV, hP]

/-- the protocol order lists exactly these messages (so (1) speaks about every message either side absorbs) -/
theorem protocol_messages (cfg : Cfg) : (protocol cfg).filterMap msgOf = allMsgs cfg := by
  rcases cfg with ⟨aux, lag, _, _, _, _, _, _, _, L, _, _, _, _⟩
  have hF := msgs_protoFri L 0
  cases aux <;> cases lag <;>
    simp [protocol, allMsgs, friCommitments, List.filterMap_append, List.filterMap_cons, msgOf, ← hF]

theorem allMsgs_nodup (cfg : Cfg) : (allMsgs cfg).Nodup := by
  rcases cfg with ⟨aux, lag, _, _, _, _, _, _, _, L, _, _, _, _⟩
  have hn := nodup_friCommitmentsFrom L 0
  have hm := mem_friCommitmentsFrom
  cases aux <;> simp [allMsgs, friCommitments, hn, hm]

/-- ★ (3a) the value the verifier absorbs for a message is a function of the proof field that carries the
    message and of nothing else: two proofs that agree on that field (and differ arbitrarily elsewhere — other
    commitments, queries, openings, nonce, remainder, …) make the verifier absorb the same value -/
theorem absorbed_value_depends_only_on_its_field {D E : Type} (h : List E → D) (cfg : Cfg) (m : Msg)
    (p p' : ProofData D E) (hf : p.field (fieldOf cfg m) = p'.field (fieldOf cfg m)) :
    verifierAbsorbs h cfg p m = verifierAbsorbs h cfg p' m := by
  simp [verifierAbsorbs, hf]

/-- the commitment digests are absorbed as they are carried (no hashing, no reordering): message number k
    among the digest messages takes the k-th digest of `proof.commitments` -/
def digestMsgs (cfg : Cfg) : List Msg :=
  [.mainTraceRoot] ++ (if cfg.aux then [.auxTraceRoot] else []) ++ [.constraintRoot] ++ friCommitments cfg.friLayers

/-- ★ (3b) "exactly those carried in the proof": the k-th digest message is carried in commitment slot k, for
    every k — so every one of the `segments + 1 + layers + 1` digests of `proof.commitments` is absorbed, each by
    exactly one message, in the order in which the prover wrote them; the two remaining messages are the hashes
    of the parsed out-of-domain trace states and constraint evaluations -/
theorem digest_messages_are_the_commitment_slots (cfg : Cfg) :
    (digestMsgs cfg).map (fieldOf cfg) = (List.range (numSegments cfg + 1 + cfg.friLayers + 1)).map Field.commitment
    ∧ fieldOf cfg .oodTraceFrameHash = .oodTraceStates ∧ fieldOf cfg .oodEvaluationsHash = .oodEvaluations := by
  refine ⟨?_, rfl, rfl⟩
  apply List.ext_getElem?
  intro k
  rw [getElem?_range_map]
  rcases cfg with ⟨aux, lag, _, _, _, _, _, _, _, L, _, _, _, _⟩
  have hget := getElem_friCommitmentsFrom L 0
  have hlast := getElem_friCommitmentsFrom_last L 0
  have hnone : ∀ j, L < j → (friCommitmentsFrom 0 L)[j]? = none := by
    intro j hj
    apply List.getElem?_eq_none
    rw [length_friCommitmentsFrom]; omega
  cases aux
  · -- one segment: slots 0 (main), 1 (constraints), 2.. (FRI)
    simp only [digestMsgs, numSegments, friCommitments, Bool.false_eq_true, if_false, List.append_nil,
      List.cons_append, List.nil_append, List.map_cons]
    match k with
    | 0 => simp [fieldOf]
    | 1 => simp [fieldOf, numSegments] <;> omega
    | j + 2 =>
      simp only [List.getElem?_cons_succ, List.getElem?_map]
      rcases Nat.lt_trichotomy j L with hj | hj | hj
      · have h2 : j + 2 < 1 + 1 + L + 1 := by omega
        rw [hget j hj, if_pos h2]; simp [fieldOf, numSegments]; omega
      · subst hj
        have h2 : j + 2 < 1 + 1 + j + 1 := by omega
        rw [hlast, if_pos h2]; simp [fieldOf, numSegments]; omega
      · have h2 : ¬ j + 2 < 1 + 1 + L + 1 := by omega
        rw [hnone j hj, if_neg h2]; rfl
  · simp only [digestMsgs, numSegments, friCommitments, if_true, List.cons_append, List.nil_append, List.map_cons]
    match k with
    | 0 => simp [fieldOf]
    | 1 => simp [fieldOf] <;> omega
    | 2 => simp [fieldOf, numSegments] <;> omega
    | j + 3 =>
      simp only [List.getElem?_cons_succ, List.getElem?_map]
      rcases Nat.lt_trichotomy j L with hj | hj | hj
      · have h2 : j + 3 < 2 + 1 + L + 1 := by omega
        rw [hget j hj, if_pos h2]; simp [fieldOf, numSegments]; omega
      · subst hj
        have h2 : j + 3 < 2 + 1 + j + 1 := by omega
        rw [hlast, if_pos h2]; simp [fieldOf, numSegments]; omega
      · have h2 : ¬ j + 3 < 2 + 1 + L + 1 := by omega
        rw [hnone j hj, if_neg h2]; rfl

/-- the messages that are digests carried in `proof.commitments` (all but the two out-of-domain hashes) -/
def isDigestMsg : Msg → Bool
  | .oodTraceFrameHash => false
  | .oodEvaluationsHash => false
  | _ => true

/-- the prover builds `proof.commitments` by appending, in `commit_trace` / `commit_constraints` /
    `commit_fri_layer`, the very digest it passes to `reseed` (`self.commitments.add(&d); self.public_coin.reseed(d)`):
    the commitments of the proof are the values of the digest messages in the order of the prover's script -/
def proverCommitments {D : Type} (val : Msg → D) (cfg : Cfg) : List D :=
  ((absorbedMsgs (proverScript cfg)).filter isDigestMsg).map val

/-- the prover hashes for the coin the same out-of-domain elements it writes into the proof
    (`set_trace_states` returns `hash_elements` of what it wrote; `send_ood_constraint_evaluations`) -/
def proverProof {D E : Type} (val : Msg → D) (oodT oodE rem : List E) (cfg : Cfg) : ProofData D E :=
  { commitments := proverCommitments val cfg, oodTraceStates := oodT, oodEvaluations := oodE, friRemainder := rem, rest := 0 }

/-- what the prover passes to `reseed` for message `m` -/
def proverAbsorbs {D E : Type} (h : List E → D) (val : Msg → D) (oodT oodE : List E) : Msg → D
  | .oodTraceFrameHash => h oodT
  | .oodEvaluationsHash => h oodE
  | m => val m

theorem proverCommitments_eq {D : Type} (val : Msg → D) (cfg : Cfg) :
    proverCommitments val cfg = (digestMsgs cfg).map val := by
  unfold proverCommitments
  rw [(absorbed_messages cfg).2]
  rcases cfg with ⟨aux, lag, _, _, _, _, _, _, _, L, _, _, _, _⟩
  have hall : ∀ m ∈ friCommitmentsFrom 0 L, isDigestMsg m = true := by
    intro m hm
    rcases (mem_friCommitmentsFrom m L 0).mp hm with h | ⟨j, _, _, h⟩ <;> subst h <;> rfl
  have hf := filter_eq_self_of_all isDigestMsg _ hall
  cases aux <;> simp [allMsgs, digestMsgs, friCommitments, List.filter_cons, hf, isDigestMsg]

theorem mem_digestMsgs_of_mem_allMsgs (cfg : Cfg) (m : Msg) (hm : m ∈ allMsgs cfg) (hd : isDigestMsg m = true) :
    m ∈ digestMsgs cfg := by
  rcases cfg with ⟨aux, lag, _, _, _, _, _, _, _, L, _, _, _, _⟩
  cases aux <;> cases m <;> simp_all [allMsgs, digestMsgs, isDigestMsg, friCommitments]

/-- ★ (3c) prover and verifier absorb the same VALUES: on the proof the prover builds, the verifier passes to
    `reseed`, for every message of the protocol, exactly the digest the prover passed to `reseed` for it -/
theorem verifier_absorbs_what_prover_absorbed {D E : Type} (h : List E → D) (val : Msg → D)
    (oodT oodE rem : List E) (cfg : Cfg) (m : Msg) (hm : m ∈ allMsgs cfg) :
    verifierAbsorbs h cfg (proverProof val oodT oodE rem cfg) m = some (proverAbsorbs h val oodT oodE m) := by
  have hslots := (digest_messages_are_the_commitment_slots cfg).1
  have hcm := proverCommitments_eq val cfg
  -- a digest message at position k of digestMsgs sits in slot k
  have key : ∀ k m', (digestMsgs cfg)[k]? = some m' → fieldOf cfg m' = .commitment k := by
    intro k m' hk
    have h1 : ((digestMsgs cfg).map (fieldOf cfg))[k]? = some (fieldOf cfg m') := by simp [hk]
    rw [hslots, getElem?_range_map] at h1
    by_cases hk' : k < numSegments cfg + 1 + cfg.friLayers + 1
    · simp [hk'] at h1; exact h1.symm
    · simp [hk'] at h1
  cases hd : isDigestMsg m
  · cases m <;> simp [isDigestMsg] at hd <;>
      simp [verifierAbsorbs, fieldOf, ProofData.field, proverProof, absorbOf, proverAbsorbs]
  · obtain ⟨k, hk⟩ := List.getElem?_of_mem (mem_digestMsgs_of_mem_allMsgs cfg m hm hd)
    have hfield := key k m hk
    have hval : proverAbsorbs h val oodT oodE m = val m := by
      cases m <;> simp [isDigestMsg] at hd <;> rfl
    simp only [verifierAbsorbs, hfield, ProofData.field, proverProof, hcm, List.getElem?_map, hk, Option.map_some,
      absorbOf, hval]

/-- ★ (3d) the remainder polynomial the verifier evaluates in its last check is bound to the transcript: when
    the comparison of `FriVerifier::verify_generic` passes, the value absorbed for the remainder commitment —
    before the proof-of-work check and the query positions — is the hash of the remainder carried in the FRI
    proof (the pinned tree did not make this comparison; see known_findings.json, 21c4b77) -/
theorem remainder_is_bound {D E : Type} [DecidableEq D] (h : List E → D) (cfg : Cfg) (p : ProofData D E)
    (hb : remainderBound h cfg p = true) :
    verifierAbsorbs h cfg p .remainderCommitment = some (h p.friRemainder) := by
  simpa [remainderBound] using hb

-- =================================================================== (4) the context part of the seed
/-- FULL STATEMENT: the elements the coin is seeded with determine the proof context (so that "the coin has
    absorbed the context" means what it says): two valid contexts over the same field with the same
    `Context::to_elements` are equal -/
def CtxInjective : Prop :=
  ∀ c c' : Ctx, c.valid → c'.valid → c.elemBytes = c'.elemBytes → ctxElems c = ctxElems c' → c = c'

/-- two contexts that differ only in the trace metadata: `[5]` and `[5, 0]` -/
def ctxA : Ctx :=
  { mainWidth := 1, auxWidth := 0, auxRands := 0, traceLen := 8, traceMeta := [5], modulus := 18446744069414584321,
    elemBytes := 8, queries := 1, blowup := 2, grinding := 0, ext := 1, folding := 2, remainder := 0 }

def ctxB : Ctx := { ctxA with traceMeta := [5, 0] }

/-- ✗ the full statement is FALSE for the code as it is (known finding c04.seed.context-collision.trace-meta):
    `TraceInfo::to_elements` zero-pads the metadata chunks and does not encode the metadata length, so trailing
    zero bytes of the metadata do not reach the seed -/
theorem ctx_injective_fails : ¬ CtxInjective := by
  intro h
  have hA : ctxA.valid := by unfold Ctx.valid; decide
  have hB : ctxB.valid := by unfold Ctx.valid; decide
  have := h ctxA ctxB hA hB rfl (by decide)
  exact absurd this (by decide)

/-- ◐ what holds: the seed elements determine the context among contexts whose metadata have the same LENGTH
    (in particular for all contexts without metadata, which is every context the harness can produce); the guard
    excludes exactly the defect above -/
theorem ctx_injective_partial (c c' : Ctx) (hv : c.valid) (hv' : c'.valid) (hE : c.elemBytes = c'.elemBytes)
    (hL : c.traceMeta.length = c'.traceMeta.length) (h : ctxElems c = ctxElems c') : c = c' := by
  obtain ⟨h1, h2, h3, h4, h5, h6, h7, h8, h9, h10, h11⟩ := hv
  obtain ⟨h1', h2', h3', h4', h5', h6', h7', h8', h9', h10', h11'⟩ := hv'
  unfold ctxElems traceInfoElems at h
  simp only [List.append_assoc, List.cons_append, List.nil_append, List.cons.injEq] at h
  obtain ⟨hbuf, hlen, hrest⟩ := h
  have hn : 0 < c.elemBytes - 1 := by omega
  have hcl : ((chunksOf (c.elemBytes - 1) c.traceMeta.length c.traceMeta).map Model.Coin.leVal).length
      = ((chunksOf (c'.elemBytes - 1) c'.traceMeta.length c'.traceMeta).map Model.Coin.leVal).length := by
    rw [List.length_map, List.length_map, ← hE, length_chunksOf _ hn _ _ (Nat.le_refl _),
      length_chunksOf _ hn _ _ (Nat.le_refl _), hL]
  obtain ⟨hch, htail⟩ := List.append_inj hrest hcl
  simp only [List.cons.injEq, and_true] at htail
  obtain ⟨hlo, hhi, hopt, hg, hb, hq⟩ := htail
  -- metadata
  have hmeta : c.traceMeta = c'.traceMeta := by
    rw [← hE, ← hL] at hch
    exact chunks_inj _ hn _ _ _ hL (Nat.le_refl _) h6 h6' hch
  -- trace length
  have htl : c.traceLen = c'.traceLen := by
    rw [Nat.mod_eq_of_lt h5, Nat.mod_eq_of_lt h5'] at hlen; exact hlen
  -- modulus
  have hmod : c.modulus = c'.modulus := by
    rw [← hE] at hlo hhi
    have e1 := Nat.div_add_mod c.modulus (2 ^ (8 * (c.elemBytes / 2)))
    have e2 := Nat.div_add_mod c'.modulus (2 ^ (8 * (c.elemBytes / 2)))
    rw [← e1, ← e2, hlo, hhi]
  -- widths
  have hw : c.mainWidth = c'.mainWidth ∧ c.auxWidth = c'.auxWidth ∧ c.auxRands = c'.auxRands := by
    by_cases ha : c.auxWidth > 0 <;> by_cases ha' : c'.auxWidth > 0 <;> simp only [ha, ha', if_true, if_false] at hbuf
    · omega
    · omega
    · omega
    · have := h4 (by omega); have := h4' (by omega); omega
  -- options
  have hopts : c.ext = c'.ext ∧ c.folding = c'.folding ∧ c.remainder = c'.remainder := by omega
  obtain ⟨hw1, hw2, hw3⟩ := hw
  obtain ⟨ho1, ho2, ho3⟩ := hopts
  cases c; cases c'
  simp only [Ctx.mk.injEq]
  exact ⟨hw1, hw2, hw3, htl, hmeta, hmod, hE, hq, hb, hg, ho1, ho2, ho3⟩

example : ctxA.valid ∧ ctxA.traceMeta.length = ({ ctxA with traceMeta := [6] } : Ctx).traceMeta.length := by
  refine ⟨by unfold Ctx.valid; decide, rfl⟩

-- =================================================================== examples
/-- a 2-segment AIR (auxiliary segment with Lagrange kernel) with 3 FRI layers, quadratic extension -/
def cfg23 : Cfg :=
  { aux := true, lagrange := true, gkrDraws := 3, auxRands := 2, nTrans := 4, nAssert := 3, logLen := 3, width := 5,
    cols := 2, friLayers := 3, queries := 4, ldeSize := 64, ext := 2, grinding := 5 }

example : proverScript cfg23 =
    [.new [.context, .pubInputs], .reseed .mainTraceRoot, .draw .gkr 3, .draw .auxRand 2, .reseed .auxTraceRoot,
     .draw .compCoeffs 11, .reseed .constraintRoot, .draw .oodPoint 1, .reseed .oodTraceFrameHash,
     .reseed .oodEvaluationsHash, .draw .deepCoeffs 8,
     .reseed (.friLayerRoot 0), .draw (.friAlpha 0) 1, .reseed (.friLayerRoot 1), .draw (.friAlpha 1) 1,
     .reseed (.friLayerRoot 2), .draw (.friAlpha 2) 1, .reseed .remainderCommitment,
     .checkPow, .reseedWithNonce, .drawInts 4 64] := by decide

example : verifierScript cfg23 =
    [.new [.context, .pubInputs], .reseed .mainTraceRoot, .draw .gkr 3, .draw .auxRand 2, .reseed .auxTraceRoot,
     .draw .compCoeffs 11, .reseed .constraintRoot, .draw .oodPoint 1, .reseed .oodTraceFrameHash,
     .reseed .oodEvaluationsHash, .draw .deepCoeffs 8,
     .reseed (.friLayerRoot 0), .draw (.friAlpha 0) 1, .reseed (.friLayerRoot 1), .draw (.friAlpha 1) 1,
     .reseed (.friLayerRoot 2), .draw (.friAlpha 2) 1, .reseed .remainderCommitment, .draw (.friAlpha 3) 1,
     .checkPow, .reseedWithNonce, .drawInts 4 64] := by decide

example : dropUnused cfg23 (verifierScript cfg23) = proverScript cfg23 := by decide

/-- instance of (1): in the verifier's script of `cfg23` the second FRI challenge comes after the context, the
    public inputs and the seven messages that precede it -/
example : ∀ x ∈ [Event.seed .context, .seed .pubInputs, .msg .mainTraceRoot, .msg .auxTraceRoot, .msg .constraintRoot,
      .msg .oodTraceFrameHash, .msg .oodEvaluationsHash, .msg (.friLayerRoot 0), .msg (.friLayerRoot 1)],
    ∀ pre post, events (verifierScript cfg23) = pre ++ .chal (.elems (.friAlpha 1)) :: post → x ∈ pre := by
  intro x hx pre post hs
  have ha : x.isAbsorbed = true := by revert x; decide
  have hb : Before (protocol cfg23) x (.chal (.elems (.friAlpha 1))) := by
    refine ⟨(protocol cfg23).take 15, (protocol cfg23).drop 16, by decide, ?_⟩
    revert x; decide
  exact verifier_challenges_after_all_earlier_messages cfg23 _ x ha hb pre post hs

/-- single segment, no FRI layer: only the remainder is committed in the FRI phase -/
def cfg10 : Cfg :=
  { aux := false, lagrange := false, gkrDraws := 0, auxRands := 0, nTrans := 1, nAssert := 2, logLen := 3, width := 1,
    cols := 1, friLayers := 0, queries := 2, ldeSize := 16, ext := 1, grinding := 0 }

example : verifierScript cfg10 =
    [.new [.context, .pubInputs], .reseed .mainTraceRoot, .draw .compCoeffs 3, .reseed .constraintRoot,
     .draw .oodPoint 1, .reseed .oodTraceFrameHash, .reseed .oodEvaluationsHash, .draw .deepCoeffs 2,
     .reseed .remainderCommitment, .draw (.friAlpha 0) 1, .checkPow, .reseedWithNonce, .drawInts 2 16] := by decide

-- =================================================================== tie T: the scripts extracted from the sources
/-- ★ both scripts the theorems of this file are about ARE the sequences of public-coin operations extracted,
    syntactically and in source order, from verifier/src/lib.rs `perform_verification` and from
    prover/src/lib.rs `Prover::generate_proof` (+ its commit helpers and the `ProverChannel` methods of
    prover/src/channel.rs) on this run (Winter/Gen/TranscriptScript.lean), under the leaf meanings of
    WinterProofs/Lemmas/C04Gen.lean, for every configuration: a reordering of two coin operations, a call moved
    into or out of the multi-segment / Lagrange branches, a dropped or duplicated call in those functions breaks
    this theorem -/
theorem scripts_eq_extracted (cfg : Cfg) :
    (C04G.interp (C04G.vLeaf cfg) (C04G.condOf cfg) 64 Gen.TranscriptScript.perform_verification).map
        (fun ops => CoinOp.new [.context, .pubInputs] :: ops) = some (verifierScript cfg) ∧
    C04G.interp (C04G.pLeaf cfg) (C04G.condOf cfg) 64 Gen.TranscriptScript.generate_proof
      = some (proverScript cfg) :=
  ⟨C04G.verifier_script_eq_extracted cfg, C04G.prover_script_eq_extracted cfg⟩

end C04
