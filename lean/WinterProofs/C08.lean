-- C08: extension fields — arithmetic equals polynomial arithmetic modulo the documented irreducible
-- (property theorems; helper lemmas in WinterProofs/Lemmas/C08*.lean).
--
-- Objects.  `Gen.F64|F62|F128.ext2_*`, `ext3_*` are the `ExtensibleField<2>`/`<3>` bodies regenerated from
-- math/src/field/{f64,f62,f128}/mod.rs on every run, written against a record `Gen.FOps F` of base operations.
-- `Model.Quad` / `Model.Cube` (Winter/Model/Ext.lean) model `QuadExtension` / `CubeExtension` on top of them.
-- Here the record is instantiated with the operations of an arbitrary commutative ring `R` (`ringOps R`), resp. of
-- the prime field `ZMod p` (`fieldBOps p`), and elements are read in the quotient rings
--   `PQ2 R s t = R[x]/(x² - s·x - t)`,   `PQ3 R s t = R[x]/(x³ - s·x - t)`   (pairs / triples, `CommRing`,
--   `evalRoot`: evaluation at any root of the polynomial in any commutative ring is a ring homomorphism).
-- Documented irreducibles: f64 quadratic x² - x + 2 (s,t = 1,-2); f62 and f128 quadratic x² - x - 1 (1,1);
-- f64 cubic x³ - x - 1 (1,1); f62 cubic x³ + 2x + 2 (-2,-2).
--
-- Taken as hypotheses (they belong to property C07): primality of the three moduli (`Fact (Nat.Prime M)`), and that
-- the raw-word operations of each base field implement `ZMod M` (the theorems below are about `ZMod M`; the
-- generated formulas are polymorphic in the operation record and the driver runs them on the raw-word operations).
import WinterProofs.Lemmas.C08Transfer
import WinterProofs.Lemmas.C08Bytes
import WinterProofs.Lemmas.C08Irred

set_option linter.unusedSectionVars false
set_option linter.unusedSimpArgs false
set_option linter.unusedTactic false
set_option linter.unreachableTactic false
set_option linter.unnecessarySeqFocus false

namespace WinterProofs.C08
open Model WinterProofs.C08L

-- ================================================================================================
-- 1. The generated formulas are schoolbook multiplication reduced by the documented irreducible (any ring)
-- ================================================================================================
section Formulas
variable {R : Type} [CommRing R]

/-- f64, degree 2: product reduced by x² = x - 2; the dedicated squaring equals the product; `mul_base` is the
    product with a constant; `frobenius` is `φ ↦ 1 - φ` -/
theorem q64_spec : Spec2 (Ext2.f64 (ringOps R)) 1 (-2) where
  mul a0 a1 b0 b1 := by
    simp only [Ext2.f64, Gen.F64.ext2_mul, Gen.F64.ext2_mul.s_a0b0, ringOps]
    refine Prod.ext ?_ ?_ <;> simp only [] <;> ring
  square a0 a1 := by
    simp only [Ext2.f64, Gen.F64.ext2_mul, Gen.F64.ext2_mul.s_a0b0, Gen.F64.ext2_square,
      Gen.F64.ext2_square.s_a0, Gen.F64.ext2_square.s_a1, Gen.F64.ext2_square.s_a1_sq,
      Gen.F64.ext2_square.s_out0, Gen.F64.ext2_square.s_out1, ringOps]
    refine Prod.ext ?_ ?_ <;> simp only [] <;> ring
  mulBase a0 a1 b := by simp [Ext2.f64, Gen.F64.ext2_mul_base, ringOps]
  frobenius x0 x1 := by simp [Ext2.f64, Gen.F64.ext2_frobenius, ringOps]

/-- f62, degree 2: product reduced by x² = x + 1 (squaring is the trait default `mul(a, a)`) -/
theorem q62_spec : Spec2 (Ext2.f62 (ringOps R)) 1 1 where
  mul a0 a1 b0 b1 := by
    simp only [Ext2.f62, Gen.F62.ext2_mul, Gen.F62.ext2_mul.s_z, ringOps]
    refine Prod.ext ?_ ?_ <;> simp only [] <;> ring
  square a0 a1 := rfl
  mulBase a0 a1 b := by simp [Ext2.f62, Gen.F62.ext2_mul_base, ringOps]
  frobenius x0 x1 := by simp [Ext2.f62, Gen.F62.ext2_frobenius, ringOps]

/-- f128, degree 2: product reduced by x² = x + 1 -/
theorem q128_spec : Spec2 (Ext2.f128 (ringOps R)) 1 1 where
  mul a0 a1 b0 b1 := by
    simp only [Ext2.f128, Gen.F128.ext2_mul, Gen.F128.ext2_mul.s_z, ringOps]
    refine Prod.ext ?_ ?_ <;> simp only [] <;> ring
  square a0 a1 := rfl
  mulBase a0 a1 b := by simp [Ext2.f128, Gen.F128.ext2_mul_base, ringOps]
  frobenius x0 x1 := by simp [Ext2.f128, Gen.F128.ext2_frobenius, ringOps]

/-- the Frobenius coefficients written in math/src/field/f64/mod.rs ("computed using SageMath") -/
def k64 (R : Type) [CommRing R] : FrobK R :=
  ⟨(10615703402128488253 : ℕ), (10050274602728160328 : ℕ), (11746561000929144102 : ℕ),
   (6700183068485440220 : ℕ), (14531223735771536287 : ℕ), (8396469466686423992 : ℕ)⟩

/-- the Frobenius coefficients written in math/src/field/f62/mod.rs -/
def k62 (R : Type) [CommRing R] : FrobK R :=
  ⟨(2061766055618274781 : ℕ), (2868591307402993000 : ℕ), (2699230790596717670 : ℕ),
   (786836585661389001 : ℕ), (3336695525575160559 : ℕ), (1743033688129053336 : ℕ)⟩

/-- f64, degree 3: product reduced by x³ = x + 1; dedicated squaring equals the product; `frobenius` is the linear
    map with the coefficients `k64` -/
theorem c64_spec : Spec3 (Ext3.f64 (ringOps R)) 1 1 (k64 R) where
  mul a0 a1 a2 b0 b1 b2 := by
    simp only [Ext3.f64, Gen.F64.ext3_mul, Gen.F64.ext3_mul.s_a0b0, Gen.F64.ext3_mul.s_a1b1,
      Gen.F64.ext3_mul.s_a2b2, Gen.F64.ext3_mul.s_a0b0_a0b1_a1b0_a1b1, Gen.F64.ext3_mul.s_a0b0_a0b2_a2b0_a2b2,
      Gen.F64.ext3_mul.s_a1b1_a1b2_a2b1_a2b2, Gen.F64.ext3_mul.s_a0b0_minus_a1b1,
      Gen.F64.ext3_mul.s_a0b0_a1b2_a2b1, Gen.F64.ext3_mul.s_a0b1_a1b0_a1b2_a2b1_a2b2,
      Gen.F64.ext3_mul.s_a0b2_a1b1_a2b0_a2b2, ringOps]
    refine Prod.ext ?_ (Prod.ext ?_ ?_) <;> simp only [] <;> ring
  square a0 a1 a2 := by
    simp only [Ext3.f64, Gen.F64.ext3_mul, Gen.F64.ext3_mul.s_a0b0, Gen.F64.ext3_mul.s_a1b1,
      Gen.F64.ext3_mul.s_a2b2, Gen.F64.ext3_mul.s_a0b0_a0b1_a1b0_a1b1, Gen.F64.ext3_mul.s_a0b0_a0b2_a2b0_a2b2,
      Gen.F64.ext3_mul.s_a1b1_a1b2_a2b1_a2b2, Gen.F64.ext3_mul.s_a0b0_minus_a1b1,
      Gen.F64.ext3_mul.s_a0b0_a1b2_a2b1, Gen.F64.ext3_mul.s_a0b1_a1b0_a1b2_a2b1_a2b2,
      Gen.F64.ext3_mul.s_a0b2_a1b1_a2b0_a2b2, Gen.F64.ext3_square, Gen.F64.ext3_square.s_a0,
      Gen.F64.ext3_square.s_a1, Gen.F64.ext3_square.s_a2, Gen.F64.ext3_square.s_a2_sq,
      Gen.F64.ext3_square.s_a1_a2, Gen.F64.ext3_square.s_out0, Gen.F64.ext3_square.s_out1,
      Gen.F64.ext3_square.s_out2, ringOps]
    refine Prod.ext ?_ (Prod.ext ?_ ?_) <;> simp only [] <;> ring
  mulBase a0 a1 a2 b := by simp [Ext3.f64, Gen.F64.ext3_mul_base, ringOps]
  frobenius x0 x1 x2 := by simp [Ext3.f64, Gen.F64.ext3_frobenius, ringOps, k64]

/-- f62, degree 3: product reduced by x³ = -2x - 2 -/
theorem c62_spec : Spec3 (Ext3.f62 (ringOps R)) (-2) (-2) (k62 R) where
  mul a0 a1 a2 b0 b1 b2 := by
    simp only [Ext3.f62, Gen.F62.ext3_mul, Gen.F62.ext3_mul.s_a0b0, Gen.F62.ext3_mul.s_a1b1,
      Gen.F62.ext3_mul.s_a2b2, Gen.F62.ext3_mul.s_a0b0_a0b1_a1b0_a1b1,
      Gen.F62.ext3_mul.s_minus_a0b0_a0b2_a2b0_minus_a2b2, Gen.F62.ext3_mul.s_a1b1_minus_a1b2_minus_a2b1_a2b2,
      Gen.F62.ext3_mul.s_a0b0_a1b1, Gen.F62.ext3_mul.s_minus_2a1b2_minus_2a2b1,
      Gen.F62.ext3_mul.s_a0b0_minus_2a1b2_minus_2a2b1,
      Gen.F62.ext3_mul.s_a0b1_a1b0_minus_2a1b2_minus_2a2b1_minus_2a2b2,
      Gen.F62.ext3_mul.s_a0b2_a1b1_a2b0_minus_2a2b2, ringOps]
    refine Prod.ext ?_ (Prod.ext ?_ ?_) <;> simp only [] <;> ring
  square a0 a1 a2 := rfl
  mulBase a0 a1 a2 b := by simp [Ext3.f62, Gen.F62.ext3_mul_base, ringOps]
  frobenius x0 x1 x2 := by simp [Ext3.f62, Gen.F62.ext3_frobenius, ringOps, k62]

/-- the generator `φ` of each quotient ring is a root of the documented polynomial -/
theorem documented_irreducibles :
    ((PQ2.φ : PQ2 R 1 (-2)) ^ 2 - PQ2.φ + PQ2.C 2 = 0) ∧       -- f64:        x² - x + 2
    ((PQ2.φ : PQ2 R 1 1) ^ 2 - PQ2.φ - 1 = 0) ∧                 -- f62, f128:  x² - x - 1
    ((PQ3.φ : PQ3 R 1 1) ^ 3 - PQ3.φ - 1 = 0) ∧                 -- f64:        x³ - x - 1
    ((PQ3.φ : PQ3 R (-2) (-2)) ^ 3 + PQ3.C 2 * PQ3.φ + PQ3.C 2 = 0) := by   -- f62: x³ + 2x + 2
  refine ⟨?_, ?_, ?_, ?_⟩
  · have := PQ2.φ_root (R := R) (s := 1) (t := -2)
    rw [map_one, one_mul, map_neg, sub_neg_eq_add] at this
    exact this
  · have := PQ2.φ_root (R := R) (s := 1) (t := 1)
    rw [map_one, one_mul] at this
    exact this
  · have := PQ3.φ_root (R := R) (s := 1) (t := 1)
    rw [map_one, one_mul] at this
    exact this
  · have := PQ3.φ_root (R := R) (s := -2) (t := -2)
    rw [map_neg, neg_mul, sub_neg_eq_add, sub_neg_eq_add] at this
    exact this

end Formulas

-- ================================================================================================
-- 2. The model's arithmetic is the arithmetic of the quotient ring (any commutative ring `R`)
-- ================================================================================================
section Arithmetic
variable {R : Type} [CommRing R] [DecidableEq R] (inv : R → R)

/-- quadratic extensions: `*`, `square`, `mul_base`, `+`, `-`, `neg`, `double`, `exp` computed by the model are the
    operations of `R[x]/(x² - s·x - t)` -/
theorem quad_arithmetic {s t : R} {X : Ext2 R} (h : Spec2 X s t) (a b : Quad R) (c : R) :
    q2 s t (Quad.mul X a b) = q2 s t a * q2 s t b ∧
    Quad.square X a = Quad.mul X a a ∧
    q2 s t (Quad.mulBase X a c) = q2 s t a * PQ2.C c ∧
    q2 s t (Quad.add (ringBOps R inv) a b) = q2 s t a + q2 s t b ∧
    q2 s t (Quad.sub (ringBOps R inv) a b) = q2 s t a - q2 s t b ∧
    q2 s t (Quad.neg (ringBOps R inv) a) = -q2 s t a ∧
    q2 s t (Quad.double (ringBOps R inv) a) = q2 s t a + q2 s t a ∧
    (∀ e : ℕ, q2 s t (Quad.exp (ringBOps R inv) X a e) = q2 s t a ^ e) :=
  ⟨q2_mul h a b, q2_square h a, q2_mulBase h a c, q2_add inv a b, q2_sub inv a b, q2_neg inv a, q2_double inv a,
    q2_exp inv h a⟩

example : Spec2 (Ext2.f64 (ringOps ℤ)) 1 (-2) := q64_spec

/-- cubic extensions: the same for `R[x]/(x³ - s·x - t)` -/
theorem cube_arithmetic {s t : R} {k : FrobK R} {X : Ext3 R} (h : Spec3 X s t k) (a b : Cube R) (c : R) :
    q3 s t (Cube.mul X a b) = q3 s t a * q3 s t b ∧
    Cube.square X a = Cube.mul X a a ∧
    q3 s t (Cube.mulBase X a c) = q3 s t a * PQ3.C c ∧
    q3 s t (Cube.add (ringBOps R inv) a b) = q3 s t a + q3 s t b ∧
    q3 s t (Cube.sub (ringBOps R inv) a b) = q3 s t a - q3 s t b ∧
    q3 s t (Cube.neg (ringBOps R inv) a) = -q3 s t a ∧
    q3 s t (Cube.double (ringBOps R inv) a) = q3 s t a + q3 s t a ∧
    (∀ e : ℕ, q3 s t (Cube.exp (ringBOps R inv) X a e) = q3 s t a ^ e) :=
  ⟨q3_mul h a b, q3_square h a, q3_mulBase h a c, q3_add inv a b, q3_sub inv a b, q3_neg inv a, q3_double inv a,
    q3_exp inv h a⟩

example : Spec3 (Ext3.f62 (ringOps ℤ)) (-2) (-2) (k62 ℤ) := c62_spec

/-- polynomial arithmetic modulo the irreducible, stated without the carrier: for every commutative ring `S`,
    homomorphism `i : R →+* S` and root `r` of `x² - s·x - t` in `S`, the map `a ↦ i a₀ + i a₁·r` sends the model's
    product / sum / one to product / sum / one -/
theorem quad_eval_root {s t : R} {X : Ext2 R} (h : Spec2 X s t) {S : Type} [CommRing S] (i : R →+* S) (r : S)
    (hr : r ^ 2 = i s * r + i t) (a b : Quad R) :
    (i (Quad.mul X a b).c0 + i (Quad.mul X a b).c1 * r = (i a.c0 + i a.c1 * r) * (i b.c0 + i b.c1 * r)) ∧
    (i (Quad.add (ringBOps R inv) a b).c0 + i (Quad.add (ringBOps R inv) a b).c1 * r =
      (i a.c0 + i a.c1 * r) + (i b.c0 + i b.c1 * r)) ∧
    (i (Quad.one (ringBOps R inv)).c0 + i (Quad.one (ringBOps R inv)).c1 * r = 1) := by
  refine ⟨?_, ?_, ?_⟩
  · have := map_mul (PQ2.evalRoot i r hr) (q2 s t a) (q2 s t b)
    rw [← q2_mul h] at this
    exact this
  · have := map_add (PQ2.evalRoot i r hr) (q2 s t a) (q2 s t b)
    rw [← q2_add inv] at this
    exact this
  · have := map_one (PQ2.evalRoot (s := s) (t := t) i r hr)
    rw [← q2_one inv] at this
    exact this

theorem cube_eval_root {s t : R} {k : FrobK R} {X : Ext3 R} (h : Spec3 X s t k) {S : Type} [CommRing S]
    (i : R →+* S) (r : S) (hr : r ^ 3 = i s * r + i t) (a b : Cube R) :
    (i (Cube.mul X a b).c0 + i (Cube.mul X a b).c1 * r + i (Cube.mul X a b).c2 * r ^ 2 =
      (i a.c0 + i a.c1 * r + i a.c2 * r ^ 2) * (i b.c0 + i b.c1 * r + i b.c2 * r ^ 2)) ∧
    (i (Cube.add (ringBOps R inv) a b).c0 + i (Cube.add (ringBOps R inv) a b).c1 * r +
        i (Cube.add (ringBOps R inv) a b).c2 * r ^ 2 =
      (i a.c0 + i a.c1 * r + i a.c2 * r ^ 2) + (i b.c0 + i b.c1 * r + i b.c2 * r ^ 2)) ∧
    (i (Cube.one (ringBOps R inv)).c0 + i (Cube.one (ringBOps R inv)).c1 * r +
      i (Cube.one (ringBOps R inv)).c2 * r ^ 2 = 1) := by
  refine ⟨?_, ?_, ?_⟩
  · have := map_mul (PQ3.evalRoot i r hr) (q3 s t a) (q3 s t b)
    rw [← q3_mul h] at this
    exact this
  · have := map_add (PQ3.evalRoot i r hr) (q3 s t a) (q3 s t b)
    rw [← q3_add inv] at this
    exact this
  · have := map_one (PQ3.evalRoot (s := s) (t := t) i r hr)
    rw [← q3_one inv] at this
    exact this

/-- `From<B>` is an injective ring homomorphism (quadratic) -/
theorem quad_embedding {s t : R} {X : Ext2 R} (h : Spec2 X s t) (x y : R) :
    Quad.ofBase (ringBOps R inv) (x * y) =
      Quad.mul X (Quad.ofBase (ringBOps R inv) x) (Quad.ofBase (ringBOps R inv) y) ∧
    Quad.ofBase (ringBOps R inv) (x + y) =
      Quad.add (ringBOps R inv) (Quad.ofBase (ringBOps R inv) x) (Quad.ofBase (ringBOps R inv) y) ∧
    Quad.ofBase (ringBOps R inv) (x - y) =
      Quad.sub (ringBOps R inv) (Quad.ofBase (ringBOps R inv) x) (Quad.ofBase (ringBOps R inv) y) ∧
    Quad.ofBase (ringBOps R inv) (-x) = Quad.neg (ringBOps R inv) (Quad.ofBase (ringBOps R inv) x) ∧
    Quad.ofBase (ringBOps R inv) 1 = Quad.one (ringBOps R inv) ∧
    Quad.ofBase (ringBOps R inv) 0 = Quad.zero (ringBOps R inv) ∧
    (Quad.ofBase (ringBOps R inv) x = Quad.ofBase (ringBOps R inv) y → x = y) := by
  refine ⟨?_, ?_, ?_, ?_, rfl, rfl, ?_⟩
  · apply q2_injective s t
    rw [q2_mul h, q2_ofBase, q2_ofBase, q2_ofBase, map_mul]
  · apply q2_injective s t
    rw [q2_add, q2_ofBase, q2_ofBase, q2_ofBase, map_add]
  · apply q2_injective s t
    rw [q2_sub, q2_ofBase, q2_ofBase, q2_ofBase, map_sub]
  · apply q2_injective s t
    rw [q2_neg, q2_ofBase, q2_ofBase, map_neg]
  · intro hxy
    exact congrArg Quad.c0 hxy

/-- `From<B>` is an injective ring homomorphism (cubic) -/
theorem cube_embedding {s t : R} {k : FrobK R} {X : Ext3 R} (h : Spec3 X s t k) (x y : R) :
    Cube.ofBase (ringBOps R inv) (x * y) =
      Cube.mul X (Cube.ofBase (ringBOps R inv) x) (Cube.ofBase (ringBOps R inv) y) ∧
    Cube.ofBase (ringBOps R inv) (x + y) =
      Cube.add (ringBOps R inv) (Cube.ofBase (ringBOps R inv) x) (Cube.ofBase (ringBOps R inv) y) ∧
    Cube.ofBase (ringBOps R inv) (x - y) =
      Cube.sub (ringBOps R inv) (Cube.ofBase (ringBOps R inv) x) (Cube.ofBase (ringBOps R inv) y) ∧
    Cube.ofBase (ringBOps R inv) (-x) = Cube.neg (ringBOps R inv) (Cube.ofBase (ringBOps R inv) x) ∧
    Cube.ofBase (ringBOps R inv) 1 = Cube.one (ringBOps R inv) ∧
    Cube.ofBase (ringBOps R inv) 0 = Cube.zero (ringBOps R inv) ∧
    (Cube.ofBase (ringBOps R inv) x = Cube.ofBase (ringBOps R inv) y → x = y) := by
  refine ⟨?_, ?_, ?_, ?_, rfl, rfl, ?_⟩
  · apply q3_injective s t
    rw [q3_mul h, q3_ofBase, q3_ofBase, q3_ofBase, map_mul]
  · apply q3_injective s t
    rw [q3_add, q3_ofBase, q3_ofBase, q3_ofBase, map_add]
  · apply q3_injective s t
    rw [q3_sub, q3_ofBase, q3_ofBase, q3_ofBase, map_sub]
  · apply q3_injective s t
    rw [q3_neg, q3_ofBase, q3_ofBase, map_neg]
  · intro hxy
    exact congrArg Cube.c0 hxy

/-- quadratic conjugation (`φ ↦ s - φ`) over any commutative ring: multiplicative, additive, unital, an involution
    (hence bijective), fixes the embedded base ring; and when `s = 1` (all three documented quadratics) it fixes
    exactly the embedded base ring -/
theorem quad_conjugate_automorphism {s t : R} {X : Ext2 R} (h : Spec2 X s t) (a b : Quad R) (x : R) :
    Quad.conjugate X (Quad.mul X a b) = Quad.mul X (Quad.conjugate X a) (Quad.conjugate X b) ∧
    Quad.conjugate X (Quad.add (ringBOps R inv) a b) =
      Quad.add (ringBOps R inv) (Quad.conjugate X a) (Quad.conjugate X b) ∧
    Quad.conjugate X (Quad.one (ringBOps R inv)) = Quad.one (ringBOps R inv) ∧
    Quad.conjugate X (Quad.conjugate X a) = a ∧
    Quad.conjugate X (Quad.ofBase (ringBOps R inv) x) = Quad.ofBase (ringBOps R inv) x ∧
    (s = 1 → (Quad.conjugate X a = a ↔ a.c1 = 0)) := by
  refine ⟨?_, ?_, ?_, ?_, ?_, ?_⟩
  · apply q2_injective s t
    rw [q2_conj h, q2_mul h, q2_mul h, q2_conj h, q2_conj h, map_mul]
  · apply q2_injective s t
    rw [q2_conj h, q2_add, q2_add, q2_conj h, q2_conj h, map_add]
  · apply q2_injective s t
    rw [q2_conj h, q2_one, map_one]
  · apply q2_injective s t
    rw [q2_conj h, q2_conj h, PQ2.conj_conj]
  · apply q2_injective s t
    rw [q2_conj h, q2_ofBase, PQ2.conj_C]
  · intro hs
    subst hs
    obtain ⟨a0, a1⟩ := a
    simp only [Quad.conjugate, Quad.ofPair, h.frobenius, Quad.mk.injEq]
    constructor
    · intro hh
      simpa using hh.1
    · intro hh
      simp [hh]

end Arithmetic

-- ================================================================================================
-- 3. Over the prime field: conjugation is `x ↦ x^p`, a field automorphism fixing exactly the base field; every
--    non-zero element has an inverse and the model's `inv` (through the norm) computes it
-- ================================================================================================
section PrimeField
variable {p : ℕ} [Fact p.Prime]

/-- quadratic: `conjugate` (= `frobenius`) is the `p`-power map.  Hypothesis `hφ`: the closed fact `φ^p = s - φ`
    (instances: `q64_phi_pow`, `q62_phi_pow`, `q128_phi_pow`). -/
theorem quad_conjugate_eq_pow {s t : ZMod p} {X : Ext2 (ZMod p)} (h : Spec2 X s t)
    (hφ : (PQ2.φ : PQ2 (ZMod p) s t) ^ p = ⟨s, -1⟩) (x : Quad (ZMod p)) :
    q2 s t (Quad.conjugate X x) = q2 s t x ^ p := by
  rw [q2_conj h, PQ2.conj_eq_pow hφ]

/-- quadratic: `inv(0) = 0`; for `x ≠ 0` the model's `inv` returns (no panic of the norm assertion, no hang) an
    element `y` with `x · y = 1` -/
theorem quad_inverse {s t : ZMod p} {X : Ext2 (ZMod p)} (h : Spec2 X s t) (hs : s ≠ 0)
    (hφ : (PQ2.φ : PQ2 (ZMod p) s t) ^ p = ⟨s, -1⟩) (x : Quad (ZMod p)) :
    (x = ⟨0, 0⟩ → Quad.inv (fieldBOps p) X x = .ok ⟨0, 0⟩) ∧
    (x ≠ ⟨0, 0⟩ → ∃ y, Quad.inv (fieldBOps p) X x = .ok y ∧ Quad.mul X x y = Quad.one (fieldBOps p)) := by
  constructor
  · intro hx
    subst hx
    exact quad_inv_zero
  · intro hx
    obtain ⟨y, hy, hxy⟩ := quad_inv h hs hφ x hx
    refine ⟨y, hy, ?_⟩
    apply q2_injective s t
    rw [q2_mul h, hxy]
    rfl

/-- quadratic: `x / y` (for `y ≠ 0`) is the element `z` with `z · y = x` -/
theorem quad_division {s t : ZMod p} {X : Ext2 (ZMod p)} (h : Spec2 X s t) (hs : s ≠ 0)
    (hφ : (PQ2.φ : PQ2 (ZMod p) s t) ^ p = ⟨s, -1⟩) (x y : Quad (ZMod p)) (hy : y ≠ ⟨0, 0⟩) :
    ∃ z, Quad.div (fieldBOps p) X x y = .ok z ∧ Quad.mul X z y = x := by
  obtain ⟨yi, hyi, hone⟩ := quad_inv h hs hφ y hy
  refine ⟨Quad.mul X x yi, ?_, ?_⟩
  · simp [Quad.div, hyi, Res.map]
  · apply q2_injective s t
    rw [q2_mul h, q2_mul h, mul_assoc, mul_comm (q2 s t yi), hone, mul_one]

/-- cubic: `conjugate` (= `frobenius`, the linear map with the coefficients `k`) is the `p`-power map.
    Hypothesis `H`: closed facts about the coefficients (instances: `c64_frob3`, `c62_frob3`). -/
theorem cube_conjugate_eq_pow {s t : ZMod p} {k : FrobK (ZMod p)} {X : Ext3 (ZMod p)} (h : Spec3 X s t k)
    (H : Frob3 s t k) (x : Cube (ZMod p)) :
    q3 s t (Cube.conjugate X x) = q3 s t x ^ p := by
  rw [q3_conj h, PQ3.frobK_eq_pow H]

/-- cubic: conjugation is multiplicative, additive, unital, of order dividing 3 (hence bijective), fixes the
    embedded base field and nothing else -/
theorem cube_conjugate_automorphism {s t : ZMod p} {k : FrobK (ZMod p)} {X : Ext3 (ZMod p)} (h : Spec3 X s t k)
    (H : Frob3 s t k) (a b : Cube (ZMod p)) (x : ZMod p) :
    Cube.conjugate X (Cube.mul X a b) = Cube.mul X (Cube.conjugate X a) (Cube.conjugate X b) ∧
    Cube.conjugate X (Cube.add (fieldBOps p) a b) =
      Cube.add (fieldBOps p) (Cube.conjugate X a) (Cube.conjugate X b) ∧
    Cube.conjugate X (Cube.one (fieldBOps p)) = Cube.one (fieldBOps p) ∧
    Cube.conjugate X (Cube.conjugate X (Cube.conjugate X a)) = a ∧
    Cube.conjugate X (Cube.ofBase (fieldBOps p) x) = Cube.ofBase (fieldBOps p) x ∧
    (Cube.conjugate X a = a ↔ a.c1 = 0 ∧ a.c2 = 0) := by
  refine ⟨?_, ?_, ?_, ?_, ?_, ?_⟩
  · apply q3_injective s t
    rw [cube_conjugate_eq_pow h H, q3_mul h, q3_mul h, cube_conjugate_eq_pow h H, cube_conjugate_eq_pow h H, mul_pow]
  · apply q3_injective s t
    rw [cube_conjugate_eq_pow h H, q3_add, q3_add, cube_conjugate_eq_pow h H, cube_conjugate_eq_pow h H,
      add_pow_char]
  · apply q3_injective s t
    rw [cube_conjugate_eq_pow h H, q3_one, one_pow]
  · apply q3_injective s t
    rw [cube_conjugate_eq_pow h H, cube_conjugate_eq_pow h H, cube_conjugate_eq_pow h H, ← pow_mul, ← pow_mul,
      ← mul_assoc, PQ3.pow_ppp H]
  · apply q3_injective s t
    rw [q3_conj h, q3_ofBase, PQ3.frobK_C]
  · constructor
    · intro hh
      have := PQ3.fixed_const H (q3 s t a) (by rw [← q3_conj h, hh])
      exact this
    · intro hh
      obtain ⟨a0, a1, a2⟩ := a
      simp only at hh
      simp [Cube.conjugate, Cube.ofTriple, h.frobenius, hh.1, hh.2]

/-- cubic: `inv(0) = 0`; for `x ≠ 0` the model's `inv` returns (neither norm assertion fails, no hang) an element
    `y` with `x · y = 1`.  No hypothesis on the norm: its non-vanishing is derived (the quotient ring is a field
    because `x ↦ x^p` has order 3 and fixes only constants). -/
theorem cube_inverse {s t : ZMod p} {k : FrobK (ZMod p)} {X : Ext3 (ZMod p)} (h : Spec3 X s t k)
    (H : Frob3 s t k) (x : Cube (ZMod p)) :
    (x = ⟨0, 0, 0⟩ → Cube.inv (fieldBOps p) X x = .ok ⟨0, 0, 0⟩) ∧
    (x ≠ ⟨0, 0, 0⟩ → ∃ y, Cube.inv (fieldBOps p) X x = .ok y ∧ Cube.mul X x y = Cube.one (fieldBOps p)) := by
  constructor
  · intro hx
    subst hx
    exact cube_inv_zero
  · intro hx
    obtain ⟨y, hy, hxy⟩ := cube_inv h H x hx
    refine ⟨y, hy, ?_⟩
    apply q3_injective s t
    rw [q3_mul h, hxy]
    rfl

theorem cube_division {s t : ZMod p} {k : FrobK (ZMod p)} {X : Ext3 (ZMod p)} (h : Spec3 X s t k)
    (H : Frob3 s t k) (x y : Cube (ZMod p)) (hy : y ≠ ⟨0, 0, 0⟩) :
    ∃ z, Cube.div (fieldBOps p) X x y = .ok z ∧ Cube.mul X z y = x := by
  obtain ⟨yi, hyi, hone⟩ := cube_inv h H y hy
  refine ⟨Cube.mul X x yi, ?_, ?_⟩
  · simp [Cube.div, hyi, Res.map]
  · apply q3_injective s t
    rw [q3_mul h, q3_mul h, mul_assoc, mul_comm (q3 s t yi), hone, mul_one]

end PrimeField

-- ================================================================================================
-- 4. The closed facts for the five documented extensions (kernel computations on the generated moduli and
--    Frobenius coefficients), and the instantiated statements
-- ================================================================================================
section F64
variable [Fact (Nat.Prime Gen.F64.M)]

theorem q64_phi_pow : (PQ2.φ : PQ2 (ZMod Gen.F64.M) 1 (-2)) ^ Gen.F64.M = ⟨1, -1⟩ := by
  have hk : powN2 Gen.F64.M 1 (Gen.F64.M - 2) 64 (1, 0) (0, 1) Gen.F64.M = (1, Gen.F64.M - 1) := by
    decide +kernel
  rw [phi_pow_of_powN2 (p := Gen.F64.M) (s := 1) (t := -2) 1 (Gen.F64.M - 2) (by simp)
    (by rw [natCast_sub_self 2 (by decide)]; simp) 64 (by decide) 1 (Gen.F64.M - 1) hk]
  ext <;> simp [natCast_sub_self 1 (by decide : 1 ≤ Gen.F64.M)]

theorem c64_frob3 : Frob3 (p := Gen.F64.M) 1 1 (k64 (ZMod Gen.F64.M)) where
  h1 := by
    have hk : powN3 Gen.F64.M 1 1 64 (1, 0, 0) (0, 1, 0) Gen.F64.M =
        (10615703402128488253, 10050274602728160328, 11746561000929144102) := by decide +kernel
    have := pow_of_powN3 (p := Gen.F64.M) (s := 1) (t := 1) 1 1 (by simp) (by simp) 64 Gen.F64.M (by decide) _ _ hk
    have e : castN3 (1 : ZMod Gen.F64.M) 1 (0, 1, 0) = PQ3.φ := by ext <;> simp [castN3]
    rw [e] at this
    exact this
  h2 := by
    have hk : powN3 Gen.F64.M 1 1 64 (1, 0, 0) (0, 0, 1) Gen.F64.M =
        (6700183068485440220, 14531223735771536287, 8396469466686423992) := by decide +kernel
    have := pow_of_powN3 (p := Gen.F64.M) (s := 1) (t := 1) 1 1 (by simp) (by simp) 64 Gen.F64.M (by decide) _ _ hk
    have e : castN3 (1 : ZMod Gen.F64.M) 1 (0, 0, 1) = PQ3.φ ^ 2 := by rw [PQ3.φ_sq]; ext <;> simp [castN3]
    rw [e] at this
    exact this
  h3 := by
    have hk1 : powN3 Gen.F64.M 1 1 64 (1, 0, 0)
        (10615703402128488253, 10050274602728160328, 11746561000929144102) Gen.F64.M =
        (7831040667286096068, 8396469466686423992, 6700183068485440219) := by decide +kernel
    have hk2 : powN3 Gen.F64.M 1 1 64 (1, 0, 0)
        (7831040667286096068, 8396469466686423992, 6700183068485440219) Gen.F64.M = (0, 1, 0) := by
      decide +kernel
    have a1 := pow_of_powN3 (p := Gen.F64.M) (s := 1) (t := 1) 1 1 (by simp) (by simp) 64 Gen.F64.M (by decide) _ _ hk1
    have a2 := pow_of_powN3 (p := Gen.F64.M) (s := 1) (t := 1) 1 1 (by simp) (by simp) 64 Gen.F64.M (by decide) _ _ hk2
    have e : castN3 (1 : ZMod Gen.F64.M) 1 (0, 1, 0) = PQ3.φ := by ext <;> simp [castN3]
    rw [e] at a2
    rw [← a2, ← a1]
    rfl
  hd := by
    have hc : (k64 (ZMod Gen.F64.M)).k01 * (k64 (ZMod Gen.F64.M)).k12 -
        (k64 (ZMod Gen.F64.M)).k02 * ((k64 (ZMod Gen.F64.M)).k11 - 1) =
        ((10615703402128488253 * 14531223735771536287 +
          6700183068485440220 * (Gen.F64.M + 1 - 10050274602728160328) : ℕ) : ZMod Gen.F64.M) := by
      simp only [k64]
      rw [Nat.cast_add, Nat.cast_mul, Nat.cast_mul, Nat.cast_sub (by decide), Nat.cast_add, ZMod.natCast_self]
      push_cast
      ring
    rw [hc, Ne, ZMod.natCast_eq_zero_iff]
    decide +kernel

/-- f64 quadratic extension (x² - x + 2) -/
theorem q64_field (x y : Quad (ZMod Gen.F64.M)) :
    (q2 1 (-2) (Quad.conjugate (Ext2.f64 (ringOps (ZMod Gen.F64.M))) x) = q2 1 (-2) x ^ Gen.F64.M) ∧
    (Quad.inv (fieldBOps Gen.F64.M) (Ext2.f64 (ringOps _)) ⟨0, 0⟩ = .ok ⟨0, 0⟩) ∧
    (x ≠ ⟨0, 0⟩ → ∃ z, Quad.inv (fieldBOps Gen.F64.M) (Ext2.f64 (ringOps _)) x = .ok z ∧
      Quad.mul (Ext2.f64 (ringOps _)) x z = Quad.one (fieldBOps Gen.F64.M)) ∧
    (y ≠ ⟨0, 0⟩ → ∃ z, Quad.div (fieldBOps Gen.F64.M) (Ext2.f64 (ringOps _)) x y = .ok z ∧
      Quad.mul (Ext2.f64 (ringOps _)) z y = x) :=
  ⟨quad_conjugate_eq_pow q64_spec q64_phi_pow x, (quad_inverse q64_spec one_ne_zero q64_phi_pow _).1 rfl,
    (quad_inverse q64_spec one_ne_zero q64_phi_pow x).2, quad_division q64_spec one_ne_zero q64_phi_pow x y⟩

/-- f64 cubic extension (x³ - x - 1) -/
theorem c64_field (x y : Cube (ZMod Gen.F64.M)) :
    (q3 1 1 (Cube.conjugate (Ext3.f64 (ringOps (ZMod Gen.F64.M))) x) = q3 1 1 x ^ Gen.F64.M) ∧
    (Cube.inv (fieldBOps Gen.F64.M) (Ext3.f64 (ringOps _)) ⟨0, 0, 0⟩ = .ok ⟨0, 0, 0⟩) ∧
    (x ≠ ⟨0, 0, 0⟩ → ∃ z, Cube.inv (fieldBOps Gen.F64.M) (Ext3.f64 (ringOps _)) x = .ok z ∧
      Cube.mul (Ext3.f64 (ringOps _)) x z = Cube.one (fieldBOps Gen.F64.M)) ∧
    (y ≠ ⟨0, 0, 0⟩ → ∃ z, Cube.div (fieldBOps Gen.F64.M) (Ext3.f64 (ringOps _)) x y = .ok z ∧
      Cube.mul (Ext3.f64 (ringOps _)) z y = x) :=
  ⟨cube_conjugate_eq_pow c64_spec c64_frob3 x, (cube_inverse c64_spec c64_frob3 _).1 rfl,
    (cube_inverse c64_spec c64_frob3 x).2, cube_division c64_spec c64_frob3 x y⟩

/-- **the documented polynomials are irreducible** (as polynomials of Mathlib over the prime field):
    f64 quadratic `x² - x + 2` -/
theorem q64_irreducible :
    Irreducible (Polynomial.X ^ 2 - Polynomial.X + 2 : Polynomial (ZMod Gen.F64.M)) := by
  have h := poly2_irreducible (s := (1 : ZMod Gen.F64.M)) (t := -2) (PQ2.eq_zero_or one_ne_zero q64_phi_pow)
  have e : poly2 (1 : ZMod Gen.F64.M) (-2) = Polynomial.X ^ 2 - Polynomial.X + 2 := by
    unfold poly2
    simp only [map_one, one_mul, map_neg, sub_neg_eq_add]
    rfl
  rwa [e] at h

/-- f64 cubic `x³ - x - 1` -/
theorem c64_irreducible :
    Irreducible (Polynomial.X ^ 3 - Polynomial.X - 1 : Polynomial (ZMod Gen.F64.M)) := by
  have h := poly3_irreducible (s := (1 : ZMod Gen.F64.M)) (t := 1) (PQ3.eq_zero_or c64_frob3)
  have e : poly3 (1 : ZMod Gen.F64.M) 1 = Polynomial.X ^ 3 - Polynomial.X - 1 := by
    unfold poly3
    simp only [map_one, one_mul]
  rwa [e] at h

end F64

section F62
variable [Fact (Nat.Prime Gen.F62.M)]

theorem q62_phi_pow : (PQ2.φ : PQ2 (ZMod Gen.F62.M) 1 1) ^ Gen.F62.M = ⟨1, -1⟩ := by
  have hk : powN2 Gen.F62.M 1 1 64 (1, 0) (0, 1) Gen.F62.M = (1, Gen.F62.M - 1) := by decide +kernel
  rw [phi_pow_of_powN2 (p := Gen.F62.M) (s := 1) (t := 1) 1 1 (by simp) (by simp) 64 (by decide) 1
    (Gen.F62.M - 1) hk]
  ext <;> simp [natCast_sub_self 1 (by decide : 1 ≤ Gen.F62.M)]

theorem c62_frob3 : Frob3 (p := Gen.F62.M) (-2) (-2) (k62 (ZMod Gen.F62.M)) where
  h1 := by
    have hk : powN3 Gen.F62.M (Gen.F62.M - 2) (Gen.F62.M - 2) 64 (1, 0, 0) (0, 1, 0) Gen.F62.M =
        (2061766055618274781, 2868591307402993000, 2699230790596717670) := by decide +kernel
    have hm : ((Gen.F62.M - 2 : ℕ) : ZMod Gen.F62.M) = -2 := by rw [natCast_sub_self 2 (by decide)]; simp
    have := pow_of_powN3 (p := Gen.F62.M) (s := -2) (t := -2) _ _ hm hm 64 Gen.F62.M (by decide) _ _ hk
    have e : castN3 (-2 : ZMod Gen.F62.M) (-2) (0, 1, 0) = PQ3.φ := by ext <;> simp [castN3]
    rw [e] at this
    exact this
  h2 := by
    have hk : powN3 Gen.F62.M (Gen.F62.M - 2) (Gen.F62.M - 2) 64 (1, 0, 0) (0, 0, 1) Gen.F62.M =
        (786836585661389001, 3336695525575160559, 1743033688129053336) := by decide +kernel
    have hm : ((Gen.F62.M - 2 : ℕ) : ZMod Gen.F62.M) = -2 := by rw [natCast_sub_self 2 (by decide)]; simp
    have := pow_of_powN3 (p := Gen.F62.M) (s := -2) (t := -2) _ _ hm hm 64 Gen.F62.M (by decide) _ _ hk
    have e : castN3 (-2 : ZMod Gen.F62.M) (-2) (0, 0, 1) = PQ3.φ ^ 2 := by rw [PQ3.φ_sq]; ext <;> simp [castN3]
    rw [e] at this
    exact this
  h3 := by
    have hk1 : powN3 Gen.F62.M (Gen.F62.M - 2) (Gen.F62.M - 2) 64 (1, 0, 0)
        (2061766055618274781, 2868591307402993000, 2699230790596717670) Gen.F62.M =
        (2549858939913771556, 1743033688129053336, 1912394204935328667) := by decide +kernel
    have hk2 : powN3 Gen.F62.M (Gen.F62.M - 2) (Gen.F62.M - 2) 64 (1, 0, 0)
        (2549858939913771556, 1743033688129053336, 1912394204935328667) Gen.F62.M = (0, 1, 0) := by
      decide +kernel
    have hm : ((Gen.F62.M - 2 : ℕ) : ZMod Gen.F62.M) = -2 := by rw [natCast_sub_self 2 (by decide)]; simp
    have a1 := pow_of_powN3 (p := Gen.F62.M) (s := -2) (t := -2) _ _ hm hm 64 Gen.F62.M (by decide) _ _ hk1
    have a2 := pow_of_powN3 (p := Gen.F62.M) (s := -2) (t := -2) _ _ hm hm 64 Gen.F62.M (by decide) _ _ hk2
    have e : castN3 (-2 : ZMod Gen.F62.M) (-2) (0, 1, 0) = PQ3.φ := by ext <;> simp [castN3]
    rw [e] at a2
    rw [← a2, ← a1]
    rfl
  hd := by
    have hc : (k62 (ZMod Gen.F62.M)).k01 * (k62 (ZMod Gen.F62.M)).k12 -
        (k62 (ZMod Gen.F62.M)).k02 * ((k62 (ZMod Gen.F62.M)).k11 - 1) =
        ((2061766055618274781 * 3336695525575160559 +
          786836585661389001 * (Gen.F62.M + 1 - 2868591307402993000) : ℕ) : ZMod Gen.F62.M) := by
      simp only [k62]
      rw [Nat.cast_add, Nat.cast_mul, Nat.cast_mul, Nat.cast_sub (by decide), Nat.cast_add, ZMod.natCast_self]
      push_cast
      ring
    rw [hc, Ne, ZMod.natCast_eq_zero_iff]
    decide +kernel

/-- f62 quadratic extension (x² - x - 1) -/
theorem q62_field (x y : Quad (ZMod Gen.F62.M)) :
    (q2 1 1 (Quad.conjugate (Ext2.f62 (ringOps (ZMod Gen.F62.M))) x) = q2 1 1 x ^ Gen.F62.M) ∧
    (Quad.inv (fieldBOps Gen.F62.M) (Ext2.f62 (ringOps _)) ⟨0, 0⟩ = .ok ⟨0, 0⟩) ∧
    (x ≠ ⟨0, 0⟩ → ∃ z, Quad.inv (fieldBOps Gen.F62.M) (Ext2.f62 (ringOps _)) x = .ok z ∧
      Quad.mul (Ext2.f62 (ringOps _)) x z = Quad.one (fieldBOps Gen.F62.M)) ∧
    (y ≠ ⟨0, 0⟩ → ∃ z, Quad.div (fieldBOps Gen.F62.M) (Ext2.f62 (ringOps _)) x y = .ok z ∧
      Quad.mul (Ext2.f62 (ringOps _)) z y = x) :=
  ⟨quad_conjugate_eq_pow q62_spec q62_phi_pow x, (quad_inverse q62_spec one_ne_zero q62_phi_pow _).1 rfl,
    (quad_inverse q62_spec one_ne_zero q62_phi_pow x).2, quad_division q62_spec one_ne_zero q62_phi_pow x y⟩

/-- f62 cubic extension (x³ + 2x + 2) -/
theorem c62_field (x y : Cube (ZMod Gen.F62.M)) :
    (q3 (-2) (-2) (Cube.conjugate (Ext3.f62 (ringOps (ZMod Gen.F62.M))) x) = q3 (-2) (-2) x ^ Gen.F62.M) ∧
    (Cube.inv (fieldBOps Gen.F62.M) (Ext3.f62 (ringOps _)) ⟨0, 0, 0⟩ = .ok ⟨0, 0, 0⟩) ∧
    (x ≠ ⟨0, 0, 0⟩ → ∃ z, Cube.inv (fieldBOps Gen.F62.M) (Ext3.f62 (ringOps _)) x = .ok z ∧
      Cube.mul (Ext3.f62 (ringOps _)) x z = Cube.one (fieldBOps Gen.F62.M)) ∧
    (y ≠ ⟨0, 0, 0⟩ → ∃ z, Cube.div (fieldBOps Gen.F62.M) (Ext3.f62 (ringOps _)) x y = .ok z ∧
      Cube.mul (Ext3.f62 (ringOps _)) z y = x) :=
  ⟨cube_conjugate_eq_pow c62_spec c62_frob3 x, (cube_inverse c62_spec c62_frob3 _).1 rfl,
    (cube_inverse c62_spec c62_frob3 x).2, cube_division c62_spec c62_frob3 x y⟩

/-- f62 quadratic `x² - x - 1` -/
theorem q62_irreducible :
    Irreducible (Polynomial.X ^ 2 - Polynomial.X - 1 : Polynomial (ZMod Gen.F62.M)) := by
  have h := poly2_irreducible (s := (1 : ZMod Gen.F62.M)) (t := 1) (PQ2.eq_zero_or one_ne_zero q62_phi_pow)
  have e : poly2 (1 : ZMod Gen.F62.M) 1 = Polynomial.X ^ 2 - Polynomial.X - 1 := by
    unfold poly2
    simp only [map_one, one_mul]
  rwa [e] at h

/-- f62 cubic `x³ + 2x + 2` -/
theorem c62_irreducible :
    Irreducible (Polynomial.X ^ 3 + 2 * Polynomial.X + 2 : Polynomial (ZMod Gen.F62.M)) := by
  have h := poly3_irreducible (s := (-2 : ZMod Gen.F62.M)) (t := -2) (PQ3.eq_zero_or c62_frob3)
  have e : poly3 (-2 : ZMod Gen.F62.M) (-2) = Polynomial.X ^ 3 + 2 * Polynomial.X + 2 := by
    unfold poly3
    simp only [map_neg, neg_mul, sub_neg_eq_add]
    rfl
  rwa [e] at h

end F62

section F128
variable [Fact (Nat.Prime Gen.F128.M)]

theorem q128_phi_pow : (PQ2.φ : PQ2 (ZMod Gen.F128.M) 1 1) ^ Gen.F128.M = ⟨1, -1⟩ := by
  have hk : powN2 Gen.F128.M 1 1 128 (1, 0) (0, 1) Gen.F128.M = (1, Gen.F128.M - 1) := by decide +kernel
  rw [phi_pow_of_powN2 (p := Gen.F128.M) (s := 1) (t := 1) 1 1 (by simp) (by simp) 128 (by decide) 1
    (Gen.F128.M - 1) hk]
  ext <;> simp [natCast_sub_self 1 (by decide : 1 ≤ Gen.F128.M)]

/-- f128 quadratic extension (x² - x - 1) -/
theorem q128_field (x y : Quad (ZMod Gen.F128.M)) :
    (q2 1 1 (Quad.conjugate (Ext2.f128 (ringOps (ZMod Gen.F128.M))) x) = q2 1 1 x ^ Gen.F128.M) ∧
    (Quad.inv (fieldBOps Gen.F128.M) (Ext2.f128 (ringOps _)) ⟨0, 0⟩ = .ok ⟨0, 0⟩) ∧
    (x ≠ ⟨0, 0⟩ → ∃ z, Quad.inv (fieldBOps Gen.F128.M) (Ext2.f128 (ringOps _)) x = .ok z ∧
      Quad.mul (Ext2.f128 (ringOps _)) x z = Quad.one (fieldBOps Gen.F128.M)) ∧
    (y ≠ ⟨0, 0⟩ → ∃ z, Quad.div (fieldBOps Gen.F128.M) (Ext2.f128 (ringOps _)) x y = .ok z ∧
      Quad.mul (Ext2.f128 (ringOps _)) z y = x) :=
  ⟨quad_conjugate_eq_pow q128_spec q128_phi_pow x, (quad_inverse q128_spec one_ne_zero q128_phi_pow _).1 rfl,
    (quad_inverse q128_spec one_ne_zero q128_phi_pow x).2, quad_division q128_spec one_ne_zero q128_phi_pow x y⟩

/-- f128 quadratic `x² - x - 1` -/
theorem q128_irreducible :
    Irreducible (Polynomial.X ^ 2 - Polynomial.X - 1 : Polynomial (ZMod Gen.F128.M)) := by
  have h := poly2_irreducible (s := (1 : ZMod Gen.F128.M)) (t := 1) (PQ2.eq_zero_or one_ne_zero q128_phi_pow)
  have e : poly2 (1 : ZMod Gen.F128.M) 1 = Polynomial.X ^ 2 - Polynomial.X - 1 := by
    unfold poly2
    simp only [map_one, one_mul]
  rwa [e] at h

end F128

-- ================================================================================================
-- 5. Slice reinterpretation (modelled as list flatten / unflatten) preserves every value
-- ================================================================================================
section Flatten
variable {F : Type}

/-- `slice_from_base_elements(slice_as_base_elements(es)) = es` -/
theorem quad_unflatten_flatten (es : List (Quad F)) : Quad.unflatten (Quad.flatten es) = some es := by
  induction es with
  | nil => rfl
  | cons a rest ih => simp [Quad.flatten, Quad.unflatten, ih]

/-- `slice_as_base_elements(slice_from_base_elements(bs)) = bs` whenever the assertion passes -/
theorem quad_flatten_unflatten (bs : List F) (es : List (Quad F)) (h : Quad.unflatten bs = some es) :
    Quad.flatten es = bs := by
  induction bs using Quad.unflatten.induct generalizing es with
  | case1 => simp [Quad.unflatten] at h; subst h; rfl
  | case2 x => simp [Quad.unflatten] at h
  | case3 x y rest ih =>
    simp only [Quad.unflatten, Option.map_eq_some_iff] at h
    obtain ⟨l, hl, rfl⟩ := h
    simp [Quad.flatten, ih l hl]

/-- the assertion of `slice_from_base_elements` fails exactly when the length is odd; lengths correspond -/
theorem quad_unflatten_none_iff (bs : List F) : Quad.unflatten bs = none ↔ bs.length % 2 = 1 := by
  induction bs using Quad.unflatten.induct with
  | case1 => simp [Quad.unflatten]
  | case2 x => simp [Quad.unflatten]
  | case3 x y rest ih =>
    simp only [Quad.unflatten, Option.map_eq_none_iff, ih, List.length_cons]
    omega

theorem cube_unflatten_flatten (es : List (Cube F)) : Cube.unflatten (Cube.flatten es) = some es := by
  induction es with
  | nil => rfl
  | cons a rest ih => simp [Cube.flatten, Cube.unflatten, ih]

theorem cube_flatten_unflatten (bs : List F) (es : List (Cube F)) (h : Cube.unflatten bs = some es) :
    Cube.flatten es = bs := by
  induction bs using Cube.unflatten.induct generalizing es with
  | case1 => simp [Cube.unflatten] at h; subst h; rfl
  | case2 x => simp [Cube.unflatten] at h
  | case3 x y => simp [Cube.unflatten] at h
  | case4 x y z rest ih =>
    simp only [Cube.unflatten, Option.map_eq_some_iff] at h
    obtain ⟨l, hl, rfl⟩ := h
    simp [Cube.flatten, ih l hl]

theorem cube_unflatten_none_iff (bs : List F) : Cube.unflatten bs = none ↔ bs.length % 3 ≠ 0 := by
  induction bs using Cube.unflatten.induct with
  | case1 => simp [Cube.unflatten]
  | case2 x => simp [Cube.unflatten]
  | case3 x y => simp [Cube.unflatten]
  | case4 x y z rest ih =>
    simp only [Cube.unflatten, Option.map_eq_none_iff, ih, List.length_cons]
    omega

/-- `bytes_as_elements(elements_as_bytes(es))` gives back every raw word: the memory image (raw words, little
    endian, `I.bytes` bytes each) of `cs.length / n` elements of degree `n` reinterpreted as words.
    Hypotheses: every raw word fits its `I.bytes` bytes (`u64` / `u128`). -/
theorem bytes_reinterpretation_roundtrip (I : FieldImpl) (hI : 0 < I.bytes) (n : Nat) (cs : List Nat)
    (hlen : cs.length % n = 0) (hcs : ∀ c ∈ cs, c < 256 ^ I.bytes) :
    ExtBytes.bytesAsWords I n (ExtBytes.asBytes I cs) = some cs := by
  unfold ExtBytes.bytesAsWords
  have hl := asBytes_length I cs
  obtain ⟨q, hq⟩ := Nat.dvd_of_mod_eq_zero hlen
  have hmod : (ExtBytes.asBytes I cs).length % (n * I.bytes) = 0 := by
    rw [hl, hq, Nat.mul_assoc, Nat.mul_comm q, ← Nat.mul_assoc]
    exact Nat.mul_mod_right _ _
  simp only [hmod, ne_eq, not_true_eq_false, if_false]
  exact words_flatMap I.bytes hI cs hcs _ (Nat.le_refl _)

example : (0 : Nat) < F64.impl.bytes ∧ (0 : Nat) < F62.impl.bytes ∧ (0 : Nat) < F128.impl.bytes := by decide

/-- `read_from(write_into(x)) = x` and `try_from(to_bytes(x)) = x` for extension elements (lists of `n`
    coordinates), given the same for the base field (hypothesis `hbase`, property C07): the result is the element
    of the canonical representatives, the rest of the input is untouched -/
theorem serialization_roundtrip (I : FieldImpl) (ok : Nat → Prop) (canon : Nat → Nat)
    (hbase : ∀ c rest, ok c → I.readFrom (I.toBytes c ++ rest) = some (.ok (canon c), rest))
    (cs : List Nat) (hok : ∀ c ∈ cs, ok c) :
    (∀ rest, ExtBytes.readFrom I cs.length (ExtBytes.toBytes I cs ++ rest) = .ok (cs.map canon) rest) ∧
    ExtBytes.tryFromBytes I cs.length (ExtBytes.toBytes I cs) = some (cs.map canon) := by
  refine ⟨readFrom_toBytes I ok canon hbase cs hok, ?_⟩
  have h := readFrom_toBytes I ok canon hbase cs hok []
  rw [List.append_nil] at h
  simp [ExtBytes.tryFromBytes, toBytes_length, h]

end Flatten

-- ================================================================================================
-- 6. From `ZMod p` to the raw words the code computes on.  Hypothesis `Implements I p ok val` is the content of
--    property C07 (on raw words satisfying the representation invariant `ok`, the base-field implementation `I`
--    computes in `ZMod p` through `val`); `mk` is one of `Ext2.f64`, `Ext2.f62`, `Ext2.f128` (resp. `Ext3.f64`,
--    `Ext3.f62`), whose naturality `hmk` is `f64_ext2_hom` etc.  Conclusion: on invariant-satisfying coordinates the
--    model instantiated with the raw-word operations — i.e. what the driver executes and the harness compares
--    bit-for-bit with the Rust code — preserves the invariant and commutes with `val`.
-- ================================================================================================
section Refinement
variable {I : FieldImpl} {p : ℕ} [Fact p.Prime] {ok : ℕ → Prop} {val : ℕ → ZMod p}

theorem quad_raw_arith (H : ImplementsArith I p ok val) (mk : ∀ {F : Type}, Gen.FOps F → Ext2 F)
    (hmk : ∀ {F G : Type} {O : Gen.FOps F} {O' : Gen.FOps G} {h : F → G}, FHom O O' h → Ext2Hom (mk O) (mk O') h)
    (a b : Quad ℕ) (c : ℕ) (ha : okQ ok a) (hb : okQ ok b) (hc : ok c) :
    (okQ ok (Quad.mul (mk (BOps.ofImpl I).toFOps) a b) ∧
      Quad.map val (Quad.mul (mk (BOps.ofImpl I).toFOps) a b) =
        Quad.mul (mk (ringOps (ZMod p))) (Quad.map val a) (Quad.map val b)) ∧
    (okQ ok (Quad.square (mk (BOps.ofImpl I).toFOps) a) ∧
      Quad.map val (Quad.square (mk (BOps.ofImpl I).toFOps) a) =
        Quad.square (mk (ringOps (ZMod p))) (Quad.map val a)) ∧
    (okQ ok (Quad.mulBase (mk (BOps.ofImpl I).toFOps) a c) ∧
      Quad.map val (Quad.mulBase (mk (BOps.ofImpl I).toFOps) a c) =
        Quad.mulBase (mk (ringOps (ZMod p))) (Quad.map val a) (val c)) ∧
    (okQ ok (Quad.conjugate (mk (BOps.ofImpl I).toFOps) a) ∧
      Quad.map val (Quad.conjugate (mk (BOps.ofImpl I).toFOps) a) =
        Quad.conjugate (mk (ringOps (ZMod p))) (Quad.map val a)) ∧
    (okQ ok (Quad.add (BOps.ofImpl I) a b) ∧
      Quad.map val (Quad.add (BOps.ofImpl I) a b) = Quad.add (fieldBOps p) (Quad.map val a) (Quad.map val b)) ∧
    (okQ ok (Quad.sub (BOps.ofImpl I) a b) ∧
      Quad.map val (Quad.sub (BOps.ofImpl I) a b) = Quad.sub (fieldBOps p) (Quad.map val a) (Quad.map val b)) ∧
    (okQ ok (Quad.neg (BOps.ofImpl I) a) ∧
      Quad.map val (Quad.neg (BOps.ofImpl I) a) = Quad.neg (fieldBOps p) (Quad.map val a)) ∧
    (okQ ok (Quad.double (BOps.ofImpl I) a) ∧
      Quad.map val (Quad.double (BOps.ofImpl I) a) = Quad.double (fieldBOps p) (Quad.map val a)) := by
  have HR := subOps_raw_ops H
  have HF := subOps_field_ops H
  have XR : Ext2Hom (mk (subOps H).toFOps) (mk (BOps.ofImpl I).toFOps) Subtype.val := hmk HR
  have XF : Ext2Hom (mk (subOps H).toFOps) (mk (ringOps (ZMod p))) (fun a : {x : ℕ // ok x} => val a.1) :=
    hmk HF
  refine ⟨?_, ?_, ?_, ?_, ?_, ?_, ?_, ?_⟩
  · exact quad_lift1 (opS := fun x => Quad.mul (mk (subOps H).toFOps) x (liftQ b hb))
      (opR := fun x => Quad.mul _ x b) (opF := fun x => Quad.mul _ x (Quad.map val b))
      (fun x => Quad.map_mul XR x _) (fun x => Quad.map_mul XF x _) a ha
  · exact quad_lift1 (fun x => Quad.map_square XR x) (fun x => Quad.map_square XF x) a ha
  · exact quad_lift1 (opS := fun x => Quad.mulBase (mk (subOps H).toFOps) x ⟨c, hc⟩)
      (opR := fun x => Quad.mulBase _ x c) (opF := fun x => Quad.mulBase _ x (val c))
      (fun x => Quad.map_mulBase XR x _) (fun x => Quad.map_mulBase XF x _) a ha
  · exact quad_lift1 (fun x => Quad.map_conjugate XR x) (fun x => Quad.map_conjugate XF x) a ha
  · exact quad_lift1 (opS := fun x => Quad.add (subOps H) x (liftQ b hb))
      (opR := fun x => Quad.add _ x b) (opF := fun x => Quad.add _ x (Quad.map val b))
      (fun x => Quad.map_add HR x _) (fun x => Quad.map_add HF x _) a ha
  · exact quad_lift1 (opS := fun x => Quad.sub (subOps H) x (liftQ b hb))
      (opR := fun x => Quad.sub _ x b) (opF := fun x => Quad.sub _ x (Quad.map val b))
      (fun x => Quad.map_sub HR x _) (fun x => Quad.map_sub HF x _) a ha
  · exact quad_lift1 (fun x => Quad.map_neg HR x) (fun x => Quad.map_neg HF x) a ha
  · exact quad_lift1 (fun x => Quad.map_double HR x) (fun x => Quad.map_double HF x) a ha

theorem quad_raw_refines (H : Implements I p ok val) (mk : ∀ {F : Type}, Gen.FOps F → Ext2 F)
    (hmk : ∀ {F G : Type} {O : Gen.FOps F} {O' : Gen.FOps G} {h : F → G}, FHom O O' h → Ext2Hom (mk O) (mk O') h)
    (a b : Quad ℕ) (c : ℕ) (ha : okQ ok a) (hb : okQ ok b) (hc : ok c) :
    (okQ ok (Quad.mul (mk (BOps.ofImpl I).toFOps) a b) ∧
      Quad.map val (Quad.mul (mk (BOps.ofImpl I).toFOps) a b) =
        Quad.mul (mk (ringOps (ZMod p))) (Quad.map val a) (Quad.map val b)) ∧
    (okQ ok (Quad.square (mk (BOps.ofImpl I).toFOps) a) ∧
      Quad.map val (Quad.square (mk (BOps.ofImpl I).toFOps) a) =
        Quad.square (mk (ringOps (ZMod p))) (Quad.map val a)) ∧
    (okQ ok (Quad.mulBase (mk (BOps.ofImpl I).toFOps) a c) ∧
      Quad.map val (Quad.mulBase (mk (BOps.ofImpl I).toFOps) a c) =
        Quad.mulBase (mk (ringOps (ZMod p))) (Quad.map val a) (val c)) ∧
    (okQ ok (Quad.conjugate (mk (BOps.ofImpl I).toFOps) a) ∧
      Quad.map val (Quad.conjugate (mk (BOps.ofImpl I).toFOps) a) =
        Quad.conjugate (mk (ringOps (ZMod p))) (Quad.map val a)) ∧
    (okQ ok (Quad.add (BOps.ofImpl I) a b) ∧
      Quad.map val (Quad.add (BOps.ofImpl I) a b) = Quad.add (fieldBOps p) (Quad.map val a) (Quad.map val b)) ∧
    (okQ ok (Quad.sub (BOps.ofImpl I) a b) ∧
      Quad.map val (Quad.sub (BOps.ofImpl I) a b) = Quad.sub (fieldBOps p) (Quad.map val a) (Quad.map val b)) ∧
    (okQ ok (Quad.neg (BOps.ofImpl I) a) ∧
      Quad.map val (Quad.neg (BOps.ofImpl I) a) = Quad.neg (fieldBOps p) (Quad.map val a)) ∧
    (okQ ok (Quad.double (BOps.ofImpl I) a) ∧
      Quad.map val (Quad.double (BOps.ofImpl I) a) = Quad.double (fieldBOps p) (Quad.map val a)) ∧
    ((∀ y, Quad.inv (BOps.ofImpl I) (mk (BOps.ofImpl I).toFOps) a = .ok y → okQ ok y) ∧
      Res.map (Quad.map val) (Quad.inv (BOps.ofImpl I) (mk (BOps.ofImpl I).toFOps) a) =
        Quad.inv (fieldBOps p) (mk (ringOps (ZMod p))) (Quad.map val a)) := by
  obtain ⟨h1, h2, h3, h4, h5, h6, h7, h8⟩ := quad_raw_arith H.toImplementsArith mk hmk a b c ha hb hc
  exact ⟨h1, h2, h3, h4, h5, h6, h7, h8,
    quad_lift_inv H (hmk (subOps_raw_ops H.toImplementsArith)) (hmk (subOps_field_ops H.toImplementsArith)) a ha⟩

example {F G : Type} {O : Gen.FOps F} {O' : Gen.FOps G} {h : F → G} (H : FHom O O' h) :
    Ext2Hom (Ext2.f64 O) (Ext2.f64 O') h := f64_ext2_hom H

theorem cube_raw_arith (H : ImplementsArith I p ok val) (mk : ∀ {F : Type}, Gen.FOps F → Ext3 F)
    (hmk : ∀ {F G : Type} {O : Gen.FOps F} {O' : Gen.FOps G} {h : F → G}, FHom O O' h → Ext3Hom (mk O) (mk O') h)
    (a b : Cube ℕ) (c : ℕ) (ha : okC ok a) (hb : okC ok b) (hc : ok c) :
    (okC ok (Cube.mul (mk (BOps.ofImpl I).toFOps) a b) ∧
      Cube.map val (Cube.mul (mk (BOps.ofImpl I).toFOps) a b) =
        Cube.mul (mk (ringOps (ZMod p))) (Cube.map val a) (Cube.map val b)) ∧
    (okC ok (Cube.square (mk (BOps.ofImpl I).toFOps) a) ∧
      Cube.map val (Cube.square (mk (BOps.ofImpl I).toFOps) a) =
        Cube.square (mk (ringOps (ZMod p))) (Cube.map val a)) ∧
    (okC ok (Cube.mulBase (mk (BOps.ofImpl I).toFOps) a c) ∧
      Cube.map val (Cube.mulBase (mk (BOps.ofImpl I).toFOps) a c) =
        Cube.mulBase (mk (ringOps (ZMod p))) (Cube.map val a) (val c)) ∧
    (okC ok (Cube.conjugate (mk (BOps.ofImpl I).toFOps) a) ∧
      Cube.map val (Cube.conjugate (mk (BOps.ofImpl I).toFOps) a) =
        Cube.conjugate (mk (ringOps (ZMod p))) (Cube.map val a)) ∧
    (okC ok (Cube.add (BOps.ofImpl I) a b) ∧
      Cube.map val (Cube.add (BOps.ofImpl I) a b) = Cube.add (fieldBOps p) (Cube.map val a) (Cube.map val b)) ∧
    (okC ok (Cube.sub (BOps.ofImpl I) a b) ∧
      Cube.map val (Cube.sub (BOps.ofImpl I) a b) = Cube.sub (fieldBOps p) (Cube.map val a) (Cube.map val b)) ∧
    (okC ok (Cube.neg (BOps.ofImpl I) a) ∧
      Cube.map val (Cube.neg (BOps.ofImpl I) a) = Cube.neg (fieldBOps p) (Cube.map val a)) ∧
    (okC ok (Cube.double (BOps.ofImpl I) a) ∧
      Cube.map val (Cube.double (BOps.ofImpl I) a) = Cube.double (fieldBOps p) (Cube.map val a)) := by
  have HR := subOps_raw_ops H
  have HF := subOps_field_ops H
  have XR : Ext3Hom (mk (subOps H).toFOps) (mk (BOps.ofImpl I).toFOps) Subtype.val := hmk HR
  have XF : Ext3Hom (mk (subOps H).toFOps) (mk (ringOps (ZMod p))) (fun a : {x : ℕ // ok x} => val a.1) :=
    hmk HF
  refine ⟨?_, ?_, ?_, ?_, ?_, ?_, ?_, ?_⟩
  · exact cube_lift1 (opS := fun x => Cube.mul (mk (subOps H).toFOps) x (liftC b hb))
      (opR := fun x => Cube.mul _ x b) (opF := fun x => Cube.mul _ x (Cube.map val b))
      (fun x => Cube.map_mul XR x _) (fun x => Cube.map_mul XF x _) a ha
  · exact cube_lift1 (fun x => Cube.map_square XR x) (fun x => Cube.map_square XF x) a ha
  · exact cube_lift1 (opS := fun x => Cube.mulBase (mk (subOps H).toFOps) x ⟨c, hc⟩)
      (opR := fun x => Cube.mulBase _ x c) (opF := fun x => Cube.mulBase _ x (val c))
      (fun x => Cube.map_mulBase XR x _) (fun x => Cube.map_mulBase XF x _) a ha
  · exact cube_lift1 (fun x => Cube.map_conjugate XR x) (fun x => Cube.map_conjugate XF x) a ha
  · exact cube_lift1 (opS := fun x => Cube.add (subOps H) x (liftC b hb))
      (opR := fun x => Cube.add _ x b) (opF := fun x => Cube.add _ x (Cube.map val b))
      (fun x => Cube.map_add HR x _) (fun x => Cube.map_add HF x _) a ha
  · exact cube_lift1 (opS := fun x => Cube.sub (subOps H) x (liftC b hb))
      (opR := fun x => Cube.sub _ x b) (opF := fun x => Cube.sub _ x (Cube.map val b))
      (fun x => Cube.map_sub HR x _) (fun x => Cube.map_sub HF x _) a ha
  · exact cube_lift1 (fun x => Cube.map_neg HR x) (fun x => Cube.map_neg HF x) a ha
  · exact cube_lift1 (fun x => Cube.map_double HR x) (fun x => Cube.map_double HF x) a ha

theorem cube_raw_refines (H : Implements I p ok val) (mk : ∀ {F : Type}, Gen.FOps F → Ext3 F)
    (hmk : ∀ {F G : Type} {O : Gen.FOps F} {O' : Gen.FOps G} {h : F → G}, FHom O O' h → Ext3Hom (mk O) (mk O') h)
    (a b : Cube ℕ) (c : ℕ) (ha : okC ok a) (hb : okC ok b) (hc : ok c) :
    (okC ok (Cube.mul (mk (BOps.ofImpl I).toFOps) a b) ∧
      Cube.map val (Cube.mul (mk (BOps.ofImpl I).toFOps) a b) =
        Cube.mul (mk (ringOps (ZMod p))) (Cube.map val a) (Cube.map val b)) ∧
    (okC ok (Cube.square (mk (BOps.ofImpl I).toFOps) a) ∧
      Cube.map val (Cube.square (mk (BOps.ofImpl I).toFOps) a) =
        Cube.square (mk (ringOps (ZMod p))) (Cube.map val a)) ∧
    (okC ok (Cube.mulBase (mk (BOps.ofImpl I).toFOps) a c) ∧
      Cube.map val (Cube.mulBase (mk (BOps.ofImpl I).toFOps) a c) =
        Cube.mulBase (mk (ringOps (ZMod p))) (Cube.map val a) (val c)) ∧
    (okC ok (Cube.conjugate (mk (BOps.ofImpl I).toFOps) a) ∧
      Cube.map val (Cube.conjugate (mk (BOps.ofImpl I).toFOps) a) =
        Cube.conjugate (mk (ringOps (ZMod p))) (Cube.map val a)) ∧
    (okC ok (Cube.add (BOps.ofImpl I) a b) ∧
      Cube.map val (Cube.add (BOps.ofImpl I) a b) = Cube.add (fieldBOps p) (Cube.map val a) (Cube.map val b)) ∧
    (okC ok (Cube.sub (BOps.ofImpl I) a b) ∧
      Cube.map val (Cube.sub (BOps.ofImpl I) a b) = Cube.sub (fieldBOps p) (Cube.map val a) (Cube.map val b)) ∧
    (okC ok (Cube.neg (BOps.ofImpl I) a) ∧
      Cube.map val (Cube.neg (BOps.ofImpl I) a) = Cube.neg (fieldBOps p) (Cube.map val a)) ∧
    (okC ok (Cube.double (BOps.ofImpl I) a) ∧
      Cube.map val (Cube.double (BOps.ofImpl I) a) = Cube.double (fieldBOps p) (Cube.map val a)) ∧
    ((∀ y, Cube.inv (BOps.ofImpl I) (mk (BOps.ofImpl I).toFOps) a = .ok y → okC ok y) ∧
      Res.map (Cube.map val) (Cube.inv (BOps.ofImpl I) (mk (BOps.ofImpl I).toFOps) a) =
        Cube.inv (fieldBOps p) (mk (ringOps (ZMod p))) (Cube.map val a)) := by
  obtain ⟨h1, h2, h3, h4, h5, h6, h7, h8⟩ := cube_raw_arith H.toImplementsArith mk hmk a b c ha hb hc
  exact ⟨h1, h2, h3, h4, h5, h6, h7, h8,
    cube_lift_inv H (hmk (subOps_raw_ops H.toImplementsArith)) (hmk (subOps_field_ops H.toImplementsArith)) a ha⟩

example {F G : Type} {O : Gen.FOps F} {O' : Gen.FOps G} {h : F → G} (H : FHom O O' h) :
    Ext3Hom (Ext3.f62 O) (Ext3.f62 O') h := f62_ext3_hom H

theorem Res.map_eq_ok {α β : Type} {f : α → β} {r : Res α} {y' : β} (h : Res.map f r = .ok y') :
    ∃ y, r = .ok y ∧ f y = y' := by
  cases r with
  | ok y => exact ⟨y, rfl, by simpa [Res.map] using h⟩
  | panic => simp [Res.map] at h
  | hang => simp [Res.map] at h

/-- quadratic, on raw words: on invariant-satisfying coordinates `inv` returns (no panic, no hang) an
    invariant-satisfying element denoting the inverse (resp. zero for zero) -/
theorem quad_raw_inverse (H : Implements I p ok val) (mk : ∀ {F : Type}, Gen.FOps F → Ext2 F)
    (hmk : ∀ {F G : Type} {O : Gen.FOps F} {O' : Gen.FOps G} {h : F → G}, FHom O O' h → Ext2Hom (mk O) (mk O') h)
    {s t : ZMod p} (hspec : Spec2 (mk (ringOps (ZMod p))) s t) (hs : s ≠ 0)
    (hφ : (PQ2.φ : PQ2 (ZMod p) s t) ^ p = ⟨s, -1⟩) (a : Quad ℕ) (ha : okQ ok a) :
    ∃ y, Quad.inv (BOps.ofImpl I) (mk (BOps.ofImpl I).toFOps) a = .ok y ∧ okQ ok y ∧
      (Quad.map val a = ⟨0, 0⟩ → Quad.map val y = ⟨0, 0⟩) ∧
      (Quad.map val a ≠ ⟨0, 0⟩ →
        Quad.mul (mk (ringOps (ZMod p))) (Quad.map val a) (Quad.map val y) = Quad.one (fieldBOps p)) := by
  obtain ⟨hok, hmap⟩ := (quad_raw_refines H mk hmk a a (I.new 0) ha ha (H.new 0 (Nat.two_pow_pos _)).1 |>.2.2.2.2.2.2.2.2)
  have hinv := quad_inverse hspec hs hφ (Quad.map val a)
  by_cases hz : Quad.map val a = ⟨0, 0⟩
  · rw [hinv.1 hz] at hmap
    obtain ⟨y, hy, hvy⟩ := Res.map_eq_ok hmap
    exact ⟨y, hy, hok y hy, fun _ => hvy, fun h => absurd hz h⟩
  · obtain ⟨y', hy', hone⟩ := hinv.2 hz
    rw [hy'] at hmap
    obtain ⟨y, hy, hvy⟩ := Res.map_eq_ok hmap
    exact ⟨y, hy, hok y hy, fun h => absurd h hz, fun _ => by rw [hvy]; exact hone⟩

/-- cubic, on raw words -/
theorem cube_raw_inverse (H : Implements I p ok val) (mk : ∀ {F : Type}, Gen.FOps F → Ext3 F)
    (hmk : ∀ {F G : Type} {O : Gen.FOps F} {O' : Gen.FOps G} {h : F → G}, FHom O O' h → Ext3Hom (mk O) (mk O') h)
    {s t : ZMod p} {k : FrobK (ZMod p)} (hspec : Spec3 (mk (ringOps (ZMod p))) s t k) (HK : Frob3 s t k)
    (a : Cube ℕ) (ha : okC ok a) :
    ∃ y, Cube.inv (BOps.ofImpl I) (mk (BOps.ofImpl I).toFOps) a = .ok y ∧ okC ok y ∧
      (Cube.map val a = ⟨0, 0, 0⟩ → Cube.map val y = ⟨0, 0, 0⟩) ∧
      (Cube.map val a ≠ ⟨0, 0, 0⟩ →
        Cube.mul (mk (ringOps (ZMod p))) (Cube.map val a) (Cube.map val y) = Cube.one (fieldBOps p)) := by
  obtain ⟨hok, hmap⟩ := (cube_raw_refines H mk hmk a a (I.new 0) ha ha (H.new 0 (Nat.two_pow_pos _)).1 |>.2.2.2.2.2.2.2.2)
  have hinv := cube_inverse hspec HK (Cube.map val a)
  by_cases hz : Cube.map val a = ⟨0, 0, 0⟩
  · rw [hinv.1 hz] at hmap
    obtain ⟨y, hy, hvy⟩ := Res.map_eq_ok hmap
    exact ⟨y, hy, hok y hy, fun _ => hvy, fun h => absurd hz h⟩
  · obtain ⟨y', hy', hone⟩ := hinv.2 hz
    rw [hy'] at hmap
    obtain ⟨y, hy, hvy⟩ := Res.map_eq_ok hmap
    exact ⟨y, hy, hok y hy, fun h => absurd h hz, fun _ => by rw [hvy]; exact hone⟩

end Refinement

-- ------------------------------------------------------------------------------------------------
-- The hypotheses used above are satisfiable (non-vacuity), shown on a toy prime; for the real moduli the only
-- hypotheses left are `Fact (Nat.Prime M)` and `Implements` (both: property C07).
section Examples
local instance : Fact (Nat.Prime 7) := ⟨by decide⟩

/-- a toy base-field implementation (canonical residues modulo 7) -/
def toyImpl : FieldImpl where
  name := "toy7"
  M := 7
  bytes := 1
  wordBits := 64
  new := fun n => n % 7
  add := fun a b => (a + b) % 7
  sub := fun a b => (a + (7 - b % 7)) % 7
  mul := fun a b => (a * b) % 7
  neg := fun a => (7 - a % 7) % 7
  double := fun a => (2 * a) % 7
  asInt := fun a => a % 7
  eq := fun a b => a % 7 == b % 7
  exp := fun a e => a ^ e % 7
  inv := fun a => .done (a ^ 5 % 7)
  twoAdicity := 1
  twoAdicRoot := 6
  generator := 3
  inv? := fun r => decide (r < 7)

example : Implements toyImpl 7 (· < 7) (fun n => (n : ZMod 7)) where
  add := by intro a b ha hb; revert b; revert a; decide
  sub := by intro a b ha hb; revert b; revert a; decide
  mul := by intro a b ha hb; revert b; revert a; decide
  neg := by intro a ha; revert a; decide
  double := by intro a ha; revert a; decide
  bits := Nat.le_refl _
  new := fun n _ => ⟨Nat.mod_lt _ (by decide), ZMod.natCast_mod n 7⟩
  eq := by intro a b ha hb; revert b; revert a; decide
  inv := by
    intro a ha
    refine ⟨a ^ 5 % 7, rfl, Nat.mod_lt _ (by decide), ?_⟩
    have key : ∀ a < 7, ((a ^ 5 % 7 : ℕ) : ZMod 7) * (a : ZMod 7) = if a = 0 then 0 else 1 := by decide
    rcases Nat.eq_zero_or_pos a with h0 | hpos
    · subst h0; simp
    · have := key a ha
      rw [if_neg (by omega)] at this
      exact eq_inv_of_mul_eq_one_left this

example : ∃ (p : ℕ) (_ : Fact p.Prime) (s t : ZMod p) (X : Ext2 (ZMod p)),
    Spec2 X s t ∧ s ≠ 0 ∧ (PQ2.φ : PQ2 (ZMod p) s t) ^ p = ⟨s, -1⟩ := by
  refine ⟨7, inferInstance, 1, 1, Ext2.f62 (ringOps (ZMod 7)), ?_, by decide, ?_⟩
  · exact q62_spec
  · have hk : powN2 7 1 1 3 (1, 0) (0, 1) 7 = (1, 6) := by decide
    rw [phi_pow_of_powN2 (p := 7) (s := 1) (t := 1) 1 1 (by simp) (by simp) 3 (by decide) 1 6 hk]
    ext <;> simp; decide

example [Fact (Nat.Prime Gen.F64.M)] : Frob3 (p := Gen.F64.M) 1 1 (k64 (ZMod Gen.F64.M)) := c64_frob3
example [Fact (Nat.Prime Gen.F62.M)] : Frob3 (p := Gen.F62.M) (-2) (-2) (k62 (ZMod Gen.F62.M)) := c62_frob3

/-- the base-field hypothesis of `serialization_roundtrip` on the toy implementation -/
example : ∀ c rest, c < 7 → toyImpl.readFrom (toyImpl.toBytes c ++ rest) = some (.ok (c % 7), rest) := by
  intro c rest hc
  have h1 : c % 7 = c := Nat.mod_eq_of_lt hc
  have h2 : c % 256 = c := Nat.mod_eq_of_lt (by omega)
  have h3 : ¬ (7 ≤ c) := by omega
  simp [FieldImpl.readFrom, FieldImpl.toBytes, toyImpl, leBytes, ofLeBytes, FieldImpl.tryFrom, h1, h2, h3]

/-- the root hypothesis of `quad_eval_root` / `cube_eval_root` is satisfiable: the quotient ring itself with `φ` -/
example : ((PQ2.φ : PQ2 ℤ 1 (-2)) ^ 2 = PQ2.C 1 * PQ2.φ + PQ2.C (-2)) ∧
    ((PQ3.φ : PQ3 ℤ (-2) (-2)) ^ 3 = PQ3.C (-2) * PQ3.φ + PQ3.C (-2)) := by
  constructor
  · have := PQ2.φ_root (R := ℤ) (s := 1) (t := -2)
    linear_combination this
  · have := PQ3.φ_root (R := ℤ) (s := -2) (t := -2)
    linear_combination this

end Examples

end WinterProofs.C08
