-- C08: extension fields — arithmetic equals polynomial arithmetic modulo the documented irreducible
-- (property theorems; helper lemmas in WinterProofs/Lemmas/C08*.lean).
--
-- Objects.  `Gen.F64|F62|F128.ext2_*`, `ext3_*` are the `ExtensibleField<2>`/`<3>` bodies regenerated from
-- math/src/field/{f64,f62,f128}/mod.rs on every run, written against a record `Gen.FOps F` of base operations.
-- `Model.Quad` / `Model.Cube` (Winter/Model/Ext.lean) model `QuadExtension` / `CubeExtension` on top of them.
-- Here the record is instantiated with the operations of an arbitrary commutative ring `R` (`ringOps R`), resp. of
-- the prime field `ZMod p` (`fieldBOps p`), and elements are read in the quotient rings
--   `PQ2 R s t = R[x]/(x² - s·x - t)`,   `PQ3 R s t = R[x]/(x³ - s·x - t)`   (pairs / triples, `CommRing`,
--   `evalRoot`: evaluation at any root of the polynomial in any commutative ring is a ring homomorphism).
-- Documented irreducibles: f64 quadratic x² - x + 2 (s,t = 1,-2); f62 and f128 quadratic x² - x - 1 (1,1);
-- f64 cubic x³ - x - 1 (1,1); f62 cubic x³ + 2x + 2 (-2,-2).
--
-- Taken as hypotheses (they belong to property C07): primality of the three moduli (`Fact (Nat.Prime M)`), and that
-- the raw-word operations of each base field implement `ZMod M` (the theorems below are about `ZMod M`; the
-- generated formulas are polymorphic in the operation record and the driver runs them on the raw-word operations).
import WinterProofs.Lemmas.C08Field

set_option linter.unusedSectionVars false
set_option linter.unusedSimpArgs false
set_option linter.unusedTactic false
set_option linter.unreachableTactic false
set_option linter.unnecessarySeqFocus false

namespace WinterProofs.C08
open Model WinterProofs.C08L

-- ================================================================================================
-- 1. The generated formulas are schoolbook multiplication reduced by the documented irreducible (any ring)
-- ================================================================================================
section Formulas
variable {R : Type} [CommRing R]

/-- f64, degree 2: product reduced by x² = x - 2; the dedicated squaring equals the product; `mul_base` is the
    product with a constant; `frobenius` is `φ ↦ 1 - φ` -/
theorem q64_spec : Spec2 (Ext2.f64 (ringOps R)) 1 (-2) where
  mul a0 a1 b0 b1 := by
    simp only [Ext2.f64, Gen.F64.ext2_mul, Gen.F64.ext2_mul.s_a0b0, ringOps]
    refine Prod.ext ?_ ?_ <;> simp only [] <;> ring
  square a0 a1 := by
    simp only [Ext2.f64, Gen.F64.ext2_mul, Gen.F64.ext2_mul.s_a0b0, Gen.F64.ext2_square,
      Gen.F64.ext2_square.s_a0, Gen.F64.ext2_square.s_a1, Gen.F64.ext2_square.s_a1_sq,
      Gen.F64.ext2_square.s_out0, Gen.F64.ext2_square.s_out1, ringOps]
    refine Prod.ext ?_ ?_ <;> simp only [] <;> ring
  mulBase a0 a1 b := by simp [Ext2.f64, Gen.F64.ext2_mul_base, ringOps]
  frobenius x0 x1 := by simp [Ext2.f64, Gen.F64.ext2_frobenius, ringOps]

/-- f62, degree 2: product reduced by x² = x + 1 (squaring is the trait default `mul(a, a)`) -/
theorem q62_spec : Spec2 (Ext2.f62 (ringOps R)) 1 1 where
  mul a0 a1 b0 b1 := by
    simp only [Ext2.f62, Gen.F62.ext2_mul, Gen.F62.ext2_mul.s_z, ringOps]
    refine Prod.ext ?_ ?_ <;> simp only [] <;> ring
  square a0 a1 := rfl
  mulBase a0 a1 b := by simp [Ext2.f62, Gen.F62.ext2_mul_base, ringOps]
  frobenius x0 x1 := by simp [Ext2.f62, Gen.F62.ext2_frobenius, ringOps]

/-- f128, degree 2: product reduced by x² = x + 1 -/
theorem q128_spec : Spec2 (Ext2.f128 (ringOps R)) 1 1 where
  mul a0 a1 b0 b1 := by
    simp only [Ext2.f128, Gen.F128.ext2_mul, Gen.F128.ext2_mul.s_z, ringOps]
    refine Prod.ext ?_ ?_ <;> simp only [] <;> ring
  square a0 a1 := rfl
  mulBase a0 a1 b := by simp [Ext2.f128, Gen.F128.ext2_mul_base, ringOps]
  frobenius x0 x1 := by simp [Ext2.f128, Gen.F128.ext2_frobenius, ringOps]

/-- the Frobenius coefficients written in math/src/field/f64/mod.rs ("computed using SageMath") -/
def k64 (R : Type) [CommRing R] : FrobK R :=
  ⟨(10615703402128488253 : ℕ), (10050274602728160328 : ℕ), (11746561000929144102 : ℕ),
   (6700183068485440220 : ℕ), (14531223735771536287 : ℕ), (8396469466686423992 : ℕ)⟩

/-- the Frobenius coefficients written in math/src/field/f62/mod.rs -/
def k62 (R : Type) [CommRing R] : FrobK R :=
  ⟨(2061766055618274781 : ℕ), (2868591307402993000 : ℕ), (2699230790596717670 : ℕ),
   (786836585661389001 : ℕ), (3336695525575160559 : ℕ), (1743033688129053336 : ℕ)⟩

/-- f64, degree 3: product reduced by x³ = x + 1; dedicated squaring equals the product; `frobenius` is the linear
    map with the coefficients `k64` -/
theorem c64_spec : Spec3 (Ext3.f64 (ringOps R)) 1 1 (k64 R) where
  mul a0 a1 a2 b0 b1 b2 := by
    simp only [Ext3.f64, Gen.F64.ext3_mul, Gen.F64.ext3_mul.s_a0b0, Gen.F64.ext3_mul.s_a1b1,
      Gen.F64.ext3_mul.s_a2b2, Gen.F64.ext3_mul.s_a0b0_a0b1_a1b0_a1b1, Gen.F64.ext3_mul.s_a0b0_a0b2_a2b0_a2b2,
      Gen.F64.ext3_mul.s_a1b1_a1b2_a2b1_a2b2, Gen.F64.ext3_mul.s_a0b0_minus_a1b1,
      Gen.F64.ext3_mul.s_a0b0_a1b2_a2b1, Gen.F64.ext3_mul.s_a0b1_a1b0_a1b2_a2b1_a2b2,
      Gen.F64.ext3_mul.s_a0b2_a1b1_a2b0_a2b2, ringOps]
    refine Prod.ext ?_ (Prod.ext ?_ ?_) <;> simp only [] <;> ring
  square a0 a1 a2 := by
    simp only [Ext3.f64, Gen.F64.ext3_mul, Gen.F64.ext3_mul.s_a0b0, Gen.F64.ext3_mul.s_a1b1,
      Gen.F64.ext3_mul.s_a2b2, Gen.F64.ext3_mul.s_a0b0_a0b1_a1b0_a1b1, Gen.F64.ext3_mul.s_a0b0_a0b2_a2b0_a2b2,
      Gen.F64.ext3_mul.s_a1b1_a1b2_a2b1_a2b2, Gen.F64.ext3_mul.s_a0b0_minus_a1b1,
      Gen.F64.ext3_mul.s_a0b0_a1b2_a2b1, Gen.F64.ext3_mul.s_a0b1_a1b0_a1b2_a2b1_a2b2,
      Gen.F64.ext3_mul.s_a0b2_a1b1_a2b0_a2b2, Gen.F64.ext3_square, Gen.F64.ext3_square.s_a0,
      Gen.F64.ext3_square.s_a1, Gen.F64.ext3_square.s_a2, Gen.F64.ext3_square.s_a2_sq,
      Gen.F64.ext3_square.s_a1_a2, Gen.F64.ext3_square.s_out0, Gen.F64.ext3_square.s_out1,
      Gen.F64.ext3_square.s_out2, ringOps]
    refine Prod.ext ?_ (Prod.ext ?_ ?_) <;> simp only [] <;> ring
  mulBase a0 a1 a2 b := by simp [Ext3.f64, Gen.F64.ext3_mul_base, ringOps]
  frobenius x0 x1 x2 := by simp [Ext3.f64, Gen.F64.ext3_frobenius, ringOps, k64]

/-- f62, degree 3: product reduced by x³ = -2x - 2 -/
theorem c62_spec : Spec3 (Ext3.f62 (ringOps R)) (-2) (-2) (k62 R) where
  mul a0 a1 a2 b0 b1 b2 := by
    simp only [Ext3.f62, Gen.F62.ext3_mul, Gen.F62.ext3_mul.s_a0b0, Gen.F62.ext3_mul.s_a1b1,
      Gen.F62.ext3_mul.s_a2b2, Gen.F62.ext3_mul.s_a0b0_a0b1_a1b0_a1b1,
      Gen.F62.ext3_mul.s_minus_a0b0_a0b2_a2b0_minus_a2b2, Gen.F62.ext3_mul.s_a1b1_minus_a1b2_minus_a2b1_a2b2,
      Gen.F62.ext3_mul.s_a0b0_a1b1, Gen.F62.ext3_mul.s_minus_2a1b2_minus_2a2b1,
      Gen.F62.ext3_mul.s_a0b0_minus_2a1b2_minus_2a2b1,
      Gen.F62.ext3_mul.s_a0b1_a1b0_minus_2a1b2_minus_2a2b1_minus_2a2b2,
      Gen.F62.ext3_mul.s_a0b2_a1b1_a2b0_minus_2a2b2, ringOps]
    refine Prod.ext ?_ (Prod.ext ?_ ?_) <;> simp only [] <;> ring
  square a0 a1 a2 := rfl
  mulBase a0 a1 a2 b := by simp [Ext3.f62, Gen.F62.ext3_mul_base, ringOps]
  frobenius x0 x1 x2 := by simp [Ext3.f62, Gen.F62.ext3_frobenius, ringOps, k62]

/-- the generator `φ` of each quotient ring is a root of the documented polynomial -/
theorem documented_irreducibles :
    ((PQ2.φ : PQ2 R 1 (-2)) ^ 2 - PQ2.φ + PQ2.C 2 = 0) ∧       -- f64:        x² - x + 2
    ((PQ2.φ : PQ2 R 1 1) ^ 2 - PQ2.φ - 1 = 0) ∧                 -- f62, f128:  x² - x - 1
    ((PQ3.φ : PQ3 R 1 1) ^ 3 - PQ3.φ - 1 = 0) ∧                 -- f64:        x³ - x - 1
    ((PQ3.φ : PQ3 R (-2) (-2)) ^ 3 + PQ3.C 2 * PQ3.φ + PQ3.C 2 = 0) := by   -- f62: x³ + 2x + 2
  refine ⟨?_, ?_, ?_, ?_⟩
  · have := PQ2.φ_root (R := R) (s := 1) (t := -2)
    rw [map_one, one_mul, map_neg, sub_neg_eq_add] at this
    exact this
  · have := PQ2.φ_root (R := R) (s := 1) (t := 1)
    rw [map_one, one_mul] at this
    exact this
  · have := PQ3.φ_root (R := R) (s := 1) (t := 1)
    rw [map_one, one_mul] at this
    exact this
  · have := PQ3.φ_root (R := R) (s := -2) (t := -2)
    rw [map_neg, neg_mul, sub_neg_eq_add, sub_neg_eq_add] at this
    exact this

end Formulas

end WinterProofs.C08
