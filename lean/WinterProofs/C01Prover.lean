-- C01 Completeness for the EXECUTABLE pair: the reference prover `Model.RefProver.refProve` (tied to the real
-- `Prover::prove` byte for byte by the `refp` op of ./check C01) and the reference verifier
-- `Model.RefVerifier.refVerify` (tied to the real `verify` by the `refv` op of ./check C03).
--
--   * `C01_complete_exec` — THE FULL STATEMENT (a `def … : Prop`): for every instantiation, description, trace
--     and option set, admissible configuration + valid trace ⇒ the prover returns bytes and the verifier accepts
--     them for the public inputs read off the trace.
--   * `c01_complete_exec_partial` — what is PROVED of it, for all inputs: acceptance is decomposed along the
--     verifier's checks (`refVerify_ok_iff`), and the following are discharged from the definition of the prover
--     and the lower-layer theorems:
--       - the verifier re-derives exactly the prover's challenges (coefficients, z, DEEP coefficients, FRI alphas,
--         query positions): both run the same coin operations on the same data (C04), `challenges_of_run`;
--       - the proof-of-work check passes on the nonce the prover searched (C19), `pow_of_run`;
--       - the query positions are the sorted, de-duplicated draws, non-empty, distinct, inside the LDE domain;
--       - the trace and constraint openings verify against their commitments (C10 `batch_complete`),
--         `openings_of_run`;
--       - the remainder commitment is the hash of the remainder sent;
--     what is NOT proved enters as NAMED hypotheses (structure `Open`), each a concrete statement about the values
--     of the run, with the lemma that is missing.
--   * kernel-checked end-to-end instances (`witness_sq8`, `witness_per8`, `witness_per8_ext2`:
--     WinterProofs/C01ProverWitness.lean) — TESTS of single instances evaluated by the kernel, at the zero-round
--     hasher instance `Inst.toy` (the real Rescue permutation is out of the kernel's reach for a whole proof);
--     with the real hashers `refVerify (refProve …) = ok` is evaluated by the compiled model on every `refp` line.
import WinterProofs.RefVerifierTotal
import WinterProofs.C10
import WinterProofs.Lemmas.C04Run
import WinterProofs.C01
import Winter.Model.RefProver
import WinterProofs.C01ProverInst

set_option linter.unusedSectionVars false
set_option linter.unusedVariables false

namespace WinterProofs.C01Prover
open Model Model.VerifierChecks Model.RefVerifier Model.RefProver WinterProofs.RefVerifier

/-! ## 1. What a successful run of the prover consists of (inversion of the three phases) -/

theorem proveRun_ok {J : Inst} {E : EOps} {d : Desc} {trace : List (List Nat)} {o : Serde.ProofOptions} {r : Run}
    (hna : d.aux = none) (h : proveRun J E d trace o = .ok r) :
    phase1 J E d trace o = .ok r.p1 ∧ phase2 J E o (d.air.n * o.blowup) r.p1.deepEvals r.p1.c7 = .ok r.p2 ∧
      phase3 J E o (d.air.n * o.blowup) r.p1 r.p2 = .ok r.p3 ∧ (r.p1.auxCommit = none → r.auxOpen = none) := by
  unfold proveRun at h
  rw [hna] at h
  simp only at h
  split at h
  · cases h
  · rename_i p1 h1
    split at h
    · cases h
    · rename_i p2 h2
      split at h
      · cases h
      · rename_i p3 h3
        split at h
        · injection h with h
          subst h
          exact ⟨h1, h2, h3, fun _ => rfl⟩
        · rename_i ac hac
          split at h
          · injection h with h
            subst h
            refine ⟨h1, h2, h3, fun hn => ?_⟩
            rw [hn] at hac; cases hac
          · cases h

/-- the facts about phase 1 the theorems below use -/
structure Phase1Ok (J : Inst) (E : EOps) (d : Desc) (trace : List (List Nat)) (o : Serde.ProofOptions)
    (p : Phase1) : Prop where
  noAux : d.aux.isSome = false
  ctx : p.ctx = contextOf J d o
  wf : (contextOf J d o).wf = true
  pubs : pubInputs d J.I.M trace = some p.pubs
  air : Parse.airNew (frontAir J d) (contextOf J d o).traceInfo o = some p.ncols
  traceRows : ∃ rows, rows.length = d.air.n * o.blowup ∧ commitRows J rows = .ok p.traceCommit
  troot : p.traceCommit.root = .ok p.troot
  c1 : p.c1 = (coinOps J E).reseed ((coinOps J E).new
      (coinSeed J.I.bytes (contextOf J d o) (p.pubs.map (· % J.I.M)))) p.troot
  coeffs : drawMany (coinOps J E) (d.air.constraints.length + d.air.assertions.length) p.c1 = some (p.coeffs, p.c3)
  consRows : ∃ rows, rows.length = d.air.n * o.blowup ∧ commitRows J rows = .ok p.consCommit
  croot : p.consCommit.root = .ok p.croot
  z : (coinOps J E).draw ((coinOps J E).reseed p.c3 p.croot) = some (p.z, p.c4)
  c6 : p.c6 = (coinOps J E).reseed ((coinOps J E).reseed p.c4 (hashEls J p.oodTrace)) (hashEls J p.oodEvals)
  deep : drawMany (coinOps J E) (d.air.width + p.ncols) p.c6 = some (p.deep, p.c7)
  auxCommit : p.auxCommit = none
  auxRoot : p.auxRoot = none

theorem evalRows_length (E : EOps) (polys : List (List El)) (xs : List El) : (evalRows E polys xs).length = xs.length := by
  simp [evalRows]

theorem phase1_ok {J : Inst} {E : EOps} {d : Desc} {trace : List (List Nat)} {o : Serde.ProofOptions} {p : Phase1}
    (h : phase1 J E d trace o = .ok p) : Phase1Ok J E d trace o p := by
  unfold phase1 at h
  simp only at h
  split at h
  · cases h
  · split at h
    · cases h
    · rename_i haux
      split at h
      · cases h
      · rename_i hwf
        split at h
        · cases h
        · cases h
        · rename_i pubs ncols hpubs hair
          split at h
          · cases h
          · rename_i polysB hpolys
            split at h
            · cases h
            · rename_i hxs
              split at h
              · cases h
              · rename_i tc htc
                split at h
                · cases h
                · rename_i troot htroot
                  split at h
                  · cases h
                  · split at h
                    · cases h
                    · rename_i coeffs c3 hco
                      split at h
                      · cases h
                      · cases h
                      · rename_i air P D hprep hdom
                        split at h
                        · cases h
                        · rename_i compTrace hct
                          split at h
                          · cases h
                          · rename_i cols hcols
                            split at h
                            · cases h
                            · rename_i cc hcc
                              split at h
                              · cases h
                              · rename_i croot hcroot
                                split at h
                                · cases h
                                · rename_i z c4 hz
                                  split at h
                                  · cases h
                                  · rename_i g hg
                                    split at h
                                    · cases h
                                    · rename_i deep c7 hdeep
                                      split at h
                                      · cases h
                                      · rename_i dp hdp
                                        injection h with h
                                        subst h
                                        have hxs' : (ldePoints J (d.air.n * o.blowup)).length = d.air.n * o.blowup :=
                                          Decidable.of_not_not hxs
                                        refine ⟨by simpa using haux, rfl, by simpa using hwf, hpubs, hair,
                                          ⟨_, ?_, htc⟩, htroot, rfl, hco, ⟨_, ?_, hcc⟩, hcroot, hz, rfl, hdeep, rfl, rfl⟩
                                        · rw [evalRows_length]; exact hxs'
                                        · rw [evalRows_length, List.length_map]; exact hxs'

/-! ## 2. The FRI commit phase against `FriVerifier::new` -/

theorem friBuildLayers_lengths (J : Inst) (E : EOps) (N : Nat) :
    ∀ (k : Nat) (evals : List El) (c : CoinSt) (fs : FriState), friBuildLayers J E N k evals c = .ok fs →
      fs.roots.length = k ∧ fs.layers.length = k ∧ fs.alphas.length = k
  | 0, evals, c, fs, h => by
    unfold friBuildLayers at h
    injection h with h; subst h; exact ⟨rfl, rfl, rfl⟩
  | k + 1, evals, c, fs, h => by
    unfold friBuildLayers at h
    split at h
    · cases h
    · split at h
      · cases h
      · split at h
        · cases h
        · split at h
          · cases h
          · split at h
            · cases h
            · split at h
              · rename_i st hst
                injection h with h; subst h
                obtain ⟨h1, h2, h3⟩ := friBuildLayers_lengths J E N k _ _ st hst
                simp [h1, h2, h3]
              · cases h

/-- the verifier's `FriVerifier::new` (one reseed and one draw per commitment) on the commitments of the prover's
    commit phase re-derives the prover's alphas, provided the degree bookkeeping does not truncate on the `k`
    layers and the coin yields one more element after the remainder commitment (the verifier draws an alpha for
    the remainder commitment as well; the prover does not) -/
theorem friNew_of_build (J : Inst) (E : EOps) (N total : Nat) (remRoot : Dg) (aLast : El) (c9 : CoinSt) :
    ∀ (k : Nat) (evals : List El) (c : CoinSt) (fs : FriState) (depth md mdk : Nat),
      friBuildLayers J E N k evals c = .ok fs →
      Protocol.degreeBookkeeping md N k = some mdk →
      depth + k = total - 1 →
      (coinOps J E).draw ((coinOps J E).reseed fs.coin remRoot) = some (aLast, c9) →
      friNew (coinOps J E) N total (fs.roots ++ [remRoot]) depth md c
        = .ok (fs.alphas ++ [aLast], c9, fs.roots ++ [remRoot])
  | 0, evals, c, fs, depth, md, mdk, h, _, hd, hdraw => by
    unfold friBuildLayers at h
    injection h with h; subst h
    simp only [List.nil_append]
    unfold friNew
    simp only at hdraw
    rw [hdraw]
    simp only
    rw [if_neg (by omega)]
    unfold friNew
    rfl
  | k + 1, evals, c, fs, depth, md, mdk, h, hbk, hd, hdraw => by
    unfold friBuildLayers at h
    split at h
    · cases h
    · split at h
      · cases h
      · split at h
        · cases h
        · rename_i root hroot
          split at h
          · cases h
          · rename_i alpha c' hal
            split at h
            · cases h
            · split at h
              · rename_i st hst
                injection h with h; subst h
                unfold Protocol.degreeBookkeeping at hbk
                split at hbk
                · cases hbk
                · rename_i hmod
                  have ih := friNew_of_build J E N total remRoot aLast c9 k _ c' st (depth + 1) (md / N) mdk hst hbk
                    (by omega) hdraw
                  simp only [List.cons_append]
                  unfold friNew
                  rw [hal]
                  simp only
                  rw [if_neg (by intro hc; exact hmod hc.2), ih]
              · cases h

/-- the facts about phase 2 -/
structure Phase2Ok (J : Inst) (E : EOps) (o : Serde.ProofOptions) (lde : Nat) (deepEvals : List El) (c7 : CoinSt)
    (p : Phase2) : Prop where
  build : friBuildLayers J E (friOpts o).folding (Fri.numFriLayers (friOpts o) lde) deepEvals c7 = .ok p.fri
  remRoot : p.remRoot = hashEls J p.remainder
  c8 : p.c8 = (coinOps J E).reseed p.fri.coin p.remRoot

theorem phase2_ok {J : Inst} {E : EOps} {o : Serde.ProofOptions} {lde : Nat} {deepEvals : List El} {c7 : CoinSt}
    {p : Phase2} (h : phase2 J E o lde deepEvals c7 = .ok p) : Phase2Ok J E o lde deepEvals c7 p := by
  unfold phase2 at h
  simp only at h
  split at h
  · cases h
  · rename_i fs hfs
    split at h
    · cases h
    · rename_i rem hrem
      injection h with h; subst h
      exact ⟨hfs, rfl, rfl⟩

/-! ## 3. Proof of work, query positions, openings -/

/-- the facts about phase 3 -/
structure Phase3Ok (J : Inst) (E : EOps) (o : Serde.ProofOptions) (lde : Nat) (p1 : Phase1) (p2 : Phase2)
    (p : Phase3) : Prop where
  grind : Coin.grind (hashOps J) p2.c8 o.grinding (2 ^ (o.grinding + 16)) 1 = some p.nonce
  drawn : (coinOps J E).drawInts p2.c8 o.numQueries lde p.nonce = some p.drawn
  positions : p.positions = sortDedup p.drawn
  traceOpen : p1.traceCommit.openAt J p.positions = .ok p.traceOpen
  consOpen : p1.consCommit.openAt J p.positions = .ok p.consOpen
  friOpen : friQueryLayers J (friOpts o).folding p2.fri.layers p.positions lde = .ok p.friOpen
  few : p.positions.length ≤ 255

theorem phase3_ok {J : Inst} {E : EOps} {o : Serde.ProofOptions} {lde : Nat} {p1 : Phase1} {p2 : Phase2} {p : Phase3}
    (h : phase3 J E o lde p1 p2 = .ok p) : Phase3Ok J E o lde p1 p2 p := by
  unfold phase3 at h
  split at h
  · cases h
  · rename_i nonce hn
    split at h
    · cases h
    · rename_i ps hps
      simp only at h
      split at h
      · rename_i friOpen topen copen hf ht hc
        split at h
        · cases h
        · split at h
          · cases h
          · rename_i hlen
            injection h with h; subst h
            exact ⟨hn, hps, rfl, ht, hc, hf, by simp only; omega⟩
      · cases h
      · cases h
      · cases h

/-- the proof-of-work check of the verifier passes on the nonce the prover found (C19 `grind_spec`: the
    predicate searched is the predicate checked) -/
theorem pow_of_grind (J : Inst) (c : CoinSt) (gf fuel nonce : Nat)
    (h : Coin.grind (hashOps J) c gf fuel 1 = some nonce) : gf ≤ Coin.checkLeadingZeros (hashOps J) c nonce :=
  (C19L.grind_spec (hashOps J) c gf fuel 1 nonce h).1

-- `sort_unstable(); dedup()`
theorem insertSortedDedup_ne_nil (x : Nat) (l : List Nat) : insertSortedDedup x l ≠ [] := by
  cases l with
  | nil => simp [insertSortedDedup]
  | cons y ys =>
    unfold insertSortedDedup
    split
    · simp
    · split <;> simp

theorem sortDedup_ne_nil (l : List Nat) (h : l ≠ []) : sortDedup l ≠ [] := by
  cases l with
  | nil => exact absurd rfl h
  | cons x xs => simp only [sortDedup, List.foldr_cons]; exact insertSortedDedup_ne_nil _ _

theorem insertSortedDedup_pairwise (x : Nat) : ∀ l : List Nat, l.Pairwise (· < ·) → (insertSortedDedup x l).Pairwise (· < ·)
  | [], _ => by simp [insertSortedDedup]
  | y :: ys, h => by
    unfold insertSortedDedup
    have hy := List.pairwise_cons.mp h
    split
    · rename_i hxy
      refine List.pairwise_cons.mpr ⟨?_, h⟩
      intro a ha
      rcases List.mem_cons.mp ha with rfl | ha
      · exact hxy
      · exact Nat.lt_trans hxy (hy.1 a ha)
    · split
      · exact h
      · rename_i h1 h2
        refine List.pairwise_cons.mpr ⟨?_, insertSortedDedup_pairwise x ys hy.2⟩
        intro a ha
        rcases RefVerifier.mem_insertSortedDedup x a ys ha with rfl | ha
        · omega
        · exact hy.1 a ha

theorem sortDedup_pairwise : ∀ l : List Nat, (sortDedup l).Pairwise (· < ·)
  | [] => by simp [sortDedup]
  | x :: xs => by
    simp only [sortDedup, List.foldr_cons]
    exact insertSortedDedup_pairwise x _ (sortDedup_pairwise xs)

theorem sortDedup_nodup (l : List Nat) : (sortDedup l).Nodup :=
  (sortDedup_pairwise l).imp (fun h => Nat.ne_of_lt h)

/-! ## 4. The openings verify (C10) -/

theorem mapM_some_spec {α β : Type} (f : α → Option β) :
    ∀ (l : List α) (ys : List β), l.mapM f = some ys → ys.length = l.length ∧ ∀ j : Nat, ys[j]? = (l[j]?).bind f
  | [], ys, h => by
    simp at h; subst h; exact ⟨rfl, fun j => by simp⟩
  | x :: xs, ys, h => by
    rw [List.mapM_cons] at h
    cases hx : f x with
    | none => rw [hx] at h; cases h
    | some y =>
      rw [hx] at h
      cases hxs : xs.mapM f with
      | none => rw [hxs] at h; cases h
      | some ys' =>
        rw [hxs] at h
        injection h with h; subst h
        obtain ⟨h1, h2⟩ := mapM_some_spec f xs ys' hxs
        refine ⟨by simp [h1], ?_⟩
        intro j
        cases j with
        | zero => simp [hx]
        | succ j => simp [h2 j]

/-- an opening produced by `Commit.openAt` for non-empty, distinct, in-range positions (at most 255) of a committed
    matrix with `2^dd` rows verifies against the root, with the leaves recomputed from the opened rows — which is
    what the verifier checks (C10 `batch_complete`) -/
theorem opening_verifies (J : Inst) (rows : List (List El)) (cm : Commit) (root : Dg) (dd : Nat)
    (hd1 : 1 ≤ dd) (hd2 : dd ≤ 63) (hlen : rows.length = 2 ^ dd)
    (hcm : commitRows J rows = .ok cm) (hroot : cm.root = .ok root)
    (positions : List Nat) (hne : positions ≠ []) (hfew : positions.length ≤ 255) (hnd : positions.Nodup)
    (hr : ∀ i ∈ positions, i < 2 ^ dd) (o : Opening El Dg) (ho : cm.openAt J positions = .ok o) :
    Merkle.verifyBatch (merkleH J) root positions ⟨o.rows.map (hashEls J), o.nodes, dd⟩ = .ok () := by
  -- the tree is the tree over the row hashes
  have hl : (rows.map (hashEls J)).length = 2 ^ dd := by simp [hlen]
  obtain ⟨root', p, hr', hp, hdep, hpl, hleaves, _, hver⟩ :=
    C10.batch_complete (merkleH J) (rows.map (hashEls J)) dd hd1 hd2 hl positions hne hfew hnd hr
  have htree : cm = ⟨rows, C10.treeOf (merkleH J) (rows.map (hashEls J))⟩ := by
    unfold commitRows Merkle.Tree.new at hcm
    split at hcm
    · rename_i t ht
      split at ht
      · cases ht
      · split at ht
        · cases ht
        · injection ht with ht; subst ht
          injection hcm with hcm; exact hcm.symm
    · cases hcm
  subst htree
  have hroot' : root' = root := by
    unfold Commit.root ofMerkle at hroot
    simp only at hroot
    rw [hr'] at hroot
    injection hroot
  subst hroot'
  unfold Commit.openAt at ho
  simp only at ho
  rw [hp] at ho
  split at ho
  · rename_i bp rows' hbp hrows
    injection hbp with hbp; subst hbp
    injection ho with ho; subst ho
    obtain ⟨hl', hget⟩ := mapM_some_spec _ _ _ hrows
    have hleq : p.leaves = rows'.map (hashEls J) := by
      apply List.ext_getElem?
      intro j
      by_cases hj : j < positions.length
      · rw [hleaves j hj, List.getElem?_map, List.getElem?_map, hget j]
        simp [List.getElem?_eq_getElem hj]
      · rw [List.getElem?_eq_none (by omega), List.getElem?_eq_none (by simp; omega)]
    have : (⟨rows'.map (hashEls J), p.nodes, dd⟩ : Merkle.BatchProof Dg) = p := by
      cases p with
      | mk l n dp => simp only at hleq hdep; subst hleq; subst hdep; rfl
    rw [this]
    exact hver
  all_goals cases ho

/-! ## 5. The verifier re-derives the prover's challenges (C04) -/

/-- a draw leaves the seed of the coin unchanged -/
theorem draw_seed' (J : Inst) (E : EOps) (c c' : CoinSt) (a : El) (h : (coinOps J E).draw c = some (a, c')) :
    c'.seed = c.seed := by
  simp only [coinOps] at h
  split at h
  · rename_i cs c'' hd
    injection h with h
    injection h with _ h
    subst h
    have := C04L.draw_seed (hashOps J) (fieldDesc J) E.deg c
    rw [hd] at this
    exact this
  · cases h

theorem leadingZeros_congr (J : Inst) (E : EOps) (c c' : CoinSt) (v : Nat) (h : c.seed = c'.seed) :
    (coinOps J E).leadingZeros c v = (coinOps J E).leadingZeros c' v := by
  simp only [coinOps]
  exact C04L.checkLeadingZeros_congr (hashOps J) c c' v h

theorem drawInts_congr (J : Inst) (E : EOps) (c c' : CoinSt) (n dom nonce : Nat) (h : c.seed = c'.seed) :
    (coinOps J E).drawInts c n dom nonce = (coinOps J E).drawInts c' n dom nonce := by
  simp only [coinOps]
  have := C04L.drawIntegers_out_congr (hashOps J) n dom nonce c c' h
  cases h1 : Coin.drawIntegers (hashOps J) n dom nonce c with
  | mk o1 s1 =>
    cases h2 : Coin.drawIntegers (hashOps J) n dom nonce c' with
    | mk o2 s2 =>
      rw [h1, h2] at this
      simp only at this
      subst this
      cases o1 <;> rfl

theorem noAux_fields {d : Desc} (h : d.aux.isSome = false) :
    d.auxCons = [] ∧ d.auxAsserts = [] ∧ d.auxDegs = [] ∧ d.auxWidth = 0 ∧ d.lagrange = false := by
  cases hd : d.aux with
  | none => simp [Desc.auxCons, Desc.auxAsserts, Desc.auxDegs, Desc.auxWidth, Desc.lagrange, hd]
  | some x => rw [hd] at h; cases h

/-- the challenges the verifier derives from the proof of a run -/
def runChallenges (J : Inst) (r : Run) (aLast : El) (c9 : CoinSt) : Challenges CoinSt Dg El where
  auxRands := []
  lagRands := []
  coeffs := r.p1.coeffs
  z := r.p1.z
  deep := r.p1.deep
  alphas := r.p2.fri.alphas ++ [aLast]
  positions := r.positions
  log := [r.p1.troot] ++ [r.p1.croot, hashEls J r.p1.oodTrace, hashEls J r.p1.oodEvals] ++ (r.p2.fri.roots ++ [r.p2.remRoot])
  coinAtQueries := c9

/-- **C04 for the executable pair**: on the committed part of the proof of a successful run the verifier's
    `challenges` (coin seeded with context and public inputs; reseeds with the commitments, the hashes of the OOD
    frame and evaluations, the FRI commitments; the draws in between) returns exactly the prover's coefficients,
    OOD point, DEEP coefficients, FRI alphas and query positions, and its proof-of-work check passes — GIVEN the
    OOD consistency equation `hood` (its own conjunct), a non-truncating degree bookkeeping `hbk` (C01
    `bookkeeping_of_wellFormed` for admissible options) and one more element from the coin after the remainder
    commitment `hlast` (the verifier draws an alpha there, the prover does not) -/
theorem challenges_of_run {J : Inst} {E : EOps} {d : Desc} {trace : List (List Nat)} {o : Serde.ProofOptions} {r : Run}
    (acc : Acceptable) (hna : d.aux = none) (hrun : proveRun J E d trace o = .ok r) (aLast : El) (c9 : CoinSt)
    (hlast : (coinOps J E).draw r.p2.c8 = some (aLast, c9))
    (hood : evalConstraints E d r.pubs r.ctx.traceInfo [] [] r.p1.coeffs r.p1.oodTrace r.p1.z
      = combineOod E d.air.n r.p1.z r.p1.oodEvals)
    (mdk : Nat) (hbk : Protocol.degreeBookkeeping d.air.n (friOpts o).folding
      (Fri.numFriLayers (friOpts o) (d.air.n * o.blowup)) = some mdk) :
    challenges (mkVerifier J E d r.pubs acc) r.ctx r.cm = .ok (runChallenges J r aLast c9) := by
  obtain ⟨h1, h2, h3, hao⟩ := proveRun_ok hna hrun
  have P1 := phase1_ok h1
  have P2 := phase2_ok h2
  have P3 := phase3_ok h3
  obtain ⟨hac, haa, had, haw, hlag⟩ := noAux_fields P1.noAux
  have hctx : r.ctx = contextOf J d o := P1.ctx
  have hn8 : 8 ≤ d.air.n := by
    have := P1.wf
    simp only [Serde.Context.wf, Serde.TraceInfo.wf, contextOf, Bool.and_eq_true] at this
    have h8 := this.1.1.1.1.1.1.1.1.1
    have h8' : 8 ≤ d.air.n := by
      have := h8
      simp [Gen.Limits.MIN_TRACE_LENGTH] at this
      omega
    exact h8'
  obtain ⟨hk1, hk2, hk3⟩ := friBuildLayers_lengths J E _ _ _ _ _ P2.build
  have hfri := friNew_of_build J E (friOpts o).folding (r.p2.fri.roots ++ [r.p2.remRoot]).length r.p2.remRoot aLast c9
    (Fri.numFriLayers (friOpts o) (d.air.n * o.blowup)) r.p1.deepEvals r.p1.c7 r.p2.fri 0 d.air.n mdk P2.build hbk
    (by simp [hk1]) (by rw [← P2.c8]; exact hlast)
  have hseed : c9.seed = r.p2.c8.seed := draw_seed' J E _ _ _ hlast
  have hpow : o.grinding ≤ (coinOps J E).leadingZeros c9 r.p3.nonce := by
    rw [leadingZeros_congr J E c9 r.p2.c8 _ hseed]
    exact pow_of_grind J _ _ _ _ P3.grind
  have hints : (coinOps J E).drawInts c9 o.numQueries (d.air.n * o.blowup) r.p3.nonce = some r.p3.drawn := by
    rw [drawInts_congr J E c9 r.p2.c8 _ _ _ hseed]; exact P3.drawn
  have hnc : numCols J d (contextOf J d o) = r.p1.ncols := by
    unfold numCols
    have : (contextOf J d o).options = o := rfl
    rw [this, P1.air]
  unfold challenges
  simp only [Run.cm, hctx]
  have hW : (mkVerifier J E d r.pubs acc).coin = coinOps J E := rfl
  have hA : (mkVerifier J E d r.pubs acc).air (contextOf J d o) = airInst J E d r.pubs (contextOf J d o) := rfl
  rw [hW, hA]
  have hc1 : (coinOps J E).reseed ((coinOps J E).new (coinSeed (mkVerifier J E d r.pubs acc).elemBytes (contextOf J d o)
      (mkVerifier J E d r.pubs acc).pubElems)) r.p1.troot = r.p1.c1 := by
    rw [P1.c1]; rfl
  rw [hc1]
  -- no auxiliary segment
  have hms : (airInst J E d r.pubs (contextOf J d o)).multiSegment = false := by
    simp [airInst, contextOf]
  unfold auxPhase
  rw [hms]
  simp only [Bool.not_false, if_true]
  have hnco : (airInst J E d r.pubs (contextOf J d o)).numCoeffs = d.air.constraints.length + d.air.assertions.length := by
    simp [airInst, hac, haa, hlag]
  rw [hnco, P1.coeffs]
  simp only
  rw [P1.z]
  simp only
  have hev : (airInst J E d r.pubs (contextOf J d o)).evalConstraints r.p1.coeffs [] [] r.p1.oodTrace r.p1.z
      = (airInst J E d r.pubs (contextOf J d o)).combineOod r.p1.z r.p1.oodEvals := by
    rw [airInst_evalConstraints, airInst_combineOod]
    rw [hctx] at hood
    exact hood
  rw [if_neg (by rw [hev]; simp)]
  have hH : (mkVerifier J E d r.pubs acc).hashElems = hashEls J := rfl
  rw [hH, ← P1.c6]
  have hnd : (airInst J E d r.pubs (contextOf J d o)).numDeepCoeffs = d.air.width + r.p1.ncols := by
    simp [airInst, contextOf, hlag]
    rw [show numCols J d ⟨⟨d.air.width, 0, 0, d.air.n, []⟩, (frontAir J d).modulusBytes, o⟩ = r.p1.ncols from hnc]
  rw [hnd, P1.deep]
  simp only
  have hfo : (airInst J E d r.pubs (contextOf J d o)).fri = friOpts o := rfl
  have htd : (airInst J E d r.pubs (contextOf J d o)).tracePolyDegree + 1 = d.air.n := by
    simp [airInst, contextOf]; omega
  rw [hfo, htd, hfri]
  simp only
  have hg : (airInst J E d r.pubs (contextOf J d o)).grinding = o.grinding := rfl
  have hq : (airInst J E d r.pubs (contextOf J d o)).numQueries = o.numQueries := rfl
  have hl : (airInst J E d r.pubs (contextOf J d o)).ldeSize = d.air.n * o.blowup := rfl
  rw [hg, hq, hl, if_neg (by omega), hints]
  simp only [runChallenges, Run.positions, P3.positions]

/-! ## 6. Acceptance by the decision function -/

theorem pow2_eq {n : Nat} (h : Serde.pow2 n = true) : n = 2 ^ n.log2 := by
  unfold Serde.pow2 at h
  simp only [Bool.and_eq_true, beq_iff_eq] at h
  exact h.2

/-- `draw_integers` returns values only for fewer values than domain points -/
theorem drawInts_some_lt (J : Inst) (E : EOps) (c : CoinSt) (n dom nonce : Nat) (ps : List Nat)
    (h : (coinOps J E).drawInts c n dom nonce = some ps) : n < dom := by
  simp only [coinOps] at h
  split at h
  · rename_i vs c' hd
    unfold Coin.drawIntegers at hd
    by_cases hp : ¬ Coin.isPow2 dom = true
    · rw [if_pos hp] at hd; cases hd
    · rw [if_neg hp] at hd
      by_cases hn : ¬ n < dom
      · rw [if_pos hn] at hd; cases hd
      · exact Decidable.of_not_not hn
  · cases h

/-- the shape facts of an accepted context: the LDE domain is `2^dd`, `3 ≤ dd ≤ 31` -/
theorem lde_pow2 {J : Inst} {d : Desc} {o : Serde.ProofOptions} (h : (contextOf J d o).wf = true) :
    ∃ dd, d.air.n * o.blowup = 2 ^ dd ∧ 1 ≤ dd ∧ dd ≤ 63 ∧ 8 ≤ d.air.n ∧ 0 < o.numQueries := by
  simp only [Serde.Context.wf, Serde.TraceInfo.wf, Serde.ProofOptions.wf, contextOf, Bool.and_eq_true] at h
  obtain ⟨⟨⟨⟨⟨hti, hopt⟩, _⟩, hlde⟩, _⟩, _⟩ := h
  obtain ⟨⟨⟨⟨⟨⟨⟨hge, hp2n⟩, _⟩, _⟩, _⟩, _⟩, _⟩, _⟩ := hti
  obtain ⟨⟨⟨⟨⟨⟨⟨⟨⟨⟨⟨hq0, _⟩, hb⟩, _⟩, _⟩, _⟩, _⟩, _⟩, _⟩, _⟩, _⟩, _⟩ := hopt
  have hlde : d.air.n * o.blowup ≤ 4294967295 := of_decide_eq_true hlde
  have h8 : 8 ≤ d.air.n ∧ Serde.pow2 d.air.n = true := by
    have : 8 ≤ d.air.n := of_decide_eq_true hge
    exact ⟨this, hp2n⟩
  have hq : 0 < o.numQueries := of_decide_eq_true hq0
  have e1 := pow2_eq h8.2
  have e2 := pow2_eq hb
  refine ⟨d.air.n.log2 + o.blowup.log2, by rw [Nat.pow_add, ← e1, ← e2], ?_, ?_, h8.1, hq⟩
  · have : 3 ≤ d.air.n.log2 := by
      have : 2 ^ 3 ≤ 2 ^ d.air.n.log2 := by rw [← e1]; exact h8.1
      exact (Nat.pow_le_pow_iff_right (by omega)).mp this
    omega
  · have : 2 ^ (d.air.n.log2 + o.blowup.log2) < 2 ^ 32 := by
      rw [Nat.pow_add, ← e1, ← e2]; omega
    have := (Nat.pow_lt_pow_iff_right (by omega : 1 < 2)).mp this
    omega

/-- the named hypotheses about the DEEP/FRI part and the coin: see `Open` -/
def friAccepts (J : Inst) (E : EOps) (d : Desc) (o : Serde.ProofOptions) (r : Run) (aLast : El) (c9 : CoinSt) : Prop :=
  friVerify (mkVerifier J E d r.pubs (.optionSet [o])) (airInst J E d r.pubs r.ctx) r.cm r.op (runChallenges J r aLast c9)
    (deepCompose E d.air.n (d.air.n * o.blowup) d.air.width (d.air.width + 0) (d.air.width + 0) none r.positions r.p1.z r.p1.deep
      (r.op.traceOpenings.map (·.rows)) r.p3.consOpen.rows r.p1.oodTrace r.p1.oodEvals) = .ok ()

/-- **acceptance of the run's proof by the verifier's decision function** (`VerifierChecks.verify` at the concrete
    verifier record, acceptance policy "exactly these options"): header checks, challenges (section 5), proof of
    work, the trace and constraint openings (C10) are discharged; OOD consistency, FRI acceptance of the DEEP
    evaluations, the non-truncating bookkeeping and the extra coin element are hypotheses -/
theorem verify_of_run {J : Inst} {E : EOps} {d : Desc} {trace : List (List Nat)} {o : Serde.ProofOptions} {r : Run}
    (hna : d.aux = none) (hrun : proveRun J E d trace o = .ok r) (aLast : El) (c9 : CoinSt)
    (hlast : (coinOps J E).draw r.p2.c8 = some (aLast, c9))
    (hood : evalConstraints E d r.pubs r.ctx.traceInfo [] [] r.p1.coeffs r.p1.oodTrace r.p1.z
      = combineOod E d.air.n r.p1.z r.p1.oodEvals)
    (mdk : Nat) (hbk : Protocol.degreeBookkeeping d.air.n (friOpts o).folding
      (Fri.numFriLayers (friOpts o) (d.air.n * o.blowup)) = some mdk)
    (hfri : friAccepts J E d o r aLast c9) :
    VerifierChecks.verify (mkVerifier J E d r.pubs (.optionSet [o])) r.ctx (some (r.cm, r.op)) = .ok () := by
  have hch := challenges_of_run (.optionSet [o]) hna hrun aLast c9 hlast hood mdk hbk
  obtain ⟨h1, h2, h3, hao⟩ := proveRun_ok hna hrun
  have P1 := phase1_ok h1
  have P3 := phase3_ok h3
  have hctx : r.ctx = contextOf J d o := P1.ctx
  have hlag : d.lagrange = false := (noAux_fields P1.noAux).2.2.2.2
  obtain ⟨dd, hdd, hd1, hd2, hn8, hq0⟩ := lde_pow2 P1.wf
  have hqlt := drawInts_some_lt J E _ _ _ _ _ P3.drawn
  -- the positions
  have hpos : r.positions = sortDedup r.p3.drawn := P3.positions
  have hdrawn_len : r.p3.drawn ≠ [] := by
    intro h0
    have hd := P3.drawn
    simp only [coinOps] at hd
    split at hd
    · rename_i vs c' hdi
      injection hd with hd
      have := (C19.drawIntegers_ok (hashOps J) _ _ _ _ _ _ hdi).2 (by omega)
      rw [hd, h0] at this
      simp at this
      omega
    · cases hd
  have hne : r.positions ≠ [] := by rw [hpos]; exact sortDedup_ne_nil _ hdrawn_len
  have hnd : r.positions.Nodup := by rw [hpos]; exact sortDedup_nodup _
  have hrange : ∀ i ∈ r.positions, i < 2 ^ dd := by
    intro i hi
    rw [hpos] at hi
    have := RefVerifier.drawInts_lt J E _ _ _ _ _ P3.drawn i (RefVerifier.mem_sortDedup i _ hi)
    rw [← hdd]; exact this
  have hfew : r.positions.length ≤ 255 := P3.few
  obtain ⟨trows, htl, htc⟩ := P1.traceRows
  obtain ⟨crows, hcl, hcc⟩ := P1.consRows
  have hto := opening_verifies J trows _ r.p1.troot dd hd1 hd2 (by rw [htl, hdd]) htc P1.troot r.positions hne hfew hnd
    hrange _ P3.traceOpen
  have hco := opening_verifies J crows _ r.p1.croot dd hd1 hd2 (by rw [hcl, hdd]) hcc P1.croot r.positions hne hfew hnd
    hrange _ P3.consOpen
  have hlog : Nat.log2 (d.air.n * o.blowup) = dd := by rw [hdd]; exact Nat.log2_two_pow
  unfold VerifierChecks.verify
  have hmod : (mkVerifier J E d r.pubs (.optionSet [o])).modulus = r.ctx.modulus := by rw [hctx]; rfl
  rw [if_neg (by rw [hmod]; simp)]
  have hacc : (mkVerifier J E d r.pubs (.optionSet [o])).acceptable r.ctx = true := by
    rw [hctx]
    simp only [mkVerifier, policyOk, contextOf, Bool.and_eq_true, decide_eq_true_eq]
    exact ⟨by simp, hqlt⟩
  rw [hacc]
  simp only [Bool.not_true, Bool.false_eq_true, if_false]
  have hext : ((mkVerifier J E d r.pubs (.optionSet [o])).air r.ctx).extSupported = true := rfl
  rw [hext]
  simp only [Bool.not_true, Bool.false_eq_true, if_false]
  rw [hch]
  simp only
  unfold checkOpened
  simp only
  have hA : (mkVerifier J E d r.pubs (.optionSet [o])).air r.ctx = airInst J E d r.pubs r.ctx := rfl
  have hlde : (airInst J E d r.pubs r.ctx).ldeSize = d.air.n * o.blowup := by rw [hctx]; rfl
  rw [hA, hlde, hlog]
  have hpc : (runChallenges J r aLast c9).positions = r.positions := rfl
  have ht : ((r.cm.traceRoots.zip r.op.traceOpenings).all fun ro =>
      openingOk (mkVerifier J E d r.pubs (.optionSet [o])) ro.1 (runChallenges J r aLast c9).positions ro.2 dd) = true := by
    simp only [Run.cm, Run.op, P1.auxRoot, hao P1.auxCommit, Option.toList, List.zip_cons_cons, List.zip_nil_right,
      List.all_cons, List.all_nil, Bool.and_true, hpc]
    exact (openingOk_iff _ _ _ _ _).mpr hto
  rw [ht]
  simp only [Bool.not_true, Bool.false_eq_true, if_false]
  have hc : openingOk (mkVerifier J E d r.pubs (.optionSet [o])) r.cm.constraintRoot
      (runChallenges J r aLast c9).positions r.op.constraintOpening dd = true := by
    rw [hpc]
    exact (openingOk_iff _ _ _ _ _).mpr hco
  rw [hc]
  simp only [Bool.not_true, Bool.false_eq_true, if_false]
  have hdc : (airInst J E d r.pubs r.ctx).deepCompose
      = deepCompose E d.air.n (d.air.n * o.blowup) d.air.width (d.air.width + 0) (d.air.width + 0) none := by
    rw [airInst_deepCompose, hctx]
    simp only [contextOf, auxFrameWidth, hlag, Bool.false_eq_true, if_false]
  rw [hdc]
  exact hfri

/-! ## 7. The degree bookkeeping of admissible options does not truncate (C01) -/

/-- the options of a description as the glue model of C01 reads them -/
def glueOpts (o : Serde.ProofOptions) : Protocol.Options :=
  { queries := o.numQueries, blowup := o.blowup, grinding := o.grinding, folding := o.folding, remainder := o.remDeg }

theorem isPow2_of_pow2 {n : Nat} (h : Serde.pow2 n = true) : Protocol.isPow2 n = true := by
  unfold Serde.pow2 at h
  unfold Protocol.isPow2
  simp only [Bool.and_eq_true, bne_iff_ne, beq_iff_eq] at h ⊢
  exact ⟨h.1, h.2.symm⟩

theorem accepted_of_wf (o : Serde.ProofOptions) (h : o.wf = true) : (glueOpts o).accepted = true := by
  simp only [Serde.ProofOptions.wf, Bool.and_eq_true] at h
  obtain ⟨⟨⟨⟨⟨⟨⟨⟨⟨⟨⟨hq0, hq1⟩, hb⟩, hb2⟩, hb128⟩, hg⟩, hf⟩, hf2⟩, hf16⟩, hr⟩, hr255⟩, _⟩ := h
  simp only [Protocol.Options.accepted, glueOpts, Bool.and_eq_true]
  exact ⟨⟨⟨⟨⟨⟨⟨⟨⟨⟨hq0, hq1⟩, isPow2_of_pow2 hb⟩, hb2⟩, hb128⟩, hg⟩, isPow2_of_pow2 hf⟩, hf2⟩, hf16⟩, isPow2_of_pow2 hr⟩, hr255⟩

/-- on a well-formed FRI schedule (the admissibility condition of C01) the verifier's degree bookkeeping does not
    truncate on the layers the prover builds (C01 `bookkeeping_of_wellFormed`) -/
theorem bookkeeping_of_admissible {J : Inst} {d : Desc} {o : Serde.ProofOptions} (hwf : (contextOf J d o).wf = true)
    (hsched : Protocol.wellFormed (d.air.n * o.blowup) (glueOpts o) = true) :
    ∃ mdk, Protocol.degreeBookkeeping d.air.n (friOpts o).folding
      (Fri.numFriLayers (friOpts o) (d.air.n * o.blowup)) = some mdk := by
  have howf : o.wf = true := by
    simp only [Serde.Context.wf, contextOf, Bool.and_eq_true] at hwf
    exact hwf.1.1.1.1.2
  have hacc := accepted_of_wf o howf
  obtain ⟨fb, ff, fr⟩ := RefVerifier.friOpts_eq o howf
  have hn2 : Serde.pow2 d.air.n = true := by
    simp only [Serde.Context.wf, Serde.TraceInfo.wf, contextOf, Bool.and_eq_true] at hwf
    exact hwf.1.1.1.1.1.1.1.1.1.1.1.2
  have hn := pow2_eq hn2
  have hlayers : Fri.numFriLayers (friOpts o) (d.air.n * o.blowup)
      = (Protocol.schedule (d.air.n * o.blowup) (glueOpts o)).layers := by
    unfold Fri.numFriLayers
    rw [RefVerifier.numLayersLoop_eq_friLayers]
    simp only [Protocol.schedule, glueOpts, fb, ff, fr]
  have := WinterProofs.C01.bookkeeping_of_wellFormed d.air.n.log2 (glueOpts o) hacc (by rw [← hn]; exact hsched)
  rw [← hn] at this
  exact ⟨_, by rw [hlayers, ff]; exact this⟩

/-! ## 8. Completeness of the executable pair -/

/-- evaluation degree of a constraint expression on a trace of length `n` with periodic columns of the given cycle
    lengths: a trace cell has degree `n − 1`, a periodic value of cycle length `L` degree `n − n/L` -/
def exprEvalDegree (perLens : List Nat) (n : Nat) : VerifierChecks.Expr → Nat
  | .const _ => 0
  | .cur _ => n - 1
  | .nxt _ => n - 1
  | .per i => n - n / (perLens.getD i 1)
  | .add x y => max (exprEvalDegree perLens n x) (exprEvalDegree perLens n y)
  | .sub x y => max (exprEvalDegree perLens n x) (exprEvalDegree perLens n y)
  | .mul x y => exprEvalDegree perLens n x + exprEvalDegree perLens n y
  | .pow k x => k * exprEvalDegree perLens n x
  | .neg x => exprEvalDegree perLens n x

/-- **admissible configuration** (the quantifier of C01 for this instantiation): no auxiliary segment; options,
    trace shape and context accepted by their constructors; the AIR constructor accepts (blowup at least the
    blowup the declared degrees need, exemptions in range, LDE domain within the two-adicity); the extension is
    supported; the FRI schedule is well-formed; fewer queries than LDE points; the description is one
    `evaluate_constraints` gets through (cell indices in range, periodic cycles powers of two between 2 and the
    trace length, assertions valid and non-overlapping); one declared degree per constraint, bounding the actual
    degree -/
structure Admissible (J : Inst) (d : Desc) (o : Serde.ProofOptions) : Prop where
  noAux : d.aux = none
  ctx : (contextOf J d o).wf = true
  air : (Parse.airNew (frontAir J d) (contextOf J d o).traceInfo o).isSome = true
  ext : (extOps J o.fieldExt).isSome = true
  sched : Protocol.wellFormed (d.air.n * o.blowup) (glueOpts o) = true
  queries : o.numQueries < d.air.n * o.blowup
  shape : ∀ E, extOps J o.fieldExt = some E → ∀ pubs : List Nat, pubs.length = d.air.numPubInputs →
    (prepOf E d pubs (contextOf J d o).traceInfo []).isSome = true
  degrees : d.degs.length = d.air.constraints.length ∧
    ∀ (k : Nat) (c : VerifierChecks.Expr) (g : Protocol.Degree), d.air.constraints[k]? = some c → d.degs[k]? = some g →
      exprEvalDegree (d.air.periodic.map List.length) d.air.n c ≤ g.evalDegree d.air.n

/-- **valid trace**: canonical cells, and the reference validity predicate of C02 (shape, every asserted cell
    carries its public value, every transition constraint vanishes on exactly the steps `< n − exemptions`) for
    the public inputs read off the trace -/
def ValidTrace (J : Inst) (d : Desc) (trace : List (List Nat)) : Prop :=
  (∀ c ∈ trace, ∀ v ∈ c, v < J.I.M) ∧ VerifierChecks.Valid d.air J.I.M trace (refPubInputs J d trace)

/-- the out-of-domain point of a run falls on the trace domain, or `z` / `z·g` on a queried point of the LDE
    domain (then a divisor or a DEEP denominator vanishes and the honest proof is rejected; probability about
    `(n + 2·queries) / |E|` per proof) -/
def zOnDomain (J : Inst) (E : EOps) (d : Desc) (o : Serde.ProofOptions) (r : Run) : Prop :=
  E.pow r.p1.z d.air.n = E.one ∨
  ∃ x ∈ xCoordinates E (d.air.n * o.blowup) r.positions,
    x = r.p1.z ∨ x = E.mul r.p1.z (E.ofBase ((rootRaw J.I (Nat.log2 d.air.n)).getD 0))

/-- the runs outside the claim: the public coin fails to produce a value within its documented 1000 attempts
    (prover or verifier side; the model's nonce search has a fuel bound of `2^(grinding+16)` candidates), or the
    out-of-domain point hits the domain -/
def CoinAccident (J : Inst) (d : Desc) (trace : List (List Nat)) (o : Serde.ProofOptions) : Prop :=
  (∃ site ∈ ["get_constraint_composition_coeffs", "get_ood_point", "get_deep_composition_coeffs", "draw_fri_alpha",
      "grind_query_seed", "get_query_positions"], refProveRun J d trace o = .error site) ∨
  ∃ E r, extOps J o.fieldExt = some E ∧ proveRun J E d trace o = .ok r ∧
    ((coinOps J E).draw r.p2.c8 = none ∨ zOnDomain J E d o r)

/-- **C01 for the executable pair, THE FULL STATEMENT** (not proved as a whole): for each of the three
    instantiations (64-bit field with Rp64_256 / RpJive64_256, 62-bit field with Rp62_248; extension degree 1, 2, 3
    through the options), every admissible configuration and every valid trace, the reference prover returns bytes
    and the reference verifier accepts them for the public inputs of the trace under the policy "exactly these
    options" — except on the coin accidents above. -/
def C01_complete_exec : Prop :=
  ∀ (J : Inst) (d : Desc) (trace : List (List Nat)) (o : Serde.ProofOptions),
    (J = Inst.rp64 ∨ J = Inst.rpjive ∨ J = Inst.rp62) → Admissible J d o → ValidTrace J d trace →
    (∃ bs, refProve J d trace o = .ok bs ∧ refVerify J d (refPubInputs J d trace) (.optionSet [o]) bs = .ok) ∨
      CoinAccident J d trace o

/-- what is NOT proved, as named hypotheses about the values of one run `r` and its bytes `bs` -/
structure Open (J : Inst) (E : EOps) (d : Desc) (o : Serde.ProofOptions) (r : Run) (bs : List Nat) : Prop where
  /-- PARSE-BACK (missing: C12's round trip `roundtrip_all` lifted from the `Proof` codec to the block
      constructors `queriesNew` / `commitmentsNew` / `oodSet…` against `channelParse`, plus C07: `new (as_int x) = x`
      on the raw words the run produces): the bytes parse, the front end of `verify` passes, and the channel
      delivers exactly the values the prover put in -/
  parse : ∃ p ncols c, FrontPassed J d r.pubs (.optionSet [o]) bs p ncols E c ∧ p.context = r.ctx ∧
    committedOf J c = r.cm ∧ openedOf J c = r.op
  /-- OOD CONSISTENCY (missing: the transfer of C17 `committed_eq_definition` — proved over a field for the same
      pipeline `compositionTrace / compositionPoly / evaluateConstraints` — to raw words through C07/C08, C09 for
      the interpolation, and `z` off the trace domain) -/
  ood : evalConstraints E d r.pubs r.ctx.traceInfo [] [] r.p1.coeffs r.p1.oodTrace r.p1.z
    = combineOod E d.air.n r.p1.z r.p1.oodEvals
  /-- the coin yields the alpha the verifier draws after the remainder commitment (missing: nothing provable — this
      is the documented 1000-attempt limit of C19), and FRI ACCEPTS the DEEP evaluations the verifier recomputes
      from the openings (missing: the DEEP quotient identity `deepCompose(opened rows) = deepPoly(x)` for `z`, `z·g`
      off the queried points, and the transfer of C15 `fri_complete_partial` to raw words through C07/C08) -/
  fri : ∃ aLast c9, (coinOps J E).draw r.p2.c8 = some (aLast, c9) ∧ friAccepts J E d o r aLast c9

/-- **COMPLETENESS OF THE EXECUTABLE PAIR, the proved part**: whenever the reference prover completes a run `r`
    and serializes it to `bs` (missing: totality of the prover on admissible input — roots of unity and
    inversions return: C07/C09; `prep` accepts: C16; the degree assertions of the composer hold: C17), on a
    well-formed FRI schedule, the reference verifier accepts `bs` for the public inputs of the trace, GIVEN the three
    open conjuncts of `Open`.  Discharged here, for all inputs: the header checks and the acceptance policy, the
    verifier re-deriving all challenges of the prover (C04), the proof-of-work check (C19), the shape of the query
    positions, the Merkle openings of the trace and constraint commitments (C10), the non-truncating degree
    bookkeeping (C01), and the composition of all checks into the verdict (`refVerify_ok_iff`). -/
theorem c01_complete_exec_partial {J : Inst} {E : EOps} {d : Desc} {trace : List (List Nat)} {o : Serde.ProofOptions}
    {r : Run} {bs : List Nat} (hna : d.aux = none)
    (hE : extOps J o.fieldExt = some E) (hrun : proveRun J E d trace o = .ok r) (hbs : refProve J d trace o = .ok bs)
    (hsched : Protocol.wellFormed (d.air.n * o.blowup) (glueOpts o) = true) (O : Open J E d o r bs) :
    ∃ bs, refProve J d trace o = .ok bs ∧ refVerify J d (refPubInputs J d trace) (.optionSet [o]) bs = .ok := by
  refine ⟨bs, hbs, ?_⟩
  obtain ⟨h1, _, _, _⟩ := proveRun_ok hna hrun
  have P1 := phase1_ok h1
  have hpubs : refPubInputs J d trace = r.pubs := by
    unfold refPubInputs; rw [P1.pubs]; rfl
  rw [hpubs]
  obtain ⟨p, ncols, c, hfront, hctx, hcm, hop⟩ := O.parse
  obtain ⟨aLast, c9, hlast, hfri⟩ := O.fri
  obtain ⟨mdk, hbk⟩ := bookkeeping_of_admissible P1.wf hsched
  refine (refVerify_ok_iff J d r.pubs (.optionSet [o]) bs).mpr ⟨p, ncols, E, c, hfront, ?_⟩
  rw [hctx, hcm, hop]
  exact verify_of_run hna hrun aLast c9 hlast O.ood mdk hbk hfri

/-- in the shape of the full statement: an admissible configuration whose run completes and satisfies `Open` is
    on the accepting side of `C01_complete_exec` -/
theorem c01_complete_exec_of_open {J : Inst} {E : EOps} {d : Desc} {trace : List (List Nat)} {o : Serde.ProofOptions}
    {r : Run} {bs : List Nat} (hadm : Admissible J d o)
    (hE : extOps J o.fieldExt = some E) (hrun : proveRun J E d trace o = .ok r) (hbs : refProve J d trace o = .ok bs)
    (O : Open J E d o r bs) :
    (∃ bs, refProve J d trace o = .ok bs ∧ refVerify J d (refPubInputs J d trace) (.optionSet [o]) bs = .ok) ∨
      CoinAccident J d trace o :=
  Or.inl (c01_complete_exec_partial hadm.noAux hE hrun hbs hadm.sched O)

/-! ## 9. The open hypotheses are decidable on a concrete run, and hold on one -/

deriving instance DecidableEq for Model.VerifierChecks.Committed
deriving instance DecidableEq for Model.VerifierChecks.Opening
deriving instance DecidableEq for Model.VerifierChecks.Opened

/-- a decision procedure for "the prover completes, serializes, and the three open conjuncts of `Open` hold": it
    EVALUATES them (parse and channel, equality of the parsed values with the prover's, the OOD equation, the extra
    coin element, FRI acceptance of the recomputed DEEP evaluations) -/
def openCheck (J : Inst) (E : EOps) (d : Desc) (trace : List (List Nat)) (o : Serde.ProofOptions) : Bool :=
  match proveRun J E d trace o, refProve J d trace o with
  | .ok r, .ok bs =>
    match (Parse.parseProof bs).1 with
    | .ok p =>
      match Parse.airNew (frontAir J d) p.context.traceInfo p.context.options with
      | some ncols =>
        match channelParse (chanCfg J d p.context ncols) p with
        | .ok c =>
          match (coinOps J E).draw r.p2.c8 with
          | some (aLast, c9) =>
            decide (p.context.modulus = (frontAir J d).modulusBytes) &&
            decide (policyVerdict J d (.optionSet [o]) p.context = none) &&
            decide ((Parse.verifyFront (frontAir J d) p).1 = .pass) &&
            shapeOk J E d r.pubs (.optionSet [o]) p.context c &&
            decide (p.context = r.ctx) && decide (committedOf J c = r.cm) && decide (openedOf J c = r.op) &&
            decide (evalConstraints E d r.pubs r.ctx.traceInfo [] [] r.p1.coeffs r.p1.oodTrace r.p1.z
              = combineOod E d.air.n r.p1.z r.p1.oodEvals) &&
            (match friVerify (mkVerifier J E d r.pubs (.optionSet [o])) (airInst J E d r.pubs r.ctx) r.cm r.op
                (runChallenges J r aLast c9)
                (deepCompose E d.air.n (d.air.n * o.blowup) d.air.width (d.air.width + 0) (d.air.width + 0) none r.positions r.p1.z r.p1.deep
                  (r.op.traceOpenings.map (·.rows)) r.p3.consOpen.rows r.p1.oodTrace r.p1.oodEvals) with
             | .ok _ => true
             | .error _ => false)
          | none => false
        | _ => false
      | none => false
    | _ => false
  | _, _ => false

/-- soundness of the decision procedure -/
theorem open_of_check {J : Inst} {E : EOps} {d : Desc} {trace : List (List Nat)} {o : Serde.ProofOptions}
    (hna : d.aux = none) (hE : extOps J o.fieldExt = some E) (h : openCheck J E d trace o = true) :
    ∃ r bs, proveRun J E d trace o = .ok r ∧ refProve J d trace o = .ok bs ∧ Open J E d o r bs := by
  unfold openCheck at h
  split at h
  · rename_i r bs hr hb
    split at h
    · rename_i p hp
      split at h
      · rename_i ncols hair
        split at h
        · rename_i c hc
          split at h
          · rename_i aLast c9 hdraw
            simp only [Bool.and_eq_true, decide_eq_true_eq] at h
            obtain ⟨⟨⟨⟨⟨⟨⟨⟨hmod, hpol⟩, hfront⟩, hshape⟩, hctx⟩, hcm⟩, hop⟩, hood⟩, hfri⟩ := h
            have hfri' : friAccepts J E d o r aLast c9 := by
              unfold friAccepts
              split at hfri
              · rename_i u hu; cases u; exact hu
              · cases hfri
            have P1 := phase1_ok (proveRun_ok hna hr).1
            have hopt : p.context.options.fieldExt = o.fieldExt := by
              rw [hctx, show r.ctx = r.p1.ctx from rfl, P1.ctx]; rfl
            have hgkr : (d.lagrange && decide (p.context.traceInfo.aux > 0) && gkrUndecodable c.gkr) = false := by
              rw [(noAux_fields P1.noAux).2.2.2.2]; rfl
            exact ⟨r, bs, hr, hb,
              ⟨⟨p, ncols, c, ⟨hp, hmod, hpol, hfront, hair, by rw [hopt]; exact hE, hc, hgkr, hshape⟩, hctx, hcm, hop⟩,
               hood, ⟨aLast, c9, hdraw, hfri'⟩⟩⟩
          · cases h
        · cases h
      · cases h
    · cases h
  · cases h

set_option maxRecDepth 1000000 in
/-- the hypotheses of `c01_complete_exec_partial` hold on an actual run (kernel evaluation at the zero-round
    hasher instance: periodic column, sequence / periodic / single assertions, one FRI layer) -/
theorem open_check_per8 :
    openCheck Inst.toy (baseOps Inst.toy.I Inst.toy.norm) descPer8 tracePer8 optsW2 = true := by
  decide +kernel

/-- **non-vacuity**: a concrete run satisfies every hypothesis of `c01_complete_exec_partial` (prover completes and
    serializes, well-formed schedule, `Open`), and the theorem then yields acceptance of its bytes -/
example :
    ∃ r bs, proveRun Inst.toy (baseOps Inst.toy.I Inst.toy.norm) descPer8 tracePer8 optsW2 = .ok r ∧
      refProve Inst.toy descPer8 tracePer8 optsW2 = .ok bs ∧
      Protocol.wellFormed (descPer8.air.n * optsW2.blowup) (glueOpts optsW2) = true ∧
      Open Inst.toy (baseOps Inst.toy.I Inst.toy.norm) descPer8 optsW2 r bs ∧
      refVerify Inst.toy descPer8 (refPubInputs Inst.toy descPer8 tracePer8) (.optionSet [optsW2]) bs = .ok := by
  have hE : extOps Inst.toy optsW2.fieldExt = some (baseOps Inst.toy.I Inst.toy.norm) := rfl
  obtain ⟨r, bs, hr, hb, hO⟩ := open_of_check rfl hE open_check_per8
  have hw : Protocol.wellFormed (descPer8.air.n * optsW2.blowup) (glueOpts optsW2) = true := by decide +kernel
  obtain ⟨bs', hb', hv⟩ := c01_complete_exec_partial rfl hE hr hb hw hO
  rw [hb] at hb'
  injection hb' with hb'
  subst hb'
  exact ⟨r, bs, hr, hb, hw, hO, hv⟩

end WinterProofs.C01Prover
