-- C16, instantiated: the theorems of WinterProofs/C16.lean for the model run with the RAW-WORD
-- operations of the three base fields (`Model.Divisor.rawOps Model.F64.impl / F62.impl / F128.impl`,
-- exactly what the driver executes and the correspondence run compares with the Rust code), on words
-- satisfying the representation invariant.  All algebraic hypotheses (field axioms, primitive root,
-- coherence of the roots of unity) are discharged from property C07 (WinterProofs/C07*.lean) through
-- the naturality lemmas of Lemmas/C16Hom.lean; what remains are size bounds (trace length 2^k with
-- 1 ≤ k ≤ two-adicity) and the invariant on input words.
import WinterProofs.C16
import WinterProofs.Lemmas.C16Hom
import WinterProofs.C07
import WinterProofs.C07F62
import WinterProofs.C07F128

set_option linter.unusedSectionVars false
set_option linter.unusedSimpArgs false

namespace WinterProofs.C16
open Model.Divisor WinterProofs.C16L

section Generic
variable {O : Ops ℕ} {p : ℕ} [Fact p.Prime] {ok : ℕ → Prop} {val : ℕ → ZMod p} {T : ℕ}

/-- the trace-domain generator the code uses for trace length `2^k`: it exists, satisfies the
    invariant and its abstraction has exact order `2^k` -/
theorem domain_generator (H : Refines O p ok val T) {k : ℕ} (hk1 : 1 ≤ k) (hkT : k ≤ T) :
    ∃ g, O.root (Nat.log2 (2 ^ k)) = some g ∧ ok g ∧ IsPrimitiveRoot (val g) (2 ^ k) ∧
      (absOps O val).root (Nat.log2 (2 ^ k)) = some (val g) := by
  obtain ⟨g, hg, hgok, hord⟩ := H.root_some k hk1 hkT
  rw [Nat.log2_two_pow]
  refine ⟨g, hg, hgok, hord ▸ IsPrimitiveRoot.orderOf (val g), ?_⟩
  show (O.root k).map val = _
  rw [hg]; rfl

/-- **(1) coherence of the roots of unity**, in the form `boundary_value_sequence_full` needs:
    for `m = 2^l ≤ n = 2^k`, `get_root_of_unity(log2 m) = get_root_of_unity(log2 n)^(n/m)` -/
theorem root_coherence (H : Refines O p ok val T) {k l : ℕ} (hl1 : 1 ≤ l) (hlk : l ≤ k) (hkT : k ≤ T) :
    ∃ g w, O.root k = some g ∧ O.root l = some w ∧ ok g ∧ ok w ∧
      val w = val g ^ (2 ^ k / 2 ^ l) := by
  obtain ⟨g, hg, hgok, _⟩ := H.root_some k (by omega) hkT
  obtain ⟨w, hw, hwok, _⟩ := H.root_some l hl1 (by omega)
  refine ⟨g, w, hg, hw, hgok, hwok, ?_⟩
  rw [H.root_coh k l g w hg hw hlk, Nat.pow_div hlk (by decide)]

/-- **transition divisor on raw words.** -/
theorem transition_raw (H : Refines O p ok val T) (hT : T < 64) {k e : ℕ} (hk1 : 1 ≤ k) (hkT : k ≤ T)
    (he : e ≤ 2 ^ k) :
    ∃ g d, O.root k = some g ∧ ok g ∧ IsPrimitiveRoot (val g) (2 ^ k) ∧
      fromTransition O (2 ^ k) e = .ok d ∧ d.degree = .ok (2 ^ k - e) ∧
      ∀ x, ok x →
        val (d.evalNumerator O x) = val x ^ 2 ^ k - 1 ∧
        (val (d.evalExemptions O x) = 0 ↔ ∃ j, 2 ^ k - e ≤ j ∧ j < 2 ^ k ∧ val x = val g ^ j) ∧
        ∃ q, d.evalAt O x = some q ∧ ok q ∧
          ((¬ ∃ j, 2 ^ k - e ≤ j ∧ j < 2 ^ k ∧ val x = val g ^ j) →
            val q = ∏ i ∈ Finset.range (2 ^ k - e), (val x - val g ^ i) ∧
            (val q = 0 ↔ ∃ i, i < 2 ^ k - e ∧ val x = val g ^ i)) := by
  have hn : 2 ^ k < 2 ^ 64 := Nat.pow_lt_pow_right (by decide) (by omega)
  obtain ⟨g, hg, hgok, hprim, hroot'⟩ := domain_generator H hk1 hkT
  obtain ⟨d, hd, hdok, hd'⟩ := fromTransition_nat (val := val) H hn he hg hgok
  obtain ⟨d1, h1, hdeg, hnum, hex, _⟩ := transition_divisor_spec (F := ZMod p) hroot' he
  obtain ⟨d2, h2, hz⟩ := transition_divisor_zero_set (F := ZMod p) (Nat.two_pow_pos k) hprim hroot' he
  have e1 : d1 = mapDiv val d := by
    have := h1.symm.trans hd'; cases this; rfl
  have e2 : d2 = mapDiv val d := by
    have := h2.symm.trans hd'; cases this; rfl
  subst e1
  rw [Nat.log2_two_pow] at hg
  refine ⟨g, d, hg, hgok, hprim, hd, by rw [← degree_nat (val := val)]; exact hdeg, fun x hx => ?_⟩
  obtain ⟨_, hvn⟩ := evalNumerator_nat H d hdok x hx
  obtain ⟨_, hve⟩ := evalExemptions_nat H d hdok x hx
  obtain ⟨q, hq, hqok, hq'⟩ := evalAt_nat H d hdok x hx
  have hvn' : val (d.evalNumerator O x) = val x ^ 2 ^ k - 1 := hvn.trans (hnum (val x))
  have hve' : val (d.evalExemptions O x) = ∏ j ∈ Finset.Ico (2 ^ k - e) (2 ^ k), (val x - val g ^ j) :=
    hve.trans (hex (val x))
  refine ⟨hvn', by rw [hve']; exact transition_exemptions_zero_iff, q, hq, hqok, ?_⟩
  intro hne
  obtain ⟨hv1, hv2⟩ := hz (val x) hne
  subst e2
  have hq'' : (mapDiv val d).evalAt (fieldOps (ZMod p) (absOps O val).root) (val x) = some (val q) := hq'
  rw [hq'', Option.some_inj] at hv1
  rw [hq'', Option.some_inj] at hv2
  exact ⟨hv1, hv2⟩

/-- **assertion divisor on raw words.** -/
theorem assertion_raw (H : Refines O p ok val T) (hT : T < 64) {k : ℕ} (hk1 : 1 ≤ k) (hkT : k ≤ T)
    {a : Assertion ℕ} (hw : WF a) (hv : a.validateTraceLength (2 ^ k) = .ok ()) :
    ∃ g d, O.root k = some g ∧ ok g ∧ IsPrimitiveRoot (val g) (2 ^ k) ∧
      fromAssertion O a (2 ^ k) = .ok d ∧ d.degree = .ok (a.stepList (2 ^ k)).length ∧
      ∀ x, ok x → ∃ r, d.evalAt O x = some r ∧ ok r ∧
        (val r = 0 ↔ ∃ s ∈ a.stepList (2 ^ k), val x = val g ^ s) := by
  have hn : 2 ^ k < 2 ^ 64 := Nat.pow_lt_pow_right (by decide) (by omega)
  obtain ⟨g, hg, hgok, hprim, hroot'⟩ := domain_generator H hk1 hkT
  obtain ⟨d', hd', hdeg, _, hz, _⟩ := assertion_divisor_zero_set (F := ZMod p) (a := mapA val a)
    (Nat.two_pow_pos k) hprim hroot' ((mapA_wf a).mpr hw) (by rw [mapA_validate]; exact hv)
  obtain ⟨d, hd, hdok, e1⟩ := fromAssertion_nat H hn a hg hgok hd'
  subst e1
  rw [Nat.log2_two_pow] at hg
  rw [mapA_stepList] at hdeg
  refine ⟨g, d, hg, hgok, hprim, hd, by rw [← degree_nat (val := val)]; exact hdeg, fun x hx => ?_⟩
  obtain ⟨r, hr, hrok, hr'⟩ := evalAt_nat H d hdok x hx
  refine ⟨r, hr, hrok, ?_⟩
  have := hz (val x)
  have hr'' : (mapDiv val d).evalAt (fieldOps (ZMod p) (absOps O val).root) (val x) = some (val r) := hr'
  rw [hr'', Option.some_inj, mapA_stepList] at this
  exact this

/-- **value polynomial of a sequence assertion on raw words** (no interpolation or coherence
    hypothesis: both are proved) -/
theorem boundary_raw (H : Refines O p ok val T) (hT : T < 64) {k : ℕ} (hk1 : 1 ≤ k) (hkT : k ≤ T)
    {a : Assertion ℕ} (hw : WF a) (hv : a.validateTraceLength (2 ^ k) = .ok ())
    (h2 : 2 ≤ a.values.length) (hvals : ∀ v ∈ a.values, ok v) :
    ∃ g ig c, O.root k = some g ∧ ok g ∧ IsPrimitiveRoot (val g) (2 ^ k) ∧
      O.div O.one g = some ig ∧ BConstraint.new O a ig = some c ∧ c.column = a.column ∧
      ∀ j (hj : j < a.values.length) x, ok x → val x = val g ^ (a.first + a.stride * j) →
        val (c.value O x) = val a.values[j] ∧
        ∀ t, ok t → val (c.evalAt O x t) = val t - val a.values[j] := by
  have hn : 2 ^ k < 2 ^ 64 := Nat.pow_lt_pow_right (by decide) (by omega)
  obtain ⟨g, hg, hgok, hprim, hroot'⟩ := domain_generator H hk1 hkT
  rw [Nat.log2_two_pow] at hg
  -- shape facts
  have h0 : a.stride ≠ 0 := by
    rcases hw with ⟨_, h⟩ | ⟨_, h, _⟩ <;> omega
  have hmul := stride_mul_steps hw hv h0
  rw [if_neg (by omega)] at hmul
  obtain ⟨l, hl⟩ : ∃ l, a.values.length = 2 ^ l := by
    rcases hw with ⟨_, h⟩ | ⟨_, _, _, h | ⟨_, h⟩⟩
    · omega
    · omega
    · exact h
  have hl1 : 1 ≤ l := by
    rcases Nat.eq_zero_or_pos l with h | h
    · subst h; simp at hl; omega
    · exact h
  have hlk : l ≤ k := by
    have : 2 ^ l ≤ 2 ^ k := by
      rw [← hl, ← hmul]; exact Nat.le_mul_of_pos_left _ (Nat.pos_of_ne_zero h0)
    exact (Nat.pow_le_pow_iff_right (by decide)).mp this
  have hstride : a.stride = 2 ^ (k - l) := by
    have : a.stride * 2 ^ l = 2 ^ (k - l) * 2 ^ l := by
      rw [← Nat.pow_add, Nat.sub_add_cancel hlk, ← hl, hmul]
    exact Nat.eq_of_mul_eq_mul_right (Nat.two_pow_pos l) this
  obtain ⟨w, hwr, hwok, _⟩ := H.root_some l hl1 (by omega)
  have hcoh := H.root_coh k l g w hg hwr hlk
  have hlen : a.values.length < 2 ^ 64 := by
    rw [hl]; exact Nat.pow_lt_pow_right (by decide) (by omega)
  have hfirst : a.first < 2 ^ 64 := by
    have := (steps_factor hw hv (Nat.two_pow_pos k)).2
    have hpos : 0 < (a.stepList (2 ^ k)).length := by
      rw [stepList_length, if_neg h0, if_neg (by omega)]; omega
    have : a.first ≤ (a.stepList (2 ^ k)).length * a.first := Nat.le_mul_of_pos_left _ hpos
    omega
  obtain ⟨ig, hig, higok, higval⟩ := H.div _ _ H.one.1 hgok
  have higval' : val ig = (val g)⁻¹ := by rw [higval, H.one.2, one_div]
  obtain ⟨c, hc, hcok, hc'⟩ := bcNew_nat (val := val) H a hvals hlen hfirst
    (fun _ => ⟨w, by rw [hl, Nat.log2_two_pow]; exact hwr, hwok⟩) ig higok
  have hrootm : (absOps O val).root (Nat.log2 (mapA val a).values.length)
      = some (val g ^ (mapA val a).stride) := by
    show (O.root (Nat.log2 (a.values.map val).length)).map val = some (val g ^ a.stride)
    rw [List.length_map, hl, Nat.log2_two_pow, hwr, hstride, ← hcoh]; rfl
  obtain ⟨c', hc1, hcol, hvalues⟩ := boundary_value_sequence_full (F := ZMod p) (a := mapA val a)
    hprim (Nat.two_pow_pos k) ((mapA_wf a).mpr hw) (by rw [mapA_validate]; exact hv)
    (by simpa [mapA] using h2) hrootm
  rw [← higval'] at hc1
  have hc1' : BConstraint.new (absOps O val) (mapA val a) (val ig) = some c' := hc1
  rw [hc'] at hc1'
  cases hc1'
  refine ⟨g, ig, c, hg, hgok, hprim, hig, hc, hcol, fun j hj x hx hxv => ?_⟩
  have hj' : j < (mapA val a).values.length := by simpa [mapA] using hj
  have hvj := hvalues j hj'
  have hget : (mapA val a).values[j] = val a.values[j] := by simp [mapA]
  have hpt : val x = val g ^ ((mapA val a).first + (mapA val a).stride * j) := hxv
  refine ⟨?_, fun t ht => ?_⟩
  · rw [(bcValue_nat H c hcok x hx).2, hpt, ← hget]; exact (hvj 0).1
  · rw [(bcEvalAt_nat H c hcok x t hx ht).2, hpt, ← hget]; exact (hvj (val t)).2

/-- the roots of unity of a `FieldImpl` are all powers of one two-adic root, hence coherent -/
theorem root_coh_of_form (I : Model.FieldImpl) (hw0 : ok (I.new I.twoAdicRoot))
    (hexp : ∀ a e, ok a → e < 2 ^ 64 → val (I.exp a e) = val a ^ e) (hT : I.twoAdicity < 64) :
    ∀ k m r s, I.rootOfUnity k = some r → I.rootOfUnity m = some s → m ≤ k →
      val s = val r ^ 2 ^ (k - m) := by
  intro k m r s hr hs hmk
  unfold Model.FieldImpl.rootOfUnity at hr hs
  by_cases hk : k = 0 ∨ k > I.twoAdicity
  · rw [if_pos hk] at hr; cases hr
  · by_cases hm : m = 0 ∨ m > I.twoAdicity
    · rw [if_pos hm] at hs; cases hs
    · rw [if_neg hk] at hr; rw [if_neg hm] at hs
      cases hr; cases hs
      have b1 : 2 ^ (I.twoAdicity - k) < 2 ^ 64 := Nat.pow_lt_pow_right (by decide) (by omega)
      have b2 : 2 ^ (I.twoAdicity - m) < 2 ^ 64 := Nat.pow_lt_pow_right (by decide) (by omega)
      rw [hexp _ _ hw0 b1, hexp _ _ hw0 b2, ← pow_mul, ← Nat.pow_add]
      congr 2
      omega

end Generic

-- ============================================================================================
-- the three base fields
-- ============================================================================================

/-- property C07 for the 64-bit field in the form C16 consumes -/
theorem f64_refines : Refines (rawOps Model.F64.impl) F64Z.P F64Z.Inv F64Z.val 32 where
  zero := by have := C07.F64.new_correct 0 (by decide); exact ⟨this.1, this.2.trans (by simp)⟩
  one := by have := C07.F64.new_correct 1 (by decide); exact ⟨this.1, this.2.trans (by simp)⟩
  add a b ha hb := ⟨(C07.F64.add_correct a b ha hb).1, (C07.F64.add_correct a b ha hb).2.1⟩
  sub a b ha hb := C07.F64.sub_correct a b ha hb
  mul a b ha hb := C07.F64.mul_correct a b ha hb
  pow a e ha he := C07.F64.exp_correct a e ha he
  div a b ha hb := by
    obtain ⟨r, hr, h1, h2⟩ := C07.F64.div_correct a b ha hb
    exact ⟨r, by show (match Model.F64.impl.div a b with | .done r => some r | .out => none) = _; rw [hr], h1, h2⟩
  ofNat n hn := C07.F64.new_correct n hn
  root_none k hk := (C07.F64.get_root_of_unity_correct k).1 hk
  root_some k h1 h2 := (C07.F64.get_root_of_unity_correct k).2 h1 h2
  root_coh := root_coh_of_form Model.F64.impl (C07.F64.new_correct _ (by decide)).1
    (fun a e ha he => (C07.F64.exp_correct a e ha he).2) (by decide)

theorem f62_refines : Refines (rawOps Model.F62.impl) F62Z.P F62Z.Inv F62Z.val 39 where
  zero := by have := C07.F62.new_correct 0 (by decide); exact ⟨this.1, this.2.1.trans (by simp)⟩
  one := by have := C07.F62.new_correct 1 (by decide); exact ⟨this.1, this.2.1.trans (by simp)⟩
  add a b ha hb := ⟨(C07.F62.add_correct a b ha hb).1, (C07.F62.add_correct a b ha hb).2.1⟩
  sub a b ha hb := ⟨(C07.F62.sub_correct a b ha hb).1, (C07.F62.sub_correct a b ha hb).2.1⟩
  mul a b ha hb := ⟨(C07.F62.mul_correct a b ha hb).1, (C07.F62.mul_correct a b ha hb).2.1⟩
  pow a e ha _ := C07.F62.exp_correct a e ha
  div a b ha hb := by
    obtain ⟨r, hr, h1, h2⟩ := C07.F62.div_correct a b ha hb
    exact ⟨r, by show (match Model.F62.impl.div a b with | .done r => some r | .out => none) = _; rw [hr], h1, h2⟩
  ofNat n hn := ⟨(C07.F62.new_correct n hn).1, (C07.F62.new_correct n hn).2.1⟩
  root_none k hk := (C07.F62.get_root_of_unity_correct k).1 hk
  root_some k h1 h2 := (C07.F62.get_root_of_unity_correct k).2 h1 h2
  root_coh := root_coh_of_form Model.F62.impl (C07.F62.new_correct _ (by decide)).1
    (fun a e ha _ => (C07.F62.exp_correct a e ha).2) (by decide)

theorem f128_refines : Refines (rawOps Model.F128.impl) F128Z.P F128Z.Inv F128Z.val 40 where
  zero := by have := C07.F128.new_correct 0 (by decide); exact ⟨this.1, this.2.1.trans (by simp)⟩
  one := by have := C07.F128.new_correct 1 (by decide); exact ⟨this.1, this.2.1.trans (by simp)⟩
  add a b ha hb := ⟨(C07.F128.add_correct a b ha hb).1, (C07.F128.add_correct a b ha hb).2.1⟩
  sub a b ha hb := ⟨(C07.F128.sub_correct a b ha hb).1, (C07.F128.sub_correct a b ha hb).2.1⟩
  mul a b ha hb := ⟨(C07.F128.mul_correct a b ha hb).1, (C07.F128.mul_correct a b ha hb).2.1⟩
  pow a e ha he := C07.F128.exp_correct a e ha (Nat.lt_trans he (show 2 ^ 64 < 2 ^ 128 by decide))
  div a b ha hb := by
    obtain ⟨r, hr, h1, h2⟩ := C07.F128.div_correct a b ha hb
    exact ⟨r, by show (match Model.F128.impl.div a b with | .done r => some r | .out => none) = _; rw [hr], h1, h2⟩
  ofNat n hn := by
    have := C07.F128.new_correct n (Nat.lt_trans hn (show 2 ^ 64 < 2 ^ 128 by decide)); exact ⟨this.1, this.2.1⟩
  root_none k hk := (C07.F128.get_root_of_unity_correct k).1 hk
  root_some k h1 h2 := (C07.F128.get_root_of_unity_correct k).2 h1 h2
  root_coh := root_coh_of_form Model.F128.impl
    (C07.F128.new_correct Model.F128.impl.twoAdicRoot (by decide)).1
    (fun a e ha he => (C07.F128.exp_correct a e ha (Nat.lt_trans he (show 2 ^ 64 < 2 ^ 128 by decide))).2) (by decide)


-- -------------------------------------------------------------------------------------------- 64-bit field
/-- coherence of `get_root_of_unity` in the 64-bit field: for `1 ≤ l ≤ k ≤ 32`,
    `val (root l) = val (root k) ^ (2^k / 2^l)` -/
theorem f64_root_coherence {k l : ℕ} (hl1 : 1 ≤ l) (hlk : l ≤ k) (hkT : k ≤ 32) :
    ∃ g w, Model.F64.impl.rootOfUnity k = some g ∧ Model.F64.impl.rootOfUnity l = some w ∧
      F64Z.Inv g ∧ F64Z.Inv w ∧ F64Z.val w = F64Z.val g ^ (2 ^ k / 2 ^ l) :=
  root_coherence f64_refines hl1 hlk hkT

/-- `transition_divisor_zero_set` for the 64-bit field's raw words: every trace length `2^k`,
    `1 ≤ k ≤ 32`, every exemption count `e ≤ 2^k`, every invariant-satisfying word `x` -/
theorem f64_transition_divisor {k e : ℕ} (hk1 : 1 ≤ k) (hkT : k ≤ 32) (he : e ≤ 2 ^ k) :
    ∃ g d, Model.F64.impl.rootOfUnity k = some g ∧ F64Z.Inv g ∧ IsPrimitiveRoot (F64Z.val g) (2 ^ k) ∧
      fromTransition (rawOps Model.F64.impl) (2 ^ k) e = .ok d ∧ d.degree = .ok (2 ^ k - e) ∧
      ∀ x, F64Z.Inv x →
        F64Z.val (d.evalNumerator (rawOps Model.F64.impl) x) = F64Z.val x ^ 2 ^ k - 1 ∧
        (F64Z.val (d.evalExemptions (rawOps Model.F64.impl) x) = 0 ↔
          ∃ j, 2 ^ k - e ≤ j ∧ j < 2 ^ k ∧ F64Z.val x = F64Z.val g ^ j) ∧
        ∃ q, d.evalAt (rawOps Model.F64.impl) x = some q ∧ F64Z.Inv q ∧
          ((¬ ∃ j, 2 ^ k - e ≤ j ∧ j < 2 ^ k ∧ F64Z.val x = F64Z.val g ^ j) →
            F64Z.val q = ∏ i ∈ Finset.range (2 ^ k - e), (F64Z.val x - F64Z.val g ^ i) ∧
            (F64Z.val q = 0 ↔ ∃ i, i < 2 ^ k - e ∧ F64Z.val x = F64Z.val g ^ i)) :=
  transition_raw f64_refines (by decide) hk1 hkT he

/-- `assertion_divisor_zero_set` for the 64-bit field's raw words -/
theorem f64_assertion_divisor {k : ℕ} (hk1 : 1 ≤ k) (hkT : k ≤ 32) {a : Assertion ℕ} (hw : WF a)
    (hv : a.validateTraceLength (2 ^ k) = .ok ()) :
    ∃ g d, Model.F64.impl.rootOfUnity k = some g ∧ F64Z.Inv g ∧ IsPrimitiveRoot (F64Z.val g) (2 ^ k) ∧
      fromAssertion (rawOps Model.F64.impl) a (2 ^ k) = .ok d ∧
      d.degree = .ok (a.stepList (2 ^ k)).length ∧
      ∀ x, F64Z.Inv x → ∃ r, d.evalAt (rawOps Model.F64.impl) x = some r ∧ F64Z.Inv r ∧
        (F64Z.val r = 0 ↔ ∃ s ∈ a.stepList (2 ^ k), F64Z.val x = F64Z.val g ^ s) :=
  assertion_raw f64_refines (by decide) hk1 hkT hw hv

/-- `boundary_value_sequence_full` for the 64-bit field's raw words: no interpolation, coherence
    or field hypothesis remains -/
theorem f64_boundary_value {k : ℕ} (hk1 : 1 ≤ k) (hkT : k ≤ 32) {a : Assertion ℕ} (hw : WF a)
    (hv : a.validateTraceLength (2 ^ k) = .ok ()) (h2 : 2 ≤ a.values.length)
    (hvals : ∀ v ∈ a.values, F64Z.Inv v) :
    ∃ g ig c, Model.F64.impl.rootOfUnity k = some g ∧ F64Z.Inv g ∧ IsPrimitiveRoot (F64Z.val g) (2 ^ k) ∧
      (rawOps Model.F64.impl).div (rawOps Model.F64.impl).one g = some ig ∧
      BConstraint.new (rawOps Model.F64.impl) a ig = some c ∧ c.column = a.column ∧
      ∀ j (hj : j < a.values.length) x, F64Z.Inv x → F64Z.val x = F64Z.val g ^ (a.first + a.stride * j) →
        F64Z.val (c.value (rawOps Model.F64.impl) x) = F64Z.val a.values[j] ∧
        ∀ t, F64Z.Inv t → F64Z.val (c.evalAt (rawOps Model.F64.impl) x t) = F64Z.val t - F64Z.val a.values[j] :=
  boundary_raw f64_refines (by decide) hk1 hkT hw hv h2 hvals

-- -------------------------------------------------------------------------------------------- 62-bit field
/-- coherence of `get_root_of_unity` in the 62-bit field: for `1 ≤ l ≤ k ≤ 39`,
    `val (root l) = val (root k) ^ (2^k / 2^l)` -/
theorem f62_root_coherence {k l : ℕ} (hl1 : 1 ≤ l) (hlk : l ≤ k) (hkT : k ≤ 39) :
    ∃ g w, Model.F62.impl.rootOfUnity k = some g ∧ Model.F62.impl.rootOfUnity l = some w ∧
      F62Z.Inv g ∧ F62Z.Inv w ∧ F62Z.val w = F62Z.val g ^ (2 ^ k / 2 ^ l) :=
  root_coherence f62_refines hl1 hlk hkT

/-- `transition_divisor_zero_set` for the 62-bit field's raw words: every trace length `2^k`,
    `1 ≤ k ≤ 39`, every exemption count `e ≤ 2^k`, every invariant-satisfying word `x` -/
theorem f62_transition_divisor {k e : ℕ} (hk1 : 1 ≤ k) (hkT : k ≤ 39) (he : e ≤ 2 ^ k) :
    ∃ g d, Model.F62.impl.rootOfUnity k = some g ∧ F62Z.Inv g ∧ IsPrimitiveRoot (F62Z.val g) (2 ^ k) ∧
      fromTransition (rawOps Model.F62.impl) (2 ^ k) e = .ok d ∧ d.degree = .ok (2 ^ k - e) ∧
      ∀ x, F62Z.Inv x →
        F62Z.val (d.evalNumerator (rawOps Model.F62.impl) x) = F62Z.val x ^ 2 ^ k - 1 ∧
        (F62Z.val (d.evalExemptions (rawOps Model.F62.impl) x) = 0 ↔
          ∃ j, 2 ^ k - e ≤ j ∧ j < 2 ^ k ∧ F62Z.val x = F62Z.val g ^ j) ∧
        ∃ q, d.evalAt (rawOps Model.F62.impl) x = some q ∧ F62Z.Inv q ∧
          ((¬ ∃ j, 2 ^ k - e ≤ j ∧ j < 2 ^ k ∧ F62Z.val x = F62Z.val g ^ j) →
            F62Z.val q = ∏ i ∈ Finset.range (2 ^ k - e), (F62Z.val x - F62Z.val g ^ i) ∧
            (F62Z.val q = 0 ↔ ∃ i, i < 2 ^ k - e ∧ F62Z.val x = F62Z.val g ^ i)) :=
  transition_raw f62_refines (by decide) hk1 hkT he

/-- `assertion_divisor_zero_set` for the 62-bit field's raw words -/
theorem f62_assertion_divisor {k : ℕ} (hk1 : 1 ≤ k) (hkT : k ≤ 39) {a : Assertion ℕ} (hw : WF a)
    (hv : a.validateTraceLength (2 ^ k) = .ok ()) :
    ∃ g d, Model.F62.impl.rootOfUnity k = some g ∧ F62Z.Inv g ∧ IsPrimitiveRoot (F62Z.val g) (2 ^ k) ∧
      fromAssertion (rawOps Model.F62.impl) a (2 ^ k) = .ok d ∧
      d.degree = .ok (a.stepList (2 ^ k)).length ∧
      ∀ x, F62Z.Inv x → ∃ r, d.evalAt (rawOps Model.F62.impl) x = some r ∧ F62Z.Inv r ∧
        (F62Z.val r = 0 ↔ ∃ s ∈ a.stepList (2 ^ k), F62Z.val x = F62Z.val g ^ s) :=
  assertion_raw f62_refines (by decide) hk1 hkT hw hv

/-- `boundary_value_sequence_full` for the 62-bit field's raw words: no interpolation, coherence
    or field hypothesis remains -/
theorem f62_boundary_value {k : ℕ} (hk1 : 1 ≤ k) (hkT : k ≤ 39) {a : Assertion ℕ} (hw : WF a)
    (hv : a.validateTraceLength (2 ^ k) = .ok ()) (h2 : 2 ≤ a.values.length)
    (hvals : ∀ v ∈ a.values, F62Z.Inv v) :
    ∃ g ig c, Model.F62.impl.rootOfUnity k = some g ∧ F62Z.Inv g ∧ IsPrimitiveRoot (F62Z.val g) (2 ^ k) ∧
      (rawOps Model.F62.impl).div (rawOps Model.F62.impl).one g = some ig ∧
      BConstraint.new (rawOps Model.F62.impl) a ig = some c ∧ c.column = a.column ∧
      ∀ j (hj : j < a.values.length) x, F62Z.Inv x → F62Z.val x = F62Z.val g ^ (a.first + a.stride * j) →
        F62Z.val (c.value (rawOps Model.F62.impl) x) = F62Z.val a.values[j] ∧
        ∀ t, F62Z.Inv t → F62Z.val (c.evalAt (rawOps Model.F62.impl) x t) = F62Z.val t - F62Z.val a.values[j] :=
  boundary_raw f62_refines (by decide) hk1 hkT hw hv h2 hvals

-- -------------------------------------------------------------------------------------------- 128-bit field
/-- coherence of `get_root_of_unity` in the 128-bit field: for `1 ≤ l ≤ k ≤ 40`,
    `val (root l) = val (root k) ^ (2^k / 2^l)` -/
theorem f128_root_coherence {k l : ℕ} (hl1 : 1 ≤ l) (hlk : l ≤ k) (hkT : k ≤ 40) :
    ∃ g w, Model.F128.impl.rootOfUnity k = some g ∧ Model.F128.impl.rootOfUnity l = some w ∧
      F128Z.Inv g ∧ F128Z.Inv w ∧ F128Z.val w = F128Z.val g ^ (2 ^ k / 2 ^ l) :=
  root_coherence f128_refines hl1 hlk hkT

/-- `transition_divisor_zero_set` for the 128-bit field's raw words: every trace length `2^k`,
    `1 ≤ k ≤ 40`, every exemption count `e ≤ 2^k`, every invariant-satisfying word `x` -/
theorem f128_transition_divisor {k e : ℕ} (hk1 : 1 ≤ k) (hkT : k ≤ 40) (he : e ≤ 2 ^ k) :
    ∃ g d, Model.F128.impl.rootOfUnity k = some g ∧ F128Z.Inv g ∧ IsPrimitiveRoot (F128Z.val g) (2 ^ k) ∧
      fromTransition (rawOps Model.F128.impl) (2 ^ k) e = .ok d ∧ d.degree = .ok (2 ^ k - e) ∧
      ∀ x, F128Z.Inv x →
        F128Z.val (d.evalNumerator (rawOps Model.F128.impl) x) = F128Z.val x ^ 2 ^ k - 1 ∧
        (F128Z.val (d.evalExemptions (rawOps Model.F128.impl) x) = 0 ↔
          ∃ j, 2 ^ k - e ≤ j ∧ j < 2 ^ k ∧ F128Z.val x = F128Z.val g ^ j) ∧
        ∃ q, d.evalAt (rawOps Model.F128.impl) x = some q ∧ F128Z.Inv q ∧
          ((¬ ∃ j, 2 ^ k - e ≤ j ∧ j < 2 ^ k ∧ F128Z.val x = F128Z.val g ^ j) →
            F128Z.val q = ∏ i ∈ Finset.range (2 ^ k - e), (F128Z.val x - F128Z.val g ^ i) ∧
            (F128Z.val q = 0 ↔ ∃ i, i < 2 ^ k - e ∧ F128Z.val x = F128Z.val g ^ i)) :=
  transition_raw f128_refines (by decide) hk1 hkT he

/-- `assertion_divisor_zero_set` for the 128-bit field's raw words -/
theorem f128_assertion_divisor {k : ℕ} (hk1 : 1 ≤ k) (hkT : k ≤ 40) {a : Assertion ℕ} (hw : WF a)
    (hv : a.validateTraceLength (2 ^ k) = .ok ()) :
    ∃ g d, Model.F128.impl.rootOfUnity k = some g ∧ F128Z.Inv g ∧ IsPrimitiveRoot (F128Z.val g) (2 ^ k) ∧
      fromAssertion (rawOps Model.F128.impl) a (2 ^ k) = .ok d ∧
      d.degree = .ok (a.stepList (2 ^ k)).length ∧
      ∀ x, F128Z.Inv x → ∃ r, d.evalAt (rawOps Model.F128.impl) x = some r ∧ F128Z.Inv r ∧
        (F128Z.val r = 0 ↔ ∃ s ∈ a.stepList (2 ^ k), F128Z.val x = F128Z.val g ^ s) :=
  assertion_raw f128_refines (by decide) hk1 hkT hw hv

/-- `boundary_value_sequence_full` for the 128-bit field's raw words: no interpolation, coherence
    or field hypothesis remains -/
theorem f128_boundary_value {k : ℕ} (hk1 : 1 ≤ k) (hkT : k ≤ 40) {a : Assertion ℕ} (hw : WF a)
    (hv : a.validateTraceLength (2 ^ k) = .ok ()) (h2 : 2 ≤ a.values.length)
    (hvals : ∀ v ∈ a.values, F128Z.Inv v) :
    ∃ g ig c, Model.F128.impl.rootOfUnity k = some g ∧ F128Z.Inv g ∧ IsPrimitiveRoot (F128Z.val g) (2 ^ k) ∧
      (rawOps Model.F128.impl).div (rawOps Model.F128.impl).one g = some ig ∧
      BConstraint.new (rawOps Model.F128.impl) a ig = some c ∧ c.column = a.column ∧
      ∀ j (hj : j < a.values.length) x, F128Z.Inv x → F128Z.val x = F128Z.val g ^ (a.first + a.stride * j) →
        F128Z.val (c.value (rawOps Model.F128.impl) x) = F128Z.val a.values[j] ∧
        ∀ t, F128Z.Inv t → F128Z.val (c.evalAt (rawOps Model.F128.impl) x t) = F128Z.val t - F128Z.val a.values[j] :=
  boundary_raw f128_refines (by decide) hk1 hkT hw hv h2 hvals

/-- the hypotheses are satisfiable: trace length 8 over the 64-bit field, the sequence assertion with
    raw values [5, 7] at steps 1 and 5 -/
example : ∃ g d, Model.F64.impl.rootOfUnity 3 = some g ∧ F64Z.Inv g ∧ IsPrimitiveRoot (F64Z.val g) (2 ^ 3) ∧
    fromAssertion (rawOps Model.F64.impl) ⟨0, 1, 4, [5, 7]⟩ (2 ^ 3) = .ok d ∧
    d.degree = .ok ((⟨0, 1, 4, [5, 7]⟩ : Assertion ℕ).stepList (2 ^ 3)).length ∧
    ∀ x, F64Z.Inv x → ∃ r, d.evalAt (rawOps Model.F64.impl) x = some r ∧ F64Z.Inv r ∧
      (F64Z.val r = 0 ↔ ∃ s ∈ (⟨0, 1, 4, [5, 7]⟩ : Assertion ℕ).stepList (2 ^ 3), F64Z.val x = F64Z.val g ^ s) :=
  f64_assertion_divisor (k := 3) (by decide) (by decide)
    (Or.inr ⟨⟨2, rfl⟩, by decide, by decide, Or.inr ⟨by decide, 1, rfl⟩⟩)
    ((validateTraceLength_accepts_iff _ _).mpr ⟨⟨3, rfl⟩, by decide⟩)

end WinterProofs.C16
