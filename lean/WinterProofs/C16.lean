import Winter.Model.Divisor
namespace WinterProofs.C16
end WinterProofs.C16
