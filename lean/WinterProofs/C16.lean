-- C16: constraints are enforced on exactly the intended steps.
-- Theorems about the executable model `Winter/Model/Divisor.lean` (tied to the Rust code by the
-- exhaustive correspondence of harness/src/bin/c16.rs) instantiated with an arbitrary Mathlib field
-- that has an element `g` of exact order `n` (`IsPrimitiveRoot g n`); trace lengths, exemption
-- counts and assertions are unbounded.  The concrete `example`s use ZMod 17, where 2 has order 8.
import Mathlib.Algebra.Field.ZMod
import WinterProofs.Lemmas.C16Field
import WinterProofs.Lemmas.C16Model
import WinterProofs.Lemmas.C16Interp
import WinterProofs.Lemmas.C16Prep
import WinterProofs.Lemmas.C16Group
import WinterProofs.Lemmas.C16Gen

namespace WinterProofs.C16
open Model.Divisor WinterProofs.C16L Polynomial

variable {F : Type} [Field F]

instance : Fact (Nat.Prime 17) := ⟨by decide⟩

/-- 2 has exact order 8 in ZMod 17 (the concrete instance used by the examples) -/
theorem two_primitive_zmod17 : IsPrimitiveRoot (2 : ZMod 17) 8 :=
  IsPrimitiveRoot.mk_of_lt _ (by decide) (by decide) (fun l h0 h8 =>
    (by decide : ∀ l : Fin 8, 0 < l.val → (2 : ZMod 17) ^ l.val ≠ 1) ⟨l, h8⟩ h0)

-- ============================================================================================
-- (a) transition divisor
-- ============================================================================================

/-- the numerator `X^n - 1` vanishes exactly on the trace domain `{g^i : i < n}` -/
theorem transition_numerator_zero_iff {g x : F} {n : ℕ} (hn : 0 < n) (hg : IsPrimitiveRoot g n) :
    x ^ n - 1 = 0 ↔ ∃ i < n, x = g ^ i :=
  pow_sub_one_eq_zero_iff hn hg

/-- the exemption product `∏_{k=n-e}^{n-1} (X - g^k)` vanishes exactly on the last `e` steps -/
theorem transition_exemptions_zero_iff {g x : F} {n e : ℕ} :
    ∏ k ∈ Finset.Ico (n - e) n, (x - g ^ k) = 0 ↔ ∃ k, n - e ≤ k ∧ k < n ∧ x = g ^ k :=
  prod_Ico_eq_zero_iff

/-- as polynomials: `X^n - 1 = ∏_{i<n-e} (X - g^i) · ∏_{k=n-e}^{n-1} (X - g^k)`, so the divisor
    `(X^n - 1) / ∏_{k=n-e}^{n-1} (X - g^k)` is the polynomial `∏_{i<n-e} (X - g^i)` -/
theorem transition_divisor_poly {g : F} {n : ℕ} (e : ℕ) (hn : 0 < n) (hg : IsPrimitiveRoot g n) :
    (X ^ n - 1 : F[X]) =
      (∏ i ∈ Finset.range (n - e), (X - C (g ^ i))) * ∏ k ∈ Finset.Ico (n - e) n, (X - C (g ^ k)) := by
  rw [X_pow_sub_one_eq_prod_range hn hg, Finset.prod_range_mul_prod_Ico _ (Nat.sub_le n e)]

/-- `from_transition(n, e)` for `e ≤ n`: what is stored, its degree `n - e`, and what
    `evaluate_at` / `evaluate_exemptions_at` compute at any `x` -/
theorem transition_divisor_spec {root : ℕ → Option F} {g : F} {n e : ℕ}
    (hroot : root (Nat.log2 n) = some g) (he : e ≤ n) :
    ∃ d, fromTransition (fieldOps F root) n e = .ok d ∧
      d.degree = .ok (n - e) ∧
      (∀ x, d.evalNumerator (fieldOps F root) x = x ^ n - 1) ∧
      (∀ x, d.evalExemptions (fieldOps F root) x = ∏ k ∈ Finset.Ico (n - e) n, (x - g ^ k)) ∧
      (∀ x, d.evalAt (fieldOps F root) x =
        some ((x ^ n - 1) / ∏ k ∈ Finset.Ico (n - e) n, (x - g ^ k))) := by
  refine ⟨⟨[(n, 1)], (List.range' (n - e) e).map (fun k => g ^ k)⟩, ?_, ?_, ?_, ?_, ?_⟩
  · unfold fromTransition
    rw [if_neg (by omega)]
    by_cases h0 : e = 0
    · subst h0; simp [fieldOps]
    · rw [if_neg h0]; simp [fieldOps, hroot]
  · simp [Divisor.degree]; omega
  · intro x; exact evalNumerator_single root n 1 x _
  · intro x
    rw [evalExemptions_eq, Nat.sub_add_cancel he]
  · intro x
    have h1 := evalNumerator_single root n 1 x ((List.range' (n - e) e).map (fun k => g ^ k))
    have h2 := evalExemptions_eq root [(n, (1 : F))] g x (n - e) e
    rw [Nat.sub_add_cancel he] at h2
    unfold Divisor.evalAt
    rw [h1, h2]
    rfl

example : ∃ d, fromTransition (fieldOps (ZMod 17) (fun _ => some 2)) 8 3 = .ok d ∧ d.degree = .ok 5 :=
  let ⟨d, h1, h2, _⟩ := transition_divisor_spec (F := ZMod 17) (root := fun _ => some 2) (g := 2)
    (n := 8) (e := 3) rfl (by decide)
  ⟨d, h1, h2⟩

/-- **zero set of the transition divisor.**  At every `x` that is not an exempt point the value
    `evaluate_at` returns is `∏_{i<n-e} (x - g^i)`; it is zero exactly on the non-exempt steps
    `g^i, i < n - e`. -/
theorem transition_divisor_zero_set {root : ℕ → Option F} {g : F} {n e : ℕ} (hn : 0 < n)
    (hg : IsPrimitiveRoot g n) (hroot : root (Nat.log2 n) = some g) (he : e ≤ n) :
    ∃ d, fromTransition (fieldOps F root) n e = .ok d ∧
      ∀ x, (¬ ∃ k, n - e ≤ k ∧ k < n ∧ x = g ^ k) →
        d.evalAt (fieldOps F root) x = some (∏ i ∈ Finset.range (n - e), (x - g ^ i)) ∧
        (d.evalAt (fieldOps F root) x = some 0 ↔ ∃ i, i < n - e ∧ x = g ^ i) := by
  obtain ⟨d, hd, _, _, _, hq⟩ := transition_divisor_spec (F := F) hroot he
  refine ⟨d, hd, fun x hx => ?_⟩
  have hex : ∏ k ∈ Finset.Ico (n - e) n, (x - g ^ k) ≠ 0 := fun h => hx (prod_Ico_eq_zero_iff.mp h)
  have hval : d.evalAt (fieldOps F root) x = some (∏ i ∈ Finset.range (n - e), (x - g ^ i)) := by
    rw [hq, pow_sub_one_split (e := e) hn hg x, mul_div_assoc, div_self hex, mul_one]
  refine ⟨hval, ?_⟩
  rw [hval, Option.some_inj]
  exact prod_range_eq_zero_iff

/-- the hypotheses of `transition_divisor_zero_set` hold for n = 8, e = 3 over ZMod 17 (g = 2) -/
example : ∃ d, fromTransition (fieldOps (ZMod 17) (fun _ => some 2)) 8 3 = .ok d ∧
    ∀ x, (¬ ∃ k, 8 - 3 ≤ k ∧ k < 8 ∧ x = (2 : ZMod 17) ^ k) →
      d.evalAt (fieldOps (ZMod 17) (fun _ => some 2)) x = some (∏ i ∈ Finset.range (8 - 3), (x - 2 ^ i)) ∧
      (d.evalAt (fieldOps (ZMod 17) (fun _ => some 2)) x = some 0 ↔ ∃ i, i < 8 - 3 ∧ x = 2 ^ i) :=
  transition_divisor_zero_set (by decide) two_primitive_zmod17 rfl (by decide)

/-- on the trace domain: the numerator vanishes at every step, the exemption product exactly at the
    last `e` steps (steps `i ≥ n - e`) -/
theorem transition_on_domain {g : F} {n e i : ℕ} (hg : IsPrimitiveRoot g n) (hi : i < n) :
    (g ^ i) ^ n - 1 = 0 ∧
      (∏ k ∈ Finset.Ico (n - e) n, (g ^ i - g ^ k) = 0 ↔ n - e ≤ i) := by
  refine ⟨?_, ?_⟩
  · rw [← pow_mul, mul_comm, pow_mul, hg.pow_eq_one, one_pow, sub_self]
  · rw [prod_Ico_eq_zero_iff]
    constructor
    · rintro ⟨k, h1, h2, h3⟩
      rw [hg.pow_inj hi h2 h3]; exact h1
    · intro h; exact ⟨i, h, hi, rfl⟩

/-- what the code's `evaluate_at` returns ON the trace domain: always zero, also at the exempt
    steps, because there it computes `0 · 0⁻¹` with `0⁻¹ = 0`.  (This is why the zero set is stated
    through numerator and exemption product, and through `transition_divisor_zero_set` off the
    exempt points; the protocol never calls `evaluate_at` on a trace-domain point.) -/
theorem transition_evalAt_on_domain {root : ℕ → Option F} {g : F} {n e i : ℕ}
    (hg : IsPrimitiveRoot g n) (hroot : root (Nat.log2 n) = some g) (he : e ≤ n) :
    ∃ d, fromTransition (fieldOps F root) n e = .ok d ∧ d.evalAt (fieldOps F root) (g ^ i) = some 0 := by
  obtain ⟨d, hd, _, _, _, hq⟩ := transition_divisor_spec (F := F) hroot he
  refine ⟨d, hd, ?_⟩
  rw [hq, ← pow_mul, mul_comm, pow_mul, hg.pow_eq_one, one_pow, sub_self, zero_div]

-- ============================================================================================
-- (e) constructors and validation accept exactly the well-formed assertions
-- ============================================================================================
section Assertions
variable {α : Type}

theorem single_wf (c s : ℕ) (v : α) : WF (single c s v) := Or.inl ⟨rfl, rfl⟩

/-- `Assertion::periodic` returns an assertion exactly for power-of-two strides `≥ 2` with
    `first < stride`; anything else panics -/
theorem periodic_ok_iff (c f s : ℕ) (v : α) (a : Assertion α) :
    periodic c f s v = .ok a ↔
      ((∃ k, s = 2 ^ k) ∧ 2 ≤ s ∧ f < s) ∧ a = ⟨c, f, s, [v]⟩ := by
  unfold periodic
  cases h : validateStride s f with
  | none =>
    have := (validateStride_none_iff s f).mp h
    simp only [this, true_and, Res.ok.injEq]
    exact eq_comm
  | some e =>
    have : ¬ ((∃ k, s = 2 ^ k) ∧ 2 ≤ s ∧ f < s) := fun hh => by
      rw [(validateStride_none_iff s f).mpr hh] at h; cases h
    simp only [this, false_and, iff_false]
    intro h'; cases h'

example : periodic 0 3 8 (5 : ℕ) = .ok ⟨0, 3, 8, [5]⟩ :=
  (periodic_ok_iff 0 3 8 5 _).mpr ⟨⟨⟨3, rfl⟩, by decide, by decide⟩, rfl⟩

theorem periodic_wf {c f s : ℕ} {v : α} {a : Assertion α} (h : periodic c f s v = .ok a) : WF a := by
  obtain ⟨⟨hp, h2, hf⟩, rfl⟩ := (periodic_ok_iff c f s v a).mp h
  exact Or.inr ⟨hp, h2, hf, Or.inl rfl⟩

/-- `Assertion::sequence` returns an assertion exactly for power-of-two strides `≥ 2`,
    `first < stride` and a power-of-two number (≥ 1) of values; a one-value sequence is stored as
    the single assertion at `first` -/
theorem sequence_ok_iff (c f s : ℕ) (vs : List α) (a : Assertion α) :
    Model.Divisor.sequence c f s vs = .ok a ↔
      ((∃ k, s = 2 ^ k) ∧ 2 ≤ s ∧ f < s ∧ ∃ k, vs.length = 2 ^ k) ∧
        a = ⟨c, f, if vs.length = 1 then 0 else s, vs⟩ := by
  unfold Model.Divisor.sequence
  cases h : validateStride s f with
  | none =>
    obtain ⟨hp, h2, hf⟩ := (validateStride_none_iff s f).mp h
    by_cases hl : isPow2 vs.length = true
    · have hl' := (isPow2_iff _).mp hl
      have hne : vs.isEmpty = false := by
        obtain ⟨k, hk⟩ := hl'
        have : 0 < vs.length := hk ▸ Nat.two_pow_pos k
        cases vs with
        | nil => simp at this
        | cons _ _ => rfl
      simp only [hne, Bool.false_eq_true, if_false, hl, Bool.not_true, hp, h2, hf, hl', and_self,
        true_and, Res.ok.injEq]
      exact eq_comm
    · have hl' : isPow2 vs.length = false := by simpa using hl
      have hl'' := (isPow2_false_iff _).mp hl'
      simp only [hl', Bool.not_false, if_true, hl'', and_false, false_and, iff_false]
      split <;> (intro h'; cases h')
  | some e =>
    have : ¬ ((∃ k, s = 2 ^ k) ∧ 2 ≤ s ∧ f < s) := fun hh => by
      rw [(validateStride_none_iff s f).mpr hh] at h; cases h
    constructor
    · intro h'; cases h'
    · rintro ⟨⟨a1, a2, a3, _⟩, _⟩; exact absurd ⟨a1, a2, a3⟩ this

example : Model.Divisor.sequence 1 2 4 [(7 : ℕ), 8] = .ok ⟨1, 2, 4, [7, 8]⟩ :=
  (sequence_ok_iff 1 2 4 [7, 8] _).mpr ⟨⟨⟨2, rfl⟩, by decide, by decide, ⟨1, rfl⟩⟩, rfl⟩

theorem sequence_wf {c f s : ℕ} {vs : List α} {a : Assertion α} (h : Model.Divisor.sequence c f s vs = .ok a) :
    WF a := by
  obtain ⟨⟨hp, h2, hf, k, hk⟩, rfl⟩ := (sequence_ok_iff c f s vs a).mp h
  by_cases h1 : vs.length = 1
  · exact Or.inl ⟨by simp [h1], h1⟩
  · refine Or.inr ⟨by simpa [h1] using hp, by simpa [h1] using h2, by simpa [h1] using hf, Or.inr ⟨?_, k, hk⟩⟩
    have : 0 < vs.length := hk ▸ Nat.two_pow_pos k
    show 2 ≤ vs.length
    omega

/-- conversely every well-formed assertion is the result of one of the three constructors: the
    constructors accept exactly `WF` -/
theorem wf_constructible {a : Assertion α} (hw : WF a) :
    (∃ v, a = single a.column a.first v) ∨ (∃ v, periodic a.column a.first a.stride v = .ok a) ∨
      Model.Divisor.sequence a.column a.first a.stride a.values = .ok a := by
  obtain ⟨c, f, s, vs⟩ := a
  rcases hw with ⟨h0, h1⟩ | ⟨hp, h2, hf, hl⟩
  · left
    simp only at h0 h1
    match vs, h1 with
    | [v], _ => exact ⟨v, by simp [single, h0]⟩
  · rcases hl with h1 | ⟨h2l, hk⟩
    · right; left
      simp only at h1
      match vs, h1 with
      | [v], _ => exact ⟨v, (periodic_ok_iff c f s v _).mpr ⟨⟨hp, h2, hf⟩, rfl⟩⟩
    · right; right
      simp only at h2l hk hp h2 hf
      refine (sequence_ok_iff c f s vs _).mpr ⟨⟨hp, h2, hf, hk⟩, ?_⟩
      have : vs.length ≠ 1 := by omega
      simp [this]

/-- `validate_trace_length` accepts exactly: a power-of-two trace length `n` with, by kind,
    `first < n` (single), `stride ≤ n` (periodic), `#values · stride = n` (sequence) -/
theorem validateTraceLength_accepts_iff (a : Assertion α) (n : ℕ) :
    a.validateTraceLength n = .ok () ↔
      (∃ k, n = 2 ^ k) ∧
        (if a.stride = 0 then a.first < n
         else if a.values.length = 1 then a.stride ≤ n
         else a.values.length * a.stride = n) :=
  validateTraceLength_ok_iff a n

example : (⟨0, 3, 8, [5]⟩ : Assertion ℕ).validateTraceLength 16 = .ok () :=
  (validateTraceLength_accepts_iff _ _).mpr ⟨⟨4, rfl⟩, by decide⟩

/-- `validate_trace_width` accepts exactly the columns inside the trace -/
theorem validateTraceWidth_iff (a : Assertion α) (w : ℕ) : a.validateTraceWidth w = true ↔ a.column < w := by
  simp [Assertion.validateTraceWidth]

/-- `get_num_steps` / `apply` refuse (panic) exactly the trace lengths `validate_trace_length`
    rejects, and otherwise report the steps `first + stride · i` -/
theorem getNumSteps_spec (a : Assertion α) (n : ℕ) :
    (a.validateTraceLength n = .ok () → a.getNumSteps n = .ok (a.stepList n).length) ∧
    (a.validateTraceLength n ≠ .ok () → ∃ s, a.getNumSteps n = .panic s) := by
  refine ⟨getNumSteps_ok, fun h => ?_⟩
  unfold Assertion.getNumSteps
  cases hv : a.validateTraceLength n with
  | error e => exact ⟨_, rfl⟩
  | ok u => cases u; exact absurd hv h

theorem apply_steps {a : Assertion α} {n : ℕ} (hw : WF a) (hv : a.validateTraceLength n = .ok ()) :
    ∃ l, a.apply n = .ok l ∧ l.map Prod.fst = a.stepList n := by
  unfold Assertion.apply Assertion.stepList
  rw [hv]
  have hlen : a.values ≠ [] := by
    rcases hw with ⟨_, h⟩ | ⟨_, _, _, h | ⟨h, _⟩⟩ <;> (intro e; rw [e] at h; simp at h)
  by_cases hs : a.isSingle = true
  · simp only [hs, if_true]
    cases hvs : a.values with
    | nil => exact absurd hvs hlen
    | cons v rest => exact ⟨_, rfl, rfl⟩
  · simp only [hs, if_false, Bool.false_eq_true]
    by_cases hp : a.isPeriodic = true
    · simp only [hp, if_true]
      cases hvs : a.values with
      | nil => exact absurd hvs hlen
      | cons v rest => exact ⟨_, rfl, by simp [Function.comp_def]⟩
    · simp only [hp, if_false, Bool.false_eq_true]
      refine ⟨_, rfl, ?_⟩
      rw [List.map_map]
      apply List.ext_getElem
      · simp
      · intro i h1 h2
        simp

-- ============================================================================================
-- (d) overlaps_with ⇔ same column ∧ common step
-- ============================================================================================

/-- **`overlaps_with` is exact**: for well-formed assertions valid for the same trace length it
    returns `true` iff they are placed against the same column and name a common step -/
theorem overlapsWith_iff {a b : Assertion α} {n : ℕ} (ha : WF a) (hb : WF b)
    (hva : a.validateTraceLength n = .ok ()) (hvb : b.validateTraceLength n = .ok ()) :
    a.overlapsWith b = true ↔
      a.column = b.column ∧ ∃ s, s ∈ a.stepList n ∧ s ∈ b.stepList n := by
  rw [overlapsWith_eq, Bool.and_eq_true, beq_iff_eq, ovl_iff (shape_fits ha hva) (shape_fits hb hvb)]
  constructor
  · rintro ⟨hc, s, h1, h2⟩
    exact ⟨hc, s, (mem_stepList_iff ha hva s).mpr h1, (mem_stepList_iff hb hvb s).mpr h2⟩
  · rintro ⟨hc, s, h1, h2⟩
    exact ⟨hc, s, (mem_stepList_iff ha hva s).mp h1, (mem_stepList_iff hb hvb s).mp h2⟩

theorem overlapsWith_comm {a b : Assertion α} {n : ℕ} (ha : WF a) (hb : WF b)
    (hva : a.validateTraceLength n = .ok ()) (hvb : b.validateTraceLength n = .ok ()) :
    a.overlapsWith b = b.overlapsWith a := by
  rw [overlapsWith_eq, overlapsWith_eq, ovl_comm (shape_fits ha hva) (shape_fits hb hvb)]
  have : (a.column == b.column) = (b.column == a.column) := by
    rw [Bool.eq_iff_iff, beq_iff_eq, beq_iff_eq]; exact eq_comm
  rw [this]

/-- the hypotheses are satisfiable: periodic (first 1, stride 4) and sequence (first 1, stride 8,
    two values) in a trace of length 16 share step 1 -/
example : (⟨0, 1, 4, [5]⟩ : Assertion ℕ).overlapsWith ⟨0, 1, 8, [6, 7]⟩ = true ↔
    (0 : ℕ) = 0 ∧ ∃ s, s ∈ (⟨0, 1, 4, [5]⟩ : Assertion ℕ).stepList 16 ∧
      s ∈ (⟨0, 1, 8, [6, 7]⟩ : Assertion ℕ).stepList 16 :=
  overlapsWith_iff (n := 16)
    (Or.inr ⟨⟨2, rfl⟩, by decide, by decide, Or.inl rfl⟩)
    (Or.inr ⟨⟨3, rfl⟩, by decide, by decide, Or.inr ⟨by decide, 1, rfl⟩⟩)
    ((validateTraceLength_accepts_iff _ _).mpr ⟨⟨4, rfl⟩, by decide⟩)
    ((validateTraceLength_accepts_iff _ _).mpr ⟨⟨4, rfl⟩, by decide⟩)

/-- **`prepare_assertions` refuses exactly the bad sets**: it returns (instead of panicking) iff
    every assertion's column is inside the trace, every assertion passes `validate_trace_length`,
    and no earlier assertion `overlaps_with` a later one -/
theorem prepareAssertions_ok_iff (as : List (Assertion α)) (width n : ℕ) :
    (∃ out, prepareAssertions as width n = .ok out) ↔
      (∀ a ∈ as, a.column < width ∧ a.validateTraceLength n = .ok ()) ∧
      as.Pairwise (fun a b => a.overlapsWith b = false) := by
  rw [prepareAssertions_eq, foldl_prepStep_ok_iff]
  simp

/-- … and then, for well-formed assertions, no two accepted assertions name a common cell, and the
    accepted list contains exactly the given assertions -/
theorem prepareAssertions_disjoint {as out : List (Assertion α)} {width n : ℕ}
    (hwf : ∀ a ∈ as, WF a) (h : prepareAssertions as width n = .ok out) :
    (∀ x, x ∈ out ↔ x ∈ as) ∧
    as.Pairwise (fun a b => ¬ (a.column = b.column ∧ ∃ s, s ∈ a.stepList n ∧ s ∈ b.stepList n)) := by
  have hmem := foldl_prepStep_mem as width n [] out (by rw [← prepareAssertions_eq]; exact h)
  obtain ⟨hval, hpw⟩ := (prepareAssertions_ok_iff as width n).mp ⟨out, h⟩
  refine ⟨fun x => by simpa using hmem x, ?_⟩
  rw [List.pairwise_iff_forall_sublist] at hpw ⊢
  intro a b hab
  have ha : a ∈ as := hab.subset (by simp)
  have hb : b ∈ as := hab.subset (by simp)
  have := hpw hab
  rw [← overlapsWith_iff (hwf a ha) (hwf b hb) (hval a ha).2 (hval b hb).2, this]
  simp

example : ∃ out, prepareAssertions [(⟨0, 1, 4, [5]⟩ : Assertion ℕ), ⟨0, 2, 8, [6, 7]⟩] 1 16 = .ok out :=
  (prepareAssertions_ok_iff _ _ _).mpr ⟨by
    intro a ha
    simp only [List.mem_cons, List.not_mem_nil, or_false] at ha
    rcases ha with rfl | rfl
    · exact ⟨by decide, (validateTraceLength_accepts_iff _ _).mpr ⟨⟨4, rfl⟩, by decide⟩⟩
    · exact ⟨by decide, (validateTraceLength_accepts_iff _ _).mpr ⟨⟨4, rfl⟩, by decide⟩⟩,
    by simp [Assertion.overlapsWith, Assertion.isSingle]⟩

/-- constraints are grouped by `(stride, first_step)` and share the divisor built from the first
    member: two well-formed assertions with the same key that are valid for the trace length name
    the same steps (so the shared divisor is the right one for every member) -/
theorem same_key_same_steps {a b : Assertion α} {n : ℕ} (ha : WF a) (hb : WF b)
    (hva : a.validateTraceLength n = .ok ()) (hvb : b.validateTraceLength n = .ok ())
    (hs : a.stride = b.stride) (hf : a.first = b.first) : a.stepList n = b.stepList n := by
  have hlen : (a.stepList n).length = (b.stepList n).length := by
    by_cases h0 : a.stride = 0
    · rw [stepList_length, stepList_length, if_pos h0, if_pos (hs ▸ h0)]
    · have h0' : b.stride ≠ 0 := hs ▸ h0
      have h1 := stride_mul_steps ha hva h0
      have h2 := stride_mul_steps hb hvb h0'
      rw [stepList_length, stepList_length, if_neg h0, if_neg h0', ← hs]
      rw [← hs] at h2
      exact Nat.eq_of_mul_eq_mul_left (Nat.pos_of_ne_zero h0) (h1.trans h2.symm)
  rw [stepList_eq_map a n, stepList_eq_map b n, hlen, hs, hf]

end Assertions

-- ============================================================================================
-- (b) assertion divisor
-- ============================================================================================

/-- **zero set of an assertion divisor.**  For a well-formed assertion that is valid for the trace
    length, `from_assertion` stores `X^k - g^(k·first)` (`k` = number of named steps, also its
    degree); `evaluate_at` vanishes at `x` iff `x = g^s` for a named step `s` (zero set in the whole
    field, not only on the trace domain), in particular at `g^i`, `i < n`, iff `i` is a named step. -/
theorem assertion_divisor_zero_set {root : ℕ → Option F} {g : F} {n : ℕ} {a : Assertion F} (hn : 0 < n)
    (hg : IsPrimitiveRoot g n) (hroot : root (Nat.log2 n) = some g) (hw : WF a)
    (hv : a.validateTraceLength n = .ok ()) :
    ∃ d, fromAssertion (fieldOps F root) a n = .ok d ∧
      d.degree = .ok (a.stepList n).length ∧
      (∀ x, d.evalAt (fieldOps F root) x =
        some (x ^ (a.stepList n).length - g ^ ((a.stepList n).length * a.first))) ∧
      (∀ x, d.evalAt (fieldOps F root) x = some 0 ↔ ∃ s ∈ a.stepList n, x = g ^ s) ∧
      (∀ i, i < n → (d.evalAt (fieldOps F root) (g ^ i) = some 0 ↔ i ∈ a.stepList n)) := by
  obtain ⟨hfac, hlt⟩ := steps_factor hw hv hn
  generalize hk : (a.stepList n).length = k at hfac hlt
  have hval : ∀ x, (⟨[(k, g ^ (k * a.first))], []⟩ : Divisor F).evalAt (fieldOps F root) x
      = some (x ^ k - g ^ (k * a.first)) := by
    intro x
    unfold Divisor.evalAt
    rw [evalNumerator_single]
    simp [Divisor.evalExemptions, fieldOps]
  have hzero : ∀ x, x ^ k - g ^ (k * a.first) = 0 ↔ ∃ s ∈ a.stepList n, x = g ^ s := by
    intro x
    rw [pow_sub_pow_eq_zero_iff hn hg hfac, stepList_eq_map a n, hk]
    by_cases h0 : a.stride = 0
    · simp only [h0, if_true, List.mem_singleton, exists_eq_left]
      have hk1 : k = 1 := by
        have := stepList_length (a := a) (n := n)
        rw [if_pos h0] at this; omega
      subst hk1
      constructor
      · rintro ⟨j, hj, e⟩
        have : j = 0 := by omega
        subst this; simpa using e
      · intro e; exact ⟨0, by omega, by simpa using e⟩
    · simp only [if_neg h0, List.mem_map, List.mem_range]
      constructor
      · rintro ⟨j, hj, e⟩; exact ⟨_, ⟨j, hj, rfl⟩, e⟩
      · rintro ⟨s, ⟨j, hj, rfl⟩, e⟩; exact ⟨j, hj, e⟩
  refine ⟨⟨[(k, g ^ (k * a.first))], []⟩, ?_, ?_, hval, ?_, ?_⟩
  · unfold fromAssertion
    rw [getNumSteps_ok hv, hk]
    by_cases hf : a.first = 0
    · simp [hf, fieldOps]
    · simp only [if_neg hf, traceDomainValueAt]
      rw [if_neg (by omega)]
      have hr : (fieldOps F root).root n.log2 = some g := hroot
      rw [hr]
      rfl
  · simp [Divisor.degree]
  · intro x
    rw [hval, Option.some_inj]
    exact hzero x
  · intro i hi
    rw [hval, Option.some_inj, hzero]
    constructor
    · rintro ⟨s, hs, e⟩
      rw [hg.pow_inj hi (stepList_lt hw hv hs) e]; exact hs
    · intro h; exact ⟨i, h, rfl⟩

/-- the hypotheses are satisfiable: the periodic assertion (first 1, stride 4) in a trace of length 8
    over ZMod 17 -/
example : ∃ d, fromAssertion (fieldOps (ZMod 17) (fun _ => some 2)) ⟨0, 1, 4, [5]⟩ 8 = .ok d ∧
    d.degree = .ok ((⟨0, 1, 4, [5]⟩ : Assertion (ZMod 17)).stepList 8).length :=
  let ⟨d, h1, h2, _⟩ := assertion_divisor_zero_set (F := ZMod 17) (root := fun _ => some 2) (n := 8)
    (a := ⟨0, 1, 4, [5]⟩) (by decide) two_primitive_zmod17 rfl
    (Or.inr ⟨⟨2, rfl⟩, by decide, by decide, Or.inl rfl⟩)
    ((validateTraceLength_accepts_iff _ _).mpr ⟨⟨3, rfl⟩, by decide⟩)
  ⟨d, h1, h2⟩

-- ============================================================================================
-- (c) value polynomial of a boundary constraint
-- ============================================================================================

/-- "interpolation inverts evaluation on the subgroup generated by `h`" for the value list `vs`
    (provided by property C09 for `fft::interpolate_poly`; `h = g^stride` is the generator of the
    stride-subgroup) -/
def InterpolationInverts (O : Ops F) (vs : List F) (h : F) : Prop :=
  ∀ poly, interpolate O vs = some poly →
    poly.length = vs.length ∧ ∀ j (hj : j < vs.length), polyEval O poly (h ^ j) = vs[j]

/-- single and periodic assertions: the value polynomial is the asserted constant, at every `x` -/
theorem boundary_value_const {root : ℕ → Option F} {a : Assertion F} {v invG : F} (hvals : a.values = [v]) :
    ∃ c, BConstraint.new (fieldOps F root) a invG = some c ∧ c.column = a.column ∧
      ∀ x t, c.value (fieldOps F root) x = v ∧ c.evalAt (fieldOps F root) x t = t - v := by
  refine ⟨⟨a.column, [v], 0, 1⟩, ?_, rfl, ?_⟩
  · simp [BConstraint.new, hvals, fieldOps]
  · intro x t
    simp [BConstraint.value, BConstraint.evalAt, fieldOps]

/-- **sequence assertions**: the interpolated value polynomial, evaluated as the code does at
    `x · (g⁻¹)^first`, reproduces `values[j]` at the `j`-th named step `first + stride·j` -/
theorem boundary_value_sequence {root : ℕ → Option F} {g : F} {n : ℕ} {a : Assertion F}
    (hg : IsPrimitiveRoot g n) (hn : 0 < n) (h2 : 2 ≤ a.values.length)
    (hinterp : InterpolationInverts (fieldOps F root) a.values (g ^ a.stride))
    {c : BConstraint F} (hc : BConstraint.new (fieldOps F root) a g⁻¹ = some c) :
    c.column = a.column ∧
    ∀ j (hj : j < a.values.length) t,
      c.value (fieldOps F root) (g ^ (a.first + a.stride * j)) = a.values[j] ∧
      c.evalAt (fieldOps F root) (g ^ (a.first + a.stride * j)) t = t - a.values[j] := by
  have hg0 : g ≠ 0 := hg.ne_zero hn.ne'
  unfold BConstraint.new at hc
  rw [if_pos (by omega)] at hc
  cases hp : interpolate (fieldOps F root) a.values with
  | none => rw [hp] at hc; cases hc
  | some poly =>
    rw [hp] at hc
    simp only at hc
    obtain ⟨hlen, hev⟩ := hinterp poly hp
    have hshift : ∀ j, g ^ (a.first + a.stride * j) * (g⁻¹) ^ a.first = (g ^ a.stride) ^ j := by
      intro j
      rw [pow_add, inv_pow, mul_comm (g ^ a.first), mul_assoc, mul_inv_cancel₀ (pow_ne_zero _ hg0),
        mul_one, pow_mul]
    have hne : ∀ v, poly ≠ [v] := by
      intro v e; rw [e] at hlen; simp at hlen; omega
    by_cases hf : a.first = 0
    · rw [if_neg (by simpa using hf)] at hc
      cases hc
      refine ⟨rfl, fun j hj t => ?_⟩
      have hv : (⟨a.column, poly, 0, (fieldOps F root).one⟩ : BConstraint F).value (fieldOps F root)
          (g ^ (a.first + a.stride * j)) = a.values[j] := by
        rw [value_of_not_singleton _ _ hne]
        have := hshift j
        rw [hf, pow_zero, mul_one] at this
        show polyEval _ poly (g ^ (a.first + a.stride * j) * 1) = _
        rw [mul_one, hf, this]
        exact hev j hj
      exact ⟨hv, by unfold BConstraint.evalAt; rw [hv]; rfl⟩
    · rw [if_pos hf] at hc
      cases hc
      refine ⟨rfl, fun j hj t => ?_⟩
      have hv : (⟨a.column, poly, a.first, (fieldOps F root).pow g⁻¹ a.first⟩ : BConstraint F).value
          (fieldOps F root) (g ^ (a.first + a.stride * j)) = a.values[j] := by
        rw [value_of_not_singleton _ _ hne]
        show polyEval _ poly (g ^ (a.first + a.stride * j) * g⁻¹ ^ a.first) = _
        rw [hshift j]
        exact hev j hj
      exact ⟨hv, by unfold BConstraint.evalAt; rw [hv]; rfl⟩

/-- the interpolation hypothesis is not an assumption about the model: the model's `interpolate`
    (inverse DFT over `w = get_root_of_unity(log2 m)`) inverts evaluation whenever `w` is a primitive
    `m`-th root of unity.  (That `fft::interpolate_poly` computes this inverse DFT is property C09 and
    the correspondence run.) -/
theorem interpolationInverts_holds {root : ℕ → Option F} {w : F} {vs : List F} (hm : 0 < vs.length)
    (hw : IsPrimitiveRoot w vs.length) (hroot : root (Nat.log2 vs.length) = some w) :
    InterpolationInverts (fieldOps F root) vs w :=
  interpolate_inverts hm hw hroot

/-- **sequence assertions, without the interpolation hypothesis**: for a well-formed sequence
    assertion valid for trace length `n`, when the root family is coherent
    (`get_root_of_unity(log2 #values) = g^stride`, true for the code because both are powers of the
    same two-adic root), the boundary constraint exists and reproduces `values[j]` at step
    `first + stride·j` -/
theorem boundary_value_sequence_full {root : ℕ → Option F} {g : F} {n : ℕ} {a : Assertion F}
    (hg : IsPrimitiveRoot g n) (hn : 0 < n) (hw : WF a) (hv : a.validateTraceLength n = .ok ())
    (h2 : 2 ≤ a.values.length) (hrootm : root (Nat.log2 a.values.length) = some (g ^ a.stride)) :
    ∃ c, BConstraint.new (fieldOps F root) a g⁻¹ = some c ∧ c.column = a.column ∧
      ∀ j (hj : j < a.values.length) t,
        c.value (fieldOps F root) (g ^ (a.first + a.stride * j)) = a.values[j] ∧
        c.evalAt (fieldOps F root) (g ^ (a.first + a.stride * j)) t = t - a.values[j] := by
  have h0 : a.stride ≠ 0 := by
    rcases hw with ⟨_, h⟩ | ⟨_, h, _⟩ <;> omega
  have hmul := stride_mul_steps hw hv h0
  rw [if_neg (by omega)] at hmul
  have hprim : IsPrimitiveRoot (g ^ a.stride) a.values.length := hg.pow hn hmul.symm
  have hinterp := interpolationInverts_holds (by omega) hprim hrootm
  obtain ⟨poly, hp⟩ := interpolate_isSome (F := F) hrootm
  have hc : ∃ c, BConstraint.new (fieldOps F root) a g⁻¹ = some c := by
    unfold BConstraint.new
    rw [if_pos (by omega), hp]
    by_cases hf : a.first ≠ 0
    · simp only [if_pos hf]; exact ⟨_, rfl⟩
    · simp only [if_neg hf]; exact ⟨_, rfl⟩
  obtain ⟨c, hc⟩ := hc
  obtain ⟨h1, h3⟩ := boundary_value_sequence hg hn h2 hinterp hc
  exact ⟨c, hc, h1, h3⟩

/-- the hypotheses are satisfiable: n = 8 over ZMod 17 (g = 2), the sequence assertion with values
    [3, 5] at steps 1 and 5 (first 1, stride 4); `get_root_of_unity(1) = 16 = 2^4` -/
example : let O := fieldOps (ZMod 17) (fun k => if k = 1 then some 16 else some 2)
    ∃ c, BConstraint.new O ⟨0, 1, 4, [3, 5]⟩ (2 : ZMod 17)⁻¹ = some c ∧ c.column = 0 ∧
    ∀ j (hj : j < 2) t,
      c.value O (2 ^ (1 + 4 * j)) = ([3, 5] : List (ZMod 17))[j] ∧
      c.evalAt O (2 ^ (1 + 4 * j)) t = t - ([3, 5] : List (ZMod 17))[j] :=
  boundary_value_sequence_full (n := 8) (a := ⟨0, 1, 4, [3, 5]⟩) two_primitive_zmod17 (by decide)
    (Or.inr ⟨⟨2, rfl⟩, by decide, by decide, Or.inr ⟨by decide, 1, rfl⟩⟩)
    ((validateTraceLength_accepts_iff _ _).mpr ⟨⟨3, rfl⟩, by decide⟩) (by decide) (by decide)

-- ============================================================================================
-- (f) exemption bounds and divisor degrees
-- ============================================================================================

/-- **exemption bounds**: `set_num_transition_exemptions(e)` accepts exactly `1 ≤ e ≤ n/2 + 1`
    such that for every constraint degree the composition degree `evalDegree - (n - e)` stays below
    the constraint evaluation domain size `n · ce_blowup`; everything else panics -/
theorem setNumTransitionExemptions_ok_iff (n : ℕ) (ds : List Degree) (e e' : ℕ) :
    setNumTransitionExemptions n ds e = .ok e' ↔
      e' = e ∧ 1 ≤ e ∧ e ≤ n / 2 + 1 ∧
        ∀ d ∈ ds, d.evalDegree n + e ≤ n * ceBlowup ds - 1 + n := by
  unfold setNumTransitionExemptions
  by_cases h0 : e = 0
  · simp only [h0, if_true]
    constructor
    · intro h; cases h
    · intro h; omega
  · rw [if_neg h0]
    by_cases h1 : e > n / 2 + 1
    · rw [if_pos h1]
      constructor
      · intro h; cases h
      · intro h; omega
    · rw [if_neg h1]
      simp only
      by_cases h2 : (ds.any fun d => decide (n * ceBlowup ds - 1 + n < d.evalDegree n)) = true
      · rw [if_pos h2]
        constructor
        · intro h; cases h
        · rintro ⟨_, _, _, h⟩
          rw [List.any_eq_true] at h2
          obtain ⟨d, hd, hlt⟩ := h2
          have := h d hd
          simp only [decide_eq_true_eq] at hlt
          omega
      · rw [if_neg h2]
        rw [List.any_eq_true] at h2
        by_cases h3 : (ds.any fun d => decide (e > n * ceBlowup ds - 1 + n - d.evalDegree n)) = true
        · rw [if_pos h3]
          constructor
          · intro h; cases h
          · rintro ⟨_, _, _, h⟩
            rw [List.any_eq_true] at h3
            obtain ⟨d, hd, hlt⟩ := h3
            have := h d hd
            simp only [decide_eq_true_eq] at hlt
            omega
        · rw [if_neg h3]
          rw [List.any_eq_true] at h3
          simp only [Res.ok.injEq]
          constructor
          · intro h
            refine ⟨h.symm, by omega, by omega, fun d hd => ?_⟩
            have a1 : ¬ (n * ceBlowup ds - 1 + n < d.evalDegree n) := fun hh =>
              h2 ⟨d, hd, by simpa using hh⟩
            have a2 : ¬ (e > n * ceBlowup ds - 1 + n - d.evalDegree n) := fun hh =>
              h3 ⟨d, hd, by simpa using hh⟩
            omega
          · intro h; exact h.1.symm

/-- with transition constraints of degree ≤ 2 the degree condition never binds: accepted
    ⇔ `1 ≤ e ≤ n/2 + 1` (the bound stated by the property) -/
example (n e : ℕ) (hn : 8 ≤ n) : setNumTransitionExemptions n [⟨2, []⟩] e = .ok e ↔ 1 ≤ e ∧ e ≤ n / 2 + 1 := by
  rw [setNumTransitionExemptions_ok_iff]
  have hce : ceBlowup [⟨2, []⟩] = 2 := by decide
  simp only [List.mem_singleton, forall_eq, hce, true_and]
  have : (⟨2, []⟩ : Degree).evalDegree n = 2 * (n - 1) := rfl
  rw [this]
  constructor
  · intro h; exact ⟨h.1, h.2.1⟩
  · intro h; exact ⟨h.1, h.2, by omega⟩

/-- **divisor degrees**: the transition divisor has degree `n - e`, an assertion divisor has
    degree = number of named steps (both are parts of `transition_divisor_spec` /
    `assertion_divisor_zero_set`); with `e` accepted by `set_num_transition_exemptions` the
    transition divisor's degree is at least `n/2 - 1` -/
theorem transition_degree_bounds {root : ℕ → Option F} {g : F} {n e : ℕ} {ds : List Degree}
    (hroot : root (Nat.log2 n) = some g) (hn : 2 ≤ n)
    (hacc : setNumTransitionExemptions n ds e = .ok e) :
    ∃ d, fromTransition (fieldOps F root) n e = .ok d ∧ d.degree = .ok (n - e) ∧
      n / 2 - 1 ≤ n - e ∧ n - e ≤ n - 1 := by
  obtain ⟨_, h1, h2, _⟩ := (setNumTransitionExemptions_ok_iff n ds e e).mp hacc
  obtain ⟨d, hd, hdeg, _⟩ := transition_divisor_spec (F := F) hroot (show e ≤ n by omega)
  exact ⟨d, hd, hdeg, by omega, by omega⟩

example : ∃ d, fromTransition (fieldOps (ZMod 17) (fun _ => some 2)) 8 5 = .ok d ∧ d.degree = .ok (8 - 5) ∧
    8 / 2 - 1 ≤ 8 - 5 ∧ 8 - 5 ≤ 8 - 1 :=
  transition_degree_bounds (ds := [⟨1, []⟩]) rfl (by decide)
    ((setNumTransitionExemptions_ok_iff _ _ _ _).mpr ⟨rfl, by decide, by decide, by decide⟩)

-- ============================================================================================
-- grouping: the cells enforced by the grouped divisors are the cells named by the assertions
-- ============================================================================================

/-- **`group_constraints`, end to end.**  For well-formed assertions valid for the trace length,
    grouping succeeds, and a cell (column, step `i`) is enforced by the groups - some group lists the
    column and its (shared) divisor vanishes at `g^i` - exactly when some assertion names that cell. -/
theorem groupConstraints_cells {root : ℕ → Option F} {g : F} {n : ℕ} {as : List (Assertion F)} (hn : 0 < n)
    (hg : IsPrimitiveRoot g n) (hroot : root (Nat.log2 n) = some g)
    (hwf : ∀ a ∈ as, WF a) (hval : ∀ a ∈ as, a.validateTraceLength n = .ok ()) :
    ∃ groups, groupConstraints (fieldOps F root) as n = .ok groups ∧
      ∀ col i, i < n →
        ((∃ grp ∈ groups, col ∈ grp.columns ∧ grp.divisor.evalAt (fieldOps F root) (g ^ i) = some 0) ↔
          ∃ a ∈ as, a.column = col ∧ i ∈ a.stepList n) := by
  have hdiv : ∀ a ∈ as, ∃ d, fromAssertion (fieldOps F root) a n = .ok d := by
    intro a ha
    obtain ⟨d, hd, _⟩ := assertion_divisor_zero_set hn hg hroot (hwf a ha) (hval a ha)
    exact ⟨d, hd⟩
  obtain ⟨groups, hgr, h1, h2, h3⟩ := foldl_groupStep_inv (fieldOps F root) n as hdiv [] []
    ⟨by simp, by simp, by simp⟩
  rw [List.nil_append] at h1 h2 h3
  refine ⟨groups, by rw [groupConstraints_eq]; exact hgr, fun col i hi => ?_⟩
  -- the divisor of a group vanishes at g^i iff i is a step of any assertion with the group's key
  have hkey : ∀ grp ∈ groups, ∀ a ∈ as, a.stride = grp.stride → a.first = grp.first →
      (grp.divisor.evalAt (fieldOps F root) (g ^ i) = some 0 ↔ i ∈ a.stepList n) := by
    intro grp hgrp a ha e1 e2
    obtain ⟨a0, ha0, k1, k2, hd0⟩ := h1 grp hgrp
    obtain ⟨d, hd, _, _, _, hz⟩ := assertion_divisor_zero_set hn hg hroot (hwf a0 ha0) (hval a0 ha0)
    rw [hd0] at hd
    cases hd
    rw [hz i hi, same_key_same_steps (hwf a0 ha0) (hwf a ha) (hval a0 ha0) (hval a ha)
      (k1.trans e1.symm) (k2.trans e2.symm)]
  constructor
  · rintro ⟨grp, hgrp, hcol, hzero⟩
    obtain ⟨a, ha, e1, e2, e3⟩ := (h2 grp hgrp col).mp hcol
    exact ⟨a, ha, e3, (hkey grp hgrp a ha e1 e2).mp hzero⟩
  · rintro ⟨a, ha, hcol, hstep⟩
    obtain ⟨grp, hgrp, e1, e2⟩ := h3 a ha
    exact ⟨grp, hgrp, (h2 grp hgrp col).mpr ⟨a, ha, e1.symm, e2.symm, hcol⟩,
      (hkey grp hgrp a ha e1.symm e2.symm).mpr hstep⟩

/-- the hypotheses are satisfiable: two assertions in a trace of length 8 over ZMod 17 -/
example : ∃ groups, groupConstraints (fieldOps (ZMod 17) (fun _ => some 2))
      [⟨0, 1, 4, [5]⟩, ⟨1, 1, 4, [3, 6]⟩] 8 = .ok groups ∧
    ∀ col i, i < 8 →
      ((∃ grp ∈ groups, col ∈ grp.columns ∧
          grp.divisor.evalAt (fieldOps (ZMod 17) (fun _ => some 2)) ((2 : ZMod 17) ^ i) = some 0) ↔
        ∃ a ∈ ([⟨0, 1, 4, [5]⟩, ⟨1, 1, 4, [3, 6]⟩] : List (Assertion (ZMod 17))), a.column = col ∧ i ∈ a.stepList 8) :=
  groupConstraints_cells (by decide) two_primitive_zmod17 rfl
    (by
      intro a ha
      simp only [List.mem_cons, List.not_mem_nil, or_false] at ha
      rcases ha with rfl | rfl
      · exact Or.inr ⟨⟨2, rfl⟩, by decide, by decide, Or.inl rfl⟩
      · exact Or.inr ⟨⟨2, rfl⟩, by decide, by decide, Or.inr ⟨by decide, 1, rfl⟩⟩)
    (by
      intro a ha
      simp only [List.mem_cons, List.not_mem_nil, or_false] at ha
      rcases ha with rfl | rfl
      · exact (validateTraceLength_accepts_iff _ _).mpr ⟨⟨3, rfl⟩, by decide⟩
      · exact (validateTraceLength_accepts_iff _ _).mpr ⟨⟨3, rfl⟩, by decide⟩)

/-! ## tie T: the divisor code as regenerated from air/src/air/divisor.rs on this run

`Gen.Divisor.*` (Winter/Gen/Divisor.lean) is what translate/gen.py makes of `get_trace_domain_value_at`,
`ConstraintDivisor::new`, `from_transition`, `evaluate_exemptions_at` and `evaluate_at` on every run.  For EVERY
operations record of the model and all arguments the regenerated definitions are the model functions the
theorems above are about (not translated: `from_assertion`, `degree`). -/

/-- ★ `from_transition(n, e)`: numerator `[(n, 1)]` and the exemption points `g^(n-e) … g^(n-1)`; the model's
    `ok d` exactly when the regenerated no-panic condition holds (`e ≤ n`; every `get_trace_domain_value_at`
    call inside its assertions) and the regenerated constructor returns the two vectors of `d` -/
theorem gen_from_transition_eq_model {α : Type} (O : Ops α) (n e : Nat) (d : Divisor α) :
    fromTransition O n e = .ok d ↔
      (Gen.Divisor.from_transition_ok O.toX n e = true ∧
        Gen.Divisor.from_transition O.toX n e = (d.numerator, d.exemptions)) :=
  C16G.gen_from_transition O n e d

/-- ★ `get_trace_domain_value_at`, `evaluate_exemptions_at`, `evaluate_at` -/
theorem gen_divisor_eval_eq_model {α : Type} (O : Ops α) (n step : Nat) (v : α) (d : Divisor α) (x : α) :
    (traceDomainValueAt O n step = .ok v ↔
      (Gen.Divisor.get_trace_domain_value_at_ok O.toX n step = true ∧
        Gen.Divisor.get_trace_domain_value_at O.toX n step = v)) ∧
    Gen.Divisor.evaluate_exemptions_at O.toX d.exemptions x = d.evalExemptions O x ∧
    (d.evalAt O x).getD O.zero = Gen.Divisor.evaluate_at O.toX d.exemptions d.numerator x ∧
    Gen.Divisor.evaluate_at_ok O.toX d.exemptions d.numerator x = true :=
  ⟨C16G.gen_trace_domain_value_at O n step v, (C16G.gen_evaluate_exemptions_at O d x).1,
    (C16G.gen_evaluate_at O d x).1, (C16G.gen_evaluate_at O d x).2⟩

end WinterProofs.C16
