-- C13: the streaming byte reader (`ReadAdapter`) is equivalent to the in-memory reader (`SliceReader`).
--
-- Model: Winter/Model/Reader.lean (the adapter as repaired by the five `fix:` commits recorded in
-- known_findings.json).  Source model: the list of results of the successive `read` calls of the
-- underlying `std::io::Read` (`[]` = `Ok(0)`), arbitrary otherwise; `Fused` = the source honours the
-- `Read` end-of-stream contract (no byte after an `Ok(0)`).  Abstraction:
--     St.abs s = unread part of `buf` ++ unread part of the BufReader buffer ++ everything still in the source.
-- Definitions used in the statements (WinterProofs/Lemmas/C13*.lean):
--   Fused l      : no byte follows an empty chunk of l
--   Inv s        : Fused s.src ∧ pos ≤ |buf| ∧ (eofSeen → rbuf = [] ∧ source empty) ∧ (guaranteed_eof → eofSeen)
--   SInv t       : t.pos ≤ |t.source|
--   ResOK op a b : a = b, or op is a check_eor and a = ok, b = eof
--   AllOK ops as bs : as, bs have the length of ops and are related by ResOK position by position
--   Mem          : the in-memory reader written on the list of remaining bytes (Winter/Model/Reader.lean)
--   visible l    : the bytes of l before its first empty chunk;  absV s = buf[pos..] ++ rbuf ++ visible s.src
--   Live s       : pos ≤ |buf| ∧ no read has returned Ok(0) yet ∧ guaranteed_eof unset (nothing about the source)
--   endReported op r : r = eof, or op = has_more_bytes and r = false
--   AgreeUntilEnd ops as bs : as, bs related by ResOK position by position up to and including the first
--                  position where `as` reports the end
-- All theorems are for every chunking, every answer sequence of `has_remaining_capacity`, every operation
-- and every history, with no bound on sizes.
import Winter.Model.Reader
import WinterProofs.Lemmas.C13
import WinterProofs.Lemmas.C13Slice
import WinterProofs.Lemmas.C13NoPanic
import WinterProofs.Lemmas.C13Live

namespace WinterProofs.C13
open Model.Reader

-- ---------------------------------------------------------------------------------------------------
-- the hypotheses are satisfiable and reachable

/-- the initial state satisfies the invariant, and its abstraction is the whole stream -/
theorem initial_state (chunks : List (List Nat)) (orc : List Bool) (h : Fused chunks) :
    Inv (St.new chunks orc) ∧ (St.new chunks orc).abs = chunks.flatten :=
  ⟨inv_new chunks orc h, abs_new chunks orc⟩

/-- every chunking into non-empty reads, followed by any number of `Ok(0)` reads, is `Fused` -/
theorem fused_chunking (l : List (List Nat)) (k : Nat) (h : ∀ c ∈ l, c ≠ []) :
    Fused (l ++ List.replicate k []) :=
  fused_append l _ h (fused_of_flatten_nil _ (by simp))

example : Fused [[1, 2], [3], [4, 5, 6], [], []] := by decide
example : ¬ Fused [[1], [], [2]] := by decide
example : Inv (St.new [[1], [2, 3], [4]] [true, false]) := inv_new _ _ (by decide)
/-- a state in the middle of a history: one byte of `buf` consumed, two bytes in the BufReader, one chunk to come -/
example : Inv { src := [[5]], rbuf := [3, 4], buf := [1, 2], pos := 1 } :=
  ⟨by decide, by decide, by simp, by simp⟩

-- ---------------------------------------------------------------------------------------------------
-- refinement, one call

/-- ★ One call of any `ByteReader` method on the adapter, in any state satisfying the invariant, returns
    what the in-memory reader returns on the bytes `St.abs s` (for `check_eor`: the same, or `ok` instead of
    `eof`), the abstraction of the new state is exactly what the in-memory reader has left (so every byte
    is consumed exactly once, and a failed read consumes nothing), and the invariant is kept. -/
theorem adapter_step_refines (op : Op) (s : St) (hs : Inv s) :
    ResOK op (step St.reader op s).1 (step Mem op s.abs).1 ∧
      (step St.reader op s).2.abs = (step Mem op s.abs).2 ∧ Inv (step St.reader op s).2 :=
  step_refines adapter_refines_mem op s hs

/-- the model of `SliceReader` returns exactly (also for `check_eor`) what `Mem` returns on `source[pos..]` -/
theorem slice_step_exact (op : Op) (t : Slice) (ht : SInv t) :
    (step Slice.reader op t).1 = (step Mem op t.rest).1 ∧
      (step Slice.reader op t).2.rest = (step Mem op t.rest).2 ∧ SInv (step Slice.reader op t).2 := by
  obtain ⟨h1, h2, h3⟩ := step_refines slice_refines_mem op t ht
  refine ⟨?_, h2, h3⟩
  rcases h1 with h1 | ⟨⟨n, hn⟩, _, _⟩
  · exact h1
  · subst hn
    simp only [step]
    have he : Slice.reader.checkEor n t = Slice.checkEor t n := rfl
    rw [he, slice_checkEor_exact n t ht]

/-- ★ one call: adapter against `SliceReader`, from any pair of related states -/
theorem adapter_step_equiv_slice (op : Op) (s : St) (t : Slice) (hs : Inv s) (ht : SInv t)
    (hst : s.abs = t.rest) :
    ResOK op (step St.reader op s).1 (step Slice.reader op t).1 ∧
      (step St.reader op s).2.abs = (step Slice.reader op t).2.rest ∧
      Inv (step St.reader op s).2 ∧ SInv (step Slice.reader op t).2 := by
  obtain ⟨a1, a2, a3⟩ := adapter_step_refines op s hs
  obtain ⟨b1, b2, b3⟩ := slice_step_exact op t ht
  rw [hst] at a1 a2
  rw [← b1] at a1
  rw [← b2] at a2
  exact ⟨a1, a2, a3, b3⟩

-- ---------------------------------------------------------------------------------------------------
-- refinement, every history

theorem slice_run_exact : ∀ (ops : List Op) (t : Slice), SInv t →
    (run Slice.reader ops t).1 = (run Mem ops t.rest).1 ∧
      (run Slice.reader ops t).2.rest = (run Mem ops t.rest).2 ∧ SInv (run Slice.reader ops t).2
  | [], t, ht => ⟨rfl, rfl, ht⟩
  | op :: ops, t, ht => by
    obtain ⟨h1, h2, h3⟩ := slice_step_exact op t ht
    obtain ⟨r1, r2, r3⟩ := slice_run_exact ops (step Slice.reader op t).2 h3
    simp only [run]
    rw [h2] at r1 r2
    exact ⟨by rw [h1, r1], r2, r3⟩

/-- ★ Every history, from any pair of related states: all results related (`AllOK`: equal, except that
    `check_eor` may say `ok` where `SliceReader` says `eof`), and afterwards the adapter holds exactly the
    bytes `SliceReader` has left. -/
theorem adapter_run_equiv_slice (ops : List Op) (s : St) (t : Slice) (hs : Inv s) (ht : SInv t)
    (hst : s.abs = t.rest) :
    AllOK ops (run St.reader ops s).1 (run Slice.reader ops t).1 ∧
      (run St.reader ops s).2.abs = (run Slice.reader ops t).2.rest ∧ Inv (run St.reader ops s).2 := by
  obtain ⟨a1, a2, a3⟩ := run_refines adapter_refines_mem ops s hs
  obtain ⟨b1, b2, _⟩ := slice_run_exact ops t ht
  rw [hst] at a1 a2
  rw [← b1] at a1
  rw [← b2] at a2
  exact ⟨a1, a2, a3⟩

/-- ★★ The property: for every byte stream, every way a contract-abiding source splits it into reads,
    every behaviour of the allocator, and every history of operations, a fresh `ReadAdapter` returns what
    `SliceReader` returns on the same bytes, and both are left with the same unread bytes. -/
theorem adapter_equiv_slice (chunks : List (List Nat)) (orc : List Bool) (hf : Fused chunks)
    (ops : List Op) :
    AllOK ops (run St.reader ops (St.new chunks orc)).1 (run Slice.reader ops (Slice.new chunks.flatten)).1 ∧
      (run St.reader ops (St.new chunks orc)).2.abs = (run Slice.reader ops (Slice.new chunks.flatten)).2.rest :=
  have h := adapter_run_equiv_slice ops (St.new chunks orc) (Slice.new chunks.flatten)
    (inv_new chunks orc hf) (Nat.zero_le _) (by rw [abs_new]; rfl)
  ⟨h.1, h.2.1⟩

/-- ★ histories without `check_eor`: the two readers return literally the same list of results -/
theorem adapter_eq_slice_without_lookahead (chunks : List (List Nat)) (orc : List Bool) (hf : Fused chunks)
    (ops : List Op) (hno : ∀ op ∈ ops, ∀ n, op ≠ .checkEor n) :
    (run St.reader ops (St.new chunks orc)).1 = (run Slice.reader ops (Slice.new chunks.flatten)).1 :=
  allOK_eq ops _ _ hno (adapter_equiv_slice chunks orc hf ops).1

example : (∀ op ∈ [Op.readU16, Op.readSlice 3, Op.hasMore], ∀ n, op ≠ Op.checkEor n) := by
  intro op hop n
  simp at hop
  rcases hop with rfl | rfl | rfl <;> simp

/-- The hypothesis `Fused` cannot be dropped: a source that answers `Ok(0)` and later delivers more bytes is
    indistinguishable, at the moment of the `Ok(0)`, from one that has ended, and the adapter (like any
    `Read` consumer) reports the end. -/
theorem fused_is_necessary :
    ¬ (∀ (chunks : List (List Nat)) (ops : List Op),
        AllOK ops (run St.reader ops (St.new chunks [])).1 (run Slice.reader ops (Slice.new chunks.flatten)).1) :=
  fun h => by
    have := h [[1], [], [2]] [.readU8, .readU8, .readU8]
    have e1 : (run St.reader [.readU8, .readU8, .readU8] (St.new [[1], [], [2]] [])).1
        = [.ok (.nat 1), .eof, .ok (.nat 2)] := by decide
    have e2 : (run Slice.reader [.readU8, .readU8, .readU8] (Slice.new [[1], [], [2]].flatten)).1
        = [.ok (.nat 1), .ok (.nat 2), .eof] := by decide
    rw [e1, e2] at this
    simp [AllOK, ResOK] at this

-- ---------------------------------------------------------------------------------------------------
-- arbitrary sources, including ones that answer `Ok(0)` before their real end ("empty reads before EOF")

/-- ★ one call in any state in which no `Ok(0)` has been seen yet, over ANY source: the result is the
    in-memory reader's on the bytes held plus the bytes the source delivers before its first `Ok(0)`
    (`absV`), and unless the call reports the end of the stream the new state is again such a state and
    holds exactly what the in-memory reader has left -/
theorem adapter_step_any_source (op : Op) (s : St) (hs : Live s) :
    ResOK op (step St.reader op s).1 (step Mem op (absV s)).1 ∧
      (¬ endReported op (step St.reader op s).1 →
        absV (step St.reader op s).2 = (step Mem op (absV s)).2 ∧ Live (step St.reader op s).2) :=
  stepV op s hs

/-- ★★ No hypothesis on the source at all: for every list of read results (empty reads anywhere), every
    allocator behaviour and every history, a fresh adapter returns what `SliceReader` returns on the bytes
    delivered before the first `Ok(0)`, for every call up to and including the first one that reports the
    end of the stream (`UnexpectedEOF` or `has_more_bytes() = false`). What happens after that point on a
    source that then delivers more bytes is outside the property (`fused_is_necessary`). -/
theorem adapter_equiv_slice_until_end (chunks : List (List Nat)) (orc : List Bool) (ops : List Op) :
    AgreeUntilEnd ops (run St.reader ops (St.new chunks orc)).1
      (run Slice.reader ops (Slice.new (visible chunks))).1 := by
  have h := runV ops (St.new chunks orc) (live_new chunks orc)
  rw [absV_new] at h
  have hs := (slice_run_exact ops (Slice.new (visible chunks)) (Nat.zero_le _)).1
  have hr : (Slice.new (visible chunks)).rest = visible chunks := rfl
  rw [hr] at hs
  rw [hs]
  exact h

/-- for a contract-abiding source the visible bytes are the whole stream -/
theorem visible_eq_stream (chunks : List (List Nat)) (h : Fused chunks) : visible chunks = chunks.flatten :=
  visible_of_fused chunks h

example : visible [[1, 2], [3], [], [4]] = [1, 2, 3] := by decide
example : Live (St.new [[1], [], [2]] [true]) := live_new _ _

-- ---------------------------------------------------------------------------------------------------
-- each byte exactly once

/-- ★ a successful `read_slice(n)` returns the first `n` unread bytes and leaves exactly the others;
    a failing one leaves everything -/
theorem read_slice_partition (n : Nat) (s : St) (hs : Inv s) :
    (∀ bs, (St.readSlice s n).1 = .ok bs → bs ++ (St.readSlice s n).2.abs = s.abs ∧ bs.length = n) ∧
      ((St.readSlice s n).1 = .eof → (St.readSlice s n).2.abs = s.abs ∧ s.abs.length < n) := by
  obtain ⟨h1, h2, _⟩ := readSlice_refines n s hs
  rw [mem_readSlice] at h1 h2
  by_cases hl : s.abs.length < n
  · rw [if_pos hl] at h1 h2
    exact ⟨fun bs hb => (by rw [h1] at hb; cases hb), fun _ => ⟨h2, hl⟩⟩
  · rw [if_neg hl] at h1 h2
    refine ⟨fun bs hb => ?_, fun he => (by rw [h1] at he; cases he)⟩
    rw [h1] at hb
    cases hb
    rw [h2]
    exact ⟨List.take_append_drop n s.abs, by simp; omega⟩

/-- ★★ the property with the `BufReader` in the picture: whatever chunks the source would return, read
    through a buffer of any capacity -/
theorem adapter_equiv_slice_buffered (cap : Nat) (chunks : List (List Nat)) (orc : List Bool)
    (hf : Fused chunks) (ops : List Op) :
    AllOK ops (run St.reader ops (St.new (capSplit cap chunks) orc)).1
        (run Slice.reader ops (Slice.new chunks.flatten)).1 ∧
      (run St.reader ops (St.new (capSplit cap chunks) orc)).2.abs =
        (run Slice.reader ops (Slice.new chunks.flatten)).2.rest := by
  have := adapter_equiv_slice (capSplit cap chunks) orc (fused_capSplit cap chunks hf) ops
  rw [capSplit_flatten] at this
  exact this

-- ---------------------------------------------------------------------------------------------------
-- the look-ahead

/-- ★ `check_eor` never reports missing data that is available -/
theorem check_eor_never_pessimistic (n : Nat) (s : St) (hs : Inv s) (h : (St.checkEor s n).1 = .eof) :
    s.abs.length < n := by
  rcases (checkEor_spec n s hs).2.2 with h' | h'
  · rw [h'] at h; cases h
  · exact h'.2

/-- `check_eor(n)` succeeds whenever `n` bytes are left, and it consumes nothing either way -/
theorem check_eor_ok_when_available (n : Nat) (s : St) (hs : Inv s) (h : n ≤ s.abs.length) :
    (St.checkEor s n).1 = .ok () ∧ (St.checkEor s n).2.abs = s.abs := by
  obtain ⟨h1, _, h3⟩ := checkEor_spec n s hs
  refine ⟨?_, h1⟩
  rcases h3 with h3 | h3
  · exact h3
  · omega

/-- ★ `check_eor` is optimistic (`ok` although fewer than `n` bytes are left) only while the end of the
    stream has not been observed: afterwards no read of the source has returned `Ok(0)` yet, `guaranteed_eof`
    is unset, and the bytes pulled out of the source so far are fewer than `n` -/
theorem check_eor_optimistic_only_before_eof (n : Nat) (s : St) (hs : Inv s)
    (hok : (St.checkEor s n).1 = .ok ()) (hshort : s.abs.length < n) :
    (St.checkEor s n).2.eofSeen = false ∧ (St.checkEor s n).2.geof = false ∧
      (St.checkEor s n).2.unread.length + (St.checkEor s n).2.rbuf.length < n := by
  have habs : s.abs.length = s.unread.length + ((St.fill s).rbuf.length + (St.fill s).src.flatten.length) := by
    rw [← fill_abs]; simp [St.abs, fill_unread]
  have hf := fill_inv s hs
  unfold St.checkEor at hok ⊢
  simp only at hok ⊢
  split
  · omega
  · rename_i h1
    rw [if_neg h1] at hok
    split
    · rename_i h2; rw [if_pos h2] at hok; cases hok
    · rename_i h2
      split
      · omega
      · rename_i h3
        rw [if_neg h2, if_neg h3] at hok
        split
        · rename_i h4; rw [if_pos h4] at hok; cases hok
        · rename_i h4
          have hne : (St.fill s).rbuf ≠ [] := by simpa using h2
          refine ⟨?_, by simpa using h4, ?_⟩
          · cases he : (St.fill s).eofSeen
            · rfl
            · exact absurd (hf.eof he).1 hne
          · dsimp only
            rw [fill_unread]; omega

/-- the optimistic case exists: 2 bytes in the stream, 1 of them read from the source so far, `check_eor(3)` -/
example : (St.checkEor (St.new [[1], [2]]) 3).1 = .ok () ∧ (St.new [[1], [2]]).abs.length < 3 := by decide

/-- once the end of the stream has been observed `check_eor` is exact -/
theorem check_eor_exact_after_eof (n : Nat) (s : St) (hs : Inv s) (he : s.eofSeen = true) :
    (St.checkEor s n).1 = (Mem.checkEor n s.abs).1 := by
  rw [mem_checkEor]
  rcases (checkEor_spec n s hs).2.2 with h | h
  · by_cases hl : s.abs.length < n
    · have := check_eor_optimistic_only_before_eof n s hs h hl
      have hmono : (St.checkEor s n).2.eofSeen = true := by
        unfold St.checkEor
        simp only
        have hfe : (St.fill s).eofSeen = true := by
          unfold St.fill
          split
          · split <;> simp [he]
          · exact he
        split
        · exact he
        · split
          · exact hfe
          · split
            · exact hfe
            · split <;> exact hfe
      rw [hmono] at this
      cases this.1
    · rw [if_neg hl]; exact h
  · rw [if_pos h.2]; exact h.1

-- ---------------------------------------------------------------------------------------------------
-- no panic, termination

/-- the loop of `buffer_at_least` terminates within the fuel the model gives it, for every source -/
theorem buffer_at_least_terminates (n : Nat) (s : St) (hs : Inv s) :
    (St.bufferAtLeast s n).1 = .ok () ∨ (St.bufferAtLeast s n).1 = .eof := by
  rcases (bufferAtLeast_spec s n hs).2.2.2 with h | h
  · exact Or.inl h.1
  · exact Or.inr h.1

/-- ★ no call on the adapter panics (no index out of bounds, no failed `debug_assert!`, no `unreachable!`)
    and no modelled loop runs out of fuel, in any state satisfying the invariant -/
theorem adapter_step_never_panics (op : Op) (s : St) (hs : Inv s) : (step St.reader op s).1 ≠ .panic := by
  obtain ⟨h1, _, _⟩ := adapter_step_refines op s hs
  have hm := mem_step_noPanic op s.abs
  rcases h1 with h1 | ⟨_, h1, _⟩
  · rw [h1]; exact hm
  · rw [h1]; simp

/-- ★ no history panics -/
theorem adapter_never_panics (chunks : List (List Nat)) (orc : List Bool) (hf : Fused chunks) :
    ∀ (ops : List Op), ∀ r ∈ (run St.reader ops (St.new chunks orc)).1, r ≠ .panic := by
  have gen : ∀ (ops : List Op) (s : St), Inv s → ∀ r ∈ (run St.reader ops s).1, r ≠ .panic := by
    intro ops
    induction ops with
    | nil => intro s _ r hr; simp [run] at hr
    | cons op ops ih =>
      intro s hs r hr
      simp only [run, List.mem_cons] at hr
      rcases hr with hr | hr
      · rw [hr]; exact adapter_step_never_panics op s hs
      · exact ih _ (adapter_step_refines op s hs).2.2 r hr
  exact fun ops => gen ops _ (inv_new chunks orc hf)

-- ---------------------------------------------------------------------------------------------------
-- the histories on which the pinned tree failed, on the model of the repaired code

/-- `read_u16` over 1-byte reads (was `UnexpectedEOF`), twice `read_slice(1)` (returned the same byte
    twice), `read_slice(4)` over 1-byte reads of a 3-byte stream (panicked) -/
example : (run St.reader [.readU16, .readU8, .readU8] (St.new [[160], [165], [130]])).1
    = [.ok (.nat 42400), .ok (.nat 130), .eof] := by decide
example : (run St.reader [.readSlice 1, .readSlice 1, .readSlice 1] (St.new [[160], [165]])).1
    = [.ok (.bytes [160]), .ok (.bytes [165]), .eof] := by decide
example : (run St.reader [.readSlice 4, .readSlice 3] (St.new [[160], [165], [130]])).1
    = [.eof, .ok (.bytes [160, 165, 130])] := by decide
/-- `read_usize; read_slice(1); read_u16; read_usize` over 2-byte reads (bytes were skipped after the reset) -/
example : (run St.reader [.readUsize, .readSlice 1, .readU16, .readUsize, .hasMore]
      (St.new [[3, 8], [194, 60], [120, 110], [172, 86]])).1
    = [.ok (.nat 1), .ok (.bytes [8]), .ok (.nat 15554), .ok (.nat 90883815), .ok (.bool false)] := by decide

end WinterProofs.C13
