-- C17: the committed constraint composition polynomial equals its definition.
-- Theorems about the executable model `Winter/Model/Composition.lean` (tied to the Rust code by the
-- correspondence run of harness/src/bin/c17.rs: the driver's definition, prover pipeline and verifier
-- expression against the real evaluator / CompositionPoly / verifier pieces) instantiated with an
-- arbitrary Mathlib field; trace lengths, widths, constraint sets and assertion sets are unbounded.
import Mathlib.Algebra.Field.ZMod
import WinterProofs.Lemmas.C17Basic

namespace WinterProofs.C17
open Model.Divisor Model.Composition WinterProofs.C16L WinterProofs.C17L

variable {F : Type} [Field F]

instance fact17 : Fact (Nat.Prime 17) := ⟨by decide⟩

-- ============================================================================================
-- (d) column split  H(X) = Σ_i X^(i·n) H_i(X)  and the OOD recombination
-- ============================================================================================

/-- **column split.**  For every coefficient list `c`, trace length `n` and column count `k`, the
    verifier's recombination `Σ_i z^(i·n) · H_i(z)` of the values `CompositionPoly::evaluate_at(z)`
    returns for the columns `segment(c, n, k)` is the polynomial of the first `n·k` coefficients at `z`. -/
theorem column_split (root : ℕ → Option F) (n k : ℕ) (c : List F) (z : F) :
    recombine (fieldOps F root) n z (evaluateAt (fieldOps F root) (chunks n k c) z)
      = polyEval (fieldOps F root) (c.take (n * k)) z := by
  rw [recombine_eq_sum, evaluateAt, List.length_map, chunks_length]
  exact column_split_sum root n k c z

/-- when the polynomial has at most `n·k` coefficients (its degree is below `n·k`, see
    `quotient_degree_lt_columns`), nothing is lost: `H(z) = Σ_i z^(i·n) H_i(z)` -/
theorem column_split_full (root : ℕ → Option F) (n k : ℕ) (c : List F) (z : F) (hc : c.length ≤ n * k) :
    recombine (fieldOps F root) n z (evaluateAt (fieldOps F root) (chunks n k c) z)
      = polyEval (fieldOps F root) c z := by
  rw [column_split, List.take_of_length_le hc]

example : recombine (fieldOps (ZMod 17) (fun _ => none)) 2 (3 : ZMod 17)
    (evaluateAt (fieldOps (ZMod 17) (fun _ => none)) (chunks 2 2 [1, 2, 3, 4]) 3)
    = polyEval (fieldOps (ZMod 17) (fun _ => none)) [1, 2, 3, 4] 3 :=
  column_split_full _ 2 2 _ 3 (by decide)

-- ============================================================================================
-- (c) the drawn coefficients are partitioned into transition | boundary | rest, main | aux
-- ============================================================================================
section Coefficients
variable {α : Type}

/-- `get_constraint_composition_coefficients` hands the drawn elements out in order and without
    overlap: transition coefficients, boundary coefficients, the rest (Lagrange kernel) -/
theorem coefficients_partition (draws : List α) (nt nb : ℕ) :
    (drawCoefficients draws nt nb).1 ++ (drawCoefficients draws nt nb).2.1 ++ (drawCoefficients draws nt nb).2.2
      = draws := by
  simp only [drawCoefficients]
  rw [List.append_assoc, ← List.drop_drop, List.take_append_drop, List.take_append_drop]

/-- position by position: main transition constraint `i` gets draw `i`, auxiliary transition
    constraint `j` draw `nm + j`, main assertion `i` (in sorted order) draw `nm + na + i`, auxiliary
    assertion `j` draw `nm + na + bm + j` -/
theorem coefficient_ranges (draws : List α) (nm na bm ba : ℕ) :
    let c := drawCoefficients draws (nm + na) (bm + ba)
    let t := splitTransition c.1 nm
    let b := splitBoundary c.2.1 bm
    (∀ i < nm, t.1[i]? = draws[i]?) ∧ (∀ j < na, t.2[j]? = draws[nm + j]?) ∧
    (∀ i < bm, b.1[i]? = draws[nm + na + i]?) ∧ (∀ j < ba, b.2[j]? = draws[nm + na + bm + j]?) := by
  simp only [drawCoefficients, splitTransition, splitBoundary]
  refine ⟨fun i hi => ?_, fun j hj => ?_, fun i hi => ?_, fun j hj => ?_⟩
  · rw [List.take_take, List.getElem?_take]; simp; omega
  · rw [List.getElem?_drop, List.getElem?_take]; simp; omega
  · rw [List.take_take, List.getElem?_take, List.getElem?_drop]; simp; omega
  · rw [List.getElem?_drop, List.getElem?_take, List.getElem?_drop]
    have : bm + j < bm + ba := by omega
    simp [this, Nat.add_assoc]

/-- the two halves of each split are the whole and have the expected sizes -/
theorem split_sizes (draws : List α) (nm na bm ba : ℕ) (h : nm + na + (bm + ba) ≤ draws.length) :
    let c := drawCoefficients draws (nm + na) (bm + ba)
    (splitTransition c.1 nm).1.length = nm ∧ (splitTransition c.1 nm).2.length = na ∧
    (splitBoundary c.2.1 bm).1.length = bm ∧ (splitBoundary c.2.1 bm).2.length = ba ∧
    (splitTransition c.1 nm).1 ++ (splitTransition c.1 nm).2 = c.1 ∧
    (splitBoundary c.2.1 bm).1 ++ (splitBoundary c.2.1 bm).2 = c.2.1 := by
  simp only [drawCoefficients, splitTransition, splitBoundary]
  refine ⟨?_, ?_, ?_, ?_, List.take_append_drop _ _, List.take_append_drop _ _⟩ <;>
    simp only [List.length_take, List.length_drop] <;> omega

example : drawCoefficients [1, 2, 3, 4, 5, 6, 7] 3 2 = ([1, 2, 3], [4, 5], [6, 7]) := rfl

end Coefficients

-- ============================================================================================
-- (g) degree bookkeeping of `TransitionConstraintDegree` (integer arithmetic)
-- ============================================================================================

/-- `get_evaluation_degree` is at most `(base + #cycles)·(n − 1)` -/
theorem evalDegree_le (d : Degree) (n : ℕ) (hn : 1 ≤ n) :
    d.evalDegree n ≤ (d.base + d.cycles.length) * (n - 1) := by
  unfold Degree.evalDegree
  rw [foldl_evalDegree, Nat.add_mul]
  apply Nat.add_le_add_left
  induction d.cycles with
  | nil => simp
  | cons c cs ih =>
    simp only [List.map_cons, List.sum_cons, List.length_cons, Nat.succ_mul]
    have := cycle_term_le n c hn
    omega

/-- with the default single exemption, the quotient of every declared transition constraint by the
    transition divisor (degree `n − 1`) has degree below the constraint evaluation domain size
    `n · ce_blowup_factor` -/
theorem quotient_degree_lt_ce_default {n : ℕ} (hn : 1 ≤ n) (ds : List Degree) :
    ∀ d ∈ ds, d.evalDegree n - (n - 1) < n * ceBlowup ds := by
  intro d hd
  have h1 := evalDegree_le d n hn
  have h2 := ceBlowup_ge ds d hd
  have h3 : max (nextPow2 (d.base + d.cycles.length - 1)) 2 ≤ ceBlowup ds := h2
  have h4 := le_nextPow2 (d.base + d.cycles.length - 1)
  generalize ceBlowup ds = B at *
  generalize d.base + d.cycles.length = m at *
  generalize d.evalDegree n = E at *
  have hB : 2 ≤ B ∧ m - 1 ≤ B := by omega
  rcases Nat.eq_zero_or_pos (m - 1) with hm | hm
  · have : m * (n - 1) ≤ n - 1 := by
      have : m ≤ 1 := by omega
      calc m * (n - 1) ≤ 1 * (n - 1) := Nat.mul_le_mul_right _ this
        _ = n - 1 := Nat.one_mul _
    have : 0 < n * B := Nat.mul_pos hn (by omega)
    omega
  · have e1 : m * (n - 1) = (m - 1) * (n - 1) + (n - 1) := by
      conv_lhs => rw [show m = (m - 1) + 1 by omega]
      rw [Nat.add_mul, Nat.one_mul]
    have e2 : (m - 1) * (n - 1) + (m - 1) = (m - 1) * n := by
      conv_rhs => rw [show n = (n - 1) + 1 by omega]
      rw [Nat.mul_add, Nat.mul_one]
    have e3 : (m - 1) * n ≤ n * B := by rw [Nat.mul_comm n B]; exact Nat.mul_le_mul_right _ hB.2
    omega

/-- with an accepted number `e` of exemptions (`set_num_transition_exemptions`, C16), the same -/
theorem quotient_degree_lt_ce {n e : ℕ} {ds : List Degree} (hn : 2 ≤ n)
    (h : setNumTransitionExemptions n ds e = .ok e) :
    ∀ d ∈ ds, d.evalDegree n - (n - e) < n * ceBlowup ds := by
  obtain ⟨h0, h1, h2⟩ := exemptions_ok_bound h
  intro d hd
  have hb := h2 d hd
  have h3 := ceBlowup_ge ds d hd
  have h4 : 2 ≤ ceBlowup ds := le_trans (le_max_right _ _) h3
  have : 2 * 2 ≤ n * ceBlowup ds := Nat.mul_le_mul hn h4
  omega

/-- the number of composition columns is enough for every transition quotient … -/
theorem quotient_degree_lt_columns (ds : List Degree) (n e : ℕ) (hn : 0 < n) :
    ∀ d ∈ ds, d.evalDegree n - (n - e) < n * numCompositionColumns ds n e := by
  intro d hd
  unfold numCompositionColumns
  have hmax := (foldl_max_ge (fun d => d.evalDegree n) ds 0).2 d hd
  simp only at hmax ⊢
  generalize ds.foldl (fun h d => if d.evalDegree n > h then d.evalDegree n else h) 0 = H at *
  have h1 : H - (n - e) < n * ((H - (n - e)) / n + 1) := Nat.lt_mul_div_succ _ hn
  have h2 : n * ((H - (n - e)) / n + 1) ≤ n * max ((H - (n - e)) / n + 1) 1 :=
    Nat.mul_le_mul_left _ (le_max_left _ _)
  omega

/-- … and never exceeds the constraint evaluation blowup, so that every column of
    `segment(coefficients, n, k)` is a full chunk of `n` coefficients -/
theorem columns_le_blowup (ds : List Degree) (n e B : ℕ) (hn : 0 < n) (hB : 1 ≤ B)
    (h : ∀ d ∈ ds, d.evalDegree n - (n - e) < n * B) :
    numCompositionColumns ds n e ≤ B := by
  unfold numCompositionColumns
  simp only
  have hH : ds.foldl (fun h d => if d.evalDegree n > h then d.evalDegree n else h) 0 - (n - e) < n * B := by
    rcases foldl_max_mem (fun d => d.evalDegree n) ds 0 with h0 | ⟨d, hd, hm⟩
    · rw [h0]
      have : 0 < n * B := Nat.mul_pos hn hB
      omega
    · rw [hm]; exact h d hd
  generalize ds.foldl (fun h d => if d.evalDegree n > h then d.evalDegree n else h) 0 = H at *
  have : (H - (n - e)) / n < B := (Nat.div_lt_iff_lt_mul hn).mpr (by rw [Nat.mul_comm]; exact hH)
  exact max_le (by omega) hB

example : numCompositionColumns [⟨2, []⟩, ⟨3, [4]⟩] 8 1 = 3 ∧ ceBlowup [⟨2, []⟩, ⟨3, [4]⟩] = 4 := by decide

end WinterProofs.C17
