-- C17: the committed constraint composition polynomial equals its definition.
-- Theorems about the executable model `Winter/Model/Composition.lean` (tied to the Rust code by the
-- correspondence run of harness/src/bin/c17.rs: the driver's definition, prover pipeline and verifier
-- expression against the real evaluator / CompositionPoly / verifier pieces) instantiated with an
-- arbitrary Mathlib field; trace lengths, widths, constraint sets and assertion sets are unbounded.
import Mathlib.Algebra.Field.ZMod
import WinterProofs.Lemmas.C17Bridge
import WinterProofs.Lemmas.C17C01

namespace WinterProofs.C17
open Model.Divisor Model.Composition WinterProofs.C16L WinterProofs.C17L Polynomial

variable {F : Type} [Field F]

instance fact17 : Fact (Nat.Prime 17) := ⟨by decide⟩

-- ============================================================================================
-- (d) column split  H(X) = Σ_i X^(i·n) H_i(X)  and the OOD recombination
-- ============================================================================================

/-- **column split.**  For every coefficient list `c`, trace length `n` and column count `k`, the
    verifier's recombination `Σ_i z^(i·n) · H_i(z)` of the values `CompositionPoly::evaluate_at(z)`
    returns for the columns `segment(c, n, k)` is the polynomial of the first `n·k` coefficients at `z`. -/
theorem column_split (root : ℕ → Option F) (n k : ℕ) (c : List F) (z : F) :
    recombine (fieldOps F root) n z (evaluateAt (fieldOps F root) (chunks n k c) z)
      = polyEval (fieldOps F root) (c.take (n * k)) z := by
  rw [recombine_eq_sum, evaluateAt, List.length_map, chunks_length]
  exact column_split_sum root n k c z

/-- when the polynomial has at most `n·k` coefficients (its degree is below `n·k`, see
    `quotient_degree_lt_columns`), nothing is lost: `H(z) = Σ_i z^(i·n) H_i(z)` -/
theorem column_split_full (root : ℕ → Option F) (n k : ℕ) (c : List F) (z : F) (hc : c.length ≤ n * k) :
    recombine (fieldOps F root) n z (evaluateAt (fieldOps F root) (chunks n k c) z)
      = polyEval (fieldOps F root) c z := by
  rw [column_split, List.take_of_length_le hc]

example : recombine (fieldOps (ZMod 17) (fun _ => none)) 2 (3 : ZMod 17)
    (evaluateAt (fieldOps (ZMod 17) (fun _ => none)) (chunks 2 2 [1, 2, 3, 4]) 3)
    = polyEval (fieldOps (ZMod 17) (fun _ => none)) [1, 2, 3, 4] 3 :=
  column_split_full _ 2 2 _ 3 (by decide)

-- ============================================================================================
-- (c) the drawn coefficients are partitioned into transition | boundary | rest, main | aux
-- ============================================================================================
section Coefficients
variable {α : Type}

/-- `get_constraint_composition_coefficients` hands the drawn elements out in order and without
    overlap: transition coefficients, boundary coefficients, the rest (Lagrange kernel) -/
theorem coefficients_partition (draws : List α) (nt nb : ℕ) :
    (drawCoefficients draws nt nb).1 ++ (drawCoefficients draws nt nb).2.1 ++ (drawCoefficients draws nt nb).2.2
      = draws := by
  simp only [drawCoefficients]
  rw [List.append_assoc, ← List.drop_drop, List.take_append_drop, List.take_append_drop]

/-- position by position: main transition constraint `i` gets draw `i`, auxiliary transition
    constraint `j` draw `nm + j`, main assertion `i` (in sorted order) draw `nm + na + i`, auxiliary
    assertion `j` draw `nm + na + bm + j` -/
theorem coefficient_ranges (draws : List α) (nm na bm ba : ℕ) :
    let c := drawCoefficients draws (nm + na) (bm + ba)
    let t := splitTransition c.1 nm
    let b := splitBoundary c.2.1 bm
    (∀ i < nm, t.1[i]? = draws[i]?) ∧ (∀ j < na, t.2[j]? = draws[nm + j]?) ∧
    (∀ i < bm, b.1[i]? = draws[nm + na + i]?) ∧ (∀ j < ba, b.2[j]? = draws[nm + na + bm + j]?) := by
  simp only [drawCoefficients, splitTransition, splitBoundary]
  refine ⟨fun i hi => ?_, fun j hj => ?_, fun i hi => ?_, fun j hj => ?_⟩
  · rw [List.take_take, List.getElem?_take]; simp; omega
  · rw [List.getElem?_drop, List.getElem?_take]; simp; omega
  · rw [List.take_take, List.getElem?_take, List.getElem?_drop]; simp; omega
  · rw [List.getElem?_drop, List.getElem?_take, List.getElem?_drop]
    have : bm + j < bm + ba := by omega
    simp [this, Nat.add_assoc]

/-- the two halves of each split are the whole and have the expected sizes -/
theorem split_sizes (draws : List α) (nm na bm ba : ℕ) (h : nm + na + (bm + ba) ≤ draws.length) :
    let c := drawCoefficients draws (nm + na) (bm + ba)
    (splitTransition c.1 nm).1.length = nm ∧ (splitTransition c.1 nm).2.length = na ∧
    (splitBoundary c.2.1 bm).1.length = bm ∧ (splitBoundary c.2.1 bm).2.length = ba ∧
    (splitTransition c.1 nm).1 ++ (splitTransition c.1 nm).2 = c.1 ∧
    (splitBoundary c.2.1 bm).1 ++ (splitBoundary c.2.1 bm).2 = c.2.1 := by
  simp only [drawCoefficients, splitTransition, splitBoundary]
  refine ⟨?_, ?_, ?_, ?_, List.take_append_drop _ _, List.take_append_drop _ _⟩ <;>
    simp only [List.length_take, List.length_drop] <;> omega

example : drawCoefficients [1, 2, 3, 4, 5, 6, 7] 3 2 = ([1, 2, 3], [4, 5], [6, 7]) := rfl

end Coefficients

-- ============================================================================================
-- (g) degree bookkeeping of `TransitionConstraintDegree` (integer arithmetic)
-- ============================================================================================

/-- `get_evaluation_degree` is at most `(base + #cycles)·(n − 1)` -/
theorem evalDegree_le (d : Degree) (n : ℕ) (hn : 1 ≤ n) :
    d.evalDegree n ≤ (d.base + d.cycles.length) * (n - 1) := by
  unfold Degree.evalDegree
  rw [foldl_evalDegree, Nat.add_mul]
  apply Nat.add_le_add_left
  induction d.cycles with
  | nil => simp
  | cons c cs ih =>
    simp only [List.map_cons, List.sum_cons, List.length_cons, Nat.succ_mul]
    have := cycle_term_le n c hn
    omega

/-- with the default single exemption, the quotient of every declared transition constraint by the
    transition divisor (degree `n − 1`) has degree below the constraint evaluation domain size
    `n · ce_blowup_factor` -/
theorem quotient_degree_lt_ce_default {n : ℕ} (hn : 1 ≤ n) (ds : List Degree) :
    ∀ d ∈ ds, d.evalDegree n - (n - 1) < n * ceBlowup ds := by
  intro d hd
  have h1 := evalDegree_le d n hn
  have h2 := ceBlowup_ge ds d hd
  have h3 : max (nextPow2 (d.base + d.cycles.length - 1)) 2 ≤ ceBlowup ds := h2
  have h4 := le_nextPow2 (d.base + d.cycles.length - 1)
  generalize ceBlowup ds = B at *
  generalize d.base + d.cycles.length = m at *
  generalize d.evalDegree n = E at *
  have hB : 2 ≤ B ∧ m - 1 ≤ B := by omega
  rcases Nat.eq_zero_or_pos (m - 1) with hm | hm
  · have : m * (n - 1) ≤ n - 1 := by
      have : m ≤ 1 := by omega
      calc m * (n - 1) ≤ 1 * (n - 1) := Nat.mul_le_mul_right _ this
        _ = n - 1 := Nat.one_mul _
    have : 0 < n * B := Nat.mul_pos hn (by omega)
    omega
  · have e1 : m * (n - 1) = (m - 1) * (n - 1) + (n - 1) := by
      conv_lhs => rw [show m = (m - 1) + 1 by omega]
      rw [Nat.add_mul, Nat.one_mul]
    have e2 : (m - 1) * (n - 1) + (m - 1) = (m - 1) * n := by
      conv_rhs => rw [show n = (n - 1) + 1 by omega]
      rw [Nat.mul_add, Nat.mul_one]
    have e3 : (m - 1) * n ≤ n * B := by rw [Nat.mul_comm n B]; exact Nat.mul_le_mul_right _ hB.2
    omega

/-- with an accepted number `e` of exemptions (`set_num_transition_exemptions`, C16), the same -/
theorem quotient_degree_lt_ce {n e : ℕ} {ds : List Degree} (hn : 2 ≤ n)
    (h : setNumTransitionExemptions n ds e = .ok e) :
    ∀ d ∈ ds, d.evalDegree n - (n - e) < n * ceBlowup ds := by
  obtain ⟨h0, h1, h2⟩ := exemptions_ok_bound h
  intro d hd
  have hb := h2 d hd
  have h3 := ceBlowup_ge ds d hd
  have h4 : 2 ≤ ceBlowup ds := le_trans (le_max_right _ _) h3
  have : 2 * 2 ≤ n * ceBlowup ds := Nat.mul_le_mul hn h4
  omega

example : setNumTransitionExemptions 8 [⟨2, []⟩, ⟨3, [4]⟩] 3 = .ok 3 := by rfl

/-- the number of composition columns is enough for every transition quotient … -/
theorem quotient_degree_lt_columns (ds : List Degree) (n e : ℕ) (hn : 0 < n) :
    ∀ d ∈ ds, d.evalDegree n - (n - e) < n * numCompColumns ds n e := by
  intro d hd
  unfold numCompColumns
  have hmax := (foldl_max_ge (fun d => d.evalDegree n) ds 0).2 d hd
  simp only at hmax ⊢
  generalize ds.foldl (fun h d => if d.evalDegree n > h then d.evalDegree n else h) 0 = H at *
  have h1 : H - (n - e) < n * ((H - (n - e)) / n + 1) := Nat.lt_mul_div_succ _ hn
  have h2 : n * ((H - (n - e)) / n + 1) ≤ n * max ((H - (n - e)) / n + 1) 1 :=
    Nat.mul_le_mul_left _ (le_max_left _ _)
  omega

/-- … and never exceeds the constraint evaluation blowup, so that every column of
    `segment(coefficients, n, k)` is a full chunk of `n` coefficients -/
theorem columns_le_blowup (ds : List Degree) (n e B : ℕ) (hn : 0 < n) (hB : 1 ≤ B)
    (h : ∀ d ∈ ds, d.evalDegree n - (n - e) < n * B) :
    numCompColumns ds n e ≤ B := by
  unfold numCompColumns
  simp only
  have hH : ds.foldl (fun h d => if d.evalDegree n > h then d.evalDegree n else h) 0 - (n - e) < n * B := by
    rcases foldl_max_mem (fun d => d.evalDegree n) ds 0 with h0 | ⟨d, hd, hm⟩
    · rw [h0]
      have : 0 < n * B := Nat.mul_pos hn hB
      omega
    · rw [hm]; exact h d hd
  generalize ds.foldl (fun h d => if d.evalDegree n > h then d.evalDegree n else h) 0 = H at *
  have : (H - (n - e)) / n < B := (Nat.div_lt_iff_lt_mul hn).mpr (by rw [Nat.mul_comm]; exact hH)
  exact max_le (by omega) hB

example : numCompColumns [⟨2, []⟩, ⟨3, [4]⟩] 8 1 = 3 ∧ ceBlowup [⟨2, []⟩, ⟨3, [4]⟩] = 4 := by decide

-- ============================================================================================
-- (a) the three boundary-constraint representations of the prover
-- ============================================================================================

/-- 3 has exact order 16 in ZMod 17 (the concrete domain of the examples: n = 8, ce blowup 2) -/
theorem three_primitive_zmod17 : IsPrimitiveRoot (3 : ZMod 17) 16 :=
  IsPrimitiveRoot.mk_of_lt _ (by decide) (by decide) (fun l h0 h16 =>
    (by decide : ∀ l : Fin 16, 0 < l.val → (3 : ZMod 17) ^ l.val ≠ 1) ⟨l, h16⟩ h0)

/-- the example domain: trace length 8, constraint evaluation blowup 2, LDE blowup 2, offset 5,
    generators 3 (order 16) -/
def exDomain : Domain (ZMod 17) := ⟨8, 2, 2, 5, 3, 3⟩

/-- **the three representations agree with the value polynomial.**  Whatever representation
    `SingleValue / SmallPoly / LargePoly` the prover chooses for a boundary constraint `c` (for ANY
    threshold at which it switches), its evaluation at step `i` of the constraint evaluation domain is
    `state[column] − b(x_i)` with `b` the constraint's value polynomial at the shifted point
    `x_i·offset_elem` (`BoundaryConstraint::evaluate_at`, characterised by C16).  For `LargePoly` this is
    the index identity: entry `(i − first·ce_blowup) mod N` of the pre-computed table equals `b(x_i·g^(-first))`. -/
theorem boundary_representations_agree {root : ℕ → Option F} (D : Domain F) (threshold : ℕ)
    (c : BConstraint F) (r : BRepr F) (hok : ReprOK root D c)
    (hr : BRepr.ofConstraint (fieldOps F root) D threshold c = some r)
    (state : ℕ → F) (step : ℕ) (hstep : step < D.ceSize) :
    r.evaluate (fieldOps F root) state step (D.ceX (fieldOps F root) step)
      = some (c.evalAt (fieldOps F root) (D.ceX (fieldOps F root) step) (state c.column)) :=
  boundary_repr_value root D threshold c r hok hr state step hstep

/-- **the representation switch is irrelevant to the value**: two evaluators that switch at
    different sizes (e.g. the code's 63 and any other) compute the same numerator at every step -/
theorem representation_switch_irrelevant {root : ℕ → Option F} (D : Domain F) (t1 t2 : ℕ)
    (c : BConstraint F) (r1 r2 : BRepr F) (hok : ReprOK root D c)
    (h1 : BRepr.ofConstraint (fieldOps F root) D t1 c = some r1)
    (h2 : BRepr.ofConstraint (fieldOps F root) D t2 c = some r2)
    (state : ℕ → F) (step : ℕ) (hstep : step < D.ceSize) :
    r1.evaluate (fieldOps F root) state step (D.ceX (fieldOps F root) step)
      = r2.evaluate (fieldOps F root) state step (D.ceX (fieldOps F root) step) := by
  rw [boundary_representations_agree D t1 c r1 hok h1 state step hstep,
    boundary_representations_agree D t2 c r2 hok h2 state step hstep]

/-- the hypotheses hold for a two-coefficient value polynomial with first step 1 over the example
    domain (`g = 3^2 = 9`, `offset_elem = 9⁻¹ = 2`), and both a small and a large representation exist -/
example : ReprOK (fun _ => some (3 : ZMod 17)) exDomain ⟨0, [1, 2], 1, 2⟩ :=
  ⟨by decide, by decide, rfl, by decide, by decide, by decide⟩

example : ∃ r1 r2, BRepr.ofConstraint (fieldOps (ZMod 17) (fun _ => some 3)) exDomain 63 ⟨0, [1, 2], 1, 2⟩ = some r1 ∧
    BRepr.ofConstraint (fieldOps (ZMod 17) (fun _ => some 3)) exDomain 2 ⟨0, [1, 2], 1, 2⟩ = some r2 :=
  ⟨_, _, rfl, rfl⟩

-- ============================================================================================
-- (b) the periodic value table
-- ============================================================================================

/-- **periodic value table.**  For every step of the constraint evaluation domain,
    `get_row(step)[j] = poly_j(x_step^(n/len_j))`: the table of expanded cycles, indexed modulo the
    longest expanded cycle, holds the periodic column polynomials at the points the definition uses.
    Hypotheses: cycle lengths are powers of two dividing `n`, `get_root_of_unity(log2(len_j·B))` is
    the matching power of the domain generator, the generator has order dividing the domain size. -/
theorem periodic_table_get_row {root : ℕ → Option F} (D : Domain F) (polys : List (List F)) (t : PTable F)
    (ht : PTable.new (fieldOps F root) D polys = some t)
    (hpow : ∀ p ∈ polys, ∃ k, p.length = 2 ^ k) (hdvd : ∀ p ∈ polys, p.length ∣ D.n)
    (hroot : ∀ p ∈ polys, root (Nat.log2 (p.length * D.ceBlowup)) = some (D.wce ^ (D.n / p.length)))
    (hw : D.wce ^ D.ceSize = 1) (hB : 0 < D.ceBlowup)
    (j : ℕ) (p : List F) (hj : polys[j]? = some p) (step : ℕ) :
    nth (fieldOps F root) (t.getRow step) j
      = polyEval (fieldOps F root) p ((D.ceX (fieldOps F root) step) ^ (D.n / p.length)) :=
  periodic_table_row root D polys t ht hpow hdvd hroot hw hB j p hj step

/-- the root family of the examples: `get_root_of_unity(k) = 3^(16/2^k)` -/
def exRoot (k : ℕ) : Option (ZMod 17) := some (3 ^ (16 / 2 ^ k))

/-- two periodic columns of cycle lengths 2 and 4 over the example domain satisfy the hypotheses -/
example : ∃ t, PTable.new (fieldOps (ZMod 17) exRoot) exDomain [[1, 2], [3, 4, 5, 6]] = some t ∧
    (∀ p ∈ [[1, 2], [3, 4, 5, 6]], ∃ k, p.length = 2 ^ k) ∧
    (∀ p ∈ [[(1 : ZMod 17), 2], [3, 4, 5, 6]], p.length ∣ exDomain.n) ∧
    (∀ p ∈ [[(1 : ZMod 17), 2], [3, 4, 5, 6]],
      exRoot (Nat.log2 (p.length * exDomain.ceBlowup)) = some (exDomain.wce ^ (exDomain.n / p.length))) := by
  refine ⟨_, rfl, ?_, ?_, ?_⟩
  · intro p hp; simp only [List.mem_cons, List.not_mem_nil, or_false] at hp
    rcases hp with rfl | rfl
    · exact ⟨1, rfl⟩
    · exact ⟨2, rfl⟩
  · intro p hp; simp only [List.mem_cons, List.not_mem_nil, or_false] at hp
    rcases hp with rfl | rfl <;> decide
  · intro p hp; simp only [List.mem_cons, List.not_mem_nil, or_false] at hp
    rcases hp with rfl | rfl <;> decide

-- ============================================================================================
-- (f) frames from the trace LDE, divisor inverses of `acc_column`
-- ============================================================================================

/-- **constraint-evaluation blowup smaller than the LDE blowup.**  Reading row `i·(lde/ce)` of the
    trace LDE and row `+ lde_blowup (mod LDE size)` gives the trace polynomials at `x_i` and `x_i·g`,
    `x_i` the `i`-th point of the constraint evaluation domain -/
theorem prover_frames_are_trace_polys {root : ℕ → Option F} (D : Domain F) (mainPolys auxPolys : ℕ → List F)
    (g : F) (step : ℕ) (hr : D.wlde ^ (D.ldeBlowup / D.ceBlowup) = D.wce) (hg : D.wlde ^ D.ldeBlowup = g)
    (hwl : D.wlde ^ D.ldeSize = 1) :
    proverFrames (fieldOps F root) D mainPolys auxPolys step
      = framesOf (fieldOps F root) mainPolys auxPolys g (D.ceX (fieldOps F root) step) :=
  prover_frames_eq root D mainPolys auxPolys g step hr hg hwl

example : (⟨8, 2, 4, 5, 9, 3⟩ : Domain (ZMod 17)).wlde ^ (4 / 2) = 9 ∧ (3 : ZMod 17) ^ (8 * 4) = 1 := by decide

/-- **division by the divisor in `acc_column`.**  `z[i % z.len()]`, with `z` the `ce/a` inverses
    `get_inv_evaluation` computes, is `1 / (x_i^a − b)` for EVERY step `i` -/
theorem acc_column_inverse_index {root : ℕ → Option F} (D : Domain F) (a : ℕ) (b : F) (ex z : List F)
    (hz : invEvaluations (fieldOps F root) D ⟨[(a, b)], ex⟩ = some z) (hw : D.wce ^ D.ceSize = 1)
    (hdvd : a ∣ D.ceSize) (ha : 0 < a) (hce : 0 < D.ceSize) (i : ℕ) :
    nth (fieldOps F root) z (i % z.length) = 1 / ((D.ceX (fieldOps F root) i) ^ a - b) :=
  inv_evaluation_index root D a b ex z hz hw hdvd ha hce i

example : ∃ z, invEvaluations (fieldOps (ZMod 17) exRoot) exDomain ⟨[(8, 1)], []⟩ = some z ∧
    exDomain.wce ^ exDomain.ceSize = 1 ∧ 8 ∣ exDomain.ceSize := ⟨_, rfl, by decide, by decide⟩

-- ============================================================================================
-- (e) the verifier's expression is the definition
-- ============================================================================================

/-- **the verifier's expression is the definition evaluated at `x`.**  For every instance `P` that
    `prep` (AIR instantiation: sorted, validated assertions and their value polynomials) produces and
    every point `x`: `evaluate_constraints` on the frame `(t_j(x), t_j(x·g))` — transition
    coefficients split main | aux, the merged evaluations divided once by the transition divisor,
    boundary constraints merged per `(stride, first step)` group and divided once per group — equals
    `C(x) = Σ_j α_j·T_j/Z_T + Σ_i β_i·(t_{col_i}(x) − v_i(x))/Z_i(x)`.  Holds at every `x`, in particular
    at the out-of-domain point `z`. -/
theorem verifier_expression_eq_definition {root : ℕ → Option F} (air : Air F) (P : Prep F)
    (hP : prep (fieldOps F root) air = some P) (mainPolys auxPolys : ℕ → List F) (rands : ℕ → F)
    (tco bco : List F) (x : F) (he : air.e ≤ air.n) (hlen : air.mainCons.length ≤ tco.length) :
    evaluateConstraints (fieldOps F root) air P (framesOf (fieldOps F root) mainPolys auxPolys P.g x) rands tco bco x
      = defAt (fieldOps F root) air P mainPolys auxPolys rands tco bco x :=
  verifier_eq_definition root air P mainPolys auxPolys rands tco bco x he (prep_keyDet hP).1 (prep_keyDet hP).2 hlen

/-- n = 8 over ZMod 17 (g = 9 = 3^2): one periodic column of cycle 2, the constraint
    `next0 − cur0·cur0 − p0`, a single assertion and a two-value sequence assertion with first step 1 -/
def exAir : Air (ZMod 17) :=
  ⟨8, 1, 1, 0, [[1, 2]], [.sub (.nxt 0) (.add (.mul (.cur 0) (.cur 0)) (.per 0))], [], [⟨2, [2]⟩], [],
   [⟨0, 0, 0, [3]⟩, ⟨0, 1, 4, [5, 6]⟩], []⟩

/-- the hypotheses of `verifier_expression_eq_definition` hold for this instance -/
example : ∃ P, prep (fieldOps (ZMod 17) exRoot) exAir = some P ∧ P.main.length = 2 ∧ exAir.e ≤ exAir.n ∧
    exAir.mainCons.length ≤ [(7 : ZMod 17)].length := by
  refine ⟨_, rfl, ?_, ?_, ?_⟩ <;> decide

/-- the divisors the model uses are the ones C16 characterises: `from_transition` … -/
theorem transitionDivisor_is_fromTransition {root : ℕ → Option F} {g : F} {n e : ℕ}
    (hroot : root (Nat.log2 n) = some g) (he : e ≤ n) :
    fromTransition (fieldOps F root) n e = .ok (transitionDivisor (fieldOps F root) g n e) := by
  unfold fromTransition transitionDivisor
  rw [if_neg (by omega)]
  by_cases h0 : e = 0
  · subst h0; simp [fieldOps]
  · rw [if_neg h0]; simp [fieldOps, hroot]

/-- … and `from_assertion`, for every assertion that passed `validate_trace_length` -/
theorem assertionDivisor_is_fromAssertion {root : ℕ → Option F} {g : F} {n : ℕ} (a : Assertion F)
    (hroot : root (Nat.log2 n) = some g) (hv : a.validateTraceLength n = .ok ())
    (hlt : numSteps a n * a.first < n) :
    fromAssertion (fieldOps F root) a n = .ok (assertionDivisor (fieldOps F root) g a n) := by
  unfold fromAssertion Assertion.getNumSteps assertionDivisor numSteps
  rw [hv]
  by_cases hs : a.isSingle = true
  · simp only [hs, if_true]
    by_cases h0 : a.first = 0
    · simp [h0]
    · have : ¬ (n ≤ a.first) := by simpa [numSteps, hs] using hlt
      simp [h0, traceDomainValueAt, this, fieldOps, hroot]
  · simp only [hs, Bool.false_eq_true, if_false]
    by_cases hp : a.isPeriodic = true
    · simp only [hp, if_true]
      by_cases h0 : a.first = 0
      · simp [h0]
      · have : ¬ (n / a.stride * a.first ≥ n) := by simpa [numSteps, hs, hp] using hlt
        simp [h0, traceDomainValueAt, this, fieldOps, hroot]
    · simp only [hp, Bool.false_eq_true, if_false]
      by_cases h0 : a.first = 0
      · simp [h0]
      · have : ¬ (a.values.length * a.first ≥ n) := by simpa [numSteps, hs, hp] using hlt
        simp [h0, traceDomainValueAt, this, fieldOps, hroot]

/-- the hypotheses hold for the sequence assertion of the example instance -/
example : (⟨0, 1, 4, [5, 6]⟩ : Assertion (ZMod 17)).validateTraceLength 8 = .ok () ∧
    exRoot (Nat.log2 8) = some 9 ∧ numSteps (⟨0, 1, 4, [5, 6]⟩ : Assertion (ZMod 17)) 8 * 1 < 8 := by
  refine ⟨by rfl, by decide +kernel, by decide⟩

-- ============================================================================================
-- (h) the committed polynomial equals the definition at every field point
-- ============================================================================================

/-- FULL STATEMENT (property C17, prover side): for the composition polynomial trace the evaluator
    produces and the columns `CompositionPoly::new` cuts it into, `Σ_i x^(i·n) H_i(x) = C(x)` at every
    field point off the trace domain (on the trace domain the definition is a quotient `0/0`; the
    committed polynomial is its continuation). -/
def CommittedEqDefinition (root : ℕ → Option F) (beq : F → F → Bool) (air : Air F) (P : Prep F) (D : Domain F)
    (threshold : ℕ) (mainPolys auxPolys : ℕ → List F) (rands : ℕ → F) (tco bco : List F) : Prop :=
  ∀ ctr cols, compositionTrace (fieldOps F root) beq air P D threshold mainPolys auxPolys rands tco bco = some ctr →
    compositionPoly (fieldOps F root) D ctr (numCompColumns (air.mainDegs ++ air.auxDegs) air.n air.e) = some cols →
    ∀ x, x ^ air.n ≠ 1 →
      some (recombine (fieldOps F root) air.n x (evaluateAt (fieldOps F root) cols x))
        = defAt (fieldOps F root) air P mainPolys auxPolys rands tco bco x

/-- **from the interpolation nodes to every field point.**  Proved: interpolation over the constraint
    evaluation coset (the model's inverse DFT with offset inverts evaluation), uniqueness of a polynomial
    of degree below the domain size through its values on the coset, the column split, and that no
    coefficient is lost in the `k` columns.  Given `hrows` (the composition trace holds the definition
    at every point of the constraint evaluation domain: `composition_trace_holds_definition`) and
    `hQ`, `hQdeg` (the definition is a polynomial `Q` of degree below `n·k`), the committed columns
    recombine to `Q` at EVERY field point, hence to the definition wherever the latter is defined. -/
theorem committed_eq_definition_of_nodes {root : ℕ → Option F}
    (air : Air F) (P : Prep F) (D : Domain F) (mainPolys auxPolys : ℕ → List F) (rands : ℕ → F)
    (tco bco ctr : List F) (cols : List (List F)) (k : ℕ)
    (hDn : D.n = air.n) (hlen : ctr.length = D.ceSize) (hpos : 0 < D.ceSize)
    (hw : IsPrimitiveRoot D.wce D.ceSize) (hroot : root (Nat.log2 D.ceSize) = some D.wce) (ho : D.offset ≠ 0)
    (hcols : compositionPoly (fieldOps F root) D ctr k = some cols)
    (hk : air.n * k ≤ D.ceSize)
    (hoff : ∀ i, (D.ceX (fieldOps F root) i) ^ air.n ≠ 1)
    (hrows : ∀ i (hi : i < ctr.length),
      defAt (fieldOps F root) air P mainPolys auxPolys rands tco bco (D.ceX (fieldOps F root) i) = some ctr[i])
    (Q : F[X]) (hQdeg : Q.natDegree < air.n * k)
    (hQ : ∀ x, x ^ air.n ≠ 1 →
      defAt (fieldOps F root) air P mainPolys auxPolys rands tco bco x = some (Q.eval x)) :
    (∀ x, recombine (fieldOps F root) air.n x (evaluateAt (fieldOps F root) cols x) = Q.eval x) ∧
    (∀ x, x ^ air.n ≠ 1 →
      some (recombine (fieldOps F root) air.n x (evaluateAt (fieldOps F root) cols x))
        = defAt (fieldOps F root) air P mainPolys auxPolys rands tco bco x) := by
  have main : ∀ x, recombine (fieldOps F root) air.n x (evaluateAt (fieldOps F root) cols x) = Q.eval x := by
    unfold compositionPoly at hcols
    simp only [bind, Option.bind_eq_some_iff, pure, Option.some.injEq] at hcols
    obtain ⟨c, hc, rfl⟩ := hcols
    have hm : 0 < ctr.length := by omega
    obtain ⟨hclen, hcval⟩ := interpolateWithOffset_spec root hm (by rw [hlen]; exact hw)
      (by rw [hlen]; exact hroot) ho hc
    have hQdeg' : Q.degree < D.ceSize := by
      calc Q.degree ≤ Q.natDegree := degree_le_natDegree
        _ < (D.ceSize : WithBot ℕ) := by exact_mod_cast lt_of_lt_of_le hQdeg hk
    have hPc : listPoly c = Q := by
      apply eq_of_eval_coset hw ho _ _ (by rw [← hlen, ← hclen]; exact listPoly_degree_lt c) hQdeg'
      intro i hi
      have hi' : i < ctr.length := by omega
      rw [listPoly_eval root, hcval i hi']
      have h1 := hrows i hi'
      have h2 := hQ _ (hoff i)
      rw [ceX_eq] at h1 h2
      rw [h1] at h2
      exact Option.some.inj h2
    intro x
    rw [hDn, column_split, polyEval_take_of_zero root c (air.n * k) x, ← listPoly_eval root, hPc]
    intro m hmk
    rw [← listPoly_coeff, hPc]
    exact coeff_eq_zero_of_natDegree_lt (lt_of_lt_of_le hQdeg hmk)
  exact ⟨main, fun x hx => by rw [main x, hQ x hx]⟩

/-- the instance of the examples as `prep` delivers it -/
def exP : Prep (ZMod 17) := (prep (fieldOps (ZMod 17) exRoot) exAir).getD ⟨0, 0, [], [], []⟩

theorem exP_spec : prep (fieldOps (ZMod 17) exRoot) exAir = some exP := by
  have ⟨P, hP⟩ : ∃ P, prep (fieldOps (ZMod 17) exRoot) exAir = some P := ⟨_, rfl⟩
  unfold exP
  rw [hP]; rfl

/-- **the composition polynomial trace holds the definition at every point of the constraint
    evaluation domain.**  `DefaultConstraintEvaluator::evaluate` as modelled — frames read from the
    trace LDE (`ce blowup ≤ lde blowup`), periodic values from the `PeriodicValueTable`, transition
    evaluations merged with the main | aux coefficient ranges, boundary constraints through their
    `SingleValue / SmallPoly / LargePoly` representations (any switching threshold), prover-side groups
    with auxiliary groups merged into main groups of equal divisor, `combine` dividing every column by
    its divisor through `get_inv_evaluation`'s periodic table of inverses — yields, at step `i`, exactly
    `C(x_i)`.  `TraceOK` collects the coherence of the domains with the instance. -/
theorem composition_trace_holds_definition {root : ℕ → Option F} (beq : F → F → Bool)
    (hbeq : ∀ a b, beq a b = true → a = b) (air : Air F) (P : Prep F)
    (hP : prep (fieldOps F root) air = some P) (D : Domain F) (threshold : ℕ)
    (mainPolys auxPolys : ℕ → List F) (rands : ℕ → F) (tco bco ctr : List F) (hok : TraceOK root air P D)
    (hlen : air.mainCons.length ≤ tco.length)
    (h : compositionTrace (fieldOps F root) beq air P D threshold mainPolys auxPolys rands tco bco = some ctr) :
    ctr.length = D.ceSize ∧ ∀ i (hi : i < ctr.length),
      defAt (fieldOps F root) air P mainPolys auxPolys rands tco bco (D.ceX (fieldOps F root) i) = some ctr[i] :=
  composition_trace_eq_definition root beq hbeq air P D threshold mainPolys auxPolys rands tco bco ctr hok
    (prep_keyDet hP).1 (prep_keyDet hP).2 hlen h

/-- the hypotheses `TraceOK` hold for the example instance over the example domain -/
example : TraceOK exRoot exAir exP exDomain where
  hn := rfl
  hnpos := by decide
  he := by decide
  hB := by decide
  hw := by decide
  hr := by decide
  hg := by decide +kernel
  hwl := by decide
  hpow := by
    intro p hp
    have : p.length = 2 := by revert p; decide +kernel
    exact ⟨1, this⟩
  hdvd := by decide +kernel
  hproot := by decide +kernel
  hrepr := by
    intro bc hbc
    have h : bc.c.poly.length ≠ 0 ∧ bc.c.poly.length ∣ exDomain.ceSize ∧
        bc.c.offsetElem * exDomain.wce ^ (bc.c.offsetSteps * exDomain.ceBlowup) = 1 ∧
        bc.c.offsetSteps * exDomain.ceBlowup < exDomain.ceSize := by revert bc; decide +kernel
    exact ⟨h.1, h.2.1, rfl, by decide, h.2.2.1, h.2.2.2⟩
  hsteps := by decide +kernel
  haux := by decide

/-- **PARTIAL (one named hypothesis).**  The committed composition polynomial equals the definition
    at every field point.  Everything on the code's side is proved (`composition_trace_holds_definition`
    for the interpolation nodes, interpolation, uniqueness, column split); what remains a hypothesis is
    the statement about VALID TRACES that `hQ`, `hQdeg` express: the definition is a polynomial `Q` of
    degree below `n·k` (the numerators are divisible by their divisors: C16; the degrees:
    `quotient_degree_lt_columns`).  `hoff` says that the evaluation coset does not meet the trace domain
    (the offset is a generator of the multiplicative group). -/
theorem committed_eq_definition_partial {root : ℕ → Option F} (beq : F → F → Bool)
    (hbeq : ∀ a b, beq a b = true → a = b) (air : Air F) (P : Prep F)
    (hP : prep (fieldOps F root) air = some P) (D : Domain F) (threshold : ℕ)
    (mainPolys auxPolys : ℕ → List F) (rands : ℕ → F) (tco bco ctr : List F) (cols : List (List F)) (k : ℕ)
    (hok : TraceOK root air P D) (hlen : air.mainCons.length ≤ tco.length)
    (hw : IsPrimitiveRoot D.wce D.ceSize) (hroot : root (Nat.log2 D.ceSize) = some D.wce) (ho : D.offset ≠ 0)
    (htrace : compositionTrace (fieldOps F root) beq air P D threshold mainPolys auxPolys rands tco bco = some ctr)
    (hcols : compositionPoly (fieldOps F root) D ctr k = some cols) (hk : air.n * k ≤ D.ceSize)
    (hoff : ∀ i, (D.ceX (fieldOps F root) i) ^ air.n ≠ 1)
    (Q : F[X]) (hQdeg : Q.natDegree < air.n * k)
    (hQ : ∀ x, x ^ air.n ≠ 1 →
      defAt (fieldOps F root) air P mainPolys auxPolys rands tco bco x = some (Q.eval x)) :
    (∀ x, recombine (fieldOps F root) air.n x (evaluateAt (fieldOps F root) cols x) = Q.eval x) ∧
    (∀ x, x ^ air.n ≠ 1 →
      some (recombine (fieldOps F root) air.n x (evaluateAt (fieldOps F root) cols x))
        = defAt (fieldOps F root) air P mainPolys auxPolys rands tco bco x) := by
  obtain ⟨hl, hrows⟩ := composition_trace_holds_definition beq hbeq air P hP D threshold mainPolys auxPolys rands
    tco bco ctr hok hlen htrace
  have hpos : 0 < D.ceSize := by
    unfold Domain.ceSize; rw [hok.hn]; exact Nat.mul_pos hok.hnpos hok.hB
  exact committed_eq_definition_of_nodes air P D mainPolys auxPolys rands tco bco ctr cols k hok.hn hl hpos hw hroot ho
    hcols hk hoff hrows Q hQdeg hQ

/-- the interpolation hypothesis of the partial theorem is not an assumption: over the example domain
    the model's `interpolate_poly_with_offset` of 16 evaluations returns 16 coefficients that reproduce
    them on the coset `5·3^i` -/
example (evals c : List (ZMod 17)) (hl : evals.length = 16)
    (h : interpolateWithOffset (fieldOps (ZMod 17) exRoot) evals 5 = some c) :
    c.length = evals.length ∧
      ∀ i (hi : i < evals.length), polyEval (fieldOps (ZMod 17) exRoot) c (3 ^ i * 5) = evals[i] :=
  interpolateWithOffset_spec exRoot (by omega) (by rw [hl]; exact three_primitive_zmod17)
    (by rw [hl]; rfl) (by decide) h

-- ============================================================================================
-- (j) valid traces: the definition IS a polynomial of degree below n·k
-- ============================================================================================

/-- **transition numerators of a valid trace are divisible by the transition divisor.**  `ValidTrace`
    (Lemmas/C17Valid.lean): every transition constraint evaluates to zero on the frame `(s, s + 1)` of the
    trace for every non-exempt step `s < n − e`, every assertion holds at the steps it names.  The
    numerator is the constraint composed with the trace polynomials (`exprPoly`: the model's own
    expression evaluator run over `F[X]`); the divisor `∏_{i<n−e} (X − g^i)` is the polynomial
    `(X^n − 1)/∏_{k≥n−e}(X − g^k)` of `C16.transition_divisor_poly`.  Converse of
    `C02.transition_violation_not_divisible`. -/
theorem transition_numerator_divisible {root : ℕ → Option F} (air : Air F) (P : Prep F)
    (hg : IsPrimitiveRoot P.g air.n) (mainPolys auxPolys : ℕ → List F) (rands : ℕ → F)
    (hvalid : ValidTrace root air P mainPolys auxPolys rands) :
    ∀ c ∈ air.mainCons ++ air.auxCons,
      (∏ i ∈ Finset.range (air.n - air.e), (X - C (P.g ^ i))) ∣ exprPoly air P mainPolys auxPolys rands c :=
  fun c hc => exprPoly_dvd root hg hvalid c hc

/-- **boundary numerators of a valid trace are divisible by their assertion divisors**
    `X^k − g^(k·first)` (`C16.assertion_divisor_zero_set`), for every boundary constraint `prep` delivers
    (single, periodic and sequence assertions; main and auxiliary segment).  The numerator is the trace
    column polynomial minus the value polynomial `b(X)` of `BoundaryConstraint::evaluate_at`.  Converse
    of `C02.assertion_violation_not_divisible`. -/
theorem boundary_numerator_divisible {root : ℕ → Option F} (air : Air F) (P : Prep F)
    (hP : prep (fieldOps F root) air = some P) (hn : 0 < air.n) (hg : IsPrimitiveRoot P.g air.n)
    (haok : AssertOK root air P) (mainPolys auxPolys : ℕ → List F) (rands : ℕ → F)
    (hvalid : ValidTrace root air P mainPolys auxPolys rands) :
    (∀ bc ∈ P.main, (X ^ numSteps bc.a air.n - C (P.g ^ (numSteps bc.a air.n * bc.a.first)))
      ∣ listPoly (mainPolys bc.c.column) - valuePoly bc.c) ∧
    (∀ bc ∈ P.aux, (X ^ numSteps bc.a air.n - C (P.g ^ (numSteps bc.a air.n * bc.a.first)))
      ∣ listPoly (auxPolys bc.c.column) - valuePoly bc.c) := by
  obtain ⟨hm, ha⟩ := valid_bc_roots root hP hn hg haok hvalid
  exact ⟨fun bc hbc => boundNum_dvd root hn hg (hm bc hbc), fun bc hbc => boundNum_dvd root hn hg (ha bc hbc)⟩

/-- **for a valid trace the definition is a polynomial of degree below `n·k`**, `k` the number of
    composition columns `num_constraint_composition_columns`: the sum `compositionQ` of the polynomial
    quotients takes the value `C(x)` of the definition at every `x` off the trace domain.  The degree
    hypothesis on the AIR is `DeclaredDegreesOK`: the declared `TransitionConstraintDegree` of each
    transition constraint bounds the degree of the constraint composed with the trace polynomials
    (decidable sufficient condition: `declaredDegreesOK_of_degBound`). -/
theorem definition_is_polynomial {root : ℕ → Option F} (air : Air F) (P : Prep F)
    (hP : prep (fieldOps F root) air = some P) (hn : 0 < air.n) (he : air.e ≤ air.n)
    (hg : IsPrimitiveRoot P.g air.n) (haok : AssertOK root air P)
    (mainPolys auxPolys : ℕ → List F) (rands : ℕ → F) (tco bco : List F)
    (hvalid : ValidTrace root air P mainPolys auxPolys rands)
    (hdeg : DeclaredDegreesOK air P mainPolys auxPolys rands) :
    (compositionQ air P mainPolys auxPolys rands tco bco).natDegree
        < air.n * numCompColumns (air.mainDegs ++ air.auxDegs) air.n air.e ∧
    ∀ x, x ^ air.n ≠ 1 →
      defAt (fieldOps F root) air P mainPolys auxPolys rands tco bco x
        = some ((compositionQ air P mainPolys auxPolys rands tco bco).eval x) :=
  ⟨compositionQ_natDegree_lt root hP hn hg haok hvalid hdeg tco bco
      (quotient_degree_lt_columns (air.mainDegs ++ air.auxDegs) air.n air.e hn),
    fun x hx => compositionQ_eval root hP hn he hg haok hvalid tco bco x hx⟩

/-- **PROPERTY C17 (prover side and verifier side), no polynomial hypothesis.**  For every VALID trace:
    the columns `CompositionPoly::new` cuts from the composition polynomial trace of the evaluator
    recombine, at every field point `x` off the trace domain, to the definition `C(x)` — this is
    `CommittedEqDefinition`, the full statement — and the verifier's `evaluate_constraints` on the frame
    `(t_j(x), t_j(x·g))` returns the same value.  Moreover the recombination is the polynomial
    `compositionQ` at EVERY field point (also on the trace domain, where the definition is `0/0`).
    Hypotheses: the coherence of the domains (`TraceOK`, `hw`, `hroot`, `ho`, `hoff`: the evaluation coset
    does not meet the trace domain), `hg` (the trace-domain generator has exact order `n`), `AssertOK`
    (assertions come from the constructors; root coherence for sequence assertions),
    `DeclaredDegreesOK` (declared constraint degrees bound the actual ones), `hk` (the `k` columns fit
    the constraint evaluation domain: `columns_le_blowup`). -/
theorem committed_eq_definition {root : ℕ → Option F} (beq : F → F → Bool)
    (hbeq : ∀ a b, beq a b = true → a = b) (air : Air F) (P : Prep F)
    (hP : prep (fieldOps F root) air = some P) (D : Domain F) (threshold : ℕ)
    (mainPolys auxPolys : ℕ → List F) (rands : ℕ → F) (tco bco : List F)
    (hok : TraceOK root air P D) (hlen : air.mainCons.length ≤ tco.length)
    (hw : IsPrimitiveRoot D.wce D.ceSize) (hroot : root (Nat.log2 D.ceSize) = some D.wce) (ho : D.offset ≠ 0)
    (hg : IsPrimitiveRoot P.g air.n) (haok : AssertOK root air P)
    (hdeg : DeclaredDegreesOK air P mainPolys auxPolys rands)
    (hk : air.n * numCompColumns (air.mainDegs ++ air.auxDegs) air.n air.e ≤ D.ceSize)
    (hoff : ∀ i, (D.ceX (fieldOps F root) i) ^ air.n ≠ 1)
    (hvalid : ValidTrace root air P mainPolys auxPolys rands) :
    CommittedEqDefinition root beq air P D threshold mainPolys auxPolys rands tco bco ∧
    ∀ ctr cols, compositionTrace (fieldOps F root) beq air P D threshold mainPolys auxPolys rands tco bco = some ctr →
      compositionPoly (fieldOps F root) D ctr (numCompColumns (air.mainDegs ++ air.auxDegs) air.n air.e) = some cols →
      (∀ x, recombine (fieldOps F root) air.n x (evaluateAt (fieldOps F root) cols x)
        = (compositionQ air P mainPolys auxPolys rands tco bco).eval x) ∧
      ∀ x, x ^ air.n ≠ 1 →
        evaluateConstraints (fieldOps F root) air P (framesOf (fieldOps F root) mainPolys auxPolys P.g x) rands tco bco x
          = some (recombine (fieldOps F root) air.n x (evaluateAt (fieldOps F root) cols x)) := by
  obtain ⟨hQdeg, hQ⟩ := definition_is_polynomial air P hP hok.hnpos hok.he hg haok mainPolys auxPolys rands tco bco
    hvalid hdeg
  have key := fun ctr cols htrace hcols => committed_eq_definition_partial beq hbeq air P hP D threshold mainPolys
    auxPolys rands tco bco ctr cols _ hok hlen hw hroot ho htrace hcols hk hoff _ hQdeg hQ
  refine ⟨fun ctr cols htrace hcols => (key ctr cols htrace hcols).2, fun ctr cols htrace hcols => ?_⟩
  refine ⟨(key ctr cols htrace hcols).1, fun x hx => ?_⟩
  rw [verifier_expression_eq_definition air P hP mainPolys auxPolys rands tco bco x hok.he hlen]
  exact ((key ctr cols htrace hcols).2 x hx).symm

/-- **towards C01.**  The integer side condition under which C01's composition theorem imports this
    property (`LowerLayers.c09_c16_c17_ood` in WinterProofs/C01.lean: the highest quotient degree
    `highestDegree − (n − e)` is at most `n·ce − 1`, proved there from admissibility) gives the hypothesis
    `hk` of `committed_eq_definition` for a constraint evaluation domain of `n·ce` points; the degree
    records and `num_constraint_composition_columns` of the two models coincide
    (`numCompColumns_eq_compositionColumns`).  The field itself quantifies over every `cols` and `ce`
    and speaks about an abstract run, so it is not discharged here: with this lemma,
    `committed_eq_definition` is its content for a run whose domain has blowup `ce`. -/
theorem hk_of_c01_side_condition (ds : List Model.Protocol.Degree) (n e ce : ℕ) (hn : 0 < n) (hce : 0 < ce)
    (h : Model.Protocol.highestDegree ds n - (n - e) ≤ n * ce - 1) :
    n * numCompColumns (ds.map toDivDegree) n e ≤ n * ce ∧
      numCompColumns (ds.map toDivDegree) n e = Model.Protocol.compositionColumns ds n e :=
  ⟨columns_fit_of_c01_condition ds n e ce hn hce h, numCompColumns_eq_compositionColumns ds n e⟩

/-- two constraints of degree 1, n = 8, one exemption, ce blowup 2 (C01's Fibonacci-like example) -/
example : Model.Protocol.highestDegree [⟨1, []⟩, ⟨1, []⟩] 8 - (8 - 1) ≤ 8 * 2 - 1 := by decide

-- ============================================================================================
-- (i) a complete instance: every hypothesis of the partial theorem discharged
-- ============================================================================================
namespace Inst97

instance fact97 : Fact (Nat.Prime 97) := ⟨by decide⟩

/-- `get_root_of_unity(k) = 28^(32/2^k)` in ZMod 97 (28 = 5^3 has order 32) -/
def root97 (k : ℕ) : Option (ZMod 97) := some (28 ^ (32 / 2 ^ k))

/-- n = 8, ce blowup 2 (domain generator 8 = 28^2 of order 16), offset 5 (a generator of the group) -/
def D97 : Domain (ZMod 97) := ⟨8, 2, 2, 5, 8, 8⟩

/-- one constant column constrained by `next − cur = 0`, asserted to be 3 at step 0 -/
def air97 : Air (ZMod 97) :=
  ⟨8, 1, 1, 0, [], [.sub (.nxt 0) (.cur 0)], [], [⟨1, []⟩], [], [⟨0, 0, 0, [3]⟩], []⟩

def P97 : Prep (ZMod 97) := (prep (fieldOps (ZMod 97) root97) air97).getD ⟨0, 0, [], [], []⟩

theorem P97_spec : prep (fieldOps (ZMod 97) root97) air97 = some P97 := by
  have ⟨P, hP⟩ : ∃ P, prep (fieldOps (ZMod 97) root97) air97 = some P := ⟨_, rfl⟩
  unfold P97
  rw [hP]; rfl

/-- the (valid) trace: the constant column 3, as a polynomial -/
def polys97 : ℕ → List (ZMod 97) := fun j => if j = 0 then [3] else []

theorem eight_primitive : IsPrimitiveRoot (8 : ZMod 97) 16 :=
  IsPrimitiveRoot.mk_of_lt _ (by decide) (by decide) (fun l h0 h16 =>
    (by decide : ∀ l : Fin 16, 0 < l.val → (8 : ZMod 97) ^ l.val ≠ 1) ⟨l, h16⟩ h0)

theorem traceOK97 : TraceOK root97 air97 P97 D97 where
  hn := rfl
  hnpos := by decide
  he := by decide
  hB := by decide
  hw := by decide
  hr := by decide
  hg := by decide +kernel
  hwl := by decide
  hpow := by
    have : P97.perPolys = [] := by decide +kernel
    rw [this]; intro p hp; cases hp
  hdvd := by decide +kernel
  hproot := by decide +kernel
  hrepr := by
    intro bc hbc
    have h : bc.c.poly.length ≠ 0 ∧ bc.c.poly.length ∣ D97.ceSize ∧
        bc.c.offsetElem * D97.wce ^ (bc.c.offsetSteps * D97.ceBlowup) = 1 ∧
        bc.c.offsetSteps * D97.ceBlowup < D97.ceSize := by revert bc; decide +kernel
    exact ⟨h.1, h.2.1, by decide +kernel, by decide, h.2.2.1, h.2.2.2⟩
  hsteps := by decide +kernel
  haux := by decide

theorem trace97 : compositionTrace (fieldOps (ZMod 97) root97) (fun a b => decide (a = b)) air97 P97 D97 63
    polys97 (fun _ => []) (fun _ => 0) [7] [11] = some (List.replicate 16 0) := by decide +kernel

theorem cols97 : compositionPoly (fieldOps (ZMod 97) root97) D97 (List.replicate 16 0) 1
    = some [List.replicate 8 0] := by decide +kernel

theorem hoff97 : ∀ i, (D97.ceX (fieldOps (ZMod 97) root97) i) ^ air97.n ≠ 1 := by
  intro i
  have h : (D97.ceX (fieldOps (ZMod 97) root97) i) ^ air97.n = ((8 : ZMod 97) ^ 8) ^ i * 5 ^ 8 := by
    show ((8 : ZMod 97) ^ i * 5) ^ 8 = _
    rw [mul_pow, ← pow_mul, ← pow_mul, mul_comm i 8]
  rw [h]
  have h8 : (8 : ZMod 97) ^ 8 = -1 := by decide
  rw [h8]
  rcases Nat.even_or_odd i with he | ho
  · rw [he.neg_one_pow]; decide
  · rw [ho.neg_one_pow]; decide

/-- for this valid trace the definition is the zero polynomial -/
theorem hQ97 : ∀ x : ZMod 97, x ^ air97.n ≠ 1 →
    defAt (fieldOps (ZMod 97) root97) air97 P97 polys97 (fun _ => []) (fun _ => 0) [7] [11] x
      = some ((0 : (ZMod 97)[X]).eval x) := by
  intro x _
  rw [defAt_eq]
  have hmain : ∀ bc ∈ P97.main, bc.c.poly = [3] ∧ bc.c.column = 0 := by decide +kernel
  have haux : P97.aux = [] := by decide +kernel
  have hp0 : ∀ y : ZMod 97, polyEval (fieldOps (ZMod 97) root97) (polys97 0) y = 3 := by
    intro y; simp [polys97, polyEval, fieldOps]
  have hm : ((P97.main.zip [11]).map (fun p => p.1.c.evalAt (fieldOps (ZMod 97) root97) x
      ((framesOf (fieldOps (ZMod 97) root97) polys97 (fun _ => []) P97.g x).mainCur p.1.c.column) * p.2
        / adiv P97.g p.1.a air97.n x)).sum = 0 := by
    apply List.sum_eq_zero
    intro v hv
    obtain ⟨p, hp, rfl⟩ := List.mem_map.mp hv
    obtain ⟨h1, h2⟩ := hmain p.1 (List.of_mem_zip hp).1
    have : p.1.c.evalAt (fieldOps (ZMod 97) root97) x
        ((framesOf (fieldOps (ZMod 97) root97) polys97 (fun _ => []) P97.g x).mainCur p.1.c.column) = 0 := by
      unfold BConstraint.evalAt BConstraint.value
      rw [h1, h2]
      show polyEval (fieldOps (ZMod 97) root97) (polys97 0) x - 3 = 0
      rw [hp0, sub_self]
    rw [this, zero_mul, zero_div]
  rw [hm, haux]
  have ht : combine (fieldOps (ZMod 97) root97) [7] ((air97.mainCons ++ air97.auxCons).map (fun c => c.eval
      (fieldOps (ZMod 97) root97) (mkEnv (fieldOps (ZMod 97) root97)
        (framesOf (fieldOps (ZMod 97) root97) polys97 (fun _ => []) P97.g x)
        (periodicAt (fieldOps (ZMod 97) root97) air97.n P97.perPolys x) (fun _ => 0)))) = 0 := by
    rw [combine_eq_sum]
    show ((7 : ZMod 97) * (polyEval (fieldOps (ZMod 97) root97) (polys97 0) _ -
      polyEval (fieldOps (ZMod 97) root97) (polys97 0) _) + 0) = 0
    rw [hp0, hp0]; ring
  rw [ht]
  simp

/-- **the partial theorem is not vacuous**: a complete instance (ZMod 97, n = 8, constraint evaluation
    domain of 16 points, a constant column) on which every hypothesis is discharged; its conclusion: the
    committed column recombines to the definition (here identically zero) at every field point -/
theorem instance97 : ∀ x : ZMod 97,
    recombine (fieldOps (ZMod 97) root97) air97.n x (evaluateAt (fieldOps (ZMod 97) root97) [List.replicate 8 0] x)
      = (0 : (ZMod 97)[X]).eval x :=
  (committed_eq_definition_partial (fun a b => decide (a = b)) (fun a b h => of_decide_eq_true h) air97 P97 P97_spec
    D97 63 polys97 (fun _ => []) (fun _ => 0) [7] [11] (List.replicate 16 0) [List.replicate 8 0] 1 traceOK97
    (by decide) eight_primitive (by decide +kernel) (by decide) trace97 cols97 (by decide) hoff97 0 (by simp; decide) hQ97).1

/-- the trace-domain generator `get_root_of_unity(3) = 28^4 = 64` has exact order 8 -/
theorem g_primitive : IsPrimitiveRoot (64 : ZMod 97) 8 :=
  IsPrimitiveRoot.mk_of_lt _ (by decide) (by decide) (fun l h0 h8 =>
    (by decide : ∀ l : Fin 8, 0 < l.val → (64 : ZMod 97) ^ l.val ≠ 1) ⟨l, h8⟩ h0)

theorem assertOK97 : AssertOK root97 air97 P97 where
  hwf := by
    intro a ha
    have ha' : a ∈ [(⟨0, 0, 0, [3]⟩ : Assertion (ZMod 97))] := ha
    rw [List.mem_singleton] at ha'
    subst ha'
    exact Or.inl ⟨rfl, rfl⟩
  hseq := by
    intro a ha
    have ha' : a ∈ [(⟨0, 0, 0, [3]⟩ : Assertion (ZMod 97))] := ha
    rw [List.mem_singleton] at ha'
    subst ha'
    intro h; exact absurd h (by decide)

/-- the constant column 3 is a VALID trace of `air97` -/
theorem valid97 : ValidTrace root97 air97 P97 polys97 (fun _ => []) (fun _ => 0) where
  mainLen := by intro j; unfold polys97; split <;> simp [air97]
  auxLen := by intro j; simp
  transition := by decide +kernel
  mainAssertions := by
    intro a ha
    have ha' : a ∈ [(⟨0, 0, 0, [3]⟩ : Assertion (ZMod 97))] := ha
    rw [List.mem_singleton] at ha'
    subst ha'
    exact assertionHolds_of_apply root97 (l := [(0, 3)]) rfl (by decide +kernel)
  auxAssertions := by intro a ha; cases ha

/-- the declared degree `⟨1, []⟩` of `next − cur` bounds its actual degree -/
theorem degOK97 : DeclaredDegreesOK air97 P97 polys97 (fun _ => []) (fun _ => 0) :=
  declaredDegreesOK_of_degBound air97 P97 polys97 _ _ valid97.mainLen valid97.auxLen
    (List.Forall₂.cons (by decide +kernel) List.Forall₂.nil) List.Forall₂.nil

/-- **`committed_eq_definition` on the instance**: every hypothesis discharged, the trace validity by
    `decide +kernel` -/
theorem instance97_valid :
    CommittedEqDefinition root97 (fun a b => decide (a = b)) air97 P97 D97 63 polys97 (fun _ => []) (fun _ => 0) [7] [11] ∧
    ∀ x : ZMod 97, x ^ 8 ≠ 1 →
      evaluateConstraints (fieldOps (ZMod 97) root97) air97 P97
          (framesOf (fieldOps (ZMod 97) root97) polys97 (fun _ => []) P97.g x) (fun _ => 0) [7] [11] x
        = some (recombine (fieldOps (ZMod 97) root97) 8 x (evaluateAt (fieldOps (ZMod 97) root97) [List.replicate 8 0] x)) := by
  have hg : IsPrimitiveRoot P97.g air97.n := by
    have : P97.g = 64 := by decide +kernel
    rw [this]; exact g_primitive
  have h := committed_eq_definition (fun a b => decide (a = b)) (fun a b h => of_decide_eq_true h) air97 P97 P97_spec
    D97 63 polys97 (fun _ => []) (fun _ => 0) [7] [11] traceOK97 (by decide) eight_primitive (by decide +kernel)
    (by decide) hg assertOK97 degOK97 (by decide) hoff97 valid97
  exact ⟨h.1, (h.2 _ _ trace97 cols97).2⟩

end Inst97

-- ============================================================================================
-- (k) a second complete instance with a non-trivial valid trace
-- ============================================================================================
namespace Inst97b
open Inst97

/-- n = 8, TWO exemptions, two columns, one periodic column of cycle 2; constraints
    `next0 − cur0² − p0` (declared degree 2 with one cycle of 2) and `next1 + cur1 − 13` (degree 1);
    a single assertion, a two-value sequence assertion with first step 1, and a periodic assertion -/
def air : Air (ZMod 97) :=
  ⟨8, 2, 2, 0, [[1, 2]],
   [.sub (.nxt 0) (.add (.mul (.cur 0) (.cur 0)) (.per 0)), .sub (.add (.nxt 1) (.cur 1)) (.const 13)], [],
   [⟨2, [2]⟩, ⟨1, []⟩], [],
   [⟨0, 0, 0, [3]⟩, ⟨0, 1, 4, [10, 2]⟩, ⟨1, 0, 2, [4]⟩], []⟩

def P : Prep (ZMod 97) := (prep (fieldOps (ZMod 97) root97) air).getD ⟨0, 0, [], [], []⟩

theorem P_spec : prep (fieldOps (ZMod 97) root97) air = some P := by
  have ⟨P', hP⟩ : ∃ P', prep (fieldOps (ZMod 97) root97) air = some P' := ⟨_, rfl⟩
  unfold P
  rw [hP]; rfl

/-- the trace columns `3 10 5 26 96 2 6 | 50` (`x' = x² + p`, `p = 1 2 1 2 …`, last row junk) and
    `4 9 4 9 4 9 4 | 20` as polynomials over the trace domain generated by 64 -/
def polys : ℕ → List (ZMod 97) := fun j =>
  if j = 0 then [49, 24, 90, 11, 27, 31, 29, 33] else if j = 1 then [20, 88, 6, 93, 81, 9, 91, 4] else []

/-- the polynomials take the trace cells on the trace domain: the last transition (step 6 → 7) is
    violated in both columns, only the two exempt steps are not enforced -/
example : (List.range 8).map (fun s => polyEval (fieldOps (ZMod 97) root97) (polys 0) (64 ^ s))
      = [3, 10, 5, 26, 96, 2, 6, 50] ∧
    (List.range 8).map (fun s => polyEval (fieldOps (ZMod 97) root97) (polys 1) (64 ^ s))
      = [4, 9, 4, 9, 4, 9, 4, 20] := by decide +kernel

theorem traceOK : TraceOK root97 air P D97 where
  hn := rfl
  hnpos := by decide
  he := by decide
  hB := by decide
  hw := by decide
  hr := by decide
  hg := by decide +kernel
  hwl := by decide
  hpow := by
    intro p hp
    have : p.length = 2 := by revert p; decide +kernel
    exact ⟨1, this⟩
  hdvd := by decide +kernel
  hproot := by decide +kernel
  hrepr := by
    intro bc hbc
    have h : bc.c.poly.length ≠ 0 ∧ bc.c.poly.length ∣ D97.ceSize ∧
        bc.c.offsetElem * D97.wce ^ (bc.c.offsetSteps * D97.ceBlowup) = 1 ∧
        bc.c.offsetSteps * D97.ceBlowup < D97.ceSize := by revert bc; decide +kernel
    exact ⟨h.1, h.2.1, by decide +kernel, by decide, h.2.2.1, h.2.2.2⟩
  hsteps := by decide +kernel
  haux := by decide

theorem mem_asserts {a : Assertion (ZMod 97)} (ha : a ∈ air.mainAsserts ++ air.auxAsserts) :
    a = ⟨0, 0, 0, [3]⟩ ∨ a = ⟨0, 1, 4, [10, 2]⟩ ∨ a = ⟨1, 0, 2, [4]⟩ := by
  have ha' : a ∈ [(⟨0, 0, 0, [3]⟩ : Assertion (ZMod 97)), ⟨0, 1, 4, [10, 2]⟩, ⟨1, 0, 2, [4]⟩] := ha
  simpa using ha'

theorem assertOK : AssertOK root97 air P where
  hwf := by
    intro a ha
    rcases mem_asserts ha with rfl | rfl | rfl
    · exact Or.inl ⟨rfl, rfl⟩
    · exact Or.inr ⟨⟨2, rfl⟩, by decide, by decide, Or.inr ⟨by decide, 1, rfl⟩⟩
    · exact Or.inr ⟨⟨1, rfl⟩, by decide, by decide, Or.inl rfl⟩
  hseq := by
    intro a ha
    rcases mem_asserts ha with rfl | rfl | rfl
    · intro h; exact absurd h (by decide)
    · intro _; decide +kernel
    · intro h; exact absurd h (by decide)

/-- **the trace is valid**: both transition constraints vanish on the frames `(s, s + 1)`, `s < 6`, the
    three assertions hold at the steps they name — all checked by evaluation -/
theorem valid : ValidTrace root97 air P polys (fun _ => []) (fun _ => 0) where
  mainLen := by intro j; unfold polys; split_ifs <;> simp [air]
  auxLen := by intro j; simp
  transition := by decide +kernel
  mainAssertions := by
    intro a ha
    rcases mem_asserts (List.mem_append_left _ ha) with rfl | rfl | rfl
    · exact assertionHolds_of_apply root97 (l := [(0, 3)]) rfl (by decide +kernel)
    · exact assertionHolds_of_apply root97 (l := [(1, 10), (5, 2)]) rfl (by decide +kernel)
    · exact assertionHolds_of_apply root97 (l := [(0, 4), (2, 4), (4, 4), (6, 4)]) rfl (by decide +kernel)
  auxAssertions := by intro a ha; cases ha

/-- … and NOT valid with a single exemption (the frame `(6, 7)` violates the first constraint): the
    validity predicate distinguishes the enforced from the exempt steps -/
example : ¬ ∀ s, s < 8 - 1 → ∀ c ∈ air.mainCons ++ air.auxCons,
    c.eval (fieldOps (ZMod 97) root97) (defEnv root97 air P polys (fun _ => []) (fun _ => 0) (P.g ^ s)) = 0 := by
  decide +kernel

/-- the declared degrees `⟨2, [2]⟩` (evaluation degree 18) and `⟨1, []⟩` (7) bound the syntactic degree
    bounds 14 and 7 of the two constraints -/
theorem degOK : DeclaredDegreesOK air P polys (fun _ => []) (fun _ => 0) :=
  declaredDegreesOK_of_degBound air P polys _ _ valid.mainLen valid.auxLen
    (List.Forall₂.cons (by decide +kernel) (List.Forall₂.cons (by decide +kernel) List.Forall₂.nil))
    List.Forall₂.nil

theorem trace : compositionTrace (fieldOps (ZMod 97) root97) (fun a b => decide (a = b)) air P D97 63
    polys (fun _ => []) (fun _ => 0) [7, 12] [11, 13, 17]
      = some [47, 63, 82, 96, 36, 56, 9, 35, 27, 38, 57, 4, 41, 61, 17, 3] := by decide +kernel

/-- the composition polynomial has degree 8: it needs the two columns -/
theorem cols : compositionPoly (fieldOps (ZMod 97) root97) D97
    [47, 63, 82, 96, 36, 56, 9, 35, 27, 38, 57, 4, 41, 61, 17, 3] 2
      = some [[42, 43, 54, 54, 40, 86, 10, 55], [40, 0, 0, 0, 0, 0, 0, 0]] := by decide +kernel

/-- **`committed_eq_definition` on a non-trivial instance** (periodic column, three kinds of assertion,
    two exemptions, two composition columns): for the valid trace above, the committed columns recombine to
    the definition at every `x` off the trace domain and the verifier's expression agrees -/
theorem instance97b :
    CommittedEqDefinition root97 (fun a b => decide (a = b)) air P D97 63 polys (fun _ => []) (fun _ => 0)
      [7, 12] [11, 13, 17] ∧
    ∀ x : ZMod 97, x ^ 8 ≠ 1 →
      evaluateConstraints (fieldOps (ZMod 97) root97) air P
          (framesOf (fieldOps (ZMod 97) root97) polys (fun _ => []) P.g x) (fun _ => 0) [7, 12] [11, 13, 17] x
        = some (recombine (fieldOps (ZMod 97) root97) 8 x (evaluateAt (fieldOps (ZMod 97) root97)
            [[42, 43, 54, 54, 40, 86, 10, 55], [40, 0, 0, 0, 0, 0, 0, 0]] x)) := by
  have hg : IsPrimitiveRoot P.g air.n := by
    have : P.g = 64 := by decide +kernel
    rw [this]; exact g_primitive
  have h := committed_eq_definition (fun a b => decide (a = b)) (fun a b h => of_decide_eq_true h) air P P_spec
    D97 63 polys (fun _ => []) (fun _ => 0) [7, 12] [11, 13, 17] traceOK (by decide) eight_primitive
    (by decide +kernel) (by decide) hg assertOK degOK (by decide) hoff97 valid
  exact ⟨h.1, (h.2 _ _ trace cols).2⟩

/-- the conclusion is not an empty statement: at `x = 2` (not in the trace domain) the definition, the
    verifier's expression and the recombined committed columns are all the same field element -/
example : (2 : ZMod 97) ^ 8 ≠ 1 ∧
    defAt (fieldOps (ZMod 97) root97) air P polys (fun _ => []) (fun _ => 0) [7, 12] [11, 13, 17] 2
      = some (recombine (fieldOps (ZMod 97) root97) 8 2 (evaluateAt (fieldOps (ZMod 97) root97)
          [[42, 43, 54, 54, 40, 86, 10, 55], [40, 0, 0, 0, 0, 0, 0, 0]] 2)) := by decide +kernel

end Inst97b

-- ============================================================================================
-- (l) with the reference validity predicate of C02
-- ============================================================================================

/-- **the same, for the reference validity predicate of C02.**  `Model.VerifierChecks.Valid A M cols pubs`
    is the predicate `C02.checkMain_iff` proves the executable reference check decides (shape, every
    asserted cell, every transition constraint on exactly the frames `(s, s + 1)`, `s < n − exemptions`,
    over cells reduced mod the prime `M`; tied to `genair::is_valid` by the C02 harness).  `toAir` is the
    corresponding instance of the composition model over `ZMod M` (same constraint trees, the asserted
    public values as assertion values, main segment only — the C02 descriptions have no auxiliary
    segment), `Interpolates`: the trace polynomials take the cells on the trace domain.  For every trace
    the reference check accepts, the committed composition columns recombine to the definition at every
    point off the trace domain, and the verifier's expression agrees. -/
theorem committed_eq_definition_of_reference_valid {M : ℕ} [Fact M.Prime] {root : ℕ → Option (ZMod M)}
    (beq : ZMod M → ZMod M → Bool) (hbeq : ∀ a b, beq a b = true → a = b)
    (A : Model.VerifierChecks.Air) (pubs : List ℕ) (cols : List (List ℕ)) (degs : List Degree)
    (hvalid : Model.VerifierChecks.Valid A M cols pubs)
    (P : Prep (ZMod M)) (hP : prep (fieldOps (ZMod M) root) (toAir M A pubs degs) = some P)
    (D : Domain (ZMod M)) (threshold : ℕ) (mainPolys : ℕ → List (ZMod M))
    (hint : Interpolates root P.g A.n cols mainPolys) (hper : PeriodicOK root P.g A.n A.periodic)
    (rands : ℕ → ZMod M) (tco bco : List (ZMod M))
    (hok : TraceOK root (toAir M A pubs degs) P D) (hlen : A.constraints.length ≤ tco.length)
    (hw : IsPrimitiveRoot D.wce D.ceSize) (hroot : root (Nat.log2 D.ceSize) = some D.wce) (ho : D.offset ≠ 0)
    (hg : IsPrimitiveRoot P.g A.n) (haok : AssertOK root (toAir M A pubs degs) P)
    (hdeg : DeclaredDegreesOK (toAir M A pubs degs) P mainPolys (fun _ => []) rands)
    (hk : A.n * numCompColumns degs A.n A.exemptions ≤ D.ceSize)
    (hoff : ∀ i, (D.ceX (fieldOps (ZMod M) root) i) ^ A.n ≠ 1) :
    CommittedEqDefinition root beq (toAir M A pubs degs) P D threshold mainPolys (fun _ => []) rands tco bco ∧
    ∀ ctr cols', compositionTrace (fieldOps (ZMod M) root) beq (toAir M A pubs degs) P D threshold mainPolys
        (fun _ => []) rands tco bco = some ctr →
      compositionPoly (fieldOps (ZMod M) root) D ctr (numCompColumns degs A.n A.exemptions) = some cols' →
      ∀ x, x ^ A.n ≠ 1 →
        evaluateConstraints (fieldOps (ZMod M) root) (toAir M A pubs degs) P
            (framesOf (fieldOps (ZMod M) root) mainPolys (fun _ => []) P.g x) rands tco bco x
          = some (recombine (fieldOps (ZMod M) root) A.n x (evaluateAt (fieldOps (ZMod M) root) cols' x)) := by
  have hv := validTrace_of_valid root A pubs cols degs P hP hok.hnpos hg hper mainPolys hint rands hvalid
  have h := committed_eq_definition beq hbeq (toAir M A pubs degs) P hP D threshold mainPolys (fun _ => []) rands
    tco bco hok (by simpa [toAir] using hlen) hw hroot ho hg haok hdeg
    (by simpa [toAir] using hk) hoff hv
  refine ⟨h.1, fun ctr cols' htrace hcols => ?_⟩
  have hcols' : compositionPoly (fieldOps (ZMod M) root) D ctr
      (numCompColumns ((toAir M A pubs degs).mainDegs ++ (toAir M A pubs degs).auxDegs) (toAir M A pubs degs).n
        (toAir M A pubs degs).e) = some cols' := by simpa [toAir] using hcols
  exact (h.2 ctr cols' htrace hcols').2

namespace Inst97b
open Inst97

/-- the description of the instance (k) in the form the reference check of C02 reads, with its public
    values `3 | 10 2 | 4` and the trace as cells -/
def refAir : Model.VerifierChecks.Air :=
  ⟨2, 8, 2, [[1, 2]],
   [.sub (.nxt 0) (.add (.mul (.cur 0) (.cur 0)) (.per 0)), .sub (.add (.nxt 1) (.cur 1)) (.const 13)],
   [⟨.single, 0, 0, 0⟩, ⟨.sequence, 0, 1, 4⟩, ⟨.periodic, 1, 0, 2⟩]⟩

def refCols : List (List ℕ) := [[3, 10, 5, 26, 96, 2, 6, 50], [4, 9, 4, 9, 4, 9, 4, 20]]

/-- the composition-model instance of the description is the instance (k) -/
theorem toAir_refAir : toAir 97 refAir [3, 10, 2, 4] [⟨2, [2]⟩, ⟨1, []⟩] = air := by
  unfold toAir air
  congr 1

/-- the reference check accepts the trace (`checkMain … = none`), so it is `Valid` (`C02.checkMain_iff`) -/
example : Model.VerifierChecks.checkMain refAir 97 refCols [3, 10, 2, 4] = none := by decide +kernel

theorem ref_valid : Model.VerifierChecks.Valid refAir 97 refCols [3, 10, 2, 4] := by
  refine ⟨rfl, by decide, rfl, ?_, by decide +kernel⟩
  intro k a hk i hi
  have hk3 : k < 3 := (List.getElem?_eq_some_iff.mp hk).1
  have H : ∀ k (hk : k < 3) i, i < ((refAir.assertions[k]'hk).steps refAir.n).length →
      Model.VerifierChecks.assertionHolds refAir refCols [3, 10, 2, 4] k i = true := by decide +kernel
  obtain ⟨_, rfl⟩ := List.getElem?_eq_some_iff.mp hk
  exact H k hk3 i hi

theorem interpolates : Interpolates root97 P.g 8 refCols polys where
  len := valid.mainLen
  cells := by
    intro j col hj s v hs
    have hg : P.g = 64 := by decide +kernel
    have H : ∀ j (hj : j < refCols.length) s (hs : s < (refCols[j]).length),
        polyEval (fieldOps (ZMod 97) root97) (polys j) (64 ^ s) = ((refCols[j][s] : ℕ) : ZMod 97) := by
      decide +kernel
    obtain ⟨hj', rfl⟩ := List.getElem?_eq_some_iff.mp hj
    obtain ⟨hs', rfl⟩ := List.getElem?_eq_some_iff.mp hs
    rw [hg]
    exact H j hj' s hs'

/-- `validTrace_of_valid` on the instance: the reference predicate yields the `ValidTrace` that (k)
    checked directly -/
example : ValidTrace root97 air P polys (fun _ => []) (fun _ => 0) := by
  have hP : prep (fieldOps (ZMod 97) root97) (toAir 97 refAir [3, 10, 2, 4] [⟨2, [2]⟩, ⟨1, []⟩]) = some P := by
    rw [toAir_refAir]; exact P_spec
  have hg : IsPrimitiveRoot P.g 8 := by
    have : P.g = 64 := by decide +kernel
    rw [this]; exact g_primitive
  have h := validTrace_of_valid root97 refAir [3, 10, 2, 4] refCols [⟨2, [2]⟩, ⟨1, []⟩] P hP (by decide) hg
    (by
      intro p hp
      have : p = [1, 2] := by simpa [refAir] using hp
      subst this
      exact ⟨by decide, by decide +kernel⟩)
    polys interpolates (fun _ => 0) ref_valid
  rw [toAir_refAir] at h
  exact h

end Inst97b

end WinterProofs.C17
