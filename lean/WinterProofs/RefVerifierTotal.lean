-- Reference verifier, continued:
-- (a) the hypothesis of `refVerify_ok_implies` is satisfied by real prover output (the kernel-checked acceptance of
--     WinterProofs/RefVerifierWitness.lean);
-- (b) `refVerify_never_panics` (= `RefVerifyTotal`): for EVERY instantiation satisfying `InstOk` (the three
--     instances do), EVERY description of the family and EVERY byte string the reference verifier returns a verdict,
--     and a `panic` verdict is one of the panics the REAL code has: on a trace shape the computation does not fit
--     (`Air::new`, the AIR's callbacks inside `evaluate_constraints`; recorded finding c06.verify.air-new), or the
--     `expect` on `get_aux_rand_elements` (the coin not producing a field element within its 1000 tries).  On top
--     of the byte-level part (WinterProofs/RefVerifier.lean, C06) this needs: after the front end has passed, the
--     decision function `VerifierChecks.verify` reaches none of its index sites — `core_no_panic`:
--       * the parsed channel has one root per trace segment, one FRI root per scheduled layer plus the remainder's,
--         the scheduled number of layers, rows of exactly `folding` entries, and every fold leaves a non-empty
--         domain (`channel_ok_fri`: what `Commitments::parse` / `FriProof::parse_layers` guarantee);
--       * the two renderings of `num_fri_layers` agree (`numLayersLoop_eq_friLayers`), `FriOptions` carries the
--         numbers of a parsed option set, the LDE domain is a power of two;
--       * the query positions are inside the domain (C19's `drawIntegers_ok`, `sort; dedup` only removes);
--       * then the layer loop finds every index (`friLayers_no_panic`: `fold_positions` on a non-empty target,
--         one opened row per folded position by the Merkle check's leaf count, `get_query_values` inside the rows).
import WinterProofs.RefVerifier
import WinterProofs.RefVerifierWitness
import WinterProofs.RefVerifierWitnessAux
import WinterProofs.Lemmas.C15Positions
import WinterProofs.Lemmas.C10Bind
import WinterProofs.C19
import WinterProofs.Lemmas.C03Parse
import WinterProofs.Lemmas.C01
import WinterProofs.Lemmas.RefVDraw

namespace WinterProofs.RefVerifier
open Model Model.VerifierChecks Model.RefVerifier

/-- everything `refVerify_ok_implies` lists holds for the honest proof `honestSq8`: the theorem's hypothesis is
    satisfied by real prover output -/
example := refVerify_ok_implies Inst.rp64 descSq8 honestSq8Pubs (.optionSet [⟨1, 4, 0, 1, 2, 1⟩]) honestSq8 refVerify_accepts_honest

/-- ... and for the honest proof `honestAux8` of a computation with an auxiliary segment: the auxiliary random
    element it was checked with is the draw that follows the main commitment, both trace openings verify, the OOD
    consistency equation holds with the auxiliary transition constraint and boundary assertion -/
example := refVerify_ok_implies Inst.rp64 descAux8 honestAux8Pubs (.optionSet [⟨1, 2, 0, 1, 4, 1⟩]) honestAux8
  refVerify_accepts_honest_aux

/-! ## what a successful channel parse says about the FRI part -/

section chanfacts
open Model.Serde WinterProofs.C12L

theorem readMany_spec {α : Type} (d : Dec α) (P : α → Prop) (hP : ∀ bs x r, d bs = .ok (x, r) → P x) :
    ∀ (n : Nat) (bs : Bytes) (xs : List α) (r : Bytes), readMany d n bs = .ok (xs, r) →
      xs.length = n ∧ ∀ x ∈ xs, P x
  | 0, bs, xs, r, h => by
    simp only [readMany, pure_apply] at h
    injection h with h; injection h with h1 _
    subst h1; exact ⟨rfl, fun _ hx => (by cases hx)⟩
  | n + 1, bs, xs, r, h => by
    simp only [readMany, bind_apply] at h
    split at h <;> try (cases h; done)
    rename_i x r1 hx
    split at h <;> try (cases h; done)
    rename_i xs' r2 hxs
    simp only [pure_apply] at h
    injection h with h; injection h with h1 _
    subst h1
    obtain ⟨hl, hall⟩ := readMany_spec d P hP n r1 xs' r2 hxs
    refine ⟨by simp [hl], fun y hy => ?_⟩
    rcases List.mem_cons.mp hy with rfl | hy
    · exact hP _ _ _ hx
    · exact hall y hy

theorem runAll_ok {α : Type} {d : Dec α} {bs : Bytes} {x : α} (h : runAll d bs = .ok x) :
    ∃ r, d bs = .ok (x, r) := by
  unfold runAll at h
  split at h
  · rename_i y rest hy
    split at h
    · injection h with h; subst h; exact ⟨rest, hy⟩
    · cases h
  · cases h
  · cases h
  · cases h

theorem commitmentsParse_lengths {δ : Type} (d : Codec δ) (bytes : Bytes) (nt nf : Nat) (t : List δ) (c : δ)
    (f : List δ) (h : commitmentsParse d bytes nt nf = .ok (t, c, f)) : t.length = nt ∧ f.length = nf + 1 := by
  unfold commitmentsParse at h
  obtain ⟨r, hr⟩ := runAll_ok h
  simp only [bind_apply] at hr
  split at hr <;> try (cases hr; done)
  rename_i t' r1 ht
  split at hr <;> try (cases hr; done)
  rename_i c' r2 _
  split at hr <;> try (cases hr; done)
  rename_i f' r3 hf
  simp only [pure_apply] at hr
  injection hr with hr; injection hr with h1 _
  injection h1 with h1 h2; injection h2 with h2 h3
  subst h1; subst h3
  exact ⟨(readMany_spec d.dec (fun _ => True) (fun _ _ _ _ => trivial) nt bytes _ _ ht).1,
    (readMany_spec d.dec (fun _ => True) (fun _ _ _ _ => trivial) (nf + 1) _ _ _ hf).1⟩

theorem friLayerParse_rows {ε δ : Type} (e : Codec ε) (eb : Nat) (d : Codec δ) (l : FriLayer) (depth folding : Nat)
    (rows : List (List ε)) (nodes : List (List δ)) (h : friLayerParse e eb d l depth folding = .ok (rows, nodes)) :
    ∀ row ∈ rows, row.length = folding := by
  unfold friLayerParse at h
  simp only [] at h
  split at h; · cases h
  split at h; · cases h
  split at h; · cases h
  split at h <;> try (cases h; done)
  rename_i rows' hrows
  split at h; · cases h
  split at h <;> try (cases h; done)
  injection h with h; injection h with h1 _
  subst h1
  obtain ⟨r, hr⟩ := runAll_ok hrows
  refine (readMany_spec (array folding e).dec (fun row => row.length = folding) ?_ _ _ _ _ hr).2
  intro bs x r hx
  exact (readMany_spec e.dec (fun _ => True) (fun _ _ _ _ => trivial) folding bs x r hx).1

theorem friLayersParse_facts {ε δ : Type} (e : Codec ε) (eb : Nat) (d : Codec δ) (folding : Nat) :
    ∀ (ls : List FriLayer) (dom : Nat) (xs : List (List (List ε) × List (List δ))),
      friLayersParse e eb d folding ls dom = .ok xs →
      (∀ x ∈ xs, ∀ row ∈ x.1, row.length = folding) ∧ ∀ i, i < xs.length → dom / folding ^ (i + 1) ≠ 0 := by
  intro ls
  induction ls with
  | nil =>
    intro dom xs h
    simp only [friLayersParse] at h
    injection h with h; subst h
    exact ⟨fun _ hx => (by cases hx), fun i hi => (by simp at hi)⟩
  | cons l ls ih =>
    intro dom xs h
    simp only [friLayersParse] at h
    split at h; · cases h
    rename_i hdom
    split at h <;> try (cases h; done)
    rename_i x hx
    split at h <;> try (cases h; done)
    rename_i xs' hxs
    injection h with h; subst h
    obtain ⟨h1, h2⟩ := ih _ _ hxs
    refine ⟨fun y hy => ?_, fun i hi => ?_⟩
    · rcases List.mem_cons.mp hy with rfl | hy
      · obtain ⟨rows, nodes⟩ := y
        exact friLayerParse_rows e eb d l _ folding rows nodes hx
      · exact h1 y hy
    · cases i with
      | zero => simpa using hdom
      | succ j =>
        have := h2 j (by simpa using hi)
        rw [Nat.pow_succ', ← Nat.div_div_eq_div_mul]
        exact this

theorem channel_ok_fri (cfg : ChanCfg) (p : Serde.Proof) (c : ParsedChannel) (h : channelParse cfg p = .ok c) :
    c.traceRoots.length = cfg.numSegments ∧ c.friRoots.length = cfg.numFriLayers + 1 ∧
    c.friLayers.length = cfg.numFriLayers ∧
    (∀ l ∈ c.friLayers, ∀ row ∈ l.rows, row.length = cfg.folding) ∧
    (∀ i, i < cfg.numFriLayers → 2 ^ cfg.ldeLog / cfg.folding ^ (i + 1) ≠ 0) ∧
    c.numPartitions = 2 ^ p.friProof.numPartitions := by
  unfold channelParse at h
  simp only at h
  split at h <;> try cases h
  rename_i troots croot froots hcm
  split at h; · cases h
  split at h; · cases h
  split at h; · cases h
  split at h <;> try cases h
  split at h <;> try cases h
  split at h <;> try cases h
  split at h; · cases h
  rename_i hlay
  split at h <;> try cases h
  split at h <;> try cases h
  rename_i layers hlp
  split at h <;> try cases h
  split at h; · cases h
  split at h; · cases h
  injection h with h
  subst h
  obtain ⟨ht, hf⟩ := commitmentsParse_lengths _ _ _ _ _ _ _ hcm
  obtain ⟨hrows, hdom⟩ := friLayersParse_facts _ _ _ _ _ _ _ hlp
  have hlen : layers.length = cfg.numFriLayers := by
    rw [WinterProofs.C03L.friLayersParse_length _ _ _ _ _ _ _ hlp]
    exact Decidable.of_not_not hlay
  refine ⟨ht, hf, by simp only [List.length_map]; exact hlen, ?_, ?_, rfl⟩
  · intro l hl row hrow
    simp only [List.mem_map] at hl
    obtain ⟨x, hx, rfl⟩ := hl
    exact hrows x hx row hrow
  · intro i hi
    exact hdom i (by omega)

end chanfacts

/-! ## schedule and options of a parsed context -/

section schedule
open WinterProofs.C06L

/-- the two renderings of `num_fri_layers` (FRI model, protocol glue) agree -/
theorem numLayersLoop_eq_friLayers (maxRem N : Nat) (hf : 2 ≤ N) :
    ∀ d, Fri.numLayersLoop maxRem N hf d = (Protocol.friLayers d maxRem N).1 := by
  intro d
  induction d using Nat.strongRecOn with
  | _ d ih =>
    rw [Fri.numLayersLoop, Protocol.friLayers]
    by_cases h : maxRem < d
    · rw [dif_pos h, dif_pos ⟨h, hf⟩]
      simp only []
      rw [ih (d / N) (Nat.div_lt_self (by omega) hf)]
    · rw [dif_neg h, dif_neg (fun hh => h hh.1)]

open Gen.Limits in
theorem folding_cases (o : Serde.ProofOptions) (h : o.wf = true) :
    o.folding = 2 ∨ o.folding = 4 ∨ o.folding = 8 ∨ o.folding = 16 := by
  obtain ⟨_, _, _, hpf, hf2, _, _, _⟩ := opt_facts o h
  have hle : o.folding ≤ 16 := by
    simp only [Serde.ProofOptions.wf, Bool.and_eq_true, decide_eq_true_eq] at h
    simp only [FRI_MAX_FOLDING_FACTOR] at h
    omega
  have he := pow2_eq hpf
  generalize o.folding.log2 = k at he
  rw [he] at hf2 hle ⊢
  have hk4 : k ≤ 4 := by
    rcases Nat.lt_or_ge k 5 with h5 | h5
    · omega
    · have : 2 ^ 5 ≤ 2 ^ k := Nat.pow_le_pow_right (by omega) h5
      omega
  have hk1 : 1 ≤ k := by
    rcases Nat.lt_or_ge k 1 with h0 | h0
    · have : k = 0 := by omega
      subst this; simp at hf2
    · exact h0
  have : k = 1 ∨ k = 2 ∨ k = 3 ∨ k = 4 := by omega
  rcases this with rfl | rfl | rfl | rfl <;> simp

/-- `FriOptions` of a well-formed option set carries its numbers -/
theorem friOpts_eq (o : Serde.ProofOptions) (h : o.wf = true) :
    (friOpts o).blowup = o.blowup ∧ (friOpts o).folding = o.folding ∧ (friOpts o).remMaxDeg = o.remDeg := by
  obtain ⟨hpb, _, _, _, _, _, _, _⟩ := opt_facts o h
  have hb : o.blowup ≠ 0 ∧ 2 ^ Nat.log2 o.blowup = o.blowup := by
    have := pow2_eq hpb
    refine ⟨?_, this.symm⟩
    intro h0
    simp only [Serde.pow2, Bool.and_eq_true, bne_iff_ne] at hpb
    exact hpb.1 h0
  have hf := folding_cases o h
  unfold friOpts Fri.Opts.new?
  rw [dif_pos hb, dif_pos hf]
  exact ⟨rfl, rfl, rfl⟩

theorem fri_nextPow2_pow (k : Nat) : Fri.nextPow2 (2 ^ k) = 2 ^ k := by
  have h1 : Fri.nextPow2 (2 ^ k) = Protocol.nextPow2 (2 ^ k) := rfl
  rw [h1]
  exact Nat.le_antisymm (WinterProofs.C01L.nextPow2_le_pow _ _ (Nat.le_refl _)) (WinterProofs.C01L.nextPow2_ge _)

theorem mem_insertSortedDedup (x y : Nat) : ∀ l : List Nat, y ∈ insertSortedDedup x l → y = x ∨ y ∈ l
  | [], h => by simp [insertSortedDedup] at h; exact Or.inl h
  | z :: zs, h => by
    unfold insertSortedDedup at h
    split at h
    · rcases List.mem_cons.mp h with rfl | h
      · exact Or.inl rfl
      · exact Or.inr h
    · split at h
      · exact Or.inr h
      · rcases List.mem_cons.mp h with rfl | h
        · exact Or.inr List.mem_cons_self
        · rcases mem_insertSortedDedup x y zs h with h | h
          · exact Or.inl h
          · exact Or.inr (List.mem_cons_of_mem _ h)

theorem mem_sortDedup (y : Nat) : ∀ l : List Nat, y ∈ sortDedup l → y ∈ l
  | [], h => by simp [sortDedup] at h
  | x :: xs, h => by
    have h' : y ∈ insertSortedDedup x (sortDedup xs) := by simpa [sortDedup] using h
    rcases mem_insertSortedDedup x y _ h' with rfl | h''
    · exact List.mem_cons_self
    · exact List.mem_cons_of_mem _ (mem_sortDedup y xs h'')

end schedule

/-! ## the layer loop reaches none of its panic sites -/

section core
variable {C D V : Type} [DecidableEq D] [DecidableEq V]
set_option linter.unusedSectionVars false

theorem mapM_option_some {α β : Type} (f : α → Option β) :
    ∀ l : List α, (∀ x ∈ l, ∃ v, f x = some v) → ∃ vs, l.mapM f = some vs
  | [], _ => ⟨[], rfl⟩
  | x :: xs, h => by
    obtain ⟨v, hv⟩ := h x List.mem_cons_self
    obtain ⟨vs, hvs⟩ := mapM_option_some f xs (fun y hy => h y (List.mem_cons_of_mem _ hy))
    exact ⟨v :: vs, by simp [List.mapM_cons, hv, hvs]⟩

/-- `get_query_values` finds every value: each position's folded position is in the list, there is one row per
    folded position, every row has `N` entries and `N` divides the domain -/
theorem getQueryValues_some {α : Type} (rows : List (List α)) (pos folded : List Nat) (dom N : Nat)
    (hm : dom / N ≠ 0) (hf : Fri.foldPositions pos dom N = some folded)
    (hrows : rows.length = folded.length) (hrow : ∀ r ∈ rows, r.length = N)
    (hlt : ∀ p ∈ pos, p / (dom / N) < N) :
    ∃ qv, Fri.getQueryValues rows pos folded dom N = some qv := by
  unfold Fri.getQueryValues
  simp only []
  rw [if_neg hm]
  apply mapM_option_some
  intro p hp
  obtain ⟨idx, hidx, hget⟩ := WinterProofs.C15.foldPositions_idxOf hm hf p hp
  rw [hidx]
  simp only []
  have hi : idx < folded.length := by
    rcases Nat.lt_or_ge idx folded.length with h | h
    · exact h
    · rw [List.getElem?_eq_none h] at hget
      cases hget
  have hir : idx < rows.length := by omega
  rw [List.getElem?_eq_getElem hir]
  simp only []
  have hl := hrow _ (List.getElem_mem hir)
  have : p / (dom / N) < (rows[idx]).length := by rw [hl]; exact hlt p hp
  exact ⟨_, List.getElem?_eq_getElem this⟩

theorem openingOk_length (W : Verifier C D V) (root : D) (idx : List Nat) (o : Opening V D) (depth : Nat)
    (h : openingOk W root idx o depth = true) : o.rows.length = idx.length := by
  unfold openingOk at h
  have hv : Merkle.verifyBatch W.merkle root idx (o.proof W depth) = .ok () := by simpa using h
  have hg := WinterProofs.C10.verifyBatch_ok W.merkle root idx _ hv
  obtain ⟨_, _, hlen, _⟩ := WinterProofs.C10.getRoot_ok_stages W.merkle _ idx _ hg
  simpa [Opening.proof] using hlen.symm

theorem mapPositionsToIndexes_some (folded : List Nat) (dom N np : Nat) (hnp : np ≠ 0) :
    ∃ idx, Fri.mapPositionsToIndexes folded dom N np = some idx ∧ idx.length = folded.length := by
  unfold Fri.mapPositionsToIndexes
  by_cases h1 : np = 1
  · exact ⟨folded, by simp [h1], rfl⟩
  · rw [if_neg h1, if_neg hnp]
    exact ⟨_, rfl, by simp⟩

/-- the layer loop of the FRI verifier reaches none of its panic sites when: the domain is `2^a`, the folding factor
    `2^b` with `count·b ≤ a` (every remaining fold leaves a non-empty domain), the positions are inside the
    domain, there are commitments, layers and α's for the remaining depths, and every opened row has `N` entries -/
theorem friLayers_no_panic (W : Verifier C D V) (A : AirInst C D V) (roots : List D) (layers : List (Opening V D))
    (alphas : List V) (np b : Nat) (hN : A.fri.folding = 2 ^ b) (hb : 1 ≤ b) (hnp : np ≠ 0)
    (hrowlen : ∀ l ∈ layers, ∀ row ∈ l.rows, row.length = A.fri.folding) :
    ∀ (count depth : Nat) (pos : List Nat) (ev : List V) (a md : Nat),
      (∀ p ∈ pos, p < 2 ^ a) → count * b ≤ a →
      depth + count ≤ roots.length → depth + count ≤ layers.length → depth + count ≤ alphas.length →
      ∀ s, friLayers W A roots layers alphas np count depth pos ev (2 ^ a) md ≠ .error (.panic s) := by
  intro count
  induction count with
  | zero =>
    intro depth pos ev a md _ _ _ _ _ s h
    simp only [friLayers] at h
    cases h
  | succ count ih =>
    intro depth pos ev a md hpos hab hr hl hal s
    have hba : b ≤ a := by
      have : b ≤ (count + 1) * b := Nat.le_mul_of_pos_left b (by omega)
      omega
    have hdiv : 2 ^ a / A.fri.folding = 2 ^ (a - b) := by rw [hN, Nat.pow_div hba (by omega)]
    have hne : 2 ^ a / A.fri.folding ≠ 0 := by rw [hdiv]; exact Nat.ne_of_gt (Nat.pow_pos (by omega))
    obtain ⟨folded, hfold⟩ : ∃ folded, Fri.foldPositions pos (2 ^ a) A.fri.folding = some folded :=
      ⟨_, WinterProofs.C15.foldPositions_eq pos (2 ^ a) A.fri.folding hne⟩
    obtain ⟨idx, hidx, hidxlen⟩ := mapPositionsToIndexes_some folded (2 ^ a) A.fri.folding np hnp
    have hroot : depth < roots.length := by omega
    have hlayer : depth < layers.length := by omega
    have halpha : depth < alphas.length := by omega
    simp only [friLayers, hfold, hidx, List.getElem?_eq_getElem hroot, List.getElem?_eq_getElem hlayer,
      List.getElem?_eq_getElem halpha]
    split
    · intro h; cases h
    · rename_i hopen
      have hopen' : openingOk W roots[depth] idx layers[depth] (Nat.log2 (2 ^ a / A.fri.folding)) = true := by
        simpa using hopen
      have hrows := openingOk_length W _ _ _ _ hopen'
      have hlt : ∀ p ∈ pos, p / (2 ^ a / A.fri.folding) < A.fri.folding := by
        intro p hp
        rw [Nat.div_lt_iff_lt_mul (Nat.pos_of_ne_zero hne), hdiv, hN, ← Nat.pow_add]
        have : b + (a - b) = a := by omega
        rw [this]
        exact hpos p hp
      obtain ⟨qv, hqv⟩ := getQueryValues_some layers[depth].rows pos folded (2 ^ a) A.fri.folding hne hfold
        (by rw [hrows, hidxlen]) (hrowlen _ (List.getElem_mem hlayer)) hlt
      rw [hqv]
      simp only []
      split
      · intro h; cases h
      · split
        · intro h; cases h
        · have hfl := WinterProofs.C15.foldPositions_lt hne hfold
          rw [hdiv] at hfl ⊢
          refine ih (depth + 1) _ _ (a - b) _ hfl ?_ (by omega) (by omega) (by omega) s
          have : (count + 1) * b = count * b + b := by rw [Nat.add_mul, Nat.one_mul]
          omega

end core

/-! ## the decision function reaches none of its panic sites -/

section decision
variable {C D V : Type} [DecidableEq D] [DecidableEq V]
set_option linter.unusedSectionVars false

theorem drawMany_zero (K : CoinOps C D V) (c : C) : drawMany K 0 c = some ([], c) := rfl

theorem friNew_no_panic (K : CoinOps C D V) (N total : Nat) :
    ∀ (roots : List D) (depth md : Nat) (c : C) (s : String),
      friNew K N total roots depth md c ≠ .error (.panic s) := by
  intro roots
  induction roots with
  | nil => intro depth md c s h; simp only [friNew] at h; cases h
  | cons r rs ih =>
    intro depth md c s h
    simp only [friNew] at h
    split at h
    · cases h
    · split at h
      · cases h
      · split at h
        · cases h
        · rename_i e he
          injection h with h
          subst h
          exact ih _ _ _ _ he

/-- the only panic of the auxiliary-segment phase (with or without Lagrange kernel column / GKR verifier), given a
    commitment per segment: the `expect` on the auxiliary random elements -/
theorem auxPhase_panic_site (K : CoinOps C D V) (A : AirInst C D V) (cm : Committed V D) (c1 : C) (r0 : D)
    (rest : List D)
    (h2 : A.multiSegment = true → rest ≠ []) (s : String)
    (h : auxPhase K A cm c1 r0 rest = .error (.panic s)) : s = "get_aux_rand_elements" := by
  unfold auxPhase at h
  split at h
  · cases h
  · rename_i hm
    have hm' : A.multiSegment = true := by simpa using hm
    split at h
    · exact absurd rfl (h2 hm')
    · split at h
      · split at h
        · cases h
        · split at h
          · cases h
          · split at h
            · injection h with h; injection h with h; exact h.symm
            · cases h
      · split at h
        · injection h with h; injection h with h; exact h.symm
        · cases h

theorem challenges_panic_site (W : Verifier C D V) (ctx : Serde.Context) (cm : Committed V D)
    (h1 : cm.traceRoots ≠ []) (h2 : (W.air ctx).multiSegment = true → 2 ≤ cm.traceRoots.length) (s : String)
    (h : challenges W ctx cm = .error (.panic s)) : s = "get_aux_rand_elements" := by
  unfold challenges at h
  simp only at h
  split at h
  · rename_i hnil; exact absurd hnil h1
  · rename_i r0 rest hroots
    split at h
    · rename_i e he
      injection h with h
      subst h
      refine auxPhase_panic_site _ _ _ _ _ _ ?_ s he
      intro hm
      have := h2 hm
      rw [hroots] at this
      intro hr; subst hr; simp at this
    · split at h
      · cases h
      · split at h
        · cases h
        · split at h
          · cases h
          · split at h
            · cases h
            · split at h
              · rename_i e he
                injection h with h
                subst h
                exact absurd he (friNew_no_panic _ _ _ _ _ _ _ s)
              · split at h
                · cases h
                · split at h
                  · cases h
                  · cases h

/-- a panic of the challenge phase is the missing first trace commitment or a panic of the auxiliary-segment phase -/
theorem challenges_panic_cases (W : Verifier C D V) (ctx : Serde.Context) (cm : Committed V D) (s : String)
    (h : challenges W ctx cm = .error (.panic s)) :
    cm.traceRoots = [] ∨ ∃ r0 rest, cm.traceRoots = r0 :: rest ∧
      auxPhase W.coin (W.air ctx) cm (W.coin.reseed (W.coin.new (coinSeed W.elemBytes ctx W.pubElems)) r0) r0 rest
        = .error (.panic s) := by
  unfold challenges at h
  simp only at h
  split at h
  · rename_i hnil; exact Or.inl hnil
  · rename_i r0 rest hroots
    refine Or.inr ⟨r0, rest, hroots, ?_⟩
    split at h
    · rename_i e he
      injection h with h
      subst h
      exact he
    · split at h
      · cases h
      · split at h
        · cases h
        · split at h
          · cases h
          · split at h
            · cases h
            · split at h
              · rename_i e he
                injection h with h
                subst h
                exact absurd he (friNew_no_panic _ _ _ _ _ _ _ s)
              · split at h
                · cases h
                · split at h
                  · cases h
                  · cases h

theorem friRemainder_no_panic (W : Verifier C D V) (A : AirInst C D V) (roots : List D) (rem : List V)
    (numLayers : Nat) (pos : List Nat) (ev : List V) (dom md : Nat) (s : String) :
    friRemainder W A roots rem numLayers pos ev dom md ≠ .error (.panic s) := by
  intro h
  unfold friRemainder at h
  split at h
  · cases h
  · split at h
    · cases h
    · split at h <;> cases h

/-- a panic outcome of `verify` comes from the challenge phase or from the layer loop -/
theorem verify_panic_cases (W : Verifier C D V) (ctx : Serde.Context) (cm : Committed V D) (op : Opened V D)
    (s : String) (h : VerifierChecks.verify W ctx (some (cm, op)) = .error (.panic s)) :
    challenges W ctx cm = .error (.panic s) ∨
    ∃ ch, challenges W ctx cm = .ok ch ∧
      friLayers W (W.air ctx) cm.friRoots op.friLayers ch.alphas op.numPartitions
        (Fri.numFriLayers (W.air ctx).fri (Fri.nextPow2 ((W.air ctx).tracePolyDegree + 1) * (W.air ctx).fri.blowup)) 0
        ch.positions
        ((W.air ctx).deepCompose ch.positions ch.z ch.deep (op.traceOpenings.map (·.rows)) op.constraintOpening.rows
          cm.oodTrace cm.oodEvals)
        (Fri.nextPow2 ((W.air ctx).tracePolyDegree + 1) * (W.air ctx).fri.blowup) ((W.air ctx).tracePolyDegree + 1)
        = .error (.panic s) := by
  unfold VerifierChecks.verify at h
  split at h; · cases h
  split at h; · cases h
  split at h; · cases h
  simp only at h
  split at h
  · rename_i e he
    injection h with h
    subst h
    exact Or.inl he
  · rename_i ch hch
    refine Or.inr ⟨ch, hch, ?_⟩
    unfold checkOpened at h
    simp only at h
    split at h; · cases h
    split at h; · cases h
    unfold friVerify at h
    split at h; · cases h
    simp only at h
    split at h
    · rename_i e he
      injection h with h
      subst h
      exact he
    · exact absurd h (friRemainder_no_panic _ _ _ _ _ _ _ _ _ s)

end decision

/-! ## the reference verifier: every panic verdict is a panic of the real code -/

section total
open Model.Parse WinterProofs.C06 WinterProofs.C06L

theorem rawOpening_rows_length (J : Inst) (o : ParsedOpening) (n : Nat) (h : ∀ row ∈ o.rows, row.length = n) :
    ∀ row ∈ (rawOpening J o).rows, row.length = n := by
  intro row hrow
  simp only [rawOpening, List.mem_map] at hrow
  obtain ⟨r, hr, rfl⟩ := hrow
  simpa using h r hr

/-- `draw_integers` of the concrete coin returns positions inside the domain -/
theorem drawInts_lt (J : Inst) (E : EOps) (c : Coin.Coin Dg) (n dom nonce : Nat) (ps : List Nat)
    (h : (coinOps J E).drawInts c n dom nonce = some ps) : ∀ v ∈ ps, v < dom := by
  simp only [coinOps] at h
  split at h
  · rename_i vs c' hd
    injection h with h
    subst h
    exact (C19.drawIntegers_ok (hashOps J) n dom nonce c _ c' hd).1
  · cases h

/-- after the front end has passed, the decision function reaches none of its index sites: a panic outcome is a panic
    of the challenge phase, and there is a commitment for every trace segment -/
theorem core_panic_is_challenge (J : Inst) (d : Desc) (pubs : List Nat) (acc : Acceptable) (bs : List Nat) (hb : BytesOk bs)
    (p : Serde.Proof) (ncols : Nat) (E : EOps) (c : ParsedChannel) (hf : FrontPassed J d pubs acc bs p ncols E c)
    (s : String)
    (hv : VerifierChecks.verify (mkVerifier J E d pubs acc) p.context (some (committedOf J c, openedOf J c))
      = .error (.panic s)) :
    challenges (mkVerifier J E d pubs acc) p.context (committedOf J c) = .error (.panic s) ∧
    (committedOf J c).traceRoots ≠ [] ∧
    (((mkVerifier J E d pubs acc).air p.context).multiSegment = true → 2 ≤ (committedOf J c).traceRoots.length) := by
  have hpok := (parseProof_invariants bs hb p hf.parsed).1
  obtain ⟨hctx, _, _, _, _⟩ := hpok
  obtain ⟨_, _, hpl, hn8⟩ := ti_facts _ hctx.1
  obtain ⟨hpb, _, _, hpf, hf2, _, _, _⟩ := opt_facts _ hctx.2.1
  obtain ⟨fob, fof, fr⟩ := friOpts_eq _ hctx.2.1
  obtain ⟨htr, hfr, hfl, hrows, hdom, hnp⟩ := channel_ok_fri _ _ _ hf.channel
  -- the numbers of the instance
  generalize hti : p.context.traceInfo = ti at *
  generalize ho : p.context.options = o at *
  have hlde2 : Serde.pow2 (ti.length * o.blowup) = true := pow2_mul hpl hpb
  have hlde := pow2_eq hlde2
  have hfold := pow2_eq hpf
  have hb1 : 1 ≤ o.folding.log2 := (Nat.le_log2 (by omega)).mpr (by simpa using hf2)
  have hn : ti.length = 2 ^ ti.length.log2 := pow2_eq hpl
  rcases verify_panic_cases _ _ _ _ s hv with hch | ⟨ch, hch, hloop⟩
  · -- the challenge phase
    refine ⟨hch, ?_, ?_⟩
    · intro hnil
      have : (committedOf J c).traceRoots.length = 0 := by rw [hnil]; rfl
      simp only [committedOf, List.length_map] at this
      rw [htr] at this
      simp only [chanCfg, hti] at this
      unfold Serde.TraceInfo.numSegments at this
      split at this <;> omega
    · intro hm
      have hm' : ti.aux > 0 := by
        simp only [mkVerifier, airInst, hti] at hm
        simpa using hm
      simp only [committedOf, List.length_map]
      rw [htr]
      simp only [chanCfg, hti]
      unfold Serde.TraceInfo.numSegments
      rw [if_pos hm']
      exact Nat.le_refl 2
  · -- the layer loop
    exfalso
    rw [air_eq, airInst_fri, airInst_degree, airInst_deepCompose] at hloop
    simp only [hti, ho] at hloop
    rw [fob] at hloop
    have hn1 : ti.length - 1 + 1 = ti.length := by omega
    rw [hn1] at hloop
    have hnp2 : Fri.nextPow2 ti.length = ti.length := by
      rw [hn]; exact fri_nextPow2_pow _
    rw [hnp2, hlde] at hloop
    -- the number of layers is the scheduled one
    have hL : Fri.numFriLayers (friOpts o) (2 ^ (ti.length * o.blowup).log2)
        = (chanCfg J d p.context ncols).numFriLayers := by
      unfold Fri.numFriLayers
      rw [numLayersLoop_eq_friLayers, ← hlde]
      simp only [chanCfg, hti, ho]
      rw [fob, fof, fr]
    obtain ⟨_, _, _, _, _, _, _, _, _, ps, _, _, _, _, _, _, hfri, _, hps, hpos, _, _⟩ :=
      (WinterProofs.C02L.challenges_ok hch).ex
    have halphas := (WinterProofs.C02L.friNew_log _ _ _ _ hfri).2
    refine friLayers_no_panic (mkVerifier J E d pubs acc) (airInst J E d pubs p.context) (committedOf J c).friRoots
      (openedOf J c).friLayers ch.alphas (openedOf J c).numPartitions o.folding.log2 ?_ hb1 ?_ ?_ _ 0 ch.positions _
      (ti.length * o.blowup).log2 _ ?_ ?_ ?_ ?_ ?_ s hloop
    · rw [airInst_fri, ho, fof]; exact hfold
    · show c.numPartitions ≠ 0
      rw [hnp]; exact Nat.ne_of_gt (Nat.pow_pos (by omega))
    · intro l hl
      simp only [openedOf, List.mem_map] at hl
      obtain ⟨o', ho', rfl⟩ := hl
      rw [airInst_fri, ho, fof]
      refine rawOpening_rows_length J o' _ ?_
      have := hrows o' ho'
      simpa [chanCfg, ho] using this
    · -- positions inside the domain
      intro q hq
      rw [hpos] at hq
      have hq' := mem_sortDedup q ps hq
      rw [air_eq, airInst_numQueries, airInst_ldeSize, mk_drawInts] at hps
      have := drawInts_lt J E _ _ _ _ ps hps q hq'
      rw [hti, ho] at this
      rw [← hlde]; exact this
    · -- every fold leaves a non-empty domain
      rw [hL]
      generalize hLL : (chanCfg J d p.context ncols).numFriLayers = L at hdom ⊢
      rcases Nat.eq_zero_or_pos L with h0 | hpos'
      · subst h0; simp
      · have := hdom (L - 1) (by omega)
        have hL1 : L - 1 + 1 = L := by omega
        rw [hL1] at this
        simp only [chanCfg, hti, ho] at this
        rw [hfold, ← Nat.pow_mul] at this
        rcases Nat.lt_or_ge ((ti.length * o.blowup).log2) (o.folding.log2 * L) with hlt | hge
        · exfalso
          apply this
          apply Nat.div_eq_of_lt
          exact Nat.pow_lt_pow_right (by omega) hlt
        · rw [Nat.mul_comm]; exact hge
    · rw [hL]
      simp only [committedOf, List.length_map]
      omega
    · rw [hL]
      simp only [openedOf, List.length_map]
      omega
    · rw [hL, halphas]
      simp only [committedOf, List.length_map]
      omega

/-- after the front end has passed, the only panic outcome of the decision function is the `expect` on the auxiliary
    random elements -/
theorem core_no_panic (J : Inst) (d : Desc) (pubs : List Nat) (acc : Acceptable) (bs : List Nat) (hb : BytesOk bs)
    (p : Serde.Proof) (ncols : Nat) (E : EOps) (c : ParsedChannel) (hf : FrontPassed J d pubs acc bs p ncols E c)
    (s : String)
    (hv : VerifierChecks.verify (mkVerifier J E d pubs acc) p.context (some (committedOf J c, openedOf J c))
      = .error (.panic s)) : s = "get_aux_rand_elements" := by
  obtain ⟨hch, h1, h2⟩ := core_panic_is_challenge J d pubs acc bs hb p ncols E c hf s hv
  exact challenges_panic_site _ _ _ h1 h2 s hch

theorem extOps_deg (J : Inst) (ext : Nat) (E : EOps) (h : extOps J ext = some E) : 1 ≤ E.deg ∧ E.deg ≤ 3 := by
  unfold extOps at h
  split at h
  · injection h with h; subst h; exact ⟨Nat.le_refl 1, by show 1 ≤ 3; omega⟩
  · split at h
    · injection h with h; subst h; exact ⟨by show 1 ≤ 2; omega, by show 2 ≤ 3; omega⟩
    · split at h
      · injection h with h; subst h; exact ⟨by show 1 ≤ 3; omega, Nat.le_refl 3⟩
      · cases h

/-- with a coin whose draws cannot fail (`DrawTotal`: the instantiations over the 64-bit field) the auxiliary-segment
    phase of the concrete verifier does not panic: the GKR verifier draws at most 64 elements, then at most 255
    auxiliary random elements are drawn, from a coin whose counter started at 0 -/
theorem auxPhase_no_panic_drawTotal (J : Inst) (hD : DrawTotal J) (E : EOps) (hE1 : 1 ≤ E.deg) (hE3 : E.deg ≤ 3)
    (d : Desc) (pubs : List Nat) (ctx : Serde.Context) (hr : ctx.traceInfo.rands ≤ 255)
    (cm : Committed El Dg) (c0 : Coin.Coin Dg) (r0 : Dg) (rest : List Dg)
    (h2 : (airInst J E d pubs ctx).multiSegment = true → rest ≠ []) (s : String) :
    auxPhase (coinOps J E) (airInst J E d pubs ctx) cm ((coinOps J E).reseed c0 r0) r0 rest ≠ .error (.panic s) := by
  intro h
  have hc1 : ((coinOps J E).reseed c0 r0).counter = 0 := rfl
  have hU : Coin.U64 = 18446744073709551616 := rfl
  unfold auxPhase at h
  rw [airInst_numAuxRands] at h
  split at h
  · cases h
  · rename_i hm
    have hm' : (airInst J E d pubs ctx).multiSegment = true := by simpa using hm
    split at h
    · exact absurd rfl (h2 hm')
    · split at h
      · -- Lagrange kernel column: the GKR verifier first
        split at h
        · cases h
        · rename_i g hg
          split at h
          · cases h
          · rename_i lag cg hgv
            have hcg : cg.counter ≤ 64 := by
              simp only [airInst] at hgv
              unfold gkrVerify at hgv
              split at hgv
              · cases hgv
              · rename_i k hk
                split at hgv
                · cases hgv
                · rename_i hk64
                  obtain ⟨vs, hvs⟩ := drawMany_total J hD E hE1 hE3 k ((coinOps J E).reseed c0 r0) (by rw [hc1, hU]; omega)
                  rw [hvs] at hgv
                  simp only [] at hgv
                  split at hgv
                  · injection hgv with hgv
                    simp only [Prod.mk.injEq] at hgv
                    rw [← hgv.2]
                    show ((coinOps J E).reseed c0 r0).counter + k ≤ 64
                    rw [hc1]; omega
                  · cases hgv
            obtain ⟨vs, hvs⟩ := drawMany_total J hD E hE1 hE3 ctx.traceInfo.rands cg (by rw [hU]; omega)
            rw [hvs] at h
            cases h
      · obtain ⟨vs, hvs⟩ := drawMany_total J hD E hE1 hE3 ctx.traceInfo.rands ((coinOps J E).reseed c0 r0)
          (by rw [hc1, hU]; omega)
        rw [hvs] at h
        cases h

/-- **the full statement holds**: for every byte string, the only panic verdicts of the reference verifier are the
    panics of the real code: on a trace shape the computation does not fit, and the `expect` on the auxiliary random
    elements -/
theorem refVerifyTotal (J : Inst) (hJ : InstOk J) (d : Desc)
    (hcols : ∀ ti o n, airNew (frontAir J d) ti o = some n → n ≤ 255) : RefVerifyTotal J d := by
  intro pubs acc bs s hb h
  rcases refVerify_never_panics_partial J hJ d pubs acc bs hb hcols s h with h1 | h2 | ⟨p, ncols, E, c, hf, hv⟩
  · exact Or.inl h1
  · exact Or.inr (Or.inl h2)
  · exact Or.inr (Or.inr (core_no_panic J d pubs acc bs hb p ncols E c hf s hv))

/-- **(1) the reference verifier never panics on untrusted bytes** except where the real code does: for every
    instantiation with the sizes `InstOk` (`instOk_rp64`, `instOk_rpjive`, `instOk_rp62`), every description of the
    family (with or without auxiliary segment) whose AIR constructor asks for at most 255 composition columns,
    every public input vector, acceptance policy and byte string, a `panic` verdict is `AIR::new`,
    `evaluate_constraints` or `get_aux_rand_elements` -/
theorem refVerify_never_panics (J : Inst) (hJ : InstOk J) (d : Desc)
    (hcols : ∀ ti o n, airNew (frontAir J d) ti o = some n → n ≤ 255)
    (pubs : List Nat) (acc : Acceptable) (bs : List Nat) (hb : BytesOk bs) (s : String)
    (h : refVerify J d pubs acc bs = .err (.panic s)) : RealPanic s :=
  refVerifyTotal J hJ d hcols pubs acc bs s hb h

/-- **the coin's `expect` excluded**: for an instantiation whose draws cannot fail (`DrawTotal`, proved for the two
    instantiations over the 64-bit field - `drawTotal_rp64`, `drawTotal_rpjive`: `from_random_bytes` accepts the bytes
    of EVERY digest of four canonical 64-bit elements, whatever the hash values) the only panic verdicts are the two
    panics of the real code on a trace shape the computation does not fit.  (For Rp62_248 `DrawTotal` does not
    hold: rejection sampling is real there - see WinterProofs/Lemmas/RefVDraw.lean - and 1000 consecutive rejections
    cannot be excluded without an assumption on the hash values.) -/
theorem refVerify_never_panics_drawTotal (J : Inst) (hJ : InstOk J) (hD : DrawTotal J) (d : Desc)
    (hcols : ∀ ti o n, airNew (frontAir J d) ti o = some n → n ≤ 255)
    (pubs : List Nat) (acc : Acceptable) (bs : List Nat) (hb : BytesOk bs) (s : String)
    (h : refVerify J d pubs acc bs = .err (.panic s)) : s = "AIR::new" ∨ s = "evaluate_constraints" := by
  rcases refVerify_never_panics_partial J hJ d pubs acc bs hb hcols s h with h1 | h2 | ⟨p, ncols, E, c, hf, hv⟩
  · exact Or.inl h1
  · exact Or.inr h2
  · exfalso
    obtain ⟨hch, hr1, hr2⟩ := core_panic_is_challenge J d pubs acc bs hb p ncols E c hf s hv
    obtain ⟨hE1, hE3⟩ := extOps_deg J _ E hf.ext
    have hpok := (parseProof_invariants bs hb p hf.parsed).1
    have hrands : p.context.traceInfo.rands ≤ 255 := by
      have := hpok.1.1
      simp only [Serde.TraceInfo.wf, Bool.and_eq_true, decide_eq_true_eq] at this
      have h8 := this.2
      simp only [Gen.Limits.MAX_RAND_SEGMENT_ELEMENTS] at h8
      exact h8
    rcases challenges_panic_cases _ _ _ s hch with hnil | ⟨r0, rest, hroots, haux⟩
    · exact hr1 hnil
    · rw [air_eq] at haux hr2
      refine auxPhase_no_panic_drawTotal J hD E hE1 hE3 d pubs p.context hrands (committedOf J c) _ r0 rest ?_ s haux
      intro hm
      have := hr2 hm
      rw [hroots] at this
      intro hr; subst hr; simp at this

theorem refVerify_never_panics_rp64 (d : Desc) (hcols : ∀ ti o n, airNew (frontAir Inst.rp64 d) ti o = some n → n ≤ 255)
    (pubs : List Nat) (acc : Acceptable) (bs : List Nat) (hb : BytesOk bs) (s : String)
    (h : refVerify Inst.rp64 d pubs acc bs = .err (.panic s)) : s = "AIR::new" ∨ s = "evaluate_constraints" :=
  refVerify_never_panics_drawTotal _ instOk_rp64 drawTotal_rp64 d hcols pubs acc bs hb s h

theorem refVerify_never_panics_rpjive (d : Desc) (hcols : ∀ ti o n, airNew (frontAir Inst.rpjive d) ti o = some n → n ≤ 255)
    (pubs : List Nat) (acc : Acceptable) (bs : List Nat) (hb : BytesOk bs) (s : String)
    (h : refVerify Inst.rpjive d pubs acc bs = .err (.panic s)) : s = "AIR::new" ∨ s = "evaluate_constraints" :=
  refVerify_never_panics_drawTotal _ instOk_rpjive drawTotal_rpjive d hcols pubs acc bs hb s h

-- the hypothesis is satisfiable, and both shape panics occur (`refVerify_airnew_witness`; `evaluate_constraints`:
-- the thorough `refv` runs contain proofs whose mutated trace length keeps the channel consistent)
example : RefVerifyTotal Inst.rp64 descSq := refVerifyTotal _ instOk_rp64 descSq (descSq_cols _)
example : RefVerifyTotal Inst.rpjive descSq := refVerifyTotal _ instOk_rpjive descSq (descSq_cols _)
example : RefVerifyTotal Inst.rp62 descSq := refVerifyTotal _ instOk_rp62 descSq (descSq_cols _)

/-- whatever the trace info and options of the proof, the constructor of the AIR with the auxiliary running product
    (`descAux8`) asks for at most 255 columns -/
theorem descAux8_cols (J : Inst) : ∀ ti o n, airNew (frontAir J descAux8) ti o = some n → n ≤ 255 := by
  intro ti o n h
  unfold airNew at h
  simp only [] at h
  repeat' (split at h <;> try (cases h; done))
  all_goals (
    simp only [Option.some.injEq] at h
    subst h
    simp [frontAir, descAux8, Desc.auxDegs, Desc.auxWidth, Protocol.compositionColumns, Protocol.highestDegree,
      Protocol.Degree.evalDegree]
    try (
      have hm : max (ti.length - 1) (2 * (ti.length - 1)) = 2 * (ti.length - 1) := Nat.max_eq_right (by omega)
      rw [hm]
      have : (2 * (ti.length - 1) - (ti.length - 1)) / ti.length ≤ 1 :=
        Nat.div_le_of_le_mul (by omega)
      omega))

-- the theorem applies to a description with an auxiliary segment
example : RefVerifyTotal Inst.rp64 descAux8 := refVerifyTotal _ instOk_rp64 descAux8 (descAux8_cols _)

/-- `descAux8` with a Lagrange kernel column appended to the auxiliary segment
    (`w=2;l=8;e=1;j=0;p=;g=S?:+c0k7,R;t=1:-n0+c0k7;a=s0.0;x=2.1.1;h=Ak1:*a0+c0r0;u=2:-b0*a0+c0r0;b=s0.0=k1`, a base
    configuration of both harnesses) -/
def descLag8 : Desc :=
  { descAux8 with aux := some {
      width := 2, numRands := 1, cons := [.sub (.anxt 0) (.mul (.acur 0) (.add (.cur 0) (.rand 0)))],
      degs := [⟨2, []⟩], asserts := [(⟨.single, 0, 0, 0⟩, .const 1)], lagrange := true } }

theorem descLag8_cols (J : Inst) : ∀ ti o n, airNew (frontAir J descLag8) ti o = some n → n ≤ 255 := by
  intro ti o n h
  unfold airNew at h
  simp only [] at h
  repeat' (split at h <;> try (cases h; done))
  all_goals (
    simp only [Option.some.injEq] at h
    subst h
    simp [frontAir, descLag8, descAux8, Desc.auxDegs, Desc.auxWidth, Protocol.compositionColumns, Protocol.highestDegree,
      Protocol.Degree.evalDegree]
    try (
      have hm : max (ti.length - 1) (2 * (ti.length - 1)) = 2 * (ti.length - 1) := Nat.max_eq_right (by omega)
      rw [hm]
      have : (2 * (ti.length - 1) - (ti.length - 1)) / ti.length ≤ 1 :=
        Nat.div_le_of_le_mul (by omega)
      omega))

-- the theorem applies to a description with a Lagrange kernel column (GKR path of `verify`)
example : RefVerifyTotal Inst.rp64 descLag8 := refVerifyTotal _ instOk_rp64 descLag8 (descLag8_cols _)
example : RefVerifyTotal Inst.rp62 descLag8 := refVerifyTotal _ instOk_rp62 descLag8 (descLag8_cols _)

end total

/-! ## the second panic verdict is real too -/

/-- two columns over 16 rows: x' = x^3 + y, y' = y + 1 (a counter), two exemptions; asserted: the first cell of x
    and the counter at steps 0 and 8 (a sequence assertion with stride 8)
    (`w=2;l=16;e=2;j=1;p=;g=S?:+^3c0c1,I;t=3:-n0+^3c0c1,1:-n1+c1k1;a=s0.0,q1.0.8`) -/
def descSeq : Desc where
  air := ⟨2, 16, 2, [],
    [.sub (.nxt 0) (.add (.pow 3 (.cur 0)) (.cur 1)), .sub (.nxt 1) (.add (.cur 1) (.const 1))],
    [⟨.single, 0, 0, 0⟩, ⟨.sequence, 1, 0, 8⟩]⟩
  degs := [⟨3, []⟩, ⟨1, []⟩]

/-- an honest proof for `descSeq` (options 4.4.0.2.4.3, quadratic extension) whose log2-trace-length byte was changed
    from 4 to 3: the LDE domain shrinks from 64 to 32 points, the FRI schedule still has one layer, so
    `VerifierChannel::new` parses everything; `verify` then builds the boundary constraints for a trace of 8 rows
    and `prepare_assertions` panics on the stride-8 sequence of 2 values (`refv` line tagged
    `shape:context.trace_info` of the thorough run: the real `verify` panics) -/
def seqLen8 : List Nat :=
  [2, 0, 0, 3, 0, 0, 8, 1, 0, 0, 0, 255, 255, 255, 255, 4, 4, 0, 2, 4, 3, 4, 128, 0, 159, 170, 23, 51, 37, 208,
   119, 39, 174, 196, 134, 44, 153, 139, 161, 167, 17, 17, 159, 188, 156, 33, 10, 5, 8, 89, 245, 23, 90, 81, 170,
   7, 226, 54, 204, 123, 52, 14, 130, 120, 145, 155, 164, 59, 35, 217, 194, 224, 196, 141, 57, 168, 242, 142, 149,
   200, 29, 139, 38, 165, 147, 123, 153, 243, 212, 97, 108, 32, 221, 191, 184, 150, 89, 118, 205, 206, 153, 35,
   229, 243, 199, 247, 246, 162, 18, 48, 228, 140, 51, 127, 87, 168, 88, 151, 131, 227, 136, 72, 198, 193, 75, 144,
   168, 218, 91, 108, 162, 138, 68, 214, 191, 40, 23, 181, 15, 32, 107, 109, 217, 187, 254, 9, 191, 157, 100, 201,
   58, 16, 64, 0, 0, 0, 248, 52, 99, 172, 187, 88, 91, 250, 12, 2, 220, 226, 166, 7, 92, 186, 88, 42, 192, 86, 119,
   126, 32, 164, 254, 52, 55, 72, 88, 10, 85, 54, 35, 42, 195, 142, 168, 197, 10, 249, 196, 153, 118, 173, 115,
   103, 130, 5, 253, 40, 102, 72, 97, 169, 215, 252, 198, 31, 44, 47, 92, 172, 203, 140, 5, 2, 0, 0, 4, 4, 165, 74,
   117, 57, 105, 184, 169, 161, 16, 250, 253, 7, 235, 222, 146, 207, 184, 178, 144, 139, 85, 221, 38, 248, 226,
   101, 7, 178, 2, 199, 213, 161, 44, 220, 133, 5, 145, 94, 122, 117, 252, 147, 25, 40, 54, 47, 177, 246, 116, 249,
   201, 10, 25, 190, 108, 47, 129, 83, 118, 68, 55, 116, 92, 146, 143, 186, 39, 95, 227, 123, 146, 130, 85, 118,
   28, 244, 203, 10, 41, 37, 108, 188, 139, 227, 117, 214, 240, 248, 74, 69, 41, 87, 181, 74, 154, 94, 77, 51, 106,
   24, 194, 242, 74, 245, 8, 92, 211, 12, 18, 57, 104, 235, 11, 31, 192, 212, 61, 14, 221, 230, 172, 239, 57, 144,
   8, 0, 172, 164, 4, 134, 204, 197, 136, 68, 231, 22, 21, 147, 52, 179, 213, 177, 187, 60, 49, 88, 154, 7, 233,
   41, 194, 28, 15, 138, 55, 137, 155, 57, 18, 251, 54, 240, 232, 159, 244, 74, 103, 37, 137, 2, 67, 42, 157, 38,
   92, 51, 44, 172, 67, 221, 110, 112, 7, 122, 103, 114, 66, 47, 180, 225, 220, 142, 3, 10, 161, 251, 51, 52, 254,
   198, 212, 79, 152, 240, 22, 141, 219, 195, 86, 219, 182, 116, 230, 212, 220, 175, 121, 190, 196, 109, 243, 235,
   27, 143, 227, 4, 54, 188, 76, 136, 11, 251, 0, 187, 118, 232, 72, 160, 200, 90, 186, 125, 8, 36, 202, 169, 6,
   60, 213, 181, 103, 36, 169, 179, 138, 212, 124, 4, 3, 214, 119, 148, 136, 31, 233, 74, 132, 39, 233, 155, 77,
   113, 21, 56, 19, 24, 115, 208, 182, 224, 94, 111, 217, 75, 249, 123, 68, 33, 0, 211, 116, 215, 255, 149, 84,
   130, 190, 144, 166, 9, 222, 45, 220, 149, 42, 162, 43, 29, 224, 130, 36, 142, 223, 130, 4, 195, 188, 255, 94,
   151, 61, 248, 60, 31, 212, 113, 91, 234, 154, 212, 106, 133, 21, 188, 22, 90, 112, 42, 68, 196, 238, 131, 132,
   27, 205, 43, 111, 92, 180, 135, 123, 41, 226, 92, 172, 20, 104, 72, 22, 199, 166, 99, 63, 62, 240, 172, 252, 62,
   105, 126, 31, 227, 109, 101, 220, 100, 36, 199, 60, 198, 106, 136, 91, 251, 208, 176, 4, 237, 144, 171, 238,
   241, 86, 128, 168, 127, 191, 111, 212, 218, 253, 149, 215, 68, 175, 77, 229, 248, 142, 42, 27, 80, 184, 70, 4,
   209, 84, 226, 122, 34, 40, 107, 201, 234, 216, 165, 38, 201, 154, 137, 54, 161, 176, 123, 202, 208, 50, 44, 206,
   216, 248, 140, 222, 226, 124, 216, 189, 58, 92, 171, 179, 27, 174, 91, 45, 126, 15, 15, 94, 33, 5, 209, 144,
   109, 9, 209, 173, 12, 22, 214, 142, 218, 72, 135, 104, 39, 189, 31, 106, 107, 110, 38, 14, 0, 53, 23, 77, 64,
   108, 25, 252, 190, 125, 93, 170, 168, 167, 145, 255, 200, 228, 104, 70, 66, 96, 239, 5, 167, 226, 158, 40, 227,
   101, 224, 5, 128, 0, 0, 0, 157, 151, 133, 30, 189, 8, 217, 86, 97, 123, 119, 83, 86, 228, 252, 82, 131, 61, 191,
   208, 183, 121, 34, 86, 34, 240, 92, 97, 208, 178, 55, 204, 34, 58, 74, 73, 233, 237, 157, 151, 36, 98, 87, 27,
   18, 127, 159, 244, 121, 220, 255, 94, 2, 196, 133, 180, 146, 107, 227, 69, 185, 253, 205, 207, 115, 93, 55, 222,
   74, 91, 101, 134, 11, 121, 105, 75, 240, 38, 34, 34, 77, 183, 150, 202, 150, 23, 42, 161, 25, 192, 247, 230, 6,
   43, 219, 194, 174, 60, 39, 45, 246, 71, 129, 17, 187, 233, 60, 231, 219, 89, 151, 80, 242, 18, 182, 7, 208, 95,
   37, 204, 196, 61, 5, 243, 78, 27, 76, 219, 5, 2, 0, 0, 4, 4, 124, 117, 44, 31, 125, 211, 255, 83, 247, 14, 78,
   51, 44, 219, 200, 60, 57, 116, 84, 215, 147, 44, 204, 177, 30, 101, 80, 74, 192, 209, 135, 0, 250, 11, 163, 247,
   113, 220, 122, 243, 92, 53, 2, 195, 27, 226, 139, 73, 82, 111, 89, 88, 78, 169, 218, 221, 29, 231, 36, 67, 97,
   79, 97, 16, 153, 127, 1, 213, 136, 202, 235, 133, 88, 132, 96, 247, 53, 224, 178, 97, 72, 109, 169, 228, 74, 59,
   145, 109, 147, 11, 41, 163, 210, 125, 79, 238, 24, 55, 215, 75, 229, 80, 137, 242, 44, 140, 13, 23, 200, 161, 9,
   1, 243, 32, 14, 160, 102, 31, 29, 83, 181, 177, 96, 204, 90, 250, 222, 89, 4, 225, 31, 24, 227, 98, 88, 129, 0,
   90, 249, 222, 30, 157, 109, 8, 139, 94, 84, 73, 116, 183, 57, 58, 85, 162, 79, 100, 160, 231, 36, 21, 186, 7,
   132, 198, 248, 88, 163, 106, 100, 205, 215, 81, 4, 14, 247, 150, 80, 120, 165, 175, 172, 65, 16, 196, 173, 230,
   61, 16, 127, 103, 156, 74, 68, 62, 157, 73, 70, 28, 207, 98, 219, 219, 84, 20, 128, 212, 74, 133, 89, 4, 233,
   183, 225, 236, 122, 165, 167, 86, 73, 184, 69, 96, 196, 229, 83, 238, 138, 166, 160, 29, 249, 122, 55, 42, 39,
   127, 110, 31, 41, 5, 106, 79, 62, 238, 172, 51, 178, 78, 138, 97, 170, 240, 3, 29, 183, 86, 99, 4, 241, 114, 16,
   95, 69, 137, 177, 110, 93, 154, 100, 175, 60, 35, 166, 123, 232, 122, 62, 129, 136, 118, 225, 152, 243, 209,
   181, 143, 22, 94, 204, 202, 189, 2, 133, 115, 66, 165, 20, 65, 134, 241, 110, 79, 220, 0, 14, 74, 41, 199, 251,
   98, 73, 186, 106, 78, 204, 46, 34, 62, 85, 62, 134, 64, 43, 27, 68, 120, 32, 190, 66, 196, 129, 2, 104, 7, 157,
   222, 100, 89, 157, 238, 156, 192, 161, 20, 234, 195, 221, 182, 210, 85, 213, 233, 123, 186, 103, 235, 148, 163,
   23, 101, 207, 153, 138, 192, 40, 70, 153, 166, 81, 27, 41, 198, 183, 226, 37, 240, 243, 55, 207, 246, 112, 142,
   74, 31, 254, 96, 4, 79, 28, 153, 255, 145, 8, 189, 240, 176, 219, 109, 118, 185, 216, 215, 183, 215, 136, 110,
   106, 87, 125, 85, 174, 212, 126, 75, 196, 176, 252, 220, 112, 90, 119, 255, 152, 16, 158, 232, 203, 158, 49,
   179, 32, 79, 57, 129, 130, 133, 113, 65, 143, 64, 233, 39, 248, 250, 238, 187, 157, 152, 173, 2, 229, 136, 85,
   55, 101, 189, 205, 37, 230, 45, 185, 240, 121, 102, 220, 190, 9, 81, 243, 147, 216, 63, 111, 155, 0, 33, 153,
   10, 237, 120, 122, 148, 139, 117, 186, 252, 120, 173, 237, 167, 238, 246, 156, 199, 167, 15, 215, 60, 211, 159,
   102, 201, 232, 207, 131, 127, 229, 67, 117, 221, 229, 160, 12, 107, 235, 65, 0, 2, 200, 30, 167, 105, 59, 215,
   201, 34, 150, 237, 11, 6, 79, 180, 213, 129, 176, 39, 40, 240, 140, 74, 205, 97, 156, 233, 73, 73, 207, 204,
   115, 117, 86, 129, 40, 156, 2, 29, 51, 23, 122, 120, 197, 213, 142, 141, 22, 2, 247, 147, 245, 208, 147, 189,
   124, 26, 86, 239, 127, 194, 73, 107, 239, 47, 1, 0, 0, 32, 0, 254, 125, 244, 185, 139, 47, 133, 252, 77, 249,
   232, 172, 228, 0, 1, 167, 26, 22, 117, 40, 19, 70, 13, 27, 55, 180, 93, 56, 57, 133, 131, 37, 1, 0, 1, 0, 0,
   231, 183, 57, 70, 192, 128, 191, 99, 221, 212, 105, 217, 82, 121, 128, 7, 55, 126, 222, 31, 112, 131, 49, 7,
   138, 84, 147, 91, 100, 216, 58, 174, 92, 184, 246, 43, 214, 142, 63, 77, 96, 183, 147, 151, 164, 51, 145, 100,
   1, 121, 150, 108, 112, 83, 237, 238, 31, 189, 46, 73, 138, 164, 127, 70, 188, 4, 158, 208, 96, 137, 6, 192, 175,
   149, 35, 131, 79, 181, 252, 75, 12, 8, 228, 142, 180, 200, 162, 195, 175, 127, 117, 33, 99, 30, 185, 120, 52,
   87, 234, 164, 159, 68, 58, 226, 195, 214, 191, 205, 193, 188, 135, 161, 123, 32, 132, 195, 123, 142, 89, 78, 6,
   201, 196, 36, 146, 142, 147, 177, 37, 33, 179, 175, 133, 153, 33, 175, 123, 206, 25, 112, 86, 180, 212, 63, 18,
   83, 197, 149, 176, 185, 33, 218, 198, 186, 5, 164, 130, 151, 22, 148, 222, 65, 231, 95, 220, 221, 4, 11, 143,
   241, 94, 245, 119, 240, 123, 182, 78, 176, 242, 173, 25, 121, 119, 103, 117, 214, 49, 130, 117, 230, 217, 96,
   66, 198, 204, 197, 63, 67, 186, 37, 244, 25, 52, 61, 160, 45, 169, 28, 60, 1, 159, 83, 165, 154, 247, 71, 240,
   28, 204, 128, 184, 60, 178, 26, 208, 252, 181, 210, 35, 92, 92, 61, 255, 158, 181, 2, 149, 69, 153, 138, 153,
   135, 125, 68, 72, 230, 247, 29, 162, 44, 187, 169, 6, 214, 193, 39, 229, 0, 0, 0, 4, 2, 98, 247, 50, 254, 203,
   117, 27, 121, 27, 151, 161, 44, 232, 253, 91, 194, 155, 68, 42, 94, 199, 53, 114, 7, 1, 254, 165, 228, 67, 149,
   221, 3, 232, 73, 37, 8, 241, 145, 67, 68, 173, 139, 166, 79, 176, 250, 124, 151, 224, 255, 101, 124, 186, 221,
   48, 175, 241, 141, 14, 149, 12, 225, 47, 51, 2, 74, 7, 216, 37, 169, 175, 41, 165, 7, 124, 169, 112, 47, 221,
   161, 143, 144, 213, 40, 126, 223, 115, 209, 45, 79, 86, 152, 92, 49, 199, 20, 136, 235, 52, 22, 111, 30, 197,
   38, 211, 227, 139, 76, 233, 0, 47, 39, 111, 19, 139, 170, 69, 180, 131, 208, 139, 53, 51, 84, 154, 209, 11, 105,
   26, 2, 172, 155, 206, 172, 173, 144, 235, 110, 91, 60, 136, 27, 229, 26, 145, 13, 58, 169, 203, 127, 81, 205,
   97, 195, 122, 50, 244, 201, 115, 126, 123, 40, 47, 166, 230, 236, 71, 2, 250, 67, 138, 159, 196, 91, 8, 101,
   236, 25, 172, 9, 87, 127, 105, 13, 246, 169, 168, 36, 162, 35, 2, 27, 106, 230, 1, 207, 160, 41, 218, 96, 3, 72,
   71, 115, 18, 76, 236, 132, 114, 35, 19, 53, 44, 249, 254, 12, 226, 97, 95, 95, 26, 154, 77, 167, 185, 228, 121,
   64, 0, 71, 24, 232, 107, 252, 217, 109, 235, 56, 125, 167, 111, 149, 225, 66, 45, 146, 139, 167, 194, 70, 160,
   222, 208, 189, 151, 228, 238, 84, 198, 114, 36, 7, 176, 229, 196, 90, 64, 177, 64, 52, 93, 110, 128, 122, 96,
   123, 210, 229, 44, 178, 150, 64, 11, 85, 69, 215, 181, 196, 67, 169, 16, 249, 243, 0, 1, 0, 0, 0, 0, 0, 0, 0, 0]

/-- the panic verdict `evaluate_constraints` is real: the reference verifier reports the panic of the real code -/
theorem refVerify_evaluate_constraints_witness :
    refVerify Inst.rp64 descSeq [6331011862963056039, 0, 8] (.optionSet [⟨4, 4, 0, 2, 4, 3⟩]) seqLen8
      = .err (.panic "evaluate_constraints") := by
  decide +kernel

end WinterProofs.RefVerifier
