-- Reference verifier, continued:
-- (a) the hypothesis of `refVerify_ok_implies` is satisfied by real prover output (the kernel-checked acceptance of
--     WinterProofs/RefVerifierWitness.lean);
-- (b) `refVerify_never_panics` (= `RefVerifyTotal`): for EVERY byte string the reference verifier returns a verdict,
--     and a `panic` verdict is one of the two panics the REAL code has on a trace shape the computation does not fit
--     (`Air::new`, the AIR's callbacks inside `evaluate_constraints`; recorded finding c06.verify.air-new).  On top
--     of the byte-level part (WinterProofs/RefVerifier.lean, C06) this needs: after the front end has passed, the
--     decision function `VerifierChecks.verify` reaches none of its index sites — `core_no_panic`:
--       * the parsed channel has one root per trace segment, one FRI root per scheduled layer plus the remainder's,
--         the scheduled number of layers, rows of exactly `folding` entries, and every fold leaves a non-empty
--         domain (`channel_ok_fri`: what `Commitments::parse` / `FriProof::parse_layers` guarantee);
--       * the two renderings of `num_fri_layers` agree (`numLayersLoop_eq_friLayers`), `FriOptions` carries the
--         numbers of a parsed option set, the LDE domain is a power of two;
--       * the query positions are inside the domain (C19's `drawIntegers_ok`, `sort; dedup` only removes);
--       * then the layer loop finds every index (`friLayers_no_panic`: `fold_positions` on a non-empty target,
--         one opened row per folded position by the Merkle check's leaf count, `get_query_values` inside the rows).
import WinterProofs.RefVerifier
import WinterProofs.RefVerifierWitness
import WinterProofs.Lemmas.C15Positions
import WinterProofs.Lemmas.C10Bind
import WinterProofs.C19
import WinterProofs.Lemmas.C03Parse
import WinterProofs.Lemmas.C01

namespace WinterProofs.RefVerifier
open Model Model.VerifierChecks Model.RefVerifier

/-- everything `refVerify_ok_implies` lists holds for the honest proof `honestSq8`: the theorem's hypothesis is
    satisfied by real prover output -/
example := refVerify_ok_implies descSq8 honestSq8Pubs (.optionSet [⟨1, 4, 0, 1, 2, 1⟩]) honestSq8 refVerify_accepts_honest

/-! ## what a successful channel parse says about the FRI part -/

section chanfacts
open Model.Serde WinterProofs.C12L

theorem readMany_spec {α : Type} (d : Dec α) (P : α → Prop) (hP : ∀ bs x r, d bs = .ok (x, r) → P x) :
    ∀ (n : Nat) (bs : Bytes) (xs : List α) (r : Bytes), readMany d n bs = .ok (xs, r) →
      xs.length = n ∧ ∀ x ∈ xs, P x
  | 0, bs, xs, r, h => by
    simp only [readMany, pure_apply] at h
    injection h with h; injection h with h1 _
    subst h1; exact ⟨rfl, fun _ hx => (by cases hx)⟩
  | n + 1, bs, xs, r, h => by
    simp only [readMany, bind_apply] at h
    split at h <;> try (cases h; done)
    rename_i x r1 hx
    split at h <;> try (cases h; done)
    rename_i xs' r2 hxs
    simp only [pure_apply] at h
    injection h with h; injection h with h1 _
    subst h1
    obtain ⟨hl, hall⟩ := readMany_spec d P hP n r1 xs' r2 hxs
    refine ⟨by simp [hl], fun y hy => ?_⟩
    rcases List.mem_cons.mp hy with rfl | hy
    · exact hP _ _ _ hx
    · exact hall y hy

theorem runAll_ok {α : Type} {d : Dec α} {bs : Bytes} {x : α} (h : runAll d bs = .ok x) :
    ∃ r, d bs = .ok (x, r) := by
  unfold runAll at h
  split at h
  · rename_i y rest hy
    split at h
    · injection h with h; subst h; exact ⟨rest, hy⟩
    · cases h
  · cases h
  · cases h
  · cases h

theorem commitmentsParse_lengths {δ : Type} (d : Codec δ) (bytes : Bytes) (nt nf : Nat) (t : List δ) (c : δ)
    (f : List δ) (h : commitmentsParse d bytes nt nf = .ok (t, c, f)) : t.length = nt ∧ f.length = nf + 1 := by
  unfold commitmentsParse at h
  obtain ⟨r, hr⟩ := runAll_ok h
  simp only [bind_apply] at hr
  split at hr <;> try (cases hr; done)
  rename_i t' r1 ht
  split at hr <;> try (cases hr; done)
  rename_i c' r2 _
  split at hr <;> try (cases hr; done)
  rename_i f' r3 hf
  simp only [pure_apply] at hr
  injection hr with hr; injection hr with h1 _
  injection h1 with h1 h2; injection h2 with h2 h3
  subst h1; subst h3
  exact ⟨(readMany_spec d.dec (fun _ => True) (fun _ _ _ _ => trivial) nt bytes _ _ ht).1,
    (readMany_spec d.dec (fun _ => True) (fun _ _ _ _ => trivial) (nf + 1) _ _ _ hf).1⟩

theorem friLayerParse_rows {ε δ : Type} (e : Codec ε) (eb : Nat) (d : Codec δ) (l : FriLayer) (depth folding : Nat)
    (rows : List (List ε)) (nodes : List (List δ)) (h : friLayerParse e eb d l depth folding = .ok (rows, nodes)) :
    ∀ row ∈ rows, row.length = folding := by
  unfold friLayerParse at h
  simp only [] at h
  split at h; · cases h
  split at h; · cases h
  split at h; · cases h
  split at h <;> try (cases h; done)
  rename_i rows' hrows
  split at h; · cases h
  split at h <;> try (cases h; done)
  injection h with h; injection h with h1 _
  subst h1
  obtain ⟨r, hr⟩ := runAll_ok hrows
  refine (readMany_spec (array folding e).dec (fun row => row.length = folding) ?_ _ _ _ _ hr).2
  intro bs x r hx
  exact (readMany_spec e.dec (fun _ => True) (fun _ _ _ _ => trivial) folding bs x r hx).1

theorem friLayersParse_facts {ε δ : Type} (e : Codec ε) (eb : Nat) (d : Codec δ) (folding : Nat) :
    ∀ (ls : List FriLayer) (dom : Nat) (xs : List (List (List ε) × List (List δ))),
      friLayersParse e eb d folding ls dom = .ok xs →
      (∀ x ∈ xs, ∀ row ∈ x.1, row.length = folding) ∧ ∀ i, i < xs.length → dom / folding ^ (i + 1) ≠ 0 := by
  intro ls
  induction ls with
  | nil =>
    intro dom xs h
    simp only [friLayersParse] at h
    injection h with h; subst h
    exact ⟨fun _ hx => (by cases hx), fun i hi => (by simp at hi)⟩
  | cons l ls ih =>
    intro dom xs h
    simp only [friLayersParse] at h
    split at h; · cases h
    rename_i hdom
    split at h <;> try (cases h; done)
    rename_i x hx
    split at h <;> try (cases h; done)
    rename_i xs' hxs
    injection h with h; subst h
    obtain ⟨h1, h2⟩ := ih _ _ hxs
    refine ⟨fun y hy => ?_, fun i hi => ?_⟩
    · rcases List.mem_cons.mp hy with rfl | hy
      · obtain ⟨rows, nodes⟩ := y
        exact friLayerParse_rows e eb d l _ folding rows nodes hx
      · exact h1 y hy
    · cases i with
      | zero => simpa using hdom
      | succ j =>
        have := h2 j (by simpa using hi)
        rw [Nat.pow_succ', ← Nat.div_div_eq_div_mul]
        exact this

theorem channel_ok_fri (cfg : ChanCfg) (p : Serde.Proof) (c : ParsedChannel) (h : channelParse cfg p = .ok c) :
    c.traceRoots.length = cfg.numSegments ∧ c.friRoots.length = cfg.numFriLayers + 1 ∧
    c.friLayers.length = cfg.numFriLayers ∧
    (∀ l ∈ c.friLayers, ∀ row ∈ l.rows, row.length = cfg.folding) ∧
    (∀ i, i < cfg.numFriLayers → 2 ^ cfg.ldeLog / cfg.folding ^ (i + 1) ≠ 0) ∧
    c.numPartitions = 2 ^ p.friProof.numPartitions := by
  unfold channelParse at h
  simp only at h
  split at h <;> try cases h
  rename_i troots croot froots hcm
  split at h; · cases h
  split at h; · cases h
  split at h; · cases h
  split at h <;> try cases h
  split at h <;> try cases h
  split at h <;> try cases h
  split at h; · cases h
  rename_i hlay
  split at h <;> try cases h
  split at h <;> try cases h
  rename_i layers hlp
  split at h <;> try cases h
  split at h; · cases h
  split at h; · cases h
  injection h with h
  subst h
  obtain ⟨ht, hf⟩ := commitmentsParse_lengths _ _ _ _ _ _ _ hcm
  obtain ⟨hrows, hdom⟩ := friLayersParse_facts _ _ _ _ _ _ _ hlp
  have hlen : layers.length = cfg.numFriLayers := by
    rw [WinterProofs.C03L.friLayersParse_length _ _ _ _ _ _ _ hlp]
    exact Decidable.of_not_not hlay
  refine ⟨ht, hf, by simp only [List.length_map]; exact hlen, ?_, ?_, rfl⟩
  · intro l hl row hrow
    simp only [List.mem_map] at hl
    obtain ⟨x, hx, rfl⟩ := hl
    exact hrows x hx row hrow
  · intro i hi
    exact hdom i (by omega)

end chanfacts

/-! ## schedule and options of a parsed context -/

section schedule
open WinterProofs.C06L

/-- the two renderings of `num_fri_layers` (FRI model, protocol glue) agree -/
theorem numLayersLoop_eq_friLayers (maxRem N : Nat) (hf : 2 ≤ N) :
    ∀ d, Fri.numLayersLoop maxRem N hf d = (Protocol.friLayers d maxRem N).1 := by
  intro d
  induction d using Nat.strongRecOn with
  | _ d ih =>
    rw [Fri.numLayersLoop, Protocol.friLayers]
    by_cases h : maxRem < d
    · rw [dif_pos h, dif_pos ⟨h, hf⟩]
      simp only []
      rw [ih (d / N) (Nat.div_lt_self (by omega) hf)]
    · rw [dif_neg h, dif_neg (fun hh => h hh.1)]

open Gen.Limits in
theorem folding_cases (o : Serde.ProofOptions) (h : o.wf = true) :
    o.folding = 2 ∨ o.folding = 4 ∨ o.folding = 8 ∨ o.folding = 16 := by
  obtain ⟨_, _, _, hpf, hf2, _, _, _⟩ := opt_facts o h
  have hle : o.folding ≤ 16 := by
    simp only [Serde.ProofOptions.wf, Bool.and_eq_true, decide_eq_true_eq] at h
    simp only [FRI_MAX_FOLDING_FACTOR] at h
    omega
  have he := pow2_eq hpf
  generalize o.folding.log2 = k at he
  rw [he] at hf2 hle ⊢
  have hk4 : k ≤ 4 := by
    rcases Nat.lt_or_ge k 5 with h5 | h5
    · omega
    · have : 2 ^ 5 ≤ 2 ^ k := Nat.pow_le_pow_right (by omega) h5
      omega
  have hk1 : 1 ≤ k := by
    rcases Nat.lt_or_ge k 1 with h0 | h0
    · have : k = 0 := by omega
      subst this; simp at hf2
    · exact h0
  have : k = 1 ∨ k = 2 ∨ k = 3 ∨ k = 4 := by omega
  rcases this with rfl | rfl | rfl | rfl <;> simp

/-- `FriOptions` of a well-formed option set carries its numbers -/
theorem friOpts_eq (o : Serde.ProofOptions) (h : o.wf = true) :
    (friOpts o).blowup = o.blowup ∧ (friOpts o).folding = o.folding ∧ (friOpts o).remMaxDeg = o.remDeg := by
  obtain ⟨hpb, _, _, _, _, _, _, _⟩ := opt_facts o h
  have hb : o.blowup ≠ 0 ∧ 2 ^ Nat.log2 o.blowup = o.blowup := by
    have := pow2_eq hpb
    refine ⟨?_, this.symm⟩
    intro h0
    simp only [Serde.pow2, Bool.and_eq_true, bne_iff_ne] at hpb
    exact hpb.1 h0
  have hf := folding_cases o h
  unfold friOpts Fri.Opts.new?
  rw [dif_pos hb, dif_pos hf]
  exact ⟨rfl, rfl, rfl⟩

theorem fri_nextPow2_pow (k : Nat) : Fri.nextPow2 (2 ^ k) = 2 ^ k := by
  have h1 : Fri.nextPow2 (2 ^ k) = Protocol.nextPow2 (2 ^ k) := rfl
  rw [h1]
  exact Nat.le_antisymm (WinterProofs.C01L.nextPow2_le_pow _ _ (Nat.le_refl _)) (WinterProofs.C01L.nextPow2_ge _)

theorem mem_insertSortedDedup (x y : Nat) : ∀ l : List Nat, y ∈ insertSortedDedup x l → y = x ∨ y ∈ l
  | [], h => by simp [insertSortedDedup] at h; exact Or.inl h
  | z :: zs, h => by
    unfold insertSortedDedup at h
    split at h
    · rcases List.mem_cons.mp h with rfl | h
      · exact Or.inl rfl
      · exact Or.inr h
    · split at h
      · exact Or.inr h
      · rcases List.mem_cons.mp h with rfl | h
        · exact Or.inr List.mem_cons_self
        · rcases mem_insertSortedDedup x y zs h with h | h
          · exact Or.inl h
          · exact Or.inr (List.mem_cons_of_mem _ h)

theorem mem_sortDedup (y : Nat) : ∀ l : List Nat, y ∈ sortDedup l → y ∈ l
  | [], h => by simp [sortDedup] at h
  | x :: xs, h => by
    have h' : y ∈ insertSortedDedup x (sortDedup xs) := by simpa [sortDedup] using h
    rcases mem_insertSortedDedup x y _ h' with rfl | h''
    · exact List.mem_cons_self
    · exact List.mem_cons_of_mem _ (mem_sortDedup y xs h'')

end schedule

/-! ## the layer loop reaches none of its panic sites -/

section core
variable {C D V : Type} [DecidableEq D] [DecidableEq V]
set_option linter.unusedSectionVars false

theorem mapM_option_some {α β : Type} (f : α → Option β) :
    ∀ l : List α, (∀ x ∈ l, ∃ v, f x = some v) → ∃ vs, l.mapM f = some vs
  | [], _ => ⟨[], rfl⟩
  | x :: xs, h => by
    obtain ⟨v, hv⟩ := h x List.mem_cons_self
    obtain ⟨vs, hvs⟩ := mapM_option_some f xs (fun y hy => h y (List.mem_cons_of_mem _ hy))
    exact ⟨v :: vs, by simp [List.mapM_cons, hv, hvs]⟩

/-- `get_query_values` finds every value: each position's folded position is in the list, there is one row per
    folded position, every row has `N` entries and `N` divides the domain -/
theorem getQueryValues_some {α : Type} (rows : List (List α)) (pos folded : List Nat) (dom N : Nat)
    (hm : dom / N ≠ 0) (hf : Fri.foldPositions pos dom N = some folded)
    (hrows : rows.length = folded.length) (hrow : ∀ r ∈ rows, r.length = N)
    (hlt : ∀ p ∈ pos, p / (dom / N) < N) :
    ∃ qv, Fri.getQueryValues rows pos folded dom N = some qv := by
  unfold Fri.getQueryValues
  simp only []
  rw [if_neg hm]
  apply mapM_option_some
  intro p hp
  obtain ⟨idx, hidx, hget⟩ := WinterProofs.C15.foldPositions_idxOf hm hf p hp
  rw [hidx]
  simp only []
  have hi : idx < folded.length := by
    rcases Nat.lt_or_ge idx folded.length with h | h
    · exact h
    · rw [List.getElem?_eq_none h] at hget
      cases hget
  have hir : idx < rows.length := by omega
  rw [List.getElem?_eq_getElem hir]
  simp only []
  have hl := hrow _ (List.getElem_mem hir)
  have : p / (dom / N) < (rows[idx]).length := by rw [hl]; exact hlt p hp
  exact ⟨_, List.getElem?_eq_getElem this⟩

theorem openingOk_length (W : Verifier C D V) (root : D) (idx : List Nat) (o : Opening V D) (depth : Nat)
    (h : openingOk W root idx o depth = true) : o.rows.length = idx.length := by
  unfold openingOk at h
  have hv : Merkle.verifyBatch W.merkle root idx (o.proof W depth) = .ok () := by simpa using h
  have hg := WinterProofs.C10.verifyBatch_ok W.merkle root idx _ hv
  obtain ⟨_, _, hlen, _⟩ := WinterProofs.C10.getRoot_ok_stages W.merkle _ idx _ hg
  simpa [Opening.proof] using hlen.symm

theorem mapPositionsToIndexes_some (folded : List Nat) (dom N np : Nat) (hnp : np ≠ 0) :
    ∃ idx, Fri.mapPositionsToIndexes folded dom N np = some idx ∧ idx.length = folded.length := by
  unfold Fri.mapPositionsToIndexes
  by_cases h1 : np = 1
  · exact ⟨folded, by simp [h1], rfl⟩
  · rw [if_neg h1, if_neg hnp]
    exact ⟨_, rfl, by simp⟩

/-- the layer loop of the FRI verifier reaches none of its panic sites when: the domain is `2^a`, the folding factor
    `2^b` with `count·b ≤ a` (every remaining fold leaves a non-empty domain), the positions are inside the
    domain, there are commitments, layers and α's for the remaining depths, and every opened row has `N` entries -/
theorem friLayers_no_panic (W : Verifier C D V) (A : AirInst C D V) (roots : List D) (layers : List (Opening V D))
    (alphas : List V) (np b : Nat) (hN : A.fri.folding = 2 ^ b) (hb : 1 ≤ b) (hnp : np ≠ 0)
    (hrowlen : ∀ l ∈ layers, ∀ row ∈ l.rows, row.length = A.fri.folding) :
    ∀ (count depth : Nat) (pos : List Nat) (ev : List V) (a md : Nat),
      (∀ p ∈ pos, p < 2 ^ a) → count * b ≤ a →
      depth + count ≤ roots.length → depth + count ≤ layers.length → depth + count ≤ alphas.length →
      ∀ s, friLayers W A roots layers alphas np count depth pos ev (2 ^ a) md ≠ .error (.panic s) := by
  intro count
  induction count with
  | zero =>
    intro depth pos ev a md _ _ _ _ _ s h
    simp only [friLayers] at h
    cases h
  | succ count ih =>
    intro depth pos ev a md hpos hab hr hl hal s
    have hba : b ≤ a := by
      have : b ≤ (count + 1) * b := Nat.le_mul_of_pos_left b (by omega)
      omega
    have hdiv : 2 ^ a / A.fri.folding = 2 ^ (a - b) := by rw [hN, Nat.pow_div hba (by omega)]
    have hne : 2 ^ a / A.fri.folding ≠ 0 := by rw [hdiv]; exact Nat.ne_of_gt (Nat.pow_pos (by omega))
    obtain ⟨folded, hfold⟩ : ∃ folded, Fri.foldPositions pos (2 ^ a) A.fri.folding = some folded :=
      ⟨_, WinterProofs.C15.foldPositions_eq pos (2 ^ a) A.fri.folding hne⟩
    obtain ⟨idx, hidx, hidxlen⟩ := mapPositionsToIndexes_some folded (2 ^ a) A.fri.folding np hnp
    have hroot : depth < roots.length := by omega
    have hlayer : depth < layers.length := by omega
    have halpha : depth < alphas.length := by omega
    simp only [friLayers, hfold, hidx, List.getElem?_eq_getElem hroot, List.getElem?_eq_getElem hlayer,
      List.getElem?_eq_getElem halpha]
    split
    · intro h; cases h
    · rename_i hopen
      have hopen' : openingOk W roots[depth] idx layers[depth] (Nat.log2 (2 ^ a / A.fri.folding)) = true := by
        simpa using hopen
      have hrows := openingOk_length W _ _ _ _ hopen'
      have hlt : ∀ p ∈ pos, p / (2 ^ a / A.fri.folding) < A.fri.folding := by
        intro p hp
        rw [Nat.div_lt_iff_lt_mul (Nat.pos_of_ne_zero hne), hdiv, hN, ← Nat.pow_add]
        have : b + (a - b) = a := by omega
        rw [this]
        exact hpos p hp
      obtain ⟨qv, hqv⟩ := getQueryValues_some layers[depth].rows pos folded (2 ^ a) A.fri.folding hne hfold
        (by rw [hrows, hidxlen]) (hrowlen _ (List.getElem_mem hlayer)) hlt
      rw [hqv]
      simp only []
      split
      · intro h; cases h
      · split
        · intro h; cases h
        · have hfl := WinterProofs.C15.foldPositions_lt hne hfold
          rw [hdiv] at hfl ⊢
          refine ih (depth + 1) _ _ (a - b) _ hfl ?_ (by omega) (by omega) (by omega) s
          have : (count + 1) * b = count * b + b := by rw [Nat.add_mul, Nat.one_mul]
          omega

end core

/-! ## the decision function reaches none of its panic sites -/

section decision
variable {C D V : Type} [DecidableEq D] [DecidableEq V]
set_option linter.unusedSectionVars false

theorem drawMany_zero (K : CoinOps C D V) (c : C) : drawMany K 0 c = some ([], c) := rfl

theorem friNew_no_panic (K : CoinOps C D V) (N total : Nat) :
    ∀ (roots : List D) (depth md : Nat) (c : C) (s : String),
      friNew K N total roots depth md c ≠ .error (.panic s) := by
  intro roots
  induction roots with
  | nil => intro depth md c s h; simp only [friNew] at h; cases h
  | cons r rs ih =>
    intro depth md c s h
    simp only [friNew] at h
    split at h
    · cases h
    · split at h
      · cases h
      · split at h
        · cases h
        · rename_i e he
          injection h with h
          subst h
          exact ih _ _ _ _ he

theorem auxPhase_no_panic (K : CoinOps C D V) (A : AirInst C D V) (cm : Committed V D) (c1 : C) (r0 : D)
    (rest : List D) (hl : A.lagrange = false) (hn : A.numAuxRands = 0)
    (h2 : A.multiSegment = true → rest ≠ []) (s : String) :
    auxPhase K A cm c1 r0 rest ≠ .error (.panic s) := by
  intro h
  unfold auxPhase at h
  split at h
  · cases h
  · rename_i hm
    have hm' : A.multiSegment = true := by simpa using hm
    split at h
    · exact h2 hm' rfl
    · rw [hl] at h
      simp only [Bool.false_eq_true, if_false] at h
      rw [hn, drawMany_zero] at h
      cases h

theorem challenges_no_panic (W : Verifier C D V) (ctx : Serde.Context) (cm : Committed V D)
    (hl : (W.air ctx).lagrange = false) (hn : (W.air ctx).numAuxRands = 0)
    (h1 : cm.traceRoots ≠ []) (h2 : (W.air ctx).multiSegment = true → 2 ≤ cm.traceRoots.length) (s : String) :
    challenges W ctx cm ≠ .error (.panic s) := by
  intro h
  unfold challenges at h
  simp only at h
  split at h
  · rename_i hnil; exact h1 hnil
  · rename_i r0 rest hroots
    split at h
    · rename_i e he
      injection h with h
      subst h
      refine auxPhase_no_panic _ _ _ _ _ _ hl hn ?_ s he
      intro hm
      have := h2 hm
      rw [hroots] at this
      intro hr; subst hr; simp at this
    · split at h
      · cases h
      · split at h
        · cases h
        · split at h
          · cases h
          · split at h
            · cases h
            · split at h
              · rename_i e he
                injection h with h
                subst h
                exact friNew_no_panic _ _ _ _ _ _ _ s he
              · split at h
                · cases h
                · split at h
                  · cases h
                  · cases h

theorem friRemainder_no_panic (W : Verifier C D V) (A : AirInst C D V) (roots : List D) (rem : List V)
    (numLayers : Nat) (pos : List Nat) (ev : List V) (dom md : Nat) (s : String) :
    friRemainder W A roots rem numLayers pos ev dom md ≠ .error (.panic s) := by
  intro h
  unfold friRemainder at h
  split at h
  · cases h
  · split at h
    · cases h
    · split at h <;> cases h

/-- a panic outcome of `verify` comes from the challenge phase or from the layer loop -/
theorem verify_panic_cases (W : Verifier C D V) (ctx : Serde.Context) (cm : Committed V D) (op : Opened V D)
    (s : String) (h : VerifierChecks.verify W ctx (some (cm, op)) = .error (.panic s)) :
    challenges W ctx cm = .error (.panic s) ∨
    ∃ ch, challenges W ctx cm = .ok ch ∧
      friLayers W (W.air ctx) cm.friRoots op.friLayers ch.alphas op.numPartitions
        (Fri.numFriLayers (W.air ctx).fri (Fri.nextPow2 ((W.air ctx).tracePolyDegree + 1) * (W.air ctx).fri.blowup)) 0
        ch.positions
        ((W.air ctx).deepCompose ch.positions ch.z ch.deep (op.traceOpenings.map (·.rows)) op.constraintOpening.rows
          cm.oodTrace cm.oodEvals)
        (Fri.nextPow2 ((W.air ctx).tracePolyDegree + 1) * (W.air ctx).fri.blowup) ((W.air ctx).tracePolyDegree + 1)
        = .error (.panic s) := by
  unfold VerifierChecks.verify at h
  split at h; · cases h
  split at h; · cases h
  split at h; · cases h
  simp only at h
  split at h
  · rename_i e he
    injection h with h
    subst h
    exact Or.inl he
  · rename_i ch hch
    refine Or.inr ⟨ch, hch, ?_⟩
    unfold checkOpened at h
    simp only at h
    split at h; · cases h
    split at h; · cases h
    unfold friVerify at h
    split at h; · cases h
    simp only at h
    split at h
    · rename_i e he
      injection h with h
      subst h
      exact he
    · exact absurd h (friRemainder_no_panic _ _ _ _ _ _ _ _ _ s)

end decision

/-! ## the reference verifier: every panic verdict is a panic of the real code -/

section total
open Model.Parse WinterProofs.C06 WinterProofs.C06L

theorem rawOpening_rows_length (o : ParsedOpening) (n : Nat) (h : ∀ row ∈ o.rows, row.length = n) :
    ∀ row ∈ (rawOpening o).rows, row.length = n := by
  intro row hrow
  simp only [rawOpening, List.mem_map] at hrow
  obtain ⟨r, hr, rfl⟩ := hrow
  simpa using h r hr

/-- `draw_integers` of the concrete coin returns positions inside the domain -/
theorem drawInts_lt (E : EOps) (c : Coin.Coin Dg) (n dom nonce : Nat) (ps : List Nat)
    (h : (coinOps E).drawInts c n dom nonce = some ps) : ∀ v ∈ ps, v < dom := by
  simp only [coinOps] at h
  split at h
  · rename_i vs c' hd
    injection h with h
    subst h
    exact (C19.drawIntegers_ok hashOps n dom nonce c _ c' hd).1
  · cases h

/-- after the front end has passed, the decision function reaches none of its panic sites -/
theorem core_no_panic (d : Desc) (pubs : List Nat) (acc : Acceptable) (bs : List Nat) (hb : BytesOk bs)
    (p : Serde.Proof) (ncols : Nat) (E : EOps) (c : ParsedChannel) (hf : FrontPassed d pubs acc bs p ncols E c)
    (s : String) :
    VerifierChecks.verify (mkVerifier E d pubs acc) p.context (some (committedOf c, openedOf c))
      ≠ .error (.panic s) := by
  have hpok := (parseProof_invariants bs hb p hf.parsed).1
  obtain ⟨hctx, _, _, _, _⟩ := hpok
  obtain ⟨_, _, hpl, hn8⟩ := ti_facts _ hctx.1
  obtain ⟨hpb, _, _, hpf, hf2, _, _, _⟩ := opt_facts _ hctx.2.1
  obtain ⟨fob, fof, fr⟩ := friOpts_eq _ hctx.2.1
  obtain ⟨htr, hfr, hfl, hrows, hdom, hnp⟩ := channel_ok_fri _ _ _ hf.channel
  -- the numbers of the instance
  generalize hti : p.context.traceInfo = ti at *
  generalize ho : p.context.options = o at *
  have hlde2 : Serde.pow2 (ti.length * o.blowup) = true := pow2_mul hpl hpb
  have hlde := pow2_eq hlde2
  have hfold := pow2_eq hpf
  have hb1 : 1 ≤ o.folding.log2 := (Nat.le_log2 (by omega)).mpr (by simpa using hf2)
  have hn : ti.length = 2 ^ ti.length.log2 := pow2_eq hpl
  intro hv
  rcases verify_panic_cases _ _ _ _ s hv with hch | ⟨ch, hch, hloop⟩
  · -- the challenge phase
    refine challenges_no_panic (mkVerifier E d pubs acc) p.context (committedOf c) ?_ ?_ ?_ ?_ s hch
    · simp only [mkVerifier, airInst]
    · simp only [mkVerifier, airInst]
    · intro hnil
      have : (committedOf c).traceRoots.length = 0 := by rw [hnil]; rfl
      simp only [committedOf, List.length_map] at this
      rw [htr] at this
      simp only [chanCfg, hti] at this
      unfold Serde.TraceInfo.numSegments at this
      split at this <;> omega
    · intro hm
      have hm' : ti.aux > 0 := by
        simp only [mkVerifier, airInst, hti] at hm
        simpa using hm
      simp only [committedOf, List.length_map]
      rw [htr]
      simp only [chanCfg, hti]
      unfold Serde.TraceInfo.numSegments
      rw [if_pos hm']
      exact Nat.le_refl 2
  · -- the layer loop
    rw [air_eq, airInst_fri, airInst_degree, airInst_deepCompose] at hloop
    simp only [hti, ho] at hloop
    rw [fob] at hloop
    have hn1 : ti.length - 1 + 1 = ti.length := by omega
    rw [hn1] at hloop
    have hnp2 : Fri.nextPow2 ti.length = ti.length := by
      rw [hn]; exact fri_nextPow2_pow _
    rw [hnp2, hlde] at hloop
    -- the number of layers is the scheduled one
    have hL : Fri.numFriLayers (friOpts o) (2 ^ (ti.length * o.blowup).log2)
        = (chanCfg p.context ncols).numFriLayers := by
      unfold Fri.numFriLayers
      rw [numLayersLoop_eq_friLayers, ← hlde]
      simp only [chanCfg, hti, ho]
      rw [fob, fof, fr]
    obtain ⟨_, _, _, _, _, _, _, _, _, ps, _, _, _, _, _, _, hfri, _, hps, hpos, _, _⟩ :=
      (WinterProofs.C02L.challenges_ok hch).ex
    have halphas := (WinterProofs.C02L.friNew_log _ _ _ _ hfri).2
    refine friLayers_no_panic (mkVerifier E d pubs acc) (airInst E d pubs p.context) (committedOf c).friRoots
      (openedOf c).friLayers ch.alphas (openedOf c).numPartitions o.folding.log2 ?_ hb1 ?_ ?_ _ 0 ch.positions _
      (ti.length * o.blowup).log2 _ ?_ ?_ ?_ ?_ ?_ s hloop
    · rw [airInst_fri, ho, fof]; exact hfold
    · show c.numPartitions ≠ 0
      rw [hnp]; exact Nat.ne_of_gt (Nat.pow_pos (by omega))
    · intro l hl
      simp only [openedOf, List.mem_map] at hl
      obtain ⟨o', ho', rfl⟩ := hl
      rw [airInst_fri, ho, fof]
      refine rawOpening_rows_length o' _ ?_
      have := hrows o' ho'
      simpa [chanCfg, ho] using this
    · -- positions inside the domain
      intro q hq
      rw [hpos] at hq
      have hq' := mem_sortDedup q ps hq
      rw [air_eq, airInst_numQueries, airInst_ldeSize, mk_drawInts] at hps
      have := drawInts_lt E _ _ _ _ ps hps q hq'
      rw [hti, ho] at this
      rw [← hlde]; exact this
    · -- every fold leaves a non-empty domain
      rw [hL]
      generalize hLL : (chanCfg p.context ncols).numFriLayers = L at hdom ⊢
      rcases Nat.eq_zero_or_pos L with h0 | hpos'
      · subst h0; simp
      · have := hdom (L - 1) (by omega)
        have hL1 : L - 1 + 1 = L := by omega
        rw [hL1] at this
        simp only [chanCfg, hti, ho] at this
        rw [hfold, ← Nat.pow_mul] at this
        rcases Nat.lt_or_ge ((ti.length * o.blowup).log2) (o.folding.log2 * L) with hlt | hge
        · exfalso
          apply this
          apply Nat.div_eq_of_lt
          exact Nat.pow_lt_pow_right (by omega) hlt
        · rw [Nat.mul_comm]; exact hge
    · rw [hL]
      simp only [committedOf, List.length_map]
      omega
    · rw [hL]
      simp only [openedOf, List.length_map]
      omega
    · rw [hL, halphas]
      simp only [committedOf, List.length_map]
      omega

/-- **the full statement holds**: for every byte string, the only panic verdicts of the reference verifier are the
    two panics of the real code on a trace shape the computation does not fit -/
theorem refVerifyTotal (d : Desc) (hcols : ∀ ti o n, airNew (frontAir d) ti o = some n → n ≤ 255) :
    RefVerifyTotal d := by
  intro pubs acc bs s hb h
  rcases refVerify_never_panics_partial d pubs acc bs hb hcols s h with h1 | h2 | ⟨p, ncols, E, c, hf, hv⟩
  · exact Or.inl h1
  · exact Or.inr h2
  · exact absurd hv (core_no_panic d pubs acc bs hb p ncols E c hf s)

/-- **(1) the reference verifier never panics on untrusted bytes** except where the real code does: for every
    description whose AIR constructor asks for at most 255 composition columns, every public input vector,
    acceptance policy and byte string, a `panic` verdict is `AIR::new` or `evaluate_constraints` -/
theorem refVerify_never_panics (d : Desc) (hcols : ∀ ti o n, airNew (frontAir d) ti o = some n → n ≤ 255)
    (pubs : List Nat) (acc : Acceptable) (bs : List Nat) (hb : BytesOk bs) (s : String)
    (h : refVerify d pubs acc bs = .err (.panic s)) : s = "AIR::new" ∨ s = "evaluate_constraints" :=
  refVerifyTotal d hcols pubs acc bs s hb h

-- the hypothesis is satisfiable, and both panic verdicts occur (`refVerify_airnew_witness`; `evaluate_constraints`:
-- the thorough `refv` runs contain proofs whose mutated trace length keeps the channel consistent)
example : RefVerifyTotal descSq := refVerifyTotal descSq descSq_cols

end total

end WinterProofs.RefVerifier
