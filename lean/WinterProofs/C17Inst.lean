-- C17, instantiated for the code's base fields: `committed_eq_definition` for the composition model
-- run over `ZMod p`, p the modulus of f64 / f62 / f128, with the code's constants: `root k` is the
-- residue of the word `get_root_of_unity(k)` returns (`Model.Divisor.rawOps I`, the raw-word operations
-- the driver executes, `I = Model.F64.impl / F62.impl / F128.impl`), the domain offset is the published
-- multiplicative generator `GENERATOR`.  Every algebraic coherence hypothesis (`TraceOK`, `AssertOK`,
-- `hg`, `hw`, `hroot`, `ho`, `hoff`) is discharged from property C07 (exact orders and coherence of the
-- roots of unity: `Refines`, C16Inst; the generator has order p − 1) for every trace length `2^k`,
-- constraint-evaluation blowup `2^b` and LDE blowup `2^l`, `b ≤ l`, `k + l ≤ two-adicity`.
-- What remains: the description is well formed (`AirWF`, `prep = some P`), as many transition
-- coefficients as main constraints, `DeclaredDegreesOK`, `hk` and `ValidTrace`.
-- The instantiation is over ZMod p (the model run with field operations); a transfer to the model run
-- on raw words needs naturality of the whole composition model and is not proved.
import WinterProofs.C17
import WinterProofs.C16Inst
import WinterProofs.Lemmas.C17Roots

set_option linter.unusedSectionVars false

namespace WinterProofs.C17
open Model.Divisor Model.Composition WinterProofs.C16L WinterProofs.C17L Polynomial

section Generic
variable {O : Ops ℕ} {p : ℕ} [Fact p.Prime] {ok : ℕ → Prop} {val : ℕ → ZMod p} {T : ℕ}

/-- C07's statement about `get_root_of_unity` (through `Refines`) is a coherent root family over `ZMod p` -/
theorem rootFamily_of_refines (H : Refines O p ok val T) : RootFamily (absOps O val).root T where
  ex := by
    intro j h1 h2
    obtain ⟨r, hr, _, hord⟩ := H.root_some j h1 h2
    refine ⟨val r, ?_, hord ▸ IsPrimitiveRoot.orderOf (val r)⟩
    show (O.root j).map val = _
    rw [hr]; rfl
  coh := by
    intro j m r s hr hs hmj
    have hr' : (O.root j).map val = some r := hr
    have hs' : (O.root m).map val = some s := hs
    simp only [Option.map_eq_some_iff] at hr' hs'
    obtain ⟨r0, hr0, rfl⟩ := hr'
    obtain ⟨s0, hs0, rfl⟩ := hs'
    exact H.root_coh j m r0 s0 hr0 hs0 hmj

/-- an element of order `p − 1 > 2^T` is non-zero and has no power-of-two order up to `2^T`: the coset
    it shifts a two-adic subgroup to never meets a subgroup of `2^k`-th roots of unity -/
theorem generator_no_two_power_order {γ : ZMod p} (hγ : orderOf γ = p - 1) (hT : 2 ^ T < p - 1) :
    γ ≠ 0 ∧ ∀ j, j ≤ T → γ ^ 2 ^ j ≠ 1 := by
  refine ⟨?_, fun j hj h1 => ?_⟩
  · rintro rfl
    have h0 : orderOf (0 : ZMod p) = 0 := by
      rw [orderOf_eq_zero_iff']
      intro n hn h
      rw [zero_pow hn.ne'] at h
      exact zero_ne_one h
    rw [h0] at hγ
    rw [← hγ] at hT
    exact absurd hT (Nat.not_lt_zero _)
  · have hdvd := orderOf_dvd_of_pow_eq_one h1
    rw [hγ] at hdvd
    have hle := Nat.le_of_dvd (Nat.two_pow_pos j) hdvd
    have : 2 ^ j ≤ 2 ^ T := Nat.pow_le_pow_right (by decide) hj
    omega

/-- **`committed_eq_definition` with the coherence hypotheses discharged from C07** (generic in the
    field implementation: any raw-word operations that refine `ZMod p` with two-adicity `T`, offset an
    element `γ` of order `p − 1 > 2^T`) -/
theorem committed_eq_definition_refines (H : Refines O p ok val T) {γ : ZMod p} (hγ : orderOf γ = p - 1)
    (hT : 2 ^ T < p - 1) {k b l : ℕ} (hk1 : 1 ≤ k) (hbl : b ≤ l) (hklT : k + l ≤ T)
    (beq : ZMod p → ZMod p → Bool) (hbeq : ∀ x y, beq x y = true → x = y)
    (air : Air (ZMod p)) (hwf : AirWF air k) (P : Prep (ZMod p))
    (hP : prep (absOps O val) air = some P) (D : Domain (ZMod p))
    (hD : mkDomain (absOps O val) (2 ^ k) (2 ^ b) (2 ^ l) γ = some D) (threshold : ℕ)
    (mainPolys auxPolys : ℕ → List (ZMod p)) (rands : ℕ → ZMod p) (tco bco : List (ZMod p))
    (hlen : air.mainCons.length ≤ tco.length)
    (hdeg : DeclaredDegreesOK air P mainPolys auxPolys rands)
    (hk : air.n * numCompColumns (air.mainDegs ++ air.auxDegs) air.n air.e ≤ D.ceSize)
    (hvalid : ValidTrace (absOps O val).root air P mainPolys auxPolys rands) :
    CommittedEqDefinition (absOps O val).root beq air P D threshold mainPolys auxPolys rands tco bco ∧
    ∀ ctr cols, compositionTrace (absOps O val) beq air P D threshold mainPolys auxPolys rands tco bco = some ctr →
      compositionPoly (absOps O val) D ctr (numCompColumns (air.mainDegs ++ air.auxDegs) air.n air.e) = some cols →
      (∀ x, recombine (absOps O val) air.n x (evaluateAt (absOps O val) cols x)
        = (compositionQ air P mainPolys auxPolys rands tco bco).eval x) ∧
      ∀ x, x ^ air.n ≠ 1 →
        evaluateConstraints (absOps O val) air P (framesOf (absOps O val) mainPolys auxPolys P.g x) rands tco bco x
          = some (recombine (absOps O val) air.n x (evaluateAt (absOps O val) cols x)) := by
  obtain ⟨hγ0, hγp⟩ := generator_no_two_power_order hγ hT
  obtain ⟨hok, haok, hg, hw, hroot, ho, hoff⟩ :=
    coherence_of_rootFamily (absOps O val).root (rootFamily_of_refines H) hγ0 hγp hk1 hbl hklT hwf hP hD
  exact committed_eq_definition beq hbeq air P hP D threshold mainPolys auxPolys rands tco bco hok hlen hw hroot ho
    hg haok hdeg hk hoff hvalid

end Generic

-- ============================================================================================
-- the three base fields
-- ============================================================================================

/-- the composition model's operations over the 64-bit field: field arithmetic of `ZMod p`, `root k` the
    residue of `get_root_of_unity(k)` -/
noncomputable abbrev f64Ops : Ops (ZMod F64Z.P) := absOps (rawOps Model.F64.impl) F64Z.val
noncomputable abbrev f62Ops : Ops (ZMod F62Z.P) := absOps (rawOps Model.F62.impl) F62Z.val
noncomputable abbrev f128Ops : Ops (ZMod F128Z.P) := absOps (rawOps Model.F128.impl) F128Z.val

/-- **C17 for the 64-bit field** (p = 2^64 − 2^32 + 1, two-adicity 32, offset `GENERATOR` = 7): every
    trace length `2^k`, blowups `2^b ≤ 2^l` with `k + l ≤ 32` -/
theorem committed_eq_definition_f64 {k b l : ℕ} (hk1 : 1 ≤ k) (hbl : b ≤ l) (hklT : k + l ≤ 32)
    (beq : ZMod F64Z.P → ZMod F64Z.P → Bool) (hbeq : ∀ x y, beq x y = true → x = y)
    (air : Air (ZMod F64Z.P)) (hwf : AirWF air k) (P : Prep (ZMod F64Z.P)) (hP : prep f64Ops air = some P)
    (D : Domain (ZMod F64Z.P))
    (hD : mkDomain f64Ops (2 ^ k) (2 ^ b) (2 ^ l) ((Gen.F64.GENERATOR : ℕ) : ZMod F64Z.P) = some D)
    (threshold : ℕ) (mainPolys auxPolys : ℕ → List (ZMod F64Z.P)) (rands : ℕ → ZMod F64Z.P)
    (tco bco : List (ZMod F64Z.P)) (hlen : air.mainCons.length ≤ tco.length)
    (hdeg : DeclaredDegreesOK air P mainPolys auxPolys rands)
    (hk : air.n * numCompColumns (air.mainDegs ++ air.auxDegs) air.n air.e ≤ D.ceSize)
    (hvalid : ValidTrace f64Ops.root air P mainPolys auxPolys rands) :
    CommittedEqDefinition f64Ops.root beq air P D threshold mainPolys auxPolys rands tco bco ∧
    ∀ ctr cols, compositionTrace f64Ops beq air P D threshold mainPolys auxPolys rands tco bco = some ctr →
      compositionPoly f64Ops D ctr (numCompColumns (air.mainDegs ++ air.auxDegs) air.n air.e) = some cols →
      (∀ x, recombine f64Ops air.n x (evaluateAt f64Ops cols x)
        = (compositionQ air P mainPolys auxPolys rands tco bco).eval x) ∧
      ∀ x, x ^ air.n ≠ 1 →
        evaluateConstraints f64Ops air P (framesOf f64Ops mainPolys auxPolys P.g x) rands tco bco x
          = some (recombine f64Ops air.n x (evaluateAt f64Ops cols x)) :=
  committed_eq_definition_refines C16.f64_refines C07.F64.generator_order (by decide) hk1 hbl hklT beq hbeq air hwf
    P hP D hD threshold mainPolys auxPolys rands tco bco hlen hdeg hk hvalid

/-- **C17 for the 62-bit field** (p = 2^62 − 111·2^39 + 1, two-adicity 39) -/
theorem committed_eq_definition_f62 {k b l : ℕ} (hk1 : 1 ≤ k) (hbl : b ≤ l) (hklT : k + l ≤ 39)
    (beq : ZMod F62Z.P → ZMod F62Z.P → Bool) (hbeq : ∀ x y, beq x y = true → x = y)
    (air : Air (ZMod F62Z.P)) (hwf : AirWF air k) (P : Prep (ZMod F62Z.P)) (hP : prep f62Ops air = some P)
    (D : Domain (ZMod F62Z.P))
    (hD : mkDomain f62Ops (2 ^ k) (2 ^ b) (2 ^ l) ((Gen.F62.GENERATOR : ℕ) : ZMod F62Z.P) = some D)
    (threshold : ℕ) (mainPolys auxPolys : ℕ → List (ZMod F62Z.P)) (rands : ℕ → ZMod F62Z.P)
    (tco bco : List (ZMod F62Z.P)) (hlen : air.mainCons.length ≤ tco.length)
    (hdeg : DeclaredDegreesOK air P mainPolys auxPolys rands)
    (hk : air.n * numCompColumns (air.mainDegs ++ air.auxDegs) air.n air.e ≤ D.ceSize)
    (hvalid : ValidTrace f62Ops.root air P mainPolys auxPolys rands) :
    CommittedEqDefinition f62Ops.root beq air P D threshold mainPolys auxPolys rands tco bco ∧
    ∀ ctr cols, compositionTrace f62Ops beq air P D threshold mainPolys auxPolys rands tco bco = some ctr →
      compositionPoly f62Ops D ctr (numCompColumns (air.mainDegs ++ air.auxDegs) air.n air.e) = some cols →
      (∀ x, recombine f62Ops air.n x (evaluateAt f62Ops cols x)
        = (compositionQ air P mainPolys auxPolys rands tco bco).eval x) ∧
      ∀ x, x ^ air.n ≠ 1 →
        evaluateConstraints f62Ops air P (framesOf f62Ops mainPolys auxPolys P.g x) rands tco bco x
          = some (recombine f62Ops air.n x (evaluateAt f62Ops cols x)) :=
  committed_eq_definition_refines C16.f62_refines C07.F62.generator_order (by decide) hk1 hbl hklT beq hbeq air hwf
    P hP D hD threshold mainPolys auxPolys rands tco bco hlen hdeg hk hvalid

/-- **C17 for the 128-bit field** (p = 2^128 − 45·2^40 + 1, two-adicity 40) -/
theorem committed_eq_definition_f128 {k b l : ℕ} (hk1 : 1 ≤ k) (hbl : b ≤ l) (hklT : k + l ≤ 40)
    (beq : ZMod F128Z.P → ZMod F128Z.P → Bool) (hbeq : ∀ x y, beq x y = true → x = y)
    (air : Air (ZMod F128Z.P)) (hwf : AirWF air k) (P : Prep (ZMod F128Z.P)) (hP : prep f128Ops air = some P)
    (D : Domain (ZMod F128Z.P))
    (hD : mkDomain f128Ops (2 ^ k) (2 ^ b) (2 ^ l) ((Gen.F128.GENERATOR : ℕ) : ZMod F128Z.P) = some D)
    (threshold : ℕ) (mainPolys auxPolys : ℕ → List (ZMod F128Z.P)) (rands : ℕ → ZMod F128Z.P)
    (tco bco : List (ZMod F128Z.P)) (hlen : air.mainCons.length ≤ tco.length)
    (hdeg : DeclaredDegreesOK air P mainPolys auxPolys rands)
    (hk : air.n * numCompColumns (air.mainDegs ++ air.auxDegs) air.n air.e ≤ D.ceSize)
    (hvalid : ValidTrace f128Ops.root air P mainPolys auxPolys rands) :
    CommittedEqDefinition f128Ops.root beq air P D threshold mainPolys auxPolys rands tco bco ∧
    ∀ ctr cols, compositionTrace f128Ops beq air P D threshold mainPolys auxPolys rands tco bco = some ctr →
      compositionPoly f128Ops D ctr (numCompColumns (air.mainDegs ++ air.auxDegs) air.n air.e) = some cols →
      (∀ x, recombine f128Ops air.n x (evaluateAt f128Ops cols x)
        = (compositionQ air P mainPolys auxPolys rands tco bco).eval x) ∧
      ∀ x, x ^ air.n ≠ 1 →
        evaluateConstraints f128Ops air P (framesOf f128Ops mainPolys auxPolys P.g x) rands tco bco x
          = some (recombine f128Ops air.n x (evaluateAt f128Ops cols x)) :=
  committed_eq_definition_refines C16.f128_refines C07.F128.generator_order (by decide) hk1 hbl hklT beq hbeq air hwf
    P hP D hD threshold mainPolys auxPolys rands tco bco hlen hdeg hk hvalid

-- ============================================================================================
-- the hypotheses are satisfiable over the 64-bit field
-- ============================================================================================
namespace InstF64

/-- n = 8 = 2^3, one exemption, one column constrained by `next − cur = 0`, asserted to be 3 at step 0,
    over the 64-bit field; constraint evaluation blowup 2, LDE blowup 4 -/
def air : Air (ZMod F64Z.P) :=
  ⟨8, 1, 1, 0, [], [.sub (.nxt 0) (.cur 0)], [], [⟨1, []⟩], [], [⟨0, 0, 0, [3]⟩], []⟩

/-- the constant column 3 -/
def polys : ℕ → List (ZMod F64Z.P) := fun j => if j = 0 then [3] else []

theorem airWF : AirWF air 3 where
  hn := rfl
  he := by decide
  hper := by intro c hc; cases hc
  hwf := by
    intro a ha
    have ha' : a ∈ [(⟨0, 0, 0, [3]⟩ : Assertion (ZMod F64Z.P))] := ha
    rw [List.mem_singleton] at ha'
    subst ha'
    exact Or.inl ⟨rfl, rfl⟩
  haux := fun _ => rfl

theorem prep_ex : ∃ P, prep f64Ops air = some P ∧ P.perPolys = [] := by
  obtain ⟨g, hg, _⟩ := (rootFamily_of_refines C16.f64_refines).ex 3 (by decide) (by decide)
  have h1 : f64Ops.root (Nat.log2 air.n) = some g := by
    have : Nat.log2 air.n = 3 := by decide +kernel
    rw [this]; exact hg
  refine ⟨⟨g, 1 / g, [], [⟨⟨0, 0, 0, [3]⟩, ⟨0, [3], 0, 1⟩⟩], []⟩, ?_, rfl⟩
  unfold prep
  rw [h1]
  have h2 : resOpt (prepareAssertions air.mainAsserts air.mainWidth air.n) = some [⟨0, 0, 0, [3]⟩] := rfl
  have h3 : resOpt (prepareAssertions air.auxAsserts air.auxWidth air.n) = some [] := rfl
  simp only [Option.bind_eq_bind, Option.bind_some, h2, h3]
  rfl

theorem domain_ex : ∃ D, mkDomain f64Ops (2 ^ 3) (2 ^ 1) (2 ^ 2) ((Gen.F64.GENERATOR : ℕ) : ZMod F64Z.P) = some D := by
  obtain ⟨w1, h1, _⟩ := (rootFamily_of_refines C16.f64_refines).ex 4 (by decide) (by decide)
  obtain ⟨w2, h2, _⟩ := (rootFamily_of_refines C16.f64_refines).ex 5 (by decide) (by decide)
  refine ⟨⟨2 ^ 3, 2 ^ 1, 2 ^ 2, ((Gen.F64.GENERATOR : ℕ) : ZMod F64Z.P), w1, w2⟩, ?_⟩
  unfold mkDomain
  have e1 : Nat.log2 (2 ^ 3 * 2 ^ 1) = 4 := by decide +kernel
  have e2 : Nat.log2 (2 ^ 3 * 2 ^ 2) = 5 := by decide +kernel
  rw [e1, e2, h1, h2]
  rfl

theorem valid (P : Prep (ZMod F64Z.P)) :
    ValidTrace f64Ops.root air P polys (fun _ => []) (fun _ => 0) where
  mainLen := by intro j; unfold polys; split <;> simp [air]
  auxLen := by intro j; simp
  transition := by
    intro s _ c hc
    have hc' : c ∈ [Expr.sub (.nxt 0) (.cur 0)] := hc
    rw [List.mem_singleton] at hc'
    subst hc'
    simp [Expr.eval, defEnv, mkEnv, framesOf, polys, polyEval, fieldOps]
  mainAssertions := by
    intro a ha
    have ha' : a ∈ [(⟨0, 0, 0, [3]⟩ : Assertion (ZMod F64Z.P))] := ha
    rw [List.mem_singleton] at ha'
    subst ha'
    refine assertionHolds_of_apply _ (l := [(0, 3)]) rfl ?_
    intro sv hsv
    rw [List.mem_singleton] at hsv
    subst hsv
    simp [polys, polyEval, fieldOps]
  auxAssertions := by intro a ha; cases ha

/-- **`committed_eq_definition_f64` is not vacuous**: for this description and the constant trace every
    hypothesis holds (the instance `prep` and `StarkDomain::new` deliver exist), hence the conclusion -/
theorem instance_f64 : ∃ P D, prep f64Ops air = some P ∧
    mkDomain f64Ops (2 ^ 3) (2 ^ 1) (2 ^ 2) ((Gen.F64.GENERATOR : ℕ) : ZMod F64Z.P) = some D ∧
    CommittedEqDefinition f64Ops.root (fun a b => decide (a = b)) air P D 63 polys (fun _ => []) (fun _ => 0) [7] [11] := by
  obtain ⟨P, hP, hper⟩ := prep_ex
  obtain ⟨D, hD⟩ := domain_ex
  obtain ⟨hDn, hDb, _⟩ := mkDomain_spec f64Ops.root hD
  have hv := valid P
  have hdeg : DeclaredDegreesOK air P polys (fun _ => []) (fun _ => 0) :=
    declaredDegreesOK_of_degBound air P polys _ _ hv.mainLen hv.auxLen
      (List.Forall₂.cons (by rw [hper]; decide) List.Forall₂.nil) List.Forall₂.nil
  have hk : air.n * numCompColumns (air.mainDegs ++ air.auxDegs) air.n air.e ≤ D.ceSize := by
    unfold Domain.ceSize
    rw [hDn, hDb]
    decide
  exact ⟨P, D, hP, hD, (committed_eq_definition_f64 (k := 3) (b := 1) (l := 2) (by decide) (by decide) (by decide)
    (fun a b => decide (a = b)) (fun a b h => of_decide_eq_true h) air airWF P hP D hD 63 polys (fun _ => [])
    (fun _ => 0) [7] [11] (by decide) hdeg hk hv).1⟩

end InstF64

end WinterProofs.C17
