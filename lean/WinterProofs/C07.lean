-- C07: base fields — arithmetic equals integer arithmetic modulo the prime (property theorems)
import Winter.Model.Field

namespace WinterProofs.C07
open Gen

theorem f64_consts_shape : F64.M = 2 ^ 64 - 2 ^ 32 + 1 ∧ F64.ELEMENT_BYTES = 8 := by decide

end WinterProofs.C07
