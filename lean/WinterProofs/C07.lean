-- C07: base fields — arithmetic equals integer arithmetic modulo the prime (property theorems).
--
-- The model: `Gen.F64.*`, `Gen.F62.*`, `Gen.F128.*` are regenerated from
-- math/src/field/{f64,f62,f128}/mod.rs on every run (translate/); `Model.F64.exp/inv`, conversions
-- and byte encodings are hand-written (Winter/Model/Field.lean) and tied to the code by the
-- correspondence harness.  A raw word `r` denotes the residue `val r`.
import WinterProofs.Lemmas.C07F64Z
import WinterProofs.Lemmas.C07Bytes
import WinterProofs.Lemmas.Primes

namespace WinterProofs.C07
open Model

/-! ## The 64-bit field, p = 2^64 - 2^32 + 1 (Montgomery form, raw words canonical: r < p) -/
namespace F64
open Gen.F64 WinterProofs.F64Z WinterProofs.Primes

/-! ### published constants -/

theorem modulus_eq : M = 2 ^ 64 - 2 ^ 32 + 1 := by decide

theorem modulus_prime : Nat.Prime M := prime_M64

/-- `R2` is `2^128 mod p`, `ELEMENT_BYTES` holds every canonical value -/
theorem montgomery_constants : R2 = 2 ^ 128 % M ∧ ELEMENT_BYTES = 8 ∧ M < 256 ^ ELEMENT_BYTES ∧
    MODULUS_BITS = 64 ∧ 2 ^ 63 < M ∧ M < 2 ^ 64 := by decide

/-- two-adicity: `2^32` is the exact power of two dividing `p - 1` -/
theorem two_adicity : 2 ^ TWO_ADICITY ∣ M - 1 ∧ ¬ 2 ^ (TWO_ADICITY + 1) ∣ M - 1 := by decide

/-- the published generator generates the whole multiplicative group -/
theorem generator_order : orderOf ((GENERATOR : Nat) : ZMod P) = P - 1 := by
  apply order_of_lucas P GENERATOR (List.replicate 32 2 ++ [3, 5, 17, 257, 65537])
  · norm_num
  · norm_num
  · intro q hq
    simp only [List.mem_append, List.mem_replicate, List.mem_cons, List.not_mem_nil, or_false] at hq
    rcases hq with ⟨-, rfl⟩ | rfl | rfl | rfl | rfl | rfl <;> norm_num
  · decide +kernel
  · decide +kernel
  · decide +kernel

/-- the published root of unity has order exactly `2^TWO_ADICITY` -/
theorem root_of_unity_order :
    orderOf ((TWO_ADIC_ROOT_OF_UNITY : Nat) : ZMod P) = 2 ^ TWO_ADICITY := by
  apply order_two_pow P TWO_ADIC_ROOT_OF_UNITY 31
  · norm_num
  · decide +kernel
  · decide +kernel

/-! ### every public operation preserves the representation invariant and computes in `ZMod p` -/

/-- `BaseElement::new` reduces silently: any 64-bit word, value `v mod p` -/
theorem new_correct (v : Nat) (hv : v < 2 ^ 64) : Inv (new v) ∧ val (new v) = (v : ZMod P) :=
  ⟨new_inv v hv, val_new v hv⟩

theorem add_correct (a b : Nat) (ha : Inv a) (hb : Inv b) :
    Inv (add a b) ∧ val (add a b) = val a + val b ∧ add_ok a b = true :=
  ⟨add_inv a b ha hb, val_add a b ha hb, F64L.add_ok_spec a b hb⟩

theorem sub_correct (a b : Nat) (ha : Inv a) (hb : Inv b) :
    Inv (sub a b) ∧ val (sub a b) = val a - val b :=
  ⟨sub_inv a b ha hb, val_sub a b ha hb⟩

theorem mul_correct (a b : Nat) (ha : Inv a) (hb : Inv b) :
    Inv (mul a b) ∧ val (mul a b) = val a * val b :=
  ⟨mul_inv a b ha hb, val_mul a b ha hb⟩

theorem neg_correct (a : Nat) (ha : Inv a) : Inv (neg a) ∧ val (neg a) = - val a :=
  ⟨neg_inv a ha, val_neg a ha⟩

theorem double_correct (a : Nat) (ha : Inv a) : Inv (double a) ∧ val (double a) = 2 * val a :=
  ⟨double_inv a ha, val_double a ha⟩

theorem square_correct (a : Nat) (ha : Inv a) : Inv (mul a a) ∧ val (mul a a) = val a ^ 2 := by
  refine ⟨mul_inv a a ha ha, ?_⟩
  rw [val_mul a a ha ha, pow_two]

/-- `mul_small` (multiplication by a 32-bit integer without Montgomery reduction) -/
theorem mul_small_correct (a k : Nat) (ha : Inv a) (hk : k < 2 ^ 32) :
    Inv (mul_small a k) ∧ val (mul_small a k) = val a * (k : ZMod P) :=
  ⟨mul_small_inv a k ha hk, val_mul_small a k ha hk⟩

/-- exponentiation by any 64-bit exponent -/
theorem exp_correct (a e : Nat) (ha : Inv a) (he : e < 2 ^ 64) :
    Inv (Model.F64.exp a e) ∧ val (Model.F64.exp a e) = val a ^ e :=
  exp_spec a e ha he

/-- inversion; zero maps to zero (`0⁻¹ = 0` in `ZMod p`) -/
theorem inv_correct (a : Nat) (ha : Inv a) :
    Inv (Model.F64.inv a) ∧ val (Model.F64.inv a) = (val a)⁻¹ :=
  ⟨(inv_pow a ha).1, val_inv a ha⟩

theorem div_correct (a b : Nat) (ha : Inv a) (hb : Inv b) :
    ∃ r, Model.F64.impl.div a b = .done r ∧ Inv r ∧ val r = val a / val b := by
  refine ⟨mul a (Model.F64.inv b), rfl, mul_inv _ _ ha (inv_pow b hb).1, ?_⟩
  rw [val_mul _ _ ha (inv_pow b hb).1, val_inv b hb, div_eq_mul_inv]

/-- `as_int` is the canonical representative of the residue: `< p` and equal to `(val a).val` -/
theorem as_int_correct (a : Nat) (ha : Inv a) : as_int a < M ∧ as_int a = (val a).val :=
  ⟨as_int_lt a (lt_trans ha (by decide)), as_int_eq_val a (lt_trans ha (by decide))⟩

/-- `==` holds exactly for equal residues (the representation is canonical) -/
theorem eq_correct (a b : Nat) (ha : Inv a) (hb : Inv b) : eq a b = true ↔ val a = val b :=
  eq_iff a b ha hb

/-! ### conversions -/

/-- `TryFrom<u64/u128>` rejects exactly the integers `≥ p` and otherwise denotes the integer -/
theorem try_from_correct (n : Nat) :
    (n ≥ M → Model.F64.impl.tryFrom n = .err) ∧
    (n < M → Model.F64.impl.tryFrom n = .ok (new n) ∧ Inv (new n) ∧ val (new n) = (n : ZMod P)) := by
  constructor
  · intro h
    show (if n ≥ M then Conv.err else Conv.ok (new n)) = Conv.err
    rw [if_pos h]
  · intro h
    have hn64 : n < 2 ^ 64 := lt_trans h (by decide)
    refine ⟨?_, new_inv n hn64, val_new n hn64⟩
    show (if n ≥ M then Conv.err else Conv.ok (new n)) = Conv.ok (new n)
    rw [if_neg (by omega)]

/-- converting the canonical integer back gives the same raw word -/
theorem new_as_int (a : Nat) (ha : Inv a) : new (as_int a) = a := by
  have hlt := as_int_lt a (lt_trans ha (by decide))
  have h64 : as_int a < 2 ^ 64 := lt_trans hlt (by decide)
  apply val_injective (new_inv _ h64) ha
  rw [val_new _ h64, as_int_val a (lt_trans ha (by decide))]

/-- byte round trip: decoding what was encoded returns the same element and consumes exactly
    the eight written bytes, whatever follows -/
theorem bytes_roundtrip (a : Nat) (ha : Inv a) (rest : List Nat) :
    Model.F64.impl.readFrom (Model.F64.impl.toBytes a ++ rest) = some (.ok a, rest) := by
  have hlt := as_int_lt a (lt_trans ha (by decide))
  have hlen : (leBytes 8 (as_int a)).length = 8 := Bytes.leBytes_length 8 _
  show (if (leBytes 8 (as_int a) ++ rest).length < 8 then none
    else some (FieldImpl.tryFrom Model.F64.impl (ofLeBytes ((leBytes 8 (as_int a) ++ rest).take 8)),
      (leBytes 8 (as_int a) ++ rest).drop 8)) = some (.ok a, rest)
  rw [if_neg (by rw [List.length_append, hlen]; omega)]
  rw [List.take_left' hlen, List.drop_left' hlen,
    Bytes.ofLeBytes_leBytes_of_lt 8 _ (lt_trans hlt (by decide))]
  show some ((if as_int a ≥ M then Conv.err else Conv.ok (new (as_int a))), rest) = some (.ok a, rest)
  rw [if_neg (by omega), new_as_int a ha]

/-- two elements serialize identically exactly when they denote the same residue -/
theorem to_bytes_eq_iff (a b : Nat) (ha : Inv a) (hb : Inv b) :
    Model.F64.impl.toBytes a = Model.F64.impl.toBytes b ↔ val a = val b := by
  have hla := as_int_lt a (lt_trans ha (by decide))
  have hlb := as_int_lt b (lt_trans hb (by decide))
  constructor
  · intro h
    have h' : as_int a = as_int b :=
      Bytes.leBytes_inj 8 _ _ (lt_trans hla (by decide)) (lt_trans hlb (by decide)) h
    rw [← as_int_val a (lt_trans ha (by decide)), ← as_int_val b (lt_trans hb (by decide)), h']
  · intro h
    have : a = b := val_injective ha hb h
    rw [this]

/-- `get_root_of_unity(n)`: defined for 1 ≤ n ≤ 32 with order exactly `2^n`; the documented
    assertion failures (`none`) are exactly n = 0 and n > 32 -/
theorem get_root_of_unity_correct (n : Nat) :
    (n = 0 ∨ n > 32 → Model.F64.impl.rootOfUnity n = none) ∧
    (1 ≤ n → n ≤ 32 → ∃ r, Model.F64.impl.rootOfUnity n = some r ∧ Inv r ∧ orderOf (val r) = 2 ^ n) := by
  constructor
  · intro h
    show (if n = 0 ∨ n > 32 then none else some _) = none
    rw [if_pos h]
  · intro h1 h2
    have hw := new_correct TWO_ADIC_ROOT_OF_UNITY (by decide)
    have he : 2 ^ (32 - n) < 2 ^ 64 := Nat.pow_lt_pow_right (by norm_num) (by omega)
    obtain ⟨hi, hv⟩ := exp_correct (new TWO_ADIC_ROOT_OF_UNITY) (2 ^ (32 - n)) hw.1 he
    refine ⟨Model.F64.exp (new TWO_ADIC_ROOT_OF_UNITY) (2 ^ (32 - n)), ?_, hi, ?_⟩
    · show (if n = 0 ∨ n > 32 then none else some _) = some _
      rw [if_neg (by omega)]
      rfl
    · rw [hv, hw.2, orderOf_pow_of_dvd (by positivity), root_of_unity_order]
      · show 2 ^ 32 / 2 ^ (32 - n) = 2 ^ n
        rw [Nat.pow_div (by omega) (by norm_num)]
        congr 1; omega
      · rw [root_of_unity_order]
        exact pow_dvd_pow 2 (by show 32 - n ≤ 32; omega)

/-! ### the representation invariant over every sequence of public operations -/

/-- the meaning of an operation sequence on residues -/
def specStep (st : ZMod P × ZMod P) : FieldImpl.SeqOp → ZMod P × ZMod P
  | .add => (st.1 + st.2, st.2)
  | .sub => (st.1 - st.2, st.2)
  | .mul => (st.1 * st.2, st.2)
  | .neg => (-st.1, st.2)
  | .dbl => (2 * st.1, st.2)
  | .sq => (st.1 ^ 2, st.2)
  | .swap => (st.2, st.1)
  | .inv => (st.1⁻¹, st.2)
  | .div => (st.1 / st.2, st.2)
  | .mulSmall k => (st.1 * (k : ZMod P), st.2)

def wfOp : FieldImpl.SeqOp → Prop
  | .mulSmall k => k < 2 ^ 32
  | _ => True

theorem seq_step (acc y : Nat) (op : FieldImpl.SeqOp) (ha : Inv acc) (hy : Inv y) (hop : wfOp op) :
    ∃ acc' y', Model.F64.impl.seqStep mul_small (some (acc, y)) op = some (acc', y') ∧
      Inv acc' ∧ Inv y' ∧ (val acc', val y') = specStep (val acc, val y) op := by
  cases op with
  | add => exact ⟨add acc y, y, rfl, add_inv _ _ ha hy, hy, by rw [val_add _ _ ha hy]; rfl⟩
  | sub => exact ⟨sub acc y, y, rfl, sub_inv _ _ ha hy, hy, by rw [val_sub _ _ ha hy]; rfl⟩
  | mul => exact ⟨mul acc y, y, rfl, mul_inv _ _ ha hy, hy, by rw [val_mul _ _ ha hy]; rfl⟩
  | neg => exact ⟨neg acc, y, rfl, neg_inv _ ha, hy, by rw [val_neg _ ha]; rfl⟩
  | dbl => exact ⟨double acc, y, rfl, double_inv _ ha, hy, by rw [val_double _ ha]; rfl⟩
  | sq => exact ⟨mul acc acc, y, rfl, mul_inv _ _ ha ha, hy, by rw [val_mul _ _ ha ha, ← pow_two]; rfl⟩
  | swap => exact ⟨y, acc, rfl, hy, ha, rfl⟩
  | inv => exact ⟨Model.F64.inv acc, y, rfl, (inv_pow _ ha).1, hy, by rw [val_inv _ ha]; rfl⟩
  | div =>
    refine ⟨mul acc (Model.F64.inv y), y, rfl, mul_inv _ _ ha (inv_pow y hy).1, hy, ?_⟩
    rw [val_mul _ _ ha (inv_pow y hy).1, val_inv y hy, ← div_eq_mul_inv]; rfl
  | mulSmall k =>
    exact ⟨mul_small acc k, y, rfl, mul_small_inv _ _ ha hop, hy, by rw [val_mul_small _ _ ha hop]; rfl⟩

/-- every state reachable from integers by public operations satisfies the representation
    invariant and denotes the residues obtained by the same operations in `ZMod p`; in
    particular `==` and serialization agree with residue equality in every reachable state -/
theorem seq_invariant (a b : Nat) (ha : a < 2 ^ 64) (hb : b < 2 ^ 64) (ops : List FieldImpl.SeqOp)
    (hops : ∀ op ∈ ops, wfOp op) :
    ∃ acc y, Model.F64.impl.runSeq mul_small a b ops = some (acc, y) ∧ Inv acc ∧ Inv y ∧
      (val acc, val y) = ops.foldl specStep ((a : ZMod P), (b : ZMod P)) := by
  unfold FieldImpl.runSeq
  have h0 : ∃ acc y, (some (Model.F64.impl.new a, Model.F64.impl.new b) : Option (Nat × Nat)) = some (acc, y) ∧
      Inv acc ∧ Inv y ∧ (val acc, val y) = ((a : ZMod P), (b : ZMod P)) :=
    ⟨new a, new b, rfl, new_inv a ha, new_inv b hb, by rw [val_new a ha, val_new b hb]⟩
  generalize (some (Model.F64.impl.new a, Model.F64.impl.new b) : Option (Nat × Nat)) = st at h0
  generalize (((a : ZMod P), (b : ZMod P)) : ZMod P × ZMod P) = sp at h0 ⊢
  induction ops generalizing st sp with
  | nil => simpa using h0
  | cons op ops ih =>
    obtain ⟨acc, y, rfl, hi1, hi2, hv⟩ := h0
    obtain ⟨acc', y', hs, hj1, hj2, hv'⟩ := seq_step acc y op hi1 hi2 (hops op (by simp))
    rw [List.foldl_cons, List.foldl_cons, hs]
    apply ih (fun o ho => hops o (by simp [ho]))
    exact ⟨acc', y', rfl, hj1, hj2, by rw [hv', hv]⟩

/-- non-vacuity: a concrete raw word satisfies the invariant and is not trivial -/
example : Inv (new 5) ∧ Inv (new (2 ^ 64 - 1)) := ⟨new_inv 5 (by norm_num), new_inv _ (by norm_num)⟩

end F64

end WinterProofs.C07
