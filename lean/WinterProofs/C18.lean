-- C18: security estimate and acceptance policy (theorems; in progress)
import Winter.Model.Security

namespace C18
open Model.Security

end C18
