-- C18: security estimate and acceptance policy — property theorems about Winter/Model/Security.lean
-- (helper lemmas: WinterProofs/Lemmas/C18.lean).  The model is tied to the code by the correspondence
-- harness (harness/src/bin/c18.rs); the numeric limits come from Winter/Gen/Limits.lean, regenerated
-- from air/src/options.rs and air/src/proof/mod.rs on every run; the conjectured estimate is moreover
-- tied by translation (section 7: Winter/Gen/Security.lean is regenerated from `get_conjectured_security`
-- on every run and proved equal to the model for all arguments).
import Winter.Model.Security
import Winter.Model.Field
import WinterProofs.Lemmas.C18
import WinterProofs.Lemmas.C18Gen

namespace C18
open Model.Security Gen.Limits C18L

-- =================================================================== 1. the options constructor
/-- `ProofOptions::new` accepts exactly the documented parameter sets. -/
theorem options_new_ok_iff (q b g : Nat) (e : Ext) (ff fr : Nat) (o : Options) :
    Options.new q b g e ff fr = .ok o ↔
      (1 ≤ q ∧ q ≤ 255 ∧ b ∈ [2, 4, 8, 16, 32, 64, 128] ∧ g ≤ 32 ∧ ff ∈ [2, 4, 8, 16] ∧
        fr ∈ [0, 1, 3, 7, 15, 31, 63, 127, 255]) ∧ o = ⟨q, b, g, e, ff, fr⟩ := by
  have hb : ∀ x, x ≤ 128 → ((isPow2 x = true ∧ 2 ≤ x) ↔ x ∈ [2, 4, 8, 16, 32, 64, 128]) := by decide +kernel
  have hf : ∀ x, x ≤ 16 → ((isPow2 x = true ∧ 2 ≤ x) ↔ x ∈ [2, 4, 8, 16]) := by decide
  have hr : ∀ x, x ≤ 255 → (isPow2 (x + 1) = true ↔ x ∈ [0, 1, 3, 7, 15, 31, 63, 127, 255]) := by decide +kernel
  unfold Options.new
  by_cases h : (⟨q, b, g, e, ff, fr⟩ : Options).accepted = true
  · simp only [h, if_true, Res.ok.injEq]
    unfold Options.accepted MAX_NUM_QUERIES MIN_BLOWUP_FACTOR MAX_BLOWUP_FACTOR MAX_GRINDING_FACTOR
      FRI_MIN_FOLDING_FACTOR FRI_MAX_FOLDING_FACTOR FRI_MAX_REMAINDER_DEGREE at h
    simp only [Bool.and_eq_true, decide_eq_true_eq] at h
    obtain ⟨⟨⟨⟨⟨⟨⟨⟨⟨⟨h1, h2⟩, h3⟩, h4⟩, h5⟩, h6⟩, h7⟩, h8⟩, h9⟩, h10⟩, h11⟩ := h
    constructor
    · intro ho
      exact ⟨⟨h1, h2, (hb b h5).mp ⟨h3, h4⟩, h6, (hf ff h9).mp ⟨h7, h8⟩, (hr fr h11).mp h10⟩, ho.symm⟩
    · rintro ⟨_, rfl⟩; rfl
  · simp only [h]
    constructor
    · intro ho; cases ho
    · rintro ⟨⟨h1, h2, h3, h4, h5, h6⟩, _⟩
      exfalso; apply h
      have hb5 : b ≤ 128 := by
        simp only [List.mem_cons, List.mem_nil_iff, or_false] at h3; omega
      have hf5 : ff ≤ 16 := by
        simp only [List.mem_cons, List.mem_nil_iff, or_false] at h5; omega
      have hr5 : fr ≤ 255 := by
        simp only [List.mem_cons, List.mem_nil_iff, or_false] at h6; omega
      obtain ⟨b1, b2⟩ := (hb b hb5).mpr h3
      obtain ⟨f1, f2⟩ := (hf ff hf5).mpr h5
      have r1 := (hr fr hr5).mpr h6
      unfold Options.accepted MAX_NUM_QUERIES MIN_BLOWUP_FACTOR MAX_BLOWUP_FACTOR MAX_GRINDING_FACTOR
        FRI_MIN_FOLDING_FACTOR FRI_MAX_FOLDING_FACTOR FRI_MAX_REMAINDER_DEGREE
      simp only [Bool.and_eq_true, decide_eq_true_eq]
      exact ⟨⟨⟨⟨⟨⟨⟨⟨⟨⟨h1, h2⟩, b1⟩, b2⟩, hb5⟩, h4⟩, f1⟩, f2⟩, hf5⟩, r1⟩, hr5⟩

example : Options.new 27 8 16 .quadratic 8 127 = .ok ⟨27, 8, 16, .quadratic, 8, 127⟩ := by decide

-- =================================================================== 2. number of modulus bits
/-- `Context::num_modulus_bits` is the bit length of the little-endian value of the modulus bytes,
    for every byte string a proof can carry (at most 255 bytes; any length below 2^29 works), and
    it never panics. -/
theorem numModulusBits_eq_bitLength (bs : List Nat) (h : ∀ b ∈ bs, b < 256) (hl : bs.length * 8 < U32) :
    numModulusBits bs = .ok (bitLen (leVal bs)) :=
  numModulusBits_eq bs h hl

/-- the three fields of the library have 62, 64 and 128 modulus bits -/
theorem numModulusBits_fields :
    numModulusBits (Model.leBytes 8 Gen.F62.M) = .ok 62 ∧
    numModulusBits (Model.leBytes 8 Gen.F64.M) = .ok 64 ∧
    numModulusBits (Model.leBytes 16 Gen.F128.M) = .ok 128 := by decide

-- =================================================================== 3. conjectured estimate
/-- the documented formula, over the integers (nothing is truncated):
    min(min(field_bits·ext − log2(trace_length·blowup), q·log2(blowup) [+ grinding if ≥ 80]) − 1, cr) -/
def documented (bits ext n blowup q g cr : Nat) : Int :=
  let qs : Int := q * Nat.log2 blowup
  min (min ((bits * ext : Int) - Nat.log2 (n * blowup)) (if 80 ≤ qs then qs + g else qs) - 1) cr

/-- the parameter tuples on which `get_conjectured_security` is defined: options accepted by the
    constructor, a non-empty trace whose LDE domain size fits a `usize`, a field size that fits a
    `u32` and exceeds log2 of the LDE domain size -/
def Admissible (o : Options) (bits n : Nat) : Prop :=
  o.accepted = true ∧ conjGuard o bits n

/-- ★ the conjectured level equals the documented formula for every admissible parameter tuple -/
theorem conjectured_eq_documented {o : Options} {bits n : Nat} (cr : Nat) (h : Admissible o bits n) :
    ∃ l, conjectured o bits n cr = .ok l ∧
      (l : Int) = documented bits o.ext.degree n o.blowup o.numQueries o.grinding cr := by
  obtain ⟨ho, hg⟩ := h
  refine ⟨conjValue o bits n cr, (conjectured_ok_iff ho bits n cr _).mpr ⟨hg, rfl⟩, ?_⟩
  obtain ⟨_, _, _, h⟩ := hg
  obtain ⟨hq1, _, _, _, _, hl1, _⟩ := accepted_bounds ho
  have hqs1 : 1 ≤ o.numQueries * o.blowup.log2 := Nat.mul_le_mul hq1 hl1
  unfold conjValue documented
  have hG : GRINDING_CONTRIBUTION_FLOOR = 80 := rfl
  simp only [hG, ← Int.natCast_mul]
  rw [Nat.mul_comm o.blowup.log2 o.numQueries]
  generalize o.numQueries * o.blowup.log2 = qs at *
  generalize bits * o.ext.degree = fs at *
  generalize (n * o.blowup).log2 = L at *
  obtain ⟨d, rfl⟩ := Nat.exists_eq_add_of_lt h
  have hd : L + d + 1 - L = d + 1 := by omega
  rw [hd]
  split <;> rename_i h80
  · have : (80 : Int) ≤ (qs : Int) := by omega
    simp only [this, if_true]
    omega
  · have : ¬ (80 : Int) ≤ (qs : Int) := by omega
    simp only [this, if_false]
    omega

example : Admissible ⟨27, 8, 16, .quadratic, 8, 127⟩ 64 (2 ^ 20) := by
  unfold Admissible conjGuard; decide

/-- ★ the exact guard: for options the constructor accepts, `get_conjectured_security` panics
    (an integer operation over/underflows, or `ilog2(0)`) exactly when the tuple is not admissible:
    `bits·ext ≥ 2^32`, `trace_length·blowup ≥ 2^64`, `trace_length = 0`, or
    `bits·ext ≤ log2(trace_length·blowup)` -/
theorem conjectured_panics_iff {o : Options} (ho : o.accepted = true) (bits n cr : Nat) :
    (∃ s, conjectured o bits n cr = .panic s) ↔ ¬ conjGuard o bits n := by
  constructor
  · rintro ⟨s, hs⟩ hg
    have := (conjectured_ok_iff ho bits n cr _).mpr ⟨hg, rfl⟩
    rw [hs] at this; cases this
  · intro hg
    cases h : conjectured o bits n cr with
    | ok l => exact absurd ((conjectured_ok_iff ho bits n cr l).mp h).1 hg
    | panic s => exact ⟨s, rfl⟩

/-- ★ never underflows for parameters the constructors accept: options accepted by
    `ProofOptions::new`, a trace length / LDE domain size accepted by `Context::new`
    (`trace_length·blowup ≤ u32::MAX`) and any field of at least 32 bits (62, 64, 128 in the library;
    `num_modulus_bits` is at most 2040) -/
theorem conjectured_no_underflow {o : Options} {bits n : Nat} (cr : Nat) (ho : o.accepted = true)
    (hn : 0 < n) (hlde : n * o.blowup ≤ 4294967295) (hb1 : 32 ≤ bits) (hb2 : bits ≤ 2040) :
    ∃ l, conjectured o bits n cr = .ok l := by
  have ⟨d1, d2⟩ := ext_degree_bounds o.ext
  have hne : n * o.blowup ≠ 0 := by
    obtain ⟨_, _, _, hb, _⟩ := accepted_bounds ho
    exact Nat.mul_ne_zero (by omega) (by omega)
  have hl : (n * o.blowup).log2 < 32 := (Nat.log2_lt hne).mpr (by omega)
  have h1 : bits * o.ext.degree ≤ 2040 * 3 := Nat.mul_le_mul hb2 d2
  have h2 : 32 * 1 ≤ bits * o.ext.degree := Nat.mul_le_mul hb1 d1
  obtain ⟨l, hl', _⟩ := conjectured_eq_documented cr
    (show Admissible o bits n from ⟨ho, by unfold U32; omega, by unfold USIZE; omega, hn, by omega⟩)
  exact ⟨l, hl'⟩

/-- in terms of the model's `contextAccepted` (the guard of `Context::new` and, since /repo commit
    0d65c7b, of `Context::read_from`): every context that can exist over a field of 32..2040 bits has a
    conjectured level -/
theorem conjectured_defined_on_contexts {o : Options} {bits n : Nat} (cr : Nat) (ho : o.accepted = true)
    (hn : 0 < n) (hc : contextAccepted o n = true) (hb1 : 32 ≤ bits) (hb2 : bits ≤ 2040) :
    ∃ l, conjectured o bits n cr = .ok l := by
  unfold contextAccepted at hc
  simp only [Bool.and_eq_true, decide_eq_true_eq] at hc
  exact conjectured_no_underflow cr ho hn hc.2 hb1 hb2

/-- the guard is needed: outside it (a trace length of 2^62 with the 62-bit field, which the original
    `Context::read_from` let through) the estimate panics (u32 underflow) -/
theorem conjectured_underflow_witness :
    conjectured ⟨1, 2, 0, .none, 2, 0⟩ 62 (2 ^ 62) 128 = .panic "u32-sub-overflow" := by decide

/-- ★ monotone (non-decreasing, and defined whenever the smaller tuple is) in the number of
    queries, the grinding factor, the extension degree and the collision resistance — jointly,
    hence in each separately — for all admissible values -/
theorem conjectured_mono {o o' : Options} {bits n cr cr' l : Nat}
    (ho : o.accepted = true) (ho' : o'.accepted = true) (hb : o.blowup = o'.blowup)
    (hq : o.numQueries ≤ o'.numQueries) (hg : o.grinding ≤ o'.grinding)
    (he : o.ext.degree ≤ o'.ext.degree) (hcr : cr ≤ cr') (hbits : bits * o'.ext.degree < U32)
    (h : conjectured o bits n cr = .ok l) :
    ∃ l', conjectured o' bits n cr' = .ok l' ∧ l ≤ l' := by
  obtain ⟨G, rfl⟩ := (conjectured_ok_iff ho bits n cr l).mp h
  obtain ⟨G', hv⟩ := conj_mono_core hb hq hg he hcr hbits G
  exact ⟨_, (conjectured_ok_iff ho' bits n cr' _).mpr ⟨G', rfl⟩, hv⟩

example : conjectured ⟨27, 8, 16, .quadratic, 8, 127⟩ 64 (2 ^ 20) 128 = .ok 96 := by decide
example : conjectured ⟨28, 8, 17, .cubic, 8, 127⟩ 64 (2 ^ 20) 128 = .ok 100 := by decide

/-- ★ `Proof::security_level(conjectured = true)` of a context: the documented formula evaluated
    at the bit length of the modulus the context carries -/
theorem securityLevel_conjectured {o : Options} {bytes : List Nat} {n : Nat} (cr : Nat)
    (hby : ∀ b ∈ bytes, b < 256) (hlen : bytes.length ≤ 255)
    (h : Admissible o (bitLen (leVal bytes)) n) :
    ∃ l, securityLevel o bytes n cr true = .ok l ∧
      (l : Int) = documented (bitLen (leVal bytes)) o.ext.degree n o.blowup o.numQueries o.grinding cr := by
  obtain ⟨l, h1, h2⟩ := conjectured_eq_documented cr h
  refine ⟨l, ?_, h2⟩
  unfold securityLevel
  rw [numModulusBits_eq bytes hby (by unfold U32; omega)]
  simpa [bind, Res.bind] using h1

-- =================================================================== 4. acceptance policy
/-- ★ `MinConjecturedSecurity(m)`: rejects iff the level is below `m` (and then reports both) -/
theorem validate_minConjectured (m : Nat) (o : Options) (level : Bool → Res Nat) (l : Nat)
    (hl : level true = .ok l) :
    (validate (.minConjectured m) o level = .reject (.insufficientConjecturedSecurity m l) ↔ l < m) ∧
    (validate (.minConjectured m) o level = .pass ↔ m ≤ l) := by
  unfold validate; simp only [hl]
  by_cases h : l < m <;> simp [h] <;> omega

/-- ★ `MinProvenSecurity(m)`: rejects iff the proven level is below `m` -/
theorem validate_minProven (m : Nat) (o : Options) (level : Bool → Res Nat) (l : Nat)
    (hl : level false = .ok l) :
    (validate (.minProven m) o level = .reject (.insufficientProvenSecurity m l) ↔ l < m) ∧
    (validate (.minProven m) o level = .pass ↔ m ≤ l) := by
  unfold validate; simp only [hl]
  by_cases h : l < m <;> simp [h] <;> omega

/-- ★ `OptionSet(s)`: rejects iff the proof's options (all six stored fields) are not in the set;
    the security level is not consulted and nothing can panic -/
theorem validate_optionSet (s : List Options) (o : Options) (level : Bool → Res Nat) :
    (validate (.optionSet s) o level = .pass ↔ o ∈ s) ∧
    (validate (.optionSet s) o level = .reject .unacceptableProofOptions ↔ o ∉ s) := by
  unfold validate
  have : (s.any (· == o)) = true ↔ o ∈ s := by
    simp only [List.any_eq_true, beq_iff_eq]
    constructor
    · rintro ⟨x, hx, rfl⟩; exact hx
    · intro h; exact ⟨o, h, rfl⟩
  by_cases h : o ∈ s
  · simp [this.mpr h, h]
  · have h' : ¬ (s.any (· == o)) = true := fun c => h (this.mp c)
    simp [h', h]

/-- `validate` panics only if the level computation it needs panics -/
theorem validate_panic_only_from_level (a : Acceptable) (o : Options) (level : Bool → Res Nat) (s : String)
    (h : validate a o level = .panic s) : level true = .panic s ∨ level false = .panic s := by
  unfold validate at h
  cases a with
  | minConjectured m =>
    cases hl : level true with
    | ok l => simp only [hl] at h; split at h <;> cases h
    | panic t => simp only [hl] at h; injection h with h; left; rw [h]
  | minProven m =>
    cases hl : level false with
    | ok l => simp only [hl] at h; split at h <;> cases h
    | panic t => simp only [hl] at h; injection h with h; right; rw [h]
  | optionSet set => simp only [] at h; split at h <;> cases h

-- =================================================================== 5. the top of verify()
/-- ★ a proof whose modulus bytes differ from the AIR's field is refused with
    `InconsistentBaseField` — an error, not a panic — whatever else it contains and whatever the
    policy: nothing runs before this check -/
theorem verifyTop_field_mismatch (a : Acceptable) (v : VerifierSide) (p : ProofHead)
    (h : v.modulusBytes ≠ p.modulusBytes) :
    verifyTop a v p = .reject .inconsistentBaseField := by
  unfold verifyTop fieldCheck
  have : (v.modulusBytes != p.modulusBytes) = true := by simpa using h
  simp [this, seqOut]

/-- ★ for a proof over the AIR's field the policy check comes next: whatever it answers other than
    `pass` (a refusal, or a panic of the level computation) is the result of `verify`; in
    particular `context.to_elements()`, `AIR::new` and the extension check run only after it -/
theorem verifyTop_policy_first (a : Acceptable) (v : VerifierSide) (p : ProofHead)
    (h : v.modulusBytes = p.modulusBytes) (hp : policyCheck a v p ≠ .pass) :
    verifyTop a v p = policyCheck a v p := by
  unfold verifyTop fieldCheck
  have : (v.modulusBytes != p.modulusBytes) = false := by simp [h]
  simp only [this, seqOut]
  cases hc : policyCheck a v p with
  | pass => exact absurd hc hp
  | reject e => rfl
  | panic s => rfl

/-- ★ the verifier refuses every proof whose parameters imply a conjectured level below the
    caller's minimum: with the level computed from the computation's own field (the claimed modulus
    is the AIR's), the documented formula below `m` gives `InsufficientConjecturedSecurity` -/
theorem verifyTop_refuses_low_conjectured (m : Nat) (v : VerifierSide) (p : ProofHead)
    (h : v.modulusBytes = p.modulusBytes) (hby : ∀ b ∈ p.modulusBytes, b < 256)
    (hlen : p.modulusBytes.length ≤ 255)
    (hadm : Admissible p.options (bitLen (leVal v.modulusBytes)) p.traceLen)
    (hlow : documented (bitLen (leVal v.modulusBytes)) p.options.ext.degree p.traceLen p.options.blowup
      p.options.numQueries p.options.grinding v.cr < m) :
    ∃ l, verifyTop (.minConjectured m) v p = .reject (.insufficientConjecturedSecurity m l) ∧ l < m := by
  rw [h] at hadm hlow
  obtain ⟨l, h1, h2⟩ := securityLevel_conjectured v.cr hby hlen hadm
  have hlm : l < m := by omega
  have hpol : policyCheck (.minConjectured m) v p = .reject (.insufficientConjecturedSecurity m l) :=
    (validate_minConjectured m p.options _ l h1).1.mpr hlm
  refine ⟨l, ?_, hlm⟩
  rw [verifyTop_policy_first _ v p h (by rw [hpol]; simp), hpol]

/-- ★ and every proof whose options are not in the caller's set -/
theorem verifyTop_refuses_foreign_options (s : List Options) (v : VerifierSide) (p : ProofHead)
    (h : v.modulusBytes = p.modulusBytes) (hs : p.options ∉ s) :
    verifyTop (.optionSet s) v p = .reject .unacceptableProofOptions := by
  have hpol : policyCheck (.optionSet s) v p = .reject .unacceptableProofOptions :=
    (validate_optionSet s p.options _).2.mpr hs
  rw [verifyTop_policy_first _ v p h (by rw [hpol]; simp), hpol]

/-- control reaches `perform_verification` only for a proof over the AIR's field that passed the
    policy and asks for fewer queries than the LDE domain has points -/
theorem verifyTop_pass_imp (a : Acceptable) (v : VerifierSide) (p : ProofHead)
    (h : verifyTop a v p = .pass) :
    v.modulusBytes = p.modulusBytes ∧ policyCheck a v p = .pass ∧
      p.options.numQueries < p.traceLen * p.options.blowup := by
  by_cases hm : v.modulusBytes = p.modulusBytes
  · refine ⟨hm, ?_⟩
    by_cases hp : policyCheck a v p = .pass
    · refine ⟨hp, ?_⟩
      unfold verifyTop fieldCheck queriesCheck at h
      have : (v.modulusBytes != p.modulusBytes) = false := by simp [hm]
      simp only [this, hp, seqOut] at h
      by_cases hq : p.traceLen * p.options.blowup ≤ p.options.numQueries
      · simp [hq] at h
      · omega
    · rw [verifyTop_policy_first a v p hm hp] at h; exact absurd h hp
  · rw [verifyTop_field_mismatch a v p hm] at h; cases h

/-- the defect of the original snapshot (repaired by /repo commit a6dbf5c, kept as a witness): with
    the field comparison last, a proof claiming the 128-bit field against the 64-bit AIR panicked in
    `context.to_elements()`, and one claiming a one-byte zero modulus in the level computation -/
theorem verifyTopOld_panics :
    verifyTopOld (.minConjectured 0) ⟨Model.leBytes 8 Gen.F64.M, 8, true, true, 128, true⟩
      ⟨Model.leBytes 16 Gen.F128.M, ⟨8, 8, 2, .none, 4, 7⟩, 16⟩ = .panic "from_bytes_with_padding assertion" ∧
    verifyTopOld (.minConjectured 0) ⟨Model.leBytes 8 Gen.F64.M, 8, true, true, 128, true⟩
      ⟨[0], ⟨8, 8, 2, .none, 4, 7⟩, 16⟩ = .panic "u32-sub-overflow" := by decide

-- =================================================================== 6. proven estimate
/-- Full-strength statement for the f64 code (not proved: Lean's `Float` is opaque to the kernel,
    nothing about IEEE rounding or libm can be derived): the proven estimate over doubles is monotone
    in queries, grinding, extension degree and collision resistance. -/
def ProvenMonotoneFloat : Prop :=
  ∀ (o o' : Options) (bits n cr cr' l : Nat),
    o.accepted = true → o'.accepted = true → o.blowup = o'.blowup →
    o.numQueries ≤ o'.numQueries → o.grinding ≤ o'.grinding → o.ext.degree ≤ o'.ext.degree →
    cr ≤ cr' → cr' < U32 → bits * o'.ext.degree < U32 →
    proven (R := Float) o bits n cr = .ok l → ∃ l', proven (R := Float) o' bits n cr' = .ok l' ∧ l ≤ l'

/-- ◐ the part that is proved, for the generic model (any carrier `R` and primitives): under the
    named laws `FloatLaws` of the primitives (monotone casts, `log2`, subtraction/addition, `powf`
    antitone in the exponent for a base in [0, 1]) and the side condition that the base
    `1 − theta_plus` of the query-phase power lies in [0, 1] for every candidate `m`, the estimate is
    monotone in queries, grinding, extension degree and collision resistance (jointly), and defined
    whenever the smaller tuple is.  Missing for `ProvenMonotoneFloat`: `FloatLaws Float (· ≤ ·)` and
    the side condition — gap "floating-point rounding"; the side condition is evaluated by the
    driver over the whole (blowup × trace length × m) grid (op `alpha`, a computation), and
    monotonicity of the f64 code is checked between neighbouring tuples by the harness. -/
theorem proven_mono_partial {R : Type} [F : FloatOps R] {le : R → R → Prop} (L : FloatLaws R le)
    {o o' : Options} {bits n cr cr' l : Nat}
    (hb : o.blowup = o'.blowup) (hq : o.numQueries ≤ o'.numQueries) (hg : o.grinding ≤ o'.grinding)
    (he : o.ext.degree ≤ o'.ext.degree) (hcr : cr ≤ cr') (hcr' : cr' < U32)
    (hbits : bits * o'.ext.degree < U32)
    (side : ∀ m ∈ mRange (R := R) n,
      le (F.ofNat 0) (mid (R := R) o.blowup (n * o.blowup) n m).base ∧
      le (mid (R := R) o.blowup (n * o.blowup) n m).base (F.ofNat 1))
    (h : proven (R := R) o bits n cr = .ok l) :
    ∃ l', proven (R := R) o' bits n cr' = .ok l' ∧ l ≤ l' := by
  obtain ⟨⟨g1, g2⟩, hne⟩ := proven_ok_guard h
  have G' : provenGuard o' bits n := ⟨hbits, hb ▸ g2⟩
  obtain ⟨m1, hm1, e1, _⟩ := proven_char (R := R) o bits n cr ⟨g1, g2⟩ hne
  obtain ⟨m2, _, e2, max2⟩ := proven_char (R := R) o' bits n cr' G' hne
  rw [e1] at h; injection h with h
  refine ⟨_, e2, ?_⟩
  have k1 : keyOf R o bits n m1 ≤ keyOf R o' bits n m1 := by
    unfold keyOf
    rw [← hb]
    obtain ⟨s0, s1⟩ := side m1 hm1
    exact provenTail_mono L _ (Nat.mul_le_mul_left _ he) hq hg s0 s1
  have k2 := max2 m1 hm1
  subst h
  have a1 : min (keyOf R o bits n m1) cr < U32 := by omega
  have a2 : min (keyOf R o' bits n m2) cr' < U32 := by omega
  rw [Nat.mod_eq_of_lt a1, Nat.mod_eq_of_lt a2]
  omega

/-- the proven estimate never exceeds the collision resistance -/
theorem proven_le_cr {R : Type} [F : FloatOps R] {o : Options} {bits n cr l : Nat} (hcr : cr < U32)
    (h : proven (R := R) o bits n cr = .ok l) : l ≤ cr := by
  obtain ⟨g, hne⟩ := proven_ok_guard h
  obtain ⟨m, _, e, _⟩ := proven_char (R := R) o bits n cr g hne
  rw [e] at h; injection h with h
  subst h
  have : min (keyOf R o bits n m) cr < U32 := by omega
  rw [Nat.mod_eq_of_lt this]; omega

/-- non-vacuity of the hypotheses of `proven_mono_partial`: a toy instance (floor arithmetic on the
    naturals, `powf a y = a ^ y`) satisfies every law, and its base lies in [0, 1] -/
@[instance_reducible] def natOps : FloatOps Nat where
  ofNat := id
  c05 := 0
  c15 := 1
  c025 := 0
  add := (· + ·)
  sub := (· - ·)
  mul := (· * ·)
  div := (· / ·)
  neg := fun _ => 0
  log2 := Nat.log2
  sqrt := Nat.sqrt
  ceil := id
  powf := fun a y => a ^ y
  toU64 := fun x => min x 18446744073709551615
  toU32 := fun x => min x 4294967295

theorem natOps_laws : @FloatLaws Nat natOps (· ≤ ·) := by
  have hlog : ∀ {x y : Nat}, x ≤ y → Nat.log2 x ≤ Nat.log2 y := by
    intro x y h
    by_cases hx : x = 0
    · subst hx; simp [Nat.log2_zero]
    · have hy : y ≠ 0 := by omega
      exact (Nat.le_log2 hy).mpr (Nat.le_trans (Nat.log2_self_le hx) h)
  have hpow : ∀ {a x y : Nat}, 0 ≤ a → a ≤ 1 → x ≤ y → a ^ y ≤ a ^ x := by
    intro a x y _ h1 h
    rcases Nat.le_one_iff_eq_zero_or_eq_one.mp h1 with rfl | rfl
    · by_cases hy : y = 0
      · subst hy
        have : x = 0 := by omega
        subst this; exact Nat.le_refl _
      · rw [Nat.zero_pow (Nat.pos_of_ne_zero hy)]; exact Nat.zero_le _
    · rw [Nat.one_pow, Nat.one_pow]; exact Nat.le_refl _
  have hcast : ∀ {x y : Nat}, x ≤ y → min x 18446744073709551615 ≤ min y 18446744073709551615 := by
    intro x y h; omega
  exact @FloatLaws.mk Nat natOps (· ≤ ·) (fun h => h) (fun z h => Nat.sub_le_sub_right h z)
    (fun z h => Nat.sub_le_sub_left h z) (fun z h => Nat.add_le_add_left h z) hlog hpow hcast

example : ∀ m ∈ @mRange Nat natOps 64,
    (@FloatOps.ofNat Nat natOps 0) ≤ (@mid Nat natOps 8 (64 * 8) 64 m).base ∧
    (@mid Nat natOps 8 (64 * 8) 64 m).base ≤ (@FloatOps.ofNat Nat natOps 1) := by decide

-- =================================================================== 7. tie T: the regenerated function
-- `Gen.Security.get_conjectured_security` (+ `_ok`) is what translate/gen.py makes of
-- air/src/proof/mod.rs on this run; `C18G.genConj` / `genConjOk` apply it to the accessor values of the
-- model's option record.  The theorems below make the statements of section 3 statements about that
-- regenerated definition: an edit of the Rust function that changes its value or its panic behaviour on
-- any argument tuple breaks one of them.
open C18G in
/-- ★ the hand-written model and the regenerated function agree for ALL arguments: same value, and
    the model panics exactly when the regenerated no-overflow condition fails -/
theorem conjectured_gen_eq_model (o : Options) (bits n cr : Nat) (hq : o.numQueries < 4294967296) :
    conjectured o bits n cr =
      if genConjOk o bits n cr then .ok (genConj o bits n cr)
      else .panic (match conjectured o bits n cr with | .panic s => s | .ok _ => "") := by
  cases hk : genConjOk o bits n cr with
  | true => simpa using (gen_conjectured_ok_iff o bits n cr _ hq).mpr ⟨hk, rfl⟩
  | false =>
    obtain ⟨s, hs⟩ := (gen_conjectured_panics_iff o bits n cr hq).mpr hk
    simp [hs]

open C18G in
/-- ★ the exact panic guard, on the regenerated function: for options the constructor accepts the
    regenerated side condition (every `u32`/`usize` operation in range, no `ilog2(0)`) is the guard
    `conjGuard` of `conjectured_panics_iff` -/
theorem gen_ok_iff_guard {o : Options} (ho : o.accepted = true) (bits n cr : Nat) :
    genConjOk o bits n cr = true ↔ conjGuard o bits n := by
  have hq : o.numQueries < 4294967296 := by have := (accepted_bounds ho).2.1; omega
  constructor
  · intro hk
    exact ((conjectured_ok_iff ho bits n cr _).mp
      ((gen_conjectured_ok_iff o bits n cr _ hq).mpr ⟨hk, rfl⟩)).1
  · intro hg
    exact ((gen_conjectured_ok_iff o bits n cr _ hq).mp
      ((conjectured_ok_iff ho bits n cr _).mpr ⟨hg, rfl⟩)).1

open C18G in
/-- ★ the documented formula, on the regenerated function: for every admissible tuple the translated
    Rust code does not panic and returns the documented value -/
theorem gen_conjectured_eq_documented {o : Options} {bits n : Nat} (cr : Nat) (h : Admissible o bits n) :
    genConjOk o bits n cr = true ∧
      (genConj o bits n cr : Int) = documented bits o.ext.degree n o.blowup o.numQueries o.grinding cr := by
  have hq : o.numQueries < 4294967296 := by have := (accepted_bounds h.1).2.1; omega
  obtain ⟨l, h1, h2⟩ := conjectured_eq_documented cr h
  obtain ⟨k1, k2⟩ := (gen_conjectured_ok_iff o bits n cr l hq).mp h1
  exact ⟨k1, by rw [k2]; exact h2⟩

example : C18G.genConjOk ⟨27, 8, 16, .quadratic, 8, 127⟩ 64 (2 ^ 20) 128 = true ∧
    C18G.genConj ⟨27, 8, 16, .quadratic, 8, 127⟩ 64 (2 ^ 20) 128 = 96 := by decide

open C18G in
/-- ★ the constructor, on the regenerated function (Winter/Gen/ProofOpts.lean, from air/src/options.rs):
    `ProofOptions::new` (its assertions as translated on this run) accepts exactly the documented sets -/
theorem gen_options_new_ok_iff (q b g : Nat) (e : Ext) (ff fr en : Nat) :
    Gen.ProofOpts.new_ok q b g en ff fr = true ↔
      (1 ≤ q ∧ q ≤ 255 ∧ b ∈ [2, 4, 8, 16, 32, 64, 128] ∧ g ≤ 32 ∧ ff ∈ [2, 4, 8, 16] ∧
        fr ∈ [0, 1, 3, 7, 15, 31, 63, 127, 255]) := by
  rw [gen_new_ok_eq_accepted q b g e ff fr en]
  have key := options_new_ok_iff q b g e ff fr ⟨q, b, g, e, ff, fr⟩
  unfold Options.new at key
  by_cases h : (⟨q, b, g, e, ff, fr⟩ : Options).accepted = true
  · rw [if_pos h] at key
    exact ⟨fun _ => (key.mp rfl).1, fun _ => h⟩
  · rw [if_neg h] at key
    exact ⟨fun c => absurd c h, fun hd => absurd (key.mpr ⟨hd, rfl⟩) (by simp)⟩

open C18G in
/-- ★ the accessors composed in: `FieldExtension::degree` (a `match`, regenerated) and the four option accessors
    (regenerated) feed the regenerated estimate exactly the values `genConj` is applied to -/
theorem gen_conjectured_via_accessors (o : Options) (k bits n cr : Nat) (h : Ext.ofNat? k = some o.ext) :
    Gen.Security.get_conjectured_security (Gen.ProofOpts.blowup_factor o.blowup)
      (Gen.ProofOpts.degree (Gen.ProofOpts.field_extension k)) (Gen.ProofOpts.grinding_factor o.grinding)
      (Gen.ProofOpts.num_queries o.numQueries) bits n cr = genConj o bits n cr :=
  genConj_via_accessors o k bits n cr h

open C18G in
/-- ★ `Context::new` as regenerated from air/src/proof/context.rs on this run accepts exactly the contexts
    of `contextAccepted` (trace length and LDE domain size at most `u32::MAX`), for ALL arguments -/
theorem gen_context_new_ok_eq (o : Options) (n : Nat) :
    Gen.ProofContext.new_ok n o.blowup = contextAccepted o n :=
  gen_context_new_ok o n

open C18G in
/-- ★ `Context::num_modulus_bits` as regenerated on this run (the loop over the reversed modulus bytes with
    `leading_zeros`) is the bit length of the little-endian modulus and never panics, for every byte string a
    proof can carry -/
theorem gen_num_modulus_bits_eq_bitLength (bs : List Nat) (h : ∀ b ∈ bs, b < 256) (hl : bs.length ≤ 255) :
    Gen.ProofContext.num_modulus_bits_ok bs = true ∧ Gen.ProofContext.num_modulus_bits bs = bitLen (leVal bs) :=
  (gen_num_modulus_bits_ok_iff bs _ (by omega)).mp (numModulusBits_eq bs h (by unfold U32; omega))

example : Gen.ProofContext.num_modulus_bits (Model.leBytes 8 Gen.F62.M) = 62 ∧
    Gen.ProofContext.num_modulus_bits (Model.leBytes 8 Gen.F64.M) = 64 ∧
    Gen.ProofContext.num_modulus_bits (Model.leBytes 16 Gen.F128.M) = 128 := by decide +kernel

end C18
