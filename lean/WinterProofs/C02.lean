-- C02: soundness for invalid executions and for other statements — what the verifier's acceptance implies
-- (DECISION theorems) and why an invalid execution cannot produce the polynomial the protocol asks for.
--
-- What is proved (for all inputs, no size bound):
--   (i)   `checkMain_iff`, `valid_of_exempt_corruption`: the executable reference validity check (tied to `genair::is_valid`, the oracle of the
--         adversarial harness, on every `valid` op line) decides the predicate `Valid`: shape, every asserted
--         cell, every transition constraint on EXACTLY the steps `0 .. n - exemptions - 1`;
--   (ii)  `transition_violation_not_divisible`, `assertion_violation_not_divisible`, `exempt_step_not_enforced`:
--         a numerator that does not vanish at a step the divisor enforces is not a multiple of the divisor
--         (the divisors are the ones C16 proves the code builds), and the exempt steps are not roots;
--   (iii) `accept_implies_ood_consistency`: acceptance implies the out-of-domain consistency equation between
--         the constraint evaluation over the opened trace frame and the opened composition values at `z`,
--         with `z` and the composition coefficients drawn before the frames were read;
--   (iv)  `contextElements_injective_partial`, `statement_binding`: the context (trace shape, options, field)
--         and the public inputs are the seed of the coin; under collision-free hashing the coin state from
--         which the query positions are drawn determines statement and commitments.
-- What is NOT claimed: that a proof whose committed composition is not the low-degree quotient is rejected —
-- that is the soundness error of DEEP/FRI, a probability statement over the verifier's challenges.
import WinterProofs.C16
import WinterProofs.Lemmas.C02Valid
import WinterProofs.Lemmas.C02Seed
import WinterProofs.Lemmas.C02Transcript
import WinterProofs.Lemmas.C03Toy

set_option linter.unusedSectionVars false

namespace WinterProofs.C02
open Model Model.VerifierChecks WinterProofs.C02L Polynomial

/-! ## (i) the reference validity predicate -/

/-- **the reference check decides `Valid`**: `checkMain` (= `genair::check_main`, the oracle of the harness)
    reports no violation iff the trace has the declared shape, every asserted cell carries its public value
    and every transition constraint vanishes on every frame `(s, s + 1)` with `s < n - exemptions`. -/
theorem checkMain_iff (A : Air) (M : Nat) (cols : List (List Nat)) (pubs : List Nat) :
    checkMain A M cols pubs = none ↔ Valid A M cols pubs := by
  unfold checkMain Valid
  split
  · rename_i v hv
    constructor
    · intro h; cases h
    · rintro ⟨h1, h2, h3, _⟩
      have := (shape_iff A cols pubs).mpr ⟨h1, h2, h3⟩
      rw [this] at hv; cases hv
  · rename_i hv
    obtain ⟨h1, h2, h3⟩ := (shape_iff A cols pubs).mp hv
    split
    · rename_i ki hf
      constructor
      · intro h; cases h
      · rintro ⟨_, _, _, ha, _⟩
        have hm := List.mem_of_find?_eq_some hf
        have hp := List.find?_some hf
        obtain ⟨a, hk, hi⟩ := (mem_assertionIndex A ki.1 ki.2).mp hm
        have := ha ki.1 a hk ki.2 hi
        simp [this] at hp
    · rename_i hf
      rw [List.find?_eq_none] at hf
      have hA : ∀ k a, A.assertions[k]? = some a → ∀ i, i < (a.steps A.n).length → assertionHolds A cols pubs k i = true := by
        intro k a hk i hi
        have := hf (k, i) ((mem_assertionIndex A k i).mpr ⟨a, hk, hi⟩)
        simpa using this
      split
      · rename_i sk hf2
        constructor
        · intro h; cases h
        · rintro ⟨_, _, _, _, ht⟩
          have hm := List.mem_of_find?_eq_some hf2
          have hp := List.find?_some hf2
          obtain ⟨hs, hk⟩ := (mem_transitionIndex A sk.1 sk.2).mp hm
          have := ht sk.1 hs sk.2 hk
          simp [this] at hp
      · rename_i hf2
        rw [List.find?_eq_none] at hf2
        refine ⟨fun _ => ⟨h1, h2, h3, hA, ?_⟩, fun _ => rfl⟩
        intro s hs k hk
        have := hf2 (s, k) ((mem_transitionIndex A s k).mpr ⟨hs, hk⟩)
        simpa using this

/-- x' = x + 1 on one column, 8 rows, 2 exemptions, first cell asserted -/
def exAir : Air := ⟨1, 8, 2, [], [.sub (.nxt 0) (.add (.cur 0) (.const 1))], [⟨.single, 0, 0, 0⟩]⟩

-- a valid trace; junk in the exempt tail is still valid; a corrupted non-exempt cell, the last enforced
-- transition and the asserted cell are violations at exactly that step
example : Valid exAir 97 [[5, 6, 7, 8, 9, 10, 11, 12]] [5] := (checkMain_iff _ _ _ _).mp (by decide)
example : Valid exAir 97 [[5, 6, 7, 8, 9, 10, 11, 55]] [5] := (checkMain_iff _ _ _ _).mp (by decide)
example : checkMain exAir 97 [[5, 6, 7, 8, 9, 10, 12, 55]] [5] = some ⟨.transition, 0, 5⟩ := by decide
example : checkMain exAir 97 [[5, 6, 7, 9, 9, 10, 11, 12]] [5] = some ⟨.transition, 0, 2⟩ := by decide
example : checkMain exAir 97 [[4, 6, 7, 8, 9, 10, 11, 12]] [5] = some ⟨.assertion, 0, 0⟩ := by decide
example : ¬ Valid exAir 97 [[5, 6, 7, 8, 9, 10, 12, 55]] [5] := fun h => by
  have := (checkMain_iff _ _ _ _).mpr h
  revert this; decide

/-- **a corruption that touches only exempt transitions and no asserted cell leaves the trace valid**: if
    `cols'` has the shape of `cols`, agrees with it on every row `0 .. n - exemptions` (the rows the enforced
    frames `(s, s + 1)`, `s < n - exemptions`, read) and on every asserted cell, then `cols'` is valid whenever
    `cols` is — whatever the other cells contain -/
theorem valid_of_exempt_corruption (A : Air) (M : Nat) (cols cols' : List (List Nat)) (pubs : List Nat)
    (h : Valid A M cols pubs) (hlen : cols'.length = cols.length) (hcols : ∀ c ∈ cols', c.length = A.n)
    (hrows : ∀ j s, s ≤ A.n - A.exemptions → cellAt cols j s = cellAt cols' j s)
    (hass : ∀ (k : Nat) (a : AssertDesc) (i s : Nat), A.assertions[k]? = some a → (a.steps A.n)[i]? = some s →
      cellAt cols a.column s = cellAt cols' a.column s) : Valid A M cols' pubs := by
  obtain ⟨h1, _, h3, h4, h5⟩ := h
  refine ⟨by rw [hlen, h1], hcols, h3, ?_, ?_⟩
  · intro k a hk i hi
    rw [← assertionHolds_congr A cols cols' pubs k i (fun a' s' ha' hs' => hass k a' i s' ha' hs')]
    exact h4 k a hk i hi
  · intro s hs k hk
    rw [← transitionHolds_congr A M cols cols' s k hlen.symm (fun j => hrows j s (by omega))
      (fun j => hrows j (s + 1) (by omega))]
    exact h5 s hs k hk

-- the junk-tail example above is an instance: rows 0..6 and the asserted cell agree, only row 7 differs
example : Valid exAir 97 [[5, 6, 7, 8, 9, 10, 11, 55]] [5] :=
  valid_of_exempt_corruption exAir 97 [[5, 6, 7, 8, 9, 10, 11, 12]] _ [5] ((checkMain_iff _ _ _ _).mp (by decide))
    rfl (by decide)
    (by
      intro j s hs
      have hs' : s ≤ 6 := hs
      match j, s, hs' with
      | 0, 0, _ | 0, 1, _ | 0, 2, _ | 0, 3, _ | 0, 4, _ | 0, 5, _ | 0, 6, _ => rfl
      | j + 1, s, _ => simp [cellAt])
    (by
      intro k a i s hk hi
      match k, hk with
      | 0, hk =>
        simp only [exAir, List.getElem?_cons_zero, Option.some.injEq] at hk
        subst hk
        match i, hi with
        | 0, hi => simp only [AssertDesc.steps, List.getElem?_cons_zero, Option.some.injEq] at hi; subst hi; rfl
        | i + 1, hi => simp [AssertDesc.steps] at hi
      | k + 1, hk => simp [exAir] at hk)

/-! ## (ii) a violated constraint makes the numerator indivisible by the divisor

`F` is any field with an element `g` of exact order `n` (C07/C08: the base fields and their extensions).
The transition divisor of the code is `(X^n - 1) / ∏_{k=n-e}^{n-1} (X - g^k) = ∏_{i<n-e} (X - g^i)`
(`C16.transition_divisor_poly`), the divisor of an assertion with `k` named steps `first + j·stride` is
`X^k - g^(k·first)` (`C16.assertion_divisor_zero_set`). -/

variable {F : Type} [Field F]

/-- a polynomial that does not vanish at a root of `Z` is not a multiple of `Z` -/
theorem not_dvd_of_violation {Z N : F[X]} {r : F} (hz : Z.eval r = 0) (hn : N.eval r ≠ 0) : ¬ Z ∣ N := by
  rintro ⟨q, rfl⟩
  simp [hz] at hn

/-- **transition constraints**: if the constraint numerator `N` (the constraint composed with the trace
    polynomials) does not vanish at a non-exempt step `s < n - e`, the transition divisor does not divide it:
    no polynomial quotient exists, whichever cell carries the violation -/
theorem transition_violation_not_divisible {g : F} {n e s : ℕ} (hs : s < n - e) (N : F[X])
    (hN : N.eval (g ^ s) ≠ 0) : ¬ (∏ i ∈ Finset.range (n - e), (X - C (g ^ i))) ∣ N := by
  apply not_dvd_of_violation _ hN
  rw [eval_prod]
  exact Finset.prod_eq_zero (Finset.mem_range.mpr hs) (by simp)

/-- … and exactly those steps: an exempt step `n - e ≤ k < n` is not a root of the divisor, so a violation
    there does not obstruct divisibility (the off-by-one the harness probes on both sides of the boundary) -/
theorem exempt_step_not_enforced {g : F} {n e k : ℕ} (hg : IsPrimitiveRoot g n) (hk1 : n - e ≤ k) (hk2 : k < n) :
    (∏ i ∈ Finset.range (n - e), (X - C (g ^ i))).eval (g ^ k) ≠ 0 := by
  rw [eval_prod]
  apply Finset.prod_ne_zero_iff.mpr
  intro i hi
  simp only [eval_sub, eval_X, eval_C]
  intro h
  have hi' := Finset.mem_range.mp hi
  have : g ^ k = g ^ i := sub_eq_zero.mp h
  have := hg.pow_inj hk2 (by omega) this
  omega

/-- **assertions**: if `N = T - V` (trace polynomial minus value polynomial) does not vanish at a named step
    `first + j·stride` of an assertion with `k` steps (`k·stride = n`), the assertion divisor does not divide it -/
theorem assertion_violation_not_divisible {g : F} {n k first stride j : ℕ} (hg : IsPrimitiveRoot g n)
    (hk : k * stride = n) (N : F[X]) (hN : N.eval (g ^ (first + j * stride)) ≠ 0) :
    ¬ (X ^ k - C (g ^ (k * first))) ∣ N := by
  apply not_dvd_of_violation _ hN
  simp only [eval_sub, eval_pow, eval_X, eval_C]
  have h1 : (g ^ (first + j * stride)) ^ k = g ^ (k * first) * (g ^ n) ^ j := by
    rw [← pow_mul, ← pow_mul, ← pow_add]
    congr 1
    rw [← hk]; ring
  rw [h1, hg.pow_eq_one, one_pow, mul_one, sub_self]

-- instances over ZMod 17 (2 has order 8): n = 8, e = 2, the numerator X - 3 does not vanish at step 2 (2^2 = 4)
example : ¬ (∏ i ∈ Finset.range (8 - 2), (X - C ((2 : ZMod 17) ^ i))) ∣ (X - C (3 : ZMod 17)) :=
  transition_violation_not_divisible (s := 2) (by decide) _ (by simp; decide)
example : (∏ i ∈ Finset.range (8 - 2), (X - C ((2 : ZMod 17) ^ i))).eval ((2 : ZMod 17) ^ 7) ≠ 0 :=
  exempt_step_not_enforced C16.two_primitive_zmod17 (by decide) (by decide)
example : ¬ (X ^ 2 - C ((2 : ZMod 17) ^ (2 * 1))) ∣ (X - C (3 : ZMod 17)) :=
  assertion_violation_not_divisible (stride := 4) (j := 1) C16.two_primitive_zmod17 (by decide) _ (by simp; decide)

/-! ## (iii) acceptance implies the out-of-domain consistency equation -/

section decision
variable {C D V : Type} [DecidableEq D] [DecidableEq V]

/-- **OOD consistency**: if `verify` accepts, the proof parsed, the challenges were drawn, and the value of
    the constraints over the opened out-of-domain trace frame at `z` (with the composition coefficients drawn
    after the trace commitments and `z` drawn after the constraint commitment, all before the frames were
    read) equals the combination `Σ z^(i·n)·H_i(z)` of the opened composition values. -/
theorem accept_implies_ood_consistency (W : Verifier C D V) (ctx : Serde.Context)
    (parsed : Option (Committed V D × Opened V D)) (h : verify W ctx parsed = .ok ()) :
    ∃ cm op ch, parsed = some (cm, op) ∧ challenges W ctx cm = .ok ch ∧
      (W.air ctx).evalConstraints ch.coeffs ch.auxRands ch.lagRands cm.oodTrace ch.z
        = (W.air ctx).combineOod ch.z cm.oodEvals := by
  obtain ⟨_, _, _, cm, op, ch, hp, hch, _⟩ := verify_ok h
  obtain ⟨_, _, _, _, _, _, _, _, _, _, _, _, _, _, hev, _⟩ := (challenges_ok hch).ex
  exact ⟨cm, op, ch, hp, hch, hev⟩

/-- the header checks: an accepted proof claims the verifier's field, an acceptable option set and a supported
    extension — a proof for another field or other parameters is rejected before anything else happens -/
theorem accept_implies_header (W : Verifier C D V) (ctx : Serde.Context)
    (parsed : Option (Committed V D × Opened V D)) (h : verify W ctx parsed = .ok ()) :
    W.modulus = ctx.modulus ∧ W.acceptable ctx = true ∧ (W.air ctx).extSupported = true :=
  let ⟨h1, h2, h3, _⟩ := verify_ok h; ⟨h1, h2, h3⟩

/-! ## (iv) the statement is the seed of the coin -/

/-- **the context part of the coin seed determines the context** (C02 (iv)), for contexts the constructors
    accept, of the same field (the verifier compares the modulus bytes before anything else) and with the same
    trace metadata -/
theorem contextElements_injective_partial (eb : Nat) (c1 c2 : Serde.Context) (w1 : c1.wf = true) (w2 : c2.wf = true)
    (hmod : c1.modulus = c2.modulus) (hmeta : c1.traceInfo.metadata = c2.traceInfo.metadata)
    (h : contextElements eb c1 = contextElements eb c2) : c1 = c2 := by
  simp only [Serde.Context.wf, Bool.and_eq_true, decide_eq_true_eq] at w1 w2
  obtain ⟨⟨⟨⟨⟨wt1, wo1⟩, hl1⟩, _⟩, _⟩, _⟩ := w1
  obtain ⟨⟨⟨⟨⟨wt2, wo2⟩, hl2⟩, _⟩, _⟩, _⟩ := w2
  have hh : (traceInfoElements eb c1.traceInfo).head? = (traceInfoElements eb c2.traceInfo).head? := by
    have := congrArg List.head? h
    simpa [contextElements, traceInfoElements] using this
  obtain ⟨hm, ha, hr⟩ := traceBuf_inj eb _ _ wt1 wt2 hh
  simp only [contextElements, traceInfoElements, hmeta, hmod, List.cons_append, List.append_assoc, List.cons.injEq] at h
  obtain ⟨_, hlen, hrest⟩ := h
  have hrest := List.append_cancel_left (as := List.map ofLeBytes (chunks (eb - 1) c2.traceInfo.metadata)) hrest
  simp only [List.cons.injEq, true_and, List.nil_append] at hrest
  have ho := optionsElements_inj _ _ wo1 wo2 hrest
  have e1 : c1.traceInfo.length % 4294967296 = c1.traceInfo.length := Nat.mod_eq_of_lt (by omega)
  have e2 : c2.traceInfo.length % 4294967296 = c2.traceInfo.length := Nat.mod_eq_of_lt (by omega)
  rw [e1, e2] at hlen
  cases c1 with | mk t1 m1 o1 =>
  cases c2 with | mk t2 m2 o2 =>
  cases t1; cases t2
  simp only [Serde.Context.mk.injEq, Serde.TraceInfo.mk.injEq] at *
  exact ⟨⟨hm, ha, hr, hlen, hmeta⟩, hmod, ho⟩

/-- the hypotheses of `contextElements_injective_partial` are satisfiable -/
def exCtx (len : Nat) (md : List Nat) : Serde.Context :=
  ⟨⟨2, 0, 0, len, md⟩, [1, 0, 0, 0, 255, 255, 255, 255], ⟨3, 4, 0, 1, 4, 3⟩⟩
example : (exCtx 8 []).wf = true ∧ (exCtx 16 []).wf = true ∧
    contextElements 8 (exCtx 8 []) ≠ contextElements 8 (exCtx 16 []) := by decide

/-- Why the metadata hypothesis is there (a recorded finding, `c03.accepted-mutation.context.trace_meta`):
    `TraceInfo::to_elements` pads every chunk of metadata bytes with zeros, so metadata `01` and `0100` give
    the same seed although the contexts differ — the full statement (without `hmeta`) is false. -/
theorem contextElements_metadata_fails :
    (exCtx 8 [1]).wf = true ∧ (exCtx 8 [1, 0]).wf = true ∧ exCtx 8 [1] ≠ exCtx 8 [1, 0] ∧
    contextElements 8 (exCtx 8 [1]) = contextElements 8 (exCtx 8 [1, 0]) := by decide

/-- **a different statement gives a different transcript.**  Under the cryptographic idealisation (the
    seed hash and the merge of the coin are collision free and never collide with each other), if two
    accepted runs draw their query positions from coins with the same seed component, then the seed
    elements (context and public inputs) and every absorbed digest coincide; with
    `contextElements_injective_partial` the contexts and the public-input elements coincide. -/
theorem statement_binding {S : Type} (W1 W2 : Verifier C D V) (L1 : CoinLaws W1.coin S) (L2 : CoinLaws W2.coin S)
    (hh : L1.h = L2.h) (hm : L1.merge = L2.merge)
    (hinj : Function.Injective L1.h) (minj : ∀ s d s' d', L1.merge s d = L1.merge s' d' → s = s' ∧ d = d')
    (hdisj : ∀ a s d, L1.h a ≠ L1.merge s d)
    (ctx1 ctx2 : Serde.Context)
    (hg1 : ∀ g c lag c', (W1.air ctx1).gkrVerify g c = some (lag, c') → L1.seedOf c' = L1.seedOf c)
    (hg2 : ∀ g c lag c', (W2.air ctx2).gkrVerify g c = some (lag, c') → L2.seedOf c' = L2.seedOf c)
    (cm1 cm2 : Committed V D) (ch1 ch2 : Challenges C D V)
    (h1 : challenges W1 ctx1 cm1 = .ok ch1) (h2 : challenges W2 ctx2 cm2 = .ok ch2)
    (hs : L1.seedOf ch1.coinAtQueries = L2.seedOf ch2.coinAtQueries) :
    coinSeed W1.elemBytes ctx1 W1.pubElems = coinSeed W2.elemBytes ctx2 W2.pubElems ∧ ch1.log = ch2.log := by
  rw [transcript L1 hg1 h1, transcript L2 hg2 h2, ← hh, ← hm] at hs
  have := chain_inj L1.h L1.merge hinj minj hdisj _ _ _ _ hs
  exact ⟨this.1, this.2⟩

/-- the toy coin of the accepted instance (Lemmas/C03Toy.lean) satisfies the coin laws, with a collision-free
    "hash" (the state records the seed elements and every absorbed digest) -/
def toyLaws (b : Bool) : CoinLaws (C03L.toyVerifier b).coin (List Nat × List C10.T) where
  seedOf := id
  h s := (s, [])
  merge c d := (c.1, c.2 ++ [d])
  new_seed _ := rfl
  reseed_seed _ _ := rfl
  draw_seed c v c' h := by
    simp only [C03L.toyVerifier, C03L.toyCoin, Option.some.injEq, Prod.mk.injEq] at h
    exact h.2.symm

-- `statement_binding` on the accepted instance (two nonces: same seed and the same absorbed digests)
example := statement_binding (C03L.toyVerifier true) (C03L.toyVerifier true) (toyLaws true) (toyLaws true) rfl rfl
  (by intro a b h; simpa [toyLaws] using h)
  (by
    intro s d s' d' h
    simp only [toyLaws, Prod.mk.injEq] at h
    obtain ⟨h1, h2⟩ := h
    have := List.append_inj' h2 rfl
    exact ⟨Prod.ext h1 this.1, by simpa using this.2⟩)
  (by intro a s d h; simp [toyLaws] at h)
  C03L.toyCtx C03L.toyCtx (by intro g c lag c' h; simp [C03L.toyVerifier, C03L.toyAir] at h)
  (by intro g c lag c' h; simp [C03L.toyVerifier, C03L.toyAir] at h)
  (C03L.toyCommitted 0) (C03L.toyCommitted 1) _ _ (C03L.toy_challenges true 0) (C03L.toy_challenges true 1) rfl


/-- equal seeds of two statements over the same field with the same metadata mean equal contexts and equal
    public-input elements -/
theorem seed_determines_statement (eb : Nat) (c1 c2 : Serde.Context) (p1 p2 : List Nat) (w1 : c1.wf = true)
    (w2 : c2.wf = true) (hmod : c1.modulus = c2.modulus) (hmeta : c1.traceInfo.metadata = c2.traceInfo.metadata)
    (h : coinSeed eb c1 p1 = coinSeed eb c2 p2) : c1 = c2 ∧ p1 = p2 := by
  unfold coinSeed at h
  have hl : (contextElements eb c1).length = (contextElements eb c2).length := by
    simp [contextElements, traceInfoElements, optionsElements, hmeta]
  obtain ⟨ha, hb⟩ := List.append_inj h hl
  exact ⟨contextElements_injective_partial eb c1 c2 w1 w2 hmod hmeta ha, hb⟩

end decision

end WinterProofs.C02
