-- C01 Completeness: the protocol glue that is pure integer logic, proved for all parameters, and
-- the composition theorem with the lower-layer results as named hypotheses (`c01_complete_partial`).
-- Model: Winter/Model/Protocol.lean (tied to the code by the `glue` correspondence of ./check C01).
import WinterProofs.Lemmas.C01
import WinterProofs.Lemmas.C01Gen

namespace WinterProofs.C01
open Model.Protocol WinterProofs.C01L

/-! ## What the option constructor accepts -/

/-- accepted options are powers of two in the documented ranges -/
theorem options_accepted_shape (o : Options) (h : o.accepted = true) :
    0 < o.queries ∧ o.queries ≤ 255 ∧ o.grinding ≤ 32
    ∧ (∃ β, o.blowup = 2 ^ β ∧ 1 ≤ β ∧ β ≤ 7)
    ∧ (∃ c, o.folding = 2 ^ c ∧ 1 ≤ c ∧ c ≤ 4)
    ∧ (∃ ρ, o.remainder + 1 = 2 ^ ρ ∧ ρ ≤ 8) := by
  unfold Options.accepted at h
  simp only [Bool.and_eq_true, decide_eq_true_eq] at h
  obtain ⟨⟨⟨⟨⟨⟨⟨⟨⟨⟨hq0, hq1⟩, hb⟩, hb2⟩, hb128⟩, hg⟩, hf⟩, hf2⟩, hf16⟩, hr⟩, hr255⟩ := h
  refine ⟨hq0, hq1, hg, ?_, ?_, ?_⟩
  · obtain ⟨β, hβ⟩ := isPow2_exists _ hb
    refine ⟨β, hβ, ?_, ?_⟩
    · rcases β with _ | β
      · rw [hβ] at hb2; simp at hb2
      · omega
    · have : 2 ^ β ≤ 2 ^ 7 := by rw [← hβ]; exact hb128
      exact (Nat.pow_le_pow_iff_right (by omega)).mp this
  · obtain ⟨c, hc⟩ := isPow2_exists _ hf
    refine ⟨c, hc, ?_, ?_⟩
    · rcases c with _ | c
      · rw [hc] at hf2; simp at hf2
      · omega
    · have : 2 ^ c ≤ 2 ^ 4 := by rw [← hc]; exact hf16
      exact (Nat.pow_le_pow_iff_right (by omega)).mp this
  · obtain ⟨ρ, hρ⟩ := isPow2_exists _ hr
    refine ⟨ρ, hρ, ?_⟩
    have : 2 ^ ρ ≤ 2 ^ 8 := by rw [← hρ]; omega
    exact (Nat.pow_le_pow_iff_right (by omega)).mp this

example : ({ queries := 255, blowup := 128, grinding := 32, folding := 16, remainder := 255 } : Options).accepted = true := by
  decide +kernel

/-! ## Degrees, constraint evaluation domain, composition columns -/

/-- a constraint of degree at most `blowup + 1` (trace factors plus periodic factors) is admissible
    for that blowup factor: `min_blowup_factor <= blowup` -/
theorem degree_le_blowup_succ_admissible (d : Degree) (β : Nat) (hβ : 1 ≤ β)
    (h : d.base + d.cycles.length ≤ 2 ^ β + 1) : d.minBlowup ≤ 2 ^ β := by
  unfold Degree.minBlowup
  have h1 : nextPow2 (d.base + d.cycles.length - 1) ≤ 2 ^ β := nextPow2_le_pow _ _ (Nat.sub_le_of_le_add h)
  have h2 : 2 ≤ 2 ^ β := by
    have := Nat.pow_le_pow_right (n := 2) (by omega) hβ
    simpa using this
  omega

/-- and `min_blowup_factor` is the least power of two that accommodates the degree -/
theorem minBlowup_spec (d : Degree) :
    d.base + d.cycles.length - 1 ≤ d.minBlowup ∧ 2 ≤ d.minBlowup ∧ ∃ k, d.minBlowup = 2 ^ k := by
  unfold Degree.minBlowup
  have h := nextPow2_ge (d.base + d.cycles.length - 1)
  refine ⟨by omega, by omega, ?_⟩
  obtain ⟨k, hk⟩ := nextPow2_is_pow (d.base + d.cycles.length - 1)
  by_cases h2 : 2 ≤ nextPow2 (d.base + d.cycles.length - 1)
  · exact ⟨k, by rw [Nat.max_eq_left h2, hk]⟩
  · exact ⟨1, by rw [Nat.max_eq_right (by omega)]⟩

/-- everything the context constructors accept has: the ce domain inside the LDE domain, the
    composition polynomial inside the ce domain and inside its columns (one coefficient per cell),
    no more columns than the ce blowup factor -/
theorem context_glue {n : Nat} {o : Options} {e mw aw nr : Nat} {md ad : List Degree} {g : Glue}
    (h : glue n o e mw aw nr md ad = .ok g) :
    let compDeg := highestDegree (md ++ ad) n - (n - e)
    2 ≤ g.ceBlowup ∧ g.ceBlowup ≤ o.blowup
    ∧ g.ceDomain = n * g.ceBlowup ∧ g.ldeDomain = n * o.blowup ∧ g.ceDomain ≤ g.ldeDomain
    ∧ compDeg ≤ g.ceDomain - 1 ∧ compDeg < n * g.columns ∧ 1 ≤ g.columns ∧ g.columns ≤ g.ceBlowup
    ∧ g.tracePolyDegree = n - 1 := by
  intro compDeg
  obtain ⟨_, hti, _, hmd, hce, hex, g1, g2, g3, g4, g5, _⟩ := glue_ok_inv h
  have hn : 8 ≤ n := by
    unfold traceInfoAccepted at hti
    simp only [Bool.and_eq_true, decide_eq_true_eq] at hti
    exact hti.1.1.1.1.1
  have hce2 : 2 ≤ ceBlowup (md ++ ad) := by
    cases md with
    | nil => exact absurd rfl hmd
    | cons d t =>
      have := minBlowup_le_ce (d :: t ++ ad) d (by simp)
      have := two_le_minBlowup d
      omega
  have hfit := composition_fits (md ++ ad) n (ceBlowup (md ++ ad)) e (by omega) (by omega) hex
  simp only [] at hfit
  rw [g1, g2, g3, g4, g5]
  refine ⟨hce2, hce, rfl, rfl, Nat.mul_le_mul_left n hce, hfit.1, hfit.2.1, ?_, hfit.2.2, rfl⟩
  unfold compositionColumns; omega

/-- the defect repaired by 0d742c9: with the pinned formula `ceil(deg / n)` a composition polynomial
    whose degree is a multiple of the trace length did not fit its columns (degree-2 constraint,
    trace length 8, two exemptions: degree 8, nine coefficients, one column of eight cells) -/
theorem columns_old_formula_fails :
    ¬ (highestDegree [⟨2, []⟩] 8 - (8 - 2) < 8 * compositionColumnsOld [⟨2, []⟩] 8 2) :=
  C01L.columns_old_formula_fails

/-! ## FRI schedule -/

/-- `num_fri_layers` stops at the first domain within the remainder bound; the remainder domain is
    `lde / folding^layers`; every folded domain was above the bound -/
theorem schedule_spec (lde : Nat) (o : Options) (hf : 2 ≤ o.folding) :
    (schedule lde o).remDomain ≤ (o.remainder + 1) * o.blowup
    ∧ (schedule lde o).remDomain = lde / o.folding ^ (schedule lde o).layers
    ∧ (friFolded lde ((o.remainder + 1) * o.blowup) o.folding).length = (schedule lde o).layers
    ∧ ∀ d ∈ friFolded lde ((o.remainder + 1) * o.blowup) o.folding,
        (o.remainder + 1) * o.blowup < d ∧ (schedule lde o).remDomain ≤ d / o.folding := by
  unfold schedule
  exact ⟨friLayers_final_le _ _ _ hf, friLayers_final_eq _ _ _, friFolded_length _ _ _, friFolded_rows _ _ _⟩

/-- EXACT characterisation of the well-formed schedules among the accepted option sets: the
    accumulated folding must not exceed the trace length -/
theorem wellFormed_iff (n : Nat) (o : Options) (h : o.accepted = true) :
    wellFormed (n * o.blowup) o = true ↔ o.folding ^ (schedule (n * o.blowup) o).layers ≤ n := by
  obtain ⟨_, _, _, ⟨β, hβ, hβ1, _⟩, ⟨c, hc, hc1, _⟩, _⟩ := options_accepted_shape o h
  have hb2 : 2 ≤ o.blowup := by
    rw [hβ]; have := Nat.pow_le_pow_right (n := 2) (by omega) hβ1; simpa using this
  have hf0 : 0 < o.folding := by rw [hc]; exact Nat.pow_pos (by omega)
  rw [wellFormed_iff_remCoef _ _ hb2, remCoef_pos_iff n o (by omega) hf0]

/-- a sufficient condition in terms of the options alone: folding factor at most twice the number
    of remainder coefficients (in particular folding factor 2, any remainder degree) -/
theorem wellFormed_of_folding_le (a : Nat) (o : Options) (h : o.accepted = true)
    (hfr : o.folding ≤ 2 * (o.remainder + 1)) : wellFormed (2 ^ a * o.blowup) o = true := by
  obtain ⟨_, _, _, ⟨β, hβ, hβ1, _⟩, ⟨c, hc, hc1, _⟩, ⟨ρ, hρ, _⟩⟩ := options_accepted_shape o h
  have hb2 : 2 ≤ o.blowup := by
    rw [hβ]; have := Nat.pow_le_pow_right (n := 2) (by omega) hβ1; simpa using this
  rw [wellFormed_iff_remCoef _ _ hb2]
  have hcρ : c ≤ ρ + 1 := by
    have : 2 ^ c ≤ 2 ^ (ρ + 1) := by rw [← hc, Nat.pow_succ, ← hρ]; omega
    exact (Nat.pow_le_pow_iff_right (by omega)).mp this
  have hfin := friLayers_pow2_final β c (ρ + β) (by omega) (2 ^ a * o.blowup) ((o.remainder + 1) * o.blowup)
    o.folding (a + β) (by rw [hβ, Nat.pow_add]) (by rw [hρ, hβ, Nat.pow_add]) hc (by omega)
  unfold schedule
  simp only []
  rw [← hβ] at hfin
  exact (Nat.le_div_iff_mul_le (by omega)).mpr (by simpa using hfin)

/-- a schedule the constructor accepts that is NOT well-formed: trace length 8, blowup 2, folding
    16, remainder degree 0 folds 16 points to a single row (no remainder coefficient) -/
theorem wellFormed_fails :
    ({ queries := 1, blowup := 2, grinding := 0, folding := 16, remainder := 0 } : Options).accepted = true
    ∧ wellFormed (8 * 2) { queries := 1, blowup := 2, grinding := 0, folding := 16, remainder := 0 } = false := by
  refine ⟨by decide +kernel, ?_⟩
  have hacc : ({ queries := 1, blowup := 2, grinding := 0, folding := 16, remainder := 0 } : Options).accepted = true := by
    decide +kernel
  have hl : (schedule (8 * 2) { queries := 1, blowup := 2, grinding := 0, folding := 16, remainder := 0 }).layers = 1 := by
    unfold schedule
    rw [friLayers, friLayers]
    simp
  have := wellFormed_iff 8 _ hacc
  rw [hl] at this
  simp at this
  simpa using this

/-- the verifier's degree bookkeeping never reports `DegreeTruncation` on a well-formed schedule,
    and the bound it compares the remainder's length with is exactly the number of remainder
    coefficients the prover sends (so `RemainderDegreeMismatch` is not raised either) -/
theorem bookkeeping_of_wellFormed (a : Nat) (o : Options) (h : o.accepted = true)
    (hwf : wellFormed (2 ^ a * o.blowup) o = true) :
    degreeBookkeeping (2 ^ a) o.folding (schedule (2 ^ a * o.blowup) o).layers
      = some (schedule (2 ^ a * o.blowup) o).remCoef := by
  have hle := (wellFormed_iff (2 ^ a) o h).mp hwf
  obtain ⟨_, _, _, ⟨β, hβ, hβ1, _⟩, ⟨c, hc, hc1, _⟩, _⟩ := options_accepted_shape o h
  have hb0 : 0 < o.blowup := by rw [hβ]; exact Nat.pow_pos (by omega)
  have hrem : (schedule (2 ^ a * o.blowup) o).remCoef = 2 ^ a / o.folding ^ (schedule (2 ^ a * o.blowup) o).layers := by
    have h2 := (schedule_spec (2 ^ a * o.blowup) o (by rw [hc]; have := Nat.pow_le_pow_right (n := 2) (by omega) hc1; simpa using this)).2.1
    show (schedule (2 ^ a * o.blowup) o).remDomain / o.blowup = _
    rw [h2, Nat.div_div_eq_div_mul, Nat.mul_div_mul_right _ _ hb0]
  rw [hrem]
  generalize (schedule (2 ^ a * o.blowup) o).layers = k at hle ⊢
  rw [hc] at hle ⊢
  rw [← Nat.pow_mul] at hle ⊢
  have hck : c * k ≤ a := (Nat.pow_le_pow_iff_right (by omega)).mp hle
  rw [bookkeeping_pow2 c k a hck, Nat.pow_div hck (by omega)]

/-! ## Queries and DEEP degree -/

/-- the prover sends openings for the de-duplicated positions: at least one, at most `queries`,
    the same set of positions -/
theorem unique_queries (positions : List Nat) (h : positions ≠ []) :
    1 ≤ (dedup positions).length ∧ (dedup positions).length ≤ positions.length
    ∧ ∀ x, x ∈ dedup positions ↔ x ∈ positions := by
  refine ⟨?_, dedup_length_le _, dedup_mem _⟩
  have := dedup_ne_nil positions h
  cases hd : dedup positions with
  | nil => exact absurd hd this
  | cons a t => simp

/-- the DEEP composition polynomial (degree `n - 2`) is below the bound `n - 1` handed to FRI -/
theorem deep_degree_bound (n : Nat) (hn : 8 ≤ n) : deepDegree n = (n - 1) - 1 ∧ deepDegree n < n - 1 := by
  unfold deepDegree; omega

/-- everything a proof of an accepted configuration carries is within the byte-sized limits of the
    proof format: total trace width, composition columns, unique queries all at most 255 -/
theorem format_limits {n : Nat} {o : Options} {e mw aw nr : Nat} {md ad : List Degree} {g : Glue}
    (h : glue n o e mw aw nr md ad = .ok g) (positions : List Nat) (hp : positions.length = o.queries) :
    mw + aw ≤ 255 ∧ g.columns ≤ 128 ∧ (dedup positions).length ≤ 255 := by
  obtain ⟨hacc, hti, _⟩ := glue_ok_inv h
  have hc := context_glue h
  simp only [] at hc
  obtain ⟨hq0, hq1, _, ⟨β, hβ, _, hβ7⟩, _⟩ := options_accepted_shape o hacc
  have hb : o.blowup ≤ 128 := by
    rw [hβ]; have := Nat.pow_le_pow_right (n := 2) (by omega) hβ7; simpa using this
  unfold traceInfoAccepted at hti
  simp only [Bool.and_eq_true, decide_eq_true_eq] at hti
  refine ⟨hti.1.1.2, by omega, ?_⟩
  have := dedup_length_le positions
  omega

/-! ## Completeness: composition of the lower layers -/

/-- one proof run, abstractly: the parameters, and which stages of the verifier succeed on the
    honest prover's proof (before the byte round trip) and whether the parsed proof is the proof -/
structure Run where
  n : Nat
  o : Options
  e : Nat
  mw : Nat
  aw : Nat
  nr : Nat
  md : List Degree
  ad : List Degree
  positions : List Nat          -- sorted query positions drawn by the coin
  validTrace : Prop             -- the reference validity predicate holds
  coinAgrees : Prop             -- prover and verifier derive the same challenges
  oodConsistent : Prop          -- evaluate_constraints(z) = sum z^(i n) H_i(z)
  friAccepts : Prop
  openingsVerify : Prop         -- Merkle batch openings of trace, constraint and FRI layers
  powOk : Prop                  -- grinding nonce found by the prover passes the check
  parsesBack : Prop             -- Proof::from_bytes(to_bytes p) = Ok p

/-- the verifier's verdict is the conjunction of its checks -/
def Run.accepts (r : Run) : Prop :=
  r.coinAgrees ∧ r.oodConsistent ∧ r.friAccepts ∧ r.openingsVerify ∧ r.powOk

/-- acceptance after serialisation: the bytes parse back to the same proof, which is accepted -/
def Run.acceptsAfterRoundTrip (r : Run) : Prop := r.parsesBack ∧ r.accepts

/-- the configuration is admissible: accepted by every constructor, well-formed FRI schedule, fewer
    queries than LDE points -/
def Run.admissible (r : Run) : Prop :=
  ∃ g, glue r.n r.o r.e r.mw r.aw r.nr r.md r.ad = .ok g ∧ g.wellFormed = true ∧ g.queriesOk = true
    ∧ r.positions.length = r.o.queries

/-- THE FULL STATEMENT (not proved here): for every admissible run on a valid trace the verifier
    accepts before and after the round trip. It needs the lower layers, which are other files. -/
def C01_complete (r : Run) : Prop :=
  r.admissible → r.validTrace → r.accepts ∧ r.acceptsAfterRoundTrip

/-- the lower-layer results this composition imports, each with the integer side conditions under
    which it applies (all of which are PROVED above from admissibility) -/
structure LowerLayers (r : Run) : Prop where
  /-- C04: both sides run the same coin script -/
  c04_coin : r.coinAgrees
  /-- C09 + C16 + C17: for a valid trace the committed composition polynomial equals its definition
      and splits into the columns, provided it fits the ce domain and the columns -/
  c09_c16_c17_ood : ∀ cols ce, r.validTrace →
    highestDegree (r.md ++ r.ad) r.n - (r.n - r.e) ≤ r.n * ce - 1 →
    highestDegree (r.md ++ r.ad) r.n - (r.n - r.e) < r.n * cols → ce ≤ r.o.blowup → r.oodConsistent
  /-- C15 (+C09): FRI completeness for a polynomial below the degree bound on a well-formed
      schedule whose bookkeeping does not truncate -/
  c15_fri : ∀ a, r.n = 2 ^ a → r.validTrace → deepDegree r.n < r.n - 1 →
    wellFormed (r.n * r.o.blowup) r.o = true →
    degreeBookkeeping r.n r.o.folding (schedule (r.n * r.o.blowup) r.o).layers
      = some (schedule (r.n * r.o.blowup) r.o).remCoef → r.friAccepts
  /-- C10: batch openings of at least one and at most `queries` distinct positions verify -/
  c10_merkle : 1 ≤ (dedup r.positions).length → (dedup r.positions).length ≤ r.o.queries → r.openingsVerify
  /-- C19: the proof-of-work search of the honest prover succeeds (grinding <= 32) -/
  c19_pow : r.o.grinding ≤ 32 → r.powOk
  /-- C12: proofs within the byte-sized limits round-trip -/
  c12_serde : r.mw + r.aw ≤ 255 → compositionColumns (r.md ++ r.ad) r.n r.e ≤ 128 →
    (dedup r.positions).length ≤ 255 → r.parsesBack

/-- COMPLETENESS, composition part: given the lower-layer results, every admissible run on a valid
    trace is accepted before and after the byte round trip. What is proved HERE is that admissibility
    implies every integer side condition of the imported results; the results themselves are
    hypotheses (their own files: C04, C09, C10, C12, C15, C16, C17, C19). -/
theorem c01_complete_partial (r : Run) (L : LowerLayers r) : C01_complete r := by
  intro ⟨g, hg, hwf, hq, hpos⟩ hvalid
  obtain ⟨hacc, hti, _, _, _, _, g1, g2, g3, g4, _, _, _, _, g15, _⟩ := glue_ok_inv hg
  have hctx := context_glue hg
  simp only [] at hctx
  obtain ⟨_, hce, hced, _, _, hfit1, hfit2, _, _, _⟩ := hctx
  obtain ⟨hq0, hq1, hgr, _⟩ := options_accepted_shape r.o hacc
  have hn : 8 ≤ r.n ∧ isPow2 r.n = true := by
    unfold traceInfoAccepted at hti
    simp only [Bool.and_eq_true, decide_eq_true_eq] at hti
    exact ⟨hti.1.1.1.1.1, hti.1.1.1.1.2⟩
  obtain ⟨a, ha⟩ := isPow2_exists _ hn.2
  have hwf' : wellFormed (r.n * r.o.blowup) r.o = true := by rw [← g15]; exact hwf
  have hpne : r.positions ≠ [] := by
    intro h0; rw [h0] at hpos; simp at hpos; omega
  have huq := unique_queries r.positions hpne
  have hlim := format_limits hg r.positions hpos
  have hacc' : r.accepts := by
    refine ⟨L.c04_coin, ?_, ?_, ?_, L.c19_pow hgr⟩
    · exact L.c09_c16_c17_ood g.columns g.ceBlowup hvalid (by rw [← hced]; exact hfit1) hfit2 hce
    · refine L.c15_fri a ha hvalid (deep_degree_bound r.n hn.1).2 hwf' ?_
      have := bookkeeping_of_wellFormed a r.o hacc (by rw [← ha]; exact hwf')
      rw [← ha] at this
      exact this
    · exact L.c10_merkle huq.1 (by rw [← hpos]; exact huq.2.1)
  exact ⟨hacc', L.c12_serde hlim.1 (by rw [← g4]; exact hlim.2.1) hlim.2.2, hacc'⟩

/-- degrees of a Fibonacci-like AIR: two constraints of degree 1 -/
def fibDegs : List Degree := [⟨1, []⟩, ⟨1, []⟩]

/-- options: 4 queries, blowup 4, no grinding, folding 4, remainder degree 3 -/
def fibOpts : Options := { queries := 4, blowup := 4, grinding := 0, folding := 4, remainder := 3 }

/-- a concrete non-trivial instance: the Fibonacci-like AIR with trace length 8 and `fibOpts` is
    admissible; its schedule has one layer and a remainder of 2 coefficients on 8 points -/
theorem fib_instance_admissible :
    ∃ g, glue 8 fibOpts 1 2 0 0 fibDegs [] = .ok g ∧ g.wellFormed = true ∧ g.queriesOk = true
      ∧ g.ceBlowup = 2 ∧ g.columns = 1 ∧ g.ldeDomain = 32 ∧ g.layers = 1 ∧ g.remCoef = 2 := by
  have hs : schedule 32 fibOpts = { layers := 1, remDomain := 8, remCoef := 2 } := by
    unfold schedule fibOpts
    rw [friLayers, friLayers]
    simp
  have hw : wellFormed 32 fibOpts = true := by
    unfold wellFormed
    rw [hs]
    unfold fibOpts
    rw [friFolded, friFolded]
    simp
  have hacc : fibOpts.accepted = true := by decide +kernel
  have hti : traceInfoAccepted 2 0 0 8 = true := by decide +kernel
  have hdeg : ¬ ∃ x, x ∈ fibDegs ∧ x.accepted = false := by decide +kernel
  have hce : ceBlowup fibDegs = 2 := by decide +kernel
  have hex : exemptionsAccepted fibDegs 8 2 1 = true := by decide +kernel
  have hcol : compositionColumns fibDegs 8 1 = 1 := by decide +kernel
  have hne : fibDegs.isEmpty = false := by decide
  have hb : fibOpts.blowup = 4 := rfl
  have hq : fibOpts.queries = 4 := rfl
  have hg : glue 8 fibOpts 1 2 0 0 fibDegs [] = .ok
      { ceBlowup := 2, ceDomain := 16, ldeDomain := 32, columns := 1, tracePolyDegree := 7, layers := 1,
        remDomain := 8, remCoef := 2, wellFormed := true, queriesOk := true } := by
    unfold glue
    simp [hacc, hti, hdeg, hce, hex, hne, hb, hq, hs, hw, hcol]
  exact ⟨_, hg, rfl, rfl, rfl, rfl, rfl, rfl, rfl⟩

/-- the Fibonacci-like run with four distinct query positions; the stage outcomes are the trivially
    true proposition (they are the other files' business), the parameters are real -/
def fibRun : Run :=
  { n := 8, o := fibOpts, e := 1, mw := 2, aw := 0, nr := 0, md := fibDegs, ad := [],
    positions := [3, 9, 9, 30], validTrace := True, coinAgrees := True, oodConsistent := True,
    friAccepts := True, openingsVerify := True, powOk := True, parsesBack := True }

/-- the hypotheses of `c01_complete_partial` are satisfiable on a concrete admissible run -/
example : fibRun.admissible ∧ LowerLayers fibRun ∧ fibRun.accepts ∧ fibRun.acceptsAfterRoundTrip := by
  have hadm : fibRun.admissible := by
    obtain ⟨g, hg, hw, hq, _⟩ := fib_instance_admissible
    exact ⟨g, hg, hw, hq, rfl⟩
  have hL : LowerLayers fibRun :=
    ⟨trivial, fun _ _ _ _ _ _ => trivial, fun _ _ _ _ _ _ => trivial, fun _ _ => trivial, fun _ => trivial,
      fun _ _ _ => trivial⟩
  have := c01_complete_partial fibRun hL hadm trivial
  exact ⟨hadm, hL, this.1, this.2⟩

/-! ## tie T: the option logic as regenerated from the Rust sources on this run

`Gen.ProofOpts.*` (air/src/options.rs: `ProofOptions::new`, accessors, `to_fri_options`) and `Gen.FriOpts.*`
(fri/src/options.rs: `num_fri_layers`) are rewritten by translate/gen.py on every run of the check; the
theorems equate them with the model definitions the theorems above are about, for all arguments. -/

/-- ★ `ProofOptions::new` (regenerated): its assertions are exactly `Options.accepted` -/
theorem gen_proof_options_new_ok (q b g e ff fr : Nat) :
    Gen.ProofOpts.new_ok q b g e ff fr = Options.accepted ⟨q, b, g, ff, fr⟩ :=
  C01G.gen_new_ok_eq_accepted q b g e ff fr

/-- ★ and it stores its arguments unchanged -/
theorem gen_proof_options_new_fields (q b g e ff fr : Nat) (h : Gen.ProofOpts.new_ok q b g e ff fr = true) :
    Gen.ProofOpts.new q b g e ff fr = (q, b, g, e, ff, fr) :=
  C01G.gen_new_fields q b g e ff fr h

/-- ★ `to_fri_options` (regenerated) of accepted options passes `FriOptions::new` and yields the three numbers
    `schedule` computes with -/
theorem gen_to_fri_options (o : Options) (h : o.accepted = true) :
    Gen.ProofOpts.to_fri_options o.blowup o.folding o.remainder = (o.folding, o.remainder, o.blowup) ∧
    Gen.ProofOpts.to_fri_options_ok o.blowup o.folding o.remainder = true :=
  C01G.gen_to_fri_options o h

/-- ★ `num_fri_layers` (regenerated) is the layer count of the model's schedule -/
theorem gen_num_fri_layers_eq_schedule (o : Options) (h : o.accepted = true) (lde N : Nat)
    (hd : lde < 18446744073709551616) (hN : 64 ≤ N) :
    Gen.FriOpts.num_fri_layers N o.blowup o.folding o.remainder lde = (schedule lde o).layers :=
  C01G.gen_num_fri_layers_eq_schedule o h lde N hd hN

example : Gen.ProofOpts.new_ok 27 8 16 2 8 127 = true ∧ Gen.ProofOpts.new_ok 27 8 33 2 8 127 = false := by decide

/-- ★ `TransitionConstraintDegree::get_evaluation_degree` (regenerated from air/src/air/transition/degree.rs,
    the `for` over the cycle lengths as structural recursion) is `evalDegree`, and does not panic exactly for a
    non-empty trace, non-zero cycle lengths and a result within `usize` -/
theorem gen_get_evaluation_degree (d : Degree) (n : Nat) :
    Gen.Degree.get_evaluation_degree d.base d.cycles n = d.evalDegree n ∧
    (Gen.Degree.get_evaluation_degree_ok d.base d.cycles n = true ↔
      (1 ≤ n ∧ (∀ c ∈ d.cycles, c ≠ 0) ∧ d.evalDegree n < 18446744073709551616)) :=
  ⟨C01G.gen_get_evaluation_degree_eq d n, C01G.gen_get_evaluation_degree_ok_iff d n⟩

/-- ★ `min_blowup_factor` (regenerated) is `minBlowup` -/
theorem gen_min_blowup_factor (d : Degree) : Gen.Degree.min_blowup_factor d.base d.cycles = d.minBlowup :=
  (C01G.gen_min_blowup_factor_eq d).1

/-- ★ `AirContext::num_constraint_composition_columns` (regenerated from air/src/air/context.rs, with the
    degrees' `get_evaluation_degree` as a function parameter) is `compositionColumns`, for all arguments;
    with the regenerated `get_evaluation_degree` plugged in as that parameter: -/
theorem gen_num_constraint_composition_columns (md ad : List Degree) (n e : Nat) :
    Gen.AirContext.num_constraint_composition_columns
      (fun d m => Gen.Degree.get_evaluation_degree d.base d.cycles m)
      (fun d m => Gen.Degree.get_evaluation_degree_ok d.base d.cycles m) ad md e n =
      compositionColumns (md ++ ad) n e := by
  have : (fun (d : Degree) m => Gen.Degree.get_evaluation_degree d.base d.cycles m) = fun d m => d.evalDegree m := by
    funext d m; exact C01G.gen_get_evaluation_degree_eq d m
  rw [this]; exact C01G.gen_composition_columns_eq _ md ad n e

/-- ★ the exact no-panic condition of `num_constraint_composition_columns` -/
theorem gen_num_constraint_composition_columns_ok (ok : Degree → Nat → Bool) (md ad : List Degree) (n e : Nat) :
    Gen.AirContext.num_constraint_composition_columns_ok (fun d m => d.evalDegree m) ok ad md e n = true ↔
      ((∀ d ∈ md ++ ad, ok d n = true) ∧ e ≤ n ∧ n - e ≤ highestDegree (md ++ ad) n ∧ n ≠ 0 ∧
        (highestDegree (md ++ ad) n - (n - e)) / n + 1 < 18446744073709551616) :=
  C01G.gen_composition_columns_ok_iff ok md ad n e

/-- ★ on everything the constructors accept, the regenerated `AirContext` accessors return the quantities of
    the model's `glue` (trace polynomial degree, constraint evaluation domain size, LDE domain size, number of
    composition columns) -/
theorem gen_glue_accessors (n : Nat) (o : Options) (e mw aw nr : Nat) (md ad : List Degree) (g : Glue)
    (h : glue n o e mw aw nr md ad = .ok g) :
    g.tracePolyDegree = Gen.AirContext.trace_poly_degree n ∧
    g.ceDomain = Gen.AirContext.ce_domain_size g.ceBlowup n ∧
    g.ldeDomain = Gen.AirContext.lde_domain_size o.blowup n ∧
    g.columns = Gen.AirContext.num_constraint_composition_columns (fun d m => d.evalDegree m)
      (fun _ _ => true) ad md e n :=
  C01G.gen_glue n o e mw aw nr md ad g h

/-- ★ `TraceInfo::new_multi_segment` (regenerated): assertions = `traceInfoAccepted` + the metadata bound; the
    arguments are stored unchanged -/
theorem gen_trace_info_new (mw aw nr n : Nat) (mt : List Nat) :
    Gen.TraceInfo.new_multi_segment_ok mw aw nr n mt =
      (traceInfoAccepted mw aw nr n && decide (mt.length ≤ 65535)) ∧
    Gen.TraceInfo.new_multi_segment mw aw nr n mt = (mw, aw, nr, n, mt) :=
  C01G.gen_trace_info_new mw aw nr n mt

/-- ★ `AirContext::new_multi_segment` (regenerated): stores `ceBlowup` of the main AND the auxiliary degrees, and
    asserts exactly the listed conditions -/
theorem gen_air_context_new (ok : Degree → Bool) (auxw : Nat) (multi : Bool) (n : Nat) (md ad : List Degree)
    (nma naa : Nat) (ls : Bool) (li b : Nat) :
    Gen.AirContext.new_multi_segment Degree.minBlowup ok auxw multi n md ad nma naa ls li b =
      (ceBlowup (md ++ ad), n, n * b) ∧
    (Gen.AirContext.new_multi_segment_ok Degree.minBlowup ok auxw multi n md ad nma naa ls li b = true ↔
      (md ≠ [] ∧ 0 < nma ∧ (multi = true → ad ≠ [] ∧ 0 < naa) ∧ (multi = false → ad = [] ∧ naa = 0) ∧
        (ls = true → 1 ≤ auxw ∧ li = auxw - 1) ∧ (∀ d ∈ md ++ ad, ok d = true) ∧
        ceBlowup (md ++ ad) ≤ b ∧ n * b < 18446744073709551616)) :=
  ⟨C01G.gen_air_context_new_value ok auxw multi n md ad nma naa ls li b,
    C01G.gen_air_context_new_ok_iff ok auxw multi n md ad nma naa ls li b⟩

/-- ★ everything `glue` accepts passes the regenerated constructor, which stores `g.ceBlowup` -/
theorem gen_air_context_new_of_glue (n : Nat) (o : Options) (e mw aw nr : Nat) (md ad : List Degree) (g : Glue)
    (h : glue n o e mw aw nr md ad = .ok g) (hlde : n * o.blowup < 18446744073709551616) :
    Gen.AirContext.new_multi_segment_ok Degree.minBlowup (fun _ => true) aw (Gen.TraceInfo.is_multi_segment aw) n
      md ad 1 (if 0 < aw then 1 else 0) false 0 o.blowup = true ∧
    (Gen.AirContext.new_multi_segment Degree.minBlowup (fun _ => true) aw (Gen.TraceInfo.is_multi_segment aw) n
      md ad 1 (if 0 < aw then 1 else 0) false 0 o.blowup).1 = g.ceBlowup :=
  C01G.gen_air_context_new_of_glue n o e mw aw nr md ad g h hlde

/-- ★ `set_num_transition_exemptions` (regenerated): its assertions are `exemptionsAccepted` wherever its own
    arithmetic cannot overflow -/
theorem gen_set_exemptions_ok (ok : Degree → Nat → Bool) (md ad : List Degree) (n ce old e : Nat)
    (hok : ∀ d ∈ md ++ ad, ok d n = true) (hce : 1 ≤ n * ce)
    (h1 : n * ce - 1 + n < 18446744073709551616) (h2 : n / 2 + 1 < 18446744073709551616) :
    Gen.AirContext.set_num_transition_exemptions_ok (fun d m => d.evalDegree m) ok ad (n * ce) md old n e =
      exemptionsAccepted (md ++ ad) n ce e :=
  C01G.gen_set_exemptions_ok ok md ad n ce old e hok hce h1 h2

example : Gen.AirContext.num_constraint_composition_columns
    (fun (d : Degree) m => Gen.Degree.get_evaluation_degree d.base d.cycles m)
    (fun d m => Gen.Degree.get_evaluation_degree_ok d.base d.cycles m) [] [⟨2, []⟩, ⟨3, [4]⟩] 1 8 = 3 := by
  decide +kernel

end WinterProofs.C01
