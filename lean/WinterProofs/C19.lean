-- C19: public coin contract — property theorems about Winter/Model/Coin.lean
-- (helper lemmas: WinterProofs/Lemmas/C19.lean).  The hasher is a parameter `H : HashOps D`; the
-- model is tied to crypto/src/random/default.rs by the correspondence harness (harness/src/bin/c19.rs:
-- a toy hasher implemented on both sides, and digest tables recorded from the six real hashers).
import Winter.Model.Coin
import WinterProofs.Lemmas.C19
import WinterProofs.Lemmas.C19Gen

namespace C19
open Model.Coin C19L

variable {D : Type} (H : HashOps D)

-- =================================================================== 1. determinism
/-- ★ the outputs (and the final state) are a function of the history: equal seeds and equal
    operation sequences give equal outputs -/
theorem run_deterministic (seed₁ seed₂ : List Nat) (ops₁ ops₂ : List (Op D))
    (hs : seed₁ = seed₂) (ho : ops₁ = ops₂) : run H seed₁ ops₁ = run H seed₂ ops₂ := by
  subst hs; subst ho; rfl

/-- the state after a history, folding the operations (the state keeps evolving after a panic that
    the caller catches) -/
def stateAfter (c : Coin D) (ops : List (Op D)) : Coin D :=
  ops.foldl (fun c op => (step H c op).2) c

/-- outputs of a history do not depend on what comes later: a history without panic followed by
    more operations first produces exactly its own outputs -/
theorem runFrom_append (c : Coin D) (ops₁ ops₂ : List (Op D))
    (hnp : ∀ o ∈ (runFrom H c ops₁).1, isPanic o = false) :
    (runFrom H c (ops₁ ++ ops₂)).1 = (runFrom H c ops₁).1 ++ (runFrom H (runFrom H c ops₁).2 ops₂).1 := by
  induction ops₁ generalizing c with
  | nil => simp [runFrom]
  | cons op ops ih =>
    simp only [List.cons_append, runFrom]
    cases hs : step H c op with
    | mk o c' =>
      simp only []
      by_cases hp : isPanic o = true
      · exfalso
        have := hnp o (by simp [runFrom, hs, hp])
        rw [hp] at this; cases this
      · simp only [hp]
        have hnp' : ∀ o' ∈ (runFrom H c' ops).1, isPanic o' = false := by
          intro o' ho'
          apply hnp o'
          simp [runFrom, hs, hp, ho']
        have := ih c' hnp'
        simp only [Bool.false_eq_true, if_false, List.cons_append, this]

-- =================================================================== 2. sensitivity
/-- the idealisation under which "any difference changes the outputs" can be a theorem: the three
    hash parameters are injective (collision freedom) -/
structure Injective (H : HashOps D) : Prop where
  hashElements : ∀ a b, H.hashElements a = H.hashElements b → a = b
  merge : ∀ s d s' d', H.merge s d = H.merge s' d' → s = s' ∧ d = d'
  mergeWithInt : ∀ s v s' v', H.mergeWithInt s v = H.mergeWithInt s' v' → s = s' ∧ v = v'

/-- non-vacuity: an (inefficient) injective hasher on byte lists -/
def tagOps : HashOps (List Nat) where
  hashElements := fun es => 0 :: es
  merge := fun a b => 1 :: a.length :: (a ++ b)
  mergeWithInt := fun s v => 2 :: v :: s
  asBytes := fun d => d.take 32

theorem tagOps_injective : Injective tagOps := by
  refine ⟨?_, ?_, ?_⟩
  · intro a b h
    simpa [tagOps] using h
  · intro s d s' d' h
    simp only [tagOps, List.cons.injEq, true_and] at h
    obtain ⟨hl, hap⟩ := h
    exact List.append_inj hap hl
  · intro s v s' v' h
    simp only [tagOps, List.cons.injEq, true_and] at h
    exact ⟨h.2, h.1⟩

/-- ★ two states that differ in the seed or in the counter give different next outputs -/
theorem next_output_differs (inj : Injective H) (c₁ c₂ : Coin D) (v₁ v₂ : D) (c₁' c₂' : Coin D)
    (hd : c₁.seed ≠ c₂.seed ∨ c₁.counter ≠ c₂.counter)
    (h₁ : next H c₁ = some (v₁, c₁')) (h₂ : next H c₂ = some (v₂, c₂')) : v₁ ≠ v₂ := by
  unfold next at h₁ h₂
  split at h₁
  · split at h₂
    · injection h₁ with h₁; injection h₁ with h₁ _
      injection h₂ with h₂; injection h₂ with h₂ _
      intro he
      rw [← h₁, ← h₂] at he
      obtain ⟨a, b⟩ := inj.mergeWithInt _ _ _ _ he
      rcases hd with hd | hd
      · exact hd a
      · omega
    · cases h₂
  · cases h₁

/-- ★ different seed data give different initial seeds -/
theorem new_seed_sensitive (inj : Injective H) (s₁ s₂ : List Nat) (h : s₁ ≠ s₂) :
    (new H s₁).seed ≠ (new H s₂).seed := fun e => h (inj.hashElements _ _ e)

/-- ★ different reseed arguments (or different seeds before) give different seeds after -/
theorem reseed_sensitive (inj : Injective H) (c₁ c₂ : Coin D) (d₁ d₂ : D)
    (h : c₁.seed ≠ c₂.seed ∨ d₁ ≠ d₂) : (reseed H c₁ d₁).seed ≠ (reseed H c₂ d₂).seed := by
  intro e
  obtain ⟨a, b⟩ := inj.merge _ _ _ _ e
  rcases h with h | h
  · exact h a
  · exact h b

/-- the seed after `draw` is the seed before -/
theorem draw_seed (fd : FieldDesc) (deg : Nat) (c : Coin D) : (draw H fd deg c).2.seed = c.seed := by
  unfold draw
  split
  · rfl
  · exact (drawLoop_spec H fd deg _ c _ _ rfl).1

/-- the seed after `draw_integers` that passes its assertions is `merge_with_int(seed, nonce)` —
    the digest whose zeros `check_leading_zeros(nonce)` counts is the one re-absorbed -/
theorem drawIntegers_seed (n dom nonce : Nat) (c : Coin D) (hp : isPow2 dom = true) (hn : n < dom) :
    (drawIntegers H n dom nonce c).2.seed = H.mergeWithInt c.seed nonce := by
  unfold drawIntegers
  simp only [hp, hn, not_true_eq_false, if_false]
  cases hi : intLoop H (dom - 1) n MAX_TRIES ⟨H.mergeWithInt c.seed nonce, 0⟩ [] with
  | none => rfl
  | some p =>
    obtain ⟨acc, c2⟩ := p
    obtain ⟨acc', c', e, _, hs, _⟩ := intLoop_spec H (dom - 1) n MAX_TRIES ⟨H.mergeWithInt c.seed nonce, 0⟩ []
      (by simp) (by simp [MAX_TRIES, U64])
    rw [hi] at e; injection e with e; injection e with e1 e2
    subst e1; subst e2
    simp only []
    split <;> exact hs

/-- ★ different nonces (or different seeds before) give different seeds after `draw_integers` -/
theorem drawIntegers_nonce_sensitive (inj : Injective H) (n dom : Nat) (nonce₁ nonce₂ : Nat) (c₁ c₂ : Coin D)
    (hp : isPow2 dom = true) (hn : n < dom) (h : c₁.seed ≠ c₂.seed ∨ nonce₁ ≠ nonce₂) :
    (drawIntegers H n dom nonce₁ c₁).2.seed ≠ (drawIntegers H n dom nonce₂ c₂).2.seed := by
  rw [drawIntegers_seed H n dom nonce₁ c₁ hp hn, drawIntegers_seed H n dom nonce₂ c₂ hp hn]
  intro e
  obtain ⟨a, b⟩ := inj.mergeWithInt _ _ _ _ e
  rcases h with h | h
  · exact h a
  · exact h b

/-- ★ a difference of seeds is never lost: whatever operation is applied to both coins, the seeds
    still differ (so every later output differs by `next_output_differs`) -/
theorem seed_difference_preserved (inj : Injective H) (c₁ c₂ : Coin D) (op : Op D)
    (h : c₁.seed ≠ c₂.seed) : (step H c₁ op).2.seed ≠ (step H c₂ op).2.seed := by
  cases op with
  | reseed d => exact reseed_sensitive H inj c₁ c₂ d d (Or.inl h)
  | draw fd deg => simp only [step]; rw [draw_seed, draw_seed]; exact h
  | checkLeadingZeros v => exact h
  | drawIntegers n dom nonce =>
    simp only [step]
    by_cases hp : isPow2 dom = true
    · by_cases hn : n < dom
      · exact drawIntegers_nonce_sensitive H inj n dom nonce nonce c₁ c₂ hp hn (Or.inl h)
      · unfold drawIntegers; simp only [hp, hn, not_true_eq_false, not_false_eq_true, if_true, if_false]; exact h
    · unfold drawIntegers; simp only [hp, not_false_eq_true, if_true]; exact h

theorem seed_difference_preserved_history (inj : Injective H) (ops : List (Op D)) (c₁ c₂ : Coin D)
    (h : c₁.seed ≠ c₂.seed) : (stateAfter H c₁ ops).seed ≠ (stateAfter H c₂ ops).seed := by
  induction ops generalizing c₁ c₂ with
  | nil => exact h
  | cons op ops ih =>
    simp only [stateAfter, List.foldl_cons]
    exact ih _ _ (seed_difference_preserved H inj c₁ c₂ op h)

/-- ★ a draw (successful or exhausted) strictly advances the counter and leaves the seed alone: a
    history with more earlier draws is in a state with a larger counter, hence (by
    `next_output_differs`) its next output differs -/
theorem draw_advances_counter (fd : FieldDesc) (deg : Nat) (c : Coin D) (o : Out) (c' : Coin D)
    (hfit : fd.bytes * deg ≤ DIGEST_BYTES) (hc : c.counter + MAX_TRIES + 1 < U64)
    (h : draw H fd deg c = (o, c')) : c'.seed = c.seed ∧ c.counter < c'.counter := by
  unfold draw at h
  have : ¬ DIGEST_BYTES < fd.bytes * deg := by omega
  simp only [this, if_false] at h
  obtain ⟨h1, h2, h3, h4, h5, h6, h7, h8, h9⟩ := drawLoop_spec H fd deg MAX_TRIES c o c' h
  refine ⟨h1, ?_⟩
  cases o with
  | elem e => exact (h4 e rfl).2
  | err => have := h5 rfl; simp only [MAX_TRIES] at this; omega
  | panic s => exfalso; have := h6 s rfl; omega
  | ints vs => exact absurd rfl (h7 vs)
  | num n => exact absurd rfl (h8 n)
  | unit => exact absurd rfl h9

/-- the limit of "any difference in the number of earlier draws changes the subsequent outputs": the
    counter is forgotten by the next reseed (and by `draw_integers`), by design of the protocol — two
    coins with equal seeds coincide after reseeding with the same data, however many draws preceded -/
theorem reseed_forgets_counter (c₁ c₂ : Coin D) (d : D) (h : c₁.seed = c₂.seed) :
    reseed H c₁ d = reseed H c₂ d := by
  unfold reseed; rw [h]

/-- ★ counter restarts at every reseed -/
theorem counter_restarts (c : Coin D) (d : D) (seed : List Nat) :
    (reseed H c d).counter = 0 ∧ (new H seed).counter = 0 := ⟨rfl, rfl⟩

/-- non-vacuity of the sensitivity hypotheses on concrete histories: with the injective hasher
    `tagOps`, two seeds / two reseed arguments / two nonces / one more draw lead to different states -/
example : (new tagOps [1, 2]).seed ≠ (new tagOps [1, 3]).seed := by decide
example : (reseed tagOps (new tagOps [1]) [7]).seed ≠ (reseed tagOps (new tagOps [1]) [8]).seed := by decide
example : (drawIntegers tagOps 3 8 5 (new tagOps [1])).2.seed ≠ (drawIntegers tagOps 3 8 6 (new tagOps [1])).2.seed := by
  decide

-- =================================================================== 3. range / validity
/-- a small hasher with 32-byte digests for the examples below: every byte of
    `merge_with_int(seed, v)` is `v mod 256` -/
def exOps : HashOps (List Nat) where
  hashElements := fun es => es
  merge := fun a b => a ++ b
  mergeWithInt := fun _ v => List.replicate 32 (v % 256)
  asBytes := fun d => d

example : (draw exOps ⟨18446744069414584321, 8⟩ 2 (new exOps [1])).1 = .elem [72340172838076673, 72340172838076673] ∧
    (draw exOps ⟨18446744069414584321, 8⟩ 2 (new exOps [1])).2.counter = 1 := by decide
example : (drawIntegers exOps 3 16 9 (new exOps [1])).1 = .ints [1, 2, 3] := by decide
example : checkLeadingZeros exOps (new exOps [1]) 8 = 3 ∧ grind exOps (new exOps [1]) 3 100 1 = some 8 := by decide

/-- ★ every drawn element is a valid canonical element of the requested degree: exactly `deg`
    coordinates, each below the modulus -/
theorem draw_ok_valid (fd : FieldDesc) (deg : Nat) (c : Coin D) (e : List Nat) (c' : Coin D)
    (h : draw H fd deg c = (.elem e, c')) : e.length = deg ∧ ∀ x ∈ e, x < fd.M := by
  unfold draw at h
  split at h
  · cases h
  · exact ((drawLoop_spec H fd deg MAX_TRIES c _ c' h).2.2.2.1 e rfl).1

/-- ★ `draw` never panics (the counter, which restarts at every reseed, stays below 2^64 − 1001); an element wider than a digest is refused with an error -/
theorem draw_never_panics (fd : FieldDesc) (deg : Nat) (c : Coin D) (hc : c.counter + MAX_TRIES + 1 < U64)
    (s : String) : (draw H fd deg c).1 ≠ .panic s := by
  unfold draw
  split
  · intro h; cases h
  · cases hd : drawLoop H fd deg MAX_TRIES c with
    | mk o c' =>
      obtain ⟨_, _, h3, _, _, h6, _⟩ := drawLoop_spec H fd deg MAX_TRIES c o c' hd
      intro h
      have := h6 s h
      omega

/-- the defect of the original snapshot (repaired by /repo commit d7550df, kept as a witness): the
    48-byte cubic extension of the 128-bit field could not be sliced out of a 32-byte digest -/
theorem drawOld_panics :
    (drawOld tagOps ⟨340282366920938463463374557953744961537, 16⟩ 3 (new tagOps [1])).1
      = .panic "slice index out of range" := by decide

/-- ★ `draw_integers`: every returned value is below the (power-of-two) domain size, and for a
    requested count of at least one exactly that many values are returned -/
theorem drawIntegers_ok (n dom nonce : Nat) (c : Coin D) (vs : List Nat) (c' : Coin D)
    (h : drawIntegers H n dom nonce c = (.ints vs, c')) :
    (∀ v ∈ vs, v < dom) ∧ (1 ≤ n → vs.length = n) := by
  unfold drawIntegers at h
  by_cases hp : isPow2 dom = true
  · by_cases hn : n < dom
    · simp only [hp, hn, not_true_eq_false, if_false] at h
      obtain ⟨acc', c2, e, h1, h2, h3, h4, h5, h6, h7⟩ :=
        intLoop_spec H (dom - 1) n MAX_TRIES ⟨H.mergeWithInt c.seed nonce, 0⟩ [] (by simp) (by simp [MAX_TRIES, U64])
      rw [e] at h
      simp only [] at h
      split at h
      · cases h
      · rename_i hlen
        injection h with h _
        injection h with h
        subst h
        have hd := isPow2_pos hp
        constructor
        · intro v hv
          have := h1 v (by simpa using hv)
          omega
        · intro h1n
          simp only [List.length_nil] at h5 h6 hlen
          rw [List.length_reverse]
          by_cases hk : n ≤ MAX_TRIES
          · exact h5 (by omega) (by omega)
          · have := h6 (by omega); omega
    · simp only [hp, hn, not_true_eq_false, not_false_eq_true, if_true, if_false] at h; cases h
  · simp only [hp, not_false_eq_true, if_true] at h; cases h

/-- ★ it cannot fail for counts 1..1000 (in particular 1..255): for a power-of-two domain and
    `1 ≤ n < domain`, `n ≤ 1000`, exactly `n` values are returned, and the counter afterwards is `n` -/
theorem drawIntegers_cannot_fail (n dom nonce : Nat) (c : Coin D) (hp : isPow2 dom = true)
    (hn : n < dom) (h1 : 1 ≤ n) (hk : n ≤ MAX_TRIES) :
    ∃ vs c', drawIntegers H n dom nonce c = (.ints vs, c') ∧ vs.length = n ∧ c'.counter = n := by
  unfold drawIntegers
  simp only [hp, hn, not_true_eq_false, if_false]
  obtain ⟨acc', c2, e, _, _, h3, _, h5, _, _⟩ :=
    intLoop_spec H (dom - 1) n MAX_TRIES ⟨H.mergeWithInt c.seed nonce, 0⟩ [] (by simp) (by simp [MAX_TRIES, U64])
  rw [e]
  simp only [List.length_nil] at h3 h5
  have hl : acc'.length = n := h5 (by omega) (by omega)
  have : ¬ acc'.length < n := by omega
  simp only [this, if_false]
  exact ⟨_, _, rfl, by rw [List.length_reverse]; exact hl, by omega⟩

/-- more than 1000 values cannot be drawn: an error after 1000 PRNG calls -/
theorem drawIntegers_too_many (n dom nonce : Nat) (c : Coin D) (hp : isPow2 dom = true)
    (hn : n < dom) (hk : MAX_TRIES < n) : (drawIntegers H n dom nonce c).1 = .err := by
  unfold drawIntegers
  simp only [hp, hn, not_true_eq_false, if_false]
  obtain ⟨acc', c2, e, _, _, _, _, _, h6, _⟩ :=
    intLoop_spec H (dom - 1) n MAX_TRIES ⟨H.mergeWithInt c.seed nonce, 0⟩ [] (by simp) (by simp [MAX_TRIES, U64])
  rw [e]
  simp only [List.length_nil] at h6
  have : acc'.length < n := by have := h6 (by omega); omega
  simp only [this, if_true]

/-- outside the property's range (counts 1..255) the code departs from "exactly the requested
    number": for a requested count of zero the loop never sees `len == 0` and 1000 values come back -/
theorem drawIntegers_zero_quirk (dom nonce : Nat) (c : Coin D) (hp : isPow2 dom = true) :
    ∃ vs c', drawIntegers H 0 dom nonce c = (.ints vs, c') ∧ vs.length = MAX_TRIES := by
  unfold drawIntegers
  have hd := isPow2_pos hp
  simp only [hp, hd, not_true_eq_false, if_false]
  obtain ⟨acc', c2, e, _, _, _, _, _, _, h7⟩ :=
    intLoop_spec H (dom - 1) 0 MAX_TRIES ⟨H.mergeWithInt c.seed nonce, 0⟩ [] (by simp) (by simp [MAX_TRIES, U64])
  rw [e]
  simp only [List.length_nil] at h7
  have hl := h7 (Nat.le_refl _)
  have : ¬ acc'.length < 0 := by omega
  simp only [this, if_false]
  exact ⟨_, _, rfl, by rw [List.length_reverse]; omega⟩

/-- `draw_integers` panics exactly on its two documented assertions -/
theorem drawIntegers_panics_iff (n dom nonce : Nat) (c : Coin D) :
    (∃ s, (drawIntegers H n dom nonce c).1 = .panic s) ↔ (isPow2 dom = false ∨ dom ≤ n) := by
  by_cases hp : isPow2 dom = true
  · by_cases hn : n < dom
    · constructor
      · rintro ⟨s, hs⟩
        exfalso
        unfold drawIntegers at hs
        simp only [hp, hn, not_true_eq_false, if_false] at hs
        obtain ⟨acc', c2, e, _⟩ :=
          intLoop_spec H (dom - 1) n MAX_TRIES ⟨H.mergeWithInt c.seed nonce, 0⟩ [] (by simp) (by simp [MAX_TRIES, U64])
        rw [e] at hs
        simp only [] at hs
        split at hs <;> cases hs
      · rintro (h | h)
        · rw [hp] at h; cases h
        · omega
    · constructor
      · intro _; right; omega
      · intro _
        unfold drawIntegers
        simp only [hp, hn, not_true_eq_false, not_false_eq_true, if_true, if_false]
        exact ⟨_, rfl⟩
  · constructor
    · intro _; left; simpa using hp
    · intro _
      unfold drawIntegers
      simp only [hp, not_false_eq_true, if_true]
      exact ⟨_, rfl⟩

-- =================================================================== 4. proof of work
/-- ★ the proof-of-work measure of a nonce is the number of trailing zero bits of the first eight
    little-endian bytes of `merge_with_int(seed, nonce)` -/
theorem checkLeadingZeros_def (c : Coin D) (nonce : Nat) :
    checkLeadingZeros H c nonce = tz64 (leVal ((H.asBytes (H.mergeWithInt c.seed nonce)).take 8)) := rfl

/-- `tz64` is the 2-adic valuation of a 64-bit word (64 for zero) -/
theorem tz64_spec (x : Nat) (hx : x < 2 ^ 64) :
    (x = 0 → tz64 x = 64) ∧ (x ≠ 0 → 2 ^ tz64 x ∣ x ∧ ¬ 2 ^ (tz64 x + 1) ∣ x) ∧ tz64 x ≤ 64 := by
  refine ⟨?_, ?_, tzAux_le 64 x⟩
  · rintro rfl; exact tzAux_zero 64
  · intro h0; exact tzAux_spec 64 x hx h0

/-- ★ the prover's search finds a nonce that passes the verifier's test, and it is the first such
    nonce of the range it scanned: the predicate searched for is exactly the predicate checked -/
theorem grind_finds_what_verifier_checks (c : Coin D) (gf fuel n : Nat)
    (h : grind H c gf fuel 1 = some n) :
    powOk H c gf n = true ∧ 1 ≤ n ∧ ∀ k, 1 ≤ k → k < n → powOk H c gf k = false := by
  obtain ⟨a, b, _, d⟩ := grind_spec H c gf fuel 1 n h
  refine ⟨by simp [powOk]; omega, b, ?_⟩
  intro k hk1 hk2
  have := d k hk1 hk2
  simp [powOk]; omega

/-- ★ the verifier accepts a nonce iff its measure reaches the grinding factor -/
theorem powOk_iff (c : Coin D) (gf nonce : Nat) : powOk H c gf nonce = true ↔ gf ≤ checkLeadingZeros H c nonce := by
  simp [powOk]

-- =================================================================== tie T: the regenerated integer logic
-- `Gen.Coin.*` is what translate/gen.py makes, on every run, of the integer expressions of `draw_integers`
-- (two assertions, mask, masking of the first eight bytes) and `check_leading_zeros` (`trailing_zeros`) in
-- crypto/src/random/default.rs.  The model functions the theorems above are about are proved to be the two
-- methods over that regenerated logic (`drawIntegersG`, `checkLeadingZerosG`: Winter/Model/CoinGen.lean).
section tieT
variable {D : Type} (H : HashOps D)

/-- ★ the regenerated pieces equal the model's, for ALL arguments -/
theorem gen_coin_pieces (n d x m : Nat) :
    Gen.Coin.draw_integers_assert0 n d = isPow2 d ∧
    Gen.Coin.draw_integers_assert1 n d = decide (n < d) ∧
    Gen.Coin.draw_integers_mask d = d - 1 ∧ (Gen.Coin.draw_integers_mask_ok d = true ↔ 1 ≤ d) ∧
    Gen.Coin.draw_integers_value x m = x &&& m ∧
    Gen.Coin.check_leading_zeros_count x = tz64 x :=
  C19G.gen_pieces n d x m

/-- ★ `draw_integers` / `check_leading_zeros` of the model ARE the methods over the regenerated integer logic;
    the mask subtraction cannot underflow once the first assertion has passed -/
theorem coin_model_eq_gen (n d nonce v : Nat) (c : Coin D) :
    drawIntegers H n d nonce c = drawIntegersG H n d nonce c ∧
    checkLeadingZeros H c v = checkLeadingZerosG H c v ∧
    (Gen.Coin.draw_integers_assert0 n d = true → Gen.Coin.draw_integers_mask_ok d = true) :=
  ⟨C19G.drawIntegers_eq_gen H n d nonce c, C19G.checkLeadingZeros_eq_gen H c v, C19G.gen_mask_ok_of_assert n d⟩

end tieT

example : Gen.Coin.draw_integers_mask 1024 = 1023 ∧ Gen.Coin.draw_integers_value 123456789 1023 = 277 ∧
    Gen.Coin.check_leading_zeros_count 4096 = 12 ∧ Gen.Coin.check_leading_zeros_count 0 = 64 := by decide

end C19
