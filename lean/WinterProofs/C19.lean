-- C19: public coin contract (theorems; in progress)
import Winter.Model.Coin

namespace C19
open Model.Coin

end C19
