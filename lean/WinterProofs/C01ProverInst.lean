-- shared definitions of the kernel-checked end-to-end instances of the executable prover/verifier pair
-- (WinterProofs/C01ProverWitness.lean) and of the non-vacuity example of WinterProofs/C01Prover.lean
import Winter.Model.RefProver

namespace WinterProofs.C01Prover
open Model Model.RefVerifier Model.RefProver

/-- prove, then verify the bytes against the public inputs read off the trace, under the policy "exactly these
    options": `true` iff the prover returns bytes and the verifier accepts them -/
def proveThenVerify (J : Inst) (d : Desc) (trace : List (List Nat)) (o : Serde.ProofOptions) : Bool :=
  match refProve J d trace o with
  | .ok bs => refVerify J d (refPubInputs J d trace) (.optionSet [o]) bs == .ok
  | .error _ => false

theorem proveThenVerify_iff (J : Inst) (d : Desc) (trace : List (List Nat)) (o : Serde.ProofOptions) :
    proveThenVerify J d trace o = true ↔
      ∃ bs, refProve J d trace o = .ok bs ∧ refVerify J d (refPubInputs J d trace) (.optionSet [o]) bs = .ok := by
  unfold proveThenVerify
  cases h : refProve J d trace o with
  | ok bs =>
    simp only
    constructor
    · intro hv; exact ⟨bs, rfl, by simpa using hv⟩
    · rintro ⟨bs', hb, hv⟩
      injection hb with hb; subst hb; simpa using hv
  | error e =>
    simp only
    constructor
    · intro hv; cases hv
    · rintro ⟨bs', hb, _⟩; cases hb

/-- the ZERO-ROUND instance: `Inst.rp64` with the round constants removed, so that the Rescue permutation is the
    identity.  NOT an instantiation of the real code — it exists because the Lean kernel needs about 5 s and 0.3 GB
    per call of the real Rp64_256 permutation (an honest proof of the smallest configuration takes about 110
    calls: more than 13 minutes and 39 GB, measured), while everything else the pair computes — field arithmetic
    on raw words, interpolation, LDE, constraint evaluation, composition polynomial, OOD frame, DEEP composition,
    FRI folding and remainder, the sponge / Merkle / coin plumbing around the permutation, proof of work, openings,
    serialization and parsing — is the same code path and evaluates in seconds. -/
def Inst.toy : Inst := { Inst.rp64 with name := "f64/zero-round", P := { Rescue.rp64 with ark1 := [], ark2 := [] } }

/-- x -> x^2 + 5, one column, 8 rows, one exemption, the first cell asserted
    (`w=1;l=8;e=1;j=0;p=;g=S?:+^2c0k5;t=2:-n0+^2c0k5;a=s0.0`) -/
def descSq8 : Desc where
  air := ⟨1, 8, 1, [], [.sub (.nxt 0) (.add (.pow 2 (.cur 0)) (.const 5))], [⟨.single, 0, 0, 0⟩]⟩
  degs := [⟨2, []⟩]

/-- its trace starting at 3 -/
def traceSq8 : List (List Nat) :=
  [[3, 14, 201, 40406, 1632644841, 2665529176843915286, 11549958781217476862, 10749350959293170735]]

/-- 1 query, blowup 2 (LDE domain 16), no grinding, no extension, folding 2, remainder degree 7: no FRI layer, the
    remainder polynomial (8 coefficients) is interpolated from the 16 DEEP evaluations -/
def optsW1 : Serde.ProofOptions := ⟨1, 2, 0, 1, 2, 7⟩

/-- x -> p·x + 3 with the periodic column p = (3, 5, 7, 11) on column 0 (declared degree 1 with a cycle of 4), a
    column of period 2 next to it; a SEQUENCE assertion on column 0 (steps 1 and 5), a periodic assertion on
    column 1 (stride 2), a single assertion on the first cell
    (`w=2;l=8;e=1;p=3.5.7.11;t=1.4:-n0+*p0c0k3;a=q0.1.4,p1.0.2,s0.0`) -/
def descPer8 : Desc where
  air := ⟨2, 8, 1, [[3, 5, 7, 11]], [.sub (.nxt 0) (.add (.mul (.per 0) (.cur 0)) (.const 3))],
    [⟨.sequence, 0, 1, 4⟩, ⟨.periodic, 1, 0, 2⟩, ⟨.single, 0, 0, 0⟩]⟩
  degs := [⟨1, [4]⟩]

/-- a valid trace of `descPer8`: column 0 from 2 by the rule, column 1 alternating 9, 4 -/
def tracePer8 : List (List Nat) :=
  [[2, 9, 48, 339, 3732, 11199, 55998, 391989], [9, 4, 9, 4, 9, 4, 9, 4]]

/-- 1 query, blowup 2, no grinding, no extension, folding 2, remainder degree 3: ONE FRI layer (16 -> 8 points),
    remainder of 4 coefficients -/
def optsW2 : Serde.ProofOptions := ⟨1, 2, 0, 1, 2, 3⟩

/-- 2 queries, blowup 2, QUADRATIC extension, folding 2, remainder degree 3: one FRI layer, remainder of 4
    coefficients (no grinding: with the identity permutation the nonce search does not terminate early) -/
def optsW3 : Serde.ProofOptions := ⟨2, 2, 0, 2, 2, 3⟩

/-- prove (with the auxiliary generation rules `gens`), then verify: as `proveThenVerify` -/
def proveThenVerifyG (J : Inst) (d : Desc) (gens : List AuxGen) (trace : List (List Nat)) (o : Serde.ProofOptions) : Bool :=
  match refProve J d trace o gens with
  | .ok bs => refVerify J d (refPubInputs J d trace) (.optionSet [o]) bs == .ok
  | .error _ => false

/-- two main columns (x -> x + 7 and a free one) and an AUXILIARY SEGMENT of one column with one random element: the
    running product z' = z·(c0 + r0), z_0 = 1 (constraint of degree 2, first auxiliary cell asserted to be 1)
    (`w=2;l=8;e=1;p=;t=1:-n0+c0k7;a=s0.0;x=1.1.0;h=Ak1:*a0+c0r0;u=2:-b0*a0+c0r0;b=s0.0=k1`) -/
def descAux8 : Desc where
  air := ⟨2, 8, 1, [], [.sub (.nxt 0) (.add (.cur 0) (.const 7))], [⟨.single, 0, 0, 0⟩]⟩
  degs := [⟨1, []⟩]
  aux := some ⟨1, 1, [.sub (.anxt 0) (.mul (.acur 0) (.add (.cur 0) (.rand 0)))], [⟨2, []⟩],
    [(⟨.single, 0, 0, 0⟩, .const 1)], false⟩

/-- the generation rule of its auxiliary column (`A k1 : * a0 + c0 r0`) -/
def gensAux8 : List AuxGen := [.acc (.const 1) (.mul (.acur 0) (.add (.cur 0) (.rand 0)))]

def traceAux8 : List (List Nat) := [[1, 8, 15, 22, 29, 36, 43, 50], [5, 4, 3, 2, 1, 0, 9, 8]]

end WinterProofs.C01Prover
