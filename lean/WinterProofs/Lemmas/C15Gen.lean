-- tie T for C15 / C05: the definitions regenerated from fri/src/options.rs on this run (Winter/Gen/FriOpts.lean:
-- `FriOptions::new`, its accessors, `num_fri_layers` with its `while` loop as fuelled recursion) coincide with
-- the hand-written model of Winter/Model/Fri.lean (`Opts.new?`, `numFriLayers`) for all arguments.
import Winter.Model.Fri
import Winter.Gen.FriOpts
import Winter.Gen.FriPos
import WinterProofs.Lemmas.GenTactic

namespace C15G
open Model.Fri

/-- `is_power_of_two` as the model writes it -/
theorem isPow2_iff (x : Nat) : Gen.isPow2 x = true ↔ (x ≠ 0 ∧ 2 ^ Nat.log2 x = x) := by
  unfold Gen.isPow2; simp

/-- ★ `FriOptions::new`: the regenerated assertions hold exactly when the model constructor succeeds, and
    then the regenerated struct (fields in declaration order: folding factor, remainder max degree, blowup
    factor) is the model's record -/
theorem gen_new_eq_model (b f r : Nat) :
    (Gen.FriOpts.new_ok b f r = true ↔ (Opts.new? b f r).isSome = true) ∧
    ∀ o, Opts.new? b f r = some o → Gen.FriOpts.new b f r = (o.folding, o.remMaxDeg, o.blowup) := by
  have key : Gen.FriOpts.new_ok b f r = true ↔
      ((b ≠ 0 ∧ 2 ^ Nat.log2 b = b) ∧ (f = 2 ∨ f = 4 ∨ f = 8 ∨ f = 16)) := by
    unfold_gen Gen.FriOpts
    simp only [Bool.and_eq_true, decide_eq_true_eq, isPow2_iff]
    constructor <;> rintro ⟨h1, h2⟩ <;> exact ⟨h1, by omega⟩
  have val : Gen.FriOpts.new b f r = (f, r, b) := by unfold_gen Gen.FriOpts; rfl
  rw [key, val]
  unfold Opts.new?
  by_cases hb : b ≠ 0 ∧ 2 ^ Nat.log2 b = b
  · by_cases hf : f = 2 ∨ f = 4 ∨ f = 8 ∨ f = 16
    · rw [dif_pos hb, dif_pos hf]
      refine ⟨⟨fun _ => rfl, fun _ => ⟨hb, hf⟩⟩, ?_⟩
      intro o h; cases h; rfl
    · rw [dif_pos hb, dif_neg hf]
      refine ⟨⟨fun h => absurd h.2 hf, fun h => by cases h⟩, ?_⟩
      intro o h; cases h
  · rw [dif_neg hb]
    refine ⟨⟨fun h => absurd h.1 hb, fun h => by cases h⟩, ?_⟩
    intro o h; cases h

/-- the accessors return the stored fields -/
theorem gen_accessors (x : Nat) :
    Gen.FriOpts.folding_factor x = x ∧ Gen.FriOpts.remainder_max_degree x = x ∧ Gen.FriOpts.blowup_factor x = x ∧
    Gen.FriOpts.folding_factor_ok x = true ∧ Gen.FriOpts.remainder_max_degree_ok x = true ∧
    Gen.FriOpts.blowup_factor_ok x = true := by
  unfold_gen Gen.FriOpts
  simp

/-- the translated loop: with fuel for every halving of the domain size it returns the model's count on
    top of the running count, for every folding factor `≥ 2` -/
theorem loop_eq (maxRem f : Nat) (hf : 2 ≤ f) :
    ∀ (fuel d r : Nat), d < 2 ^ fuel →
      (Gen.FriOpts.num_fri_layers.loop1 f maxRem fuel d r).2 = r + numLayersLoop maxRem f hf d := by
  intro fuel
  induction fuel with
  | zero =>
    intro d r hd
    have : d = 0 := by omega
    subst this
    rw [numLayersLoop]
    simp [Gen.FriOpts.num_fri_layers.loop1]
  | succ k ih =>
    intro d r hd
    rw [numLayersLoop, Gen.FriOpts.num_fri_layers.loop1]
    unfold_gen Gen.FriOpts
    by_cases h : maxRem < d
    · have hd' : d / f < 2 ^ k := by
        have h1 : d / f ≤ d / 2 := Nat.div_le_div_left hf (by omega)
        have h2 : d / 2 < 2 ^ k := by rw [Nat.pow_succ] at hd; omega
        omega
      simp only [gt_iff_lt, h, decide_true, if_true, dite_true]
      rw [ih (d / f) (r + 1) hd']
      omega
    · simp [h]

/-- no overflow on any executed iteration, for every fuel: the count grows by one per halving of the
    domain size -/
theorem loop_ok (maxRem f : Nat) (hf : 2 ≤ f) :
    ∀ (fuel d r j : Nat), d < 2 ^ j → r + j < 18446744073709551616 →
      Gen.FriOpts.num_fri_layers.loop1_ok f maxRem fuel d r = true := by
  intro fuel
  induction fuel with
  | zero => intro d r j _ _; simp [Gen.FriOpts.num_fri_layers.loop1_ok]
  | succ k ih =>
    intro d r j hd hr
    rw [Gen.FriOpts.num_fri_layers.loop1_ok]
    unfold_gen Gen.FriOpts
    by_cases h : maxRem < d
    · have hj : 1 ≤ j := by
        rcases Nat.eq_zero_or_pos j with h0 | h0
        · subst h0; simp at hd; omega
        · exact h0
      have hd' : d / f < 2 ^ (j - 1) := by
        have h1 : d / f ≤ d / 2 := Nat.div_le_div_left hf (by omega)
        have h2 : d / 2 < 2 ^ (j - 1) := by
          have : 2 ^ j = 2 ^ (j - 1) * 2 := by rw [← Nat.pow_succ]; congr 1; omega
          omega
        omega
      have := ih (d / f) (r + 1) (j - 1) hd' (by omega)
      simp only [gt_iff_lt, h, decide_true, if_true, Bool.true_and, Bool.and_eq_true, decide_eq_true_eq]
      exact ⟨⟨by omega, by omega⟩, this⟩
    · simp [h]

/-- ★ `FriOptions::num_fri_layers` as translated from the source on this run: for every option record the
    constructor can produce, every domain size a `usize` can hold and every fuel `≥ 64`, the regenerated
    function returns the model's layer count (hence is fuel-independent: the loop terminates), and it does
    not overflow exactly when `remainder_max_degree + 1` and `(remainder_max_degree + 1) · blowup_factor` fit
    a `usize` -/
theorem gen_num_fri_layers_eq_model (o : Opts) (d N : Nat) (hd : d < 18446744073709551616) (hN : 64 ≤ N) :
    Gen.FriOpts.num_fri_layers N o.blowup o.folding o.remMaxDeg d = numFriLayers o d ∧
    (Gen.FriOpts.num_fri_layers_ok N o.blowup o.folding o.remMaxDeg d = true ↔
      (o.remMaxDeg + 1 < 18446744073709551616 ∧ (o.remMaxDeg + 1) * o.blowup < 18446744073709551616)) := by
  have e64 : (2 : Nat) ^ 64 = 18446744073709551616 := by decide
  have hd64 : d < 2 ^ 64 := by rw [e64]; exact hd
  have hpow : d < 2 ^ N := Nat.lt_of_lt_of_le hd64 (Nat.pow_le_pow_right (by omega) hN)
  constructor
  · unfold numFriLayers
    unfold_gen Gen.FriOpts
    rw [loop_eq _ _ o.two_le N d 0 hpow]; omega
  · unfold_gen Gen.FriOpts
    simp only [Bool.and_eq_true, decide_eq_true_eq]
    constructor
    · intro h; exact h.1
    · intro h
      exact ⟨h, loop_ok _ _ o.two_le N d 0 64 hd64 (by omega)⟩

/-! ## fri/src/folding/mod.rs `fold_positions`, fri/src/utils.rs `map_positions_to_indexes` (Winter/Gen/FriPos.lean) -/

theorem foldLoop_eq (m : Nat) : ∀ (ps acc : List Nat),
    Gen.FriPos.fold_positions.for1 m ps acc = ps.foldl (foldStep m) acc := by
  intro ps
  induction ps with
  | nil => intro acc; simp [Gen.FriPos.fold_positions.for1]
  | cons p t ih =>
    intro acc
    rw [Gen.FriPos.fold_positions.for1]
    unfold_gen Gen.FriPos
    rw [ih, List.foldl_cons]
    congr 1
    unfold foldStep
    by_cases hc : acc.contains (p % m) = true <;> simp

theorem foldLoop_ok (m : Nat) : ∀ (ps acc : List Nat),
    Gen.FriPos.fold_positions.for1_ok m ps acc = true ↔ (ps = [] ∨ m ≠ 0) := by
  intro ps
  induction ps with
  | nil => intro acc; simp [Gen.FriPos.fold_positions.for1_ok]
  | cons p t ih =>
    intro acc
    rw [Gen.FriPos.fold_positions.for1_ok]
    unfold_gen Gen.FriPos
    simp only [Bool.and_eq_true, decide_eq_true_eq, ih, reduceCtorEq, false_or, ne_eq]
    constructor
    · exact fun h => h.1
    · exact fun h => ⟨h, Or.inr h⟩

/-- ★ `fold_positions` (regenerated; the de-duplicating `for` loop as structural recursion) IS the model's
    `foldPositions` for every folding factor `≠ 0`: same list, and the model's `none` (remainder by a zero target
    domain size) exactly when the regenerated no-panic condition fails -/
theorem gen_fold_positions_eq_model (ps : List Nat) (d f : Nat) (hf : f ≠ 0) :
    foldPositions ps d f =
      if Gen.FriPos.fold_positions_ok ps d f then some (Gen.FriPos.fold_positions ps d f) else none := by
  unfold foldPositions
  unfold_gen Gen.FriPos
  simp only [foldLoop_eq, foldLoop_ok, Bool.and_eq_true, decide_eq_true_eq]
  by_cases hm : d / f = 0
  · cases ps with
    | nil => simp [hm, hf]
    | cons p t => simp [hm, hf]
  · simp [hm, hf]

/-- the model is more lenient than the code where no caller goes: with a zero folding factor the Rust function
    divides by zero before the loop (even for no positions), the model answers `some []` -/
theorem fold_positions_zero_folding_witness :
    foldPositions [] 8 0 = some [] ∧ Gen.FriPos.fold_positions_ok [] 8 0 = false := by decide

theorem mapLoop_eq (np psz : Nat) : ∀ (ps acc : List Nat),
    Gen.FriPos.map_positions_to_indexes.for1 np psz ps acc =
      acc ++ ps.map (fun p => (p % np) * psz + (p - p % np) / np) := by
  intro ps
  induction ps with
  | nil => intro acc; simp [Gen.FriPos.map_positions_to_indexes.for1]
  | cons p t ih =>
    intro acc
    rw [Gen.FriPos.map_positions_to_indexes.for1]
    unfold_gen Gen.FriPos
    rw [ih]; simp

theorem mapLoop_ok (np psz : Nat) (hnp : np ≠ 0) : ∀ (ps acc : List Nat),
    Gen.FriPos.map_positions_to_indexes.for1_ok np psz ps acc = true ↔
      ∀ p ∈ ps, (p % np) * psz + (p - p % np) / np < 18446744073709551616 := by
  intro ps
  induction ps with
  | nil => intro acc; simp [Gen.FriPos.map_positions_to_indexes.for1_ok]
  | cons p t ih =>
    intro acc
    rw [Gen.FriPos.map_positions_to_indexes.for1_ok]
    unfold_gen Gen.FriPos
    simp only [Bool.and_eq_true, decide_eq_true_eq, ih, List.mem_cons, forall_eq_or_imp, ne_eq]
    have hle : p % np ≤ p := Nat.mod_le p np
    generalize (p - p % np) / np = q
    generalize p % np * psz = c
    constructor
    · rintro ⟨h, ht⟩; exact ⟨by omega, ht⟩
    · rintro ⟨h, ht⟩
      exact ⟨⟨⟨⟨⟨hnp, hle⟩, hnp⟩, by omega⟩, h⟩, ht⟩

/-- ★ `map_positions_to_indexes` (regenerated): whenever the regenerated no-panic condition holds the model
    returns the regenerated list -/
theorem gen_map_positions_eq_model (ps : List Nat) (d f np : Nat)
    (h : Gen.FriPos.map_positions_to_indexes_ok ps d f np = true) :
    mapPositionsToIndexes ps d f np = some (Gen.FriPos.map_positions_to_indexes ps d f np) := by
  revert h
  unfold mapPositionsToIndexes
  unfold_gen Gen.FriPos
  simp only [Bool.and_eq_true, decide_eq_true_eq, mapLoop_eq, List.nil_append]
  by_cases h1 : np = 1
  · simp [h1]
  · by_cases h0 : np = 0
    · simp [h0]
    · simp [h1, h0]

/-- ★ and that condition holds exactly when there is one partition, or the folding factor and the number of
    partitions are non-zero and every index fits a `usize` -/
theorem gen_map_positions_ok_iff (ps : List Nat) (d f np : Nat) :
    Gen.FriPos.map_positions_to_indexes_ok ps d f np = true ↔
      (np = 1 ∨ (f ≠ 0 ∧ np ≠ 0 ∧
        ∀ p ∈ ps, (p % np) * (d / f / np) + (p - p % np) / np < 18446744073709551616)) := by
  unfold_gen Gen.FriPos
  simp only [Bool.and_eq_true, decide_eq_true_eq]
  by_cases h1 : np = 1
  · simp [h1]
  · by_cases h0 : np = 0
    · simp [h0]
    · simp only [h1, h0, not_false_eq_true, forall_const, ne_eq, false_or, true_and, mapLoop_ok _ _ h0]
      constructor
      · rintro ⟨⟨a, _⟩, b⟩; exact ⟨a, b⟩
      · rintro ⟨a, b⟩; exact ⟨⟨a, trivial⟩, b⟩

/-- the model is more lenient where no caller goes: with zero partitions the Rust function divides by zero
    before the loop (even for no positions), the model answers `some []` -/
theorem map_positions_zero_partitions_witness :
    mapPositionsToIndexes [] 8 2 0 = some [] ∧ Gen.FriPos.map_positions_to_indexes_ok [] 8 2 0 = false := by
  decide

end C15G
