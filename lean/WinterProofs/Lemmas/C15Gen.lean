-- tie T for C15 / C05: the definitions regenerated from fri/src/options.rs on this run (Winter/Gen/FriOpts.lean:
-- `FriOptions::new`, its accessors, `num_fri_layers` with its `while` loop as fuelled recursion) coincide with
-- the hand-written model of Winter/Model/Fri.lean (`Opts.new?`, `numFriLayers`) for all arguments.
import Winter.Model.Fri
import Winter.Gen.FriOpts
import WinterProofs.Lemmas.GenTactic

namespace C15G
open Model.Fri

/-- `is_power_of_two` as the model writes it -/
theorem isPow2_iff (x : Nat) : Gen.isPow2 x = true ↔ (x ≠ 0 ∧ 2 ^ Nat.log2 x = x) := by
  unfold Gen.isPow2; simp

/-- ★ `FriOptions::new`: the regenerated assertions hold exactly when the model constructor succeeds, and
    then the regenerated struct (fields in declaration order: folding factor, remainder max degree, blowup
    factor) is the model's record -/
theorem gen_new_eq_model (b f r : Nat) :
    (Gen.FriOpts.new_ok b f r = true ↔ (Opts.new? b f r).isSome = true) ∧
    ∀ o, Opts.new? b f r = some o → Gen.FriOpts.new b f r = (o.folding, o.remMaxDeg, o.blowup) := by
  have key : Gen.FriOpts.new_ok b f r = true ↔
      ((b ≠ 0 ∧ 2 ^ Nat.log2 b = b) ∧ (f = 2 ∨ f = 4 ∨ f = 8 ∨ f = 16)) := by
    unfold_gen Gen.FriOpts
    simp only [Bool.and_eq_true, decide_eq_true_eq, isPow2_iff]
    constructor <;> rintro ⟨h1, h2⟩ <;> exact ⟨h1, by omega⟩
  have val : Gen.FriOpts.new b f r = (f, r, b) := by unfold_gen Gen.FriOpts; rfl
  rw [key, val]
  unfold Opts.new?
  by_cases hb : b ≠ 0 ∧ 2 ^ Nat.log2 b = b
  · by_cases hf : f = 2 ∨ f = 4 ∨ f = 8 ∨ f = 16
    · rw [dif_pos hb, dif_pos hf]
      refine ⟨⟨fun _ => rfl, fun _ => ⟨hb, hf⟩⟩, ?_⟩
      intro o h; cases h; rfl
    · rw [dif_pos hb, dif_neg hf]
      refine ⟨⟨fun h => absurd h.2 hf, fun h => by cases h⟩, ?_⟩
      intro o h; cases h
  · rw [dif_neg hb]
    refine ⟨⟨fun h => absurd h.1 hb, fun h => by cases h⟩, ?_⟩
    intro o h; cases h

/-- the accessors return the stored fields -/
theorem gen_accessors (x : Nat) :
    Gen.FriOpts.folding_factor x = x ∧ Gen.FriOpts.remainder_max_degree x = x ∧ Gen.FriOpts.blowup_factor x = x ∧
    Gen.FriOpts.folding_factor_ok x = true ∧ Gen.FriOpts.remainder_max_degree_ok x = true ∧
    Gen.FriOpts.blowup_factor_ok x = true := by
  unfold_gen Gen.FriOpts
  simp

/-- the translated loop: with fuel for every halving of the domain size it returns the model's count on
    top of the running count, for every folding factor `≥ 2` -/
theorem loop_eq (maxRem f : Nat) (hf : 2 ≤ f) :
    ∀ (fuel d r : Nat), d < 2 ^ fuel →
      (Gen.FriOpts.num_fri_layers.loop1 f maxRem fuel d r).2 = r + numLayersLoop maxRem f hf d := by
  intro fuel
  induction fuel with
  | zero =>
    intro d r hd
    have : d = 0 := by omega
    subst this
    rw [numLayersLoop]
    simp [Gen.FriOpts.num_fri_layers.loop1]
  | succ k ih =>
    intro d r hd
    rw [numLayersLoop, Gen.FriOpts.num_fri_layers.loop1]
    unfold_gen Gen.FriOpts
    by_cases h : maxRem < d
    · have hd' : d / f < 2 ^ k := by
        have h1 : d / f ≤ d / 2 := Nat.div_le_div_left hf (by omega)
        have h2 : d / 2 < 2 ^ k := by rw [Nat.pow_succ] at hd; omega
        omega
      simp only [gt_iff_lt, h, decide_true, if_true, dite_true]
      rw [ih (d / f) (r + 1) hd']
      omega
    · simp [h]

/-- no overflow on any executed iteration, for every fuel: the count grows by one per halving of the
    domain size -/
theorem loop_ok (maxRem f : Nat) (hf : 2 ≤ f) :
    ∀ (fuel d r j : Nat), d < 2 ^ j → r + j < 18446744073709551616 →
      Gen.FriOpts.num_fri_layers.loop1_ok f maxRem fuel d r = true := by
  intro fuel
  induction fuel with
  | zero => intro d r j _ _; simp [Gen.FriOpts.num_fri_layers.loop1_ok]
  | succ k ih =>
    intro d r j hd hr
    rw [Gen.FriOpts.num_fri_layers.loop1_ok]
    unfold_gen Gen.FriOpts
    by_cases h : maxRem < d
    · have hj : 1 ≤ j := by
        rcases Nat.eq_zero_or_pos j with h0 | h0
        · subst h0; simp at hd; omega
        · exact h0
      have hd' : d / f < 2 ^ (j - 1) := by
        have h1 : d / f ≤ d / 2 := Nat.div_le_div_left hf (by omega)
        have h2 : d / 2 < 2 ^ (j - 1) := by
          have : 2 ^ j = 2 ^ (j - 1) * 2 := by rw [← Nat.pow_succ]; congr 1; omega
          omega
        omega
      have := ih (d / f) (r + 1) (j - 1) hd' (by omega)
      simp only [gt_iff_lt, h, decide_true, if_true, Bool.true_and, Bool.and_eq_true, decide_eq_true_eq]
      exact ⟨⟨by omega, by omega⟩, this⟩
    · simp [h]

/-- ★ `FriOptions::num_fri_layers` as translated from the source on this run: for every option record the
    constructor can produce, every domain size a `usize` can hold and every fuel `≥ 64`, the regenerated
    function returns the model's layer count (hence is fuel-independent: the loop terminates), and it does
    not overflow exactly when `remainder_max_degree + 1` and `(remainder_max_degree + 1) · blowup_factor` fit
    a `usize` -/
theorem gen_num_fri_layers_eq_model (o : Opts) (d N : Nat) (hd : d < 18446744073709551616) (hN : 64 ≤ N) :
    Gen.FriOpts.num_fri_layers N o.blowup o.folding o.remMaxDeg d = numFriLayers o d ∧
    (Gen.FriOpts.num_fri_layers_ok N o.blowup o.folding o.remMaxDeg d = true ↔
      (o.remMaxDeg + 1 < 18446744073709551616 ∧ (o.remMaxDeg + 1) * o.blowup < 18446744073709551616)) := by
  have e64 : (2 : Nat) ^ 64 = 18446744073709551616 := by decide
  have hd64 : d < 2 ^ 64 := by rw [e64]; exact hd
  have hpow : d < 2 ^ N := Nat.lt_of_lt_of_le hd64 (Nat.pow_le_pow_right (by omega) hN)
  constructor
  · unfold numFriLayers
    unfold_gen Gen.FriOpts
    rw [loop_eq _ _ o.two_le N d 0 hpow]; omega
  · unfold_gen Gen.FriOpts
    simp only [Bool.and_eq_true, decide_eq_true_eq]
    constructor
    · intro h; exact h.1
    · intro h
      exact ⟨h, loop_ok _ _ o.two_le N d 0 64 hd64 (by omega)⟩

end C15G
