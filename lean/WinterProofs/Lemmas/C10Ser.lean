-- C10 helper lemmas: serialize_nodes / deserialize round trip
import Winter.Model.Merkle

namespace WinterProofs.C10
open Model.Merkle

variable {D : Type}

/-- reading what was written returns the digest and leaves the following bytes unread -/
def CodecOK (C : Codec D) : Prop := ∀ d rest, C.dec (C.enc d ++ rest) = .ok (d, rest)

theorem readMany_encRow (C : Codec D) (hc : CodecOK C) : ∀ (row : List D) (rest : List Nat),
    readMany C row.length (encRow C row ++ rest) = .ok (row, rest)
  | [], rest => rfl
  | d :: ds, rest => by
    simp only [List.length_cons, readMany, encRow, List.append_assoc, hc d, readMany_encRow C hc ds rest]

theorem readRows_serRows (C : Codec D) (hc : CodecOK C) : ∀ (rows : List (List D)) (bytes : List Nat),
    serRows C rows = .ok bytes → ∀ rest, readRows C rows.length (bytes ++ rest) = .ok (rows, rest)
  | [], bytes, h, rest => by
    simp only [serRows] at h
    injection h with h; subst h; rfl
  | row :: rows, bytes, h, rest => by
    simp only [serRows] at h
    split at h
    · cases h
    · cases hr : serRows C rows with
      | err e => rw [hr] at h; cases h
      | panic e => rw [hr] at h; cases h
      | ok bs =>
        rw [hr] at h
        simp only [Res.ok_bind] at h
        injection h with h; subst h
        simp only [List.length_cons, readRows, List.cons_append, List.append_assoc,
          readMany_encRow C hc row, readRows_serRows C hc rows bs hr rest]

/-- `serialize_nodes` panics exactly when there are more than 255 rows or a row of more than 255 nodes -/
theorem serRows_total (C : Codec D) : ∀ (rows : List (List D)), (∀ row ∈ rows, row.length ≤ 255) →
    ∃ bytes, serRows C rows = .ok bytes
  | [], _ => ⟨[], rfl⟩
  | row :: rows, h => by
    obtain ⟨bs, hb⟩ := serRows_total C rows (fun r hr => h r (List.mem_cons_of_mem _ hr))
    have := h row (List.mem_cons_self ..)
    exact ⟨_, by simp only [serRows]; rw [if_neg (by omega), hb]; rfl⟩

end WinterProofs.C10
