-- C11 helper lemmas: closed computations on the generated tables, `add_constants` re-canonicalises,
-- `merge_with_int` encoding, the 62-bit `merge`.  No Mathlib.
import Winter.Model.Rescue
import WinterProofs.Lemmas.C11Sponge
set_option linter.unusedSimpArgs false
set_option linter.unusedVariables false

namespace WinterProofs.C11.Misc
open Model Model.Rescue WinterProofs.C11.Sponge

/-! ### tables -/

/-- every entry of a matrix is the entry of its first row, rotated: `m[i][j] = m[0][(j - i) mod n]` -/
def isCirculant (n : Nat) (m : List (List Nat)) : Bool :=
  (List.range n).all fun i => (List.range n).all fun j =>
    (m[i]? >>= (·[j]?)) == (m[0]? >>= (·[(j + n - i) % n]?)) && (m[i]? >>= (·[j]?)).isSome

def matMulMod (p : Nat) (a b : List (List Nat)) : List (List Nat) :=
  a.map fun row => (List.range row.length).map fun j =>
    ((List.zipWith (fun x r => x * (r[j]?.getD 0)) row b).sum) % p

def identity (n : Nat) : List (List Nat) :=
  (List.range n).map fun i => (List.range n).map fun j => if i = j then 1 else 0

theorem rp64_mds_circulant : isCirculant 12 Gen.Rp64.MDS = true := by decide +kernel
theorem jive_mds_circulant : isCirculant 8 Gen.Rp64Jive.MDS = true := by decide +kernel
theorem rp64_inv_mds : matMulMod Gen.F64.M Gen.Rp64.INV_MDS Gen.Rp64.MDS = identity 12 := by decide +kernel
theorem jive_inv_mds : matMulMod Gen.F64.M Gen.Rp64Jive.INV_MDS Gen.Rp64Jive.MDS = identity 8 := by decide +kernel

theorem alpha_inv_64 : (Gen.Rp64.ALPHA * Gen.Rp64.INV_ALPHA) % (Gen.F64.M - 1) = 1 := by decide +kernel
theorem alpha_inv_jive : (Gen.Rp64Jive.ALPHA * Gen.Rp64Jive.INV_ALPHA) % (Gen.F64.M - 1) = 1 := by decide +kernel
theorem alpha_inv_62 : (Gen.Rp62.ALPHA * Gen.Rp62.INV_ALPHA) % (Gen.F62.M - 1) = 1 := by decide +kernel

/-! ### `add_constants` brings every 64-bit word back into `[0, p)` -/

/-- all raw words of the round constants are at most `p - 2^32` -/
def arkSmall (t : List (List Nat)) : Bool :=
  t.all fun r => r.all fun k => decide (Gen.F64.new k ≤ 18446744065119617025)

theorem rp64_ark_small : arkSmall Gen.Rp64.ARK1 = true ∧ arkSmall Gen.Rp64.ARK2 = true := by
  constructor <;> decide +kernel
theorem jive_ark_small : arkSmall Gen.Rp64Jive.ARK1 = true ∧ arkSmall Gen.Rp64Jive.ARK2 = true := by
  constructor <;> decide +kernel

/-- `s + k` for ANY 64-bit raw word `s` (canonical or not) and a constant `k <= p - 2^32` is
    canonical and equals `s + k` modulo `p`: non-canonical outputs of `mds_multiply` never survive
    the following `add_constants` -/
theorem f64_add_canonical (s k : Nat) (hs : s < 18446744073709551616) (hk : k ≤ 18446744065119617025) :
    Gen.F64.add s k < 18446744069414584321 ∧
    ∃ q, s + k = Gen.F64.add s k + q * 18446744069414584321 := by
  unfold Gen.F64.add Gen.F64.add.s_x1 Gen.F64.add.s_c1 Gen.F64.add.s_adj
  simp only []
  generalize hb : decide (s < 18446744069414584321 - k) = b
  cases b
  · have hc : ¬ s < 18446744069414584321 - k := of_decide_eq_false hb
    clear hb
    have e5 : (0 + 4294967296 - if false = true then 1 else 0) % 4294967296 = 0 := by decide
    rw [e5]
    have e1 : (s + 18446744073709551616 - (18446744069414584321 - k)) % 18446744073709551616
        = s + k - 18446744069414584321 := by omega
    rw [e1]
    have e2 : (s + k - 18446744069414584321 + 18446744073709551616 - 0) % 18446744073709551616
        = s + k - 18446744069414584321 := by omega
    rw [e2]
    exact ⟨by omega, 1, by omega⟩
  · have hc : s < 18446744069414584321 - k := of_decide_eq_true hb
    clear hb
    have e5 : (0 + 4294967296 - if true = true then 1 else 0) % 4294967296 = 4294967295 := by decide
    rw [e5]
    have e1 : (s + 18446744073709551616 - (18446744069414584321 - k)) % 18446744073709551616
        = s + k + 4294967295 := by omega
    rw [e1]
    have e2 : (s + k + 4294967295 + 18446744073709551616 - 4294967295) % 18446744073709551616 = s + k := by omega
    rw [e2]
    exact ⟨by omega, 0, by omega⟩

/-! ### `merge_with_int` -/

/-- the residues written by `merge_with_int`: (value mod p, value div p or 0, domain flag) -/
def intEncodingRes (M v : Nat) : Nat × Nat × Nat :=
  if v < M then (v % M, 0, 5) else (v % M, v / M, 6)

theorem intEncodingRes_injective (M : Nat) (v v' : Nat)
    (h : intEncodingRes M v = intEncodingRes M v') : v = v' := by
  unfold intEncodingRes at h
  have dv := Nat.div_add_mod v M
  have dv' := Nat.div_add_mod v' M
  split at h <;> split at h <;> simp only [Prod.mk.injEq] at h
  · have a := Nat.mod_eq_of_lt ‹v < M›
    have b := Nat.mod_eq_of_lt ‹v' < M›
    omega
  · omega
  · omega
  · obtain ⟨h1, h2, _⟩ := h
    rw [h1, h2] at dv
    omega

/-! ### the 62-bit `merge` -/

theorem rp62_merge_eq (a0 a1 a2 a3 b0 b1 b2 b3 : Nat)
    (h0 : a0 < 4611686018427387904) (h1 : a1 < 4611686018427387904) (h2 : a2 < 4611686018427387904)
    (h3 : a3 < 4611686018427387904) (h4 : b0 < 4611686018427387904) (h5 : b1 < 4611686018427387904)
    (h6 : b2 < 4611686018427387904) (h7 : b3 < 4611686018427387904) :
    merge rp62 [a0, a1, a2, a3] [b0, b1, b2, b3] = hashElements rp62 [a0, a1, a2, a3, b0, b1, b2, b3] := by
  have pj : rp62.jive = false := rfl
  have pw : rp62.width = 12 := rfl
  have pr : rp62.rateStart = 0 := rfl
  have prw : rp62.rateWidth = 8 := rfl
  have pc : rp62.capIdx = 11 := rfl
  have pn : rp62.F.new = Gen.F62.new := rfl
  have pa : rp62.F.add = Gen.F62.add := rfl
  simp [merge, mergeState, hashElements, absorbOne, addAt, initState, zeroState, finish, pj, pw, pr, prw, pc, pn, pa,
    f62_new_zero, f62_add_zero, h0, h1, h2, h3, h4, h5, h6, h7, List.replicate, range8, List.modify]

end WinterProofs.C11.Misc
