-- `unfold_gen Gen.Module`: unfolds every definition of a generated module that occurs in the goal
-- (the per-`let` step definitions `f.s_x`, `f`, `f_ok`, loop conditions and bodies), whatever their names
-- and order, and removes the `let`s.  Proofs about regenerated definitions that start with it do not
-- depend on the names of the Rust locals or on the order of independent `let`s; the loop functions
-- themselves (`f.loopK`, `f.loopK_ok`, `f.forK`, `f.forK_ok`: structural recursion) are left folded.
import Lean

namespace GenTactic
open Lean Elab Tactic Meta

def isLoopTail (t : String.Slice) : Bool :=
  !t.isEmpty && (t.all Char.isDigit || (t.endsWith "_ok" && !(t.dropEnd 3).isEmpty && (t.dropEnd 3).all Char.isDigit))

/-- the recursive definitions of a generated module: `f.loopK`, `f.loopK_ok` (fuelled `while`) and
    `f.forK`, `f.forK_ok` (`for` over a vector) -/
def isLoopName (n : Name) : Bool :=
  match n with
  | .str _ s =>
    (s.startsWith "loop" && isLoopTail (s.drop 4)) || (s.startsWith "for" && isLoopTail (s.drop 3))
  | _ => false

def unfoldGenCore (p : Name) (g : MVarId) : MetaM MVarId := do
  let sel : Name → Bool := fun c => p.isPrefixOf c && !isLoopName c
  let mut t ← instantiateMVars (← g.getType)
  for _ in [0:64] do
    if !(t.getUsedConstants.any sel) then break
    t ← Meta.deltaExpand t sel
    t ← Core.betaReduce t
  t ← Meta.zetaReduce t
  t ← Core.betaReduce t
  g.replaceTargetDefEq t

elab "unfold_gen " pfx:ident : tactic => do
  let g ← getMainGoal
  replaceMainGoal [← unfoldGenCore pfx.getId g]

end GenTactic
