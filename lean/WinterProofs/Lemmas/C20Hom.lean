-- C20 helper lemmas, part 9: the model is natural in the operation record.  If `h : α' → α` commutes
-- with the operations of two records (`OpsHom O' O h`), every model function commutes with mapping its
-- arguments by `h`.  Used (WinterProofs/C20Inst.lean) to carry the theorems from the carrier
-- `{x // Inv x}` of raw words satisfying the representation invariant to the plain raw words the
-- driver computes on.
import WinterProofs.Lemmas.C20Mul

namespace WinterProofs.C20
open Model.Poly

variable {α α' β : Type}

/-- `h` maps the operations of `O'` to those of `O` (`pow` only at exponent 0, which is all the
    non-`concurrent` code uses) -/
structure OpsHom (O' : Ops α') (O : Ops α) (h : α' → α) : Prop where
  zero : h O'.zero = O.zero
  one : h O'.one = O.one
  add : ∀ a b, h (O'.add a b) = O.add (h a) (h b)
  sub : ∀ a b, h (O'.sub a b) = O.sub (h a) (h b)
  mul : ∀ a b, h (O'.mul a b) = O.mul (h a) (h b)
  inv : ∀ a, O.inv (h a) = (O'.inv a).map h
  isZero : ∀ a, O.isZero (h a) = O'.isZero a
  isOne : ∀ a, O.isOne (h a) = O'.isOne a
  pow0 : ∀ a, h (O'.pow a 0) = O.pow (h a) 0

-- ------------------------------------------------------------------ Res plumbing

section
variable {γ δ ε : Type}

@[simp] theorem map_ok (f : γ → δ) (a : γ) : (Res.ok a).map f = .ok (f a) := rfl
@[simp] theorem map_panic (f : γ → δ) (s : String) : (Res.panic s : Res γ).map f = .panic s := rfl
@[simp] theorem map_hang (f : γ → δ) : (Res.hang : Res γ).map f = .hang := rfl

theorem map_map (x : Res γ) (f : γ → δ) (g : δ → ε) : (x.map f).map g = x.map (g ∘ f) := by
  cases x <;> rfl

theorem map_id' (x : Res γ) : x.map (fun a => a) = x := by cases x <;> rfl

/-- one stage of a pipeline: `x` was computed on mapped arguments -/
theorem bind_congr_map {x : Res γ} {H : γ → δ} {f : δ → Res ε} {ε' : Type} {f' : γ → Res ε'} {G : ε' → ε}
    (hf : ∀ a, f (H a) = (f' a).map G) : (x.map H).bind f = (x.bind f').map G := by
  cases x with
  | ok a => exact hf a
  | panic s => rfl
  | hang => rfl

theorem map_eq_ok {x : Res γ} {f : γ → δ} {b : δ} (hx : x.map f = .ok b) : ∃ a, x = .ok a ∧ f a = b := by
  cases x with
  | ok a => exact ⟨a, rfl, by simpa using hx⟩
  | panic s => cases hx
  | hang => cases hx

end

-- ------------------------------------------------------------------ checked accesses and loops

section
variable (h : α' → α)

theorem getAt_map (l : List α') (k : Nat) : getAt (l.map h) k = (getAt l k).map h := by
  unfold getAt
  rw [List.getElem?_map]
  cases l[k]? <;> rfl

theorem setAt_map (l : List α') (k : Nat) (c : α') :
    setAt (l.map h) k (h c) = (setAt l k c).map (List.map h) := by
  unfold setAt
  rw [List.length_map]
  split <;> simp [List.map_set]

theorem updAt_map (l : List α') (k : Nat) (f : α → α) (f' : α' → α') (hf : ∀ x, f (h x) = h (f' x)) :
    updAt (l.map h) k f = (updAt l k f').map (List.map h) := by
  unfold updAt
  rw [List.getElem?_map]
  cases l[k]? with
  | none => rfl
  | some x => simp [List.map_set, hf]

theorem loopM_map {ι ι' σ σ' : Type} (g : ι' → ι) (H : σ' → σ) (body : σ → ι → Res σ)
    (body' : σ' → ι' → Res σ') (hb : ∀ st i, body (H st) (g i) = (body' st i).map H)
    (idxs : List ι') (st : σ') :
    loopM (idxs.map g) (H st) body = (loopM idxs st body').map H := by
  induction idxs generalizing st with
  | nil => rfl
  | cons i rest ih =>
    simp only [List.map_cons, loopM]
    rw [hb st i]
    cases body' st i with
    | ok st1 => exact ih st1
    | panic s => rfl
    | hang => rfl

theorem loopM_map_id {ι σ σ' : Type} (H : σ' → σ) (body : σ → ι → Res σ)
    (body' : σ' → ι → Res σ') (hb : ∀ st i, body (H st) i = (body' st i).map H)
    (idxs : List ι) (st : σ') :
    loopM idxs (H st) body = (loopM idxs st body').map H := by
  have := loopM_map (fun i => i) H body body' hb idxs st
  simpa using this

theorem mapM'_map {ι ι' σ σ' : Type} (g : ι' → ι) (H : σ' → σ) (f : ι → Res σ) (f' : ι' → Res σ')
    (hf : ∀ x, f (g x) = (f' x).map H) (l : List ι') :
    mapM' f (l.map g) = (mapM' f' l).map (List.map H) := by
  induction l with
  | nil => rfl
  | cons x xs ih =>
    simp only [List.map_cons, mapM']
    rw [hf x, ih]
    cases f' x with
    | ok y =>
      cases mapM' f' xs with
      | ok ys => rfl
      | panic s => rfl
      | hang => rfl
    | panic s => rfl
    | hang => rfl

theorem zipIdx_map' (l : List α') (k : Nat) :
    (l.map h).zipIdx k = (l.zipIdx k).map fun p => (h p.1, p.2) := by
  induction l generalizing k with
  | nil => rfl
  | cons a l ih => simp [List.zipIdx_cons, ih]

end


-- ------------------------------------------------------------------ the model functions

section
variable {O' : Ops α'} {O : Ops α} {h : α' → α}

theorem hom_div (Hh : OpsHom O' O h) (x y : α') : O.div (h x) (h y) = (O'.div x y).map h := by
  unfold Ops.div
  rw [Hh.inv]
  cases O'.inv y with
  | none => rfl
  | some i => simp [Hh.mul]

theorem hom_eval (Hh : OpsHom O' O h) (p : List α') (x : α') :
    eval O (p.map h) (h x) = h (eval O' p x) := by
  unfold eval
  induction p with
  | nil => simp [evalWith_nil, Hh.zero]
  | cons c cs ih =>
    rw [List.map_cons, evalWith_cons, evalWith_cons, ih]
    simp [Hh.add, Hh.mul]

theorem hom_evalMany (Hh : OpsHom O' O h) (p xs : List α') :
    evalMany O (p.map h) (xs.map h) = (evalMany O' p xs).map h := by
  simp [evalMany, hom_eval Hh, Function.comp_def]

theorem hom_coeff (Hh : OpsHom O' O h) (a : List α') (i : Nat) :
    Model.Poly.coeff O (a.map h) i = h (Model.Poly.coeff O' a i) := by
  unfold Model.Poly.coeff
  rw [List.getElem?_map]
  cases a[i]? <;> simp [Hh.zero]

theorem hom_add (Hh : OpsHom O' O h) (a b : List α') :
    add O (a.map h) (b.map h) = (add O' a b).map h := by
  simp [add, hom_coeff Hh, Hh.add, Function.comp_def]

theorem hom_sub (Hh : OpsHom O' O h) (a b : List α') :
    sub O (a.map h) (b.map h) = (sub O' a b).map h := by
  simp [sub, hom_coeff Hh, Hh.sub, Function.comp_def]

theorem hom_mulByScalar (Hh : OpsHom O' O h) (p : List α') (k : α') :
    mulByScalar O (p.map h) (h k) = (mulByScalar O' p k).map h := by
  simp [mulByScalar, Hh.mul, Function.comp_def]

theorem hom_mulInner (Hh : OpsHom O' O h) (ai : α') (i : Nat) (b r : List α') :
    mulInner O (h ai) i (b.map h) (r.map h) = (mulInner O' ai i b r).map (List.map h) := by
  unfold mulInner
  rw [zipIdx_map']
  exact loopM_map _ (List.map h) _ _ (fun st bj => by
    exact updAt_map h st _ _ _ (fun x => by simp [Hh.add, Hh.mul])) _ _

theorem hom_mul (Hh : OpsHom O' O h) (a b : List α') :
    mul O (a.map h) (b.map h) = (mul O' a b).map (List.map h) := by
  unfold mul
  rw [zipIdx_map']
  have hz : List.replicate ((a.map h).length + (b.map h).length - 1) O.zero =
      (List.replicate (a.length + b.length - 1) O'.zero).map h := by simp [Hh.zero]
  rw [hz]
  exact loopM_map _ (List.map h) _ _ (fun st ai => hom_mulInner Hh ai.1 ai.2 b st) _ _

theorem hom_stripRev (Hh : OpsHom O' O h) (p : List α') :
    stripRev O (p.map h) = (stripRev O' p).map h := by
  unfold stripRev
  rw [← List.map_reverse, List.dropWhile_map]
  have : O.isZero ∘ h = O'.isZero := funext Hh.isZero
  rw [this]

theorem hom_degreeOf (Hh : OpsHom O' O h) (p : List α') : degreeOf O (p.map h) = degreeOf O' p := by
  unfold degreeOf
  rw [hom_stripRev Hh]
  cases stripRev O' p <;> simp

theorem hom_removeLeadingZeros (Hh : OpsHom O' O h) (p : List α') :
    removeLeadingZeros O (p.map h) = (removeLeadingZeros O' p).map h := by
  simp [removeLeadingZeros, hom_stripRev Hh]


-- ------------------------------------------------------------------ div

/-- the state of the division loop, mapped -/
def DivSt.mapH (h : α' → α) (st : DivSt α') : DivSt α :=
  { a := st.a.map h, result := st.result.map h, apos := st.apos }

theorem hom_divStep (Hh : OpsHom O' O h) (b : List α') (bpos : Nat) (st : DivSt α') (i : Nat) :
    divStep O (b.map h) bpos (DivSt.mapH h st) i = (divStep O' b bpos st i).map (DivSt.mapH h) := by
  unfold divStep
  simp only [DivSt.mapH]
  rw [getAt_map]
  cases getAt st.a st.apos with
  | panic s => rfl
  | hang => rfl
  | ok top =>
    simp only [map_ok, bind_ok]
    rw [getAt_map]
    cases getAt b bpos with
    | panic s => rfl
    | hang => rfl
    | ok lead =>
      simp only [map_ok, bind_ok]
      rw [hom_div Hh]
      cases O'.div top lead with
      | panic s => rfl
      | hang => rfl
      | ok quot =>
        simp only [map_ok, bind_ok]
        rw [setAt_map]
        cases setAt st.result i quot with
        | panic s => rfl
        | hang => rfl
        | ok result =>
          simp only [map_ok, bind_ok]
          rw [← List.map_take, zipIdx_map', ← List.map_reverse]
          rw [loopM_map (fun p : α' × Nat => (h p.1, p.2)) (List.map h) _
            (fun a bj => updAt a (i + bj.2) fun v => O'.sub v (O'.mul bj.1 quot))
            (fun st bj => updAt_map h st _ _ _ (fun x => by simp [Hh.sub, Hh.mul]))]
          cases loopM _ st.a _ with
          | panic s => rfl
          | hang => rfl
          | ok a => rfl

theorem hom_headIsZero (Hh : OpsHom O' O h) (b : List α') : headIsZero O (b.map h) = headIsZero O' b := by
  cases b <;> simp [headIsZero, Hh.isZero]

theorem hom_poly_div (Hh : OpsHom O' O h) (a b : List α') :
    Model.Poly.div O (a.map h) (b.map h) = (Model.Poly.div O' a b).map (List.map h) := by
  unfold Model.Poly.div
  simp only [hom_degreeOf Hh, hom_headIsZero Hh, List.isEmpty_map]
  split
  · rfl
  · split
    · rfl
    · split
      · rfl
      · split
        · simp [Hh.zero]
        · have hinit : ∀ n k, (⟨a.map h, List.replicate n O.zero, k⟩ : DivSt α) =
              DivSt.mapH h ⟨a, List.replicate n O'.zero, k⟩ := by
            intro n k; simp [DivSt.mapH, Hh.zero]
          rw [hinit, loopM_map_id (DivSt.mapH h) _ _ (fun st i => hom_divStep Hh b _ st i)]
          cases loopM _ _ (divStep O' b (degreeOf O' b)) with
          | ok st => rfl
          | panic s => rfl
          | hang => rfl

-- ------------------------------------------------------------------ synthetic division

theorem hom_synLoop (Hh : OpsHom O' O h) (b : α') (l : List α') (c : α') :
    synLoop O (h b) (l.map h) (h c) = ((synLoop O' b l c).1.map h, h (synLoop O' b l c).2) := by
  induction l generalizing c with
  | nil => rfl
  | cons coeff rest ih =>
    simp only [List.map_cons, synLoop]
    rw [← Hh.mul, ← Hh.add, ih]

theorem hom_synDivLinear (Hh : OpsHom O' O h) (p : List α') (b : α') :
    synDivLinear O (p.map h) (h b) = ((synDivLinear O' p b).1.map h, h (synDivLinear O' p b).2) := by
  unfold synDivLinear
  rw [← List.map_reverse, ← Hh.zero, hom_synLoop Hh]
  simp

theorem hom_synGeneralLoop (Hh : OpsHom O' O h) (p : List α') (a : Nat) (b : α') :
    synGeneralLoop O (p.map h) a (h b) = (synGeneralLoop O' p a b).map (List.map h) := by
  unfold synGeneralLoop
  rw [List.length_map]
  refine loopM_map_id (List.map h) _ _ (fun st i => ?_) _ _
  rw [getAt_map]
  cases getAt st (i + a) with
  | panic s => rfl
  | hang => rfl
  | ok hi =>
    simp only [map_ok, bind_ok]
    refine updAt_map h st _ _ _ (fun x => ?_)
    rw [Hh.isOne]
    split <;> simp [Hh.add, Hh.mul]

theorem hom_synDiv (Hh : OpsHom O' O h) (p : List α') (a : Nat) (b : α') :
    synDiv O (p.map h) a (h b) = (synDiv O' p a b).map (List.map h) := by
  unfold synDiv
  simp only [Hh.isZero, List.length_map]
  split
  · rfl
  · split
    · rfl
    · split
      · rfl
      · split
        · simp [hom_synDivLinear Hh]
        · rw [hom_synGeneralLoop Hh]
          cases synGeneralLoop O' p a b with
          | ok p' => simp [Hh.zero]
          | panic s => rfl
          | hang => rfl

theorem hom_foldl_synDivLinear (Hh : OpsHom O' O h) (roots p : List α') :
    (roots.map h).foldl (fun p r => (synDivLinear O p r).1) (p.map h) =
      (roots.foldl (fun p r => (synDivLinear O' p r).1) p).map h := by
  induction roots generalizing p with
  | nil => rfl
  | cons r rs ih =>
    simp only [List.map_cons, List.foldl_cons]
    rw [hom_synDivLinear Hh]
    exact ih _

theorem hom_synDivRoots (Hh : OpsHom O' O h) (p roots : List α') :
    synDivRoots O (p.map h) (roots.map h) = (synDivRoots O' p roots).map (List.map h) := by
  unfold synDivRoots
  simp only [List.isEmpty_map, List.length_map]
  split
  · rfl
  · split
    · rfl
    · simp [hom_foldl_synDivLinear Hh]


-- ------------------------------------------------------------------ poly_from_roots

def RootSt.mapH (h : α' → α) (st : RootSt α') : RootSt α := ⟨st.result.map h, st.n⟩

theorem hom_fillStep (Hh : OpsHom O' O h) (m : Nat) (st : RootSt α') (x : α') :
    fillStep O m (RootSt.mapH h st) (h x) = (fillStep O' m st x).map (RootSt.mapH h) := by
  unfold fillStep
  simp only [RootSt.mapH]
  by_cases hn : st.n = 0
  · simp only [hn, if_true]; rfl
  · simp only [hn, if_false]
    rw [← Hh.zero, setAt_map]
    cases setAt st.result (st.n - 1) O'.zero with
    | panic s => rfl
    | hang => rfl
    | ok result =>
      simp only [map_ok, bind_ok]
      rw [loopM_map_id (List.map h) _
        (fun r j => (getAt r j).bind fun lo => (getAt r (j + 1)).bind fun hi =>
          setAt r j (O'.sub lo (O'.mul hi x)))
        (fun r j => by
          rw [getAt_map]
          cases getAt r j with
          | panic s => rfl
          | hang => rfl
          | ok lo =>
            simp only [map_ok, bind_ok]
            rw [getAt_map]
            cases getAt r (j + 1) with
            | panic s => rfl
            | hang => rfl
            | ok hi =>
              simp only [map_ok, bind_ok]
              rw [← Hh.mul, ← Hh.sub, setAt_map])]
      cases loopM _ result _ with
      | ok r => rfl
      | panic s => rfl
      | hang => rfl

theorem hom_fillZeroRoots (Hh : OpsHom O' O h) (xs init : List α') :
    fillZeroRoots O (xs.map h) (init.map h) = (fillZeroRoots O' xs init).map (List.map h) := by
  unfold fillZeroRoots
  simp only [List.length_map]
  by_cases hn : init.length = 0
  · simp only [hn, if_true]; rfl
  · simp only [hn, if_false]
    rw [← Hh.one, setAt_map]
    cases setAt init (init.length - 1) O'.one with
    | panic s => rfl
    | hang => rfl
    | ok result =>
      simp only [map_ok, bind_ok]
      have : (⟨result.map h, init.length - 1⟩ : RootSt α) = RootSt.mapH h ⟨result, init.length - 1⟩ := rfl
      rw [this, loopM_map h (RootSt.mapH h) _ _ (fun st x => hom_fillStep Hh xs.length st x)]
      cases loopM xs _ (fillStep O' xs.length) with
      | ok st => rfl
      | panic s => rfl
      | hang => rfl

theorem hom_polyFromRoots (Hh : OpsHom O' O h) (xs : List α') :
    polyFromRoots O (xs.map h) = (polyFromRoots O' xs).map (List.map h) := by
  unfold polyFromRoots
  have : List.replicate ((xs.map h).length + 1) O.zero = (List.replicate (xs.length + 1) O'.zero).map h := by
    simp [Hh.zero]
  rw [this, hom_fillZeroRoots Hh]

-- ------------------------------------------------------------------ utilities

theorem hom_fillPowerSeries (Hh : OpsHom O' O h) (b : α') (n : Nat) (s : α') :
    fillPowerSeries O (h b) n (h s) = (fillPowerSeries O' b n s).map h := by
  induction n generalizing s with
  | zero => rfl
  | succ n ih => simp only [fillPowerSeries, List.map_cons]; rw [← Hh.mul, ih]

theorem hom_getPowerSeries (Hh : OpsHom O' O h) (b : α') (n : Nat) :
    getPowerSeries O (h b) n = (getPowerSeries O' b n).map h := by
  unfold getPowerSeries
  rw [← Hh.pow0, hom_fillPowerSeries Hh]

theorem hom_getPowerSeriesWithOffset (Hh : OpsHom O' O h) (b s : α') (n : Nat) :
    getPowerSeriesWithOffset O (h b) (h s) n = (getPowerSeriesWithOffset O' b s n).map h := by
  unfold getPowerSeriesWithOffset
  rw [← Hh.pow0, ← Hh.mul, hom_fillPowerSeries Hh]

theorem hom_addInPlace (Hh : OpsHom O' O h) (a b : List α') :
    addInPlace O (a.map h) (b.map h) = (addInPlace O' a b).map (List.map h) := by
  unfold addInPlace
  simp only [List.length_map]
  split
  · rfl
  · simp [List.map_zipWith, List.zipWith_map, Hh.add]

theorem hom_binvForward (Hh : OpsHom O' O h) (vals : List α') (last : α') :
    binvForward O (vals.map h) (h last) =
      ((binvForward O' vals last).1.map h, h (binvForward O' vals last).2) := by
  induction vals generalizing last with
  | nil => rfl
  | cons x xs ih =>
    simp only [List.map_cons, binvForward, Hh.isZero]
    have : (if O'.isZero x = true then h last else O.mul (h last) (h x)) =
        h (if O'.isZero x = true then last else O'.mul last x) := by
      split <;> simp [Hh.mul]
    rw [this, ih]

theorem hom_binvBackward (Hh : OpsHom O' O h) (ps : List (α' × α')) (last : α') :
    binvBackward O (ps.map fun p => (h p.1, h p.2)) (h last) =
      ((binvBackward O' ps last).1.map h, h (binvBackward O' ps last).2) := by
  induction ps with
  | nil => rfl
  | cons p ps ih =>
    obtain ⟨x, pre⟩ := p
    simp only [List.map_cons, binvBackward, Hh.isZero]
    rw [ih]
    split <;> simp [Hh.zero, Hh.mul]

theorem hom_serialBatchInversion (Hh : OpsHom O' O h) (vals : List α') :
    serialBatchInversion O (vals.map h) = (serialBatchInversion O' vals).map (List.map h) := by
  unfold serialBatchInversion
  simp only
  rw [← Hh.one, hom_binvForward Hh]
  simp only
  rw [Hh.inv]
  cases O'.inv (binvForward O' vals O'.one).2 with
  | none => rfl
  | some li =>
    simp only [Option.map_some, map_ok]
    have : (vals.map h).zip ((binvForward O' vals O'.one).1.map h) =
        (vals.zip (binvForward O' vals O'.one).1).map fun p => (h p.1, h p.2) := by
      rw [List.zip_map]; rfl
    rw [this, hom_binvBackward Hh]

theorem hom_batchInversion (Hh : OpsHom O' O h) (vals : List α') :
    batchInversion O (vals.map h) = (batchInversion O' vals).map (List.map h) :=
  hom_serialBatchInversion Hh vals


-- ------------------------------------------------------------------ interpolate

theorem hom_accumulate (Hh : OpsHom O' O h) (num : List α') (ysl : α') (result : List α') :
    accumulate O (num.map h) (h ysl) (result.map h) = (accumulate O' num ysl result).map (List.map h) := by
  unfold accumulate
  rw [zipIdx_map']
  refine mapM'_map (fun p : α' × Nat => (h p.1, p.2)) h _ _ (fun rj => ?_) _
  rw [getAt_map]
  cases getAt num rj.2 with
  | ok c => simp [Hh.add, Hh.mul]
  | panic s => rfl
  | hang => rfl

theorem hom_interpolate (Hh : OpsHom O' O h) (xs ys : List α') (rlz : Bool) :
    interpolate O (xs.map h) (ys.map h) rlz = (interpolate O' xs ys rlz).map (List.map h) := by
  unfold interpolate
  simp only [List.length_map]
  by_cases hl : xs.length ≠ ys.length
  · rw [if_pos hl, if_pos hl]; rfl
  · rw [if_neg hl, if_neg hl]
    rw [hom_polyFromRoots Hh]
    refine bind_congr_map (fun roots => ?_)
    rw [mapM'_map h (List.map h) (fun x => synDivRoots O (roots.map h) [x])
      (fun x => synDivRoots O' roots [x]) (fun x => hom_synDivRoots Hh roots [x])]
    refine bind_congr_map (fun nums => ?_)
    have hden : ((nums.map (List.map h)).zip (xs.map h)).map (fun ex => eval O ex.1 ex.2) =
        ((nums.zip xs).map fun ex => eval O' ex.1 ex.2).map h := by
      rw [List.zip_map, List.map_map, List.map_map]
      apply List.map_congr_left
      intro ex _
      simp [hom_eval Hh]
    rw [hden, hom_batchInversion Hh]
    refine bind_congr_map (fun dinv => ?_)
    have hz : List.replicate xs.length O.zero = (List.replicate xs.length O'.zero).map h := by
      simp [Hh.zero]
    rw [hz, loopM_map_id (List.map h) _
      (fun result i => (getAt ys i).bind fun y => (getAt dinv i).bind fun d =>
        (getAt nums i).bind fun num => accumulate O' num (O'.mul y d) result)
      (fun result i => by
        rw [getAt_map]
        cases getAt ys i with
        | panic s => rfl
        | hang => rfl
        | ok y =>
          simp only [map_ok, bind_ok]
          rw [getAt_map]
          cases getAt dinv i with
          | panic s => rfl
          | hang => rfl
          | ok d =>
            simp only [map_ok, bind_ok]
            rw [getAt_map (List.map h)]
            cases getAt nums i with
            | panic s => rfl
            | hang => rfl
            | ok num =>
              simp only [map_ok, bind_ok]
              rw [← Hh.mul, hom_accumulate Hh])]
    refine bind_congr_map (fun result => ?_)
    cases rlz <;> simp [hom_removeLeadingZeros Hh]


-- ------------------------------------------------------------------ mul_acc, interpolate_batch

theorem hom_mulAcc (Hh : OpsHom O' O h) {β β' : Type} (g : β' → β) (mb : α → β → α) (mb' : α' → β' → α')
    (hmb : ∀ c y, mb (h c) (g y) = h (mb' c y)) (a : List α') (b : List β') (c : α') :
    mulAcc O mb (a.map h) (b.map g) (h c) = (mulAcc O' mb' a b c).map (List.map h) := by
  unfold mulAcc
  simp only [List.length_map]
  split
  · rfl
  · simp [List.map_zipWith, List.zipWith_map, Hh.add, hmb]

theorem hom_batchEqStep (Hh : OpsHom O' O h) (roots : List α') (x : α') (eq : List α') (k : Nat) :
    batchEqStep O (roots.map h) (h x) (eq.map h) k = (batchEqStep O' roots x eq k).map (List.map h) := by
  unfold batchEqStep
  rw [getAt_map]
  cases getAt roots (k + 1) with
  | panic s => rfl
  | hang => rfl
  | ok r =>
    simp only [map_ok, bind_ok]
    cases eq with
    | nil => rfl
    | cons e rest => simp [Hh.add, Hh.mul]

theorem hom_batchEquation (Hh : OpsHom O' O h) (N : Nat) (roots : List α') (x : α') :
    batchEquation O N (roots.map h) (h x) = (batchEquation O' N roots x).map (List.map h) := by
  unfold batchEquation
  by_cases hN : N = 0
  · rw [if_pos hN, if_pos hN]; rfl
  · rw [if_neg hN, if_neg hN, getAt_map]
    cases getAt roots N with
    | panic s => rfl
    | hang => rfl
    | ok top =>
      simp only [map_ok, bind_ok]
      have : [h top] = [top].map h := rfl
      rw [this]
      exact loopM_map_id (List.map h) _ _ (fun eq k => hom_batchEqStep Hh roots x eq k) _ _

def BatchSt.mapH (h : α' → α) (st : BatchSt α') : BatchSt α :=
  ⟨st.roots.map h, st.equations.map (List.map h), st.inverses.map h⟩

theorem hom_batchStep (Hh : OpsHom O' O h) (N : Nat) (st : BatchSt α') (xs : List α') :
    batchStep O N (BatchSt.mapH h st) (xs.map h) = (batchStep O' N st xs).map (BatchSt.mapH h) := by
  unfold batchStep
  simp only [BatchSt.mapH]
  rw [hom_fillZeroRoots Hh]
  cases fillZeroRoots O' xs st.roots with
  | panic s => rfl
  | hang => rfl
  | ok roots =>
    simp only [map_ok, bind_ok]
    rw [mapM'_map h (List.map h) (fun x => batchEquation O N (roots.map h) x)
      (fun x => batchEquation O' N roots x) (fun x => hom_batchEquation Hh N roots x)]
    cases mapM' (fun x => batchEquation O' N roots x) xs with
    | panic s => rfl
    | hang => rfl
    | ok eqs =>
      simp only [map_ok, bind_ok, BatchSt.mapH, List.map_append, Res.ok.injEq, BatchSt.mk.injEq, true_and,
        List.append_cancel_left_eq]
      rw [List.zip_map, List.map_map, List.map_map]
      apply List.map_congr_left
      intro ex _
      simp [hom_eval Hh]

theorem hom_batchCombine (Hh : OpsHom O' O h) (N : Nat) (equations : List (List α')) (inverses : List α')
    (i : Nat) (ys : List α') :
    batchCombine O N (equations.map (List.map h)) (inverses.map h) i (ys.map h) =
      (batchCombine O' N equations inverses i ys).map (List.map h) := by
  unfold batchCombine
  have hz : List.replicate N O.zero = (List.replicate N O'.zero).map h := by simp [Hh.zero]
  rw [hz]
  refine loopM_map_id (List.map h) _ _ (fun poly j => ?_) _ _
  rw [getAt_map]
  cases getAt ys j with
  | panic s => rfl
  | hang => rfl
  | ok y =>
    simp only [map_ok, bind_ok]
    rw [getAt_map]
    cases getAt inverses (i * N + j) with
    | panic s => rfl
    | hang => rfl
    | ok d =>
      simp only [map_ok, bind_ok]
      rw [getAt_map (List.map h)]
      cases getAt equations (i * N + j) with
      | panic s => rfl
      | hang => rfl
      | ok eq =>
        simp [List.map_zipWith, List.zipWith_map, Hh.add, Hh.mul]

theorem hom_interpolateBatch (Hh : OpsHom O' O h) (N : Nat) (xss yss : List (List α')) :
    interpolateBatch O N (xss.map (List.map h)) (yss.map (List.map h)) =
      (interpolateBatch O' N xss yss).map (List.map (List.map h)) := by
  unfold interpolateBatch
  simp only [List.length_map]
  by_cases hl : xss.length ≠ yss.length
  · rw [if_pos hl, if_pos hl]; rfl
  · rw [if_neg hl, if_neg hl]
    by_cases hN : N = 0
    · rw [if_pos hN, if_pos hN]; simp
    · rw [if_neg hN, if_neg hN]
      have hinit : (⟨List.replicate (N + 1) O.zero, [], []⟩ : BatchSt α) =
          BatchSt.mapH h ⟨List.replicate (N + 1) O'.zero, [], []⟩ := by simp [BatchSt.mapH, Hh.zero]
      rw [hinit, loopM_map (List.map h) (BatchSt.mapH h) _ _ (fun st xs => hom_batchStep Hh N st xs)]
      refine bind_congr_map (fun st => ?_)
      simp only [BatchSt.mapH]
      rw [hom_batchInversion Hh]
      refine bind_congr_map (fun inverses => ?_)
      rw [zipIdx_map']
      exact mapM'_map (fun p : List α' × Nat => (p.1.map h, p.2)) (List.map h) _ _
        (fun iy => hom_batchCombine Hh N st.equations inverses iy.2 iy.1) _

end

end WinterProofs.C20
