-- tie T for C20, continued: the two wrapper functions of math/src/polynom/mod.rs as regenerated on this run reduce
-- to their regenerated cores exactly as the model's do: `syn_div` is `syn_div_in_place` on a copy of the dividend
-- (the model has ONE function `synDiv` for both), `poly_from_roots` is `fill_zero_roots` on a fresh vector of
-- `xs.len() + 1` cells (the model's `polyFromRoots` is `fillZeroRoots` on that vector).  The cores themselves
-- (`syn_div_in_place`, `fill_zero_roots`) are still tied to the model by evaluation only; these lemmas make the
-- wrappers add nothing to that gap.  For every operations record and all inputs.
import WinterProofs.Lemmas.C20Gen

namespace C20G
open Model.Poly

/-- ★ `syn_div(p, a, b)` = `syn_div_in_place` on `p.to_vec()`: same value, same no-panic condition -/
theorem gen_syn_div_wrapper {F : Type} (X : Gen.FOpsX F) (p : List F) (a : Nat) (b : F) :
    Gen.Polynom.syn_div X p a b = Gen.Polynom.syn_div_in_place X p a b ∧
    Gen.Polynom.syn_div_ok X p a b = Gen.Polynom.syn_div_in_place_ok X p a b := by
  constructor
  · rfl
  · show decide (Gen.Polynom.syn_div_in_place_ok X p a b = true) = _
    cases Gen.Polynom.syn_div_in_place_ok X p a b <;> rfl

/-- ★ `poly_from_roots(xs)` = `fill_zero_roots(xs, result)` on a fresh vector of `xs.len() + 1` cells; the only
    additional way to fail is `xs.len() + 1` overflowing a `usize` -/
theorem gen_poly_from_roots_wrapper {F : Type} (X : Gen.FOpsX F) (xs : List F) :
    Gen.Polynom.poly_from_roots X xs =
      Gen.Polynom.fill_zero_roots X xs (List.replicate (xs.length + 1) (X.ofNat 0)) ∧
    Gen.Polynom.poly_from_roots_ok X xs =
      (decide (xs.length + 1 < 18446744073709551616) &&
        Gen.Polynom.fill_zero_roots_ok X xs (List.replicate (xs.length + 1) (X.ofNat 0))) := by
  constructor
  · rfl
  · show (decide (xs.length + 1 < 18446744073709551616) &&
      decide (Gen.Polynom.fill_zero_roots_ok X xs (List.replicate (xs.length + 1) (X.ofNat 0)) = true)) = _
    cases Gen.Polynom.fill_zero_roots_ok X xs (List.replicate (xs.length + 1) (X.ofNat 0)) <;> rfl

/-- the same reduction on the model side, for reference next to `gen_poly_from_roots_wrapper` (by definition) -/
theorem model_poly_from_roots_wrapper {α : Type} (O : Ops α) (xs : List α) :
    polyFromRoots O xs = fillZeroRoots O xs (List.replicate (xs.length + 1) (O.toX.ofNat 0)) := rfl

end C20G
