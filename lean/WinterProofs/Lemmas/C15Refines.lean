-- C15/C05: property C07 in the form the FRI model consumes (`FRefines (baseOps I) …` for the three base fields) and
-- the roots-of-unity hypothesis `StepOK` of the FRI theorems discharged from it
import WinterProofs.Lemmas.C15HomDefs
import WinterProofs.Lemmas.C15Fold
import WinterProofs.C16Inst
import Winter.Model.FriFields

set_option linter.unusedSectionVars false

namespace WinterProofs.C15H
open Model.Fri WinterProofs.C16L

/-- C07 in C16's form plus inversion, equality and the generator give the FRI form -/
theorem frefines_of (I : Model.FieldImpl) {p : ℕ} [Fact p.Prime] {ok : ℕ → Prop} {val : ℕ → ZMod p} {T : ℕ}
    (H : Refines (Model.Divisor.rawOps I) p ok val T) (hT : I.twoAdicity = T)
    (hinv : ∀ a, ok a → ∃ r, I.inv a = .done r ∧ ok r ∧ val r = (val a)⁻¹)
    (heq : ∀ a b, ok a → ok b → (I.eq a b = true ↔ val a = val b))
    (hoff : ok (I.new I.generator) ∧ val (I.new I.generator) ≠ 0) :
    FRefines (baseOps I) p ok val T where
  zero := H.zero
  one := H.one
  add := H.add
  sub := H.sub
  mul := H.mul
  inv a ha := by
    obtain ⟨r, hr, h1, h2⟩ := hinv a ha
    show ok (match I.inv a with | .done r => r | .out => I.new 0) ∧
      val (match I.inv a with | .done r => r | .out => I.new 0) = _
    rw [hr]; exact ⟨h1, h2⟩
  beq := heq
  ofNat := H.ofNat
  rootOk k := by
    show (k != 0 && decide (k ≤ I.twoAdicity)) = true ↔ _
    rw [hT]
    simp only [Bool.and_eq_true, bne_iff_ne, ne_eq, decide_eq_true_eq]
    omega
  root k h1 h2 := by
    obtain ⟨r, hr, hok, hord⟩ := H.root_some k h1 h2
    have hr' : I.rootOfUnity k = some r := hr
    show ok (match I.rootOfUnity k with | some r => r | none => I.new 0) ∧
      orderOf (val (match I.rootOfUnity k with | some r => r | none => I.new 0)) = _
    rw [hr']; exact ⟨hok, hord⟩
  root_coh k m h1 h2 h3 := by
    obtain ⟨r, hr, _, _⟩ := H.root_some k (by omega) h3
    obtain ⟨s, hs, _, _⟩ := H.root_some m h1 (by omega)
    have hr' : I.rootOfUnity k = some r := hr
    have hs' : I.rootOfUnity m = some s := hs
    show val (match I.rootOfUnity m with | some r => r | none => I.new 0) =
      val (match I.rootOfUnity k with | some r => r | none => I.new 0) ^ _
    rw [hr', hs']
    exact H.root_coh k m r s hr hs h2
  offset := hoff

theorem ne_zero_of_order {p : ℕ} [Fact p.Prime] (x : ZMod p) (h : orderOf x = p - 1) : x ≠ 0 := by
  intro h0
  rw [h0] at h
  have hp := (Fact.out : p.Prime).two_le
  have : orderOf (0 : ZMod p) = 0 := by
    rw [orderOf_eq_zero_iff']
    intro n hn
    simp [zero_pow (by omega : n ≠ 0)]
  omega

/-- property C07 for the 64-bit field in the form the FRI model consumes -/
theorem f64_frefines : FRefines (baseOps Model.F64.impl) F64Z.P F64Z.Inv F64Z.val 32 :=
  frefines_of Model.F64.impl C16.f64_refines rfl
    (fun a ha => ⟨Model.F64.inv a, rfl, (C07.F64.inv_correct a ha).1, (C07.F64.inv_correct a ha).2⟩)
    (fun a b ha hb => C07.F64.eq_correct a b ha hb)
    (by
      have h := C07.F64.new_correct Gen.F64.GENERATOR (by decide)
      exact ⟨h.1, by
        show F64Z.val (Gen.F64.new Gen.F64.GENERATOR) ≠ 0
        rw [h.2]; exact ne_zero_of_order _ C07.F64.generator_order⟩)

theorem f62_frefines : FRefines (baseOps Model.F62.impl) F62Z.P F62Z.Inv F62Z.val 39 :=
  frefines_of Model.F62.impl C16.f62_refines rfl
    (fun a ha => C07.F62.inv_correct a ha)
    (fun a b ha hb => (C07.F62.eq_correct a b ha hb).1)
    (by
      have h := C07.F62.new_correct Gen.F62.GENERATOR (by decide)
      exact ⟨h.1, by
        show F62Z.val (Gen.F62.new Gen.F62.GENERATOR) ≠ 0
        rw [h.2.1]; exact ne_zero_of_order _ C07.F62.generator_order⟩)

theorem f128_frefines : FRefines (baseOps Model.F128.impl) F128Z.P F128Z.Inv F128Z.val 40 :=
  frefines_of Model.F128.impl C16.f128_refines rfl
    (fun a ha => C07.F128.inv_correct a ha)
    (fun a b ha hb => C07.F128.eq_correct a b ha hb)
    (by
      have h := C07.F128.new_correct Gen.F128.GENERATOR (by decide)
      exact ⟨h.1, by
        show F128Z.val (Gen.F128.new Gen.F128.GENERATOR) ≠ 0
        rw [h.2.1]; exact ne_zero_of_order _ C07.F128.generator_order⟩)

/-! ## the roots-of-unity hypothesis of the FRI theorems -/

variable {O : FOps ℕ} {p : ℕ} [Fact p.Prime] {ok : ℕ → Prop} {val : ℕ → ZMod p} {T : ℕ}

/-- **`StepOK` discharged**: for a folding factor `N = 2^a` and a domain `n = 2^k` with `1 ≤ a`, `a < k ≤ T` the
    roots of unity the code asks for exist, `get_root_of_unity(k)` is a primitive `2^k`-th root, the `N`-th root is
    its `n/N`-th power and the generator of the folded domain its `N`-th power -/
theorem stepOK_of_refines (H : FRefines O p ok val T) {a k : ℕ} (ha : 1 ≤ a) (hak : a < k) (hk : k ≤ T) :
    C15.StepOK (fun j => val (O.root j)) O.rootOk (2 ^ a) (2 ^ k) := by
  have hlk : Nat.log2 (2 ^ k) = k := Nat.log2_two_pow
  have hla : Nat.log2 (2 ^ a) = a := Nat.log2_two_pow
  have hdiv : 2 ^ k / 2 ^ a = 2 ^ (k - a) := Nat.pow_div (by omega) (by decide)
  refine ⟨?_, ?_, ?_, ?_, ?_⟩
  · rw [hlk]; exact (H.rootOk k).mpr ⟨by omega, hk⟩
  · rw [hla]; exact (H.rootOk a).mpr ⟨ha, by omega⟩
  · rw [hlk]
    have := (H.root k (by omega) hk).2
    exact this ▸ IsPrimitiveRoot.orderOf _
  · rw [hla, hlk, hdiv]
    exact H.root_coh k a ha (by omega) hk
  · rw [hdiv, Nat.log2_two_pow, hlk]
    have := H.root_coh k (k - a) (by omega) (by omega) hk
    rw [this]
    congr 2
    omega

/-- the last domain: root present and primitive -/
theorem lastOK_of_refines (H : FRefines O p ok val T) {k : ℕ} (h1 : 1 ≤ k) (hk : k ≤ T) :
    O.rootOk (Nat.log2 (2 ^ k)) = true ∧ IsPrimitiveRoot (val (O.root (Nat.log2 (2 ^ k)))) (2 ^ k) := by
  rw [Nat.log2_two_pow]
  exact ⟨(H.rootOk k).mpr ⟨h1, hk⟩, (H.root k h1 hk).2 ▸ IsPrimitiveRoot.orderOf _⟩

end WinterProofs.C15H
