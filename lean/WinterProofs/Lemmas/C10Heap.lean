-- C10 helper lemmas: the heap built by `build_merkle_nodes`, single paths
import Winter.Model.Merkle

namespace WinterProofs.C10
open Model.Merkle

variable {D : Type}

/-- `merge` is collision free (the cryptographic idealisation under which "only for them" holds) -/
def MergeInj (H : Hasher D) : Prop :=
  ∀ a b c d, H.merge a b = H.merge c d → a = c ∧ b = d

theorem xor1_even {k : Nat} (h : k % 2 = 0) : xor1 k = k + 1 := by simp [xor1, h]
theorem xor1_odd {k : Nat} (h : k % 2 = 1) : xor1 k = k - 1 := by simp [xor1, h]
theorem xor1_div (k : Nat) : xor1 k / 2 = k / 2 := by
  unfold xor1; split <;> omega
theorem xor1_xor1 (k : Nat) : xor1 (xor1 k) = k := by
  unfold xor1; split <;> split <;> omega

-- ---------------------------------------------------------------------------------------------
-- pairUp / heapRows

theorem pairUp_length (H : Hasher D) : ∀ (row : List D), (pairUp H row).length = row.length / 2
  | [] => by simp [pairUp]
  | [_] => by simp [pairUp]
  | a :: b :: rest => by
    simp only [pairUp, List.length_cons, pairUp_length H rest]; omega

theorem pairUp_get (H : Hasher D) : ∀ (row : List D) (k : Nat) (a b : D),
    row[2 * k]? = some a → row[2 * k + 1]? = some b → (pairUp H row)[k]? = some (H.merge a b)
  | [], k, a, b, h, _ => by simp at h
  | [_], k, a, b, _, h => by simp at h
  | x :: y :: rest, 0, a, b, h0, h1 => by
    simp at h0 h1; subst h0; subst h1; simp [pairUp]
  | x :: y :: rest, k + 1, a, b, h0, h1 => by
    have e0 : 2 * (k + 1) = (2 * k + 1) + 1 := by omega
    have e1 : 2 * (k + 1) + 1 = (2 * k + 1 + 1) + 1 := by omega
    rw [e0, List.getElem?_cons_succ, List.getElem?_cons_succ] at h0
    rw [e1, List.getElem?_cons_succ, List.getElem?_cons_succ] at h1
    simp only [pairUp, List.getElem?_cons_succ]
    exact pairUp_get H rest k a b h0 h1

/-- a heap: `hp[0]` unused, children of `j` at `2j`, `2j+1` -/
def HeapWF (H : Hasher D) (hp : List D) (m : Nat) : Prop :=
  ∀ j, 1 ≤ j → j < m → ∃ a b, hp[2 * j]? = some a ∧ hp[2 * j + 1]? = some b ∧ hp[j]? = some (H.merge a b)

theorem heapRows_spec (H : Hasher D) : ∀ (f : Nat) (row : List D), row.length = 2 ^ f →
    (H.dflt :: heapRows H f row).length = 2 ^ (f + 1) ∧
    (∀ k, k < 2 ^ f → (H.dflt :: heapRows H f row)[2 ^ f + k]? = row[k]?) ∧
    HeapWF H (H.dflt :: heapRows H f row) (2 ^ f)
  | 0, row, hl => by
    refine ⟨by simp [heapRows, hl], ?_, ?_⟩
    · intro k hk
      have : k = 0 := by omega
      subst this; simp [heapRows]
    · intro j h1 h2; simp at h2; omega
  | f + 1, row, hl => by
    have hp2 : (2:Nat) ^ (f + 1) = 2 * 2 ^ f := by rw [Nat.pow_succ]; omega
    have hp3 : (2:Nat) ^ (f + 1 + 1) = 2 * 2 ^ (f + 1) := by rw [Nat.pow_succ]; omega
    have hpos : 0 < 2 ^ f := Nat.two_pow_pos _
    have hl' : (pairUp H row).length = 2 ^ f := by rw [pairUp_length, hl, hp2]; omega
    obtain ⟨ih1, ih2, ih3⟩ := heapRows_spec H f (pairUp H row) hl'
    have hsplit : H.dflt :: heapRows H (f + 1) row = (H.dflt :: heapRows H f (pairUp H row)) ++ row := by
      simp [heapRows]
    rw [hsplit]
    refine ⟨by rw [List.length_append, ih1, hl]; omega, ?_, ?_⟩
    · intro k hk
      rw [List.getElem?_append_right (by rw [ih1]; omega), ih1]
      congr 1; omega
    · intro j h1 h2
      by_cases hj : j < 2 ^ f
      · obtain ⟨a, b, ha, hb, hm⟩ := ih3 j h1 hj
        refine ⟨a, b, ?_, ?_, ?_⟩
        · rw [List.getElem?_append_left (by rw [ih1]; omega)]; exact ha
        · rw [List.getElem?_append_left (by rw [ih1]; omega)]; exact hb
        · rw [List.getElem?_append_left (by rw [ih1]; omega)]; exact hm
      · have hk : j - 2 ^ f < 2 ^ f := by omega
        have hrow0 : 2 * (j - 2 ^ f) < row.length := by rw [hl]; omega
        have hrow1 : 2 * (j - 2 ^ f) + 1 < row.length := by rw [hl]; omega
        refine ⟨row[2 * (j - 2 ^ f)], row[2 * (j - 2 ^ f) + 1], ?_, ?_, ?_⟩
        · rw [List.getElem?_append_right (by rw [ih1]; omega), ih1,
            show 2 * j - 2 ^ (f + 1) = 2 * (j - 2 ^ f) by omega]
          exact List.getElem?_eq_getElem hrow0
        · rw [List.getElem?_append_right (by rw [ih1]; omega), ih1,
            show 2 * j + 1 - 2 ^ (f + 1) = 2 * (j - 2 ^ f) + 1 by omega]
          exact List.getElem?_eq_getElem hrow1
        · rw [List.getElem?_append_left (by rw [ih1]; omega)]
          have := ih2 (j - 2 ^ f) hk
          rw [show 2 ^ f + (j - 2 ^ f) = j by omega] at this
          rw [this]
          exact pairUp_get H row _ _ _ (List.getElem?_eq_getElem hrow0) (List.getElem?_eq_getElem hrow1)

/-- the valuation of heap positions `1 .. 2n-1` of a tree: internal nodes, then leaves -/
def hval (t : Tree D) (j : Nat) : Option D :=
  if j < t.nodes.length then t.nodes[j]? else t.leaves[j - t.nodes.length]?

/-- what `MerkleTree::new` establishes for `2^d` leaves -/
structure TreeWF (H : Hasher D) (t : Tree D) (d : Nat) : Prop where
  hd : 1 ≤ d
  nlen : t.nodes.length = 2 ^ d
  llen : t.leaves.length = 2 ^ d
  wf : ∀ j, 1 ≤ j → j < 2 ^ d → ∃ a b, hval t (2 * j) = some a ∧ hval t (2 * j + 1) = some b ∧
        t.nodes[j]? = some (H.merge a b)

theorem isPow2_two_pow (d : Nat) : isPow2 (2 ^ d) = true := by
  have : 2 ^ d ≠ 0 := Nat.ne_of_gt (Nat.two_pow_pos _)
  simp [isPow2, Nat.log2_two_pow, this]

theorem tree_new_ok (H : Hasher D) (leaves : List D) (d : Nat) (hd : 1 ≤ d) (hl : leaves.length = 2 ^ d) :
    Tree.new H leaves = .ok { nodes := buildNodes H leaves, leaves := leaves } := by
  have h2 : 2 ≤ 2 ^ d := by
    calc 2 = 2 ^ 1 := by decide
      _ ≤ 2 ^ d := Nat.pow_le_pow_right (by omega) hd
  unfold Tree.new
  rw [if_neg (by omega), hl, isPow2_two_pow]; simp

theorem tree_wf (H : Hasher D) (leaves : List D) (d : Nat) (hd : 1 ≤ d) (hl : leaves.length = 2 ^ d) :
    TreeWF H { nodes := buildNodes H leaves, leaves := leaves } d := by
  obtain ⟨e, rfl⟩ : ∃ e, d = e + 1 := ⟨d - 1, by omega⟩
  have hp2 : (2:Nat) ^ (e + 1) = 2 * 2 ^ e := by rw [Nat.pow_succ]; omega
  have hpos : 0 < 2 ^ e := Nat.two_pow_pos _
  have hl' : (pairUp H leaves).length = 2 ^ e := by rw [pairUp_length, hl, hp2]; omega
  obtain ⟨h1, h2, h3⟩ := heapRows_spec H e (pairUp H leaves) hl'
  have hb : buildNodes H leaves = H.dflt :: heapRows H e (pairUp H leaves) := by
    simp [buildNodes, hl, Nat.log2_two_pow]
  refine ⟨hd, by simp only [hb, h1], hl, ?_⟩
  intro j hj1 hj2
  simp only [hval, hb, h1]
  by_cases hj : j < 2 ^ e
  · obtain ⟨a, b, ha, hb', hm⟩ := h3 j hj1 hj
    refine ⟨a, b, ?_, ?_, hm⟩
    · rw [if_pos (by omega)]; exact ha
    · rw [if_pos (by omega)]; exact hb'
  · have hk : j - 2 ^ e < 2 ^ e := by omega
    have hrow0 : 2 * (j - 2 ^ e) < leaves.length := by rw [hl]; omega
    have hrow1 : 2 * (j - 2 ^ e) + 1 < leaves.length := by rw [hl]; omega
    refine ⟨leaves[2 * (j - 2 ^ e)], leaves[2 * (j - 2 ^ e) + 1], ?_, ?_, ?_⟩
    · rw [if_neg (by omega), show 2 * j - 2 ^ (e + 1) = 2 * (j - 2 ^ e) by omega]
      exact List.getElem?_eq_getElem hrow0
    · rw [if_neg (by omega), show 2 * j + 1 - 2 ^ (e + 1) = 2 * (j - 2 ^ e) + 1 by omega]
      exact List.getElem?_eq_getElem hrow1
    · have := h2 (j - 2 ^ e) hk
      rw [show 2 ^ e + (j - 2 ^ e) = j by omega] at this
      rw [this]
      exact pairUp_get H leaves _ _ _ (List.getElem?_eq_getElem hrow0) (List.getElem?_eq_getElem hrow1)

end WinterProofs.C10
