-- C16, pure arithmetic: powers of two, arithmetic progressions with power-of-two strides, and the
-- overlap test of `Assertion::overlaps_with` on (first step, stride) pairs.
import Winter.Model.Divisor

namespace WinterProofs.C16L
open Model.Divisor

theorem isPow2_iff (n : Nat) : isPow2 n = true ↔ ∃ k, n = 2 ^ k := by
  unfold isPow2
  constructor
  · intro h
    simp only [Bool.and_eq_true, bne_iff_ne, ne_eq, beq_iff_eq] at h
    exact ⟨_, h.2.symm⟩
  · rintro ⟨k, rfl⟩
    simp only [Bool.and_eq_true, bne_iff_ne, ne_eq, beq_iff_eq, Nat.log2_two_pow, and_true]
    exact Nat.ne_of_gt (Nat.two_pow_pos k)

theorem isPow2_false_iff (n : Nat) : isPow2 n = false ↔ ¬ ∃ k, n = 2 ^ k := by
  rw [← isPow2_iff]; simp

/-- powers of two are totally ordered by divisibility -/
theorem pow2_dvd_of_le {a b : Nat} (ha : ∃ k, a = 2 ^ k) (hb : ∃ k, b = 2 ^ k) (h : a ≤ b) : a ∣ b := by
  obtain ⟨j, rfl⟩ := ha
  obtain ⟨k, rfl⟩ := hb
  exact Nat.pow_dvd_pow 2 ((Nat.pow_le_pow_iff_right (by decide)).mp h)

-- ------------------------------------------------------------------ step sets
/-- the part of an assertion that determines its step set: `stride = 0` is a single step -/
structure Shape where
  first : Nat
  stride : Nat

/-- `s` is one of the steps named by the shape in a trace of length `n` -/
def Shape.has (p : Shape) (n s : Nat) : Prop :=
  if p.stride = 0 then s = p.first else s < n ∧ s % p.stride = p.first

/-- the shape is well-formed and fits a trace of length `n` (what the constructors and
    `validate_trace_length` enforce) -/
def Shape.fits (p : Shape) (n : Nat) : Prop :=
  if p.stride = 0 then p.first < n
  else (∃ k, p.stride = 2 ^ k) ∧ p.first < p.stride ∧ p.stride ≤ n

/-- `overlaps_with` after the column test, branch for branch -/
def Shape.ovl (a b : Shape) : Bool :=
  if a.first == b.first then true
  else if a.stride == b.stride then false
  else if a.first < b.first then
    if a.stride == 0 then false
    else if b.stride == 0 || a.stride < b.stride then (b.first - a.first) % a.stride == 0
    else false
  else
    if b.stride == 0 then false
    else if a.stride == 0 || b.stride < a.stride then (a.first - b.first) % b.stride == 0
    else false

theorem sub_mod_eq_zero_iff {a b st : Nat} (hlt : a < st) (hab : a ≤ b) :
    (b - a) % st = 0 ↔ b % st = a := by
  constructor
  · intro h
    have hb : b = (b - a) + a := by omega
    rw [hb, Nat.add_mod, h, Nat.zero_add, Nat.mod_mod, Nat.mod_eq_of_lt hlt]
  · intro h
    have h1 : b = st * (b / st) + a := by
      have := Nat.div_add_mod b st
      omega
    have h2 : b - a = st * (b / st) := by omega
    rw [h2, Nat.mul_mod_right]

theorem Shape.first_has {p : Shape} {n : Nat} (h : p.fits n) : p.has n p.first := by
  unfold Shape.has; unfold Shape.fits at h
  split
  · rfl
  · rename_i hs
    rw [if_neg hs] at h
    exact ⟨by omega, Nat.mod_eq_of_lt h.2.1⟩

/-- the asymmetric half of the overlap test: `a.first < b.first` -/
theorem ovl_lt {a b : Shape} {n : Nat} (ha : a.fits n) (hb : b.fits n) (hlt : a.first < b.first)
    (hst : a.stride ≠ b.stride) :
    ((if a.stride == 0 then false
      else if b.stride == 0 || a.stride < b.stride then (b.first - a.first) % a.stride == 0
      else false) = true) ↔ ∃ s, a.has n s ∧ b.has n s := by
  unfold Shape.has
  unfold Shape.fits at ha hb
  by_cases ha0 : a.stride = 0
  · -- a is a single step before b's first step
    simp only [ha0, beq_self_eq_true, if_true, Bool.false_eq_true, false_iff, not_exists, not_and]
    intro s hs
    subst hs
    by_cases hb0 : b.stride = 0
    · simp only [hb0, if_true]; omega
    · simp only [hb0, if_false]
      rw [if_neg hb0] at hb
      intro h
      rw [Nat.mod_eq_of_lt (by omega)] at h
      omega
  · rw [if_neg ha0] at ha
    obtain ⟨hpa, hfa, hna⟩ := ha
    have ha0' : (a.stride == 0) = false := by simp [ha0]
    simp only [ha0', if_neg ha0, Bool.false_eq_true, if_false]
    by_cases hb0 : b.stride = 0
    · -- b is a single step: is it on a's progression?
      rw [if_pos hb0] at hb
      simp only [hb0, beq_self_eq_true, Bool.true_or, if_true, beq_iff_eq]
      rw [sub_mod_eq_zero_iff hfa (Nat.le_of_lt hlt)]
      constructor
      · intro h; exact ⟨b.first, ⟨hb, h⟩, rfl⟩
      · rintro ⟨s, ⟨_, h⟩, rfl⟩; exact h
    · rw [if_neg hb0] at hb
      obtain ⟨hpb, hfb, hnb⟩ := hb
      have hb0' : (b.stride == 0) = false := by simp [hb0]
      simp only [hb0', if_neg hb0, Bool.false_or]
      by_cases hlt2 : a.stride < b.stride
      · have hdvd : a.stride ∣ b.stride := pow2_dvd_of_le hpa hpb (Nat.le_of_lt hlt2)
        simp only [hlt2, decide_true, if_true, beq_iff_eq]
        rw [sub_mod_eq_zero_iff hfa (Nat.le_of_lt hlt)]
        constructor
        · intro h
          exact ⟨b.first, ⟨by omega, h⟩, by omega, Nat.mod_eq_of_lt hfb⟩
        · rintro ⟨s, ⟨_, h1⟩, _, h2⟩
          rw [← h2, Nat.mod_mod_of_dvd _ hdvd]; exact h1
      · have hgt : b.stride < a.stride := by omega
        have hdvd : b.stride ∣ a.stride := pow2_dvd_of_le hpb hpa (Nat.le_of_lt hgt)
        simp only [hlt2, decide_false, Bool.false_eq_true, if_false, false_iff]
        rintro ⟨s, ⟨_, h1⟩, ⟨_, h2⟩⟩
        have : s % b.stride = a.first := by
          rw [← Nat.mod_mod_of_dvd s hdvd, h1, Nat.mod_eq_of_lt (by omega)]
        omega

/-- **overlap test = common step**, for shapes that fit the same trace length -/
theorem ovl_iff {a b : Shape} {n : Nat} (ha : a.fits n) (hb : b.fits n) :
    a.ovl b = true ↔ ∃ s, a.has n s ∧ b.has n s := by
  unfold Shape.ovl
  by_cases hf : a.first = b.first
  · simp only [hf, beq_self_eq_true, if_true, true_iff]
    exact ⟨b.first, hf ▸ Shape.first_has ha, Shape.first_has hb⟩
  · have hf' : (a.first == b.first) = false := by simp [hf]
    simp only [hf', Bool.false_eq_true, if_false]
    by_cases hs : a.stride = b.stride
    · simp only [hs, beq_self_eq_true, if_true, Bool.false_eq_true, false_iff, not_exists, not_and]
      intro s h1 h2
      unfold Shape.has at h1 h2
      rw [hs] at h1
      by_cases hb0 : b.stride = 0
      · rw [if_pos hb0] at h1 h2; omega
      · rw [if_neg hb0] at h1 h2; omega
    · have hs' : (a.stride == b.stride) = false := by simp [hs]
      simp only [hs', Bool.false_eq_true, if_false]
      by_cases hlt : a.first < b.first
      · simp only [hlt, if_true]
        exact ovl_lt ha hb hlt hs
      · simp only [hlt, if_false]
        have hlt' : b.first < a.first := by omega
        rw [ovl_lt hb ha hlt' (Ne.symm hs)]
        constructor
        · rintro ⟨s, h1, h2⟩; exact ⟨s, h2, h1⟩
        · rintro ⟨s, h1, h2⟩; exact ⟨s, h2, h1⟩

theorem ovl_comm {a b : Shape} {n : Nat} (ha : a.fits n) (hb : b.fits n) : a.ovl b = b.ovl a := by
  have h1 := ovl_iff ha hb
  have h2 := ovl_iff hb ha
  have : (a.ovl b = true) ↔ (b.ovl a = true) := by
    rw [h1, h2]
    constructor
    · rintro ⟨s, x, y⟩; exact ⟨s, y, x⟩
    · rintro ⟨s, x, y⟩; exact ⟨s, y, x⟩
  cases hab : a.ovl b <;> cases hba : b.ovl a <;> simp_all

/-- membership in an arithmetic progression `first + stride * i`, `i < cnt`, with `stride * cnt = n` -/
theorem mem_progression {first stride cnt n s : Nat} (hf : first < stride)
    (hn : stride * cnt = n) :
    (∃ i, i < cnt ∧ first + stride * i = s) ↔ s < n ∧ s % stride = first := by
  constructor
  · rintro ⟨i, hi, rfl⟩
    refine ⟨?_, ?_⟩
    · have : stride * (i + 1) ≤ stride * cnt := Nat.mul_le_mul_left _ hi
      rw [Nat.mul_add, Nat.mul_one] at this
      omega
    · rw [Nat.add_mul_mod_self_left, Nat.mod_eq_of_lt hf]
  · rintro ⟨hs, hm⟩
    refine ⟨s / stride, ?_, ?_⟩
    · apply Nat.div_lt_of_lt_mul; omega
    · have := Nat.div_add_mod s stride
      omega

end WinterProofs.C16L
