-- helper lemmas for C12: the 248-bit ElementDigest of Rp62_248 (four 62-bit integers packed into 31 bytes)
import WinterProofs.Lemmas.C12Codec

namespace WinterProofs.C12L
open Model Model.Serde

/-- a bitwise or of numbers occupying disjoint bit ranges is their sum -/
theorem or_disj (i a b : Nat) (hb : b < 2 ^ i) (ha : a % 2 ^ i = 0) : b ||| a = a + b := by
  have h1 : a = (a / 2 ^ i) <<< i := by
    rw [Nat.shiftLeft_eq]
    have := Nat.div_add_mod a (2 ^ i)
    rw [ha, Nat.add_zero, Nat.mul_comm] at this
    exact this.symm
  rw [Nat.or_comm, h1, ← Nat.shiftLeft_add_eq_or_of_lt hb]

theorem leBytes_split (a b w : Nat) : leBytes (a + b) w = leBytes a w ++ leBytes b (w / 256 ^ a) := by
  induction a generalizing w with
  | zero => simp [leBytes]
  | succ a ih =>
    rw [show a + 1 + b = (a + b) + 1 by omega]
    simp only [leBytes, ih, List.cons_append, Nat.pow_succ, Nat.div_div_eq_div_mul]
    rw [Nat.mul_comm 256 (256 ^ a)]

theorem readUInt_leBytes_mod (n v : Nat) (r : Bytes) :
    readUInt n (leBytes n v ++ r) = .ok (v % 256 ^ n, r) := by
  simp [readUInt, readSlice_append_len (leBytes_length n v), ofLeBytes_leBytes]

/-- the four words of `as_bytes`, as numbers -/
theorem pack62_words (v1 v2 v3 v4 : Nat) (h1 : v1 < 4611686018427387904) (h2 : v2 < 4611686018427387904)
    (h3 : v3 < 4611686018427387904) (_h4 : v4 < 4611686018427387904) :
    (v1 ||| (v2 <<< 62 % u64max)) = v1 + (v2 % 4) * 4611686018427387904 ∧
    ((v2 >>> 2) ||| (v3 <<< 60 % u64max)) = v2 / 4 + (v3 % 16) * 1152921504606846976 ∧
    ((v3 >>> 4) ||| (v4 <<< 58 % u64max)) = v3 / 16 + (v4 % 64) * 288230376151711744 ∧
    v4 >>> 6 = v4 / 64 := by
  simp only [u64max, Nat.shiftLeft_eq, Nat.shiftRight_eq_div_pow, Nat.reducePow]
  refine ⟨?_, ?_, ?_, trivial⟩
  · rw [or_disj 62 _ _ (by simpa using h1) (by simp only [Nat.reducePow]; omega)]; omega
  · rw [or_disj 60 _ _ (by simp only [Nat.reducePow]; omega) (by simp only [Nat.reducePow]; omega)]; omega
  · rw [or_disj 58 _ _ (by simp only [Nat.reducePow]; omega) (by simp only [Nat.reducePow]; omega)]; omega

theorem mask62_eq : mask62 = 2 ^ 62 - 1 := by decide

/-- unpacking what `pack62_words` packed -/
theorem unpack62 (v1 v2 v3 v4 : Nat) (h1 : v1 < 4611686018427387904) (h2 : v2 < 4611686018427387904)
    (h3 : v3 < 4611686018427387904) (h4 : v4 < 4611686018427387904) :
    let w1 := v1 + (v2 % 4) * 4611686018427387904
    let w2 := v2 / 4 + (v3 % 16) * 1152921504606846976
    let w3 := v3 / 16 + (v4 % 64) * 288230376151711744
    let w4 := v4 / 64
    (w1 &&& mask62) = v1 ∧
    ((((w2 <<< 4) % u64max) >>> 2) ||| ((w1 >>> 62) &&& mask62)) = v2 ∧
    ((((w3 <<< 6) % u64max) >>> 2) ||| ((w2 >>> 60) &&& mask62)) = v3 ∧
    ((w3 >>> 58) ||| ((w4 % 4294967296) <<< 6) ||| ((w4 / 4294967296 % 65536) <<< 38) |||
      ((w4 / 281474976710656 % 256) <<< 54)) = v4 := by
  simp only [mask62_eq, Nat.and_two_pow_sub_one_eq_mod]
  simp only [u64max, Nat.shiftLeft_eq, Nat.shiftRight_eq_div_pow, Nat.reducePow]
  refine ⟨by omega, ?_, ?_, ?_⟩
  · rw [Nat.or_comm, or_disj 2 _ _ (by simp only [Nat.reducePow]; omega) (by simp only [Nat.reducePow]; omega)]; omega
  · rw [Nat.or_comm, or_disj 4 _ _ (by simp only [Nat.reducePow]; omega) (by simp only [Nat.reducePow]; omega)]; omega
  · have s1 := or_disj 6 (v4 / 64 % 4294967296 * 64) ((v3 / 16 + v4 % 64 * 288230376151711744) / 288230376151711744)
      (by simp only [Nat.reducePow]; omega) (by simp only [Nat.reducePow]; omega)
    rw [s1]
    have s2 := or_disj 38 (v4 / 64 / 4294967296 % 65536 * 274877906944)
      (v4 / 64 % 4294967296 * 64 + (v3 / 16 + v4 % 64 * 288230376151711744) / 288230376151711744)
      (by simp only [Nat.reducePow]; omega) (by simp only [Nat.reducePow]; omega)
    rw [s2]
    have s3 := or_disj 54 (v4 / 64 / 281474976710656 % 256 * 18014398509481984)
      (v4 / 64 / 4294967296 % 65536 * 274877906944 +
        (v4 / 64 % 4294967296 * 64 + (v3 / 16 + v4 % 64 * 288230376151711744) / 288230376151711744))
      (by simp only [Nat.reducePow]; omega) (by simp only [Nat.reducePow]; omega)
    rw [s3]
    omega

theorem leBytes_one (x : Nat) : leBytes 1 x = [x % 256] := rfl

theorem pack62_bytes (v1 v2 v3 v4 : Nat) (b1 : v1 < 4611686018427387904) (b2 : v2 < 4611686018427387904)
    (b3 : v3 < 4611686018427387904) (b4 : v4 < 4611686018427387904) :
    pack62 v1 v2 v3 v4 =
        leBytes 8 (v1 + (v2 % 4) * 4611686018427387904) ++ (leBytes 8 (v2 / 4 + (v3 % 16) * 1152921504606846976) ++
        (leBytes 8 (v3 / 16 + (v4 % 64) * 288230376151711744) ++ (leBytes 4 (v4 / 64) ++
        (leBytes 2 (v4 / 64 / 4294967296) ++ leBytes 1 (v4 / 64 / 4294967296 / 65536))))) := by
  obtain ⟨e1, e2, e3, e4⟩ := pack62_words v1 v2 v3 v4 b1 b2 b3 b4
  unfold pack62
  rw [e1, e2, e3, e4]
  have s1 : leBytes 8 (v4 / 64) = leBytes 4 (v4 / 64) ++ (leBytes 2 (v4 / 64 / 256 ^ 4) ++
      (leBytes 1 (v4 / 64 / 256 ^ 4 / 256 ^ 2) ++ leBytes 1 (v4 / 64 / 256 ^ 4 / 256 ^ 2 / 256 ^ 1))) := by
    rw [show (8 : Nat) = 4 + (2 + (1 + 1)) by rfl, leBytes_split, leBytes_split, leBytes_split]
  rw [s1]
  simp only [← List.append_assoc]
  rw [List.take_left' (by simp [leBytes_length])]

/-- decoding the 31 bytes: the six reads of `read_from` -/
theorem unpack62_reads (w1 w2 w3 w4 : Nat) (rest : Bytes) (h1 : w1 < 18446744073709551616)
    (h2 : w2 < 18446744073709551616) (h3 : w3 < 18446744073709551616) (f : Nat → Nat → Nat → Nat → Nat → Nat → List Nat) :
    (do
      let v1 ← readUInt 8
      let v2 ← readUInt 8
      let v3 ← readUInt 8
      let v4 ← readUInt 4
      let v5 ← readUInt 2
      let v6 ← readU8
      (pure (f v1 v2 v3 v4 v5 v6) : Dec (List Nat)))
      (leBytes 8 w1 ++ (leBytes 8 w2 ++ (leBytes 8 w3 ++ (leBytes 4 w4 ++
        (leBytes 2 (w4 / 4294967296) ++ leBytes 1 (w4 / 4294967296 / 65536))))) ++ rest) =
    .ok (f w1 w2 w3 (w4 % 4294967296) (w4 / 4294967296 % 65536) (w4 / 4294967296 / 65536 % 256), rest) := by
  have r1 := readUInt_leBytes (n := 8) (v := w1) (by simpa using h1)
  have r2 := readUInt_leBytes (n := 8) (v := w2) (by simpa using h2)
  have r3 := readUInt_leBytes (n := 8) (v := w3) (by simpa using h3)
  have r4 := readUInt_leBytes_mod 4 w4
  have r5 := readUInt_leBytes_mod 2 (w4 / 4294967296)
  simp only [Nat.reducePow] at r4 r5
  simp only [List.append_assoc, bind_apply, r1, r2, r3, r4, r5, leBytes_one, List.cons_append,
    List.nil_append, readU8_cons, pure_apply]

theorem elemDigest62_RT : elemDigest62.RT := by
  intro d rest hx
  simp only [elemDigest62, Bool.and_eq_true, beq_iff_eq] at hx
  refine ⟨rfl, ?_⟩
  obtain ⟨hl, hall⟩ := hx
  match d, hl with
  | [v1, v2, v3, v4], _ =>
    have hM : F62.impl.M < 4611686018427387904 := by decide
    simp only [List.all_cons, List.all_nil, Bool.and_true, Bool.and_eq_true, decide_eq_true_eq] at hall
    obtain ⟨h1, h2, h3, h4⟩ := hall
    have b1 : v1 < 4611686018427387904 := by omega
    have b2 : v2 < 4611686018427387904 := by omega
    have b3 : v3 < 4611686018427387904 := by omega
    have b4 : v4 < 4611686018427387904 := by omega
    obtain ⟨u1, u2, u3, u4⟩ := unpack62 v1 v2 v3 v4 b1 b2 b3 b4
    have m1 : v1 % F62.impl.M = v1 := Nat.mod_eq_of_lt h1
    have m2 : v2 % F62.impl.M = v2 := Nat.mod_eq_of_lt h2
    have m3 : v3 % F62.impl.M = v3 := Nat.mod_eq_of_lt h3
    have m4 : v4 % F62.impl.M = v4 := Nat.mod_eq_of_lt h4
    have hr := unpack62_reads (v1 + (v2 % 4) * 4611686018427387904) (v2 / 4 + (v3 % 16) * 1152921504606846976)
      (v3 / 16 + (v4 % 64) * 288230376151711744) (v4 / 64) rest (by omega) (by omega) (by omega)
      (fun a b c d e g =>
        [(a &&& mask62) % F62.impl.M,
         ((((b <<< 4) % u64max) >>> 2) ||| ((a >>> 62) &&& mask62)) % F62.impl.M,
         ((((c <<< 6) % u64max) >>> 2) ||| ((b >>> 60) &&& mask62)) % F62.impl.M,
         ((c >>> 58) ||| (d <<< 6) ||| (e <<< 38) ||| (g <<< 54)) % F62.impl.M])
    simp only [Nat.div_div_eq_div_mul, Nat.reduceMul] at u4 hr
    show elemDigest62.dec (pack62 v1 v2 v3 v4 ++ rest) = _
    rw [pack62_bytes v1 v2 v3 v4 b1 b2 b3 b4]
    simp only [Nat.div_div_eq_div_mul, Nat.reduceMul]
    simp only [elemDigest62]
    rw [hr, u1, u2, u3, u4, m1, m2, m3, m4]

end WinterProofs.C12L
