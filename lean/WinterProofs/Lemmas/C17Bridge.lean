-- C17, bridge to the reference validity predicate of C02: a trace (columns of cells mod `M`) that the
-- executable reference check `Model.VerifierChecks.checkMain` accepts (`Valid`, the predicate the C02
-- harness compares with `genair::is_valid`) is a `ValidTrace` of the corresponding instance of the
-- composition model over `ZMod M`, for any column polynomials that interpolate the cells.
import Winter.Model.VerifierChecks
import WinterProofs.Lemmas.C17Def

set_option linter.unusedSectionVars false

namespace WinterProofs.C17L
open Model.Divisor Model.Composition WinterProofs.C16L Polynomial

-- ============================================================================================
-- the instance of the composition model that corresponds to a C02 description
-- ============================================================================================

/-- constraint expressions: the same trees (C02's `pow` takes the exponent first) -/
def toExpr : Model.VerifierChecks.Expr → Expr
  | .const v => .const v
  | .cur i => .cur i
  | .nxt i => .nxt i
  | .per i => .per i
  | .add x y => .add (toExpr x) (toExpr y)
  | .sub x y => .sub (toExpr x) (toExpr y)
  | .mul x y => .mul (toExpr x) (toExpr y)
  | .pow k x => .pow (toExpr x) k
  | .neg x => .neg (toExpr x)

/-- assertion `a` of a C02 description whose public values start at `pubs[off]` -/
def toAssertion (M n : ℕ) (pubs : List ℕ) (off : ℕ) (a : Model.VerifierChecks.AssertDesc) : Assertion (ZMod M) :=
  match a.kind with
  | .single => ⟨a.column, a.first, 0, [((pubs.getD off 0 : ℕ) : ZMod M)]⟩
  | .periodic => ⟨a.column, a.first, a.stride, [((pubs.getD off 0 : ℕ) : ZMod M)]⟩
  | .sequence => ⟨a.column, a.first, a.stride,
      (List.range (n / max a.stride 1)).map (fun i => ((pubs.getD (off + i) 0 : ℕ) : ZMod M))⟩

/-- the composition-model instance of a C02 description `A` with public values `pubs` (main segment
    only; `degs` are the declared constraint degrees, which `Valid` does not read) -/
def toAir (M : ℕ) (A : Model.VerifierChecks.Air) (pubs : List ℕ) (degs : List Degree) : Air (ZMod M) :=
  ⟨A.n, A.exemptions, A.width, 0, A.periodic.map (fun p => p.map (fun v => ((v : ℕ) : ZMod M))),
   A.constraints.map toExpr, [], degs, [],
   A.assertions.zipIdx.map (fun ak => toAssertion M A.n pubs (A.pubOffset ak.2) ak.1), []⟩

theorem mapM_getElem? {β γ : Type} (f : β → Option γ) : ∀ (l : List β) (r : List γ), l.mapM f = some r →
    ∀ (i : ℕ) (y : γ), r[i]? = some y → ∃ x, l[i]? = some x ∧ f x = some y := by
  intro l
  induction l with
  | nil => intro r h i y hy; simp at h; subst h; simp at hy
  | cons a l ih =>
    intro r h i y hy
    simp only [List.mapM_cons, bind, Option.bind_eq_some_iff, pure, Option.some.injEq] at h
    obtain ⟨b, hb, bs, hbs, rfl⟩ := h
    cases i with
    | zero =>
      simp only [List.getElem?_cons_zero, Option.some.injEq] at hy
      subst hy
      exact ⟨a, by simp, hb⟩
    | succ i =>
      simp only [List.getElem?_cons_succ] at hy ⊢
      exact ih bs hbs i y hy

section
variable {M : ℕ} [Fact M.Prime] (root : ℕ → Option (ZMod M))
local notation "O" => fieldOps (ZMod M) root

-- ============================================================================================
-- expressions: arithmetic mod `M` on reduced cells is the field arithmetic of `ZMod M`
-- ============================================================================================

theorem toExpr_eval (cur nxt per : List ℕ) (env : Env (ZMod M))
    (hc : ∀ (i v : ℕ), cur[i]? = some v → env.cur i = (v : ZMod M))
    (hn : ∀ (i v : ℕ), nxt[i]? = some v → env.nxt i = (v : ZMod M))
    (hp : ∀ (i v : ℕ), per[i]? = some v → env.per i = (v : ZMod M))
    (e : Model.VerifierChecks.Expr) : ∀ v, e.eval M cur nxt per = some v →
      (toExpr e).eval (O) env = (v : ZMod M) := by
  have hM : 0 < M := (Fact.out : M.Prime).pos
  induction e with
  | const c =>
    intro v h
    simp only [Model.VerifierChecks.Expr.eval, Option.some.injEq] at h
    subst h
    show ((c : ℕ) : ZMod M) = _
    rw [ZMod.natCast_mod]
  | cur i => intro v h; exact hc i v h
  | nxt i => intro v h; exact hn i v h
  | per i => intro v h; exact hp i v h
  | add x y ihx ihy =>
    intro v h
    simp only [Model.VerifierChecks.Expr.eval] at h
    split at h
    · rename_i a b ha hb
      simp only [Option.some.injEq] at h
      subst h
      show (toExpr x).eval (O) env + (toExpr y).eval (O) env = _
      rw [ihx a ha, ihy b hb, ZMod.natCast_mod, Nat.cast_add]
    · cases h
  | sub x y ihx ihy =>
    intro v h
    simp only [Model.VerifierChecks.Expr.eval] at h
    split at h
    · rename_i a b ha hb
      simp only [Option.some.injEq] at h
      subst h
      show (toExpr x).eval (O) env - (toExpr y).eval (O) env = _
      rw [ihx a ha, ihy b hb, ZMod.natCast_mod, Nat.cast_add, Nat.cast_sub (Nat.mod_lt b hM).le,
        ZMod.natCast_self, ZMod.natCast_mod]
      ring
    · cases h
  | mul x y ihx ihy =>
    intro v h
    simp only [Model.VerifierChecks.Expr.eval] at h
    split at h
    · rename_i a b ha hb
      simp only [Option.some.injEq] at h
      subst h
      show (toExpr x).eval (O) env * (toExpr y).eval (O) env = _
      rw [ihx a ha, ihy b hb, ZMod.natCast_mod, Nat.cast_mul]
    · cases h
  | pow k x ihx =>
    intro v h
    simp only [Model.VerifierChecks.Expr.eval] at h
    split at h
    · rename_i a ha
      simp only [Option.some.injEq] at h
      subst h
      show (toExpr x).eval (O) env ^ k = _
      rw [ihx a ha, ZMod.natCast_mod, Nat.cast_pow]
    · cases h
  | neg x ihx =>
    intro v h
    simp only [Model.VerifierChecks.Expr.eval] at h
    split at h
    · rename_i a ha
      simp only [Option.some.injEq] at h
      subst h
      show (0 : ZMod M) - (toExpr x).eval (O) env = _
      rw [ihx a ha, ZMod.natCast_mod, Nat.cast_sub (Nat.mod_lt a hM).le, ZMod.natCast_self, ZMod.natCast_mod]
    · cases h

theorem mapM_getElem?_fwd {β γ : Type} (f : β → Option γ) : ∀ (l : List β) (r : List γ), l.mapM f = some r →
    ∀ (i : ℕ) (x : β), l[i]? = some x → ∃ y, r[i]? = some y ∧ f x = some y := by
  intro l
  induction l with
  | nil => intro r h i x hx; simp at hx
  | cons a l ih =>
    intro r h i x hx
    simp only [List.mapM_cons, bind, Option.bind_eq_some_iff, pure, Option.some.injEq] at h
    obtain ⟨b, hb, bs, hbs, rfl⟩ := h
    cases i with
    | zero =>
      simp only [List.getElem?_cons_zero, Option.some.injEq] at hx
      subst hx
      exact ⟨b, by simp, hb⟩
    | succ i =>
      simp only [List.getElem?_cons_succ] at hx ⊢
      exact ih bs hbs i x hx

-- ============================================================================================
-- periodic columns: the cycle polynomial at `(g^s)^(n/L)` is the cycle value at `s mod L`
-- ============================================================================================

/-- coherence of the root family with the periodic columns: cycle lengths divide the trace length and
    `get_root_of_unity(log2 L) = g^(n/L)` (both are powers of one two-adic root) -/
def PeriodicOK (g : ZMod M) (n : ℕ) (periodic : List (List ℕ)) : Prop :=
  ∀ p ∈ periodic, p.length ∣ n ∧ root (Nat.log2 p.length) = some (g ^ (n / p.length))

theorem periodic_value {g : ZMod M} {n : ℕ} (hn : 0 < n) (hg : IsPrimitiveRoot g n) {periodic : List (List ℕ)}
    (hper : PeriodicOK root g n periodic) {pp : List (List (ZMod M))}
    (hpp : (periodic.map (fun p => p.map (fun v => ((v : ℕ) : ZMod M)))).mapM (interpolate (O)) = some pp)
    (s : ℕ) (per : List ℕ)
    (hrow : periodic.mapM (fun p => if p.length = 0 then none else (p[s % p.length]?).map (· % M)) = some per) :
    ∀ (i v : ℕ), per[i]? = some v → periodicAt (O) n pp (g ^ s) i = (v : ZMod M) := by
  intro i v hv
  obtain ⟨p, hp, hpv⟩ := mapM_getElem? _ _ _ hrow i v hv
  have hL : p.length ≠ 0 := by
    intro h0; rw [if_pos h0] at hpv; cases hpv
  rw [if_neg hL] at hpv
  simp only [Option.map_eq_some_iff] at hpv
  obtain ⟨u, hu, rfl⟩ := hpv
  obtain ⟨hdvd, hroot⟩ := hper p (List.mem_of_getElem? hp)
  have hp' : (periodic.map (fun p => p.map (fun v => ((v : ℕ) : ZMod M))))[i]? = some (p.map (fun v => ((v : ℕ) : ZMod M))) := by
    rw [List.getElem?_map, hp]; rfl
  obtain ⟨q, hq, hint⟩ := mapM_getElem?_fwd _ _ _ hpp i _ hp'
  have hLpos : 0 < (p.map (fun v => ((v : ℕ) : ZMod M))).length := by rw [List.length_map]; omega
  have hnk : n = (n / p.length) * p.length := (Nat.div_mul_cancel hdvd).symm
  have hw : IsPrimitiveRoot (g ^ (n / p.length)) (p.map (fun v => ((v : ℕ) : ZMod M))).length := by
    rw [List.length_map]; exact hg.pow hn hnk
  obtain ⟨hlen, hval⟩ := interpolate_inverts hLpos hw (by rw [List.length_map]; exact hroot) q hint
  rw [List.length_map] at hlen
  have hs : s % p.length < (p.map (fun v => ((v : ℕ) : ZMod M))).length := by
    rw [List.length_map]; exact Nat.mod_lt _ (by omega)
  have h1 := hval (s % p.length) hs
  unfold periodicAt
  rw [hq]
  show polyEval (O) q ((g ^ s) ^ (n / q.length)) = _
  rw [hlen, ← pow_mul, mul_comm, pow_mul,
    ← pow_mod_of_pow_eq_one (by rw [← pow_mul, ← hnk]; exact hg.pow_eq_one) s, h1, ZMod.natCast_mod]
  simp only [List.getElem_map]
  congr 1
  have := List.getElem?_eq_getElem (l := p) (i := s % p.length) (by rw [List.length_map] at hs; exact hs)
  rw [hu] at this
  exact (Option.some.inj this).symm

-- ============================================================================================
-- cells and column polynomials
-- ============================================================================================

/-- the column polynomials interpolate the cells of the trace: `t_j(g^s) = cols[j][s]`, degree below `n` -/
structure Interpolates (g : ZMod M) (n : ℕ) (cols : List (List ℕ)) (mainPolys : ℕ → List (ZMod M)) : Prop where
  len : ∀ j, (mainPolys j).length ≤ n
  cells : ∀ (j : ℕ) (col : List ℕ), cols[j]? = some col → ∀ (s v : ℕ), col[s]? = some v →
    polyEval (O) (mainPolys j) (g ^ s) = (v : ZMod M)

theorem row_cells {g : ZMod M} {n : ℕ} {cols : List (List ℕ)} {mainPolys : ℕ → List (ZMod M)}
    (hint : Interpolates root g n cols mainPolys) (s : ℕ) (row : List ℕ)
    (hrow : Model.VerifierChecks.rowAt cols s = some row) :
    ∀ (j v : ℕ), row[j]? = some v → polyEval (O) (mainPolys j) (g ^ s) = (v : ZMod M) := by
  intro j v hv
  obtain ⟨col, hcol, hcv⟩ := mapM_getElem? _ _ _ hrow j v hv
  exact hint.cells j col hcol s v hcv

-- ============================================================================================
-- the transition clause
-- ============================================================================================

theorem transition_of_valid (A : Model.VerifierChecks.Air) (pubs : List ℕ) (cols : List (List ℕ))
    (degs : List Degree) (P : Prep (ZMod M)) (hP : prep (O) (toAir M A pubs degs) = some P) (hn : 0 < A.n)
    (hg : IsPrimitiveRoot P.g A.n) (hper : PeriodicOK root P.g A.n A.periodic)
    (mainPolys : ℕ → List (ZMod M)) (hint : Interpolates root P.g A.n cols mainPolys) (rands : ℕ → ZMod M)
    (hvalid : Model.VerifierChecks.Valid A M cols pubs) :
    ∀ s, s < A.n - A.exemptions → ∀ c ∈ (toAir M A pubs degs).mainCons ++ (toAir M A pubs degs).auxCons,
      c.eval (O) (defEnv root (toAir M A pubs degs) P mainPolys (fun _ => []) rands (P.g ^ s)) = 0 := by
  intro s hs c hc
  have hc' : c ∈ A.constraints.map toExpr := by simpa [toAir] using hc
  obtain ⟨e, he, rfl⟩ := List.mem_map.mp hc'
  obtain ⟨k, hk⟩ := List.mem_iff_getElem?.mp he
  have hklt : k < A.constraints.length := (List.getElem?_eq_some_iff.mp hk).1
  have hT := hvalid.2.2.2.2 s hs k hklt
  unfold Model.VerifierChecks.transitionHolds at hT
  rw [hk] at hT
  split at hT
  · rename_i _ _ _ _ c0 cur nxt per h0 h1 h2 h3
    cases h0
    have heval : e.eval M cur nxt per = some 0 := by simpa using hT
    obtain ⟨_, _, hpp, _⟩ := prep_spec hP
    have h := toExpr_eval root cur nxt per
      (defEnv root (toAir M A pubs degs) P mainPolys (fun _ => []) rands (P.g ^ s))
      (row_cells root hint s cur h1)
      (fun j v hv => by
        have := row_cells root hint (s + 1) nxt h2 j v hv
        rw [pow_succ] at this
        exact this)
      (periodic_value root hn hg hper hpp s per h3) e 0 heval
    rw [h]; simp
  · cases hT

-- ============================================================================================
-- the assertion clause
-- ============================================================================================

/-- what `Assertion::apply` lists: pair `i` is the step `first + stride·i`, with the single value of a
    single / periodic assertion or the `i`-th value of a sequence -/
theorem apply_mem {a : Assertion (ZMod M)} {n : ℕ} {l : List (ℕ × ZMod M)} (h : a.apply n = .ok l)
    {sv : ℕ × ZMod M} (hsv : sv ∈ l) :
    ∃ i, i < numSteps a n ∧ sv.1 = a.first + a.stride * i ∧
      a.values[if a.isSingle || a.isPeriodic then 0 else i]? = some sv.2 := by
  unfold Assertion.apply at h
  split at h
  · cases h
  by_cases hs : a.isSingle = true
  · simp only [hs, if_true] at h
    split at h
    · rename_i v rest hv
      cases h
      rw [List.mem_singleton] at hsv
      subst hsv
      refine ⟨0, by unfold numSteps; simp [hs], by simp, ?_⟩
      simp [hs, hv]
    · cases h
  · have hs' : a.isSingle = false := by simpa using hs
    simp only [hs', Bool.false_eq_true, if_false] at h
    by_cases hp : a.isPeriodic = true
    · simp only [hp, if_true] at h
      split at h
      · rename_i v rest hv
        cases h
        obtain ⟨i, hi, rfl⟩ := List.mem_map.mp hsv
        refine ⟨i, by unfold numSteps; simpa [hs', hp] using hi, rfl, ?_⟩
        simp [hs', hp, hv]
      · cases h
    · have hp' : a.isPeriodic = false := by simpa using hp
      simp only [hp', Bool.false_eq_true, if_false] at h
      cases h
      obtain ⟨vi, hvi, rfl⟩ := List.mem_map.mp hsv
      have hget := List.mem_zipIdx_iff_getElem?.mp hvi
      refine ⟨vi.2, ?_, rfl, ?_⟩
      · unfold numSteps
        simp only [hs', hp', Bool.false_eq_true, if_false]
        exact (List.getElem?_eq_some_iff.mp hget).1
      · simpa [hs', hp'] using hget

/-- what the reference check reads when it accepts value `i` of assertion `k` -/
theorem assertionHolds_cell {A : Model.VerifierChecks.Air} {cols : List (List ℕ)} {pubs : List ℕ} {k i : ℕ}
    {a : Model.VerifierChecks.AssertDesc} (hk : A.assertions[k]? = some a)
    (h : Model.VerifierChecks.assertionHolds A cols pubs k i = true) :
    ∃ s col v, (a.steps A.n)[i]? = some s ∧ cols[a.column]? = some col ∧ col[s]? = some v ∧
      (if a.kind = .sequence then pubs[A.pubOffset k + i]? else pubs[A.pubOffset k]?) = some v := by
  unfold Model.VerifierChecks.assertionHolds at h
  rw [hk] at h
  simp only at h
  split at h
  · rename_i s col hs hcol
    split at h
    · rename_i v e hv he
      have : v = e := by simpa using h
      subst this
      exact ⟨s, col, v, hs, hcol, hv, he⟩
    · cases h
  · cases h

/-- the pairs `apply` lists for the translated assertion are the (step, public value) pairs the
    reference check visits -/
theorem toAssertion_pair {n : ℕ} (hn : 0 < n) (pubs : List ℕ) (off : ℕ) (a : Model.VerifierChecks.AssertDesc)
    {l : List (ℕ × ZMod M)} (h : (toAssertion M n pubs off a).apply n = .ok l) {sv : ℕ × ZMod M} (hsv : sv ∈ l) :
    (toAssertion M n pubs off a).column = a.column ∧
    ∃ i, (a.steps n)[i]? = some sv.1 ∧
      sv.2 = ((pubs.getD (if a.kind = .sequence then off + i else off) 0 : ℕ) : ZMod M) := by
  obtain ⟨i, hi, h1, h2⟩ := apply_mem h hsv
  cases hkind : a.kind with
  | single =>
    have ha : toAssertion M n pubs off a = ⟨a.column, a.first, 0, [((pubs.getD off 0 : ℕ) : ZMod M)]⟩ := by
      unfold toAssertion; rw [hkind]
    rw [ha] at hi h1 h2 ⊢
    have hi0 : i = 0 := by
      simp [numSteps, Assertion.isSingle] at hi; exact hi
    subst hi0
    refine ⟨rfl, 0, ?_, ?_⟩
    · simp only [Model.VerifierChecks.AssertDesc.steps, hkind]
      simp at h1; simp [h1]
    · simp [Assertion.isSingle] at h2
      simp [← h2]
  | periodic =>
    have ha : toAssertion M n pubs off a = ⟨a.column, a.first, a.stride, [((pubs.getD off 0 : ℕ) : ZMod M)]⟩ := by
      unfold toAssertion; rw [hkind]
    rw [ha] at hi h1 h2 ⊢
    refine ⟨rfl, i, ?_, ?_⟩
    · simp only [Model.VerifierChecks.AssertDesc.steps, hkind]
      by_cases h0 : a.stride = 0
      · have hi0 : i = 0 := by
          simp [numSteps, Assertion.isSingle, h0] at hi; exact hi
        subst hi0
        simp at h1
        simp [h0, h1, hn]
      · have hlt : i < n / a.stride := by
          simpa [numSteps, Assertion.isSingle, Assertion.isPeriodic, h0] using hi
        have hmax : max a.stride 1 = a.stride := by omega
        simp only [List.getElem?_map, hmax, List.getElem?_range hlt, Option.map_some, Option.some.injEq]
        simp only at h1
        rw [h1, Nat.mul_comm]
    · have : (if (Assertion.isSingle (⟨a.column, a.first, a.stride, [((pubs.getD off 0 : ℕ) : ZMod M)]⟩ :
          Assertion (ZMod M)) || Assertion.isPeriodic (⟨a.column, a.first, a.stride,
            [((pubs.getD off 0 : ℕ) : ZMod M)]⟩ : Assertion (ZMod M))) = true then 0 else i) = 0 := by
        by_cases h0 : a.stride = 0 <;> simp [Assertion.isSingle, Assertion.isPeriodic, h0]
      rw [this] at h2
      simp at h2
      simp [← h2]
  | sequence =>
    have ha : toAssertion M n pubs off a = ⟨a.column, a.first, a.stride,
        (List.range (n / max a.stride 1)).map (fun i => ((pubs.getD (off + i) 0 : ℕ) : ZMod M))⟩ := by
      unfold toAssertion; rw [hkind]
    rw [ha] at hi h1 h2 ⊢
    -- in every case the pair index is below the number of values and selects value `i`
    have key : i < n / max a.stride 1 ∧
        ((List.range (n / max a.stride 1)).map (fun i => ((pubs.getD (off + i) 0 : ℕ) : ZMod M)))[i]? = some sv.2 := by
      by_cases h0 : a.stride = 0
      · have hi0 : i = 0 := by
          simp [numSteps, Assertion.isSingle, h0] at hi; exact hi
        subst hi0
        have : 0 < n / max a.stride 1 := by simp [h0, hn]
        refine ⟨this, ?_⟩
        simpa [Assertion.isSingle, h0] using h2
      · by_cases h1v : n / max a.stride 1 = 1
        · have hmax : max a.stride 1 = a.stride := by omega
          have hi0 : i = 0 := by
            simp [numSteps, Assertion.isSingle, Assertion.isPeriodic, h0, h1v] at hi
            rw [hmax] at h1v; omega
          subst hi0
          refine ⟨by omega, ?_⟩
          simpa [Assertion.isSingle, Assertion.isPeriodic, h0, h1v] using h2
        · have hlt : i < n / max a.stride 1 := by
            simpa [numSteps, Assertion.isSingle, Assertion.isPeriodic, h0, h1v] using hi
          refine ⟨hlt, ?_⟩
          simpa [Assertion.isSingle, Assertion.isPeriodic, h0, h1v] using h2
    obtain ⟨hlt, hval⟩ := key
    refine ⟨rfl, i, ?_, ?_⟩
    · simp only [Model.VerifierChecks.AssertDesc.steps, hkind]
      simp only [List.getElem?_map, List.getElem?_range hlt, Option.map_some, Option.some.injEq]
      simp only at h1
      rw [h1, Nat.mul_comm]
    · rw [List.getElem?_map, List.getElem?_range hlt] at hval
      simpa using hval.symm

-- ============================================================================================
-- the reference predicate implies `ValidTrace`
-- ============================================================================================

/-- **C02's reference validity predicate implies `ValidTrace`.**  If the executable reference check accepts
    the trace `cols` with public values `pubs` for the description `A` over the prime field of `M` elements
    (`Model.VerifierChecks.Valid`, decided by `checkMain`: `C02.checkMain_iff`), then any column
    polynomials that interpolate the cells form a valid trace of the corresponding instance of the
    composition model.  Hypotheses: the trace-domain generator has exact order `n`, the root family is
    coherent for the periodic columns. -/
theorem validTrace_of_valid (A : Model.VerifierChecks.Air) (pubs : List ℕ) (cols : List (List ℕ))
    (degs : List Degree) (P : Prep (ZMod M)) (hP : prep (O) (toAir M A pubs degs) = some P) (hn : 0 < A.n)
    (hg : IsPrimitiveRoot P.g A.n) (hper : PeriodicOK root P.g A.n A.periodic)
    (mainPolys : ℕ → List (ZMod M)) (hint : Interpolates root P.g A.n cols mainPolys) (rands : ℕ → ZMod M)
    (hvalid : Model.VerifierChecks.Valid A M cols pubs) :
    ValidTrace root (toAir M A pubs degs) P mainPolys (fun _ => []) rands where
  mainLen := hint.len
  auxLen := by intro j; simp
  transition := transition_of_valid root A pubs cols degs P hP hn hg hper mainPolys hint rands hvalid
  mainAssertions := by
    intro a' ha'
    obtain ⟨ak, hak, rfl⟩ := List.mem_map.mp ha'
    have hk : A.assertions[ak.2]? = some ak.1 := List.mem_zipIdx_iff_getElem?.mp hak
    intro l hl sv hsv
    obtain ⟨hcol, i, hstep, hval⟩ := toAssertion_pair (M := M) hn pubs _ ak.1 hl hsv
    have hi : i < (ak.1.steps A.n).length := (List.getElem?_eq_some_iff.mp hstep).1
    obtain ⟨s, col, v, hs, hc, hv, he⟩ := assertionHolds_cell hk (hvalid.2.2.2.1 ak.2 ak.1 hk i hi)
    rw [hstep] at hs
    cases hs
    have hget : pubs.getD (if ak.1.kind = .sequence then A.pubOffset ak.2 + i else A.pubOffset ak.2) 0 = v := by
      rw [List.getD_eq_getElem?_getD]
      split_ifs at he ⊢ <;> rw [he] <;> rfl
    show polyEval (O) (mainPolys (toAssertion M A.n pubs (A.pubOffset ak.2) ak.1).column) (P.g ^ sv.1) = sv.2
    rw [hcol, hint.cells _ col hc sv.1 v hv, hval, hget]
  auxAssertions := by intro a ha; cases ha

end

end WinterProofs.C17L
