-- C10 helper lemmas: batch openings — unfolding lemmas, shapes, absence of panics
import WinterProofs.Lemmas.C10Maps
import WinterProofs.Lemmas.C10Single

namespace WinterProofs.C10
open Model.Merkle

variable {D : Type} {α β : Type}

/-- the outcome is not a panic, and a successful outcome satisfies `P` -/
def Sat (P : α → Prop) : Res α → Prop
  | .ok a => P a
  | .err _ => True
  | .panic _ => False

theorem Sat.bind {P : α → Prop} {Q : β → Prop} {x : Res α} {f : α → Res β}
    (hx : Sat P x) (hf : ∀ a, P a → Sat Q (f a)) : Sat Q (x >>= f) := by
  cases x with
  | ok a => exact hf a hx
  | err e => trivial
  | panic s => exact hx

theorem Sat.mono {P Q : α → Prop} {x : Res α} (hx : Sat P x) (h : ∀ a, P a → Q a) : Sat Q x := by
  cases x with
  | ok a => exact h a hx
  | err e => trivial
  | panic s => exact hx

theorem Sat.of_ok {P : α → Prop} {x : Res α} {a : α} (hx : Sat P x) (h : x = .ok a) : P a := by
  subst h; exact hx

theorem Sat.no_panic {P : α → Prop} {x : Res α} (hx : Sat P x) : (∃ a, x = .ok a) ∨ ∃ e, x = .err e := by
  cases x with
  | ok a => exact Or.inl ⟨a, rfl⟩
  | err e => exact Or.inr ⟨e, rfl⟩
  | panic s => exact hx.elim

/-- the next position is not the sibling of `k` (the `else` branch of the level loops) -/
def NotMerged (k : Nat) (rest : List Nat) : Prop := ∀ k' rest', rest = k' :: rest' → k' ≠ xor1 k

theorem level_induction {P : List Nat → Prop} (nil : P [])
    (single : ∀ k rest, NotMerged k rest → P rest → P (k :: rest))
    (merged : ∀ k rest, P rest → P (k :: xor1 k :: rest)) : ∀ K, P K
  | [] => nil
  | [k] => single k [] (by intro k' r h; cases h) nil
  | k :: k' :: rest => by
    by_cases h : k' = xor1 k
    · subst h; exact merged k rest (level_induction nil single merged rest)
    · exact single k (k' :: rest) (by intro k'' r he; cases he; exact h)
        (level_induction nil single merged (k' :: rest))

/-- parent of `node` (at heap position `k`) and its sibling -/
def par (H : Hasher D) (k : Nat) (node sibling : D) : D :=
  if k % 2 ≠ 0 then H.merge sibling node else H.merge node sibling

-- ---------------------------------------------------------------------------------------------
-- unfolding lemmas of the level loops

theorem rootLevel_nil (H : Hasher D) (rows : List (List D)) (ptrs : List Nat) (v : SMap D) :
    rootLevel H [] rows ptrs v = .ok (v, ptrs, []) := by simp [rootLevel]

theorem rootLevel_single (H : Hasher D) (k : Nat) (rest : List Nat) (hn : NotMerged k rest)
    (row : List D) (rows : List (List D)) (ptr : Nat) (ptrs : List Nat) (v : SMap D) :
    rootLevel H (k :: rest) (row :: rows) (ptr :: ptrs) v =
      match row[ptr]? with
      | none => .err .invalid
      | some sibling =>
        match v.get k with
        | none => .err .invalid
        | some node =>
          rootLevel H rest rows ptrs (v.insert (k / 2) (par H k node sibling)) >>= fun r =>
            .ok (r.1, (ptr + 1) :: r.2.1, k / 2 :: r.2.2) := by
  cases rest with
  | nil =>
    simp only [rootLevel]
    cases row[ptr]? with
    | none => rfl
    | some s =>
      cases v.get k with
      | none => rfl
      | some node => simp [par]
  | cons k' rest' =>
    have : k' ≠ xor1 k := hn k' rest' rfl
    simp only [rootLevel, if_neg this]
    cases row[ptr]? with
    | none => rfl
    | some s =>
      cases v.get k with
      | none => rfl
      | some node => rfl

theorem rootLevel_merged (H : Hasher D) (k : Nat) (rest : List Nat)
    (r0 r1 : List D) (rows : List (List D)) (p0 p1 : Nat) (ptrs : List Nat) (v : SMap D) :
    rootLevel H (k :: xor1 k :: rest) (r0 :: r1 :: rows) (p0 :: p1 :: ptrs) v =
      match v.get (xor1 k) with
      | none => .err .invalid
      | some sibling =>
        match v.get k with
        | none => .err .invalid
        | some node =>
          rootLevel H rest rows ptrs (v.insert (k / 2) (par H k node sibling)) >>= fun r =>
            .ok (r.1, p0 :: p1 :: r.2.1, k / 2 :: r.2.2) := by
  simp only [rootLevel, if_true]
  cases v.get (xor1 k) with
  | none => rfl
  | some s =>
    cases v.get k with
    | none => rfl
    | some node => rfl

-- ---------------------------------------------------------------------------------------------
-- shapes and absence of panics of `get_root`

theorem leafPair_sat (leaves : List D) (imap : SMap Nat) (index : Nat) (row : List D) :
    Sat (fun _ => True) (leafPair leaves imap index row) := by
  unfold leafPair
  repeat' split
  all_goals trivial

theorem rootLeafLoop_shape (H : Hasher D) (leaves : List D) (imap : SMap Nat) (offset : Nat) :
    ∀ (norm : List Nat) (rows : List (List D)) (v : SMap D), norm.length ≤ rows.length →
      Sat (fun r => r.2.1.length = norm.length ∧ r.2.2.length = norm.length)
        (rootLeafLoop H leaves imap offset norm rows v)
  | [], rows, v, _ => by simp [rootLeafLoop, Sat]
  | e :: norm, [], v, h => by simp at h
  | e :: norm, row :: rows, v, h => by
    simp only [rootLeafLoop]
    apply Sat.bind (leafPair_sat leaves imap e row)
    intro abp _
    obtain ⟨a, b, ptr⟩ := abp
    apply Sat.bind (rootLeafLoop_shape H leaves imap offset norm rows _ (by simpa using h))
    intro r hr
    obtain ⟨v', ptrs, next⟩ := r
    simp only [Sat, List.length_cons] at hr ⊢
    omega

theorem rootLevel_shape (H : Hasher D) : ∀ (K : List Nat) (rows : List (List D)) (ptrs : List Nat) (v : SMap D),
    K.length ≤ rows.length → K.length ≤ ptrs.length →
    Sat (fun r => r.2.1.length = ptrs.length ∧ r.2.2.length ≤ K.length) (rootLevel H K rows ptrs v) := by
  intro K
  induction K using level_induction with
  | nil => intro rows ptrs v _ _; simp [rootLevel_nil, Sat]
  | single k rest hn ih =>
    intro rows ptrs v h1 h2
    match rows, ptrs, h1, h2 with
    | row :: rows, ptr :: ptrs, h1, h2 =>
      rw [rootLevel_single H k rest hn]
      cases row[ptr]? with
      | none => trivial
      | some s =>
        cases v.get k with
        | none => trivial
        | some node =>
          apply Sat.bind (ih rows ptrs _ (by simpa using h1) (by simpa using h2))
          intro r hr
          simp only [Sat, List.length_cons] at hr ⊢
          omega
  | merged k rest ih =>
    intro rows ptrs v h1 h2
    match rows, ptrs, h1, h2 with
    | r0 :: r1 :: rows, p0 :: p1 :: ptrs, h1, h2 =>
      rw [rootLevel_merged]
      cases v.get (xor1 k) with
      | none => trivial
      | some s =>
        cases v.get k with
        | none => trivial
        | some node =>
          simp only [List.length_cons] at h1 h2
          apply Sat.bind (ih rows ptrs _ (by omega) (by omega))
          intro r hr
          simp only [Sat, List.length_cons] at hr ⊢
          omega

theorem rootLevels_shape (H : Hasher D) (rows : List (List D)) : ∀ (l : Nat) (K ptrs : List Nat) (v : SMap D),
    K.length ≤ rows.length → K.length ≤ ptrs.length →
    Sat (fun r => r.2.length = ptrs.length) (rootLevels H rows l K ptrs v)
  | 0, K, ptrs, v, _, _ => by simp [rootLevels, Sat]
  | l + 1, K, ptrs, v, h1, h2 => by
    simp only [rootLevels]
    apply Sat.bind (rootLevel_shape H K rows ptrs v h1 h2)
    intro r hr
    obtain ⟨v', ptrs', next⟩ := r
    simp only at hr
    have := rootLevels_shape H rows l next ptrs' v' (by omega) (by omega)
    exact this.mono (fun a ha => by omega)

/-- `get_root` never panics, whatever the opening and the position list: missing / extra nodes,
    rows or leaves, any depth, duplicated or out-of-range positions -/
theorem getRoot_sat (H : Hasher D) (p : BatchProof D) (idxs : List Nat) :
    Sat (fun _ => True) (getRoot H p idxs) := by
  unfold getRoot
  split; · trivial
  split; · trivial
  split; · trivial
  split; · trivial
  rename_i _ _ _ hd
  have hd' : p.depth < 64 := by simpa [usizeBits] using hd
  rcases mapIndexes_no_panic idxs p.depth hd' with ⟨m, hm⟩ | ⟨e, he⟩
  · rw [hm]; simp only [Res.ok_bind]
    split; · trivial
    rename_i hlen
    rw [pow2_ok hd']; simp only [Res.ok_bind]
    have hlen' : (normalizeIndexes idxs).length = p.nodes.length := by
      rcases Nat.lt_or_ge (normalizeIndexes idxs).length p.nodes.length with h | h
      · exact absurd (Nat.ne_of_lt h) (by simpa using hlen)
      · rcases Nat.lt_or_eq_of_le h with h | h
        · exact absurd (Nat.ne_of_gt h) (by simpa using hlen)
        · exact h.symm
    apply Sat.bind (rootLeafLoop_shape H p.leaves m (2 ^ p.depth) _ p.nodes [] (by omega))
    intro r hr
    obtain ⟨v, ptrs, next⟩ := r
    simp only at hr
    apply Sat.bind (rootLevels_shape H p.nodes (p.depth - 1) next ptrs v (by omega) (by omega))
    intro r2 _
    obtain ⟨v2, ptrs2⟩ := r2
    simp only
    split; · trivial
    split <;> trivial
  · rw [he]; trivial

end WinterProofs.C10
