-- helper definitions for C12: a universe of serializable types closed under the generic constructors, so that
-- "every serializable value, nested compositions included" is one statement
import WinterProofs.Lemmas.C12Proof
import WinterProofs.Lemmas.C12Digest62

namespace WinterProofs.C12L
open Model Model.Serde

theorem sym_option {c : α → α → Ordering} (h : Sym c) : Sym (cmpOption c) := by
  intro a b; cases a <;> cases b <;> simp [cmpOption]; exact h _ _

theorem sym_pair {ca : α → α → Ordering} {cb : β → β → Ordering} (ha : Sym ca) (hb : Sym cb) :
    Sym (cmpPair ca cb) := by
  intro x y h
  simp only [cmpPair] at h ⊢
  cases hxy : ca x.1 y.1 with
  | lt => simp [hxy] at h
  | eq => simp only [hxy] at h; simp [ha _ _ hxy, hb _ _ h]
  | gt => simp [hxy] at h

/-- key types: the serializable types that also have an order (`Ord`) in the implementation -/
inductive KTy where
  | uint (n : Nat)          -- u8 (1), u16 (2), u32 (4), u64 (8), u128 (16)
  | usize
  | bool
  | str                     -- String, ordered by its bytes
  | opt (k : KTy)
  | vec (k : KTy)
  | pair (a b : KTy)        -- tuples (nested pairs serialize like flat tuples)

def KTy.val : KTy → Type
  | .uint _ => Nat
  | .usize => Nat
  | .bool => Bool
  | .str => Bytes
  | .opt k => Option k.val
  | .vec k => List k.val
  | .pair a b => a.val × b.val

def KTy.codec : (k : KTy) → Codec k.val
  | .uint n => Serde.uint n
  | .usize => Serde.usize
  | .bool => Serde.bool
  | .str => Serde.str
  | .opt k => Serde.option k.codec
  | .vec k => Serde.vec k.codec
  | .pair a b => Serde.pair a.codec b.codec

/-- the model of the implementation's `Ord` -/
def KTy.cmp : (k : KTy) → k.val → k.val → Ordering
  | .uint _ => natCmp
  | .usize => natCmp
  | .bool => cmpBool
  | .str => cmpList natCmp
  | .opt k => cmpOption k.cmp
  | .vec k => cmpList k.cmp
  | .pair a b => cmpPair a.cmp b.cmp

theorem KTy.sym : ∀ k : KTy, Sym k.cmp
  | .uint _ => sym_nat
  | .usize => sym_nat
  | .bool => sym_bool
  | .str => sym_list sym_nat
  | .opt k => sym_option k.sym
  | .vec k => sym_list k.sym
  | .pair a b => sym_pair a.sym b.sym

theorem KTy.antisym : ∀ k : KTy, Antisym k.cmp
  | .uint _ => antisym_nat
  | .usize => antisym_nat
  | .bool => antisym_bool
  | .str => antisym_list antisym_nat sym_nat
  | .opt k => antisym_option k.antisym
  | .vec k => antisym_list k.antisym k.sym
  | .pair a b => antisym_pair a.antisym a.sym b.antisym

theorem KTy.rt : ∀ k : KTy, k.codec.RT
  | .uint n => uint_RT n
  | .usize => usize_RT
  | .bool => bool_RT
  | .str => str_RT
  | .opt k => option_RT k.rt
  | .vec k => vec_RT k.rt
  | .pair a b => pair_RT a.rt b.rt

/-- the three base fields -/
inductive Fld where
  | f64 | f62 | f128

def Fld.impl : Fld → FieldImpl
  | .f64 => F64.impl
  | .f62 => F62.impl
  | .f128 => F128.impl

theorem Fld.fits : ∀ f : Fld, f.impl.M ≤ 256 ^ f.impl.bytes
  | .f64 => f64_fits
  | .f62 => f62_fits
  | .f128 => f128_fits

/-- the serializable types -/
inductive Ty where
  | key (k : KTy)
  | unit
  | opt (t : Ty)
  | vec (t : Ty)
  | arr (n : Nat) (t : Ty)
  | pair (a b : Ty)
  | map (k : KTy) (v : Ty)        -- BTreeMap<K, V>
  | set (k : KTy)                 -- BTreeSet<K>
  | elem (f : Fld)                -- base field element
  | quad (f : Fld)                -- QuadExtension
  | cube (f : Fld)                -- CubeExtension
  | byteDigest (n : Nat)          -- ByteDigest<N>
  | elemDigest64                  -- ElementDigest of Rp64_256 / RpJive64_256
  | elemDigest62                  -- ElementDigest of Rp62_248 (248 bits)
  | fieldExtension
  | proofOptions
  | traceInfo
  | context
  | commitments
  | queries
  | oodFrame
  | friLayer
  | friProof
  | proof

def Ty.val : Ty → Type
  | .key k => k.val
  | .unit => Unit
  | .opt t => Option t.val
  | .vec t => List t.val
  | .arr _ t => List t.val
  | .pair a b => a.val × b.val
  | .map k v => List (k.val × v.val)
  | .set k => List k.val
  | .elem _ => Nat
  | .quad _ => Nat × Nat
  | .cube _ => Nat × Nat × Nat
  | .byteDigest _ => Bytes
  | .elemDigest64 => List Nat
  | .elemDigest62 => List Nat
  | .fieldExtension => Nat
  | .proofOptions => Serde.ProofOptions
  | .traceInfo => Serde.TraceInfo
  | .context => Serde.Context
  | .commitments => Bytes
  | .queries => Serde.Queries
  | .oodFrame => Serde.OodFrame
  | .friLayer => Serde.FriLayer
  | .friProof => Serde.FriProof
  | .proof => Serde.Proof

def Ty.codec : (t : Ty) → Codec t.val
  | .key k => k.codec
  | .unit => Serde.unit
  | .opt t => Serde.option t.codec
  | .vec t => Serde.vec t.codec
  | .arr n t => Serde.array n t.codec
  | .pair a b => Serde.pair a.codec b.codec
  | .map k v => Serde.btreeMap k.cmp k.codec v.codec
  | .set k => Serde.btreeSet k.cmp k.codec
  | .elem f => Serde.elem f.impl
  | .quad f => Serde.quad f.impl
  | .cube f => Serde.cube f.impl
  | .byteDigest n => Serde.byteDigest n
  | .elemDigest64 => Serde.elemDigest64
  | .elemDigest62 => Serde.elemDigest62
  | .fieldExtension => Serde.fext
  | .proofOptions => Serde.proofOptions
  | .traceInfo => Serde.traceInfo
  | .context => Serde.context
  | .commitments => Serde.commitments
  | .queries => Serde.queries
  | .oodFrame => Serde.oodFrame
  | .friLayer => Serde.friLayer
  | .friProof => Serde.friProof
  | .proof => Serde.proof

theorem Ty.rt : ∀ t : Ty, t.codec.RT
  | .key k => k.rt
  | .unit => unit_RT
  | .opt t => option_RT t.rt
  | .vec t => vec_RT t.rt
  | .arr n t => array_RT n t.rt
  | .pair a b => pair_RT a.rt b.rt
  | .map k v => btreeMap_RT k.antisym k.rt v.rt
  | .set k => btreeSet_RT k.antisym k.rt
  | .elem f => elem_RT f.impl f.fits
  | .quad f => pair_RT (elem_RT f.impl f.fits) (elem_RT f.impl f.fits)
  | .cube f => pair_RT (elem_RT f.impl f.fits) (pair_RT (elem_RT f.impl f.fits) (elem_RT f.impl f.fits))
  | .byteDigest n => byteDigest_RT n
  | .elemDigest64 => elemDigest64_RT
  | .elemDigest62 => elemDigest62_RT
  | .fieldExtension => fext_RT
  | .proofOptions => proofOptions_RT
  | .traceInfo => traceInfo_RT
  | .context => context_RT
  | .commitments => commitments_RT
  | .queries => queries_RT
  | .oodFrame => oodFrame_RT
  | .friLayer => friLayer_RT
  | .friProof => friProof_RT
  | .proof => proof_RT

end WinterProofs.C12L
