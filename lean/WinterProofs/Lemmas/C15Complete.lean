-- C15: the honest prover run as a whole (layers as polynomials, the proof it opens, the remainder) and the
-- verifier's acceptance (helper lemmas; the property theorems are in WinterProofs/C15.lean)
import WinterProofs.Lemmas.C15Fold
import WinterProofs.Lemmas.C05Degree

namespace WinterProofs.C15

open Model.Fri Finset Polynomial

variable {F : Type} [Field F] [DecidableEq F]
variable (root : ℕ → F) (rootOk : ℕ → Bool) (offset : F)

local notation "ops" => fieldOps root rootOk offset

omit [DecidableEq F] in
/-- the folded evaluations, read over the same offset, are the evaluations of the folded polynomial in the
    variable `offset^(N-1)·y` -/
theorem evalsOf_fold_next (N m : ℕ) (hN : 0 < N) (g : F) (f : F[X]) (α : F) :
    ((List.range m).map fun i => (FriAlg.foldPoly N f α).eval ((offset * g ^ i) ^ N))
      = evalsOf offset (g ^ N) ((FriAlg.foldPoly N f α).comp (C (offset ^ (N - 1)) * X)) m := by
  unfold evalsOf
  apply List.map_congr_left
  intro i _
  rw [FriAlg.eval_comp_C_mul_X]
  congr 1
  rw [mul_pow, ← pow_mul, ← pow_mul, Nat.mul_comm i N]
  have : offset ^ N = offset ^ (N - 1) * offset := by
    rw [← pow_succ, Nat.sub_add_cancel hN]
  rw [this]
  ring

/-- the layers of the honest prover on the evaluations of a polynomial `h`: the loop succeeds and the last
    evaluations are those of `foldLayers N offset^(N-1) αs h` -/
theorem buildLayersLoop_poly (N : ℕ) (hN : 0 < N) (hoff : offset ≠ 0) :
    ∀ (k m : ℕ) (αs : List F) (h : F[X]), 0 < m → k ≤ αs.length →
      (∀ j, j < k → StepOK root rootOk N (m * N ^ (k - j))) →
      ∃ ls, buildLayersLoop ops N k αs (evalsOf offset (root (Nat.log2 (m * N ^ k))) h (m * N ^ k))
        = .ok (ls, evalsOf offset (root (Nat.log2 m))
            (FriAlg.foldLayers N (offset ^ (N - 1)) (αs.take k) h) m) := by
  intro k
  induction k with
  | zero =>
    intro m αs h _ _ _
    exact ⟨[], by simp [buildLayersLoop, FriAlg.foldLayers]⟩
  | succ k ih =>
    intro m αs h hm hα hsteps
    cases αs with
    | nil => simp at hα
    | cons α αs' =>
      have hm' : 0 < m * N ^ k := Nat.mul_pos hm (Nat.pow_pos hN)
      have hn' : m * N ^ (k + 1) = (m * N ^ k) * N := by rw [Nat.pow_succ, Nat.mul_assoc]
      have hs0 : StepOK root rootOk N (m * N ^ k * N) := by
        have := hsteps 0 (by omega)
        simp only [Nat.sub_zero] at this
        rwa [hn'] at this
      rw [hn']
      obtain ⟨rows, hT, _, _⟩ := transpose_some N
        (evalsOf offset (root (Nat.log2 (m * N ^ k * N))) h (m * N ^ k * N)) (m * N ^ k) hN
        (evalsOf_length offset _ h _)
      have hmN : m * N ^ k * N / N = m * N ^ k := Nat.mul_div_cancel _ hN
      have hζ : root (Nat.log2 N) = root (Nat.log2 (m * N ^ k * N)) ^ (m * N ^ k) := by
        rw [hs0.zeta, hmN]
      have hdrp := applyDrp_fold root rootOk offset N (m * N ^ k) hN hm' hs0.ok hs0.okN hs0.prim hζ hoff h α rows hT
      rw [evalsOf_fold_next offset N (m * N ^ k) hN] at hdrp
      have hnext : root (Nat.log2 (m * N ^ k)) = root (Nat.log2 (m * N ^ k * N)) ^ N := by
        have := hs0.next
        rwa [hmN] at this
      rw [← hnext] at hdrp
      obtain ⟨ls', hrec⟩ := ih m αs' ((FriAlg.foldPoly N h α).comp (C (offset ^ (N - 1)) * X)) hm
        (by simpa using hα)
        (fun j hj => by
          have := hsteps (j + 1) (by omega)
          rwa [Nat.succ_sub_succ] at this)
      refine ⟨⟨rows⟩ :: ls', ?_⟩
      simp only [buildLayersLoop, hT, hdrp, hrec, List.take_succ_cons, FriAlg.foldLayers]

/-- shape of the prover's layers: layer `j` has `n / N^(j+1)` rows -/
def LayersShape (N : ℕ) : List (Layer F) → ℕ → Prop
  | [], _ => True
  | l :: ls, n => l.rows.length = n / N ∧ LayersShape N ls (n / N)

/-- the layer loop succeeds on ANY evaluations of the right length (given the roots of unity and enough α's) -/
theorem buildLayersLoop_ok (N : ℕ) (hN : 0 < N) :
    ∀ (k m : ℕ) (αs evals : List F), 0 < m → k ≤ αs.length → evals.length = m * N ^ k →
      (∀ j, j < k → StepOK root rootOk N (m * N ^ (k - j))) →
      ∃ ls last, buildLayersLoop ops N k αs evals = .ok (ls, last) ∧ ls.length = k ∧
        LayersShape N ls (m * N ^ k) := by
  intro k
  induction k with
  | zero =>
    intro m αs evals _ _ _ _
    exact ⟨[], evals, by simp [buildLayersLoop], rfl, trivial⟩
  | succ k ih =>
    intro m αs evals hm hα hlen hsteps
    cases αs with
    | nil => simp at hα
    | cons α αs' =>
      have hm' : 0 < m * N ^ k := Nat.mul_pos hm (Nat.pow_pos hN)
      have hn' : m * N ^ (k + 1) = (m * N ^ k) * N := by rw [Nat.pow_succ, Nat.mul_assoc]
      have hs0 : StepOK root rootOk N (m * N ^ k * N) := by
        have := hsteps 0 (by omega)
        simp only [Nat.sub_zero] at this
        rwa [hn'] at this
      rw [hn'] at hlen ⊢
      obtain ⟨rows, hT, hrlen, _⟩ := transpose_some N evals (m * N ^ k) hN hlen
      have hmN : m * N ^ k * N / N = m * N ^ k := Nat.mul_div_cancel _ hN
      have hnpos : 0 < m * N ^ k * N := Nat.mul_pos hm' hN
      have hdrp := applyDrp_rows root rootOk offset N rows α (by rw [hrlen]; omega)
        (by rw [hrlen]; exact hs0.ok) hs0.okN
      obtain ⟨ls', last, hrec, hl, hshape⟩ := ih m αs' _ hm (by simpa using hα)
        (by simp [hrlen] : (List.map (fun i => drpRow ops (root (Nat.log2 N) ^ (N - 1)) ((N : F))⁻¹ α
          (rows.getD i []) (offset⁻¹ * (root (Nat.log2 (rows.length * N)))⁻¹ ^ i))
          (List.range rows.length)).length = m * N ^ k)
        (fun j hj => by
          have := hsteps (j + 1) (by omega)
          rwa [Nat.succ_sub_succ] at this)
      refine ⟨⟨rows⟩ :: ls', last, ?_, by simp [hl], ?_⟩
      · simp only [buildLayersLoop, hT, hdrp, hrec]
      · exact ⟨by rw [hrlen, hmN], by rw [hmN]; exact hshape⟩

omit [Field F] [DecidableEq F] in
/-- the proof layers can be opened at any in-range positions -/
theorem queryLayers_ok (N : ℕ) :
    ∀ (ls : List (Layer F)) (n : ℕ) (P : List ℕ), LayersShape N ls n → (∀ p ∈ P, p < n) →
      (∀ j, j < ls.length → 0 < n / N ^ (j + 1)) →
      ∃ pls, queryLayers N ls P n = .ok pls := by
  intro ls
  induction ls with
  | nil => intro n P _ _ _; exact ⟨[], rfl⟩
  | cons l ls ih =>
    intro n P hshape hP hpos
    obtain ⟨hl, hshape'⟩ := hshape
    have h0 : 0 < n / N := by simpa using hpos 0 (by simp)
    have hne : n / N ≠ 0 := by omega
    have hfold := foldPositions_eq P n N hne
    have hflt : ∀ q ∈ dedupKeepFirst (P.map (· % (n / N))), q < n / N :=
      foldPositions_lt hne hfold
    obtain ⟨pl, hq, _, _⟩ := queryLayer_some l _ (by intro p hp; rw [hl]; exact hflt p hp)
    obtain ⟨pls, hrec⟩ := ih (n / N) _ hshape' hflt
      (fun j hj => by
        have := hpos (j + 1) (by simp; omega)
        rwa [Nat.pow_succ, Nat.mul_comm, ← Nat.div_div_eq_div_mul] at this)
    exact ⟨pl :: pls, by simp only [queryLayers, hfold, hq, hrec]⟩

/-- `t·N^L / N^j` is divisible by `N` below the last layer -/
theorem div_pow_mod (t N L j : ℕ) (hN : 0 < N) (hj : j < L) : (t * N ^ L / N ^ j) % N = 0 := by
  have h1 : t * N ^ L = t * N ^ (L - j - 1) * N * N ^ j := by
    have : L = (L - j - 1) + 1 + j := by omega
    conv_lhs => rw [this, Nat.pow_add, Nat.pow_succ]
    ring
  rw [h1, Nat.mul_div_cancel _ (Nat.pow_pos hN), Nat.mul_mod_left]

/-- the remainder the honest prover keeps evaluates to the last layer wherever the last layer's polynomial has
    fewer than `t` coefficients -/
theorem horner_take_interpolate (n t : ℕ) (hn : 0 < n) (htn : t ≤ n)
    (hg : IsPrimitiveRoot (root (Nat.log2 n)) n) (hoff : offset ≠ 0) (h : F[X]) (hdeg : h.natDegree < t)
    (x : F) :
    horner ops ((interpolateWithOffset ops (evalsOf offset (root (Nat.log2 n)) h n)).take t) x = h.eval x := by
  rw [horner_fieldOps]
  have hlen : ((interpolateWithOffset ops (evalsOf offset (root (Nat.log2 n)) h n)).take t).length = t := by
    rw [List.length_take, interpolateWithOffset_length, evalsOf_length]
    omega
  rw [hlen, Polynomial.eval_eq_sum_range' hdeg]
  apply Finset.sum_congr rfl
  intro k hk
  have hk' : k < t := by simpa using hk
  congr 1
  have : (List.take t (interpolateWithOffset ops (evalsOf offset (root (Nat.log2 n)) h n))).getD k 0
      = (interpolateWithOffset ops (evalsOf offset (root (Nat.log2 n)) h n)).getD k 0 := by
    simp [List.getD_eq_getElem?_getD, hk']
  rw [this]
  exact interpolateWithOffset_coeff root rootOk offset n hn hg hoff h (by omega) _ rfl k

omit [Field F] [DecidableEq F] in
/-- `build_proof` on a state whose layers can be opened: the proof, and the initial state again -/
theorem buildProof_ok (o : Opts) (ls : List (Layer F)) (rem : List F) (positions : List ℕ) (n : ℕ)
    (pls : List (ProofLayer F))
    (hdom : ∀ l ls', ls = l :: ls' → l.rows.length * o.folding = n)
    (hq : queryLayers o.folding ls positions n = .ok pls) (hrem : rem ≠ [])
    (hpow2 : 2 ^ Nat.log2 rem.length = rem.length) (hne : ∀ pl ∈ pls, pl ≠ []) :
    Prover.buildProof o ⟨ls, rem⟩ positions = .ok (Prover.init, pls, rem) := by
  unfold Prover.buildProof
  have h1 : rem.isEmpty = false := by
    cases rem with
    | nil => exact absurd rfl hrem
    | cons _ _ => rfl
  have h2 : (pls.any fun x => x.isEmpty) = false := by
    rw [List.any_eq_false]
    intro pl hpl
    have := hne pl hpl
    cases pl with
    | nil => exact absurd rfl this
    | cons _ _ => simp
  cases ls with
  | nil =>
    simp only [queryLayers] at hq
    cases hq
    simp [h1, queryLayers, hpow2, Prover.reset, Prover.init]
  | cons l ls' =>
    have := hdom l ls' rfl
    simp only [h1, Bool.false_eq_true, ↓reduceIte, this, hq, hpow2, ne_eq, not_true_eq_false, h2]
    rfl

open WinterProofs.C05 in
/-- COMPLETENESS on the model: for a polynomial within the degree bound the honest prover does not panic, its
    state after `build_proof` is the initial state, the remainder has `t` coefficients, and the (repaired)
    verifier accepts the proof — for every non-empty list of in-range query positions (duplicates and positions
    that collide after folding included).  `t·N^L` is the number of coefficients (trace length), `t ≥ 1` the
    number of remainder coefficients: configurations whose folding overshoots the remainder are excluded. -/
theorem fri_complete_model (o : Opts) (t L : ℕ) (ht : 0 < t) (hb : 0 < o.blowup)
    (hpow : nextPow2 (t * o.folding ^ L) = t * o.folding ^ L)
    (ht2 : 2 ^ Nat.log2 t = t)
    (hL : numFriLayers o (t * o.blowup * o.folding ^ L) = L)
    (hsteps : ∀ j, j < L → StepOK root rootOk o.folding (t * o.blowup * o.folding ^ (L - j)))
    (hlastok : rootOk (Nat.log2 (t * o.blowup)) = true)
    (hlastprim : IsPrimitiveRoot (root (Nat.log2 (t * o.blowup))) (t * o.blowup))
    (hlast2 : 2 ^ Nat.log2 (t * o.blowup) = t * o.blowup)
    (hoff : offset ≠ 0) (f : F[X]) (hf : f.natDegree < t * o.folding ^ L)
    (αs : List F) (hαs : αs.length = L + 1)
    (positions : List ℕ) (hpos : ∀ p ∈ positions, p < t * o.blowup * o.folding ^ L) (hne : positions ≠ [])
    {D : Type} [BEq D] [LawfulBEq D] (hashRem : List F → D) (layerCommits : List D)
    (hlc : layerCommits.length = L) :
    ∃ st pls rem,
      Prover.buildLayers ops o Prover.init αs
        (evalsOf offset (root (Nat.log2 (t * o.blowup * o.folding ^ L))) f (t * o.blowup * o.folding ^ L)) = .ok st ∧
      st.buildProof o positions = .ok (Prover.init, pls, rem) ∧
      rem.length = t ∧
      verify ops true hashRem o
        { maxPolyDegree := t * o.folding ^ L - 1
          numPartitions := 1
          commitments := layerCommits ++ [hashRem rem]
          alphas := αs
          layers := pls.map (fun pl => ⟨true, pl⟩)
          remainder := rem
          positions := positions
          evaluations := positions.map
            ((evalsOf offset (root (Nat.log2 (t * o.blowup * o.folding ^ L))) f
              (t * o.blowup * o.folding ^ L)).getD · 0) } = .ok () := by
  set N := o.folding with hNdef
  set b := o.blowup with hbdef
  have hN : 0 < N := by have := o.two_le; omega
  set n := t * b * N ^ L with hndef
  set evals := evalsOf offset (root (Nat.log2 n)) f n with hevdef
  have hm : 0 < t * b := Nat.mul_pos ht hb
  have hnpos : 0 < n := Nat.mul_pos hm (Nat.pow_pos hN)
  have hevlen : evals.length = n := evalsOf_length offset _ f n
  -- the prover's layers
  obtain ⟨ls, last, hbuild, hlslen, hshape⟩ :=
    buildLayersLoop_ok root rootOk offset N hN L (t * b) αs evals hm (by omega) hevlen hsteps
  obtain ⟨ls2, hpoly⟩ := buildLayersLoop_poly root rootOk offset N hN hoff L (t * b) αs f hm (by omega) hsteps
  rw [← hndef, ← hevdef, hbuild] at hpoly
  have hlast : last = evalsOf offset (root (Nat.log2 (t * b)))
      (FriAlg.foldLayers N (offset ^ (N - 1)) (αs.take L) f) (t * b) := by
    have := Res.ok.inj hpoly
    exact (Prod.mk.inj this).2
  set hL' := FriAlg.foldLayers N (offset ^ (N - 1)) (αs.take L) f with hL'def
  have hdegL : hL'.natDegree < t := by
    apply FriAlg.low_degree_foldLayers hN (pow_ne_zero _ hoff)
    rw [List.length_take, hαs, Nat.min_eq_left (by omega), Nat.mul_comm]
    exact hf
  have hlastlen : last.length = t * b := by rw [hlast]; exact evalsOf_length _ _ _ _
  -- the remainder
  set rem := (interpolateWithOffset ops last).take (last.length / b) with hremdef
  have htb : t * b / b = t := Nat.mul_div_cancel t hb
  have hremlen : rem.length = t := by
    rw [hremdef, List.length_take, interpolateWithOffset_length, hlastlen, htb]
    exact Nat.min_eq_left (Nat.le_mul_of_pos_right t hb)
  have hst : Prover.buildLayers ops o Prover.init αs evals = .ok ⟨ls, rem⟩ := by
    unfold Prover.buildLayers
    simp only [Prover.init, List.isEmpty_nil, Bool.not_true, Bool.false_eq_true, ↓reduceIte, hevlen, ← hNdef]
    rw [hL, hbuild]
    simp only [setRemainder, hlastlen, hlast2, ne_eq, not_true_eq_false, false_or, fieldOps_rootOk, hlastok,
      Bool.not_true, Bool.false_eq_true, ↓reduceIte, ← hbdef]
    have : ¬ (t * b = 0) := by omega
    simp [this, hremdef, hlastlen]
  -- the proof
  have hdomsize : ∀ l ls', ls = l :: ls' → l.rows.length * N = n := by
    intro l ls' hls
    subst hls
    obtain ⟨h1, _⟩ := hshape
    rw [h1]
    have hLpos : 0 < L := by rw [← hlslen]; simp
    have : N ∣ n := by
      rw [hndef]
      exact Dvd.dvd.mul_left (dvd_pow_self N (by omega)) _
    exact Nat.div_mul_cancel this
  obtain ⟨pls, hquery⟩ := queryLayers_ok N ls n positions hshape hpos (by
    intro j hj
    rw [hlslen] at hj
    have h1 : n = t * b * N ^ (L - (j + 1)) * N ^ (j + 1) := by
      have hLj : L = (L - (j + 1)) + (j + 1) := by omega
      rw [hndef, Nat.mul_assoc (t * b), ← Nat.pow_add, ← hLj]
    rw [h1, Nat.mul_div_cancel _ (Nat.pow_pos hN)]
    exact Nat.mul_pos hm (Nat.pow_pos hN))
  -- the verifier's layer loop on this proof
  set inp : VInput F D :=
    { maxPolyDegree := t * N ^ L - 1
      numPartitions := 1
      commitments := layerCommits ++ [hashRem rem]
      alphas := αs
      layers := pls.map (fun pl => ⟨true, pl⟩)
      remainder := rem
      positions := positions
      evaluations := positions.map (evals.getD · 0) } with hinp
  have hTpos : 0 < t * N ^ L := Nat.mul_pos ht (Nat.pow_pos hN)
  have hT1 : t * N ^ L - 1 + 1 = t * N ^ L := by omega
  obtain ⟨Pk, hPk, _, _, hplslen, hplsne, hchain⟩ :=
    honest_chain root rootOk offset N hN hoff inp L 0 (t * b) n evals αs positions (t * N ^ L) ls last pls
      hm rfl hevlen hsteps hpos hbuild hquery
      (fun j hj => by simp [hinp])
      (fun j hj => by simp [hinp])
      (fun j hj => div_pow_mod t N L j hN hj)
  refine ⟨⟨ls, rem⟩, pls, rem, hst, ?_, hremlen, ?_⟩
  · -- build_proof
    apply buildProof_ok o ls rem positions n pls hdomsize hquery
    · intro h0
      rw [h0] at hremlen
      simp at hremlen
      omega
    · rw [hremlen]; exact ht2
    · exact hplsne hne
  · -- verify
    have hdom : nextPow2 (inp.maxPolyDegree + 1) * o.blowup = n := by
      show nextPow2 (t * N ^ L - 1 + 1) * b = n
      rw [hT1, hpow, hndef]
      ring
    have hTdiv : t * N ^ L / N ^ L = t := Nat.mul_div_cancel t (Nat.pow_pos hN)
    have hrootn : rootOk (Nat.log2 n) = true := by
      rcases Nat.eq_zero_or_pos L with h0 | hpos'
      · rw [hndef, h0]; simpa using hlastok
      · have := (hsteps 0 hpos').ok
        simpa using this
    apply verify_of_checks ops true hashRem o inp (by rw [hdom]; omega) (by rw [hdom]; exact hrootn)
      (by simp [hinp, hαs, hlc])
      (by
        apply newChecks_of_div
        intro j hj hne'
        show ((t * N ^ L - 1 + 1) / N ^ j) % N = 0
        rw [hT1]
        have hlen' : inp.commitments.length = L + 1 := by simp [hinp, hlc]
        rw [hlen'] at hj hne'
        exact div_pow_mod t N L j hN (by omega))
      (by simp [hinp]) rfl
      (by
        intro d hd
        rw [hdom, hL] at hd
        simp only [hinp]
        rw [List.getElem?_append_left (by omega)]
        simp [hlc, hd])
      ⟨Pk, Pk.map (last.getD · 0), root (Nat.log2 (t * b)), t * b, t * N ^ L / N ^ L⟩
    · -- the chain
      rw [hdom, hL]
      have hinit : initState ops o inp = ⟨positions, positions.map (evals.getD · 0), root (Nat.log2 n), n, t * N ^ L⟩ := by
        unfold initState
        simp only [hdom]
        simp [hinp, hT1]
      rw [hinit]
      rcases Nat.eq_zero_or_pos L with h0 | hpos'
      · -- no layers: the chain is empty whatever the folding roots are
        subst h0
        exact Chain.zero_roots _ _ _ _ _ hchain
      · have hroots : foldingRoots ops o inp = (List.range N).map fun i => root (Nat.log2 N) ^ i := by
          unfold foldingRoots
          simp only [hdom]
          apply List.map_congr_left
          intro i _
          rw [pow_fieldOps]
          have hz := (hsteps 0 hpos').zeta
          simp only [Nat.sub_zero] at hz
          rw [hz, ← pow_mul]
          rfl
        rw [hroots]
        exact hchain
    · -- the remainder
      rw [hdom, hL]
      apply verifyRemainder_of_checks
      · unfold remainderCommitted
        simp only [hinp]
        rw [List.getElem?_append_right (by omega)]
        simp [hlc]
      · show rem.length ≤ t * N ^ L / N ^ L
        rw [hTdiv, hremlen]
      · intro pe hpe
        simp only [fieldOps_beq, decide_eq_true_eq, fieldOps_mul, fieldOps_offset, pow_fieldOps]
        obtain ⟨k, hk, rfl⟩ := List.getElem_of_mem hpe
        simp only [List.getElem_zip, List.getElem_map]
        have hk' : k < Pk.length := by simpa using hk
        have hp : Pk[k] < t * b := hPk _ (List.getElem_mem hk')
        show horner ops rem (offset * root (Nat.log2 (t * b)) ^ Pk[k]) = last.getD Pk[k] 0
        have hlastget : last.getD Pk[k] 0 = hL'.eval (offset * root (Nat.log2 (t * b)) ^ Pk[k]) := by
          rw [hlast, List.getD_eq_getElem?_getD, evalsOf_getElem? offset _ _ _ _ hp]
          rfl
        rw [hlastget, hremdef, hlastlen, htb, hlast]
        exact horner_take_interpolate root rootOk offset (t * b) t hm (Nat.le_mul_of_pos_right t hb)
          hlastprim hoff hL' hdegL _

end WinterProofs.C15
