-- C15: configurations whose folding overshoots the remainder admit no proof (helper lemmas for the witness of
-- the known finding `fri.overshoot-config.panic`); generic over the field operations, no Mathlib
import Winter.Model.Fri
import WinterProofs.Lemmas.C15Layout

namespace WinterProofs.C15
open Model.Fri

variable {α : Type}

theorem powerSeries_length' (F : FOps α) (b s : α) (n : Nat) : (powerSeries F b s n).length = n := by
  induction n generalizing s with
  | zero => rfl
  | succ n ih => simp [powerSeries, ih]

theorem applyDrp_length (F : FOps α) (N : Nat) (rows : List (List α)) (a : α) (out : List α)
    (h : applyDrp F N rows a = .ok out) : out.length = rows.length := by
  unfold applyDrp at h
  simp only at h
  split at h
  · exact absurd h (by simp)
  · split at h
    · exact absurd h (by simp)
    · split at h
      · exact absurd h (by simp)
      · cases h
        simp [powerSeries_length']

theorem mapM_option_length {β γ : Type} (f : β → Option γ) :
    ∀ (xs : List β) (ys : List γ), xs.mapM f = some ys → ys.length = xs.length
  | [], ys, h => by
    rw [mapM_option_nil] at h
    cases h
    rfl
  | x :: xs, ys, h => by
    rw [mapM_option_cons] at h
    cases hx : f x with
    | none => rw [hx] at h; simp at h
    | some y =>
      rw [hx] at h
      cases hxs : xs.mapM f with
      | none => rw [hxs] at h; simp at h
      | some ys' =>
        rw [hxs] at h
        simp only [Option.bind_some, Option.some.injEq] at h
        subst h
        simp [mapM_option_length f xs ys' hxs]

theorem transpose_length (N : Nat) (xs : List α) (rows : List (List α)) (h : transpose N xs = some rows) :
    rows.length = xs.length / N := by
  unfold transpose at h
  simp only at h
  split at h
  · exact absurd h (by simp)
  · have := mapM_option_length _ _ _ h
    simpa using this

/-- the last evaluations of the layer loop have length `len / N^k` -/
theorem buildLayersLoop_length (F : FOps α) (N : Nat) :
    ∀ (k : Nat) (αs evals : List α) (ls : List (Layer α)) (last : List α),
      buildLayersLoop F N k αs evals = .ok (ls, last) → last.length = evals.length / N ^ k
  | 0, _, evals, ls, last, h => by
    simp only [buildLayersLoop] at h
    cases h
    simp
  | k + 1, [], _, _, _, h => by simp [buildLayersLoop] at h
  | k + 1, a :: αs, evals, ls, last, h => by
    simp only [buildLayersLoop] at h
    split at h
    · exact absurd h (by simp)
    · rename_i rows hT
      split at h
      · rename_i evals' hdrp
        split at h
        · rename_i ls' last' hrec
          cases h
          have h1 := buildLayersLoop_length F N k αs evals' ls' last hrec
          have h2 := applyDrp_length F N rows a evals' hdrp
          have h3 := transpose_length N evals rows hT
          rw [h1, h2, h3, Nat.div_div_eq_div_mul, Nat.pow_succ, Nat.mul_comm]
        · exact absurd h (by simp)
        · exact absurd h (by simp)
      · exact absurd h (by simp)
      · exact absurd h (by simp)

/-- When the folding overshoots the remainder (the last domain is smaller than the blowup factor) the honest
    prover cannot produce a proof: whenever `build_layers` returns at all, the remainder is empty and
    `build_proof` panics — for every polynomial, every α and every query list. -/
theorem overshoot_no_proof (F : FOps α) (o : Opts) (αs evals : List α) (positions : List Nat)
    (hover : evals.length / o.folding ^ numFriLayers o evals.length < o.blowup)
    (st : Prover α) (h : Prover.buildLayers F o Prover.init αs evals = .ok st) :
    ∃ s, st.buildProof o positions = .panic s := by
  unfold Prover.buildLayers at h
  simp only [Prover.init, List.isEmpty_nil, Bool.not_true, Bool.false_eq_true, ↓reduceIte] at h
  split at h
  · rename_i ls last hloop
    have hlen := buildLayersLoop_length F o.folding _ αs evals ls last hloop
    split at h
    · rename_i rem hrem
      cases h
      unfold setRemainder at hrem
      split at hrem
      · exact absurd hrem (by simp)
      · split at hrem
        · exact absurd hrem (by simp)
        · cases hrem
          have h0 : last.length / o.blowup = 0 := by
            rw [hlen]
            exact Nat.div_eq_of_lt hover
          refine ⟨"build_proof.not-built", ?_⟩
          unfold Prover.buildProof
          simp [h0]
    · exact absurd h (by simp)
    · exact absurd h (by simp)
  · exact absurd h (by simp)
  · exact absurd h (by simp)

end WinterProofs.C15
