-- C02 / C03 helper lemmas: what the public coin has absorbed when the query positions are drawn
import WinterProofs.Lemmas.C02Decision

set_option linter.unusedSectionVars false

namespace WinterProofs.C02L
open Model Model.VerifierChecks
variable {C D V : Type} [DecidableEq D] [DecidableEq V]

/-- what the transcript theorems need to know about the coin: its state has a "seed" component that
    `new` sets to a hash of the seed elements, `reseed` merges a digest into, and draws leave alone
    (`DefaultRandomCoin`: `seed`, `hash_elements`, `merge`; draws only move the counter) -/
structure CoinLaws (K : CoinOps C D V) (S : Type) where
  seedOf : C → S
  h : List Nat → S
  merge : S → D → S
  new_seed : ∀ s, seedOf (K.new s) = h s
  reseed_seed : ∀ c d, seedOf (K.reseed c d) = merge (seedOf c) d
  draw_seed : ∀ c v c', K.draw c = some (v, c') → seedOf c' = seedOf c

theorem drawMany_seed {K : CoinOps C D V} {S : Type} (L : CoinLaws K S) :
    ∀ (k : Nat) (c : C) (vs : List V) (c' : C), drawMany K k c = some (vs, c') → L.seedOf c' = L.seedOf c := by
  intro k
  induction k with
  | zero => intro c vs c' h; simp only [drawMany] at h; injection h with h; injection h with _ h; rw [← h]
  | succ k ih =>
    intro c vs c' h
    simp only [drawMany] at h
    split at h
    · cases h
    · rename_i v c1 hd
      split at h
      · cases h
      · rename_i vs' c2 hm
        injection h with h; injection h with _ h
        rw [← h, ih _ _ _ hm, L.draw_seed _ _ _ hd]

theorem friNew_seed {K : CoinOps C D V} {S : Type} (L : CoinLaws K S) {N total : Nat} :
    ∀ (roots : List D) (depth md : Nat) (c : C) (as : List V) (c' : C) (log : List D),
      friNew K N total roots depth md c = .ok (as, c', log) → L.seedOf c' = roots.foldl L.merge (L.seedOf c) := by
  intro roots
  induction roots with
  | nil => intro depth md c as c' log h; simp only [friNew] at h; injection h with h; simp only [Prod.mk.injEq] at h; rw [← h.2.1]; rfl
  | cons r rs ih =>
    intro depth md c as c' log h
    simp only [friNew] at h
    split at h
    · cases h
    · rename_i alpha c1 hd
      split at h
      · cases h
      · split at h
        · rename_i as0 c0 log0 hrec
          injection h with h; simp only [Prod.mk.injEq] at h
          rw [← h.2.1, ih _ _ _ _ _ _ hrec, L.draw_seed _ _ _ hd, L.reseed_seed]; rfl
        · cases h

theorem auxPhase_seed {K : CoinOps C D V} {S : Type} (L : CoinLaws K S) {A : AirInst C D V}
    (hg : ∀ g c lag c', A.gkrVerify g c = some (lag, c') → L.seedOf c' = L.seedOf c)
    {cm : Committed V D} {c1 : C} {r0 : D} {rest : List D} {ar lr : List V} {c2 : C} {log : List D}
    (h : auxPhase K A cm c1 r0 rest = .ok (ar, lr, c2, log)) :
    L.seedOf c2 = (log.drop 1).foldl L.merge (L.seedOf c1) := by
  unfold auxPhase at h
  split at h
  · injection h with h; simp only [Prod.mk.injEq] at h; rw [← h.2.2.1, ← h.2.2.2]; rfl
  · split at h
    · cases h
    · rename_i r1 rest'
      split at h
      · split at h
        · cases h
        · rename_i g hgk
          split at h
          · cases h
          · rename_i lag c2' hv
            split at h
            · cases h
            · rename_i ar' c3 hdm
              injection h with h; simp only [Prod.mk.injEq] at h
              rw [← h.2.2.1, ← h.2.2.2, L.reseed_seed, drawMany_seed L _ _ _ _ hdm, hg _ _ _ _ hv]; rfl
      · split at h
        · cases h
        · rename_i ar' c3 hdm
          injection h with h; simp only [Prod.mk.injEq] at h
          rw [← h.2.2.1, ← h.2.2.2, L.reseed_seed, drawMany_seed L _ _ _ _ hdm]; rfl

/-- **transcript**: the seed component of the coin from which the query positions are drawn is the
    statement's seed merged, in order, with every digest of `log` -/
theorem transcript {W : Verifier C D V} {S : Type} (L : CoinLaws W.coin S) {ctx : Serde.Context}
    (hg : ∀ g c lag c', (W.air ctx).gkrVerify g c = some (lag, c') → L.seedOf c' = L.seedOf c)
    {cm : Committed V D} {ch : Challenges C D V} (h : challenges W ctx cm = .ok ch) :
    L.seedOf ch.coinAtQueries = ch.log.foldl L.merge (L.h (coinSeed W.elemBytes ctx W.pubElems)) := by
  obtain ⟨r0, rest, c2, log2, c3, c4, c7, c8, flog, ps, hroots, haux, hco, hz, _, hdeep, hfri, _, _, _, hc8, hlog⟩ :=
    (challenges_ok h).ex
  have hl2 : log2 = r0 :: log2.drop 1 := by
    rcases auxPhase_log haux with ⟨_, hl⟩ | ⟨_, r1, rest', _, hl⟩ <;> rw [hl] <;> rfl
  have hf := friNew_log _ _ _ _ hfri
  rw [hc8, hlog, friNew_seed L _ _ _ _ _ _ _ hfri, drawMany_seed L _ _ _ _ hdeep, L.reseed_seed, L.reseed_seed,
    L.draw_seed _ _ _ hz, L.reseed_seed, drawMany_seed L _ _ _ _ hco, auxPhase_seed L hg haux, L.reseed_seed, L.new_seed,
    hf.1]
  conv => rhs; rw [hl2]
  simp [List.foldl_append]

/-- a chain of merges determines its start and every merged digest, when the hash of the seed and the
    merge are collision free and never collide with each other (the cryptographic idealisation) -/
theorem chain_inj {α S : Type} (h0 : α → S) (merge : S → D → S) (hinj : Function.Injective h0)
    (minj : ∀ s d s' d', merge s d = merge s' d' → s = s' ∧ d = d') (hdisj : ∀ a s d, h0 a ≠ merge s d) :
    ∀ (l1 l2 : List D) (a1 a2 : α), l1.foldl merge (h0 a1) = l2.foldl merge (h0 a2) → a1 = a2 ∧ l1 = l2 := by
  have key : ∀ (r1 r2 : List D) (a1 a2 : α),
      r1.foldr (fun d s => merge s d) (h0 a1) = r2.foldr (fun d s => merge s d) (h0 a2) → a1 = a2 ∧ r1 = r2 := by
    intro r1
    induction r1 with
    | nil =>
      intro r2 a1 a2 h
      cases r2 with
      | nil => exact ⟨hinj h, rfl⟩
      | cons d r2 => exact absurd h (hdisj _ _ _)
    | cons d r1 ih =>
      intro r2 a1 a2 h
      cases r2 with
      | nil => exact absurd h.symm (hdisj _ _ _)
      | cons d' r2 =>
        simp only [List.foldr_cons] at h
        obtain ⟨hs, hd⟩ := minj _ _ _ _ h
        obtain ⟨ha, hl⟩ := ih _ _ _ hs
        exact ⟨ha, by rw [hl, hd]⟩
  intro l1 l2 a1 a2 h
  have := key l1.reverse l2.reverse a1 a2 (by simpa [List.foldr_reverse] using h)
  exact ⟨this.1, by have h2 := congrArg List.reverse this.2; simpa using h2⟩

end WinterProofs.C02L
