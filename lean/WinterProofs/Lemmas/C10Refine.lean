-- C10 helper lemmas: the code-shaped `get_root` refines the specification `specRoot`
import WinterProofs.Lemmas.C10Struct
import WinterProofs.Lemmas.C10Batch
import WinterProofs.Lemmas.C10Bind
import WinterProofs.Lemmas.C10Asm

namespace WinterProofs.C10
open Model.Merkle

variable {D : Type}

/-- the proof nodes one level of `get_root` reads, in the order it reads them, and the advanced
    proof pointers (lock-step over positions, rows and pointers as `rootLevel`) -/
def readLevel : List Nat → List (List D) → List Nat → Option (List D × List Nat)
  | [], _, ptrs => some ([], ptrs)
  | [_], rows, ptrs =>
    match rows, ptrs with
    | row :: _, ptr :: ptrs' => (row[ptr]?).map (fun s => ([s], (ptr + 1) :: ptrs'))
    | _, _ => none
  | k :: k' :: rest, rows, ptrs =>
    if k' = xor1 k then
      match rows, ptrs with
      | _ :: _ :: rows', p0 :: p1 :: ptrs' => (readLevel rest rows' ptrs').map (fun r => (r.1, p0 :: p1 :: r.2))
      | _, _ => none
    else
      match rows, ptrs with
      | row :: rows', ptr :: ptrs' =>
        match row[ptr]? with
        | none => none
        | some s => (readLevel (k' :: rest) rows' ptrs').map (fun r => (s :: r.1, (ptr + 1) :: r.2))
      | _, _ => none

def readLevels (rows : List (List D)) : Nat → List Nat → List Nat → Option (List D × List Nat)
  | 0, _, ptrs => some ([], ptrs)
  | l + 1, K, ptrs =>
    match readLevel K rows ptrs with
    | none => none
    | some (s, ptrs') => (readLevels rows l (parents K) ptrs').map (fun r => (s ++ r.1, r.2))

/-- the first loop of `get_root` reads the head of the row of every pair with a missing leaf -/
def readLeaves (imap : SMap Nat) : List Nat → List (List D) → Option (List D × List Nat)
  | [], _ => some ([], [])
  | _ :: _, [] => none
  | e :: norm, row :: rows =>
    if SMap.get imap e ≠ none ∧ SMap.get imap (e + 1) ≠ none then
      (readLeaves imap norm rows).map (fun r => (r.1, 0 :: r.2))
    else
      match row with
      | [] => none
      | s :: _ => (readLeaves imap norm rows).map (fun r => (s :: r.1, 1 :: r.2))

/-- the rows of an opening flattened in the order `get_root` consumes them; `none` when a row is
    too short or not consumed to its end -/
def flattenRows (imap : SMap Nat) (p : BatchProof D) (norm : List Nat) : Option (List D) :=
  match readLeaves imap norm p.nodes with
  | none => none
  | some (s0, ptrs) =>
    match readLevels p.nodes (p.depth - 1) (norm.map (fun e => (2 ^ p.depth + e) / 2)) ptrs with
    | none => none
    | some (s1, ptrs') => if anyUnused ptrs' p.nodes then none else some (s0 ++ s1)

/-- The structural refinement (proved below as `getRoot_refines`): for every `merge`, every opening
    of depth ≥ 1 and every position list that passes the index checks, `get_root` is `specRoot` on the
    sorted frontier of the opening's leaves and the rows flattened in consumption order. -/
def GetRootRefinesSpec (H : Hasher D) : Prop :=
  ∀ (p : BatchProof D) (idxs : List Nat) (imap : SMap Nat), 1 ≤ p.depth → idxs ≠ [] → idxs.length ≤ 255 →
    idxs.length = p.leaves.length → mapIndexes idxs p.depth = .ok imap →
    (normalizeIndexes idxs).length = p.nodes.length →
    getRoot H p idxs =
      match flattenRows imap p (normalizeIndexes idxs) with
      | none => .err .invalid
      | some ns =>
        match specRoot H p.depth (leafFrontier p.depth idxs p.leaves []) ns with
        | some r => .ok r
        | none => .err .invalid


end WinterProofs.C10

namespace WinterProofs.C10
open Model.Merkle

variable {D : Type}

/-- a frontier entry read from the map of hashed nodes -/
def tagV (H : Hasher D) (v : SMap D) (k : Nat) : Nat × D := (k, (SMap.get v k).getD H.dflt)

theorem tagV_of_get (H : Hasher D) {v : SMap D} {k : Nat} {x : D} (h : SMap.get v k = some x) :
    tagV H v k = (k, x) := by simp [tagV, h]

theorem map_tagV_fst (H : Hasher D) (v : SMap D) (K : List Nat) : (K.map (tagV H v)).map Prod.fst = K := by
  simp [List.map_map, Function.comp_def, tagV]

theorem map_tagV_congr (H : Hasher D) {v v2 : SMap D} {K : List Nat}
    (h : ∀ k ∈ K, SMap.get v2 k = SMap.get v k) : K.map (tagV H v2) = K.map (tagV H v) := by
  apply List.map_congr_left
  intro k hk
  simp [tagV, h k hk]

theorem readLevel_nil (rows : List (List D)) (ptrs : List Nat) : readLevel ([] : List Nat) rows ptrs = some ([], ptrs) := by
  simp [readLevel]

theorem readLevel_single (k : Nat) (rest : List Nat) (hn : NotMerged k rest)
    (row : List D) (rows : List (List D)) (ptr : Nat) (ptrs : List Nat) :
    readLevel (k :: rest) (row :: rows) (ptr :: ptrs) =
      match row[ptr]? with
      | none => none
      | some s => (readLevel rest rows ptrs).map (fun r => (s :: r.1, (ptr + 1) :: r.2)) := by
  cases rest with
  | nil =>
    simp only [readLevel]
    cases row[ptr]? <;> simp
  | cons k' rest' =>
    have : k' ≠ xor1 k := hn k' rest' rfl
    simp only [readLevel, if_neg this]

theorem readLevel_merged (k : Nat) (rest : List Nat) (r0 r1 : List D) (rows : List (List D)) (p0 p1 : Nat)
    (ptrs : List Nat) :
    readLevel (k :: xor1 k :: rest) (r0 :: r1 :: rows) (p0 :: p1 :: ptrs) =
      (readLevel rest rows ptrs).map (fun r => (r.1, p0 :: p1 :: r.2)) := by
  simp only [readLevel, if_true]

/-- one level: the outcome of `rootLevel` is determined by the nodes it reads, and on them it is
    one level of the specification -/
theorem rootLevel_read (H : Hasher D) : ∀ (K : List Nat) (rows : List (List D)) (ptrs : List Nat) (v : SMap D),
    Asc K → K.length ≤ rows.length → K.length ≤ ptrs.length → (∀ k ∈ K, (SMap.get v k).isSome) →
    (readLevel K rows ptrs = none → rootLevel H K rows ptrs v = .err .invalid) ∧
    (∀ sibs ptrs1, readLevel K rows ptrs = some (sibs, ptrs1) →
      ∃ v1, rootLevel H K rows ptrs v = .ok (v1, ptrs1, parents K) ∧
        (∀ k1 ∈ parents K, (SMap.get v1 k1).isSome) ∧
        (∀ key, (∀ k ∈ K, key < k / 2) → SMap.get v1 key = SMap.get v key) ∧
        ∀ rest, specLevel H (K.map (tagV H v)) (sibs ++ rest) = some ((parents K).map (tagV H v1), rest)) := by
  intro K
  induction K using level_induction with
  | nil =>
    intro rows ptrs v _ _ _ _
    refine ⟨by simp [readLevel_nil], ?_⟩
    intro sibs ptrs1 h
    rw [readLevel_nil] at h
    injection h with h; injection h with h1 h2; subst h1; subst h2
    exact ⟨v, rootLevel_nil H rows ptrs v, fun _ h => (by cases h), fun _ _ => rfl, fun rest => by simp [specLevel, parents]⟩
  | single k rest hn ih =>
    intro rows ptrs v hasc h1 h2 hv
    match rows, ptrs, h1, h2 with
    | row :: rows, ptr :: ptrs, h1, h2 =>
      have hlt := asc_single_lt hasc hn
      obtain ⟨node, hnode⟩ := Option.isSome_iff_exists.1 (hv k (List.mem_cons_self ..))
      rw [readLevel_single k rest hn, rootLevel_single H k rest hn]
      cases hs : row[ptr]? with
      | none => exact ⟨fun _ => rfl, fun _ _ h => by cases h⟩
      | some s =>
        simp only [hnode]
        have hv2 : ∀ x ∈ rest, SMap.get (SMap.insert v (k / 2) (par H k node s)) x = SMap.get v x := by
          intro x hx
          have := Asc.head_lt hasc x hx
          exact SMap.get_insert_ne _ _ _ _ (by omega)
        obtain ⟨ia, ib⟩ := ih rows ptrs (SMap.insert v (k / 2) (par H k node s)) (Asc.tail hasc)
          (by simpa using h1) (by simpa using h2)
          (fun x hx => by rw [hv2 x hx]; exact hv x (List.mem_cons_of_mem _ hx))
        refine ⟨?_, ?_⟩
        · intro h
          cases hr : readLevel rest rows ptrs with
          | some r => rw [hr] at h; cases h
          | none => rw [ia hr]; rfl
        · intro sibs ptrs1 h
          cases hr : readLevel rest rows ptrs with
          | none => rw [hr] at h; cases h
          | some r =>
            obtain ⟨sibs', ps⟩ := r
            rw [hr] at h
            simp only [Option.map_some] at h
            injection h with h; injection h with e1 e2; subst e1; subst e2
            obtain ⟨v1, j1, j2, j3, j4⟩ := ib sibs' ps hr
            refine ⟨v1, ?_, ?_, ?_, ?_⟩
            · rw [j1, parents_single k rest hn]; rfl
            · intro k1 hk1
              rw [parents_single k rest hn] at hk1
              rcases List.mem_cons.1 hk1 with rfl | hk1
              · rw [j3 _ (fun x hx => hlt x hx), SMap.get_insert_self]; rfl
              · exact j2 k1 hk1
            · intro key hkey
              rw [j3 key (fun x hx => hkey x (List.mem_cons_of_mem _ hx))]
              exact SMap.get_insert_ne _ _ _ _ (by have := hkey k (List.mem_cons_self ..); omega)
            · intro rest'
              have hn' : NotMerged k ((rest.map (tagV H v)).map Prod.fst) := by rw [map_tagV_fst]; exact hn
              have hhead : tagV H v1 (k / 2) = (k / 2, par H k node s) :=
                tagV_of_get H (by rw [j3 _ (fun x hx => hlt x hx), SMap.get_insert_self])
              rw [List.map_cons, tagV_of_get H hnode, List.cons_append, specLevel_single H k node _ hn',
                ← map_tagV_congr H hv2, j4 rest', parents_single k rest hn, List.map_cons, hhead]
  | merged k rest ih =>
    intro rows ptrs v hasc h1 h2 hv
    match rows, ptrs, h1, h2 with
    | r0 :: r1 :: rows, p0 :: p1 :: ptrs, h1, h2 =>
      obtain ⟨hev, hx1, hlt⟩ := asc_merged hasc
      obtain ⟨node, hnode⟩ := Option.isSome_iff_exists.1 (hv k (List.mem_cons_self ..))
      obtain ⟨sib, hsib⟩ := Option.isSome_iff_exists.1 (hv (xor1 k) (List.mem_cons_of_mem _ (List.mem_cons_self ..)))
      rw [readLevel_merged, rootLevel_merged]
      simp only [hsib, hnode]
      have hv2 : ∀ x ∈ rest, SMap.get (SMap.insert v (k / 2) (par H k node sib)) x = SMap.get v x := by
        intro x hx
        have := Asc.head_lt (Asc.tail hasc) x hx
        rw [hx1] at this
        exact SMap.get_insert_ne _ _ _ _ (by omega)
      simp only [List.length_cons] at h1 h2
      obtain ⟨ia, ib⟩ := ih rows ptrs (SMap.insert v (k / 2) (par H k node sib)) (Asc.tail (Asc.tail hasc))
        (by omega) (by omega)
        (fun x hx => by rw [hv2 x hx]; exact hv x (List.mem_cons_of_mem _ (List.mem_cons_of_mem _ hx)))
      refine ⟨?_, ?_⟩
      · intro h
        cases hr : readLevel rest rows ptrs with
        | some r => rw [hr] at h; cases h
        | none => rw [ia hr]; rfl
      · intro sibs ptrs1 h
        cases hr : readLevel rest rows ptrs with
        | none => rw [hr] at h; cases h
        | some r =>
          obtain ⟨sibs', ps⟩ := r
          rw [hr] at h
          simp only [Option.map_some] at h
          injection h with h; injection h with e1 e2; subst e1; subst e2
          obtain ⟨v1, j1, j2, j3, j4⟩ := ib sibs' ps hr
          refine ⟨v1, ?_, ?_, ?_, ?_⟩
          · rw [j1, parents_merged]; rfl
          · intro k1 hk1
            rw [parents_merged] at hk1
            rcases List.mem_cons.1 hk1 with rfl | hk1
            · rw [j3 _ (fun x hx => hlt x hx), SMap.get_insert_self]; rfl
            · exact j2 k1 hk1
          · intro key hkey
            rw [j3 key (fun x hx => hkey x (List.mem_cons_of_mem _ (List.mem_cons_of_mem _ hx)))]
            exact SMap.get_insert_ne _ _ _ _ (by have := hkey k (List.mem_cons_self ..); omega)
          · intro rest'
            have hhead : tagV H v1 (k / 2) = (k / 2, par H k node sib) :=
              tagV_of_get H (by rw [j3 _ (fun x hx => hlt x hx), SMap.get_insert_self])
            rw [List.map_cons, List.map_cons, tagV_of_get H hnode, tagV_of_get H hsib, specLevel_merged,
              ← map_tagV_congr H hv2, j4 rest', parents_merged, List.map_cons, hhead]

end WinterProofs.C10

namespace WinterProofs.C10
open Model.Merkle

variable {D : Type}

/-- all upper levels: the outcome of `rootLevels` is determined by the nodes read, and on them the
    node finally stored at position 1 is `specRoot` of the frontier -/
theorem rootLevels_read (H : Hasher D) (rows : List (List D)) : ∀ (l : Nat) (K ptrs : List Nat) (v : SMap D),
    Asc K → (∀ k ∈ K, 2 ^ l ≤ k ∧ k < 2 ^ (l + 1)) → K ≠ [] → K.length ≤ rows.length → K.length ≤ ptrs.length →
    (∀ k ∈ K, (SMap.get v k).isSome) →
    (readLevels rows l K ptrs = none → rootLevels H rows l K ptrs v = .err .invalid) ∧
    (∀ ns ptrsF, readLevels rows l K ptrs = some (ns, ptrsF) →
      ∃ v' r, rootLevels H rows l K ptrs v = .ok (v', ptrsF) ∧ SMap.get v' 1 = some r ∧
        specRoot H l (K.map (tagV H v)) ns = some r)
  | 0, K, ptrs, v, hasc, hr, hne, _, _, hv => by
    refine ⟨by simp [readLevels], ?_⟩
    intro ns ptrsF h
    simp only [readLevels] at h
    injection h with h; injection h with e1 e2; subst e1; subst e2
    match K, hne, hasc, hr, hv with
    | [k], _, _, hr, hv =>
      have := hr k (List.mem_cons_self ..)
      have hk : k = 1 := by simp at this; omega
      subst hk
      obtain ⟨r, hrr⟩ := Option.isSome_iff_exists.1 (hv 1 (List.mem_cons_self ..))
      exact ⟨v, r, rfl, hrr, by simp [specRoot, tagV, hrr]⟩
    | k :: k' :: rest, _, hasc, hr, _ =>
      have h1 := hr k (List.mem_cons_self ..)
      have h2 := hr k' (List.mem_cons_of_mem _ (List.mem_cons_self ..))
      have := hasc.1
      simp at h1 h2; omega
  | l + 1, K, ptrs, v, hasc, hr, hne, hl1, hl2, hv => by
    obtain ⟨la, lb⟩ := rootLevel_read H K rows ptrs v hasc hl1 hl2 hv
    obtain ⟨p1, p2, _, p4, p5⟩ := parents_spec K hasc
    have hp := two_pow_succ' l
    have hp' := two_pow_succ' (l + 1)
    have hpos := Nat.two_pow_pos l
    have hpr : ∀ k1 ∈ parents K, 2 ^ l ≤ k1 ∧ k1 < 2 ^ (l + 1) := by
      intro k1 hk1
      obtain ⟨k, hk, rfl⟩ := p2 k1 hk1
      have := hr k hk
      omega
    simp only [readLevels, rootLevels]
    cases hrl : readLevel K rows ptrs with
    | none =>
      refine ⟨fun _ => by rw [la hrl]; rfl, fun ns ptrsF h => by cases h⟩
    | some r =>
      obtain ⟨s, ptrs1⟩ := r
      obtain ⟨v1, j1, j2, _, j4⟩ := lb s ptrs1 hrl
      have hlen1 : ptrs1.length = ptrs.length :=
        ((rootLevel_shape H K rows ptrs v hl1 hl2).of_ok j1).1
      obtain ⟨ia, ib⟩ := rootLevels_read H rows l (parents K) ptrs1 v1 p1 hpr (p5 hne) (by omega) (by omega) j2
      simp only [j1, Res.ok_bind]
      refine ⟨?_, ?_⟩
      · intro h
        cases hrs : readLevels rows l (parents K) ptrs1 with
        | some r2 => rw [hrs] at h; cases h
        | none => exact ia hrs
      · intro ns ptrsF h
        cases hrs : readLevels rows l (parents K) ptrs1 with
        | none => rw [hrs] at h; cases h
        | some r2 =>
          obtain ⟨ns', pF⟩ := r2
          rw [hrs] at h
          simp only [Option.map_some] at h
          injection h with h; injection h with e1 e2; subst e1; subst e2
          obtain ⟨v', r, k1, k2, k3⟩ := ib ns' pF hrs
          refine ⟨v', r, k1, k2, ?_⟩
          simp only [specRoot, j4 ns', k3]

end WinterProofs.C10

namespace WinterProofs.C10
open Model.Merkle

variable {D : Type}

/-- the leaf claimed for position `i` -/
def leafAt (H : Hasher D) (leaves : List D) (imap : SMap Nat) (i : Nat) : D :=
  leaves.getD ((SMap.get imap i).getD 0) H.dflt

/-- the frontier entry of position `i` -/
def tagLeaf (H : Hasher D) (leaves : List D) (imap : SMap Nat) (o : Nat) (i : Nat) : Nat × D :=
  (o + i, leafAt H leaves imap i)

theorem pairKeys_lb (imap : SMap Nat) {e : Nat} {norm : List Nat} (hasc : Asc (e :: norm))
    (hev : ∀ x ∈ e :: norm, x % 2 = 0) : ∀ x ∈ pairKeys imap norm, e + 2 ≤ x := by
  intro x hx
  obtain ⟨e', he', hx', _⟩ := (pairKeys_mem imap norm x).1 hx
  have := Asc.head_lt hasc e' he'
  have := hev e' (List.mem_cons_of_mem _ he')
  have := hev e (List.mem_cons_self ..)
  omega

theorem notMerged_of_lb {k b : Nat} {L : List Nat} (h1 : xor1 k ≤ b) (h2 : ∀ y ∈ L, b < y) : NotMerged k L := by
  intro k' rest' he
  have := h2 k' (by rw [he]; exact List.mem_cons_self ..)
  omega

/-- first loop: the outcome of `rootLeafLoop` is determined by the nodes it reads, and on them it is
    the first level of the specification on the frontier enumerated pair by pair -/
theorem rootLeafLoop_read (H : Hasher D) (leaves : List D) (imap : SMap Nat) (o : Nat) (ho : o % 2 = 0)
    (hlt : ∀ i j, SMap.get imap i = some j → j < leaves.length) :
    ∀ (norm : List Nat) (rows : List (List D)) (v0 : SMap D), Asc norm → (∀ e ∈ norm, e % 2 = 0) →
    norm.length ≤ rows.length →
    (∀ e ∈ norm, (SMap.get imap e).isSome ∨ (SMap.get imap (e + 1)).isSome) →
    (readLeaves imap norm rows = none → rootLeafLoop H leaves imap o norm rows v0 = .err .invalid) ∧
    (∀ sibs ptrs, readLeaves imap norm rows = some (sibs, ptrs) →
      ∃ v1, rootLeafLoop H leaves imap o norm rows v0 = .ok (v1, ptrs, norm.map (fun e => (o + e) / 2)) ∧
        (∀ e ∈ norm, (SMap.get v1 ((o + e) / 2)).isSome) ∧
        (∀ key, (∀ e ∈ norm, key < (o + e) / 2) → SMap.get v1 key = SMap.get v0 key) ∧
        ∀ rest, specLevel H ((pairKeys imap norm).map (tagLeaf H leaves imap o)) (sibs ++ rest) =
          some ((norm.map (fun e => (o + e) / 2)).map (tagV H v1), rest))
  | [], rows, v0, _, _, _, _ => by
    refine ⟨by cases rows <;> simp [readLeaves], ?_⟩
    intro sibs ptrs h
    have : sibs = [] ∧ ptrs = [] := by cases rows <;> simp [readLeaves] at h <;> exact ⟨h.1, h.2⟩
    obtain ⟨rfl, rfl⟩ := this
    exact ⟨v0, by simp [rootLeafLoop], fun _ h => (by cases h), fun _ _ => rfl,
      fun rest => by simp [pairKeys, specLevel]⟩
  | e :: norm, [], v0, _, _, hl, _ => by simp at hl
  | e :: norm, row :: rows, v0, hasc, hev, hl, hsome => by
    have heven := hev e (List.mem_cons_self ..)
    have hlb := pairKeys_lb imap hasc hev
    have hlt2 : ∀ x ∈ norm, (o + e) / 2 < (o + x) / 2 := by
      intro x hx
      have := Asc.head_lt hasc x hx
      have := hev x (List.mem_cons_of_mem _ hx)
      omega
    have htailkeys : ∀ y ∈ ((pairKeys imap norm).map (tagLeaf H leaves imap o)).map Prod.fst, o + e + 1 < y := by
      intro y hy
      simp only [List.map_map, List.mem_map, Function.comp_apply, tagLeaf] at hy
      obtain ⟨x, hx, rfl⟩ := hy
      have := hlb x hx; omega
    -- the common part of the three cases
    have key : ∀ (x y : D) (ptr : Nat) (hs : List D),
        leafPair leaves imap e row = .ok (x, y, ptr) →
        readLeaves imap (e :: norm) (row :: rows) =
          (readLeaves imap norm rows).map (fun r => (hs ++ r.1, ptr :: r.2)) →
        (∀ F1 sibs' rest, specLevel H ((pairKeys imap norm).map (tagLeaf H leaves imap o)) (sibs' ++ rest) = some (F1, rest) →
          specLevel H ((pairKeys imap (e :: norm)).map (tagLeaf H leaves imap o)) ((hs ++ sibs') ++ rest) =
            some (((o + e) / 2, H.merge x y) :: F1, rest)) →
        (readLeaves imap (e :: norm) (row :: rows) = none →
            rootLeafLoop H leaves imap o (e :: norm) (row :: rows) v0 = .err .invalid) ∧
        (∀ sibs ptrs, readLeaves imap (e :: norm) (row :: rows) = some (sibs, ptrs) →
          ∃ v1, rootLeafLoop H leaves imap o (e :: norm) (row :: rows) v0 =
              .ok (v1, ptrs, (e :: norm).map (fun e => (o + e) / 2)) ∧
            (∀ e' ∈ e :: norm, (SMap.get v1 ((o + e') / 2)).isSome) ∧
            (∀ key, (∀ e' ∈ e :: norm, key < (o + e') / 2) → SMap.get v1 key = SMap.get v0 key) ∧
            ∀ rest, specLevel H ((pairKeys imap (e :: norm)).map (tagLeaf H leaves imap o)) (sibs ++ rest) =
              some (((e :: norm).map (fun e => (o + e) / 2)).map (tagV H v1), rest)) := by
      intro x y ptr hs hpair hread hspec
      obtain ⟨ia, ib⟩ := rootLeafLoop_read H leaves imap o ho hlt norm rows
        (SMap.insert v0 ((o + e) / 2) (H.merge x y)) (Asc.tail hasc)
        (fun z hz => hev z (List.mem_cons_of_mem _ hz)) (by simpa using hl)
        (fun z hz => hsome z (List.mem_cons_of_mem _ hz))
      rw [hread]
      simp only [rootLeafLoop, hpair, Res.ok_bind]
      refine ⟨?_, ?_⟩
      · intro h
        cases hr : readLeaves imap norm rows with
        | some r => rw [hr] at h; cases h
        | none => rw [ia hr]; rfl
      · intro sibs ptrs h
        cases hr : readLeaves imap norm rows with
        | none => rw [hr] at h; cases h
        | some r =>
          obtain ⟨sibs', ps⟩ := r
          rw [hr] at h
          simp only [Option.map_some] at h
          injection h with h; injection h with e1 e2; subst e1; subst e2
          obtain ⟨v1, j1, j2, j3, j4⟩ := ib sibs' ps hr
          have hhead : SMap.get v1 ((o + e) / 2) = some (H.merge x y) := by
            rw [j3 _ (fun z hz => hlt2 z hz), SMap.get_insert_self]
          refine ⟨v1, by rw [j1]; rfl, ?_, ?_, ?_⟩
          · intro e' he'
            rcases List.mem_cons.1 he' with rfl | he'
            · rw [hhead]; rfl
            · exact j2 e' he'
          · intro key hkey
            rw [j3 key (fun z hz => hkey z (List.mem_cons_of_mem _ hz))]
            exact SMap.get_insert_ne _ _ _ _ (by have := hkey e (List.mem_cons_self ..); omega)
          · intro rest
            rw [hspec _ sibs' rest (j4 rest), List.map_cons, List.map_cons, tagV_of_get H hhead]
    -- the three cases
    cases hg0 : SMap.get imap e with
    | some j0 =>
      obtain ⟨a, ha⟩ : ∃ a, leaves[j0]? = some a := ⟨_, List.getElem?_eq_getElem (hlt _ _ hg0)⟩
      have hla : leafAt H leaves imap e = a := by simp [leafAt, hg0, List.getD_eq_getElem?_getD, ha]
      cases hg1 : SMap.get imap (e + 1) with
      | some j1 =>
        obtain ⟨b, hb⟩ : ∃ b, leaves[j1]? = some b := ⟨_, List.getElem?_eq_getElem (hlt _ _ hg1)⟩
        have hlb' : leafAt H leaves imap (e + 1) = b := by simp [leafAt, hg1, List.getD_eq_getElem?_getD, hb]
        apply key a b 0 []
        · simp [leafPair, hg0, hg1, ha, hb]
        · simp [readLeaves, hg0, hg1]
        · intro F1 sibs' rest hF
          have hx : o + (e + 1) = xor1 (o + e) := by rw [xor1_even (by omega)]; omega
          simp only [pairKeys, hg0, hg1, Option.isSome_some, if_true, List.nil_append, List.cons_append,
            List.map_cons, tagLeaf, hla, hlb', hx]
          rw [specLevel_merged, hF]
          simp [par, show (o + e) % 2 = 0 by omega]
      | none =>
        cases row with
        | nil =>
          refine ⟨fun _ => by simp [rootLeafLoop, leafPair, hg0, hg1, ha], fun sibs ptrs h => ?_⟩
          simp [readLeaves, hg0, hg1] at h
        | cons s t =>
          apply key a s 1 [s]
          · simp [leafPair, hg0, hg1, ha]
          · simp [readLeaves, hg0, hg1]
          · intro F1 sibs' rest hF
            simp only [pairKeys, hg0, hg1, Option.isSome_some, Option.isSome_none, if_true, List.nil_append,
              List.cons_append, List.map_cons, tagLeaf, hla, Bool.false_eq_true, if_false]
            rw [specLevel_single H (o + e) a _
              (notMerged_of_lb (b := o + e + 1) (by rw [xor1_even (by omega)]; omega) htailkeys), hF]
            simp [par, show (o + e) % 2 = 0 by omega]
    | none =>
      cases hg1 : SMap.get imap (e + 1) with
      | none =>
        have := hsome e (List.mem_cons_self ..)
        simp [hg0, hg1] at this
      | some j1 =>
        obtain ⟨b, hb⟩ : ∃ b, leaves[j1]? = some b := ⟨_, List.getElem?_eq_getElem (hlt _ _ hg1)⟩
        have hlb' : leafAt H leaves imap (e + 1) = b := by simp [leafAt, hg1, List.getD_eq_getElem?_getD, hb]
        cases row with
        | nil =>
          refine ⟨fun _ => by simp [rootLeafLoop, leafPair, hg0], fun sibs ptrs h => ?_⟩
          simp [readLeaves, hg0, hg1] at h
        | cons s t =>
          apply key s b 1 [s]
          · simp [leafPair, hg0, hg1, hb]
          · simp [readLeaves, hg0, hg1]
          · intro F1 sibs' rest hF
            simp only [pairKeys, hg0, hg1, Option.isSome_some, Option.isSome_none, if_true, List.nil_append,
              List.cons_append, List.map_cons, tagLeaf, hlb', Bool.false_eq_true, if_false]
            rw [specLevel_single H (o + (e + 1)) b _
              (notMerged_of_lb (b := o + e + 1) (by rw [xor1_odd (by omega)]; omega) htailkeys), hF]
            have hp1 : par H (o + (e + 1)) b s = H.merge s b := by
              unfold par; rw [if_pos (by omega)]
            have hp2 : (o + (e + 1)) / 2 = (o + e) / 2 := by omega
            simp only [hp1, hp2]

end WinterProofs.C10

namespace WinterProofs.C10
open Model.Merkle

variable {D : Type}

/-- `leafFrontier` and `map_indexes` build their maps in lock step -/
theorem leafFrontier_lockstep (d n : Nat) (L : List D) (dflt : D) : ∀ (is : List Nat) (ls : List D) (i0 : Nat)
    (mi mi' : SMap Nat), (∀ j, ls[j]? = L[i0 + j]?) → is.length = ls.length →
    mapIndexesLoop n is i0 mi = .ok mi' →
    leafFrontier d is ls (mi.map (fun p => (2 ^ d + p.1, L.getD p.2 dflt))) =
      mi'.map (fun p => (2 ^ d + p.1, L.getD p.2 dflt))
  | [], ls, i0, mi, mi', _, hl, h => by
    simp only [mapIndexesLoop] at h
    injection h with h; subst h
    cases ls <;> simp [leafFrontier]
  | i :: is, [], i0, mi, mi', _, hl, _ => by simp at hl
  | i :: is, l :: ls, i0, mi, mi', hL, hl, h => by
    simp only [mapIndexesLoop] at h
    split at h
    · cases h
    · have h0 := hL 0
      simp only [List.getElem?_cons_zero, Nat.add_zero] at h0
      have hl0 : L.getD i0 dflt = l := by simp [List.getD_eq_getElem?_getD, ← h0]
      simp only [leafFrontier]
      rw [← hl0, ← SMap.insert_map (2 ^ d) (fun j => L.getD j dflt) mi i i0]
      exact leafFrontier_lockstep d n L dflt is ls (i0 + 1) _ mi' (by
        intro j
        have := hL (j + 1)
        simp only [List.getElem?_cons_succ] at this
        rw [this]; congr 1; omega) (by simpa using hl) h

theorem mapIndexes_loop {idxs : List Nat} {d : Nat} {imap : SMap Nat} (h : mapIndexes idxs d = .ok imap) :
    mapIndexesLoop (2 ^ d) idxs 0 [] = .ok imap := by
  unfold mapIndexes pow2 at h
  by_cases hd : d < usizeBits
  · rw [if_pos hd] at h
    simp only [Res.ok_bind] at h
    cases hl : mapIndexesLoop (2 ^ d) idxs 0 [] with
    | ok m =>
      rw [hl] at h
      simp only [Res.ok_bind] at h
      split at h
      · cases h
      · injection h with h; subst h; rfl
    | err e => rw [hl] at h; cases h
    | panic s => rw [hl] at h; cases h
  · rw [if_neg hd] at h; cases h

/-- the sorted frontier of the claimed leaves is the frontier enumerated pair by pair -/
theorem leafFrontier_eq_pairs (H : Hasher D) {idxs : List Nat} {d : Nat} {imap : SMap Nat} (leaves : List D)
    (h : mapIndexes idxs d = .ok imap) (hl : idxs.length = leaves.length) :
    leafFrontier d idxs leaves [] = (pairKeys imap (normalizeIndexes idxs)).map (tagLeaf H leaves imap (2 ^ d)) := by
  have h1 := leafFrontier_lockstep d (2 ^ d) leaves H.dflt idxs leaves 0 [] imap (by intro j; simp) hl
    (mapIndexes_loop h)
  simp only [List.map_nil] at h1
  rw [h1, ← keys_eq_pairKeys h]
  have hasc := mapIndexes_asc h
  simp only [SMap.keys, List.map_map]
  apply List.map_congr_left
  intro p hp
  obtain ⟨i, j⟩ := p
  have := SMap.get_of_mem imap hasc i j hp
  simp [tagLeaf, leafAt, this]

/-- The structural refinement: for every `merge`, every opening of depth ≥ 1 and every position
    list that passes the index checks, `get_root` is `specRoot` on the sorted frontier of the
    opening's leaves and the node rows flattened in consumption order. -/
theorem getRoot_refines (H : Hasher D) : GetRootRefinesSpec H := by
  intro p idxs imap hd1 hne hlen hll hm hnl
  obtain ⟨hd, hnd, hrange, hget, hsound, hil⟩ := mapIndexes_ok hm
  obtain ⟨nasc, nmem⟩ := normalize_spec idxs
  have nev : ∀ e ∈ normalizeIndexes idxs, e % 2 = 0 := by
    intro e he; obtain ⟨i, _, rfl⟩ := (nmem e).1 he; omega
  obtain ⟨d0, hd0⟩ : ∃ d0, p.depth = d0 + 1 := ⟨p.depth - 1, by omega⟩
  have hp := two_pow_succ' d0
  have hpos := Nat.two_pow_pos d0
  have nrange : ∀ e ∈ normalizeIndexes idxs, e + 1 < 2 ^ (d0 + 1) := by
    intro e he; obtain ⟨i, hi, rfl⟩ := (nmem e).1 he; have := hrange i hi; rw [hd0] at this; omega
  have nne : normalizeIndexes idxs ≠ [] := by
    match idxs, hne, nmem with
    | i :: rest, _, nmem =>
      intro hn
      have : i - i % 2 ∈ normalizeIndexes (i :: rest) := (nmem _).2 ⟨i, List.mem_cons_self .., rfl⟩
      rw [hn] at this; cases this
  have hlt : ∀ i j, SMap.get imap i = some j → j < p.leaves.length := by
    intro i j hij
    have := hsound i j hij
    rcases Nat.lt_or_ge j idxs.length with h' | h'
    · omega
    · rw [List.getElem?_eq_none h'] at this; cases this
  have hsome : ∀ e ∈ normalizeIndexes idxs, (SMap.get imap e).isSome ∨ (SMap.get imap (e + 1)).isSome := by
    intro e he
    obtain ⟨i, hi, hie⟩ := (nmem e).1 he
    obtain ⟨j, hj, hji⟩ := List.getElem_of_mem hi
    have := hget j hj
    rw [hji] at this
    by_cases hpar : i % 2 = 0
    · left; rw [show e = i by omega, this]; rfl
    · right; rw [show e + 1 = i by omega, this]; rfl
  obtain ⟨la, lb⟩ := rootLeafLoop_read H p.leaves imap (2 ^ p.depth) (by rw [hd0]; omega) hlt
    (normalizeIndexes idxs) p.nodes [] nasc nev (by omega) hsome
  -- unfold the code
  unfold getRoot
  rw [if_neg (by simpa using hne), if_neg (by simp [maxPaths]; omega), if_neg (by simp [hll]),
    if_neg (by simp [usizeBits]; omega), hm]
  simp only [Res.ok_bind]
  rw [if_neg (by simp [hnl]), pow2_ok hd]
  simp only [Res.ok_bind]
  unfold flattenRows
  cases hrl : readLeaves imap (normalizeIndexes idxs) p.nodes with
  | none => rw [la hrl]; rfl
  | some r0 =>
    obtain ⟨s0, ptrs⟩ := r0
    obtain ⟨v1, j1, j2, _, j4⟩ := lb s0 ptrs hrl
    have hpl : ptrs.length = (normalizeIndexes idxs).length :=
      ((rootLeafLoop_shape H p.leaves imap (2 ^ p.depth) _ p.nodes [] (by omega)).of_ok j1).1
    have hK1asc := asc_map_half (2 ^ p.depth) _ nasc nev
    have hK1r : ∀ k ∈ (normalizeIndexes idxs).map (fun e => (2 ^ p.depth + e) / 2),
        2 ^ (p.depth - 1) ≤ k ∧ k < 2 ^ (p.depth - 1 + 1) := by
      intro k hk
      obtain ⟨e, he, rfl⟩ := List.mem_map.1 hk
      have := nrange e he; have := nev e he
      rw [hd0]; simp only [Nat.add_sub_cancel]; omega
    obtain ⟨ua, ub⟩ := rootLevels_read H p.nodes (p.depth - 1) _ ptrs v1 hK1asc hK1r (by simpa using nne)
      (by simp; omega) (by simp; omega) (by
        intro k hk
        obtain ⟨e, he, rfl⟩ := List.mem_map.1 hk
        exact j2 e he)
    simp only [j1, Res.ok_bind]
    cases hrs : readLevels p.nodes (p.depth - 1) ((normalizeIndexes idxs).map (fun e => (2 ^ p.depth + e) / 2)) ptrs with
    | none => rw [ua hrs]; rfl
    | some r1 =>
      obtain ⟨s1, ptrsF⟩ := r1
      obtain ⟨v', r, k1, k2, k3⟩ := ub s1 ptrsF hrs
      simp only [k1, Res.ok_bind]
      by_cases hun : anyUnused ptrsF p.nodes = true
      · simp [hun]
      · have hun' : anyUnused ptrsF p.nodes = false := by simpa using hun
        simp only [hun', k2]
        have hspec : specRoot H p.depth (leafFrontier p.depth idxs p.leaves []) (s0 ++ s1) = some r := by
          rw [leafFrontier_eq_pairs H p.leaves hm hll]
          have := j4 s1
          conv => lhs; rw [hd0]
          simp only [specRoot]
          rw [← hd0, this]
          have hd0' : d0 = p.depth - 1 := by omega
          rw [hd0']; exact k3
        simp [hspec]

end WinterProofs.C10
