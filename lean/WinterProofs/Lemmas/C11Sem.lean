-- C11 helper lemmas: a small abstract view of a base field (validity of raw words, residue, `add`,
-- `new`) and generic list lemmas relating the model's list functions on raw words to the same
-- functions on residues.  Used for the 62-bit round, the permutations and the sponge.
import Winter.Model.Rescue
import Mathlib.Data.ZMod.Basic

namespace WinterProofs.C11.Sem
open Model Model.Rescue

/-- what the sponge needs to know about a field implementation -/
structure FieldSem (F : FieldImpl) (p : Nat) where
  Inv : Nat → Prop
  val : Nat → ZMod p
  add_ok : ∀ a b, Inv a → Inv b → Inv (F.add a b) ∧ val (F.add a b) = val a + val b
  new_ok : ∀ v, v < 18446744073709551616 → Inv (F.new v) ∧ val (F.new v) = (v : ZMod p)

variable {F : FieldImpl} {p : Nat} (S : FieldSem F p)

/-- every raw word of the list is valid -/
def AllInv (st : List Nat) : Prop := ∀ e ∈ st, S.Inv e

theorem AllInv.nil : AllInv S [] := fun _ h => absurd h List.not_mem_nil

theorem AllInv.cons {a : Nat} {l : List Nat} (ha : S.Inv a) (hl : AllInv S l) : AllInv S (a :: l) := by
  intro e he
  rcases List.mem_cons.mp he with rfl | h
  · exact ha
  · exact hl e h

theorem AllInv.head {a : Nat} {l : List Nat} (h : AllInv S (a :: l)) : S.Inv a := h a (List.mem_cons_self)

theorem AllInv.tail {a : Nat} {l : List Nat} (h : AllInv S (a :: l)) : AllInv S l :=
  fun e he => h e (List.mem_cons_of_mem _ he)

/-- element-wise application of a function with a residue-level meaning -/
theorem map_sem (f : Nat → Nat) (g : ZMod p → ZMod p)
    (hf : ∀ x, S.Inv x → S.Inv (f x) ∧ S.val (f x) = g (S.val x)) :
    ∀ st : List Nat, AllInv S st → AllInv S (st.map f) ∧ (st.map f).map S.val = (st.map S.val).map g
  | [], _ => ⟨AllInv.nil S, rfl⟩
  | a :: l, h => by
    obtain ⟨i1, v1⟩ := hf a (AllInv.head S h)
    obtain ⟨i2, v2⟩ := map_sem f g hf l (AllInv.tail S h)
    exact ⟨AllInv.cons S i1 i2, by simp only [List.map_cons, v1, v2]⟩

/-- `add_constants` -/
theorem zipAdd_sem : ∀ (a b : List Nat), AllInv S a → AllInv S b →
    AllInv S (List.zipWith F.add a b) ∧
    (List.zipWith F.add a b).map S.val = List.zipWith (· + ·) (a.map S.val) (b.map S.val)
  | [], _, _, _ => by simp [AllInv.nil]
  | _ :: _, [], _, _ => by simp [AllInv.nil]
  | x :: a, y :: b, ha, hb => by
    obtain ⟨i1, v1⟩ := S.add_ok x y (AllInv.head S ha) (AllInv.head S hb)
    obtain ⟨i2, v2⟩ := zipAdd_sem a b (AllInv.tail S ha) (AllInv.tail S hb)
    exact ⟨AllInv.cons S i1 i2, by simp only [List.zipWith_cons_cons, List.map_cons, v1, v2]⟩

theorem zipAdd_length (a b : List Nat) : (List.zipWith F.add a b).length = min a.length b.length :=
  List.length_zipWith

/-- the rounds in order: if every round denotes `refRound` and keeps the state well formed, the fold
    over the list of round constants denotes the fold of `refRound` -/
theorem fold_sem (P : Params) (w : Nat) (Good : List Nat → List Nat → Prop)
    (refRound : List (ZMod p) → List (ZMod p) → List (ZMod p) → List (ZMod p))
    (hR : ∀ st k1 k2, st.length = w → AllInv S st → Good k1 k2 →
      (roundWith P st k1 k2).length = w ∧ AllInv S (roundWith P st k1 k2) ∧
      (roundWith P st k1 k2).map S.val = refRound (st.map S.val) (k1.map S.val) (k2.map S.val)) :
    ∀ (ks : List (List Nat × List Nat)) (st : List Nat), (∀ k ∈ ks, Good k.1 k.2) → st.length = w → AllInv S st →
      (ks.foldl (fun st k => roundWith P st k.1 k.2) st).length = w ∧
      AllInv S (ks.foldl (fun st k => roundWith P st k.1 k.2) st) ∧
      (ks.foldl (fun st k => roundWith P st k.1 k.2) st).map S.val
        = ks.foldl (fun v k => refRound v (k.1.map S.val) (k.2.map S.val)) (st.map S.val)
  | [], st, _, hl, hi => ⟨hl, hi, rfl⟩
  | k :: ks, st, hg, hl, hi => by
    obtain ⟨l1, i1, v1⟩ := hR st k.1 k.2 hl hi (hg k List.mem_cons_self)
    obtain ⟨l2, i2, v2⟩ := fold_sem P w Good refRound hR ks _ (fun x hx => hg x (List.mem_cons_of_mem _ hx)) l1 i1
    refine ⟨l2, i2, ?_⟩
    rw [List.foldl_cons, v2, v1, List.foldl_cons]

/-- what the sponge needs to know about a permutation -/
structure PermSem (P : Params) (p : Nat) where
  S : FieldSem P.F p
  refPerm : List (ZMod p) → List (ZMod p)
  perm_ok : ∀ st, st.length = P.width → AllInv S st →
    (applyPermutation P st).length = P.width ∧ AllInv S (applyPermutation P st) ∧
    (applyPermutation P st).map S.val = refPerm (st.map S.val)

end WinterProofs.C11.Sem
