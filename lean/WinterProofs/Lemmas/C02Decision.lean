-- C02 / C03 helper lemmas: what the `ok` outcome of each phase of the verifier's decision function
-- (Winter/Model/VerifierChecks.lean, part 4) implies.
import Winter.Model.VerifierChecks

set_option linter.unusedSectionVars false

namespace WinterProofs.C02L
open Model Model.VerifierChecks

variable {C D V : Type} [DecidableEq D] [DecidableEq V]

/-- everything `challenges … = ok ch` establishes (the decision theorem of steps 1–5) -/
structure ChallengesOk (W : Verifier C D V) (ctx : Serde.Context) (cm : Committed V D) (ch : Challenges C D V) : Prop where
  ex : ∃ r0 rest c2 log2 c3 c4 c7 c8 flog ps,
    cm.traceRoots = r0 :: rest ∧
    auxPhase W.coin (W.air ctx) cm (W.coin.reseed (W.coin.new (coinSeed W.elemBytes ctx W.pubElems)) r0) r0 rest
      = .ok (ch.auxRands, ch.lagRands, c2, log2) ∧
    drawMany W.coin (W.air ctx).numCoeffs c2 = some (ch.coeffs, c3) ∧
    W.coin.draw (W.coin.reseed c3 cm.constraintRoot) = some (ch.z, c4) ∧
    (W.air ctx).evalConstraints ch.coeffs ch.auxRands ch.lagRands cm.oodTrace ch.z
      = (W.air ctx).combineOod ch.z cm.oodEvals ∧
    drawMany W.coin (W.air ctx).numDeepCoeffs
      (W.coin.reseed (W.coin.reseed c4 (W.hashElems cm.oodTrace)) (W.hashElems cm.oodEvals)) = some (ch.deep, c7) ∧
    friNew W.coin (W.air ctx).fri.folding cm.friRoots.length cm.friRoots 0 ((W.air ctx).tracePolyDegree + 1) c7
      = .ok (ch.alphas, c8, flog) ∧
    (W.air ctx).grinding ≤ W.coin.leadingZeros c8 cm.powNonce ∧
    W.coin.drawInts c8 (W.air ctx).numQueries (W.air ctx).ldeSize cm.powNonce = some ps ∧
    ch.positions = sortDedup ps ∧ ch.coinAtQueries = c8 ∧
    ch.log = log2 ++ [cm.constraintRoot, W.hashElems cm.oodTrace, W.hashElems cm.oodEvals] ++ flog

theorem challenges_ok {W : Verifier C D V} {ctx : Serde.Context} {cm : Committed V D} {ch : Challenges C D V}
    (h : challenges W ctx cm = .ok ch) : ChallengesOk W ctx cm ch := by
  unfold challenges at h
  simp only at h
  split at h
  · cases h
  · rename_i r0 rest hroots
    split at h
    · cases h
    · rename_i auxRands lagRands c2 log2 haux
      split at h
      · cases h
      · rename_i coeffs c3 hco
        split at h
        · cases h
        · rename_i z c4 hz
          split at h
          · cases h
          · rename_i hev
            split at h
            · cases h
            · rename_i deep c7 hdeep
              split at h
              · cases h
              · rename_i alphas c8 flog hfri
                split at h
                · cases h
                · rename_i hpow
                  split at h
                  · cases h
                  · rename_i ps hps
                    injection h with h
                    subst h
                    refine ⟨⟨r0, rest, c2, log2, c3, c4, c7, c8, flog, ps, hroots, haux, hco, hz, ?_, hdeep, hfri,
                      ?_, hps, rfl, rfl, rfl⟩⟩
                    · exact Decidable.of_not_not hev
                    · exact Nat.le_of_not_lt hpow

/-- the digests `auxPhase` reports as absorbed are the first one or two trace commitments -/
theorem auxPhase_log {K : CoinOps C D V} {A : AirInst C D V} {cm : Committed V D} {c1 : C} {r0 : D} {rest : List D}
    {ar lr : List V} {c2 : C} {log : List D} (h : auxPhase K A cm c1 r0 rest = .ok (ar, lr, c2, log)) :
    (A.multiSegment = false ∧ log = [r0]) ∨ (A.multiSegment = true ∧ ∃ r1 rest', rest = r1 :: rest' ∧ log = [r0, r1]) := by
  unfold auxPhase at h
  split at h
  · rename_i hm
    injection h with h
    simp only [Prod.mk.injEq] at h
    exact Or.inl ⟨by simpa using hm, h.2.2.2.symm⟩
  · rename_i hm
    split at h
    · cases h
    · rename_i r1 rest'
      right
      refine ⟨by simpa using hm, r1, rest', rfl, ?_⟩
      split at h
      · split at h
        · cases h
        · split at h
          · cases h
          · split at h
            · cases h
            · injection h with h
              simp only [Prod.mk.injEq] at h
              exact h.2.2.2.symm
      · split at h
        · cases h
        · injection h with h
          simp only [Prod.mk.injEq] at h
          exact h.2.2.2.symm

/-- `FriVerifier::new` absorbs every FRI commitment (layers and remainder), in order, and draws one
    challenge per commitment -/
theorem friNew_log {K : CoinOps C D V} {N total : Nat} (roots : List D) (depth md : Nat) (c : C)
    {as : List V} {c' : C} {log : List D}
    (h : friNew K N total roots depth md c = .ok (as, c', log)) : log = roots ∧ as.length = roots.length := by
  induction roots generalizing depth md c as c' log with
  | nil =>
    simp only [friNew] at h
    injection h with h
    simp only [Prod.mk.injEq] at h
    exact ⟨h.2.2.symm, by rw [← h.1]; rfl⟩
  | cons r rs ih =>
    simp only [friNew] at h
    split at h
    · cases h
    · split at h
      · cases h
      · split at h
        · rename_i as0 c0 log0 hrec
          injection h with h
          simp only [Prod.mk.injEq] at h
          obtain ⟨h1, h2⟩ := ih _ _ _ hrec
          refine ⟨by rw [← h.2.2, h1], by rw [← h.1]; simp [h2]⟩
        · cases h

/-- everything `checkOpened … = ok` establishes (steps 5–7) -/
theorem checkOpened_ok {W : Verifier C D V} {ctx : Serde.Context} {cm : Committed V D} {op : Opened V D}
    {ch : Challenges C D V} (h : checkOpened W ctx cm op ch = .ok ()) :
    (∀ ro ∈ cm.traceRoots.zip op.traceOpenings,
        openingOk W ro.1 ch.positions ro.2 (Nat.log2 (W.air ctx).ldeSize) = true) ∧
    openingOk W cm.constraintRoot ch.positions op.constraintOpening (Nat.log2 (W.air ctx).ldeSize) = true ∧
    friVerify W (W.air ctx) cm op ch
      ((W.air ctx).deepCompose ch.positions ch.z ch.deep (op.traceOpenings.map (·.rows)) op.constraintOpening.rows
        cm.oodTrace cm.oodEvals) = .ok () := by
  unfold checkOpened at h
  simp only at h
  split at h
  · cases h
  · rename_i h1
    split at h
    · cases h
    · rename_i h2
      refine ⟨?_, by simpa using h2, h⟩
      have : (cm.traceRoots.zip op.traceOpenings).all
          (fun ro => openingOk W ro.1 ch.positions ro.2 (Nat.log2 (W.air ctx).ldeSize)) = true := by simpa using h1
      exact fun ro hro => List.all_eq_true.mp this ro hro

/-- acceptance: the header checks passed, the proof parsed, the challenges exist, the opened part passed -/
theorem verify_ok {W : Verifier C D V} {ctx : Serde.Context} {parsed : Option (Committed V D × Opened V D)}
    (h : verify W ctx parsed = .ok ()) :
    W.modulus = ctx.modulus ∧ W.acceptable ctx = true ∧ (W.air ctx).extSupported = true ∧
    ∃ cm op ch, parsed = some (cm, op) ∧ challenges W ctx cm = .ok ch ∧ checkOpened W ctx cm op ch = .ok () := by
  unfold verify at h
  split at h
  · cases h
  · rename_i h1
    split at h
    · cases h
    · rename_i h2
      split at h
      · cases h
      · rename_i h3
        split at h
        · cases h
        · rename_i cm op
          split at h
          · cases h
          · rename_i ch hch
            exact ⟨Decidable.of_not_not h1, by simpa using h2, by simpa using h3, cm, op, ch, rfl, hch, h⟩

end WinterProofs.C02L
