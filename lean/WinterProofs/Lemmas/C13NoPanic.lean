-- C13 helper lemmas: the in-memory reader `Mem` never returns `panic`, for any operation
import Winter.Model.Reader
import WinterProofs.Lemmas.C13

namespace WinterProofs.C13
open Model.Reader

/-- results of the in-memory reader are never a panic -/
def NoPanic {α : Type} (m : List Nat → Res α × List Nat) : Prop := ∀ l, (m l).1 ≠ .panic

theorem noPanic_andThen {α β : Type} {m : List Nat → Res α × List Nat} {f : α → List Nat → Res β × List Nat}
    (hm : NoPanic m) (hf : ∀ a, NoPanic (f a)) : NoPanic (andThen m f) := by
  intro l
  unfold andThen
  have := hm l
  rcases hml : m l with ⟨r, l'⟩
  rw [hml] at this
  cases r with
  | ok a => exact hf a l'
  | eof => simp
  | invalid => simp
  | panic => exact absurd rfl this

theorem noPanic_ret {α : Type} (a : α) : NoPanic (ret a : List Nat → Res α × List Nat) := by
  intro l; simp [ret]

theorem mem_readU8_noPanic : NoPanic Mem.readU8 := by
  intro l; cases l <;> simp [Mem]
theorem mem_peekU8_noPanic : NoPanic Mem.peekU8 := by
  intro l; cases l <;> simp [Mem]
theorem mem_readSlice_noPanic (n : Nat) : NoPanic (Mem.readSlice n) := by
  intro l; rw [mem_readSlice]; split <;> simp
theorem mem_readArray_noPanic (n : Nat) : NoPanic (Mem.readArray n) := by
  intro l; rw [mem_readArray]; split <;> simp

theorem mem_readBool_noPanic : NoPanic (readBool Mem) := by
  refine noPanic_andThen mem_readU8_noPanic (fun b l' => ?_)
  by_cases h0 : b = 0
  · simp [h0]
  · by_cases h1 : b = 1 <;> simp [h0, h1]

theorem mem_readInt_noPanic (k : Nat) : NoPanic (readInt Mem k) :=
  noPanic_andThen (mem_readArray_noPanic k) (fun _ => noPanic_ret _)

theorem mem_readUsize_noPanic : NoPanic (readUsize Mem) := by
  unfold readUsize
  refine noPanic_andThen mem_peekU8_noPanic (fun first => ?_)
  by_cases h9 : tz8 first + 1 = 9
  · simp only [h9, if_true]
    exact noPanic_andThen mem_readU8_noPanic
      (fun _ => noPanic_andThen (mem_readArray_noPanic 8) (fun _ => noPanic_ret _))
  · simp only [h9, if_false]
    exact noPanic_andThen (mem_readSlice_noPanic _) (fun _ => noPanic_ret _)

theorem mem_readElem_noPanic (e : Elem) : NoPanic (readElem Mem e) := by
  cases e
  · exact mem_readU8_noPanic
  · exact mem_readInt_noPanic 2
  · exact mem_readInt_noPanic 4
  · exact mem_readInt_noPanic 8
  · exact mem_readInt_noPanic 16
  · exact mem_readUsize_noPanic
  · exact noPanic_ret _
  · refine noPanic_andThen mem_readBool_noPanic (fun b => ?_)
    cases b
    · exact noPanic_ret _
    · exact noPanic_andThen mem_readU8_noPanic (fun _ => noPanic_ret _)
  · exact noPanic_andThen mem_readU8_noPanic (fun _ => noPanic_andThen (mem_readInt_noPanic 2) (fun _ => noPanic_ret _))

theorem mem_readMany_noPanic (e : Elem) : ∀ n, NoPanic (readMany Mem e n)
  | 0 => noPanic_ret _
  | k + 1 => by
    unfold readMany
    exact noPanic_andThen (mem_readElem_noPanic e)
      (fun _ => noPanic_andThen (mem_readMany_noPanic e k) (fun _ => noPanic_ret _))

theorem val_ne_panic {α : Type} (f : α → Val) {r : Res α} (h : r ≠ .panic) : r.val f ≠ .panic := by
  cases r <;> simp [Res.val] at h ⊢

theorem mem_step_noPanic (op : Op) (l : List Nat) : (step Mem op l).1 ≠ .panic := by
  cases op with
  | readU8 => exact val_ne_panic _ (mem_readU8_noPanic l)
  | peekU8 => exact val_ne_panic _ (mem_peekU8_noPanic l)
  | readSlice n => exact val_ne_panic _ (mem_readSlice_noPanic n l)
  | readArray n => exact val_ne_panic _ (mem_readArray_noPanic n l)
  | readBool =>
    refine val_ne_panic _ (noPanic_andThen mem_readU8_noPanic (fun b l' => ?_) l)
    by_cases h0 : b = 0
    · simp [h0]
    · by_cases h1 : b = 1 <;> simp [h0, h1]
  | readU16 => exact val_ne_panic _ (mem_readInt_noPanic 2 l)
  | readU32 => exact val_ne_panic _ (mem_readInt_noPanic 4 l)
  | readU64 => exact val_ne_panic _ (mem_readInt_noPanic 8 l)
  | readU128 => exact val_ne_panic _ (mem_readInt_noPanic 16 l)
  | readUsize => exact val_ne_panic _ (mem_readUsize_noPanic l)
  | readVec n => exact val_ne_panic _ (mem_readSlice_noPanic n l)
  | readString n =>
    refine val_ne_panic _ (noPanic_andThen (mem_readSlice_noPanic n) (fun bs l' => ?_) l)
    by_cases hv : utf8Valid bs = true <;> simp [hv]
  | readMany e n => exact val_ne_panic _ (mem_readMany_noPanic e n l)
  | checkEor n =>
    simp only [step, mem_checkEor]
    split <;> simp [Res.val]
  | hasMore => simp [step]

end WinterProofs.C13
