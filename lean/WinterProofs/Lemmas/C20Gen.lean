-- tie T for C20: the polynomial functions as regenerated from math/src/polynom/mod.rs on this run
-- (Winter/Gen/Polynom.lean: field-generic, the operations through a record `Gen.FOpsX F`, vectors as lists,
-- index loops as structural recursion over `List.range'`, `v[i]` as `List.getD` with the bound in `_ok`)
-- coincide with the hand-written model `Model.Poly` for EVERY operations record `O : Ops α` (instantiated through
-- `O.toX`, Winter/Model/PolyGen.lean) and all inputs.
import Winter.Model.PolyGen
import WinterProofs.Lemmas.GenTactic

namespace C20G
open Model.Poly

variable {α : Type} (O : Ops α)

@[simp] theorem toX_zero : O.toX.ofNat 0 = O.zero := rfl
@[simp] theorem toX_one : O.toX.ofNat 1 = O.one := rfl
@[simp] theorem toX_isZero : O.toX.isZero = O.isZero := rfl
@[simp] theorem toX_isOne : O.toX.isOne = O.isOne := rfl

/-- ★ `eval` (Horner, the `fold` over the reversed coefficients) -/
theorem gen_eval_eq (p : List α) (x : α) :
    Gen.Polynom.eval O.toX p x = eval O p x ∧ Gen.Polynom.eval_ok O.toX p x = true := by
  unfold eval evalWith
  unfold_gen Gen.Polynom
  exact ⟨rfl, rfl⟩

theorem scalLoop (k : α) : ∀ (p acc : List α),
    Gen.Polynom.mul_by_scalar.for1 O.toX k p acc = acc ++ p.map (fun c => O.mul c k) ∧
    Gen.Polynom.mul_by_scalar.for1_ok O.toX k p acc = true := by
  intro p
  induction p with
  | nil => intro acc; simp [Gen.Polynom.mul_by_scalar.for1, Gen.Polynom.mul_by_scalar.for1_ok]
  | cons c t ih =>
    intro acc
    rw [Gen.Polynom.mul_by_scalar.for1, Gen.Polynom.mul_by_scalar.for1_ok]
    unfold_gen Gen.Polynom
    obtain ⟨h1, h2⟩ := ih (acc ++ [O.toX.mul c k])
    simp only [h1, h2, Bool.and_true, List.map_cons, List.append_assoc, List.singleton_append]
    exact ⟨rfl, by simp⟩

/-- ★ `mul_by_scalar` -/
theorem gen_mul_by_scalar_eq (p : List α) (k : α) :
    Gen.Polynom.mul_by_scalar O.toX p k = mulByScalar O p k ∧ Gen.Polynom.mul_by_scalar_ok O.toX p k = true := by
  unfold mulByScalar
  unfold_gen Gen.Polynom
  obtain ⟨h1, h2⟩ := scalLoop O k p []
  simp [h1, h2]

theorem getD_coeff (a : List α) (i : Nat) :
    (if i < a.length then a.getD i O.zero else O.zero) = coeff O a i := by
  unfold coeff
  by_cases h : i < a.length
  · simp [h, List.getD]
  · simp [h]

theorem addLoop (a b : List α) : ∀ (n lo : Nat) (acc : List α),
    Gen.Polynom.add.for1 O.toX a b (List.range' lo n) acc =
      acc ++ (List.range' lo n).map (fun i => O.add (coeff O a i) (coeff O b i)) ∧
    Gen.Polynom.add.for1_ok O.toX a b (List.range' lo n) acc = true := by
  intro n
  induction n with
  | zero => intro lo acc; simp [Gen.Polynom.add.for1, Gen.Polynom.add.for1_ok]
  | succ n ih =>
    intro lo acc
    rw [List.range'_succ, Gen.Polynom.add.for1, Gen.Polynom.add.for1_ok]
    unfold_gen Gen.Polynom
    simp only [toX_zero, getD_coeff]
    obtain ⟨h1, h2⟩ := ih (lo + 1) (acc ++ [O.toX.add (coeff O a lo) (coeff O b lo)])
    simp only [h1, h2, List.map_cons, List.append_assoc, List.singleton_append]
    exact ⟨rfl, by simp⟩

/-- ★ `add` -/
theorem gen_add_eq (a b : List α) :
    Gen.Polynom.add O.toX a b = add O a b ∧ Gen.Polynom.add_ok O.toX a b = true := by
  unfold add
  unfold_gen Gen.Polynom
  obtain ⟨h1, h2⟩ := addLoop O a b (max a.length b.length) 0 []
  simp [Nat.sub_zero, h1, h2, List.range_eq_range']

theorem subLoop (a b : List α) : ∀ (n lo : Nat) (acc : List α),
    Gen.Polynom.sub.for1 O.toX a b (List.range' lo n) acc =
      acc ++ (List.range' lo n).map (fun i => O.sub (coeff O a i) (coeff O b i)) ∧
    Gen.Polynom.sub.for1_ok O.toX a b (List.range' lo n) acc = true := by
  intro n
  induction n with
  | zero => intro lo acc; simp [Gen.Polynom.sub.for1, Gen.Polynom.sub.for1_ok]
  | succ n ih =>
    intro lo acc
    rw [List.range'_succ, Gen.Polynom.sub.for1, Gen.Polynom.sub.for1_ok]
    unfold_gen Gen.Polynom
    simp only [toX_zero, getD_coeff]
    obtain ⟨h1, h2⟩ := ih (lo + 1) (acc ++ [O.toX.sub (coeff O a lo) (coeff O b lo)])
    simp only [h1, h2, List.map_cons, List.append_assoc, List.singleton_append]
    exact ⟨rfl, by simp⟩

/-- ★ `sub` -/
theorem gen_sub_eq (a b : List α) :
    Gen.Polynom.sub O.toX a b = sub O a b ∧ Gen.Polynom.sub_ok O.toX a b = true := by
  unfold sub
  unfold_gen Gen.Polynom
  obtain ⟨h1, h2⟩ := subLoop O a b (max a.length b.length) 0 []
  simp [Nat.sub_zero, h1, h2, List.range_eq_range']

/-- once `degree_of`'s loop has returned, the remaining indices change nothing and read nothing -/
theorem degDone (poly : List α) : ∀ (is : List Nat) (v : Nat),
    Gen.Polynom.degree_of.for1 O.toX poly is true v = (true, v) ∧
    Gen.Polynom.degree_of.for1_ok O.toX poly is true v = true := by
  intro is
  induction is with
  | nil => intro v; simp [Gen.Polynom.degree_of.for1, Gen.Polynom.degree_of.for1_ok]
  | cons i t ih =>
    intro v
    rw [Gen.Polynom.degree_of.for1, Gen.Polynom.degree_of.for1_ok]
    unfold_gen Gen.Polynom
    simpa using ih v

theorem stripRev_snoc (q : List α) (x : α) :
    stripRev O (q ++ [x]) = if O.isZero x then stripRev O q else x :: q.reverse := by
  unfold stripRev
  simp only [List.reverse_append, List.reverse_cons, List.reverse_nil, List.nil_append, List.singleton_append,
    List.dropWhile_cons]

/-- the translated top-down scan of `degree_of` over the indices of a prefix `q = r.reverse` of the polynomial -/
theorem degLoop : ∀ (r s : List α) (v : Nat),
    Gen.Polynom.degree_of.for1 O.toX (r.reverse ++ s) (List.range' 0 r.length).reverse false v =
      (match stripRev O r.reverse with | [] => (false, v) | _ :: t => (true, t.length)) ∧
    Gen.Polynom.degree_of.for1_ok O.toX (r.reverse ++ s) (List.range' 0 r.length).reverse false v = true := by
  intro r
  induction r with
  | nil => intro s v; simp [Gen.Polynom.degree_of.for1, Gen.Polynom.degree_of.for1_ok, stripRev]
  | cons x r ih =>
    intro s v
    have hr : (List.range' 0 (x :: r).length).reverse = r.length :: (List.range' 0 r.length).reverse := by
      simp [List.range'_concat]
    have hg : ((x :: r).reverse ++ s).getD r.length O.zero = x := by simp [List.getD]
    have hl : (x :: r).reverse ++ s = r.reverse ++ ([x] ++ s) := by simp
    rw [hr, Gen.Polynom.degree_of.for1, Gen.Polynom.degree_of.for1_ok]
    rw [show (x :: r).reverse = r.reverse ++ [x] from by simp, stripRev_snoc]
    unfold_gen Gen.Polynom
    rw [show r.reverse ++ [x] ++ s = (x :: r).reverse ++ s from by simp]
    simp only [toX_zero, hg]
    by_cases hz : O.isZero x = true
    · have := ih (x :: s) v
      rw [hl]
      simp only [List.singleton_append]
      simpa [hz] using this
    · obtain ⟨d1, d2⟩ := degDone O ((x :: r).reverse ++ s) (List.range' 0 r.length).reverse r.length
      have hz' : O.isZero x = false := by simpa using hz
      simp only [List.reverse_cons, List.append_assoc, List.singleton_append] at d1 d2 ⊢
      simp [hz', d1, d2]

/-- ★ `degree_of` (the top-down scan with its early `return`) -/
theorem gen_degree_of_eq (p : List α) :
    Gen.Polynom.degree_of O.toX p = degreeOf O p ∧ Gen.Polynom.degree_of_ok O.toX p = true := by
  unfold degreeOf
  unfold_gen Gen.Polynom
  obtain ⟨h1, h2⟩ := degLoop O p.reverse [] 0
  simp only [List.append_nil, List.reverse_reverse, List.length_reverse] at h1 h2
  simp only [Nat.sub_zero]
  cases h : stripRev O p with
  | nil => rw [h] at h1; simp [h1, h2]
  | cons y t => rw [h] at h1; simp [h1, h2]

end C20G
