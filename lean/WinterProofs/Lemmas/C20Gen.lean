-- tie T for C20: the polynomial functions as regenerated from math/src/polynom/mod.rs on this run
-- (Winter/Gen/Polynom.lean: field-generic, the operations through a record `Gen.FOpsX F`, vectors as lists,
-- index loops as structural recursion over `List.range'`, `v[i]` as `List.getD` with the bound in `_ok`)
-- coincide with the hand-written model `Model.Poly` for EVERY operations record `O : Ops α` (instantiated through
-- `O.toX`, Winter/Model/PolyGen.lean) and all inputs.
import Winter.Model.PolyGen
import WinterProofs.Lemmas.C20Div
import WinterProofs.Lemmas.GenTactic

namespace C20G
open Model.Poly

variable {α : Type} (O : Ops α)

@[simp] theorem toX_zero : O.toX.ofNat 0 = O.zero := rfl
@[simp] theorem toX_one : O.toX.ofNat 1 = O.one := rfl
@[simp] theorem toX_isZero : O.toX.isZero = O.isZero := rfl
@[simp] theorem toX_isOne : O.toX.isOne = O.isOne := rfl

/-- ★ `eval` (Horner, the `fold` over the reversed coefficients) -/
theorem gen_eval_eq (p : List α) (x : α) :
    Gen.Polynom.eval O.toX p x = eval O p x ∧ Gen.Polynom.eval_ok O.toX p x = true := by
  unfold eval evalWith
  unfold_gen Gen.Polynom
  exact ⟨rfl, rfl⟩

theorem scalLoop (k : α) : ∀ (p acc : List α),
    Gen.Polynom.mul_by_scalar.for1 O.toX k p acc = acc ++ p.map (fun c => O.mul c k) ∧
    Gen.Polynom.mul_by_scalar.for1_ok O.toX k p acc = true := by
  intro p
  induction p with
  | nil => intro acc; simp [Gen.Polynom.mul_by_scalar.for1, Gen.Polynom.mul_by_scalar.for1_ok]
  | cons c t ih =>
    intro acc
    rw [Gen.Polynom.mul_by_scalar.for1, Gen.Polynom.mul_by_scalar.for1_ok]
    unfold_gen Gen.Polynom
    obtain ⟨h1, h2⟩ := ih (acc ++ [O.toX.mul c k])
    simp only [h1, h2, Bool.and_true, List.map_cons, List.append_assoc, List.singleton_append]
    exact ⟨rfl, by simp⟩

/-- ★ `mul_by_scalar` -/
theorem gen_mul_by_scalar_eq (p : List α) (k : α) :
    Gen.Polynom.mul_by_scalar O.toX p k = mulByScalar O p k ∧ Gen.Polynom.mul_by_scalar_ok O.toX p k = true := by
  unfold mulByScalar
  unfold_gen Gen.Polynom
  obtain ⟨h1, h2⟩ := scalLoop O k p []
  simp [h1, h2]

theorem getD_coeff (a : List α) (i : Nat) :
    (if i < a.length then a.getD i O.zero else O.zero) = coeff O a i := by
  unfold coeff
  by_cases h : i < a.length
  · simp [h, List.getD]
  · simp [h]

theorem addLoop (a b : List α) : ∀ (n lo : Nat) (acc : List α),
    Gen.Polynom.add.for1 O.toX a b (List.range' lo n) acc =
      acc ++ (List.range' lo n).map (fun i => O.add (coeff O a i) (coeff O b i)) ∧
    Gen.Polynom.add.for1_ok O.toX a b (List.range' lo n) acc = true := by
  intro n
  induction n with
  | zero => intro lo acc; simp [Gen.Polynom.add.for1, Gen.Polynom.add.for1_ok]
  | succ n ih =>
    intro lo acc
    rw [List.range'_succ, Gen.Polynom.add.for1, Gen.Polynom.add.for1_ok]
    unfold_gen Gen.Polynom
    simp only [toX_zero, getD_coeff]
    obtain ⟨h1, h2⟩ := ih (lo + 1) (acc ++ [O.toX.add (coeff O a lo) (coeff O b lo)])
    simp only [h1, h2, List.map_cons, List.append_assoc, List.singleton_append]
    exact ⟨rfl, by simp⟩

/-- ★ `add` -/
theorem gen_add_eq (a b : List α) :
    Gen.Polynom.add O.toX a b = add O a b ∧ Gen.Polynom.add_ok O.toX a b = true := by
  unfold add
  unfold_gen Gen.Polynom
  obtain ⟨h1, h2⟩ := addLoop O a b (max a.length b.length) 0 []
  simp [Nat.sub_zero, h1, h2, List.range_eq_range']

theorem subLoop (a b : List α) : ∀ (n lo : Nat) (acc : List α),
    Gen.Polynom.sub.for1 O.toX a b (List.range' lo n) acc =
      acc ++ (List.range' lo n).map (fun i => O.sub (coeff O a i) (coeff O b i)) ∧
    Gen.Polynom.sub.for1_ok O.toX a b (List.range' lo n) acc = true := by
  intro n
  induction n with
  | zero => intro lo acc; simp [Gen.Polynom.sub.for1, Gen.Polynom.sub.for1_ok]
  | succ n ih =>
    intro lo acc
    rw [List.range'_succ, Gen.Polynom.sub.for1, Gen.Polynom.sub.for1_ok]
    unfold_gen Gen.Polynom
    simp only [toX_zero, getD_coeff]
    obtain ⟨h1, h2⟩ := ih (lo + 1) (acc ++ [O.toX.sub (coeff O a lo) (coeff O b lo)])
    simp only [h1, h2, List.map_cons, List.append_assoc, List.singleton_append]
    exact ⟨rfl, by simp⟩

/-- ★ `sub` -/
theorem gen_sub_eq (a b : List α) :
    Gen.Polynom.sub O.toX a b = sub O a b ∧ Gen.Polynom.sub_ok O.toX a b = true := by
  unfold sub
  unfold_gen Gen.Polynom
  obtain ⟨h1, h2⟩ := subLoop O a b (max a.length b.length) 0 []
  simp [Nat.sub_zero, h1, h2, List.range_eq_range']

/-- once `degree_of`'s loop has returned, the remaining indices change nothing and read nothing -/
theorem degDone (poly : List α) : ∀ (is : List Nat) (v : Nat),
    Gen.Polynom.degree_of.for1 O.toX poly is true v = (true, v) ∧
    Gen.Polynom.degree_of.for1_ok O.toX poly is true v = true := by
  intro is
  induction is with
  | nil => intro v; simp [Gen.Polynom.degree_of.for1, Gen.Polynom.degree_of.for1_ok]
  | cons i t ih =>
    intro v
    rw [Gen.Polynom.degree_of.for1, Gen.Polynom.degree_of.for1_ok]
    unfold_gen Gen.Polynom
    simpa using ih v

theorem stripRev_snoc (q : List α) (x : α) :
    stripRev O (q ++ [x]) = if O.isZero x then stripRev O q else x :: q.reverse := by
  unfold stripRev
  simp only [List.reverse_append, List.reverse_cons, List.reverse_nil, List.nil_append, List.singleton_append,
    List.dropWhile_cons]

/-- the translated top-down scan of `degree_of` over the indices of a prefix `q = r.reverse` of the polynomial -/
theorem degLoop : ∀ (r s : List α) (v : Nat),
    Gen.Polynom.degree_of.for1 O.toX (r.reverse ++ s) (List.range' 0 r.length).reverse false v =
      (match stripRev O r.reverse with | [] => (false, v) | _ :: t => (true, t.length)) ∧
    Gen.Polynom.degree_of.for1_ok O.toX (r.reverse ++ s) (List.range' 0 r.length).reverse false v = true := by
  intro r
  induction r with
  | nil => intro s v; simp [Gen.Polynom.degree_of.for1, Gen.Polynom.degree_of.for1_ok, stripRev]
  | cons x r ih =>
    intro s v
    have hr : (List.range' 0 (x :: r).length).reverse = r.length :: (List.range' 0 r.length).reverse := by
      simp [List.range'_concat]
    have hg : ((x :: r).reverse ++ s).getD r.length O.zero = x := by simp [List.getD]
    have hl : (x :: r).reverse ++ s = r.reverse ++ ([x] ++ s) := by simp
    rw [hr, Gen.Polynom.degree_of.for1, Gen.Polynom.degree_of.for1_ok]
    rw [show (x :: r).reverse = r.reverse ++ [x] from by simp, stripRev_snoc]
    unfold_gen Gen.Polynom
    rw [show r.reverse ++ [x] ++ s = (x :: r).reverse ++ s from by simp]
    simp only [toX_zero, hg]
    by_cases hz : O.isZero x = true
    · have := ih (x :: s) v
      rw [hl]
      simp only [List.singleton_append]
      simpa [hz] using this
    · obtain ⟨d1, d2⟩ := degDone O ((x :: r).reverse ++ s) (List.range' 0 r.length).reverse r.length
      have hz' : O.isZero x = false := by simpa using hz
      simp only [List.reverse_cons, List.append_assoc, List.singleton_append] at d1 d2 ⊢
      simp [hz', d1, d2]

/-- ★ `degree_of` (the top-down scan with its early `return`) -/
theorem gen_degree_of_eq (p : List α) :
    Gen.Polynom.degree_of O.toX p = degreeOf O p ∧ Gen.Polynom.degree_of_ok O.toX p = true := by
  unfold degreeOf
  unfold_gen Gen.Polynom
  obtain ⟨h1, h2⟩ := degLoop O p.reverse [] 0
  simp only [List.append_nil, List.reverse_reverse, List.length_reverse] at h1 h2
  simp only [Nat.sub_zero]
  cases h : stripRev O p with
  | nil => rw [h] at h1; simp [h1, h2]
  | cons y t => rw [h] at h1; simp [h1, h2]

/-! ## `div` -/

@[simp] theorem toX_sub : O.toX.sub = O.sub := rfl
@[simp] theorem toX_mul : O.toX.mul = O.mul := rfl
@[simp] theorem toX_add : O.toX.add = O.add := rfl
theorem toX_div (x y : α) : O.toX.div x y = O.mul x (O.invT y) := rfl

theorem updAt_eq (r : List α) (k : Nat) (f : α → α) :
    updAt r k f = if k < r.length then .ok (r.set k (f (r.getD k O.zero))) else .panic "index out of bounds" := by
  unfold updAt
  by_cases h : k < r.length
  · simp [h, List.getD]
  · simp [h]

theorem getAt_eq (r : List α) (k : Nat) :
    getAt r k = if k < r.length then .ok (r.getD k O.zero) else .panic "index out of bounds" := by
  unfold getAt
  by_cases h : k < r.length
  · simp [h, List.getD]
  · simp [h]

/-- the inner loop of `div` (`for j in (0..bpos).rev() { a[i + j] -= b[j] * quot }`) -/
theorem divInner (b : List α) (i : Nat) (quot : α) : ∀ (js : List Nat) (a : List α),
    (∀ j ∈ js, j < b.length) → a.length < 18446744073709551616 →
    loopM (js.map fun j => (b.getD j O.zero, j)) a
        (fun a bj => updAt a (i + bj.2) fun v => O.sub v (O.mul bj.1 quot))
      = if Gen.Polynom.div.for1_body.for1_ok O.toX b i quot js a = true
        then .ok (Gen.Polynom.div.for1_body.for1 O.toX b i quot js a) else .panic "index out of bounds" := by
  intro js
  induction js with
  | nil => intro a _ _; simp [loopM, Gen.Polynom.div.for1_body.for1, Gen.Polynom.div.for1_body.for1_ok]
  | cons j t ih =>
    intro a hb ha
    have hj : j < b.length := hb j (by simp)
    rw [List.map_cons, loopM, Gen.Polynom.div.for1_body.for1, Gen.Polynom.div.for1_body.for1_ok, updAt_eq O]
    unfold_gen Gen.Polynom
    simp only [toX_zero, toX_sub, toX_mul]
    by_cases hk : i + j < a.length
    · have hk' : i + j < 18446744073709551616 := by omega
      simp only [hk, hk', hj, if_true, decide_true, Bool.true_and]
      exact ih _ (fun x hx => hb x (by simp [hx])) (by simpa using ha)
    · simp [hk]

theorem setAt_eq (r : List α) (k : Nat) (c : α) :
    setAt r k c = if k < r.length then .ok (r.set k c) else .panic "index out of bounds" := rfl

theorem div_total (hinv : ∀ y, (O.inv y).isSome = true) (x y : α) : O.div x y = .ok (O.mul x (O.invT y)) := by
  unfold Ops.div Ops.invT
  cases h : O.inv y with
  | none => have := hinv y; rw [h] at this; cases this
  | some i => rfl

theorem zipIdx_take_rev (b : List α) (bpos : Nat) (hb : bpos ≤ b.length) :
    (b.take bpos).zipIdx.reverse = (List.range' 0 bpos).reverse.map (fun j => (b.getD j O.zero, j)) := by
  have key : (b.take bpos).zipIdx = (List.range' 0 bpos).map (fun j => (b.getD j O.zero, j)) := by
    apply List.ext_getElem
    · simp [Nat.min_eq_left hb]
    · intro n h1 h2
      simp only [List.length_zipIdx, List.length_take] at h1
      have hn : n < b.length := by omega
      simp [List.getD, List.getElem?_eq_getElem hn]
  rw [key, List.map_reverse]

/-- one iteration of the outer loop of `div` -/
theorem divStep_eq (hinv : ∀ y, (O.inv y).isSome = true) (b : List α) (bpos : Nat) (hb : bpos ≤ b.length)
    (i : Nat) (a result : List α) (apos : Nat) (ha : a.length < 18446744073709551616) :
    divStep O b bpos { a := a, result := result, apos := apos } i
      = if Gen.Polynom.div.for1_body_ok O.toX i a apos result b bpos = true
        then .ok { a := (Gen.Polynom.div.for1_body O.toX i a apos result b bpos).1,
                   result := (Gen.Polynom.div.for1_body O.toX i a apos result b bpos).2.2,
                   apos := (Gen.Polynom.div.for1_body O.toX i a apos result b bpos).2.1 }
        else .panic "index out of bounds" := by
  unfold divStep
  rw [getAt_eq O, getAt_eq O b, zipIdx_take_rev O b bpos hb]
  unfold_gen Gen.Polynom
  simp only [toX_zero, toX_div, Nat.sub_zero]
  by_cases h1 : apos < a.length
  case neg => simp [h1, Res.bind]
  by_cases h2 : bpos < b.length
  case neg => simp [h1, h2, Res.bind]
  simp only [h1, h2, if_true, Res.bind, div_total O hinv, setAt_eq]
  obtain ⟨q, hq⟩ : ∃ q, O.mul (a.getD apos O.zero) (O.invT (b.getD bpos O.zero)) = q := ⟨_, rfl⟩
  simp only [hq]
  by_cases h3 : i < result.length
  case neg => simp [h3]
  simp only [h3, if_true]
  rw [divInner O b i q _ a (by intro j hj; simp at hj; omega) ha]
  by_cases h4 : Gen.Polynom.div.for1_body.for1_ok O.toX b i q (List.range' 0 bpos).reverse a = true
  case neg => rw [if_neg h4]; simp [h4]
  rw [if_pos h4]
  have hw : wrappingPred apos = (apos + 18446744073709551616 - 1) % 18446744073709551616 := by
    unfold wrappingPred; split <;> omega
  rw [hw]
  simp only [h4, decide_true, Bool.true_and, Bool.and_true, if_true]

theorem divInner_length (b : List α) (i : Nat) (quot : α) : ∀ (js : List Nat) (a : List α),
    (Gen.Polynom.div.for1_body.for1 O.toX b i quot js a).length = a.length := by
  intro js
  induction js with
  | nil => intro a; simp [Gen.Polynom.div.for1_body.for1]
  | cons j t ih =>
    intro a
    rw [Gen.Polynom.div.for1_body.for1]
    unfold_gen Gen.Polynom
    rw [ih]; simp

/-- the outer loop of `div` -/
theorem divOuter (hinv : ∀ y, (O.inv y).isSome = true) (b : List α) (bpos : Nat) (hb : bpos ≤ b.length) :
    ∀ (is : List Nat) (a result : List α) (apos : Nat), a.length < 18446744073709551616 →
    loopM is { a := a, result := result, apos := apos } (divStep O b bpos)
      = if Gen.Polynom.div.for1_ok O.toX b bpos is a apos result = true
        then .ok { a := (Gen.Polynom.div.for1 O.toX b bpos is a apos result).1,
                   result := (Gen.Polynom.div.for1 O.toX b bpos is a apos result).2.2,
                   apos := (Gen.Polynom.div.for1 O.toX b bpos is a apos result).2.1 }
        else .panic "index out of bounds" := by
  intro is
  induction is with
  | nil => intro a result apos _; simp [Gen.Polynom.div.for1, Gen.Polynom.div.for1_ok]
  | cons i t ih =>
    intro a result apos ha
    rw [loopM, divStep_eq O hinv b bpos hb i a result apos ha, Gen.Polynom.div.for1, Gen.Polynom.div.for1_ok]
    by_cases hk : Gen.Polynom.div.for1_body_ok O.toX i a apos result b bpos = true
    · rw [if_pos hk]
      simp only [hk, Bool.true_and]
      refine ih _ _ _ ?_
      unfold_gen Gen.Polynom
      rw [divInner_length]; exact ha
    · rw [if_neg hk]
      simp [hk]

open WinterProofs.C20 in
/-- ★ `div` (long division: the `apos`/`bpos` loop with its inner subtraction loop, the three assertions, the
    early return for an empty dividend), for every operations record whose `inv` returns and every dividend a
    `usize` can index: the model returns `ok r` exactly when the regenerated no-panic condition holds and the
    regenerated function returns `r`; it never hangs -/
theorem gen_div_eq (hinv : ∀ y, (O.inv y).isSome = true) (a b : List α) (ha : a.length < 18446744073709551616) :
    (∀ r, div O a b = .ok r ↔ (Gen.Polynom.div_ok O.toX a b = true ∧ Gen.Polynom.div O.toX a b = r)) ∧
    div O a b ≠ .hang := by
  have hb : degreeOf O b ≤ b.length := by
    cases b with
    | nil => simp [degreeOf, stripRev]
    | cons x t => exact Nat.le_of_lt (degreeOf_lt_length (O := O) (x :: t) (by simp))
  have hap : a ≠ [] → degreeOf O a < a.length := fun h => degreeOf_lt_length (O := O) a h
  have hloop := divOuter O hinv b (degreeOf O b) hb
    (List.range' 0 (degreeOf O a - degreeOf O b + 1)).reverse a
    (List.replicate (degreeOf O a - degreeOf O b + 1) O.zero) (degreeOf O a) ha
  unfold div Gen.Polynom.div_ok
  unfold_gen Gen.Polynom.div
  simp only [(gen_degree_of_eq O _).1, (gen_degree_of_eq O _).2, toX_zero, toX_isZero, List.length_replicate,
    Nat.sub_zero, List.range_eq_range', decide_true, Bool.true_and, Bool.and_eq_true, decide_eq_true_eq,
    Bool.decide_eq_true, ge_iff_le]
  by_cases h1 : degreeOf O a < degreeOf O b
  · simp [h1]
  by_cases h2 : degreeOf O b = 0 ∧ b.isEmpty = true
  · simp [h1, h2]
  have hz : headIsZero O b = O.isZero (b.getD 0 O.zero) ∨ b = [] := by
    cases b with
    | nil => exact Or.inr rfl
    | cons x t => left; simp [headIsZero]
  have f2 : degreeOf O b = 0 → ¬ b.isEmpty = true := fun h0 he => h2 ⟨h0, he⟩
  have f3 : degreeOf O b = 0 → 0 < b.length := by
    intro h0; have := f2 h0
    cases b with
    | nil => simp at this
    | cons x t => simp
  by_cases h3 : degreeOf O b = 0 ∧ headIsZero O b = true
  · simp only [h1, h2, h3, if_false, if_true, and_self]
    have : O.isZero (b.getD 0 O.zero) = true := by
      rcases hz with h | h
      · rw [← h]; exact h3.2
      · exact absurd (by rw [h]; rfl) (f2 h3.1)
    have this' : O.isZero (b[0]?.getD O.zero) = true := by simpa [List.getD] using this
    by_cases hb0 : b = [] <;> simp [hb0, this']
  have f4 : degreeOf O b = 0 → ¬ O.isZero (b.getD 0 O.zero) = true := by
    intro h0 hc
    rcases hz with h | h
    · exact h3 ⟨h0, by rw [h]; exact hc⟩
    · exact absurd (by rw [h]; rfl) (f2 h0)
  have f1 : degreeOf O b ≤ degreeOf O a := by omega
  have g2 : degreeOf O b = 0 → ¬ b = [] := fun h0 he => f2 h0 (by rw [he]; rfl)
  have g4 : degreeOf O b = 0 → O.isZero (b[0]?.getD O.zero) = false := by
    intro h0
    have := f4 h0
    simpa [List.getD] using this
  by_cases h4 : a.isEmpty = true
  · simp only [h1, h2, h3, h4, if_false, if_true]
    simp [f1, f3]
    exact ⟨⟨g2, f3⟩, g4⟩
  · simp only [h1, h2, h3, h4, if_false, if_true, hloop]
    have hne : a ≠ [] := by intro h; rw [h] at h4; simp at h4
    have f5 : degreeOf O a - degreeOf O b + 1 < 18446744073709551616 := by have := hap hne; omega
    by_cases hk : Gen.Polynom.div.for1_ok O.toX b (degreeOf O b)
        (List.range' 0 (degreeOf O a - degreeOf O b + 1)).reverse a (degreeOf O a)
        (List.replicate (degreeOf O a - degreeOf O b + 1) O.zero) = true
    · simp [hk, Res.bind, f1, f3, f5]
      exact ⟨⟨g2, f3⟩, g4⟩
    · simp [hk, Res.bind]

/-! ## `serial_batch_inversion` -/

@[simp] theorem toX_inv : O.toX.inv = O.invT := rfl

/-- first loop (`for (result, &value) in result.iter_mut().zip(values.iter())`): the prefix products -/
theorem binvFwd : ∀ (vs rs acc : List α) (last : α), rs.length = vs.length →
    Gen.MathUtils.serial_batch_inversion.for1 O.toX (List.zip rs vs) last acc =
      ((binvForward O vs last).2, acc ++ (binvForward O vs last).1) ∧
    Gen.MathUtils.serial_batch_inversion.for1_ok O.toX (List.zip rs vs) last acc = true := by
  intro vs
  induction vs with
  | nil =>
    intro rs acc last h
    have : rs = [] := List.length_eq_zero_iff.mp h
    subst this
    simp [Gen.MathUtils.serial_batch_inversion.for1, Gen.MathUtils.serial_batch_inversion.for1_ok, binvForward]
  | cons v vs ih =>
    intro rs acc last h
    cases rs with
    | nil => simp at h
    | cons r rs =>
      rw [List.zip_cons_cons, Gen.MathUtils.serial_batch_inversion.for1,
        Gen.MathUtils.serial_batch_inversion.for1_ok, binvForward]
      unfold_gen Gen.MathUtils
      simp only [toX_isZero, toX_mul, Bool.true_and]
      obtain ⟨h1, h2⟩ := ih rs (acc ++ [last]) (if O.isZero v = true then last else O.mul last v) (by simpa using h)
      by_cases hz : O.isZero v = true
      · simp only [hz, if_true] at h1 h2 ⊢
        simp [h1, h2]
      · have hz' : O.isZero v = false := by simpa using hz
        simp only [hz', Bool.false_eq_true, if_false] at h1 h2 ⊢
        simp [h1, h2]

theorem binvFor2_append (vals : List α) : ∀ (l1 l2 : List Nat) (res : List α) (last : α),
    Gen.MathUtils.serial_batch_inversion.for2 O.toX vals (l1 ++ l2) res last =
      Gen.MathUtils.serial_batch_inversion.for2 O.toX vals l2
        (Gen.MathUtils.serial_batch_inversion.for2 O.toX vals l1 res last).1
        (Gen.MathUtils.serial_batch_inversion.for2 O.toX vals l1 res last).2 ∧
    Gen.MathUtils.serial_batch_inversion.for2_ok O.toX vals (l1 ++ l2) res last =
      (Gen.MathUtils.serial_batch_inversion.for2_ok O.toX vals l1 res last &&
       Gen.MathUtils.serial_batch_inversion.for2_ok O.toX vals l2
        (Gen.MathUtils.serial_batch_inversion.for2 O.toX vals l1 res last).1
        (Gen.MathUtils.serial_batch_inversion.for2 O.toX vals l1 res last).2) := by
  intro l1
  induction l1 with
  | nil => intro l2 res last; simp [Gen.MathUtils.serial_batch_inversion.for2, Gen.MathUtils.serial_batch_inversion.for2_ok]
  | cons i t ih =>
    intro l2 res last
    rw [List.cons_append, Gen.MathUtils.serial_batch_inversion.for2, Gen.MathUtils.serial_batch_inversion.for2_ok,
      Gen.MathUtils.serial_batch_inversion.for2, Gen.MathUtils.serial_batch_inversion.for2_ok]
    obtain ⟨h1, h2⟩ := ih l2 (Gen.MathUtils.serial_batch_inversion.for2_body O.toX i res last vals).1
      (Gen.MathUtils.serial_batch_inversion.for2_body O.toX i res last vals).2
    simp only [h1, h2, Bool.and_assoc]
    exact ⟨trivial, trivial⟩

/-- second loop (`for i in (0..n).rev()`), on the part of the vectors after a common prefix -/
theorem binvBwd : ∀ (vs ps pv pp : List α) (last : α), vs.length = ps.length → pv.length = pp.length →
    Gen.MathUtils.serial_batch_inversion.for2 O.toX (pv ++ vs) (List.range' pv.length vs.length).reverse (pp ++ ps) last =
      (pp ++ (binvBackward O (vs.zip ps) last).1, (binvBackward O (vs.zip ps) last).2) ∧
    Gen.MathUtils.serial_batch_inversion.for2_ok O.toX (pv ++ vs) (List.range' pv.length vs.length).reverse (pp ++ ps) last
      = true := by
  intro vs
  induction vs with
  | nil =>
    intro ps pv pp last h _
    have : ps = [] := List.length_eq_zero_iff.mp h.symm
    subst this
    simp [Gen.MathUtils.serial_batch_inversion.for2, Gen.MathUtils.serial_batch_inversion.for2_ok, binvBackward]
  | cons v vs ih =>
    intro ps pv pp last h hp
    cases ps with
    | nil => simp at h
    | cons p ps =>
      have hlen : vs.length = ps.length := by simpa using h
      obtain ⟨i1, i2⟩ := ih ps (pv ++ [v]) (pp ++ [p]) last hlen (by simp [hp])
      simp only [List.append_assoc, List.singleton_append, List.length_append, List.length_cons, List.length_nil,
        Nat.zero_add] at i1 i2
      have hr : (List.range' pv.length (v :: vs).length).reverse =
          (List.range' (pv.length + 1) vs.length).reverse ++ [pv.length] := by
        simp [List.range'_succ]
      obtain ⟨a1, a2⟩ := binvFor2_append O (pv ++ v :: vs) (List.range' (pv.length + 1) vs.length).reverse [pv.length]
        (pp ++ p :: ps) last
      rw [hr, a1, a2, i1, i2, List.zip_cons_cons, binvBackward]
      simp only [Gen.MathUtils.serial_batch_inversion.for2, Gen.MathUtils.serial_batch_inversion.for2_ok]
      unfold_gen Gen.MathUtils
      have g1 : (pv ++ v :: vs).getD pv.length O.zero = v := by simp [List.getD]
      have g2 : ∀ t : List α, (pp ++ p :: t).getD pv.length O.zero = p := by intro t; simp [List.getD, hp]
      have g3 : ∀ (t : List α) (x : α), (pp ++ p :: t).set pv.length x = pp ++ x :: t := by
        intro t x; rw [hp]; simp
      simp only [toX_zero, toX_isZero, toX_mul, g1, g2, g3]
      by_cases hz : O.isZero v = true
      · simp [hz, hp]
      · have hz' : O.isZero v = false := by simpa using hz
        simp [hz', hp]

/-- ★ `serial_batch_inversion(values, result)` (both loops; `result` of the same length, as its only caller
    provides), for every operations record whose `inv` returns -/
theorem gen_serial_batch_inversion_eq (hinv : ∀ y, (O.inv y).isSome = true) (values result : List α)
    (hlen : result.length = values.length) :
    serialBatchInversion O values = .ok (Gen.MathUtils.serial_batch_inversion O.toX values result) ∧
    Gen.MathUtils.serial_batch_inversion_ok O.toX values result = true := by
  obtain ⟨f1, f2⟩ := binvFwd O values result [] O.one hlen
  have hfl : (binvForward O values O.one).1.length = values.length := by
    have : ∀ (vs : List α) (l : α), (binvForward O vs l).1.length = vs.length := by
      intro vs; induction vs with
      | nil => intro l; simp [binvForward]
      | cons v t ih => intro l; simp [binvForward, ih]
    exact this values O.one
  obtain ⟨b1, b2⟩ := binvBwd O values (binvForward O values O.one).1 [] []
    (O.invT (binvForward O values O.one).2) hfl.symm rfl
  simp only [List.nil_append, List.length_nil] at b1 b2
  unfold serialBatchInversion
  unfold_gen Gen.MathUtils
  simp only [toX_one, toX_inv, f1, f2, List.nil_append, Nat.sub_zero]
  have hd : List.drop (binvForward O values O.one).1.length result = [] := by
    rw [hfl, ← hlen]; simp
  simp only [hd, List.append_nil, b1, b2]
  have hi : O.inv (binvForward O values O.one).2 = some (O.invT (binvForward O values O.one).2) := by
    unfold Ops.invT
    cases h : O.inv (binvForward O values O.one).2 with
    | none => have := hinv (binvForward O values O.one).2; rw [h] at this; cases this
    | some i => rfl
  rw [hi]
  simp

/-! ## `mul` -/

theorem zipIdx_eq (l : List α) :
    l.zipIdx = (List.range' 0 l.length).map (fun j => (l.getD j O.zero, j)) := by
  apply List.ext_getElem
  · simp
  · intro n h1 h2
    simp only [List.length_zipIdx] at h1
    simp [List.getD, List.getElem?_eq_getElem h1]

/-- the inner loop of `mul` (`for j in 0..b.len() { result[i + j] += a[i] * b[j] }`) -/
theorem mulInner_eq (a b : List α) (i : Nat) (hi : i < a.length) : ∀ (js : List Nat) (r : List α),
    (∀ j ∈ js, j < b.length) → r.length < 18446744073709551616 →
    loopM (js.map fun j => (b.getD j O.zero, j)) r
        (fun r bj => updAt r (i + bj.2) fun v => O.add v (O.mul (a.getD i O.zero) bj.1))
      = if Gen.Polynom.mul.for1_body.for1_ok O.toX a b i js r = true
        then .ok (Gen.Polynom.mul.for1_body.for1 O.toX a b i js r) else .panic "index out of bounds" := by
  intro js
  induction js with
  | nil => intro r _ _; simp [Gen.Polynom.mul.for1_body.for1, Gen.Polynom.mul.for1_body.for1_ok]
  | cons j t ih =>
    intro r hb hr
    have hj : j < b.length := hb j (by simp)
    rw [List.map_cons, loopM, Gen.Polynom.mul.for1_body.for1, Gen.Polynom.mul.for1_body.for1_ok, updAt_eq O]
    unfold_gen Gen.Polynom
    simp only [toX_zero, toX_add, toX_mul]
    by_cases hk : i + j < r.length
    · have hk' : i + j < 18446744073709551616 := by omega
      simp only [hk, hk', hj, hi, if_true, decide_true, Bool.true_and]
      exact ih _ (fun x hx => hb x (by simp [hx])) (by simpa using hr)
    · simp [hk]

theorem mulInner_length (a b : List α) (i : Nat) : ∀ (js : List Nat) (r : List α),
    (Gen.Polynom.mul.for1_body.for1 O.toX a b i js r).length = r.length := by
  intro js
  induction js with
  | nil => intro r; simp [Gen.Polynom.mul.for1_body.for1]
  | cons j t ih =>
    intro r
    rw [Gen.Polynom.mul.for1_body.for1]
    unfold_gen Gen.Polynom
    rw [ih]; simp

theorem mulStep_eq (a b : List α) (i : Nat) (hi : i < a.length) (r : List α) (hr : r.length < 18446744073709551616) :
    mulInner O (a.getD i O.zero) i b r
      = if Gen.Polynom.mul.for1_body_ok O.toX i r a b = true
        then .ok (Gen.Polynom.mul.for1_body O.toX i r a b) else .panic "index out of bounds" := by
  unfold mulInner
  rw [zipIdx_eq O b, mulInner_eq O a b i hi _ r (by intro j hj; simp at hj; omega) hr]
  unfold Gen.Polynom.mul.for1_body_ok
  unfold_gen Gen.Polynom.mul.for1_body
  simp

/-- the outer loop of `mul` -/
theorem mulOuter_eq (a b : List α) : ∀ (is : List Nat) (r : List α),
    (∀ i ∈ is, i < a.length) → r.length < 18446744073709551616 →
    loopM (is.map fun i => (a.getD i O.zero, i)) r (fun r ai => mulInner O ai.1 ai.2 b r)
      = if Gen.Polynom.mul.for1_ok O.toX a b is r = true
        then .ok (Gen.Polynom.mul.for1 O.toX a b is r) else .panic "index out of bounds" := by
  intro is
  induction is with
  | nil => intro r _ _; simp [Gen.Polynom.mul.for1, Gen.Polynom.mul.for1_ok]
  | cons i t ih =>
    intro r ha hr
    have hi : i < a.length := ha i (by simp)
    rw [List.map_cons, loopM, Gen.Polynom.mul.for1, Gen.Polynom.mul.for1_ok]
    simp only [mulStep_eq O a b i hi r hr]
    by_cases hk : Gen.Polynom.mul.for1_body_ok O.toX i r a b = true
    · rw [if_pos hk]
      simp only [hk, Bool.true_and]
      refine ih (Gen.Polynom.mul.for1_body O.toX i r a b) (fun x hx => ha x (by simp [hx])) ?_
      unfold_gen Gen.Polynom.mul.for1_body
      rw [mulInner_length O a b i _ r]; exact hr
    · rw [if_neg hk]
      simp [hk]

/-- ★ `mul` (schoolbook product, the two index loops with `result[i + j] += ..`) -/
theorem gen_mul_eq (a b : List α) (hlen : a.length + b.length < 18446744073709551616) :
    mul O a b = if Gen.Polynom.mul_ok O.toX a b = true then .ok (Gen.Polynom.mul O.toX a b)
      else .panic "index out of bounds" := by
  unfold mul
  rw [zipIdx_eq O a, mulOuter_eq O a b _ _ (by intro i hi; simp at hi; omega) (by simp; omega)]
  unfold Gen.Polynom.mul_ok
  unfold_gen Gen.Polynom.mul
  simp [hlen]

end C20G
