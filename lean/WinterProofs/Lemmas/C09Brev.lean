-- C09 helper lemmas: bit reversal (`brev`), `permute_index`, integer helpers of the FFT model
import Winter.Model.Fft
import Mathlib.Tactic.Ring
import Mathlib.Tactic.Linarith

namespace WinterProofs.C09
open Model.Fft

/-! ### `brev` -/

theorem brev_zero_right (w : Nat) : brev w 0 = 0 := by
  induction w with
  | zero => rfl
  | succ w ih => simp [brev, ih]

theorem brev_lt (w i : Nat) : brev w i < 2 ^ w := by
  induction w generalizing i with
  | zero => simp [brev]
  | succ w ih =>
    have h1 := ih (i / 2)
    have h2 : i % 2 < 2 := Nat.mod_lt _ (by decide)
    simp only [brev, Nat.pow_succ]
    rcases Nat.lt_succ_iff.mp h2 |>.lt_or_eq with h | h
    · have : i % 2 = 0 := by omega
      simp [this]; omega
    · simp [h]; omega

/-- on indices below `2^k`, reversing `k + d` bits is reversing `k` bits and shifting left by `d` -/
theorem brev_add (k d i : Nat) (h : i < 2 ^ k) : brev (k + d) i = 2 ^ d * brev k i := by
  induction k generalizing i with
  | zero =>
    have : i = 0 := by simpa using h
    subst this
    simp [brev_zero_right, brev]
  | succ k ih =>
    have h' : i / 2 < 2 ^ k := by
      rw [Nat.pow_succ] at h; omega
    have e : k + 1 + d = (k + d) + 1 := by omega
    rw [e]
    simp only [brev]
    rw [ih (i / 2) h']
    rw [Nat.pow_add]
    ring

theorem brev_succ_of_lt (k i : Nat) (h : i < 2 ^ k) : brev (k + 1) i = 2 * brev k i := by
  have := brev_add k 1 i h
  simpa using this

/-- low half / high half: `brev (k+1) (2*j + b) = b * 2^k + brev k j` -/
theorem brev_succ_two_mul_add (k j b : Nat) (hb : b < 2) : brev (k + 1) (2 * j + b) = b * 2 ^ k + brev k j := by
  simp only [brev]
  have h1 : (2 * j + b) % 2 = b := by omega
  have h2 : (2 * j + b) / 2 = j := by omega
  rw [h1, h2]

/-- `brev (k+1) (j + b * 2^k) = 2 * brev k j + b` for `j < 2^k` -/
theorem brev_succ_add_high (k j b : Nat) (hj : j < 2 ^ k) (hb : b < 2) :
    brev (k + 1) (j + b * 2 ^ k) = 2 * brev k j + b := by
  induction k generalizing j with
  | zero =>
    have : j = 0 := by simpa using hj
    subst this
    have hb' : b = 0 ∨ b = 1 := by omega
    rcases hb' with rfl | rfl <;> simp [brev]
  | succ k ih =>
    have hj' : j / 2 < 2 ^ k := by rw [Nat.pow_succ] at hj; omega
    have hb' : b = 0 ∨ b = 1 := by omega
    have e1 : (j + b * 2 ^ (k + 1)) % 2 = j % 2 := by
      rw [Nat.pow_succ]; rcases hb' with rfl | rfl <;> omega
    have e2 : (j + b * 2 ^ (k + 1)) / 2 = j / 2 + b * 2 ^ k := by
      rw [Nat.pow_succ]; rcases hb' with rfl | rfl <;> omega
    rw [brev, e1, e2, ih (j / 2) hj']
    rw [brev]
    ring

/-- bit reversal is an involution on `[0, 2^k)` -/
theorem brev_brev (k i : Nat) (h : i < 2 ^ k) : brev k (brev k i) = i := by
  induction k generalizing i with
  | zero =>
    have : i = 0 := by simpa using h
    subst this; rfl
  | succ k ih =>
    have h' : i / 2 < 2 ^ k := by rw [Nat.pow_succ] at h; omega
    have hb : i % 2 < 2 := Nat.mod_lt _ (by decide)
    have hlt := brev_lt k (i / 2)
    rw [show brev (k + 1) i = i % 2 * 2 ^ k + brev k (i / 2) from rfl]
    rw [Nat.add_comm (i % 2 * 2 ^ k), brev_succ_add_high k (brev k (i / 2)) (i % 2) hlt hb, ih (i / 2) h']
    omega

theorem brev_injOn (k i j : Nat) (hi : i < 2 ^ k) (hj : j < 2 ^ k) (h : brev k i = brev k j) : i = j := by
  have := congrArg (brev k) h
  rwa [brev_brev k i hi, brev_brev k j hj] at this

end WinterProofs.C09
