-- tie T for C20, continued: `remove_leading_zeros` as regenerated from math/src/polynom/mod.rs on this run
-- (Winter/Gen/Polynom.lean) coincides with the hand-written model function `Model.Poly.removeLeadingZeros`
-- for EVERY operations record and all inputs, and none of its index / slice bounds can fail.
import WinterProofs.Lemmas.C20Gen

namespace C20G
open Model.Poly

variable {α : Type} (O : Ops α)

/-- once `remove_leading_zeros`'s loop has returned, the remaining indices change nothing and read nothing -/
theorem rlzDone (values : List α) : ∀ (is : List Nat) (v : List α),
    Gen.Polynom.remove_leading_zeros.for1 O.toX values is true v = (true, v) ∧
    Gen.Polynom.remove_leading_zeros.for1_ok O.toX values is true v = true := by
  intro is
  induction is with
  | nil => intro v; simp [Gen.Polynom.remove_leading_zeros.for1, Gen.Polynom.remove_leading_zeros.for1_ok]
  | cons i t ih =>
    intro v
    rw [Gen.Polynom.remove_leading_zeros.for1, Gen.Polynom.remove_leading_zeros.for1_ok]
    unfold_gen Gen.Polynom
    simpa using ih v

/-- the translated top-down scan of `remove_leading_zeros` over the indices of a prefix `r.reverse` of the vector:
    nothing found (all of the prefix's top is zero), or the slice `values[..i + 1]` up to the first non-zero hit -/
theorem rlzLoop : ∀ (r s v : List α), r.length < 18446744073709551616 →
    Gen.Polynom.remove_leading_zeros.for1 O.toX (r.reverse ++ s) (List.range' 0 r.length).reverse false v =
      (match stripRev O r.reverse with | [] => (false, v) | y :: t => (true, (y :: t).reverse)) ∧
    Gen.Polynom.remove_leading_zeros.for1_ok O.toX (r.reverse ++ s) (List.range' 0 r.length).reverse false v = true := by
  intro r
  induction r with
  | nil =>
    intro s v _
    simp [Gen.Polynom.remove_leading_zeros.for1, Gen.Polynom.remove_leading_zeros.for1_ok, stripRev]
  | cons x r ih =>
    intro s v hlen
    have hlen' : r.length + 1 < 18446744073709551616 := by simpa using hlen
    have hr : (List.range' 0 (x :: r).length).reverse = r.length :: (List.range' 0 r.length).reverse := by
      simp [List.range'_concat]
    have hg : ((x :: r).reverse ++ s).getD r.length O.zero = x := by simp [List.getD]
    have hl : (x :: r).reverse ++ s = r.reverse ++ ([x] ++ s) := by simp
    have ht : List.take (r.length + 1) ((x :: r).reverse ++ s) = (x :: r).reverse := by
      rw [List.take_append_of_le_length (by simp)]
      exact List.take_of_length_le (by simp)
    rw [hr, Gen.Polynom.remove_leading_zeros.for1, Gen.Polynom.remove_leading_zeros.for1_ok]
    rw [show (x :: r).reverse = r.reverse ++ [x] from by simp, stripRev_snoc]
    unfold_gen Gen.Polynom
    rw [show r.reverse ++ [x] ++ s = (x :: r).reverse ++ s from by simp]
    simp only [toX_zero, hg, ht]
    by_cases hz : O.isZero x = true
    · have := ih (x :: s) v (by omega)
      rw [hl]
      simp only [List.singleton_append]
      simpa [hz] using this
    · obtain ⟨d1, d2⟩ := rlzDone O ((x :: r).reverse ++ s) (List.range' 0 r.length).reverse (x :: r).reverse
      have hz' : O.isZero x = false := by simpa using hz
      simp only [List.reverse_cons, List.append_assoc, List.singleton_append] at d1 d2 ⊢
      simp [hz', d1, d2, hlen']

/-- ★ `remove_leading_zeros` (the top-down scan returning the slice `values[..i + 1]` at the first non-zero
    coefficient, the empty vector if there is none): value equal to the model's for every record and every vector a
    `usize` can index (the hypothesis is what keeps the translated `i + 1` from wrapping), and the index `values[i]`,
    the `i + 1` and the slice bound never fail. -/
theorem gen_remove_leading_zeros_eq (p : List α) (hp : p.length < 18446744073709551616) :
    Gen.Polynom.remove_leading_zeros O.toX p = removeLeadingZeros O p ∧
    Gen.Polynom.remove_leading_zeros_ok O.toX p = true := by
  unfold removeLeadingZeros
  unfold_gen Gen.Polynom
  obtain ⟨h1, h2⟩ := rlzLoop O p.reverse [] [] (by simpa using hp)
  simp only [List.append_nil, List.reverse_reverse, List.length_reverse] at h1 h2
  simp only [Nat.sub_zero]
  cases h : stripRev O p with
  | nil => rw [h] at h1; simp [h1, h2]
  | cons y t => rw [h] at h1; simp [h1, h2]

end C20G
