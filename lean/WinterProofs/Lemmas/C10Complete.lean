-- C10 helper lemmas: completeness of batch openings (prove_batch then get_root), upper levels
import WinterProofs.Lemmas.C10Bind

namespace WinterProofs.C10
open Model.Merkle

variable {D : Type}

/-- row-wise extension: the prover only appends to the node rows -/
inductive Ext : List (List D) → List (List D) → Prop
  | nil : Ext [] []
  | cons {r rF : List D} {rs rFs : List (List D)} : (∃ suf, rF = r ++ suf) → Ext rs rFs → Ext (r :: rs) (rF :: rFs)

theorem Ext.refl : ∀ (rows : List (List D)), Ext rows rows
  | [] => .nil
  | r :: rs => .cons ⟨[], by simp⟩ (Ext.refl rs)

theorem Ext.trans : ∀ {a b c : List (List D)}, Ext a b → Ext b c → Ext a c
  | [], [], [], _, _ => .nil
  | x :: xs, y :: ys, z :: zs, .cons ⟨s1, h1⟩ t1, .cons ⟨s2, h2⟩ t2 =>
    .cons ⟨s1 ++ s2, by rw [h2, h1, List.append_assoc]⟩ (Ext.trans t1 t2)

theorem anyUnused_lengths : ∀ (rows : List (List D)), anyUnused (rows.map List.length) rows = false
  | [] => rfl
  | r :: rs => by simp [anyUnused, anyUnused_lengths rs]

-- ---------------------------------------------------------------------------------------------
-- unfolding lemmas of the prover's level loop

theorem proveLevel_nil (tn : List D) (rows : List (List D)) : proveLevel tn [] rows = .ok (rows, []) := by
  simp [proveLevel]

theorem proveLevel_single (tn : List D) (k : Nat) (rest : List Nat) (hn : NotMerged k rest)
    (row : List D) (rows : List (List D)) (s : D) (hs : tn[xor1 k]? = some s) :
    proveLevel tn (k :: rest) (row :: rows) =
      proveLevel tn rest rows >>= fun r => .ok ((row ++ [s]) :: r.1, xor1 k / 2 :: r.2) := by
  cases rest with
  | nil => simp [proveLevel, hs]
  | cons k' rest' =>
    have : k' ≠ xor1 k := hn k' rest' rfl
    simp only [proveLevel, if_neg this, hs]

theorem proveLevel_merged (tn : List D) (k : Nat) (rest : List Nat) (r0 r1 : List D) (rows : List (List D)) :
    proveLevel tn (k :: xor1 k :: rest) (r0 :: r1 :: rows) =
      proveLevel tn rest rows >>= fun r => .ok (r0 :: r1 :: r.1, xor1 k / 2 :: r.2) := by
  simp only [proveLevel, if_true]

/-- the prover's level loop succeeds, appends only, and moves to the parents -/
theorem proveLevel_total (tn : List D) : ∀ (K : List Nat) (rows : List (List D)),
    K.length ≤ rows.length → (∀ k ∈ K, xor1 k < tn.length) →
    ∃ rows1, proveLevel tn K rows = .ok (rows1, parents K) ∧ Ext rows rows1 := by
  intro K
  induction K using level_induction with
  | nil => intro rows _ _; exact ⟨rows, by simp [proveLevel_nil, parents], Ext.refl rows⟩
  | single k rest hn ih =>
    intro rows hl hx
    match rows, hl with
    | row :: rows, hl =>
      have hk := hx k (List.mem_cons_self ..)
      obtain ⟨rs, h1, h2⟩ := ih rows (by simpa using hl) (fun x hx' => hx x (List.mem_cons_of_mem _ hx'))
      refine ⟨(row ++ [tn[xor1 k]]) :: rs, ?_, .cons ⟨[tn[xor1 k]], rfl⟩ h2⟩
      rw [proveLevel_single tn k rest hn row rows _ (List.getElem?_eq_getElem hk), h1, parents_single k rest hn, xor1_div]
      rfl
  | merged k rest ih =>
    intro rows hl hx
    match rows, hl with
    | r0 :: r1 :: rows, hl =>
      obtain ⟨rs, h1, h2⟩ := ih rows (by simp at hl; omega)
        (fun x hx' => hx x (List.mem_cons_of_mem _ (List.mem_cons_of_mem _ hx')))
      refine ⟨r0 :: r1 :: rs, ?_, .cons ⟨[], by simp⟩ (.cons ⟨[], by simp⟩ h2)⟩
      rw [proveLevel_merged, h1, parents_merged, xor1_div]
      rfl

theorem Ext.length_eq {a b : List (List D)} (h : Ext a b) : a.length = b.length := by
  induction h with
  | nil => rfl
  | cons _ _ ih => simp [ih]

/-- the level loops of prover and verifier in lock step: reading the final rows at the lengths the
    rows had before the level returns exactly what the prover appended -/
theorem level_sim (H : Hasher D) (val : Nat → D) (tn : List D) : ∀ (K : List Nat)
    (rows rows1 rowsF : List (List D)) (K1 : List Nat) (v : SMap D),
    Asc K → proveLevel tn K rows = .ok (rows1, K1) → Ext rows1 rowsF →
    (∀ k ∈ K, SMap.get v k = some (val k)) →
    (∀ k ∈ K, tn[xor1 k]? = some (val (xor1 k)) ∧ par H k (val k) (val (xor1 k)) = val (k / 2)) →
    ∃ v1, rootLevel H K rowsF (rows.map List.length) v = .ok (v1, rows1.map List.length, K1) ∧
      (∀ k1 ∈ K1, SMap.get v1 k1 = some (val k1)) ∧
      (∀ key, (∀ k ∈ K, key < k / 2) → SMap.get v1 key = SMap.get v key) := by
  intro K
  induction K using level_induction with
  | nil =>
    intro rows rows1 rowsF K1 v _ hp _ _ _
    rw [proveLevel_nil] at hp
    injection hp with hp; injection hp with h1 h2; subst h1; subst h2
    refine ⟨v, by rw [rootLevel_nil], ?_, fun _ _ => rfl⟩
    intro k1 hk1; cases hk1
  | single k rest hn ih =>
    intro rows rows1 rowsF K1 v hasc hp hext hv ht
    obtain ⟨hts, hpar⟩ := ht k (List.mem_cons_self ..)
    match rows with
    | [] =>
      cases rest with
      | nil => simp [proveLevel] at hp
      | cons k' rest' => simp [proveLevel, hn k' rest' rfl] at hp
    | row :: rows =>
      rw [proveLevel_single tn k rest hn row rows _ hts] at hp
      cases hr : proveLevel tn rest rows with
      | err e => rw [hr] at hp; cases hp
      | panic e => rw [hr] at hp; cases hp
      | ok r =>
        obtain ⟨rs, nx⟩ := r
        rw [hr] at hp
        simp only [Res.ok_bind] at hp
        injection hp with hp; injection hp with h1 h2; subst h1; subst h2
        match rowsF, hext with
        | rF :: rFs, .cons ⟨suf, hsuf⟩ hext' =>
          have hlt := asc_single_lt hasc hn
          have hv2 : ∀ x ∈ rest, SMap.get (SMap.insert v (k / 2) (val (k / 2))) x = some (val x) := by
            intro x hx
            have := Asc.head_lt hasc x hx
            rw [SMap.get_insert_ne _ _ _ _ (by omega)]
            exact hv x (List.mem_cons_of_mem _ hx)
          obtain ⟨v1, i1, i2, i3⟩ := ih rows rs rFs nx _ (Asc.tail hasc) hr hext' hv2
            (fun x hx => ht x (List.mem_cons_of_mem _ hx))
          refine ⟨v1, ?_, ?_, ?_⟩
          · simp only [List.map_cons]
            rw [rootLevel_single H k rest hn]
            have hread : rF[row.length]? = some (val (xor1 k)) := by
              rw [hsuf, List.append_assoc, List.getElem?_append_right (Nat.le_refl _)]
              simp
            rw [hread, hv k (List.mem_cons_self ..)]
            simp only [hpar, i1, Res.ok_bind, List.length_append, List.length_cons, List.length_nil, xor1_div]
          · intro k1 hk1
            rw [xor1_div] at hk1
            rcases List.mem_cons.1 hk1 with rfl | hk1
            · rw [i3 _ (fun x hx => hlt x hx)]
              exact SMap.get_insert_self _ _ _
            · exact i2 k1 hk1
          · intro key hkey
            rw [i3 key (fun x hx => hkey x (List.mem_cons_of_mem _ hx))]
            exact SMap.get_insert_ne _ _ _ _ (by have := hkey k (List.mem_cons_self ..); omega)
  | merged k rest ih =>
    intro rows rows1 rowsF K1 v hasc hp hext hv ht
    obtain ⟨hev, hx1, hlt⟩ := asc_merged hasc
    obtain ⟨_, hpar⟩ := ht k (List.mem_cons_self ..)
    match rows with
    | [] => simp [proveLevel] at hp
    | [_] => simp [proveLevel] at hp
    | r0 :: r1 :: rows =>
      rw [proveLevel_merged] at hp
      cases hr : proveLevel tn rest rows with
      | err e => rw [hr] at hp; cases hp
      | panic e => rw [hr] at hp; cases hp
      | ok r =>
        obtain ⟨rs, nx⟩ := r
        rw [hr] at hp
        simp only [Res.ok_bind] at hp
        injection hp with hp; injection hp with h1 h2; subst h1; subst h2
        match rowsF, hext with
        | rF0 :: rF1 :: rFs, .cons _ (.cons _ hext') =>
          have hv2 : ∀ x ∈ rest, SMap.get (SMap.insert v (k / 2) (val (k / 2))) x = some (val x) := by
            intro x hx
            have := Asc.head_lt (Asc.tail hasc) x hx
            rw [hx1] at this
            rw [SMap.get_insert_ne _ _ _ _ (by omega)]
            exact hv x (List.mem_cons_of_mem _ (List.mem_cons_of_mem _ hx))
          obtain ⟨v1, i1, i2, i3⟩ := ih rows rs rFs nx _ (Asc.tail (Asc.tail hasc)) hr hext' hv2
            (fun x hx => ht x (List.mem_cons_of_mem _ (List.mem_cons_of_mem _ hx)))
          refine ⟨v1, ?_, ?_, ?_⟩
          · simp only [List.map_cons]
            rw [rootLevel_merged, hv k (List.mem_cons_self ..),
              hv (xor1 k) (List.mem_cons_of_mem _ (List.mem_cons_self ..))]
            simp only [hpar, i1, Res.ok_bind, xor1_div]
          · intro k1 hk1
            rw [xor1_div] at hk1
            rcases List.mem_cons.1 hk1 with rfl | hk1
            · rw [i3 _ (fun x hx => hlt x hx)]
              exact SMap.get_insert_self _ _ _
            · exact i2 k1 hk1
          · intro key hkey
            rw [i3 key (fun x hx => hkey x (List.mem_cons_of_mem _ (List.mem_cons_of_mem _ hx)))]
            exact SMap.get_insert_ne _ _ _ _ (by have := hkey k (List.mem_cons_self ..); omega)

end WinterProofs.C10

namespace WinterProofs.C10
open Model.Merkle

variable {D : Type}

/-- a successful level of the prover appends only and moves to the parents -/
theorem proveLevel_ok (tn : List D) : ∀ (K : List Nat) (rows rows1 : List (List D)) (K1 : List Nat),
    proveLevel tn K rows = .ok (rows1, K1) → Ext rows rows1 ∧ K1 = parents K := by
  intro K
  induction K using level_induction with
  | nil =>
    intro rows rows1 K1 hp
    rw [proveLevel_nil] at hp
    injection hp with hp; injection hp with h1 h2; subst h1; subst h2
    exact ⟨Ext.refl _, rfl⟩
  | single k rest hn ih =>
    intro rows rows1 K1 hp
    match rows with
    | [] =>
      cases rest with
      | nil => simp [proveLevel] at hp
      | cons k' rest' => simp [proveLevel, hn k' rest' rfl] at hp
    | row :: rows =>
      cases hs : tn[xor1 k]? with
      | none =>
        cases rest with
        | nil => simp [proveLevel, hs] at hp
        | cons k' rest' => simp [proveLevel, hn k' rest' rfl, hs] at hp
      | some s =>
        rw [proveLevel_single tn k rest hn row rows s hs] at hp
        cases hr : proveLevel tn rest rows with
        | err e => rw [hr] at hp; cases hp
        | panic e => rw [hr] at hp; cases hp
        | ok r =>
          obtain ⟨rs, nx⟩ := r
          rw [hr] at hp
          simp only [Res.ok_bind] at hp
          injection hp with hp; injection hp with h1 h2; subst h1; subst h2
          obtain ⟨i1, i2⟩ := ih rows rs nx hr
          exact ⟨.cons ⟨[s], rfl⟩ i1, by rw [parents_single k rest hn, xor1_div, i2]⟩
  | merged k rest ih =>
    intro rows rows1 K1 hp
    match rows with
    | [] => simp [proveLevel] at hp
    | [_] => simp [proveLevel] at hp
    | r0 :: r1 :: rows =>
      rw [proveLevel_merged] at hp
      cases hr : proveLevel tn rest rows with
      | err e => rw [hr] at hp; cases hp
      | panic e => rw [hr] at hp; cases hp
      | ok r =>
        obtain ⟨rs, nx⟩ := r
        rw [hr] at hp
        simp only [Res.ok_bind] at hp
        injection hp with hp; injection hp with h1 h2; subst h1; subst h2
        obtain ⟨i1, i2⟩ := ih rows rs nx hr
        exact ⟨.cons ⟨[], by simp⟩ (.cons ⟨[], by simp⟩ i1), by rw [parents_merged, xor1_div, i2]⟩

theorem proveLevels_ok (tn : List D) : ∀ (l : Nat) (K : List Nat) (rows rowsF : List (List D)),
    proveLevels tn l K rows = .ok rowsF → Ext rows rowsF
  | 0, K, rows, rowsF, h => by
    simp only [proveLevels] at h
    injection h with h; subst h; exact Ext.refl _
  | l + 1, K, rows, rowsF, h => by
    simp only [proveLevels] at h
    cases hp : proveLevel tn K rows with
    | err e => rw [hp] at h; cases h
    | panic e => rw [hp] at h; cases h
    | ok r =>
      obtain ⟨rows1, K1⟩ := r
      rw [hp] at h
      simp only [Res.ok_bind] at h
      exact (proveLevel_ok tn K rows rows1 K1 hp).1.trans (proveLevels_ok tn l K1 rows1 rowsF h)

/-- the prover's upper levels succeed -/
theorem proveLevels_total (tn : List D) (d : Nat) (htn : tn.length = 2 ^ d) : ∀ (l : Nat) (K : List Nat)
    (rows : List (List D)), Asc K → (∀ k ∈ K, 2 ^ l ≤ k ∧ k < 2 ^ (l + 1)) → l < d → K.length ≤ rows.length →
    ∃ rowsF, proveLevels tn l K rows = .ok rowsF
  | 0, K, rows, _, _, _, _ => ⟨rows, rfl⟩
  | l + 1, K, rows, hasc, hr, hl, hlen => by
    have hp := two_pow_succ' l
    have hp' := two_pow_succ' (l + 1)
    have hpd : 2 ^ (l + 1 + 1) ≤ 2 ^ d := Nat.pow_le_pow_right (by omega) (by omega)
    have hpos := Nat.two_pow_pos l
    obtain ⟨rows1, h1, h2⟩ := proveLevel_total tn K rows hlen (by
      intro k hk
      have := hr k hk
      rw [htn]; unfold xor1; split <;> omega)
    obtain ⟨p1, p2, p3, p4, _⟩ := parents_spec K hasc
    obtain ⟨rowsF, h3⟩ := proveLevels_total tn d htn l (parents K) rows1 p1 (by
      intro k1 hk1
      obtain ⟨k, hk, rfl⟩ := p2 k1 hk1
      have := hr k hk
      omega) (by omega) (by have := h2.length_eq; omega)
    exact ⟨rowsF, by simp only [proveLevels, h1, Res.ok_bind, h3]⟩

/-- upper levels: the verifier, reading the final rows from the lengths the rows had when the
    prover reached the same level, reproduces the tree's nodes, consumes every row to its end and
    arrives at the root -/
theorem levels_sim (H : Hasher D) (val : Nat → D) (tn : List D) (d : Nat) (wf : ValWF H val d)
    (htn : ∀ j, 1 ≤ j → j < 2 ^ d → tn[j]? = some (val j)) : ∀ (l : Nat) (K : List Nat)
    (rows rowsF : List (List D)) (v : SMap D),
    proveLevels tn l K rows = .ok rowsF → Asc K → (∀ k ∈ K, 2 ^ l ≤ k ∧ k < 2 ^ (l + 1)) → l < d → K ≠ [] →
    (∀ k ∈ K, SMap.get v k = some (val k)) →
    ∃ v', rootLevels H rowsF l K (rows.map List.length) v = .ok (v', rowsF.map List.length) ∧
      SMap.get v' 1 = some (val 1)
  | 0, K, rows, rowsF, v, h, _, hr, _, hne, hv => by
    simp only [proveLevels] at h
    injection h with h; subst h
    refine ⟨v, rfl, ?_⟩
    cases K with
    | nil => exact absurd rfl hne
    | cons k t =>
      have := hr k (List.mem_cons_self ..)
      have hk : k = 1 := by simp at this; omega
      subst hk
      exact hv 1 (List.mem_cons_self ..)
  | l + 1, K, rows, rowsF, v, h, hasc, hr, hl, hne, hv => by
    simp only [proveLevels] at h
    cases hp : proveLevel tn K rows with
    | err e => rw [hp] at h; cases h
    | panic e => rw [hp] at h; cases h
    | ok r =>
      obtain ⟨rows1, K1⟩ := r
      rw [hp] at h
      simp only [Res.ok_bind] at h
      have hext := proveLevels_ok tn l K1 rows1 rowsF h
      have hp2 := two_pow_succ' l
      have hp2' := two_pow_succ' (l + 1)
      have hpd : 2 ^ (l + 1 + 1) ≤ 2 ^ d := Nat.pow_le_pow_right (by omega) (by omega)
      have hpd' := two_pow_succ' d
      have hpos := Nat.two_pow_pos l
      obtain ⟨v1, s1, s2, _⟩ := level_sim H val tn K rows rows1 rowsF K1 v hasc hp hext hv (by
        intro k hk
        have := hr k hk
        refine ⟨htn _ (by unfold xor1; split <;> omega) (by unfold xor1; split <;> omega), ?_⟩
        exact par_val H val d wf k (by omega) (by omega))
      obtain ⟨_, hK1⟩ := proveLevel_ok tn K rows rows1 K1 hp
      obtain ⟨p1, p2, _, _, p5⟩ := parents_spec K hasc
      subst hK1
      obtain ⟨v', t1, t2⟩ := levels_sim H val tn d wf htn l (parents K) rows1 rowsF v1 h p1 (by
        intro k1 hk1
        obtain ⟨k, hk, rfl⟩ := p2 k1 hk1
        have := hr k hk
        omega) (by omega) (p5 hne) s2
      exact ⟨v', by simp only [rootLevels, s1, Res.ok_bind, t1], t2⟩

end WinterProofs.C10
