-- helper lemmas for C12: round trips of the generic codecs (integers, options, tuples, arrays, vectors, strings,
-- ordered maps and sets, field elements, digests) and the composition lemmas that assemble larger types
import WinterProofs.Lemmas.C12Vint

namespace WinterProofs.C12L
open Model Model.Serde

theorem rt_dec {c : Codec α} (h : c.RT) {x : α} (hx : c.wf x = true) (rest : Bytes) :
    c.dec (c.enc x ++ rest) = .ok (x, rest) := (h x rest hx).2

theorem rt_wpanic {c : Codec α} (h : c.RT) {x : α} (hx : c.wf x = true) : c.wpanic x = false :=
  (h x [] hx).1

theorem any_wpanic {c : Codec α} (h : c.RT) {xs : List α} (hx : xs.all c.wf = true) :
    xs.any c.wpanic = false := by
  induction xs with
  | nil => rfl
  | cons x xs ih =>
    simp only [List.all_cons, Bool.and_eq_true] at hx
    simp [List.any_cons, rt_wpanic h hx.1, ih hx.2]

theorem readMany_rt {c : Codec α} (h : c.RT) {xs : List α} (hx : xs.all c.wf = true) (r : Bytes) :
    readMany c.dec xs.length (encMany c xs ++ r) = .ok (xs, r) := by
  apply readMany_encMany
  intro x hmem rest
  exact rt_dec h (List.all_eq_true.mp hx x hmem) rest

theorem uint_RT (n : Nat) : (uint n).RT := by
  intro v rest hv
  simp only [uint, decide_eq_true_eq] at hv
  exact ⟨rfl, readUInt_leBytes hv rest⟩

theorem usize_RT : usize.RT := by
  intro v rest hv
  simp only [usize, decide_eq_true_eq] at hv
  exact ⟨rfl, readUsize_writeUsize v rest hv⟩

theorem bool_RT : Serde.bool.RT := by
  intro b rest _
  cases b <;> simp [Serde.bool, readBool, readU8]

theorem unit_RT : Serde.unit.RT := by
  intro u rest _
  simp [Serde.unit]

theorem option_RT {c : Codec α} (h : c.RT) : (option c).RT := by
  intro x rest hx
  cases x with
  | none => simp [option, readBool, readU8]
  | some x =>
    simp only [option] at hx
    simp [option, readBool, readU8, rt_dec h hx, rt_wpanic h hx]

/-- composition: a pair (and so any tuple / struct of sequenced fields) round-trips when its parts do -/
theorem pair_RT {a : Codec α} {b : Codec β} (ha : a.RT) (hb : b.RT) : (pair a b).RT := by
  intro p rest hp
  simp only [pair, Bool.and_eq_true] at hp
  simp [pair, List.append_assoc, rt_dec ha hp.1, rt_dec hb hp.2, rt_wpanic ha hp.1, rt_wpanic hb hp.2]

theorem array_RT (n : Nat) {c : Codec α} (h : c.RT) : (array n c).RT := by
  intro xs rest hx
  simp only [array, Bool.and_eq_true, beq_iff_eq] at hx
  refine ⟨any_wpanic h hx.2, ?_⟩
  have := readMany_rt h hx.2 rest
  rw [hx.1] at this
  exact this

theorem vec_RT {c : Codec α} (h : c.RT) : (vec c).RT := by
  intro xs rest hx
  simp only [vec, Bool.and_eq_true, decide_eq_true_eq] at hx
  refine ⟨any_wpanic h hx.2, ?_⟩
  simp [vec, List.append_assoc, readUsize_writeUsize _ _ hx.1, readMany_rt h hx.2 rest]

theorem readMany_readU8 (bs r : Bytes) : readMany readU8 bs.length (bs ++ r) = .ok (bs, r) := by
  induction bs with
  | nil => simp [readMany]
  | cons b bs ih => simp [readMany, readU8, ih]

theorem str_RT : str.RT := by
  intro bs rest hx
  simp only [str, Bool.and_eq_true, decide_eq_true_eq] at hx
  simp [str, List.append_assoc, readUsize_writeUsize _ _ hx.1, readMany_readU8, hx.2]

-- ordered maps and sets ------------------------------------------------------------------------

/-- the law of `Ord` that the round trip of `BTreeMap` / `BTreeSet` needs -/
def Antisym (cmp : κ → κ → Ordering) : Prop := ∀ a b, cmp a b = .lt → cmp b a = .gt

theorem mapInsert_end {cmp : κ → κ → Ordering} (hc : Antisym cmp) (k : κ) (v : ν) (m : List (κ × ν))
    (h : ∀ kv ∈ m, cmp kv.1 k = .lt) : mapInsert cmp k v m = m ++ [(k, v)] := by
  induction m with
  | nil => rfl
  | cons kv t ih =>
    obtain ⟨k', v'⟩ := kv
    have h1 := hc _ _ (h (k', v') (List.mem_cons_self ..))
    simp only at h1
    simp [mapInsert, h1, ih (fun x hx => h x (List.mem_cons_of_mem _ hx))]

theorem sortedKeys_append {cmp : κ → κ → Ordering} (acc : List (κ × ν)) (kv : κ × ν) (t : List (κ × ν))
    (h : sortedKeys cmp (acc ++ kv :: t) = true) : ∀ a ∈ acc, cmp a.1 kv.1 = .lt := by
  induction acc with
  | nil => intro a ha; cases ha
  | cons x acc ih =>
    obtain ⟨xk, xv⟩ := x
    simp only [List.cons_append, sortedKeys, Bool.and_eq_true, List.all_eq_true] at h
    intro a ha
    rcases List.mem_cons.mp ha with rfl | ha
    · have := h.1 kv (by simp)
      simpa using this
    · exact ih h.2 a ha

theorem mapFromList_sorted {cmp : κ → κ → Ordering} (hc : Antisym cmp) (l acc : List (κ × ν))
    (h : sortedKeys cmp (acc ++ l) = true) :
    l.foldl (fun m kv => mapInsert cmp kv.1 kv.2 m) acc = acc ++ l := by
  induction l generalizing acc with
  | nil => simp
  | cons kv t ih =>
    have hi := mapInsert_end hc kv.1 kv.2 acc (sortedKeys_append acc kv t h)
    simp only [List.foldl_cons, hi]
    have : acc ++ [(kv.1, kv.2)] ++ t = acc ++ kv :: t := by simp
    rw [ih (acc ++ [(kv.1, kv.2)]) (by rw [this]; exact h), this]

theorem btreeMap_RT {cmp : κ → κ → Ordering} (hc : Antisym cmp) {k : Codec κ} {v : Codec ν}
    (hk : k.RT) (hv : v.RT) : (btreeMap cmp k v).RT := by
  intro m rest hx
  simp only [btreeMap, Bool.and_eq_true, decide_eq_true_eq] at hx
  have hp := pair_RT hk hv
  refine ⟨any_wpanic hp hx.1.2, ?_⟩
  have hs : mapFromList cmp m = m := by
    have := mapFromList_sorted hc m [] (by simpa using hx.2)
    simpa [mapFromList] using this
  simp [btreeMap, List.append_assoc, readUsize_writeUsize _ _ hx.1.1, readMany_rt hp hx.1.2 rest, hs]

theorem setInsert_end {cmp : κ → κ → Ordering} (hc : Antisym cmp) (k : κ) (s : List κ)
    (h : ∀ x ∈ s, cmp x k = .lt) : setInsert cmp k s = s ++ [k] := by
  induction s with
  | nil => rfl
  | cons x t ih =>
    have h1 := hc _ _ (h x (List.mem_cons_self ..))
    simp [setInsert, h1, ih (fun y hy => h y (List.mem_cons_of_mem _ hy))]

theorem sortedList_append {cmp : κ → κ → Ordering} (acc : List κ) (k : κ) (t : List κ)
    (h : sortedList cmp (acc ++ k :: t) = true) : ∀ a ∈ acc, cmp a k = .lt := by
  induction acc with
  | nil => intro a ha; cases ha
  | cons x acc ih =>
    simp only [List.cons_append, sortedList, Bool.and_eq_true, List.all_eq_true] at h
    intro a ha
    rcases List.mem_cons.mp ha with rfl | ha
    · have := h.1 k (by simp)
      simpa using this
    · exact ih h.2 a ha

theorem setFromList_sorted {cmp : κ → κ → Ordering} (hc : Antisym cmp) (l acc : List κ)
    (h : sortedList cmp (acc ++ l) = true) :
    l.foldl (fun s k => setInsert cmp k s) acc = acc ++ l := by
  induction l generalizing acc with
  | nil => simp
  | cons k t ih =>
    have hi := setInsert_end hc k acc (sortedList_append acc k t h)
    simp only [List.foldl_cons, hi]
    have : acc ++ [k] ++ t = acc ++ k :: t := by simp
    rw [ih (acc ++ [k]) (by rw [this]; exact h), this]

theorem btreeSet_RT {cmp : κ → κ → Ordering} (hc : Antisym cmp) {k : Codec κ} (hk : k.RT) :
    (btreeSet cmp k).RT := by
  intro s rest hx
  simp only [btreeSet, Bool.and_eq_true, decide_eq_true_eq] at hx
  refine ⟨any_wpanic hk hx.1.2, ?_⟩
  have hs : setFromList cmp s = s := by
    have := setFromList_sorted hc s [] (by simpa using hx.2)
    simpa [setFromList] using this
  simp [btreeSet, List.append_assoc, readUsize_writeUsize _ _ hx.1.1, readMany_rt hk hx.1.2 rest, hs]

-- the orders of the key types are antisymmetric ------------------------------------------------

theorem antisym_nat : Antisym natCmp := by
  intro a b h
  simp only [natCmp] at h ⊢
  rw [Nat.compare_eq_lt] at h
  rw [Nat.compare_eq_gt]; exact h

theorem antisym_bool : Antisym cmpBool := by
  intro a b; cases a <;> cases b <;> simp [cmpBool]

/-- a comparison that also says when two keys are equal in both directions -/
def Sym (cmp : κ → κ → Ordering) : Prop := ∀ a b, cmp a b = .eq → cmp b a = .eq

theorem sym_nat : Sym natCmp := by
  intro a b h
  simp only [natCmp] at h ⊢
  rw [Nat.compare_eq_eq] at h
  subst h; exact Nat.compare_eq_eq.mpr rfl

theorem sym_bool : Sym cmpBool := by
  intro a b; cases a <;> cases b <;> simp [cmpBool]

theorem antisym_list {cmp : α → α → Ordering} (ha : Antisym cmp) (hs : Sym cmp) : Antisym (cmpList cmp) := by
  intro a
  induction a with
  | nil => intro b h; cases b <;> simp_all [cmpList]
  | cons x xs ih =>
    intro b h
    cases b with
    | nil => simp [cmpList] at h
    | cons y ys =>
      simp only [cmpList] at h ⊢
      cases hxy : cmp x y with
      | lt => simp [ha _ _ hxy]
      | eq => simp only [hxy] at h; simp [hs _ _ hxy, ih ys h]
      | gt => simp [hxy] at h

theorem sym_list {cmp : α → α → Ordering} (hs : Sym cmp) : Sym (cmpList cmp) := by
  intro a
  induction a with
  | nil => intro b h; cases b <;> simp_all [cmpList]
  | cons x xs ih =>
    intro b h
    cases b with
    | nil => simp [cmpList] at h
    | cons y ys =>
      simp only [cmpList] at h ⊢
      cases hxy : cmp x y with
      | lt => simp [hxy] at h
      | eq => simp only [hxy] at h; simp [hs _ _ hxy, ih ys h]
      | gt => simp [hxy] at h

theorem antisym_pair {ca : α → α → Ordering} {cb : β → β → Ordering}
    (ha : Antisym ca) (hsa : Sym ca) (hb : Antisym cb) : Antisym (cmpPair ca cb) := by
  intro x y h
  simp only [cmpPair] at h ⊢
  cases hxy : ca x.1 y.1 with
  | lt => simp [ha _ _ hxy]
  | eq => simp only [hxy] at h; simp [hsa _ _ hxy, hb _ _ h]
  | gt => simp [hxy] at h

theorem antisym_option {c : α → α → Ordering} (h : Antisym c) : Antisym (cmpOption c) := by
  intro a b; cases a <;> cases b <;> simp [cmpOption]; exact h _ _

-- field elements and digests -------------------------------------------------------------------

theorem elem_RT (F : FieldImpl) (hF : F.M ≤ 256 ^ F.bytes) : (elem F).RT := by
  intro v rest hv
  simp only [elem, decide_eq_true_eq] at hv
  have := readUInt_leBytes (n := F.bytes) (v := v) (by omega) rest
  simp [elem, this, Nat.not_le.mpr hv]

theorem f64_fits : F64.impl.M ≤ 256 ^ F64.impl.bytes := by decide
theorem f62_fits : F62.impl.M ≤ 256 ^ F62.impl.bytes := by decide
theorem f128_fits : F128.impl.M ≤ 256 ^ F128.impl.bytes := by decide

theorem byteDigest_RT (n : Nat) : (byteDigest n).RT := by
  intro bs rest hx
  simp only [byteDigest, beq_iff_eq] at hx
  exact ⟨rfl, readSlice_append_len hx rest⟩

theorem map_mod_id (m : Nat) (l : List Nat) (h : l.all (· < m) = true) : l.map (· % m) = l := by
  induction l with
  | nil => rfl
  | cons x xs ih =>
    simp only [List.all_cons, Bool.and_eq_true, decide_eq_true_eq] at h
    simp [Nat.mod_eq_of_lt h.1, ih h.2]

theorem elemDigest64_RT : elemDigest64.RT := by
  intro d rest hx
  simp only [elemDigest64, Bool.and_eq_true, beq_iff_eq] at hx
  refine ⟨rfl, ?_⟩
  have hall : d.all (uint 8).wf = true := by
    apply List.all_eq_true.mpr
    intro x hxm
    have := List.all_eq_true.mp hx.2 x hxm
    simp only [decide_eq_true_eq] at this
    have hM : F64.impl.M ≤ 256 ^ 8 := by decide
    simp only [uint, decide_eq_true_eq]; omega
  have := readMany_rt (uint_RT 8) hall rest
  rw [hx.1] at this
  simp only [elemDigest64, bind_apply]
  rw [show (uint 8).dec = readUInt 8 from rfl] at this
  simp [this, map_mod_id _ _ hx.2]

end WinterProofs.C12L
