-- little-endian byte encoding lemmas used by the conversion theorems of C07
import Winter.Model.Field

namespace WinterProofs.Bytes
open Model

theorem leBytes_length (n v : Nat) : (leBytes n v).length = n := by
  induction n generalizing v with
  | zero => rfl
  | succ n ih => simp [leBytes, ih]

theorem ofLeBytes_leBytes (n v : Nat) : ofLeBytes (leBytes n v) = v % 256 ^ n := by
  induction n generalizing v with
  | zero => simp [leBytes, ofLeBytes, Nat.mod_one]
  | succ n ih =>
    simp only [leBytes, ofLeBytes, ih]
    rw [Nat.pow_succ, Nat.mul_comm (256 ^ n) 256, Nat.mod_mul]

theorem ofLeBytes_leBytes_of_lt (n v : Nat) (h : v < 256 ^ n) : ofLeBytes (leBytes n v) = v := by
  rw [ofLeBytes_leBytes, Nat.mod_eq_of_lt h]

theorem leBytes_inj (n a b : Nat) (ha : a < 256 ^ n) (hb : b < 256 ^ n)
    (h : leBytes n a = leBytes n b) : a = b := by
  have := congrArg ofLeBytes h
  rwa [ofLeBytes_leBytes_of_lt n a ha, ofLeBytes_leBytes_of_lt n b hb] at this

theorem leBytes_bytes (n v : Nat) : ∀ b ∈ leBytes n v, b < 256 := by
  induction n generalizing v with
  | zero => simp [leBytes]
  | succ n ih =>
    intro b hb
    simp only [leBytes, List.mem_cons] at hb
    rcases hb with rfl | hb
    · omega
    · exact ih _ b hb

end WinterProofs.Bytes
