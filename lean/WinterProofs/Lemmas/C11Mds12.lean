-- C11 helper lemmas: the frequency-domain MDS product of crypto/src/hash/mds (Mds12) is the
-- circulant matrix-vector product, exactly and without overflow.  Written by gen_c11_mds.py from the
-- generated modules (step-definition names and the coefficient tuple); checked against them by Lean.
import Winter.Gen.Mds12
import Winter.Gen.Rp64
import WinterProofs.Lemmas.C11MdsCommon
set_option linter.unusedSimpArgs false
set_option linter.unusedVariables false
set_option maxRecDepth 100000

namespace WinterProofs.C11.Mds12
open Gen WinterProofs.C11

/-- every `i64` intermediate of `mds_multiply_freq` is in range when the limbs are below `2^32` -/
theorem freq_ok (s0 s1 s2 s3 s4 s5 s6 s7 s8 s9 s10 s11 : Nat) (h0 : s0 < 4294967296) (h1 : s1 < 4294967296) (h2 : s2 < 4294967296) (h3 : s3 < 4294967296) (h4 : s4 < 4294967296) (h5 : s5 < 4294967296) (h6 : s6 < 4294967296) (h7 : s7 < 4294967296) (h8 : s8 < 4294967296) (h9 : s9 < 4294967296) (h10 : s10 < 4294967296) (h11 : s11 < 4294967296) :
    Gen.Mds12.mds_multiply_freq_ok s0 s1 s2 s3 s4 s5 s6 s7 s8 s9 s10 s11 = true := by
  have e0 := toSigned_small s0 (by omega)
  have e1 := toSigned_small s1 (by omega)
  have e2 := toSigned_small s2 (by omega)
  have e3 := toSigned_small s3 (by omega)
  have e4 := toSigned_small s4 (by omega)
  have e5 := toSigned_small s5 (by omega)
  have e6 := toSigned_small s6 (by omega)
  have e7 := toSigned_small s7 (by omega)
  have e8 := toSigned_small s8 (by omega)
  have e9 := toSigned_small s9 (by omega)
  have e10 := toSigned_small s10 (by omega)
  have e11 := toSigned_small s11 (by omega)
  simp only [Gen.RealFft.fft2_real, Gen.RealFft.fft2_real_ok, Gen.RealFft.ifft2_real_unreduced,
      Gen.RealFft.ifft2_real_unreduced_ok, Gen.RealFft.fft4_real.s_r, Gen.RealFft.fft4_real.s_z0,
      Gen.RealFft.fft4_real.s_z2, Gen.RealFft.fft4_real.s_r_1, Gen.RealFft.fft4_real.s_z1,
      Gen.RealFft.fft4_real.s_z3, Gen.RealFft.fft4_real.s_y0, Gen.RealFft.fft4_real.s_y1_0,
      Gen.RealFft.fft4_real.s_y1_1, Gen.RealFft.fft4_real.s_y2, Gen.RealFft.fft4_real,
      Gen.RealFft.fft4_real_ok, Gen.RealFft.ifft4_real_unreduced.s_z0,
      Gen.RealFft.ifft4_real_unreduced.s_z1, Gen.RealFft.ifft4_real_unreduced.s_z2,
      Gen.RealFft.ifft4_real_unreduced.s_z3, Gen.RealFft.ifft4_real_unreduced.s_r,
      Gen.RealFft.ifft4_real_unreduced.s_x0, Gen.RealFft.ifft4_real_unreduced.s_x2,
      Gen.RealFft.ifft4_real_unreduced.s_r_1, Gen.RealFft.ifft4_real_unreduced.s_x1,
      Gen.RealFft.ifft4_real_unreduced.s_x3, Gen.RealFft.ifft4_real_unreduced,
      Gen.RealFft.ifft4_real_unreduced_ok, Gen.Mds12.block1.s_x0, Gen.Mds12.block1.s_x1,
      Gen.Mds12.block1.s_x2, Gen.Mds12.block1.s_y0, Gen.Mds12.block1.s_y1, Gen.Mds12.block1.s_y2,
      Gen.Mds12.block1.s_z0, Gen.Mds12.block1.s_z1, Gen.Mds12.block1.s_z2, Gen.Mds12.block1,
      Gen.Mds12.block1_ok, Gen.Mds12.block2.s_x0r, Gen.Mds12.block2.s_x0i, Gen.Mds12.block2.s_x1r,
      Gen.Mds12.block2.s_x1i, Gen.Mds12.block2.s_x2r, Gen.Mds12.block2.s_x2i, Gen.Mds12.block2.s_y0r,
      Gen.Mds12.block2.s_y0i, Gen.Mds12.block2.s_y1r, Gen.Mds12.block2.s_y1i, Gen.Mds12.block2.s_y2r,
      Gen.Mds12.block2.s_y2i, Gen.Mds12.block2.s_x0s, Gen.Mds12.block2.s_x1s, Gen.Mds12.block2.s_x2s,
      Gen.Mds12.block2.s_y0s, Gen.Mds12.block2.s_y1s, Gen.Mds12.block2.s_y2s, Gen.Mds12.block2.s_m0_0,
      Gen.Mds12.block2.s_m0_1, Gen.Mds12.block2.s_m1_0, Gen.Mds12.block2.s_m1_1, Gen.Mds12.block2.s_m2_0,
      Gen.Mds12.block2.s_m2_1, Gen.Mds12.block2.s_z0r, Gen.Mds12.block2.s_z0i, Gen.Mds12.block2.s_z0_0,
      Gen.Mds12.block2.s_z0_1, Gen.Mds12.block2.s_m0_0_1, Gen.Mds12.block2.s_m0_1_1,
      Gen.Mds12.block2.s_m1_0_1, Gen.Mds12.block2.s_m1_1_1, Gen.Mds12.block2.s_m2_0_1,
      Gen.Mds12.block2.s_m2_1_1, Gen.Mds12.block2.s_z1r, Gen.Mds12.block2.s_z1i, Gen.Mds12.block2.s_z1_0,
      Gen.Mds12.block2.s_z1_1, Gen.Mds12.block2.s_m0_0_2, Gen.Mds12.block2.s_m0_1_2,
      Gen.Mds12.block2.s_m1_0_2, Gen.Mds12.block2.s_m1_1_2, Gen.Mds12.block2.s_m2_0_2,
      Gen.Mds12.block2.s_m2_1_2, Gen.Mds12.block2.s_z2r, Gen.Mds12.block2.s_z2i, Gen.Mds12.block2.s_z2_0,
      Gen.Mds12.block2.s_z2_1, Gen.Mds12.block2, Gen.Mds12.block2_ok, Gen.Mds12.block3.s_x0,
      Gen.Mds12.block3.s_x1, Gen.Mds12.block3.s_x2, Gen.Mds12.block3.s_y0, Gen.Mds12.block3.s_y1,
      Gen.Mds12.block3.s_y2, Gen.Mds12.block3.s_z0, Gen.Mds12.block3.s_z1, Gen.Mds12.block3.s_z2,
      Gen.Mds12.block3, Gen.Mds12.block3_ok, Gen.Mds12.mds_multiply_freq.s_s0,
      Gen.Mds12.mds_multiply_freq.s_s1, Gen.Mds12.mds_multiply_freq.s_s2, Gen.Mds12.mds_multiply_freq.s_s3,
      Gen.Mds12.mds_multiply_freq.s_s4, Gen.Mds12.mds_multiply_freq.s_s5, Gen.Mds12.mds_multiply_freq.s_s6,
      Gen.Mds12.mds_multiply_freq.s_s7, Gen.Mds12.mds_multiply_freq.s_s8, Gen.Mds12.mds_multiply_freq.s_s9,
      Gen.Mds12.mds_multiply_freq.s_s10, Gen.Mds12.mds_multiply_freq.s_s11,
      Gen.Mds12.mds_multiply_freq.s_r, Gen.Mds12.mds_multiply_freq.s_u0,
      Gen.Mds12.mds_multiply_freq.s_u1_0, Gen.Mds12.mds_multiply_freq.s_u1_1,
      Gen.Mds12.mds_multiply_freq.s_u2, Gen.Mds12.mds_multiply_freq.s_r_1,
      Gen.Mds12.mds_multiply_freq.s_u4, Gen.Mds12.mds_multiply_freq.s_u5_0,
      Gen.Mds12.mds_multiply_freq.s_u5_1, Gen.Mds12.mds_multiply_freq.s_u6,
      Gen.Mds12.mds_multiply_freq.s_r_2, Gen.Mds12.mds_multiply_freq.s_u8,
      Gen.Mds12.mds_multiply_freq.s_u9_0, Gen.Mds12.mds_multiply_freq.s_u9_1,
      Gen.Mds12.mds_multiply_freq.s_u10, Gen.Mds12.mds_multiply_freq.s_r_3,
      Gen.Mds12.mds_multiply_freq.s_v0, Gen.Mds12.mds_multiply_freq.s_v4, Gen.Mds12.mds_multiply_freq.s_v8,
      Gen.Mds12.mds_multiply_freq.s_r_4, Gen.Mds12.mds_multiply_freq.s_v1_0,
      Gen.Mds12.mds_multiply_freq.s_v1_1, Gen.Mds12.mds_multiply_freq.s_v5_0,
      Gen.Mds12.mds_multiply_freq.s_v5_1, Gen.Mds12.mds_multiply_freq.s_v9_0,
      Gen.Mds12.mds_multiply_freq.s_v9_1, Gen.Mds12.mds_multiply_freq.s_r_5,
      Gen.Mds12.mds_multiply_freq.s_v2, Gen.Mds12.mds_multiply_freq.s_v6,
      Gen.Mds12.mds_multiply_freq.s_v10, Gen.Mds12.mds_multiply_freq.s_r_6,
      Gen.Mds12.mds_multiply_freq.s_s0_1, Gen.Mds12.mds_multiply_freq.s_s3_1,
      Gen.Mds12.mds_multiply_freq.s_s6_1, Gen.Mds12.mds_multiply_freq.s_s9_1,
      Gen.Mds12.mds_multiply_freq.s_r_7, Gen.Mds12.mds_multiply_freq.s_s1_1,
      Gen.Mds12.mds_multiply_freq.s_s4_1, Gen.Mds12.mds_multiply_freq.s_s7_1,
      Gen.Mds12.mds_multiply_freq.s_s10_1, Gen.Mds12.mds_multiply_freq.s_r_8,
      Gen.Mds12.mds_multiply_freq.s_s2_1, Gen.Mds12.mds_multiply_freq.s_s5_1,
      Gen.Mds12.mds_multiply_freq.s_s8_1, Gen.Mds12.mds_multiply_freq.s_s11_1, Gen.Mds12.mds_multiply_freq,
      Gen.Mds12.mds_multiply_freq_ok,
      e0, e1, e2, e3, e4, e5, e6, e7, e8, e9, e10, e11, Bool.and_eq_true, decide_eq_true_eq]
  repeat' (first | apply And.intro | apply decide_eq_true | rw [Bool.and_eq_true])
  all_goals omega

/-- `mds_multiply_freq` is the matrix-vector product with these integer rows, exactly -/
theorem freq_eq_tuple (s0 s1 s2 s3 s4 s5 s6 s7 s8 s9 s10 s11 : Nat) (h0 : s0 < 4294967296) (h1 : s1 < 4294967296) (h2 : s2 < 4294967296) (h3 : s3 < 4294967296) (h4 : s4 < 4294967296) (h5 : s5 < 4294967296) (h6 : s6 < 4294967296) (h7 : s7 < 4294967296) (h8 : s8 < 4294967296) (h9 : s9 < 4294967296) (h10 : s10 < 4294967296) (h11 : s11 < 4294967296) :
    Gen.Mds12.mds_multiply_freq s0 s1 s2 s3 s4 s5 s6 s7 s8 s9 s10 s11 =
      (7 * s0 + 23 * s1 + 8 * s2 + 26 * s3 + 13 * s4 + 10 * s5 + 9 * s6 + 7 * s7 + 6 * s8 + 22 * s9 + 21 * s10 + 8 * s11,
       8 * s0 + 7 * s1 + 23 * s2 + 8 * s3 + 26 * s4 + 13 * s5 + 10 * s6 + 9 * s7 + 7 * s8 + 6 * s9 + 22 * s10 + 21 * s11,
       21 * s0 + 8 * s1 + 7 * s2 + 23 * s3 + 8 * s4 + 26 * s5 + 13 * s6 + 10 * s7 + 9 * s8 + 7 * s9 + 6 * s10 + 22 * s11,
       22 * s0 + 21 * s1 + 8 * s2 + 7 * s3 + 23 * s4 + 8 * s5 + 26 * s6 + 13 * s7 + 10 * s8 + 9 * s9 + 7 * s10 + 6 * s11,
       6 * s0 + 22 * s1 + 21 * s2 + 8 * s3 + 7 * s4 + 23 * s5 + 8 * s6 + 26 * s7 + 13 * s8 + 10 * s9 + 9 * s10 + 7 * s11,
       7 * s0 + 6 * s1 + 22 * s2 + 21 * s3 + 8 * s4 + 7 * s5 + 23 * s6 + 8 * s7 + 26 * s8 + 13 * s9 + 10 * s10 + 9 * s11,
       9 * s0 + 7 * s1 + 6 * s2 + 22 * s3 + 21 * s4 + 8 * s5 + 7 * s6 + 23 * s7 + 8 * s8 + 26 * s9 + 13 * s10 + 10 * s11,
       10 * s0 + 9 * s1 + 7 * s2 + 6 * s3 + 22 * s4 + 21 * s5 + 8 * s6 + 7 * s7 + 23 * s8 + 8 * s9 + 26 * s10 + 13 * s11,
       13 * s0 + 10 * s1 + 9 * s2 + 7 * s3 + 6 * s4 + 22 * s5 + 21 * s6 + 8 * s7 + 7 * s8 + 23 * s9 + 8 * s10 + 26 * s11,
       26 * s0 + 13 * s1 + 10 * s2 + 9 * s3 + 7 * s4 + 6 * s5 + 22 * s6 + 21 * s7 + 8 * s8 + 7 * s9 + 23 * s10 + 8 * s11,
       8 * s0 + 26 * s1 + 13 * s2 + 10 * s3 + 9 * s4 + 7 * s5 + 6 * s6 + 22 * s7 + 21 * s8 + 8 * s9 + 7 * s10 + 23 * s11,
       23 * s0 + 8 * s1 + 26 * s2 + 13 * s3 + 10 * s4 + 9 * s5 + 7 * s6 + 6 * s7 + 22 * s8 + 21 * s9 + 8 * s10 + 7 * s11) := by
  have e0 := toSigned_small s0 (by omega)
  have e1 := toSigned_small s1 (by omega)
  have e2 := toSigned_small s2 (by omega)
  have e3 := toSigned_small s3 (by omega)
  have e4 := toSigned_small s4 (by omega)
  have e5 := toSigned_small s5 (by omega)
  have e6 := toSigned_small s6 (by omega)
  have e7 := toSigned_small s7 (by omega)
  have e8 := toSigned_small s8 (by omega)
  have e9 := toSigned_small s9 (by omega)
  have e10 := toSigned_small s10 (by omega)
  have e11 := toSigned_small s11 (by omega)
  simp only [Gen.RealFft.fft2_real, Gen.RealFft.fft2_real_ok, Gen.RealFft.ifft2_real_unreduced,
      Gen.RealFft.ifft2_real_unreduced_ok, Gen.RealFft.fft4_real.s_r, Gen.RealFft.fft4_real.s_z0,
      Gen.RealFft.fft4_real.s_z2, Gen.RealFft.fft4_real.s_r_1, Gen.RealFft.fft4_real.s_z1,
      Gen.RealFft.fft4_real.s_z3, Gen.RealFft.fft4_real.s_y0, Gen.RealFft.fft4_real.s_y1_0,
      Gen.RealFft.fft4_real.s_y1_1, Gen.RealFft.fft4_real.s_y2, Gen.RealFft.fft4_real,
      Gen.RealFft.fft4_real_ok, Gen.RealFft.ifft4_real_unreduced.s_z0,
      Gen.RealFft.ifft4_real_unreduced.s_z1, Gen.RealFft.ifft4_real_unreduced.s_z2,
      Gen.RealFft.ifft4_real_unreduced.s_z3, Gen.RealFft.ifft4_real_unreduced.s_r,
      Gen.RealFft.ifft4_real_unreduced.s_x0, Gen.RealFft.ifft4_real_unreduced.s_x2,
      Gen.RealFft.ifft4_real_unreduced.s_r_1, Gen.RealFft.ifft4_real_unreduced.s_x1,
      Gen.RealFft.ifft4_real_unreduced.s_x3, Gen.RealFft.ifft4_real_unreduced,
      Gen.RealFft.ifft4_real_unreduced_ok, Gen.Mds12.block1.s_x0, Gen.Mds12.block1.s_x1,
      Gen.Mds12.block1.s_x2, Gen.Mds12.block1.s_y0, Gen.Mds12.block1.s_y1, Gen.Mds12.block1.s_y2,
      Gen.Mds12.block1.s_z0, Gen.Mds12.block1.s_z1, Gen.Mds12.block1.s_z2, Gen.Mds12.block1,
      Gen.Mds12.block1_ok, Gen.Mds12.block2.s_x0r, Gen.Mds12.block2.s_x0i, Gen.Mds12.block2.s_x1r,
      Gen.Mds12.block2.s_x1i, Gen.Mds12.block2.s_x2r, Gen.Mds12.block2.s_x2i, Gen.Mds12.block2.s_y0r,
      Gen.Mds12.block2.s_y0i, Gen.Mds12.block2.s_y1r, Gen.Mds12.block2.s_y1i, Gen.Mds12.block2.s_y2r,
      Gen.Mds12.block2.s_y2i, Gen.Mds12.block2.s_x0s, Gen.Mds12.block2.s_x1s, Gen.Mds12.block2.s_x2s,
      Gen.Mds12.block2.s_y0s, Gen.Mds12.block2.s_y1s, Gen.Mds12.block2.s_y2s, Gen.Mds12.block2.s_m0_0,
      Gen.Mds12.block2.s_m0_1, Gen.Mds12.block2.s_m1_0, Gen.Mds12.block2.s_m1_1, Gen.Mds12.block2.s_m2_0,
      Gen.Mds12.block2.s_m2_1, Gen.Mds12.block2.s_z0r, Gen.Mds12.block2.s_z0i, Gen.Mds12.block2.s_z0_0,
      Gen.Mds12.block2.s_z0_1, Gen.Mds12.block2.s_m0_0_1, Gen.Mds12.block2.s_m0_1_1,
      Gen.Mds12.block2.s_m1_0_1, Gen.Mds12.block2.s_m1_1_1, Gen.Mds12.block2.s_m2_0_1,
      Gen.Mds12.block2.s_m2_1_1, Gen.Mds12.block2.s_z1r, Gen.Mds12.block2.s_z1i, Gen.Mds12.block2.s_z1_0,
      Gen.Mds12.block2.s_z1_1, Gen.Mds12.block2.s_m0_0_2, Gen.Mds12.block2.s_m0_1_2,
      Gen.Mds12.block2.s_m1_0_2, Gen.Mds12.block2.s_m1_1_2, Gen.Mds12.block2.s_m2_0_2,
      Gen.Mds12.block2.s_m2_1_2, Gen.Mds12.block2.s_z2r, Gen.Mds12.block2.s_z2i, Gen.Mds12.block2.s_z2_0,
      Gen.Mds12.block2.s_z2_1, Gen.Mds12.block2, Gen.Mds12.block2_ok, Gen.Mds12.block3.s_x0,
      Gen.Mds12.block3.s_x1, Gen.Mds12.block3.s_x2, Gen.Mds12.block3.s_y0, Gen.Mds12.block3.s_y1,
      Gen.Mds12.block3.s_y2, Gen.Mds12.block3.s_z0, Gen.Mds12.block3.s_z1, Gen.Mds12.block3.s_z2,
      Gen.Mds12.block3, Gen.Mds12.block3_ok, Gen.Mds12.mds_multiply_freq.s_s0,
      Gen.Mds12.mds_multiply_freq.s_s1, Gen.Mds12.mds_multiply_freq.s_s2, Gen.Mds12.mds_multiply_freq.s_s3,
      Gen.Mds12.mds_multiply_freq.s_s4, Gen.Mds12.mds_multiply_freq.s_s5, Gen.Mds12.mds_multiply_freq.s_s6,
      Gen.Mds12.mds_multiply_freq.s_s7, Gen.Mds12.mds_multiply_freq.s_s8, Gen.Mds12.mds_multiply_freq.s_s9,
      Gen.Mds12.mds_multiply_freq.s_s10, Gen.Mds12.mds_multiply_freq.s_s11,
      Gen.Mds12.mds_multiply_freq.s_r, Gen.Mds12.mds_multiply_freq.s_u0,
      Gen.Mds12.mds_multiply_freq.s_u1_0, Gen.Mds12.mds_multiply_freq.s_u1_1,
      Gen.Mds12.mds_multiply_freq.s_u2, Gen.Mds12.mds_multiply_freq.s_r_1,
      Gen.Mds12.mds_multiply_freq.s_u4, Gen.Mds12.mds_multiply_freq.s_u5_0,
      Gen.Mds12.mds_multiply_freq.s_u5_1, Gen.Mds12.mds_multiply_freq.s_u6,
      Gen.Mds12.mds_multiply_freq.s_r_2, Gen.Mds12.mds_multiply_freq.s_u8,
      Gen.Mds12.mds_multiply_freq.s_u9_0, Gen.Mds12.mds_multiply_freq.s_u9_1,
      Gen.Mds12.mds_multiply_freq.s_u10, Gen.Mds12.mds_multiply_freq.s_r_3,
      Gen.Mds12.mds_multiply_freq.s_v0, Gen.Mds12.mds_multiply_freq.s_v4, Gen.Mds12.mds_multiply_freq.s_v8,
      Gen.Mds12.mds_multiply_freq.s_r_4, Gen.Mds12.mds_multiply_freq.s_v1_0,
      Gen.Mds12.mds_multiply_freq.s_v1_1, Gen.Mds12.mds_multiply_freq.s_v5_0,
      Gen.Mds12.mds_multiply_freq.s_v5_1, Gen.Mds12.mds_multiply_freq.s_v9_0,
      Gen.Mds12.mds_multiply_freq.s_v9_1, Gen.Mds12.mds_multiply_freq.s_r_5,
      Gen.Mds12.mds_multiply_freq.s_v2, Gen.Mds12.mds_multiply_freq.s_v6,
      Gen.Mds12.mds_multiply_freq.s_v10, Gen.Mds12.mds_multiply_freq.s_r_6,
      Gen.Mds12.mds_multiply_freq.s_s0_1, Gen.Mds12.mds_multiply_freq.s_s3_1,
      Gen.Mds12.mds_multiply_freq.s_s6_1, Gen.Mds12.mds_multiply_freq.s_s9_1,
      Gen.Mds12.mds_multiply_freq.s_r_7, Gen.Mds12.mds_multiply_freq.s_s1_1,
      Gen.Mds12.mds_multiply_freq.s_s4_1, Gen.Mds12.mds_multiply_freq.s_s7_1,
      Gen.Mds12.mds_multiply_freq.s_s10_1, Gen.Mds12.mds_multiply_freq.s_r_8,
      Gen.Mds12.mds_multiply_freq.s_s2_1, Gen.Mds12.mds_multiply_freq.s_s5_1,
      Gen.Mds12.mds_multiply_freq.s_s8_1, Gen.Mds12.mds_multiply_freq.s_s11_1, Gen.Mds12.mds_multiply_freq,
      Gen.Mds12.mds_multiply_freq_ok,
      e0, e1, e2, e3, e4, e5, e6, e7, e8, e9, e10, e11, Prod.mk.injEq]
  repeat' apply And.intro
  all_goals omega

/-- the rows of `freq_eq_tuple` are the rows of the generated `MDS` table -/
theorem freq_matVec (s0 s1 s2 s3 s4 s5 s6 s7 s8 s9 s10 s11 : Nat) (h0 : s0 < 4294967296) (h1 : s1 < 4294967296) (h2 : s2 < 4294967296) (h3 : s3 < 4294967296) (h4 : s4 < 4294967296) (h5 : s5 < 4294967296) (h6 : s6 < 4294967296) (h7 : s7 < 4294967296) (h8 : s8 < 4294967296) (h9 : s9 < 4294967296) (h10 : s10 < 4294967296) (h11 : s11 < 4294967296) :
    (match Gen.Mds12.mds_multiply_freq s0 s1 s2 s3 s4 s5 s6 s7 s8 s9 s10 s11 with
     | (r0, r1, r2, r3, r4, r5, r6, r7, r8, r9, r10, r11) => [r0, r1, r2, r3, r4, r5, r6, r7, r8, r9, r10, r11])
      = matVec Gen.Rp64.MDS [s0, s1, s2, s3, s4, s5, s6, s7, s8, s9, s10, s11] := by
  rw [freq_eq_tuple s0 s1 s2 s3 s4 s5 s6 s7 s8 s9 s10 s11 h0 h1 h2 h3 h4 h5 h6 h7 h8 h9 h10 h11]
  simp only [matVec, dot, Gen.Rp64.MDS, List.map, List.zipWith, List.sum_cons, List.sum_nil,
    List.cons.injEq, and_true]
  repeat' apply And.intro
  all_goals omega

theorem fold_0 (h l : Nat) :
    (Gen.Mds12.mds_multiply.s_result_0_1 (Gen.Mds12.mds_multiply.s_res (Gen.Mds12.mds_multiply.s_s_lo (Gen.Mds12.mds_multiply.s_s_12 h l)) (Gen.Mds12.mds_multiply.s_z (Gen.Mds12.mds_multiply.s_s_hi (Gen.Mds12.mds_multiply.s_s_12 h l)))) (Gen.Mds12.mds_multiply.s_over (Gen.Mds12.mds_multiply.s_s_lo (Gen.Mds12.mds_multiply.s_s_12 h l)) (Gen.Mds12.mds_multiply.s_z (Gen.Mds12.mds_multiply.s_s_hi (Gen.Mds12.mds_multiply.s_s_12 h l))))) = tailRed l h := rfl

theorem fold_1 (h l : Nat) :
    (Gen.Mds12.mds_multiply.s_result_1_1 (Gen.Mds12.mds_multiply.s_res_1 (Gen.Mds12.mds_multiply.s_s_lo_1 (Gen.Mds12.mds_multiply.s_s_13 h l)) (Gen.Mds12.mds_multiply.s_z_1 (Gen.Mds12.mds_multiply.s_s_hi_1 (Gen.Mds12.mds_multiply.s_s_13 h l)))) (Gen.Mds12.mds_multiply.s_over_1 (Gen.Mds12.mds_multiply.s_s_lo_1 (Gen.Mds12.mds_multiply.s_s_13 h l)) (Gen.Mds12.mds_multiply.s_z_1 (Gen.Mds12.mds_multiply.s_s_hi_1 (Gen.Mds12.mds_multiply.s_s_13 h l))))) = tailRed l h := rfl

theorem fold_2 (h l : Nat) :
    (Gen.Mds12.mds_multiply.s_result_2_1 (Gen.Mds12.mds_multiply.s_res_2 (Gen.Mds12.mds_multiply.s_s_lo_2 (Gen.Mds12.mds_multiply.s_s_14 h l)) (Gen.Mds12.mds_multiply.s_z_2 (Gen.Mds12.mds_multiply.s_s_hi_2 (Gen.Mds12.mds_multiply.s_s_14 h l)))) (Gen.Mds12.mds_multiply.s_over_2 (Gen.Mds12.mds_multiply.s_s_lo_2 (Gen.Mds12.mds_multiply.s_s_14 h l)) (Gen.Mds12.mds_multiply.s_z_2 (Gen.Mds12.mds_multiply.s_s_hi_2 (Gen.Mds12.mds_multiply.s_s_14 h l))))) = tailRed l h := rfl

theorem fold_3 (h l : Nat) :
    (Gen.Mds12.mds_multiply.s_result_3_1 (Gen.Mds12.mds_multiply.s_res_3 (Gen.Mds12.mds_multiply.s_s_lo_3 (Gen.Mds12.mds_multiply.s_s_15 h l)) (Gen.Mds12.mds_multiply.s_z_3 (Gen.Mds12.mds_multiply.s_s_hi_3 (Gen.Mds12.mds_multiply.s_s_15 h l)))) (Gen.Mds12.mds_multiply.s_over_3 (Gen.Mds12.mds_multiply.s_s_lo_3 (Gen.Mds12.mds_multiply.s_s_15 h l)) (Gen.Mds12.mds_multiply.s_z_3 (Gen.Mds12.mds_multiply.s_s_hi_3 (Gen.Mds12.mds_multiply.s_s_15 h l))))) = tailRed l h := rfl

theorem fold_4 (h l : Nat) :
    (Gen.Mds12.mds_multiply.s_result_4_1 (Gen.Mds12.mds_multiply.s_res_4 (Gen.Mds12.mds_multiply.s_s_lo_4 (Gen.Mds12.mds_multiply.s_s_16 h l)) (Gen.Mds12.mds_multiply.s_z_4 (Gen.Mds12.mds_multiply.s_s_hi_4 (Gen.Mds12.mds_multiply.s_s_16 h l)))) (Gen.Mds12.mds_multiply.s_over_4 (Gen.Mds12.mds_multiply.s_s_lo_4 (Gen.Mds12.mds_multiply.s_s_16 h l)) (Gen.Mds12.mds_multiply.s_z_4 (Gen.Mds12.mds_multiply.s_s_hi_4 (Gen.Mds12.mds_multiply.s_s_16 h l))))) = tailRed l h := rfl

theorem fold_5 (h l : Nat) :
    (Gen.Mds12.mds_multiply.s_result_5_1 (Gen.Mds12.mds_multiply.s_res_5 (Gen.Mds12.mds_multiply.s_s_lo_5 (Gen.Mds12.mds_multiply.s_s_17 h l)) (Gen.Mds12.mds_multiply.s_z_5 (Gen.Mds12.mds_multiply.s_s_hi_5 (Gen.Mds12.mds_multiply.s_s_17 h l)))) (Gen.Mds12.mds_multiply.s_over_5 (Gen.Mds12.mds_multiply.s_s_lo_5 (Gen.Mds12.mds_multiply.s_s_17 h l)) (Gen.Mds12.mds_multiply.s_z_5 (Gen.Mds12.mds_multiply.s_s_hi_5 (Gen.Mds12.mds_multiply.s_s_17 h l))))) = tailRed l h := rfl

theorem fold_6 (h l : Nat) :
    (Gen.Mds12.mds_multiply.s_result_6_1 (Gen.Mds12.mds_multiply.s_res_6 (Gen.Mds12.mds_multiply.s_s_lo_6 (Gen.Mds12.mds_multiply.s_s_18 h l)) (Gen.Mds12.mds_multiply.s_z_6 (Gen.Mds12.mds_multiply.s_s_hi_6 (Gen.Mds12.mds_multiply.s_s_18 h l)))) (Gen.Mds12.mds_multiply.s_over_6 (Gen.Mds12.mds_multiply.s_s_lo_6 (Gen.Mds12.mds_multiply.s_s_18 h l)) (Gen.Mds12.mds_multiply.s_z_6 (Gen.Mds12.mds_multiply.s_s_hi_6 (Gen.Mds12.mds_multiply.s_s_18 h l))))) = tailRed l h := rfl

theorem fold_7 (h l : Nat) :
    (Gen.Mds12.mds_multiply.s_result_7_1 (Gen.Mds12.mds_multiply.s_res_7 (Gen.Mds12.mds_multiply.s_s_lo_7 (Gen.Mds12.mds_multiply.s_s_19 h l)) (Gen.Mds12.mds_multiply.s_z_7 (Gen.Mds12.mds_multiply.s_s_hi_7 (Gen.Mds12.mds_multiply.s_s_19 h l)))) (Gen.Mds12.mds_multiply.s_over_7 (Gen.Mds12.mds_multiply.s_s_lo_7 (Gen.Mds12.mds_multiply.s_s_19 h l)) (Gen.Mds12.mds_multiply.s_z_7 (Gen.Mds12.mds_multiply.s_s_hi_7 (Gen.Mds12.mds_multiply.s_s_19 h l))))) = tailRed l h := rfl

theorem fold_8 (h l : Nat) :
    (Gen.Mds12.mds_multiply.s_result_8_1 (Gen.Mds12.mds_multiply.s_res_8 (Gen.Mds12.mds_multiply.s_s_lo_8 (Gen.Mds12.mds_multiply.s_s_20 h l)) (Gen.Mds12.mds_multiply.s_z_8 (Gen.Mds12.mds_multiply.s_s_hi_8 (Gen.Mds12.mds_multiply.s_s_20 h l)))) (Gen.Mds12.mds_multiply.s_over_8 (Gen.Mds12.mds_multiply.s_s_lo_8 (Gen.Mds12.mds_multiply.s_s_20 h l)) (Gen.Mds12.mds_multiply.s_z_8 (Gen.Mds12.mds_multiply.s_s_hi_8 (Gen.Mds12.mds_multiply.s_s_20 h l))))) = tailRed l h := rfl

theorem fold_9 (h l : Nat) :
    (Gen.Mds12.mds_multiply.s_result_9_1 (Gen.Mds12.mds_multiply.s_res_9 (Gen.Mds12.mds_multiply.s_s_lo_9 (Gen.Mds12.mds_multiply.s_s_21 h l)) (Gen.Mds12.mds_multiply.s_z_9 (Gen.Mds12.mds_multiply.s_s_hi_9 (Gen.Mds12.mds_multiply.s_s_21 h l)))) (Gen.Mds12.mds_multiply.s_over_9 (Gen.Mds12.mds_multiply.s_s_lo_9 (Gen.Mds12.mds_multiply.s_s_21 h l)) (Gen.Mds12.mds_multiply.s_z_9 (Gen.Mds12.mds_multiply.s_s_hi_9 (Gen.Mds12.mds_multiply.s_s_21 h l))))) = tailRed l h := rfl

theorem fold_10 (h l : Nat) :
    (Gen.Mds12.mds_multiply.s_result_10_1 (Gen.Mds12.mds_multiply.s_res_10 (Gen.Mds12.mds_multiply.s_s_lo_10 (Gen.Mds12.mds_multiply.s_s_22 h l)) (Gen.Mds12.mds_multiply.s_z_10 (Gen.Mds12.mds_multiply.s_s_hi_10 (Gen.Mds12.mds_multiply.s_s_22 h l)))) (Gen.Mds12.mds_multiply.s_over_10 (Gen.Mds12.mds_multiply.s_s_lo_10 (Gen.Mds12.mds_multiply.s_s_22 h l)) (Gen.Mds12.mds_multiply.s_z_10 (Gen.Mds12.mds_multiply.s_s_hi_10 (Gen.Mds12.mds_multiply.s_s_22 h l))))) = tailRed l h := rfl

theorem fold_11 (h l : Nat) :
    (Gen.Mds12.mds_multiply.s_result_11_1 (Gen.Mds12.mds_multiply.s_res_11 (Gen.Mds12.mds_multiply.s_s_lo_11 (Gen.Mds12.mds_multiply.s_s_23 h l)) (Gen.Mds12.mds_multiply.s_z_11 (Gen.Mds12.mds_multiply.s_s_hi_11 (Gen.Mds12.mds_multiply.s_s_23 h l)))) (Gen.Mds12.mds_multiply.s_over_11 (Gen.Mds12.mds_multiply.s_s_lo_11 (Gen.Mds12.mds_multiply.s_s_23 h l)) (Gen.Mds12.mds_multiply.s_z_11 (Gen.Mds12.mds_multiply.s_s_hi_11 (Gen.Mds12.mds_multiply.s_s_23 h l))))) = tailRed l h := rfl

/-- the plumbing of `mds_multiply` (which `let` feeds which): every output component is the
    reduction tail of the two frequency-domain products of the low and high 32-bit limbs -/
def mm_eq_tail_statement : Prop :=
  ∀ (x0 x1 x2 x3 x4 x5 x6 x7 x8 x9 x10 x11 : Nat),
    Gen.Mds12.mds_multiply x0 x1 x2 x3 x4 x5 x6 x7 x8 x9 x10 x11 =
      (tailRed (Gen.Mds12.mds_multiply_freq (x0 % 4294967296) (x1 % 4294967296) (x2 % 4294967296) (x3 % 4294967296) (x4 % 4294967296) (x5 % 4294967296) (x6 % 4294967296) (x7 % 4294967296) (x8 % 4294967296) (x9 % 4294967296) (x10 % 4294967296) (x11 % 4294967296)).1
         (Gen.Mds12.mds_multiply_freq (x0 / 4294967296) (x1 / 4294967296) (x2 / 4294967296) (x3 / 4294967296) (x4 / 4294967296) (x5 / 4294967296) (x6 / 4294967296) (x7 / 4294967296) (x8 / 4294967296) (x9 / 4294967296) (x10 / 4294967296) (x11 / 4294967296)).1,
       tailRed (Gen.Mds12.mds_multiply_freq (x0 % 4294967296) (x1 % 4294967296) (x2 % 4294967296) (x3 % 4294967296) (x4 % 4294967296) (x5 % 4294967296) (x6 % 4294967296) (x7 % 4294967296) (x8 % 4294967296) (x9 % 4294967296) (x10 % 4294967296) (x11 % 4294967296)).2.1
         (Gen.Mds12.mds_multiply_freq (x0 / 4294967296) (x1 / 4294967296) (x2 / 4294967296) (x3 / 4294967296) (x4 / 4294967296) (x5 / 4294967296) (x6 / 4294967296) (x7 / 4294967296) (x8 / 4294967296) (x9 / 4294967296) (x10 / 4294967296) (x11 / 4294967296)).2.1,
       tailRed (Gen.Mds12.mds_multiply_freq (x0 % 4294967296) (x1 % 4294967296) (x2 % 4294967296) (x3 % 4294967296) (x4 % 4294967296) (x5 % 4294967296) (x6 % 4294967296) (x7 % 4294967296) (x8 % 4294967296) (x9 % 4294967296) (x10 % 4294967296) (x11 % 4294967296)).2.2.1
         (Gen.Mds12.mds_multiply_freq (x0 / 4294967296) (x1 / 4294967296) (x2 / 4294967296) (x3 / 4294967296) (x4 / 4294967296) (x5 / 4294967296) (x6 / 4294967296) (x7 / 4294967296) (x8 / 4294967296) (x9 / 4294967296) (x10 / 4294967296) (x11 / 4294967296)).2.2.1,
       tailRed (Gen.Mds12.mds_multiply_freq (x0 % 4294967296) (x1 % 4294967296) (x2 % 4294967296) (x3 % 4294967296) (x4 % 4294967296) (x5 % 4294967296) (x6 % 4294967296) (x7 % 4294967296) (x8 % 4294967296) (x9 % 4294967296) (x10 % 4294967296) (x11 % 4294967296)).2.2.2.1
         (Gen.Mds12.mds_multiply_freq (x0 / 4294967296) (x1 / 4294967296) (x2 / 4294967296) (x3 / 4294967296) (x4 / 4294967296) (x5 / 4294967296) (x6 / 4294967296) (x7 / 4294967296) (x8 / 4294967296) (x9 / 4294967296) (x10 / 4294967296) (x11 / 4294967296)).2.2.2.1,
       tailRed (Gen.Mds12.mds_multiply_freq (x0 % 4294967296) (x1 % 4294967296) (x2 % 4294967296) (x3 % 4294967296) (x4 % 4294967296) (x5 % 4294967296) (x6 % 4294967296) (x7 % 4294967296) (x8 % 4294967296) (x9 % 4294967296) (x10 % 4294967296) (x11 % 4294967296)).2.2.2.2.1
         (Gen.Mds12.mds_multiply_freq (x0 / 4294967296) (x1 / 4294967296) (x2 / 4294967296) (x3 / 4294967296) (x4 / 4294967296) (x5 / 4294967296) (x6 / 4294967296) (x7 / 4294967296) (x8 / 4294967296) (x9 / 4294967296) (x10 / 4294967296) (x11 / 4294967296)).2.2.2.2.1,
       tailRed (Gen.Mds12.mds_multiply_freq (x0 % 4294967296) (x1 % 4294967296) (x2 % 4294967296) (x3 % 4294967296) (x4 % 4294967296) (x5 % 4294967296) (x6 % 4294967296) (x7 % 4294967296) (x8 % 4294967296) (x9 % 4294967296) (x10 % 4294967296) (x11 % 4294967296)).2.2.2.2.2.1
         (Gen.Mds12.mds_multiply_freq (x0 / 4294967296) (x1 / 4294967296) (x2 / 4294967296) (x3 / 4294967296) (x4 / 4294967296) (x5 / 4294967296) (x6 / 4294967296) (x7 / 4294967296) (x8 / 4294967296) (x9 / 4294967296) (x10 / 4294967296) (x11 / 4294967296)).2.2.2.2.2.1,
       tailRed (Gen.Mds12.mds_multiply_freq (x0 % 4294967296) (x1 % 4294967296) (x2 % 4294967296) (x3 % 4294967296) (x4 % 4294967296) (x5 % 4294967296) (x6 % 4294967296) (x7 % 4294967296) (x8 % 4294967296) (x9 % 4294967296) (x10 % 4294967296) (x11 % 4294967296)).2.2.2.2.2.2.1
         (Gen.Mds12.mds_multiply_freq (x0 / 4294967296) (x1 / 4294967296) (x2 / 4294967296) (x3 / 4294967296) (x4 / 4294967296) (x5 / 4294967296) (x6 / 4294967296) (x7 / 4294967296) (x8 / 4294967296) (x9 / 4294967296) (x10 / 4294967296) (x11 / 4294967296)).2.2.2.2.2.2.1,
       tailRed (Gen.Mds12.mds_multiply_freq (x0 % 4294967296) (x1 % 4294967296) (x2 % 4294967296) (x3 % 4294967296) (x4 % 4294967296) (x5 % 4294967296) (x6 % 4294967296) (x7 % 4294967296) (x8 % 4294967296) (x9 % 4294967296) (x10 % 4294967296) (x11 % 4294967296)).2.2.2.2.2.2.2.1
         (Gen.Mds12.mds_multiply_freq (x0 / 4294967296) (x1 / 4294967296) (x2 / 4294967296) (x3 / 4294967296) (x4 / 4294967296) (x5 / 4294967296) (x6 / 4294967296) (x7 / 4294967296) (x8 / 4294967296) (x9 / 4294967296) (x10 / 4294967296) (x11 / 4294967296)).2.2.2.2.2.2.2.1,
       tailRed (Gen.Mds12.mds_multiply_freq (x0 % 4294967296) (x1 % 4294967296) (x2 % 4294967296) (x3 % 4294967296) (x4 % 4294967296) (x5 % 4294967296) (x6 % 4294967296) (x7 % 4294967296) (x8 % 4294967296) (x9 % 4294967296) (x10 % 4294967296) (x11 % 4294967296)).2.2.2.2.2.2.2.2.1
         (Gen.Mds12.mds_multiply_freq (x0 / 4294967296) (x1 / 4294967296) (x2 / 4294967296) (x3 / 4294967296) (x4 / 4294967296) (x5 / 4294967296) (x6 / 4294967296) (x7 / 4294967296) (x8 / 4294967296) (x9 / 4294967296) (x10 / 4294967296) (x11 / 4294967296)).2.2.2.2.2.2.2.2.1,
       tailRed (Gen.Mds12.mds_multiply_freq (x0 % 4294967296) (x1 % 4294967296) (x2 % 4294967296) (x3 % 4294967296) (x4 % 4294967296) (x5 % 4294967296) (x6 % 4294967296) (x7 % 4294967296) (x8 % 4294967296) (x9 % 4294967296) (x10 % 4294967296) (x11 % 4294967296)).2.2.2.2.2.2.2.2.2.1
         (Gen.Mds12.mds_multiply_freq (x0 / 4294967296) (x1 / 4294967296) (x2 / 4294967296) (x3 / 4294967296) (x4 / 4294967296) (x5 / 4294967296) (x6 / 4294967296) (x7 / 4294967296) (x8 / 4294967296) (x9 / 4294967296) (x10 / 4294967296) (x11 / 4294967296)).2.2.2.2.2.2.2.2.2.1,
       tailRed (Gen.Mds12.mds_multiply_freq (x0 % 4294967296) (x1 % 4294967296) (x2 % 4294967296) (x3 % 4294967296) (x4 % 4294967296) (x5 % 4294967296) (x6 % 4294967296) (x7 % 4294967296) (x8 % 4294967296) (x9 % 4294967296) (x10 % 4294967296) (x11 % 4294967296)).2.2.2.2.2.2.2.2.2.2.1
         (Gen.Mds12.mds_multiply_freq (x0 / 4294967296) (x1 / 4294967296) (x2 / 4294967296) (x3 / 4294967296) (x4 / 4294967296) (x5 / 4294967296) (x6 / 4294967296) (x7 / 4294967296) (x8 / 4294967296) (x9 / 4294967296) (x10 / 4294967296) (x11 / 4294967296)).2.2.2.2.2.2.2.2.2.2.1,
       tailRed (Gen.Mds12.mds_multiply_freq (x0 % 4294967296) (x1 % 4294967296) (x2 % 4294967296) (x3 % 4294967296) (x4 % 4294967296) (x5 % 4294967296) (x6 % 4294967296) (x7 % 4294967296) (x8 % 4294967296) (x9 % 4294967296) (x10 % 4294967296) (x11 % 4294967296)).2.2.2.2.2.2.2.2.2.2.2
         (Gen.Mds12.mds_multiply_freq (x0 / 4294967296) (x1 / 4294967296) (x2 / 4294967296) (x3 / 4294967296) (x4 / 4294967296) (x5 / 4294967296) (x6 / 4294967296) (x7 / 4294967296) (x8 / 4294967296) (x9 / 4294967296) (x10 / 4294967296) (x11 / 4294967296)).2.2.2.2.2.2.2.2.2.2.2)

/-! one equation per generated step, each carrying a proof term (see `gen_c11_mds.py`) -/
section steps
open Gen.Mds12

theorem eq_mds_multiply_s_s (state_0 : Nat) :
    Gen.Mds12.mds_multiply.s_s state_0 =
      (state_0) := by
  rw [Gen.Mds12.mds_multiply.s_s]

theorem eq_mds_multiply_s_state_h_0_1 (s : Nat) :
    Gen.Mds12.mds_multiply.s_state_h_0_1 s =
      (s / 4294967296) := by
  rw [Gen.Mds12.mds_multiply.s_state_h_0_1]

theorem eq_mds_multiply_s_state_l_0_1 (s : Nat) :
    Gen.Mds12.mds_multiply.s_state_l_0_1 s =
      (s % 4294967296) := by
  rw [Gen.Mds12.mds_multiply.s_state_l_0_1]

theorem eq_mds_multiply_s_s_1 (state_1 : Nat) :
    Gen.Mds12.mds_multiply.s_s_1 state_1 =
      (state_1) := by
  rw [Gen.Mds12.mds_multiply.s_s_1]

theorem eq_mds_multiply_s_state_h_1_1 (s_1 : Nat) :
    Gen.Mds12.mds_multiply.s_state_h_1_1 s_1 =
      (s_1 / 4294967296) := by
  rw [Gen.Mds12.mds_multiply.s_state_h_1_1]

theorem eq_mds_multiply_s_state_l_1_1 (s_1 : Nat) :
    Gen.Mds12.mds_multiply.s_state_l_1_1 s_1 =
      (s_1 % 4294967296) := by
  rw [Gen.Mds12.mds_multiply.s_state_l_1_1]

theorem eq_mds_multiply_s_s_2 (state_2 : Nat) :
    Gen.Mds12.mds_multiply.s_s_2 state_2 =
      (state_2) := by
  rw [Gen.Mds12.mds_multiply.s_s_2]

theorem eq_mds_multiply_s_state_h_2_1 (s_2 : Nat) :
    Gen.Mds12.mds_multiply.s_state_h_2_1 s_2 =
      (s_2 / 4294967296) := by
  rw [Gen.Mds12.mds_multiply.s_state_h_2_1]

theorem eq_mds_multiply_s_state_l_2_1 (s_2 : Nat) :
    Gen.Mds12.mds_multiply.s_state_l_2_1 s_2 =
      (s_2 % 4294967296) := by
  rw [Gen.Mds12.mds_multiply.s_state_l_2_1]

theorem eq_mds_multiply_s_s_3 (state_3 : Nat) :
    Gen.Mds12.mds_multiply.s_s_3 state_3 =
      (state_3) := by
  rw [Gen.Mds12.mds_multiply.s_s_3]

theorem eq_mds_multiply_s_state_h_3_1 (s_3 : Nat) :
    Gen.Mds12.mds_multiply.s_state_h_3_1 s_3 =
      (s_3 / 4294967296) := by
  rw [Gen.Mds12.mds_multiply.s_state_h_3_1]

theorem eq_mds_multiply_s_state_l_3_1 (s_3 : Nat) :
    Gen.Mds12.mds_multiply.s_state_l_3_1 s_3 =
      (s_3 % 4294967296) := by
  rw [Gen.Mds12.mds_multiply.s_state_l_3_1]

theorem eq_mds_multiply_s_s_4 (state_4 : Nat) :
    Gen.Mds12.mds_multiply.s_s_4 state_4 =
      (state_4) := by
  rw [Gen.Mds12.mds_multiply.s_s_4]

theorem eq_mds_multiply_s_state_h_4_1 (s_4 : Nat) :
    Gen.Mds12.mds_multiply.s_state_h_4_1 s_4 =
      (s_4 / 4294967296) := by
  rw [Gen.Mds12.mds_multiply.s_state_h_4_1]

theorem eq_mds_multiply_s_state_l_4_1 (s_4 : Nat) :
    Gen.Mds12.mds_multiply.s_state_l_4_1 s_4 =
      (s_4 % 4294967296) := by
  rw [Gen.Mds12.mds_multiply.s_state_l_4_1]

theorem eq_mds_multiply_s_s_5 (state_5 : Nat) :
    Gen.Mds12.mds_multiply.s_s_5 state_5 =
      (state_5) := by
  rw [Gen.Mds12.mds_multiply.s_s_5]

theorem eq_mds_multiply_s_state_h_5_1 (s_5 : Nat) :
    Gen.Mds12.mds_multiply.s_state_h_5_1 s_5 =
      (s_5 / 4294967296) := by
  rw [Gen.Mds12.mds_multiply.s_state_h_5_1]

theorem eq_mds_multiply_s_state_l_5_1 (s_5 : Nat) :
    Gen.Mds12.mds_multiply.s_state_l_5_1 s_5 =
      (s_5 % 4294967296) := by
  rw [Gen.Mds12.mds_multiply.s_state_l_5_1]

theorem eq_mds_multiply_s_s_6 (state_6 : Nat) :
    Gen.Mds12.mds_multiply.s_s_6 state_6 =
      (state_6) := by
  rw [Gen.Mds12.mds_multiply.s_s_6]

theorem eq_mds_multiply_s_state_h_6_1 (s_6 : Nat) :
    Gen.Mds12.mds_multiply.s_state_h_6_1 s_6 =
      (s_6 / 4294967296) := by
  rw [Gen.Mds12.mds_multiply.s_state_h_6_1]

theorem eq_mds_multiply_s_state_l_6_1 (s_6 : Nat) :
    Gen.Mds12.mds_multiply.s_state_l_6_1 s_6 =
      (s_6 % 4294967296) := by
  rw [Gen.Mds12.mds_multiply.s_state_l_6_1]

theorem eq_mds_multiply_s_s_7 (state_7 : Nat) :
    Gen.Mds12.mds_multiply.s_s_7 state_7 =
      (state_7) := by
  rw [Gen.Mds12.mds_multiply.s_s_7]

theorem eq_mds_multiply_s_state_h_7_1 (s_7 : Nat) :
    Gen.Mds12.mds_multiply.s_state_h_7_1 s_7 =
      (s_7 / 4294967296) := by
  rw [Gen.Mds12.mds_multiply.s_state_h_7_1]

theorem eq_mds_multiply_s_state_l_7_1 (s_7 : Nat) :
    Gen.Mds12.mds_multiply.s_state_l_7_1 s_7 =
      (s_7 % 4294967296) := by
  rw [Gen.Mds12.mds_multiply.s_state_l_7_1]

theorem eq_mds_multiply_s_s_8 (state_8 : Nat) :
    Gen.Mds12.mds_multiply.s_s_8 state_8 =
      (state_8) := by
  rw [Gen.Mds12.mds_multiply.s_s_8]

theorem eq_mds_multiply_s_state_h_8_1 (s_8 : Nat) :
    Gen.Mds12.mds_multiply.s_state_h_8_1 s_8 =
      (s_8 / 4294967296) := by
  rw [Gen.Mds12.mds_multiply.s_state_h_8_1]

theorem eq_mds_multiply_s_state_l_8_1 (s_8 : Nat) :
    Gen.Mds12.mds_multiply.s_state_l_8_1 s_8 =
      (s_8 % 4294967296) := by
  rw [Gen.Mds12.mds_multiply.s_state_l_8_1]

theorem eq_mds_multiply_s_s_9 (state_9 : Nat) :
    Gen.Mds12.mds_multiply.s_s_9 state_9 =
      (state_9) := by
  rw [Gen.Mds12.mds_multiply.s_s_9]

theorem eq_mds_multiply_s_state_h_9_1 (s_9 : Nat) :
    Gen.Mds12.mds_multiply.s_state_h_9_1 s_9 =
      (s_9 / 4294967296) := by
  rw [Gen.Mds12.mds_multiply.s_state_h_9_1]

theorem eq_mds_multiply_s_state_l_9_1 (s_9 : Nat) :
    Gen.Mds12.mds_multiply.s_state_l_9_1 s_9 =
      (s_9 % 4294967296) := by
  rw [Gen.Mds12.mds_multiply.s_state_l_9_1]

theorem eq_mds_multiply_s_s_10 (state_10 : Nat) :
    Gen.Mds12.mds_multiply.s_s_10 state_10 =
      (state_10) := by
  rw [Gen.Mds12.mds_multiply.s_s_10]

theorem eq_mds_multiply_s_state_h_10_1 (s_10 : Nat) :
    Gen.Mds12.mds_multiply.s_state_h_10_1 s_10 =
      (s_10 / 4294967296) := by
  rw [Gen.Mds12.mds_multiply.s_state_h_10_1]

theorem eq_mds_multiply_s_state_l_10_1 (s_10 : Nat) :
    Gen.Mds12.mds_multiply.s_state_l_10_1 s_10 =
      (s_10 % 4294967296) := by
  rw [Gen.Mds12.mds_multiply.s_state_l_10_1]

theorem eq_mds_multiply_s_s_11 (state_11 : Nat) :
    Gen.Mds12.mds_multiply.s_s_11 state_11 =
      (state_11) := by
  rw [Gen.Mds12.mds_multiply.s_s_11]

theorem eq_mds_multiply_s_state_h_11_1 (s_11 : Nat) :
    Gen.Mds12.mds_multiply.s_state_h_11_1 s_11 =
      (s_11 / 4294967296) := by
  rw [Gen.Mds12.mds_multiply.s_state_h_11_1]

theorem eq_mds_multiply_s_state_l_11_1 (s_11 : Nat) :
    Gen.Mds12.mds_multiply.s_state_l_11_1 s_11 =
      (s_11 % 4294967296) := by
  rw [Gen.Mds12.mds_multiply.s_state_l_11_1]

theorem eq_mds_multiply_s_r (state_h_0_1 : Nat) (state_h_1_1 : Nat) (state_h_2_1 : Nat) (state_h_3_1 : Nat) (state_h_4_1 : Nat) (state_h_5_1 : Nat) (state_h_6_1 : Nat) (state_h_7_1 : Nat) (state_h_8_1 : Nat) (state_h_9_1 : Nat) (state_h_10_1 : Nat) (state_h_11_1 : Nat) :
    Gen.Mds12.mds_multiply.s_r state_h_0_1 state_h_1_1 state_h_2_1 state_h_3_1 state_h_4_1 state_h_5_1 state_h_6_1 state_h_7_1 state_h_8_1 state_h_9_1 state_h_10_1 state_h_11_1 =
      (mds_multiply_freq state_h_0_1 state_h_1_1 state_h_2_1 state_h_3_1 state_h_4_1 state_h_5_1 state_h_6_1 state_h_7_1 state_h_8_1 state_h_9_1 state_h_10_1 state_h_11_1) := by
  rw [Gen.Mds12.mds_multiply.s_r]

theorem eq_mds_multiply_s_state_h_0_2 (r : Nat × Nat × Nat × Nat × Nat × Nat × Nat × Nat × Nat × Nat × Nat × Nat) :
    Gen.Mds12.mds_multiply.s_state_h_0_2 r =
      (r.1) := by
  rw [Gen.Mds12.mds_multiply.s_state_h_0_2]

theorem eq_mds_multiply_s_state_h_1_2 (r : Nat × Nat × Nat × Nat × Nat × Nat × Nat × Nat × Nat × Nat × Nat × Nat) :
    Gen.Mds12.mds_multiply.s_state_h_1_2 r =
      (r.2.1) := by
  rw [Gen.Mds12.mds_multiply.s_state_h_1_2]

theorem eq_mds_multiply_s_state_h_2_2 (r : Nat × Nat × Nat × Nat × Nat × Nat × Nat × Nat × Nat × Nat × Nat × Nat) :
    Gen.Mds12.mds_multiply.s_state_h_2_2 r =
      (r.2.2.1) := by
  rw [Gen.Mds12.mds_multiply.s_state_h_2_2]

theorem eq_mds_multiply_s_state_h_3_2 (r : Nat × Nat × Nat × Nat × Nat × Nat × Nat × Nat × Nat × Nat × Nat × Nat) :
    Gen.Mds12.mds_multiply.s_state_h_3_2 r =
      (r.2.2.2.1) := by
  rw [Gen.Mds12.mds_multiply.s_state_h_3_2]

theorem eq_mds_multiply_s_state_h_4_2 (r : Nat × Nat × Nat × Nat × Nat × Nat × Nat × Nat × Nat × Nat × Nat × Nat) :
    Gen.Mds12.mds_multiply.s_state_h_4_2 r =
      (r.2.2.2.2.1) := by
  rw [Gen.Mds12.mds_multiply.s_state_h_4_2]

theorem eq_mds_multiply_s_state_h_5_2 (r : Nat × Nat × Nat × Nat × Nat × Nat × Nat × Nat × Nat × Nat × Nat × Nat) :
    Gen.Mds12.mds_multiply.s_state_h_5_2 r =
      (r.2.2.2.2.2.1) := by
  rw [Gen.Mds12.mds_multiply.s_state_h_5_2]

theorem eq_mds_multiply_s_state_h_6_2 (r : Nat × Nat × Nat × Nat × Nat × Nat × Nat × Nat × Nat × Nat × Nat × Nat) :
    Gen.Mds12.mds_multiply.s_state_h_6_2 r =
      (r.2.2.2.2.2.2.1) := by
  rw [Gen.Mds12.mds_multiply.s_state_h_6_2]

theorem eq_mds_multiply_s_state_h_7_2 (r : Nat × Nat × Nat × Nat × Nat × Nat × Nat × Nat × Nat × Nat × Nat × Nat) :
    Gen.Mds12.mds_multiply.s_state_h_7_2 r =
      (r.2.2.2.2.2.2.2.1) := by
  rw [Gen.Mds12.mds_multiply.s_state_h_7_2]

theorem eq_mds_multiply_s_state_h_8_2 (r : Nat × Nat × Nat × Nat × Nat × Nat × Nat × Nat × Nat × Nat × Nat × Nat) :
    Gen.Mds12.mds_multiply.s_state_h_8_2 r =
      (r.2.2.2.2.2.2.2.2.1) := by
  rw [Gen.Mds12.mds_multiply.s_state_h_8_2]

theorem eq_mds_multiply_s_state_h_9_2 (r : Nat × Nat × Nat × Nat × Nat × Nat × Nat × Nat × Nat × Nat × Nat × Nat) :
    Gen.Mds12.mds_multiply.s_state_h_9_2 r =
      (r.2.2.2.2.2.2.2.2.2.1) := by
  rw [Gen.Mds12.mds_multiply.s_state_h_9_2]

theorem eq_mds_multiply_s_state_h_10_2 (r : Nat × Nat × Nat × Nat × Nat × Nat × Nat × Nat × Nat × Nat × Nat × Nat) :
    Gen.Mds12.mds_multiply.s_state_h_10_2 r =
      (r.2.2.2.2.2.2.2.2.2.2.1) := by
  rw [Gen.Mds12.mds_multiply.s_state_h_10_2]

theorem eq_mds_multiply_s_state_h_11_2 (r : Nat × Nat × Nat × Nat × Nat × Nat × Nat × Nat × Nat × Nat × Nat × Nat) :
    Gen.Mds12.mds_multiply.s_state_h_11_2 r =
      (r.2.2.2.2.2.2.2.2.2.2.2) := by
  rw [Gen.Mds12.mds_multiply.s_state_h_11_2]

theorem eq_mds_multiply_s_r_1 (state_l_0_1 : Nat) (state_l_1_1 : Nat) (state_l_2_1 : Nat) (state_l_3_1 : Nat) (state_l_4_1 : Nat) (state_l_5_1 : Nat) (state_l_6_1 : Nat) (state_l_7_1 : Nat) (state_l_8_1 : Nat) (state_l_9_1 : Nat) (state_l_10_1 : Nat) (state_l_11_1 : Nat) :
    Gen.Mds12.mds_multiply.s_r_1 state_l_0_1 state_l_1_1 state_l_2_1 state_l_3_1 state_l_4_1 state_l_5_1 state_l_6_1 state_l_7_1 state_l_8_1 state_l_9_1 state_l_10_1 state_l_11_1 =
      (mds_multiply_freq state_l_0_1 state_l_1_1 state_l_2_1 state_l_3_1 state_l_4_1 state_l_5_1 state_l_6_1 state_l_7_1 state_l_8_1 state_l_9_1 state_l_10_1 state_l_11_1) := by
  rw [Gen.Mds12.mds_multiply.s_r_1]

theorem eq_mds_multiply_s_state_l_0_2 (r_1 : Nat × Nat × Nat × Nat × Nat × Nat × Nat × Nat × Nat × Nat × Nat × Nat) :
    Gen.Mds12.mds_multiply.s_state_l_0_2 r_1 =
      (r_1.1) := by
  rw [Gen.Mds12.mds_multiply.s_state_l_0_2]

theorem eq_mds_multiply_s_state_l_1_2 (r_1 : Nat × Nat × Nat × Nat × Nat × Nat × Nat × Nat × Nat × Nat × Nat × Nat) :
    Gen.Mds12.mds_multiply.s_state_l_1_2 r_1 =
      (r_1.2.1) := by
  rw [Gen.Mds12.mds_multiply.s_state_l_1_2]

theorem eq_mds_multiply_s_state_l_2_2 (r_1 : Nat × Nat × Nat × Nat × Nat × Nat × Nat × Nat × Nat × Nat × Nat × Nat) :
    Gen.Mds12.mds_multiply.s_state_l_2_2 r_1 =
      (r_1.2.2.1) := by
  rw [Gen.Mds12.mds_multiply.s_state_l_2_2]

theorem eq_mds_multiply_s_state_l_3_2 (r_1 : Nat × Nat × Nat × Nat × Nat × Nat × Nat × Nat × Nat × Nat × Nat × Nat) :
    Gen.Mds12.mds_multiply.s_state_l_3_2 r_1 =
      (r_1.2.2.2.1) := by
  rw [Gen.Mds12.mds_multiply.s_state_l_3_2]

theorem eq_mds_multiply_s_state_l_4_2 (r_1 : Nat × Nat × Nat × Nat × Nat × Nat × Nat × Nat × Nat × Nat × Nat × Nat) :
    Gen.Mds12.mds_multiply.s_state_l_4_2 r_1 =
      (r_1.2.2.2.2.1) := by
  rw [Gen.Mds12.mds_multiply.s_state_l_4_2]

theorem eq_mds_multiply_s_state_l_5_2 (r_1 : Nat × Nat × Nat × Nat × Nat × Nat × Nat × Nat × Nat × Nat × Nat × Nat) :
    Gen.Mds12.mds_multiply.s_state_l_5_2 r_1 =
      (r_1.2.2.2.2.2.1) := by
  rw [Gen.Mds12.mds_multiply.s_state_l_5_2]

theorem eq_mds_multiply_s_state_l_6_2 (r_1 : Nat × Nat × Nat × Nat × Nat × Nat × Nat × Nat × Nat × Nat × Nat × Nat) :
    Gen.Mds12.mds_multiply.s_state_l_6_2 r_1 =
      (r_1.2.2.2.2.2.2.1) := by
  rw [Gen.Mds12.mds_multiply.s_state_l_6_2]

theorem eq_mds_multiply_s_state_l_7_2 (r_1 : Nat × Nat × Nat × Nat × Nat × Nat × Nat × Nat × Nat × Nat × Nat × Nat) :
    Gen.Mds12.mds_multiply.s_state_l_7_2 r_1 =
      (r_1.2.2.2.2.2.2.2.1) := by
  rw [Gen.Mds12.mds_multiply.s_state_l_7_2]

theorem eq_mds_multiply_s_state_l_8_2 (r_1 : Nat × Nat × Nat × Nat × Nat × Nat × Nat × Nat × Nat × Nat × Nat × Nat) :
    Gen.Mds12.mds_multiply.s_state_l_8_2 r_1 =
      (r_1.2.2.2.2.2.2.2.2.1) := by
  rw [Gen.Mds12.mds_multiply.s_state_l_8_2]

theorem eq_mds_multiply_s_state_l_9_2 (r_1 : Nat × Nat × Nat × Nat × Nat × Nat × Nat × Nat × Nat × Nat × Nat × Nat) :
    Gen.Mds12.mds_multiply.s_state_l_9_2 r_1 =
      (r_1.2.2.2.2.2.2.2.2.2.1) := by
  rw [Gen.Mds12.mds_multiply.s_state_l_9_2]

theorem eq_mds_multiply_s_state_l_10_2 (r_1 : Nat × Nat × Nat × Nat × Nat × Nat × Nat × Nat × Nat × Nat × Nat × Nat) :
    Gen.Mds12.mds_multiply.s_state_l_10_2 r_1 =
      (r_1.2.2.2.2.2.2.2.2.2.2.1) := by
  rw [Gen.Mds12.mds_multiply.s_state_l_10_2]

theorem eq_mds_multiply_s_state_l_11_2 (r_1 : Nat × Nat × Nat × Nat × Nat × Nat × Nat × Nat × Nat × Nat × Nat × Nat) :
    Gen.Mds12.mds_multiply.s_state_l_11_2 r_1 =
      (r_1.2.2.2.2.2.2.2.2.2.2.2) := by
  rw [Gen.Mds12.mds_multiply.s_state_l_11_2]

theorem eq_mds_multiply_s_s_12 (state_h_0_2 : Nat) (state_l_0_2 : Nat) :
    Gen.Mds12.mds_multiply.s_s_12 state_h_0_2 state_l_0_2 =
      (state_l_0_2 + (state_h_0_2 * 4294967296 % 340282366920938463463374607431768211456)) := by
  rw [Gen.Mds12.mds_multiply.s_s_12]

theorem eq_mds_multiply_s_s_hi (s_12 : Nat) :
    Gen.Mds12.mds_multiply.s_s_hi s_12 =
      ((s_12 / 18446744073709551616) % 18446744073709551616) := by
  rw [Gen.Mds12.mds_multiply.s_s_hi]

theorem eq_mds_multiply_s_s_lo (s_12 : Nat) :
    Gen.Mds12.mds_multiply.s_s_lo s_12 =
      (s_12 % 18446744073709551616) := by
  rw [Gen.Mds12.mds_multiply.s_s_lo]

theorem eq_mds_multiply_s_z (s_hi : Nat) :
    Gen.Mds12.mds_multiply.s_z s_hi =
      ((s_hi * 4294967296 % 18446744073709551616) - s_hi) := by
  rw [Gen.Mds12.mds_multiply.s_z]

theorem eq_mds_multiply_s_res (s_lo : Nat) (z : Nat) :
    Gen.Mds12.mds_multiply.s_res s_lo z =
      ((s_lo + z) % 18446744073709551616) := by
  rw [Gen.Mds12.mds_multiply.s_res]

theorem eq_mds_multiply_s_over (s_lo : Nat) (z : Nat) :
    Gen.Mds12.mds_multiply.s_over s_lo z =
      (decide (18446744073709551616 ≤ s_lo + z)) := by
  rw [Gen.Mds12.mds_multiply.s_over]

theorem eq_mds_multiply_s_result_0_1 (res : Nat) (over : Bool) :
    Gen.Mds12.mds_multiply.s_result_0_1 res over =
      ((res + ((0 + 4294967296 - (if over = true then 1 else 0)) % 4294967296)) % 18446744073709551616) := by
  rw [Gen.Mds12.mds_multiply.s_result_0_1]

theorem eq_mds_multiply_s_s_13 (state_h_1_2 : Nat) (state_l_1_2 : Nat) :
    Gen.Mds12.mds_multiply.s_s_13 state_h_1_2 state_l_1_2 =
      (state_l_1_2 + (state_h_1_2 * 4294967296 % 340282366920938463463374607431768211456)) := by
  rw [Gen.Mds12.mds_multiply.s_s_13]

theorem eq_mds_multiply_s_s_hi_1 (s_13 : Nat) :
    Gen.Mds12.mds_multiply.s_s_hi_1 s_13 =
      ((s_13 / 18446744073709551616) % 18446744073709551616) := by
  rw [Gen.Mds12.mds_multiply.s_s_hi_1]

theorem eq_mds_multiply_s_s_lo_1 (s_13 : Nat) :
    Gen.Mds12.mds_multiply.s_s_lo_1 s_13 =
      (s_13 % 18446744073709551616) := by
  rw [Gen.Mds12.mds_multiply.s_s_lo_1]

theorem eq_mds_multiply_s_z_1 (s_hi_1 : Nat) :
    Gen.Mds12.mds_multiply.s_z_1 s_hi_1 =
      ((s_hi_1 * 4294967296 % 18446744073709551616) - s_hi_1) := by
  rw [Gen.Mds12.mds_multiply.s_z_1]

theorem eq_mds_multiply_s_res_1 (s_lo_1 : Nat) (z_1 : Nat) :
    Gen.Mds12.mds_multiply.s_res_1 s_lo_1 z_1 =
      ((s_lo_1 + z_1) % 18446744073709551616) := by
  rw [Gen.Mds12.mds_multiply.s_res_1]

theorem eq_mds_multiply_s_over_1 (s_lo_1 : Nat) (z_1 : Nat) :
    Gen.Mds12.mds_multiply.s_over_1 s_lo_1 z_1 =
      (decide (18446744073709551616 ≤ s_lo_1 + z_1)) := by
  rw [Gen.Mds12.mds_multiply.s_over_1]

theorem eq_mds_multiply_s_result_1_1 (res_1 : Nat) (over_1 : Bool) :
    Gen.Mds12.mds_multiply.s_result_1_1 res_1 over_1 =
      ((res_1 + ((0 + 4294967296 - (if over_1 = true then 1 else 0)) % 4294967296)) % 18446744073709551616) := by
  rw [Gen.Mds12.mds_multiply.s_result_1_1]

theorem eq_mds_multiply_s_s_14 (state_h_2_2 : Nat) (state_l_2_2 : Nat) :
    Gen.Mds12.mds_multiply.s_s_14 state_h_2_2 state_l_2_2 =
      (state_l_2_2 + (state_h_2_2 * 4294967296 % 340282366920938463463374607431768211456)) := by
  rw [Gen.Mds12.mds_multiply.s_s_14]

theorem eq_mds_multiply_s_s_hi_2 (s_14 : Nat) :
    Gen.Mds12.mds_multiply.s_s_hi_2 s_14 =
      ((s_14 / 18446744073709551616) % 18446744073709551616) := by
  rw [Gen.Mds12.mds_multiply.s_s_hi_2]

theorem eq_mds_multiply_s_s_lo_2 (s_14 : Nat) :
    Gen.Mds12.mds_multiply.s_s_lo_2 s_14 =
      (s_14 % 18446744073709551616) := by
  rw [Gen.Mds12.mds_multiply.s_s_lo_2]

theorem eq_mds_multiply_s_z_2 (s_hi_2 : Nat) :
    Gen.Mds12.mds_multiply.s_z_2 s_hi_2 =
      ((s_hi_2 * 4294967296 % 18446744073709551616) - s_hi_2) := by
  rw [Gen.Mds12.mds_multiply.s_z_2]

theorem eq_mds_multiply_s_res_2 (s_lo_2 : Nat) (z_2 : Nat) :
    Gen.Mds12.mds_multiply.s_res_2 s_lo_2 z_2 =
      ((s_lo_2 + z_2) % 18446744073709551616) := by
  rw [Gen.Mds12.mds_multiply.s_res_2]

theorem eq_mds_multiply_s_over_2 (s_lo_2 : Nat) (z_2 : Nat) :
    Gen.Mds12.mds_multiply.s_over_2 s_lo_2 z_2 =
      (decide (18446744073709551616 ≤ s_lo_2 + z_2)) := by
  rw [Gen.Mds12.mds_multiply.s_over_2]

theorem eq_mds_multiply_s_result_2_1 (res_2 : Nat) (over_2 : Bool) :
    Gen.Mds12.mds_multiply.s_result_2_1 res_2 over_2 =
      ((res_2 + ((0 + 4294967296 - (if over_2 = true then 1 else 0)) % 4294967296)) % 18446744073709551616) := by
  rw [Gen.Mds12.mds_multiply.s_result_2_1]

theorem eq_mds_multiply_s_s_15 (state_h_3_2 : Nat) (state_l_3_2 : Nat) :
    Gen.Mds12.mds_multiply.s_s_15 state_h_3_2 state_l_3_2 =
      (state_l_3_2 + (state_h_3_2 * 4294967296 % 340282366920938463463374607431768211456)) := by
  rw [Gen.Mds12.mds_multiply.s_s_15]

theorem eq_mds_multiply_s_s_hi_3 (s_15 : Nat) :
    Gen.Mds12.mds_multiply.s_s_hi_3 s_15 =
      ((s_15 / 18446744073709551616) % 18446744073709551616) := by
  rw [Gen.Mds12.mds_multiply.s_s_hi_3]

theorem eq_mds_multiply_s_s_lo_3 (s_15 : Nat) :
    Gen.Mds12.mds_multiply.s_s_lo_3 s_15 =
      (s_15 % 18446744073709551616) := by
  rw [Gen.Mds12.mds_multiply.s_s_lo_3]

theorem eq_mds_multiply_s_z_3 (s_hi_3 : Nat) :
    Gen.Mds12.mds_multiply.s_z_3 s_hi_3 =
      ((s_hi_3 * 4294967296 % 18446744073709551616) - s_hi_3) := by
  rw [Gen.Mds12.mds_multiply.s_z_3]

theorem eq_mds_multiply_s_res_3 (s_lo_3 : Nat) (z_3 : Nat) :
    Gen.Mds12.mds_multiply.s_res_3 s_lo_3 z_3 =
      ((s_lo_3 + z_3) % 18446744073709551616) := by
  rw [Gen.Mds12.mds_multiply.s_res_3]

theorem eq_mds_multiply_s_over_3 (s_lo_3 : Nat) (z_3 : Nat) :
    Gen.Mds12.mds_multiply.s_over_3 s_lo_3 z_3 =
      (decide (18446744073709551616 ≤ s_lo_3 + z_3)) := by
  rw [Gen.Mds12.mds_multiply.s_over_3]

theorem eq_mds_multiply_s_result_3_1 (res_3 : Nat) (over_3 : Bool) :
    Gen.Mds12.mds_multiply.s_result_3_1 res_3 over_3 =
      ((res_3 + ((0 + 4294967296 - (if over_3 = true then 1 else 0)) % 4294967296)) % 18446744073709551616) := by
  rw [Gen.Mds12.mds_multiply.s_result_3_1]

theorem eq_mds_multiply_s_s_16 (state_h_4_2 : Nat) (state_l_4_2 : Nat) :
    Gen.Mds12.mds_multiply.s_s_16 state_h_4_2 state_l_4_2 =
      (state_l_4_2 + (state_h_4_2 * 4294967296 % 340282366920938463463374607431768211456)) := by
  rw [Gen.Mds12.mds_multiply.s_s_16]

theorem eq_mds_multiply_s_s_hi_4 (s_16 : Nat) :
    Gen.Mds12.mds_multiply.s_s_hi_4 s_16 =
      ((s_16 / 18446744073709551616) % 18446744073709551616) := by
  rw [Gen.Mds12.mds_multiply.s_s_hi_4]

theorem eq_mds_multiply_s_s_lo_4 (s_16 : Nat) :
    Gen.Mds12.mds_multiply.s_s_lo_4 s_16 =
      (s_16 % 18446744073709551616) := by
  rw [Gen.Mds12.mds_multiply.s_s_lo_4]

theorem eq_mds_multiply_s_z_4 (s_hi_4 : Nat) :
    Gen.Mds12.mds_multiply.s_z_4 s_hi_4 =
      ((s_hi_4 * 4294967296 % 18446744073709551616) - s_hi_4) := by
  rw [Gen.Mds12.mds_multiply.s_z_4]

theorem eq_mds_multiply_s_res_4 (s_lo_4 : Nat) (z_4 : Nat) :
    Gen.Mds12.mds_multiply.s_res_4 s_lo_4 z_4 =
      ((s_lo_4 + z_4) % 18446744073709551616) := by
  rw [Gen.Mds12.mds_multiply.s_res_4]

theorem eq_mds_multiply_s_over_4 (s_lo_4 : Nat) (z_4 : Nat) :
    Gen.Mds12.mds_multiply.s_over_4 s_lo_4 z_4 =
      (decide (18446744073709551616 ≤ s_lo_4 + z_4)) := by
  rw [Gen.Mds12.mds_multiply.s_over_4]

theorem eq_mds_multiply_s_result_4_1 (res_4 : Nat) (over_4 : Bool) :
    Gen.Mds12.mds_multiply.s_result_4_1 res_4 over_4 =
      ((res_4 + ((0 + 4294967296 - (if over_4 = true then 1 else 0)) % 4294967296)) % 18446744073709551616) := by
  rw [Gen.Mds12.mds_multiply.s_result_4_1]

theorem eq_mds_multiply_s_s_17 (state_h_5_2 : Nat) (state_l_5_2 : Nat) :
    Gen.Mds12.mds_multiply.s_s_17 state_h_5_2 state_l_5_2 =
      (state_l_5_2 + (state_h_5_2 * 4294967296 % 340282366920938463463374607431768211456)) := by
  rw [Gen.Mds12.mds_multiply.s_s_17]

theorem eq_mds_multiply_s_s_hi_5 (s_17 : Nat) :
    Gen.Mds12.mds_multiply.s_s_hi_5 s_17 =
      ((s_17 / 18446744073709551616) % 18446744073709551616) := by
  rw [Gen.Mds12.mds_multiply.s_s_hi_5]

theorem eq_mds_multiply_s_s_lo_5 (s_17 : Nat) :
    Gen.Mds12.mds_multiply.s_s_lo_5 s_17 =
      (s_17 % 18446744073709551616) := by
  rw [Gen.Mds12.mds_multiply.s_s_lo_5]

theorem eq_mds_multiply_s_z_5 (s_hi_5 : Nat) :
    Gen.Mds12.mds_multiply.s_z_5 s_hi_5 =
      ((s_hi_5 * 4294967296 % 18446744073709551616) - s_hi_5) := by
  rw [Gen.Mds12.mds_multiply.s_z_5]

theorem eq_mds_multiply_s_res_5 (s_lo_5 : Nat) (z_5 : Nat) :
    Gen.Mds12.mds_multiply.s_res_5 s_lo_5 z_5 =
      ((s_lo_5 + z_5) % 18446744073709551616) := by
  rw [Gen.Mds12.mds_multiply.s_res_5]

theorem eq_mds_multiply_s_over_5 (s_lo_5 : Nat) (z_5 : Nat) :
    Gen.Mds12.mds_multiply.s_over_5 s_lo_5 z_5 =
      (decide (18446744073709551616 ≤ s_lo_5 + z_5)) := by
  rw [Gen.Mds12.mds_multiply.s_over_5]

theorem eq_mds_multiply_s_result_5_1 (res_5 : Nat) (over_5 : Bool) :
    Gen.Mds12.mds_multiply.s_result_5_1 res_5 over_5 =
      ((res_5 + ((0 + 4294967296 - (if over_5 = true then 1 else 0)) % 4294967296)) % 18446744073709551616) := by
  rw [Gen.Mds12.mds_multiply.s_result_5_1]

theorem eq_mds_multiply_s_s_18 (state_h_6_2 : Nat) (state_l_6_2 : Nat) :
    Gen.Mds12.mds_multiply.s_s_18 state_h_6_2 state_l_6_2 =
      (state_l_6_2 + (state_h_6_2 * 4294967296 % 340282366920938463463374607431768211456)) := by
  rw [Gen.Mds12.mds_multiply.s_s_18]

theorem eq_mds_multiply_s_s_hi_6 (s_18 : Nat) :
    Gen.Mds12.mds_multiply.s_s_hi_6 s_18 =
      ((s_18 / 18446744073709551616) % 18446744073709551616) := by
  rw [Gen.Mds12.mds_multiply.s_s_hi_6]

theorem eq_mds_multiply_s_s_lo_6 (s_18 : Nat) :
    Gen.Mds12.mds_multiply.s_s_lo_6 s_18 =
      (s_18 % 18446744073709551616) := by
  rw [Gen.Mds12.mds_multiply.s_s_lo_6]

theorem eq_mds_multiply_s_z_6 (s_hi_6 : Nat) :
    Gen.Mds12.mds_multiply.s_z_6 s_hi_6 =
      ((s_hi_6 * 4294967296 % 18446744073709551616) - s_hi_6) := by
  rw [Gen.Mds12.mds_multiply.s_z_6]

theorem eq_mds_multiply_s_res_6 (s_lo_6 : Nat) (z_6 : Nat) :
    Gen.Mds12.mds_multiply.s_res_6 s_lo_6 z_6 =
      ((s_lo_6 + z_6) % 18446744073709551616) := by
  rw [Gen.Mds12.mds_multiply.s_res_6]

theorem eq_mds_multiply_s_over_6 (s_lo_6 : Nat) (z_6 : Nat) :
    Gen.Mds12.mds_multiply.s_over_6 s_lo_6 z_6 =
      (decide (18446744073709551616 ≤ s_lo_6 + z_6)) := by
  rw [Gen.Mds12.mds_multiply.s_over_6]

theorem eq_mds_multiply_s_result_6_1 (res_6 : Nat) (over_6 : Bool) :
    Gen.Mds12.mds_multiply.s_result_6_1 res_6 over_6 =
      ((res_6 + ((0 + 4294967296 - (if over_6 = true then 1 else 0)) % 4294967296)) % 18446744073709551616) := by
  rw [Gen.Mds12.mds_multiply.s_result_6_1]

theorem eq_mds_multiply_s_s_19 (state_h_7_2 : Nat) (state_l_7_2 : Nat) :
    Gen.Mds12.mds_multiply.s_s_19 state_h_7_2 state_l_7_2 =
      (state_l_7_2 + (state_h_7_2 * 4294967296 % 340282366920938463463374607431768211456)) := by
  rw [Gen.Mds12.mds_multiply.s_s_19]

theorem eq_mds_multiply_s_s_hi_7 (s_19 : Nat) :
    Gen.Mds12.mds_multiply.s_s_hi_7 s_19 =
      ((s_19 / 18446744073709551616) % 18446744073709551616) := by
  rw [Gen.Mds12.mds_multiply.s_s_hi_7]

theorem eq_mds_multiply_s_s_lo_7 (s_19 : Nat) :
    Gen.Mds12.mds_multiply.s_s_lo_7 s_19 =
      (s_19 % 18446744073709551616) := by
  rw [Gen.Mds12.mds_multiply.s_s_lo_7]

theorem eq_mds_multiply_s_z_7 (s_hi_7 : Nat) :
    Gen.Mds12.mds_multiply.s_z_7 s_hi_7 =
      ((s_hi_7 * 4294967296 % 18446744073709551616) - s_hi_7) := by
  rw [Gen.Mds12.mds_multiply.s_z_7]

theorem eq_mds_multiply_s_res_7 (s_lo_7 : Nat) (z_7 : Nat) :
    Gen.Mds12.mds_multiply.s_res_7 s_lo_7 z_7 =
      ((s_lo_7 + z_7) % 18446744073709551616) := by
  rw [Gen.Mds12.mds_multiply.s_res_7]

theorem eq_mds_multiply_s_over_7 (s_lo_7 : Nat) (z_7 : Nat) :
    Gen.Mds12.mds_multiply.s_over_7 s_lo_7 z_7 =
      (decide (18446744073709551616 ≤ s_lo_7 + z_7)) := by
  rw [Gen.Mds12.mds_multiply.s_over_7]

theorem eq_mds_multiply_s_result_7_1 (res_7 : Nat) (over_7 : Bool) :
    Gen.Mds12.mds_multiply.s_result_7_1 res_7 over_7 =
      ((res_7 + ((0 + 4294967296 - (if over_7 = true then 1 else 0)) % 4294967296)) % 18446744073709551616) := by
  rw [Gen.Mds12.mds_multiply.s_result_7_1]

theorem eq_mds_multiply_s_s_20 (state_h_8_2 : Nat) (state_l_8_2 : Nat) :
    Gen.Mds12.mds_multiply.s_s_20 state_h_8_2 state_l_8_2 =
      (state_l_8_2 + (state_h_8_2 * 4294967296 % 340282366920938463463374607431768211456)) := by
  rw [Gen.Mds12.mds_multiply.s_s_20]

theorem eq_mds_multiply_s_s_hi_8 (s_20 : Nat) :
    Gen.Mds12.mds_multiply.s_s_hi_8 s_20 =
      ((s_20 / 18446744073709551616) % 18446744073709551616) := by
  rw [Gen.Mds12.mds_multiply.s_s_hi_8]

theorem eq_mds_multiply_s_s_lo_8 (s_20 : Nat) :
    Gen.Mds12.mds_multiply.s_s_lo_8 s_20 =
      (s_20 % 18446744073709551616) := by
  rw [Gen.Mds12.mds_multiply.s_s_lo_8]

theorem eq_mds_multiply_s_z_8 (s_hi_8 : Nat) :
    Gen.Mds12.mds_multiply.s_z_8 s_hi_8 =
      ((s_hi_8 * 4294967296 % 18446744073709551616) - s_hi_8) := by
  rw [Gen.Mds12.mds_multiply.s_z_8]

theorem eq_mds_multiply_s_res_8 (s_lo_8 : Nat) (z_8 : Nat) :
    Gen.Mds12.mds_multiply.s_res_8 s_lo_8 z_8 =
      ((s_lo_8 + z_8) % 18446744073709551616) := by
  rw [Gen.Mds12.mds_multiply.s_res_8]

theorem eq_mds_multiply_s_over_8 (s_lo_8 : Nat) (z_8 : Nat) :
    Gen.Mds12.mds_multiply.s_over_8 s_lo_8 z_8 =
      (decide (18446744073709551616 ≤ s_lo_8 + z_8)) := by
  rw [Gen.Mds12.mds_multiply.s_over_8]

theorem eq_mds_multiply_s_result_8_1 (res_8 : Nat) (over_8 : Bool) :
    Gen.Mds12.mds_multiply.s_result_8_1 res_8 over_8 =
      ((res_8 + ((0 + 4294967296 - (if over_8 = true then 1 else 0)) % 4294967296)) % 18446744073709551616) := by
  rw [Gen.Mds12.mds_multiply.s_result_8_1]

theorem eq_mds_multiply_s_s_21 (state_h_9_2 : Nat) (state_l_9_2 : Nat) :
    Gen.Mds12.mds_multiply.s_s_21 state_h_9_2 state_l_9_2 =
      (state_l_9_2 + (state_h_9_2 * 4294967296 % 340282366920938463463374607431768211456)) := by
  rw [Gen.Mds12.mds_multiply.s_s_21]

theorem eq_mds_multiply_s_s_hi_9 (s_21 : Nat) :
    Gen.Mds12.mds_multiply.s_s_hi_9 s_21 =
      ((s_21 / 18446744073709551616) % 18446744073709551616) := by
  rw [Gen.Mds12.mds_multiply.s_s_hi_9]

theorem eq_mds_multiply_s_s_lo_9 (s_21 : Nat) :
    Gen.Mds12.mds_multiply.s_s_lo_9 s_21 =
      (s_21 % 18446744073709551616) := by
  rw [Gen.Mds12.mds_multiply.s_s_lo_9]

theorem eq_mds_multiply_s_z_9 (s_hi_9 : Nat) :
    Gen.Mds12.mds_multiply.s_z_9 s_hi_9 =
      ((s_hi_9 * 4294967296 % 18446744073709551616) - s_hi_9) := by
  rw [Gen.Mds12.mds_multiply.s_z_9]

theorem eq_mds_multiply_s_res_9 (s_lo_9 : Nat) (z_9 : Nat) :
    Gen.Mds12.mds_multiply.s_res_9 s_lo_9 z_9 =
      ((s_lo_9 + z_9) % 18446744073709551616) := by
  rw [Gen.Mds12.mds_multiply.s_res_9]

theorem eq_mds_multiply_s_over_9 (s_lo_9 : Nat) (z_9 : Nat) :
    Gen.Mds12.mds_multiply.s_over_9 s_lo_9 z_9 =
      (decide (18446744073709551616 ≤ s_lo_9 + z_9)) := by
  rw [Gen.Mds12.mds_multiply.s_over_9]

theorem eq_mds_multiply_s_result_9_1 (res_9 : Nat) (over_9 : Bool) :
    Gen.Mds12.mds_multiply.s_result_9_1 res_9 over_9 =
      ((res_9 + ((0 + 4294967296 - (if over_9 = true then 1 else 0)) % 4294967296)) % 18446744073709551616) := by
  rw [Gen.Mds12.mds_multiply.s_result_9_1]

theorem eq_mds_multiply_s_s_22 (state_h_10_2 : Nat) (state_l_10_2 : Nat) :
    Gen.Mds12.mds_multiply.s_s_22 state_h_10_2 state_l_10_2 =
      (state_l_10_2 + (state_h_10_2 * 4294967296 % 340282366920938463463374607431768211456)) := by
  rw [Gen.Mds12.mds_multiply.s_s_22]

theorem eq_mds_multiply_s_s_hi_10 (s_22 : Nat) :
    Gen.Mds12.mds_multiply.s_s_hi_10 s_22 =
      ((s_22 / 18446744073709551616) % 18446744073709551616) := by
  rw [Gen.Mds12.mds_multiply.s_s_hi_10]

theorem eq_mds_multiply_s_s_lo_10 (s_22 : Nat) :
    Gen.Mds12.mds_multiply.s_s_lo_10 s_22 =
      (s_22 % 18446744073709551616) := by
  rw [Gen.Mds12.mds_multiply.s_s_lo_10]

theorem eq_mds_multiply_s_z_10 (s_hi_10 : Nat) :
    Gen.Mds12.mds_multiply.s_z_10 s_hi_10 =
      ((s_hi_10 * 4294967296 % 18446744073709551616) - s_hi_10) := by
  rw [Gen.Mds12.mds_multiply.s_z_10]

theorem eq_mds_multiply_s_res_10 (s_lo_10 : Nat) (z_10 : Nat) :
    Gen.Mds12.mds_multiply.s_res_10 s_lo_10 z_10 =
      ((s_lo_10 + z_10) % 18446744073709551616) := by
  rw [Gen.Mds12.mds_multiply.s_res_10]

theorem eq_mds_multiply_s_over_10 (s_lo_10 : Nat) (z_10 : Nat) :
    Gen.Mds12.mds_multiply.s_over_10 s_lo_10 z_10 =
      (decide (18446744073709551616 ≤ s_lo_10 + z_10)) := by
  rw [Gen.Mds12.mds_multiply.s_over_10]

theorem eq_mds_multiply_s_result_10_1 (res_10 : Nat) (over_10 : Bool) :
    Gen.Mds12.mds_multiply.s_result_10_1 res_10 over_10 =
      ((res_10 + ((0 + 4294967296 - (if over_10 = true then 1 else 0)) % 4294967296)) % 18446744073709551616) := by
  rw [Gen.Mds12.mds_multiply.s_result_10_1]

theorem eq_mds_multiply_s_s_23 (state_h_11_2 : Nat) (state_l_11_2 : Nat) :
    Gen.Mds12.mds_multiply.s_s_23 state_h_11_2 state_l_11_2 =
      (state_l_11_2 + (state_h_11_2 * 4294967296 % 340282366920938463463374607431768211456)) := by
  rw [Gen.Mds12.mds_multiply.s_s_23]

theorem eq_mds_multiply_s_s_hi_11 (s_23 : Nat) :
    Gen.Mds12.mds_multiply.s_s_hi_11 s_23 =
      ((s_23 / 18446744073709551616) % 18446744073709551616) := by
  rw [Gen.Mds12.mds_multiply.s_s_hi_11]

theorem eq_mds_multiply_s_s_lo_11 (s_23 : Nat) :
    Gen.Mds12.mds_multiply.s_s_lo_11 s_23 =
      (s_23 % 18446744073709551616) := by
  rw [Gen.Mds12.mds_multiply.s_s_lo_11]

theorem eq_mds_multiply_s_z_11 (s_hi_11 : Nat) :
    Gen.Mds12.mds_multiply.s_z_11 s_hi_11 =
      ((s_hi_11 * 4294967296 % 18446744073709551616) - s_hi_11) := by
  rw [Gen.Mds12.mds_multiply.s_z_11]

theorem eq_mds_multiply_s_res_11 (s_lo_11 : Nat) (z_11 : Nat) :
    Gen.Mds12.mds_multiply.s_res_11 s_lo_11 z_11 =
      ((s_lo_11 + z_11) % 18446744073709551616) := by
  rw [Gen.Mds12.mds_multiply.s_res_11]

theorem eq_mds_multiply_s_over_11 (s_lo_11 : Nat) (z_11 : Nat) :
    Gen.Mds12.mds_multiply.s_over_11 s_lo_11 z_11 =
      (decide (18446744073709551616 ≤ s_lo_11 + z_11)) := by
  rw [Gen.Mds12.mds_multiply.s_over_11]

theorem eq_mds_multiply_s_result_11_1 (res_11 : Nat) (over_11 : Bool) :
    Gen.Mds12.mds_multiply.s_result_11_1 res_11 over_11 =
      ((res_11 + ((0 + 4294967296 - (if over_11 = true then 1 else 0)) % 4294967296)) % 18446744073709551616) := by
  rw [Gen.Mds12.mds_multiply.s_result_11_1]

theorem eq_mds_multiply_s_state_0_1 (result_0_1 : Nat) :
    Gen.Mds12.mds_multiply.s_state_0_1 result_0_1 =
      (result_0_1) := by
  rw [Gen.Mds12.mds_multiply.s_state_0_1]

theorem eq_mds_multiply_s_state_1_1 (result_1_1 : Nat) :
    Gen.Mds12.mds_multiply.s_state_1_1 result_1_1 =
      (result_1_1) := by
  rw [Gen.Mds12.mds_multiply.s_state_1_1]

theorem eq_mds_multiply_s_state_2_1 (result_2_1 : Nat) :
    Gen.Mds12.mds_multiply.s_state_2_1 result_2_1 =
      (result_2_1) := by
  rw [Gen.Mds12.mds_multiply.s_state_2_1]

theorem eq_mds_multiply_s_state_3_1 (result_3_1 : Nat) :
    Gen.Mds12.mds_multiply.s_state_3_1 result_3_1 =
      (result_3_1) := by
  rw [Gen.Mds12.mds_multiply.s_state_3_1]

theorem eq_mds_multiply_s_state_4_1 (result_4_1 : Nat) :
    Gen.Mds12.mds_multiply.s_state_4_1 result_4_1 =
      (result_4_1) := by
  rw [Gen.Mds12.mds_multiply.s_state_4_1]

theorem eq_mds_multiply_s_state_5_1 (result_5_1 : Nat) :
    Gen.Mds12.mds_multiply.s_state_5_1 result_5_1 =
      (result_5_1) := by
  rw [Gen.Mds12.mds_multiply.s_state_5_1]

theorem eq_mds_multiply_s_state_6_1 (result_6_1 : Nat) :
    Gen.Mds12.mds_multiply.s_state_6_1 result_6_1 =
      (result_6_1) := by
  rw [Gen.Mds12.mds_multiply.s_state_6_1]

theorem eq_mds_multiply_s_state_7_1 (result_7_1 : Nat) :
    Gen.Mds12.mds_multiply.s_state_7_1 result_7_1 =
      (result_7_1) := by
  rw [Gen.Mds12.mds_multiply.s_state_7_1]

theorem eq_mds_multiply_s_state_8_1 (result_8_1 : Nat) :
    Gen.Mds12.mds_multiply.s_state_8_1 result_8_1 =
      (result_8_1) := by
  rw [Gen.Mds12.mds_multiply.s_state_8_1]

theorem eq_mds_multiply_s_state_9_1 (result_9_1 : Nat) :
    Gen.Mds12.mds_multiply.s_state_9_1 result_9_1 =
      (result_9_1) := by
  rw [Gen.Mds12.mds_multiply.s_state_9_1]

theorem eq_mds_multiply_s_state_10_1 (result_10_1 : Nat) :
    Gen.Mds12.mds_multiply.s_state_10_1 result_10_1 =
      (result_10_1) := by
  rw [Gen.Mds12.mds_multiply.s_state_10_1]

theorem eq_mds_multiply_s_state_11_1 (result_11_1 : Nat) :
    Gen.Mds12.mds_multiply.s_state_11_1 result_11_1 =
      (result_11_1) := by
  rw [Gen.Mds12.mds_multiply.s_state_11_1]

theorem eq_mds_multiply (state_0 : Nat) (state_1 : Nat) (state_2 : Nat) (state_3 : Nat) (state_4 : Nat) (state_5 : Nat) (state_6 : Nat) (state_7 : Nat) (state_8 : Nat) (state_9 : Nat) (state_10 : Nat) (state_11 : Nat) :
    Gen.Mds12.mds_multiply state_0 state_1 state_2 state_3 state_4 state_5 state_6 state_7 state_8 state_9 state_10 state_11 =
      (let result_0 := mds_multiply.s_result_0 
  let result_1 := mds_multiply.s_result_1 
  let result_2 := mds_multiply.s_result_2 
  let result_3 := mds_multiply.s_result_3 
  let result_4 := mds_multiply.s_result_4 
  let result_5 := mds_multiply.s_result_5 
  let result_6 := mds_multiply.s_result_6 
  let result_7 := mds_multiply.s_result_7 
  let result_8 := mds_multiply.s_result_8 
  let result_9 := mds_multiply.s_result_9 
  let result_10 := mds_multiply.s_result_10 
  let result_11 := mds_multiply.s_result_11 
  let state_l_0 := mds_multiply.s_state_l_0 
  let state_l_1 := mds_multiply.s_state_l_1 
  let state_l_2 := mds_multiply.s_state_l_2 
  let state_l_3 := mds_multiply.s_state_l_3 
  let state_l_4 := mds_multiply.s_state_l_4 
  let state_l_5 := mds_multiply.s_state_l_5 
  let state_l_6 := mds_multiply.s_state_l_6 
  let state_l_7 := mds_multiply.s_state_l_7 
  let state_l_8 := mds_multiply.s_state_l_8 
  let state_l_9 := mds_multiply.s_state_l_9 
  let state_l_10 := mds_multiply.s_state_l_10 
  let state_l_11 := mds_multiply.s_state_l_11 
  let state_h_0 := mds_multiply.s_state_h_0 
  let state_h_1 := mds_multiply.s_state_h_1 
  let state_h_2 := mds_multiply.s_state_h_2 
  let state_h_3 := mds_multiply.s_state_h_3 
  let state_h_4 := mds_multiply.s_state_h_4 
  let state_h_5 := mds_multiply.s_state_h_5 
  let state_h_6 := mds_multiply.s_state_h_6 
  let state_h_7 := mds_multiply.s_state_h_7 
  let state_h_8 := mds_multiply.s_state_h_8 
  let state_h_9 := mds_multiply.s_state_h_9 
  let state_h_10 := mds_multiply.s_state_h_10 
  let state_h_11 := mds_multiply.s_state_h_11 
  let s := mds_multiply.s_s state_0
  let state_h_0_1 := mds_multiply.s_state_h_0_1 s
  let state_l_0_1 := mds_multiply.s_state_l_0_1 s
  let s_1 := mds_multiply.s_s_1 state_1
  let state_h_1_1 := mds_multiply.s_state_h_1_1 s_1
  let state_l_1_1 := mds_multiply.s_state_l_1_1 s_1
  let s_2 := mds_multiply.s_s_2 state_2
  let state_h_2_1 := mds_multiply.s_state_h_2_1 s_2
  let state_l_2_1 := mds_multiply.s_state_l_2_1 s_2
  let s_3 := mds_multiply.s_s_3 state_3
  let state_h_3_1 := mds_multiply.s_state_h_3_1 s_3
  let state_l_3_1 := mds_multiply.s_state_l_3_1 s_3
  let s_4 := mds_multiply.s_s_4 state_4
  let state_h_4_1 := mds_multiply.s_state_h_4_1 s_4
  let state_l_4_1 := mds_multiply.s_state_l_4_1 s_4
  let s_5 := mds_multiply.s_s_5 state_5
  let state_h_5_1 := mds_multiply.s_state_h_5_1 s_5
  let state_l_5_1 := mds_multiply.s_state_l_5_1 s_5
  let s_6 := mds_multiply.s_s_6 state_6
  let state_h_6_1 := mds_multiply.s_state_h_6_1 s_6
  let state_l_6_1 := mds_multiply.s_state_l_6_1 s_6
  let s_7 := mds_multiply.s_s_7 state_7
  let state_h_7_1 := mds_multiply.s_state_h_7_1 s_7
  let state_l_7_1 := mds_multiply.s_state_l_7_1 s_7
  let s_8 := mds_multiply.s_s_8 state_8
  let state_h_8_1 := mds_multiply.s_state_h_8_1 s_8
  let state_l_8_1 := mds_multiply.s_state_l_8_1 s_8
  let s_9 := mds_multiply.s_s_9 state_9
  let state_h_9_1 := mds_multiply.s_state_h_9_1 s_9
  let state_l_9_1 := mds_multiply.s_state_l_9_1 s_9
  let s_10 := mds_multiply.s_s_10 state_10
  let state_h_10_1 := mds_multiply.s_state_h_10_1 s_10
  let state_l_10_1 := mds_multiply.s_state_l_10_1 s_10
  let s_11 := mds_multiply.s_s_11 state_11
  let state_h_11_1 := mds_multiply.s_state_h_11_1 s_11
  let state_l_11_1 := mds_multiply.s_state_l_11_1 s_11
  let r := mds_multiply.s_r state_h_0_1 state_h_1_1 state_h_2_1 state_h_3_1 state_h_4_1 state_h_5_1 state_h_6_1 state_h_7_1 state_h_8_1 state_h_9_1 state_h_10_1 state_h_11_1
  let state_h_0_2 := mds_multiply.s_state_h_0_2 r
  let state_h_1_2 := mds_multiply.s_state_h_1_2 r
  let state_h_2_2 := mds_multiply.s_state_h_2_2 r
  let state_h_3_2 := mds_multiply.s_state_h_3_2 r
  let state_h_4_2 := mds_multiply.s_state_h_4_2 r
  let state_h_5_2 := mds_multiply.s_state_h_5_2 r
  let state_h_6_2 := mds_multiply.s_state_h_6_2 r
  let state_h_7_2 := mds_multiply.s_state_h_7_2 r
  let state_h_8_2 := mds_multiply.s_state_h_8_2 r
  let state_h_9_2 := mds_multiply.s_state_h_9_2 r
  let state_h_10_2 := mds_multiply.s_state_h_10_2 r
  let state_h_11_2 := mds_multiply.s_state_h_11_2 r
  let r_1 := mds_multiply.s_r_1 state_l_0_1 state_l_1_1 state_l_2_1 state_l_3_1 state_l_4_1 state_l_5_1 state_l_6_1 state_l_7_1 state_l_8_1 state_l_9_1 state_l_10_1 state_l_11_1
  let state_l_0_2 := mds_multiply.s_state_l_0_2 r_1
  let state_l_1_2 := mds_multiply.s_state_l_1_2 r_1
  let state_l_2_2 := mds_multiply.s_state_l_2_2 r_1
  let state_l_3_2 := mds_multiply.s_state_l_3_2 r_1
  let state_l_4_2 := mds_multiply.s_state_l_4_2 r_1
  let state_l_5_2 := mds_multiply.s_state_l_5_2 r_1
  let state_l_6_2 := mds_multiply.s_state_l_6_2 r_1
  let state_l_7_2 := mds_multiply.s_state_l_7_2 r_1
  let state_l_8_2 := mds_multiply.s_state_l_8_2 r_1
  let state_l_9_2 := mds_multiply.s_state_l_9_2 r_1
  let state_l_10_2 := mds_multiply.s_state_l_10_2 r_1
  let state_l_11_2 := mds_multiply.s_state_l_11_2 r_1
  let s_12 := mds_multiply.s_s_12 state_h_0_2 state_l_0_2
  let s_hi := mds_multiply.s_s_hi s_12
  let s_lo := mds_multiply.s_s_lo s_12
  let z := mds_multiply.s_z s_hi
  let res := mds_multiply.s_res s_lo z
  let over := mds_multiply.s_over s_lo z
  let result_0_1 := mds_multiply.s_result_0_1 res over
  let s_13 := mds_multiply.s_s_13 state_h_1_2 state_l_1_2
  let s_hi_1 := mds_multiply.s_s_hi_1 s_13
  let s_lo_1 := mds_multiply.s_s_lo_1 s_13
  let z_1 := mds_multiply.s_z_1 s_hi_1
  let res_1 := mds_multiply.s_res_1 s_lo_1 z_1
  let over_1 := mds_multiply.s_over_1 s_lo_1 z_1
  let result_1_1 := mds_multiply.s_result_1_1 res_1 over_1
  let s_14 := mds_multiply.s_s_14 state_h_2_2 state_l_2_2
  let s_hi_2 := mds_multiply.s_s_hi_2 s_14
  let s_lo_2 := mds_multiply.s_s_lo_2 s_14
  let z_2 := mds_multiply.s_z_2 s_hi_2
  let res_2 := mds_multiply.s_res_2 s_lo_2 z_2
  let over_2 := mds_multiply.s_over_2 s_lo_2 z_2
  let result_2_1 := mds_multiply.s_result_2_1 res_2 over_2
  let s_15 := mds_multiply.s_s_15 state_h_3_2 state_l_3_2
  let s_hi_3 := mds_multiply.s_s_hi_3 s_15
  let s_lo_3 := mds_multiply.s_s_lo_3 s_15
  let z_3 := mds_multiply.s_z_3 s_hi_3
  let res_3 := mds_multiply.s_res_3 s_lo_3 z_3
  let over_3 := mds_multiply.s_over_3 s_lo_3 z_3
  let result_3_1 := mds_multiply.s_result_3_1 res_3 over_3
  let s_16 := mds_multiply.s_s_16 state_h_4_2 state_l_4_2
  let s_hi_4 := mds_multiply.s_s_hi_4 s_16
  let s_lo_4 := mds_multiply.s_s_lo_4 s_16
  let z_4 := mds_multiply.s_z_4 s_hi_4
  let res_4 := mds_multiply.s_res_4 s_lo_4 z_4
  let over_4 := mds_multiply.s_over_4 s_lo_4 z_4
  let result_4_1 := mds_multiply.s_result_4_1 res_4 over_4
  let s_17 := mds_multiply.s_s_17 state_h_5_2 state_l_5_2
  let s_hi_5 := mds_multiply.s_s_hi_5 s_17
  let s_lo_5 := mds_multiply.s_s_lo_5 s_17
  let z_5 := mds_multiply.s_z_5 s_hi_5
  let res_5 := mds_multiply.s_res_5 s_lo_5 z_5
  let over_5 := mds_multiply.s_over_5 s_lo_5 z_5
  let result_5_1 := mds_multiply.s_result_5_1 res_5 over_5
  let s_18 := mds_multiply.s_s_18 state_h_6_2 state_l_6_2
  let s_hi_6 := mds_multiply.s_s_hi_6 s_18
  let s_lo_6 := mds_multiply.s_s_lo_6 s_18
  let z_6 := mds_multiply.s_z_6 s_hi_6
  let res_6 := mds_multiply.s_res_6 s_lo_6 z_6
  let over_6 := mds_multiply.s_over_6 s_lo_6 z_6
  let result_6_1 := mds_multiply.s_result_6_1 res_6 over_6
  let s_19 := mds_multiply.s_s_19 state_h_7_2 state_l_7_2
  let s_hi_7 := mds_multiply.s_s_hi_7 s_19
  let s_lo_7 := mds_multiply.s_s_lo_7 s_19
  let z_7 := mds_multiply.s_z_7 s_hi_7
  let res_7 := mds_multiply.s_res_7 s_lo_7 z_7
  let over_7 := mds_multiply.s_over_7 s_lo_7 z_7
  let result_7_1 := mds_multiply.s_result_7_1 res_7 over_7
  let s_20 := mds_multiply.s_s_20 state_h_8_2 state_l_8_2
  let s_hi_8 := mds_multiply.s_s_hi_8 s_20
  let s_lo_8 := mds_multiply.s_s_lo_8 s_20
  let z_8 := mds_multiply.s_z_8 s_hi_8
  let res_8 := mds_multiply.s_res_8 s_lo_8 z_8
  let over_8 := mds_multiply.s_over_8 s_lo_8 z_8
  let result_8_1 := mds_multiply.s_result_8_1 res_8 over_8
  let s_21 := mds_multiply.s_s_21 state_h_9_2 state_l_9_2
  let s_hi_9 := mds_multiply.s_s_hi_9 s_21
  let s_lo_9 := mds_multiply.s_s_lo_9 s_21
  let z_9 := mds_multiply.s_z_9 s_hi_9
  let res_9 := mds_multiply.s_res_9 s_lo_9 z_9
  let over_9 := mds_multiply.s_over_9 s_lo_9 z_9
  let result_9_1 := mds_multiply.s_result_9_1 res_9 over_9
  let s_22 := mds_multiply.s_s_22 state_h_10_2 state_l_10_2
  let s_hi_10 := mds_multiply.s_s_hi_10 s_22
  let s_lo_10 := mds_multiply.s_s_lo_10 s_22
  let z_10 := mds_multiply.s_z_10 s_hi_10
  let res_10 := mds_multiply.s_res_10 s_lo_10 z_10
  let over_10 := mds_multiply.s_over_10 s_lo_10 z_10
  let result_10_1 := mds_multiply.s_result_10_1 res_10 over_10
  let s_23 := mds_multiply.s_s_23 state_h_11_2 state_l_11_2
  let s_hi_11 := mds_multiply.s_s_hi_11 s_23
  let s_lo_11 := mds_multiply.s_s_lo_11 s_23
  let z_11 := mds_multiply.s_z_11 s_hi_11
  let res_11 := mds_multiply.s_res_11 s_lo_11 z_11
  let over_11 := mds_multiply.s_over_11 s_lo_11 z_11
  let result_11_1 := mds_multiply.s_result_11_1 res_11 over_11
  let state_0_1 := mds_multiply.s_state_0_1 result_0_1
  let state_1_1 := mds_multiply.s_state_1_1 result_1_1
  let state_2_1 := mds_multiply.s_state_2_1 result_2_1
  let state_3_1 := mds_multiply.s_state_3_1 result_3_1
  let state_4_1 := mds_multiply.s_state_4_1 result_4_1
  let state_5_1 := mds_multiply.s_state_5_1 result_5_1
  let state_6_1 := mds_multiply.s_state_6_1 result_6_1
  let state_7_1 := mds_multiply.s_state_7_1 result_7_1
  let state_8_1 := mds_multiply.s_state_8_1 result_8_1
  let state_9_1 := mds_multiply.s_state_9_1 result_9_1
  let state_10_1 := mds_multiply.s_state_10_1 result_10_1
  let state_11_1 := mds_multiply.s_state_11_1 result_11_1
  (state_0_1, state_1_1, state_2_1, state_3_1, state_4_1, state_5_1, state_6_1, state_7_1, state_8_1, state_9_1, state_10_1, state_11_1)) := by
  rw [Gen.Mds12.mds_multiply]

end steps

theorem fold_0' (h l : Nat) :
    (Gen.Mds12.mds_multiply.s_result_0_1 (Gen.Mds12.mds_multiply.s_res (Gen.Mds12.mds_multiply.s_s_lo (Gen.Mds12.mds_multiply.s_s_12 h l)) (Gen.Mds12.mds_multiply.s_z (Gen.Mds12.mds_multiply.s_s_hi (Gen.Mds12.mds_multiply.s_s_12 h l)))) (Gen.Mds12.mds_multiply.s_over (Gen.Mds12.mds_multiply.s_s_lo (Gen.Mds12.mds_multiply.s_s_12 h l)) (Gen.Mds12.mds_multiply.s_z (Gen.Mds12.mds_multiply.s_s_hi (Gen.Mds12.mds_multiply.s_s_12 h l))))) = tailRed l h := by
  rw [fold_0]

theorem fold_1' (h l : Nat) :
    (Gen.Mds12.mds_multiply.s_result_1_1 (Gen.Mds12.mds_multiply.s_res_1 (Gen.Mds12.mds_multiply.s_s_lo_1 (Gen.Mds12.mds_multiply.s_s_13 h l)) (Gen.Mds12.mds_multiply.s_z_1 (Gen.Mds12.mds_multiply.s_s_hi_1 (Gen.Mds12.mds_multiply.s_s_13 h l)))) (Gen.Mds12.mds_multiply.s_over_1 (Gen.Mds12.mds_multiply.s_s_lo_1 (Gen.Mds12.mds_multiply.s_s_13 h l)) (Gen.Mds12.mds_multiply.s_z_1 (Gen.Mds12.mds_multiply.s_s_hi_1 (Gen.Mds12.mds_multiply.s_s_13 h l))))) = tailRed l h := by
  rw [fold_1]

theorem fold_2' (h l : Nat) :
    (Gen.Mds12.mds_multiply.s_result_2_1 (Gen.Mds12.mds_multiply.s_res_2 (Gen.Mds12.mds_multiply.s_s_lo_2 (Gen.Mds12.mds_multiply.s_s_14 h l)) (Gen.Mds12.mds_multiply.s_z_2 (Gen.Mds12.mds_multiply.s_s_hi_2 (Gen.Mds12.mds_multiply.s_s_14 h l)))) (Gen.Mds12.mds_multiply.s_over_2 (Gen.Mds12.mds_multiply.s_s_lo_2 (Gen.Mds12.mds_multiply.s_s_14 h l)) (Gen.Mds12.mds_multiply.s_z_2 (Gen.Mds12.mds_multiply.s_s_hi_2 (Gen.Mds12.mds_multiply.s_s_14 h l))))) = tailRed l h := by
  rw [fold_2]

theorem fold_3' (h l : Nat) :
    (Gen.Mds12.mds_multiply.s_result_3_1 (Gen.Mds12.mds_multiply.s_res_3 (Gen.Mds12.mds_multiply.s_s_lo_3 (Gen.Mds12.mds_multiply.s_s_15 h l)) (Gen.Mds12.mds_multiply.s_z_3 (Gen.Mds12.mds_multiply.s_s_hi_3 (Gen.Mds12.mds_multiply.s_s_15 h l)))) (Gen.Mds12.mds_multiply.s_over_3 (Gen.Mds12.mds_multiply.s_s_lo_3 (Gen.Mds12.mds_multiply.s_s_15 h l)) (Gen.Mds12.mds_multiply.s_z_3 (Gen.Mds12.mds_multiply.s_s_hi_3 (Gen.Mds12.mds_multiply.s_s_15 h l))))) = tailRed l h := by
  rw [fold_3]

theorem fold_4' (h l : Nat) :
    (Gen.Mds12.mds_multiply.s_result_4_1 (Gen.Mds12.mds_multiply.s_res_4 (Gen.Mds12.mds_multiply.s_s_lo_4 (Gen.Mds12.mds_multiply.s_s_16 h l)) (Gen.Mds12.mds_multiply.s_z_4 (Gen.Mds12.mds_multiply.s_s_hi_4 (Gen.Mds12.mds_multiply.s_s_16 h l)))) (Gen.Mds12.mds_multiply.s_over_4 (Gen.Mds12.mds_multiply.s_s_lo_4 (Gen.Mds12.mds_multiply.s_s_16 h l)) (Gen.Mds12.mds_multiply.s_z_4 (Gen.Mds12.mds_multiply.s_s_hi_4 (Gen.Mds12.mds_multiply.s_s_16 h l))))) = tailRed l h := by
  rw [fold_4]

theorem fold_5' (h l : Nat) :
    (Gen.Mds12.mds_multiply.s_result_5_1 (Gen.Mds12.mds_multiply.s_res_5 (Gen.Mds12.mds_multiply.s_s_lo_5 (Gen.Mds12.mds_multiply.s_s_17 h l)) (Gen.Mds12.mds_multiply.s_z_5 (Gen.Mds12.mds_multiply.s_s_hi_5 (Gen.Mds12.mds_multiply.s_s_17 h l)))) (Gen.Mds12.mds_multiply.s_over_5 (Gen.Mds12.mds_multiply.s_s_lo_5 (Gen.Mds12.mds_multiply.s_s_17 h l)) (Gen.Mds12.mds_multiply.s_z_5 (Gen.Mds12.mds_multiply.s_s_hi_5 (Gen.Mds12.mds_multiply.s_s_17 h l))))) = tailRed l h := by
  rw [fold_5]

theorem fold_6' (h l : Nat) :
    (Gen.Mds12.mds_multiply.s_result_6_1 (Gen.Mds12.mds_multiply.s_res_6 (Gen.Mds12.mds_multiply.s_s_lo_6 (Gen.Mds12.mds_multiply.s_s_18 h l)) (Gen.Mds12.mds_multiply.s_z_6 (Gen.Mds12.mds_multiply.s_s_hi_6 (Gen.Mds12.mds_multiply.s_s_18 h l)))) (Gen.Mds12.mds_multiply.s_over_6 (Gen.Mds12.mds_multiply.s_s_lo_6 (Gen.Mds12.mds_multiply.s_s_18 h l)) (Gen.Mds12.mds_multiply.s_z_6 (Gen.Mds12.mds_multiply.s_s_hi_6 (Gen.Mds12.mds_multiply.s_s_18 h l))))) = tailRed l h := by
  rw [fold_6]

theorem fold_7' (h l : Nat) :
    (Gen.Mds12.mds_multiply.s_result_7_1 (Gen.Mds12.mds_multiply.s_res_7 (Gen.Mds12.mds_multiply.s_s_lo_7 (Gen.Mds12.mds_multiply.s_s_19 h l)) (Gen.Mds12.mds_multiply.s_z_7 (Gen.Mds12.mds_multiply.s_s_hi_7 (Gen.Mds12.mds_multiply.s_s_19 h l)))) (Gen.Mds12.mds_multiply.s_over_7 (Gen.Mds12.mds_multiply.s_s_lo_7 (Gen.Mds12.mds_multiply.s_s_19 h l)) (Gen.Mds12.mds_multiply.s_z_7 (Gen.Mds12.mds_multiply.s_s_hi_7 (Gen.Mds12.mds_multiply.s_s_19 h l))))) = tailRed l h := by
  rw [fold_7]

theorem fold_8' (h l : Nat) :
    (Gen.Mds12.mds_multiply.s_result_8_1 (Gen.Mds12.mds_multiply.s_res_8 (Gen.Mds12.mds_multiply.s_s_lo_8 (Gen.Mds12.mds_multiply.s_s_20 h l)) (Gen.Mds12.mds_multiply.s_z_8 (Gen.Mds12.mds_multiply.s_s_hi_8 (Gen.Mds12.mds_multiply.s_s_20 h l)))) (Gen.Mds12.mds_multiply.s_over_8 (Gen.Mds12.mds_multiply.s_s_lo_8 (Gen.Mds12.mds_multiply.s_s_20 h l)) (Gen.Mds12.mds_multiply.s_z_8 (Gen.Mds12.mds_multiply.s_s_hi_8 (Gen.Mds12.mds_multiply.s_s_20 h l))))) = tailRed l h := by
  rw [fold_8]

theorem fold_9' (h l : Nat) :
    (Gen.Mds12.mds_multiply.s_result_9_1 (Gen.Mds12.mds_multiply.s_res_9 (Gen.Mds12.mds_multiply.s_s_lo_9 (Gen.Mds12.mds_multiply.s_s_21 h l)) (Gen.Mds12.mds_multiply.s_z_9 (Gen.Mds12.mds_multiply.s_s_hi_9 (Gen.Mds12.mds_multiply.s_s_21 h l)))) (Gen.Mds12.mds_multiply.s_over_9 (Gen.Mds12.mds_multiply.s_s_lo_9 (Gen.Mds12.mds_multiply.s_s_21 h l)) (Gen.Mds12.mds_multiply.s_z_9 (Gen.Mds12.mds_multiply.s_s_hi_9 (Gen.Mds12.mds_multiply.s_s_21 h l))))) = tailRed l h := by
  rw [fold_9]

theorem fold_10' (h l : Nat) :
    (Gen.Mds12.mds_multiply.s_result_10_1 (Gen.Mds12.mds_multiply.s_res_10 (Gen.Mds12.mds_multiply.s_s_lo_10 (Gen.Mds12.mds_multiply.s_s_22 h l)) (Gen.Mds12.mds_multiply.s_z_10 (Gen.Mds12.mds_multiply.s_s_hi_10 (Gen.Mds12.mds_multiply.s_s_22 h l)))) (Gen.Mds12.mds_multiply.s_over_10 (Gen.Mds12.mds_multiply.s_s_lo_10 (Gen.Mds12.mds_multiply.s_s_22 h l)) (Gen.Mds12.mds_multiply.s_z_10 (Gen.Mds12.mds_multiply.s_s_hi_10 (Gen.Mds12.mds_multiply.s_s_22 h l))))) = tailRed l h := by
  rw [fold_10]

theorem fold_11' (h l : Nat) :
    (Gen.Mds12.mds_multiply.s_result_11_1 (Gen.Mds12.mds_multiply.s_res_11 (Gen.Mds12.mds_multiply.s_s_lo_11 (Gen.Mds12.mds_multiply.s_s_23 h l)) (Gen.Mds12.mds_multiply.s_z_11 (Gen.Mds12.mds_multiply.s_s_hi_11 (Gen.Mds12.mds_multiply.s_s_23 h l)))) (Gen.Mds12.mds_multiply.s_over_11 (Gen.Mds12.mds_multiply.s_s_lo_11 (Gen.Mds12.mds_multiply.s_s_23 h l)) (Gen.Mds12.mds_multiply.s_z_11 (Gen.Mds12.mds_multiply.s_s_hi_11 (Gen.Mds12.mds_multiply.s_s_23 h l))))) = tailRed l h := by
  rw [fold_11]

/-- proved by rewriting with the step equations only: no definitional unfolding, so the kernel never
    has to re-check a computation on 2^64 literals -/
theorem mm_eq_tail : mm_eq_tail_statement := by
  intro x0 x1 x2 x3 x4 x5 x6 x7 x8 x9 x10 x11
  simp only [eq_mds_multiply_s_s, eq_mds_multiply_s_state_h_0_1, eq_mds_multiply_s_state_l_0_1,
      eq_mds_multiply_s_s_1, eq_mds_multiply_s_state_h_1_1, eq_mds_multiply_s_state_l_1_1,
      eq_mds_multiply_s_s_2, eq_mds_multiply_s_state_h_2_1, eq_mds_multiply_s_state_l_2_1,
      eq_mds_multiply_s_s_3, eq_mds_multiply_s_state_h_3_1, eq_mds_multiply_s_state_l_3_1,
      eq_mds_multiply_s_s_4, eq_mds_multiply_s_state_h_4_1, eq_mds_multiply_s_state_l_4_1,
      eq_mds_multiply_s_s_5, eq_mds_multiply_s_state_h_5_1, eq_mds_multiply_s_state_l_5_1,
      eq_mds_multiply_s_s_6, eq_mds_multiply_s_state_h_6_1, eq_mds_multiply_s_state_l_6_1,
      eq_mds_multiply_s_s_7, eq_mds_multiply_s_state_h_7_1, eq_mds_multiply_s_state_l_7_1,
      eq_mds_multiply_s_s_8, eq_mds_multiply_s_state_h_8_1, eq_mds_multiply_s_state_l_8_1,
      eq_mds_multiply_s_s_9, eq_mds_multiply_s_state_h_9_1, eq_mds_multiply_s_state_l_9_1,
      eq_mds_multiply_s_s_10, eq_mds_multiply_s_state_h_10_1, eq_mds_multiply_s_state_l_10_1,
      eq_mds_multiply_s_s_11, eq_mds_multiply_s_state_h_11_1, eq_mds_multiply_s_state_l_11_1,
      eq_mds_multiply_s_r, eq_mds_multiply_s_state_h_0_2, eq_mds_multiply_s_state_h_1_2,
      eq_mds_multiply_s_state_h_2_2, eq_mds_multiply_s_state_h_3_2, eq_mds_multiply_s_state_h_4_2,
      eq_mds_multiply_s_state_h_5_2, eq_mds_multiply_s_state_h_6_2, eq_mds_multiply_s_state_h_7_2,
      eq_mds_multiply_s_state_h_8_2, eq_mds_multiply_s_state_h_9_2, eq_mds_multiply_s_state_h_10_2,
      eq_mds_multiply_s_state_h_11_2, eq_mds_multiply_s_r_1, eq_mds_multiply_s_state_l_0_2,
      eq_mds_multiply_s_state_l_1_2, eq_mds_multiply_s_state_l_2_2, eq_mds_multiply_s_state_l_3_2,
      eq_mds_multiply_s_state_l_4_2, eq_mds_multiply_s_state_l_5_2, eq_mds_multiply_s_state_l_6_2,
      eq_mds_multiply_s_state_l_7_2, eq_mds_multiply_s_state_l_8_2, eq_mds_multiply_s_state_l_9_2,
      eq_mds_multiply_s_state_l_10_2, eq_mds_multiply_s_state_l_11_2, eq_mds_multiply_s_state_0_1,
      eq_mds_multiply_s_state_1_1, eq_mds_multiply_s_state_2_1, eq_mds_multiply_s_state_3_1,
      eq_mds_multiply_s_state_4_1, eq_mds_multiply_s_state_5_1, eq_mds_multiply_s_state_6_1,
      eq_mds_multiply_s_state_7_1, eq_mds_multiply_s_state_8_1, eq_mds_multiply_s_state_9_1,
      eq_mds_multiply_s_state_10_1, eq_mds_multiply_s_state_11_1, eq_mds_multiply,
      fold_0', fold_1', fold_2', fold_3', fold_4', fold_5', fold_6', fold_7', fold_8', fold_9', fold_10', fold_11']

end WinterProofs.C11.Mds12
