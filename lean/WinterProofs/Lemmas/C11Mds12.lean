-- C11 helper lemmas: the frequency-domain MDS product of crypto/src/hash/mds (Mds12) is the
-- circulant matrix-vector product, exactly and without overflow.  Written by gen_c11_mds.py from the
-- generated modules (step-definition names and the coefficient tuple); checked against them by Lean.
import Winter.Gen.Mds12
import Winter.Gen.Rp64
import WinterProofs.Lemmas.C11MdsCommon
set_option linter.unusedSimpArgs false
set_option linter.unusedVariables false
set_option maxRecDepth 100000

namespace WinterProofs.C11.Mds12
open Gen WinterProofs.C11

/-- every `i64` intermediate of `mds_multiply_freq` is in range when the limbs are below `2^32` -/
theorem freq_ok (s0 s1 s2 s3 s4 s5 s6 s7 s8 s9 s10 s11 : Nat) (h0 : s0 < 4294967296) (h1 : s1 < 4294967296) (h2 : s2 < 4294967296) (h3 : s3 < 4294967296) (h4 : s4 < 4294967296) (h5 : s5 < 4294967296) (h6 : s6 < 4294967296) (h7 : s7 < 4294967296) (h8 : s8 < 4294967296) (h9 : s9 < 4294967296) (h10 : s10 < 4294967296) (h11 : s11 < 4294967296) :
    Gen.Mds12.mds_multiply_freq_ok s0 s1 s2 s3 s4 s5 s6 s7 s8 s9 s10 s11 = true := by
  have e0 := toSigned_small s0 (by omega)
  have e1 := toSigned_small s1 (by omega)
  have e2 := toSigned_small s2 (by omega)
  have e3 := toSigned_small s3 (by omega)
  have e4 := toSigned_small s4 (by omega)
  have e5 := toSigned_small s5 (by omega)
  have e6 := toSigned_small s6 (by omega)
  have e7 := toSigned_small s7 (by omega)
  have e8 := toSigned_small s8 (by omega)
  have e9 := toSigned_small s9 (by omega)
  have e10 := toSigned_small s10 (by omega)
  have e11 := toSigned_small s11 (by omega)
  simp only [Gen.RealFft.fft2_real, Gen.RealFft.fft2_real_ok, Gen.RealFft.ifft2_real_unreduced,
      Gen.RealFft.ifft2_real_unreduced_ok, Gen.RealFft.fft4_real.s_r, Gen.RealFft.fft4_real.s_z0,
      Gen.RealFft.fft4_real.s_z2, Gen.RealFft.fft4_real.s_r_1, Gen.RealFft.fft4_real.s_z1,
      Gen.RealFft.fft4_real.s_z3, Gen.RealFft.fft4_real.s_y0, Gen.RealFft.fft4_real.s_y1_0,
      Gen.RealFft.fft4_real.s_y1_1, Gen.RealFft.fft4_real.s_y2, Gen.RealFft.fft4_real,
      Gen.RealFft.fft4_real_ok, Gen.RealFft.ifft4_real_unreduced.s_z0,
      Gen.RealFft.ifft4_real_unreduced.s_z1, Gen.RealFft.ifft4_real_unreduced.s_z2,
      Gen.RealFft.ifft4_real_unreduced.s_z3, Gen.RealFft.ifft4_real_unreduced.s_r,
      Gen.RealFft.ifft4_real_unreduced.s_x0, Gen.RealFft.ifft4_real_unreduced.s_x2,
      Gen.RealFft.ifft4_real_unreduced.s_r_1, Gen.RealFft.ifft4_real_unreduced.s_x1,
      Gen.RealFft.ifft4_real_unreduced.s_x3, Gen.RealFft.ifft4_real_unreduced,
      Gen.RealFft.ifft4_real_unreduced_ok, Gen.Mds12.block1.s_x0, Gen.Mds12.block1.s_x1,
      Gen.Mds12.block1.s_x2, Gen.Mds12.block1.s_y0, Gen.Mds12.block1.s_y1, Gen.Mds12.block1.s_y2,
      Gen.Mds12.block1.s_z0, Gen.Mds12.block1.s_z1, Gen.Mds12.block1.s_z2, Gen.Mds12.block1,
      Gen.Mds12.block1_ok, Gen.Mds12.block2.s_x0r, Gen.Mds12.block2.s_x0i, Gen.Mds12.block2.s_x1r,
      Gen.Mds12.block2.s_x1i, Gen.Mds12.block2.s_x2r, Gen.Mds12.block2.s_x2i, Gen.Mds12.block2.s_y0r,
      Gen.Mds12.block2.s_y0i, Gen.Mds12.block2.s_y1r, Gen.Mds12.block2.s_y1i, Gen.Mds12.block2.s_y2r,
      Gen.Mds12.block2.s_y2i, Gen.Mds12.block2.s_x0s, Gen.Mds12.block2.s_x1s, Gen.Mds12.block2.s_x2s,
      Gen.Mds12.block2.s_y0s, Gen.Mds12.block2.s_y1s, Gen.Mds12.block2.s_y2s, Gen.Mds12.block2.s_m0_0,
      Gen.Mds12.block2.s_m0_1, Gen.Mds12.block2.s_m1_0, Gen.Mds12.block2.s_m1_1, Gen.Mds12.block2.s_m2_0,
      Gen.Mds12.block2.s_m2_1, Gen.Mds12.block2.s_z0r, Gen.Mds12.block2.s_z0i, Gen.Mds12.block2.s_z0_0,
      Gen.Mds12.block2.s_z0_1, Gen.Mds12.block2.s_m0_0_1, Gen.Mds12.block2.s_m0_1_1,
      Gen.Mds12.block2.s_m1_0_1, Gen.Mds12.block2.s_m1_1_1, Gen.Mds12.block2.s_m2_0_1,
      Gen.Mds12.block2.s_m2_1_1, Gen.Mds12.block2.s_z1r, Gen.Mds12.block2.s_z1i, Gen.Mds12.block2.s_z1_0,
      Gen.Mds12.block2.s_z1_1, Gen.Mds12.block2.s_m0_0_2, Gen.Mds12.block2.s_m0_1_2,
      Gen.Mds12.block2.s_m1_0_2, Gen.Mds12.block2.s_m1_1_2, Gen.Mds12.block2.s_m2_0_2,
      Gen.Mds12.block2.s_m2_1_2, Gen.Mds12.block2.s_z2r, Gen.Mds12.block2.s_z2i, Gen.Mds12.block2.s_z2_0,
      Gen.Mds12.block2.s_z2_1, Gen.Mds12.block2, Gen.Mds12.block2_ok, Gen.Mds12.block3.s_x0,
      Gen.Mds12.block3.s_x1, Gen.Mds12.block3.s_x2, Gen.Mds12.block3.s_y0, Gen.Mds12.block3.s_y1,
      Gen.Mds12.block3.s_y2, Gen.Mds12.block3.s_z0, Gen.Mds12.block3.s_z1, Gen.Mds12.block3.s_z2,
      Gen.Mds12.block3, Gen.Mds12.block3_ok, Gen.Mds12.mds_multiply_freq.s_s0,
      Gen.Mds12.mds_multiply_freq.s_s1, Gen.Mds12.mds_multiply_freq.s_s2, Gen.Mds12.mds_multiply_freq.s_s3,
      Gen.Mds12.mds_multiply_freq.s_s4, Gen.Mds12.mds_multiply_freq.s_s5, Gen.Mds12.mds_multiply_freq.s_s6,
      Gen.Mds12.mds_multiply_freq.s_s7, Gen.Mds12.mds_multiply_freq.s_s8, Gen.Mds12.mds_multiply_freq.s_s9,
      Gen.Mds12.mds_multiply_freq.s_s10, Gen.Mds12.mds_multiply_freq.s_s11,
      Gen.Mds12.mds_multiply_freq.s_r, Gen.Mds12.mds_multiply_freq.s_u0,
      Gen.Mds12.mds_multiply_freq.s_u1_0, Gen.Mds12.mds_multiply_freq.s_u1_1,
      Gen.Mds12.mds_multiply_freq.s_u2, Gen.Mds12.mds_multiply_freq.s_r_1,
      Gen.Mds12.mds_multiply_freq.s_u4, Gen.Mds12.mds_multiply_freq.s_u5_0,
      Gen.Mds12.mds_multiply_freq.s_u5_1, Gen.Mds12.mds_multiply_freq.s_u6,
      Gen.Mds12.mds_multiply_freq.s_r_2, Gen.Mds12.mds_multiply_freq.s_u8,
      Gen.Mds12.mds_multiply_freq.s_u9_0, Gen.Mds12.mds_multiply_freq.s_u9_1,
      Gen.Mds12.mds_multiply_freq.s_u10, Gen.Mds12.mds_multiply_freq.s_r_3,
      Gen.Mds12.mds_multiply_freq.s_v0, Gen.Mds12.mds_multiply_freq.s_v4, Gen.Mds12.mds_multiply_freq.s_v8,
      Gen.Mds12.mds_multiply_freq.s_r_4, Gen.Mds12.mds_multiply_freq.s_v1_0,
      Gen.Mds12.mds_multiply_freq.s_v1_1, Gen.Mds12.mds_multiply_freq.s_v5_0,
      Gen.Mds12.mds_multiply_freq.s_v5_1, Gen.Mds12.mds_multiply_freq.s_v9_0,
      Gen.Mds12.mds_multiply_freq.s_v9_1, Gen.Mds12.mds_multiply_freq.s_r_5,
      Gen.Mds12.mds_multiply_freq.s_v2, Gen.Mds12.mds_multiply_freq.s_v6,
      Gen.Mds12.mds_multiply_freq.s_v10, Gen.Mds12.mds_multiply_freq.s_r_6,
      Gen.Mds12.mds_multiply_freq.s_s0_1, Gen.Mds12.mds_multiply_freq.s_s3_1,
      Gen.Mds12.mds_multiply_freq.s_s6_1, Gen.Mds12.mds_multiply_freq.s_s9_1,
      Gen.Mds12.mds_multiply_freq.s_r_7, Gen.Mds12.mds_multiply_freq.s_s1_1,
      Gen.Mds12.mds_multiply_freq.s_s4_1, Gen.Mds12.mds_multiply_freq.s_s7_1,
      Gen.Mds12.mds_multiply_freq.s_s10_1, Gen.Mds12.mds_multiply_freq.s_r_8,
      Gen.Mds12.mds_multiply_freq.s_s2_1, Gen.Mds12.mds_multiply_freq.s_s5_1,
      Gen.Mds12.mds_multiply_freq.s_s8_1, Gen.Mds12.mds_multiply_freq.s_s11_1, Gen.Mds12.mds_multiply_freq,
      Gen.Mds12.mds_multiply_freq_ok,
      e0, e1, e2, e3, e4, e5, e6, e7, e8, e9, e10, e11, Bool.and_eq_true, decide_eq_true_eq]
  repeat' (first | apply And.intro | apply decide_eq_true | rw [Bool.and_eq_true])
  all_goals omega

/-- `mds_multiply_freq` is the matrix-vector product with these integer rows, exactly -/
theorem freq_eq_tuple (s0 s1 s2 s3 s4 s5 s6 s7 s8 s9 s10 s11 : Nat) (h0 : s0 < 4294967296) (h1 : s1 < 4294967296) (h2 : s2 < 4294967296) (h3 : s3 < 4294967296) (h4 : s4 < 4294967296) (h5 : s5 < 4294967296) (h6 : s6 < 4294967296) (h7 : s7 < 4294967296) (h8 : s8 < 4294967296) (h9 : s9 < 4294967296) (h10 : s10 < 4294967296) (h11 : s11 < 4294967296) :
    Gen.Mds12.mds_multiply_freq s0 s1 s2 s3 s4 s5 s6 s7 s8 s9 s10 s11 =
      (7 * s0 + 23 * s1 + 8 * s2 + 26 * s3 + 13 * s4 + 10 * s5 + 9 * s6 + 7 * s7 + 6 * s8 + 22 * s9 + 21 * s10 + 8 * s11,
       8 * s0 + 7 * s1 + 23 * s2 + 8 * s3 + 26 * s4 + 13 * s5 + 10 * s6 + 9 * s7 + 7 * s8 + 6 * s9 + 22 * s10 + 21 * s11,
       21 * s0 + 8 * s1 + 7 * s2 + 23 * s3 + 8 * s4 + 26 * s5 + 13 * s6 + 10 * s7 + 9 * s8 + 7 * s9 + 6 * s10 + 22 * s11,
       22 * s0 + 21 * s1 + 8 * s2 + 7 * s3 + 23 * s4 + 8 * s5 + 26 * s6 + 13 * s7 + 10 * s8 + 9 * s9 + 7 * s10 + 6 * s11,
       6 * s0 + 22 * s1 + 21 * s2 + 8 * s3 + 7 * s4 + 23 * s5 + 8 * s6 + 26 * s7 + 13 * s8 + 10 * s9 + 9 * s10 + 7 * s11,
       7 * s0 + 6 * s1 + 22 * s2 + 21 * s3 + 8 * s4 + 7 * s5 + 23 * s6 + 8 * s7 + 26 * s8 + 13 * s9 + 10 * s10 + 9 * s11,
       9 * s0 + 7 * s1 + 6 * s2 + 22 * s3 + 21 * s4 + 8 * s5 + 7 * s6 + 23 * s7 + 8 * s8 + 26 * s9 + 13 * s10 + 10 * s11,
       10 * s0 + 9 * s1 + 7 * s2 + 6 * s3 + 22 * s4 + 21 * s5 + 8 * s6 + 7 * s7 + 23 * s8 + 8 * s9 + 26 * s10 + 13 * s11,
       13 * s0 + 10 * s1 + 9 * s2 + 7 * s3 + 6 * s4 + 22 * s5 + 21 * s6 + 8 * s7 + 7 * s8 + 23 * s9 + 8 * s10 + 26 * s11,
       26 * s0 + 13 * s1 + 10 * s2 + 9 * s3 + 7 * s4 + 6 * s5 + 22 * s6 + 21 * s7 + 8 * s8 + 7 * s9 + 23 * s10 + 8 * s11,
       8 * s0 + 26 * s1 + 13 * s2 + 10 * s3 + 9 * s4 + 7 * s5 + 6 * s6 + 22 * s7 + 21 * s8 + 8 * s9 + 7 * s10 + 23 * s11,
       23 * s0 + 8 * s1 + 26 * s2 + 13 * s3 + 10 * s4 + 9 * s5 + 7 * s6 + 6 * s7 + 22 * s8 + 21 * s9 + 8 * s10 + 7 * s11) := by
  have e0 := toSigned_small s0 (by omega)
  have e1 := toSigned_small s1 (by omega)
  have e2 := toSigned_small s2 (by omega)
  have e3 := toSigned_small s3 (by omega)
  have e4 := toSigned_small s4 (by omega)
  have e5 := toSigned_small s5 (by omega)
  have e6 := toSigned_small s6 (by omega)
  have e7 := toSigned_small s7 (by omega)
  have e8 := toSigned_small s8 (by omega)
  have e9 := toSigned_small s9 (by omega)
  have e10 := toSigned_small s10 (by omega)
  have e11 := toSigned_small s11 (by omega)
  simp only [Gen.RealFft.fft2_real, Gen.RealFft.fft2_real_ok, Gen.RealFft.ifft2_real_unreduced,
      Gen.RealFft.ifft2_real_unreduced_ok, Gen.RealFft.fft4_real.s_r, Gen.RealFft.fft4_real.s_z0,
      Gen.RealFft.fft4_real.s_z2, Gen.RealFft.fft4_real.s_r_1, Gen.RealFft.fft4_real.s_z1,
      Gen.RealFft.fft4_real.s_z3, Gen.RealFft.fft4_real.s_y0, Gen.RealFft.fft4_real.s_y1_0,
      Gen.RealFft.fft4_real.s_y1_1, Gen.RealFft.fft4_real.s_y2, Gen.RealFft.fft4_real,
      Gen.RealFft.fft4_real_ok, Gen.RealFft.ifft4_real_unreduced.s_z0,
      Gen.RealFft.ifft4_real_unreduced.s_z1, Gen.RealFft.ifft4_real_unreduced.s_z2,
      Gen.RealFft.ifft4_real_unreduced.s_z3, Gen.RealFft.ifft4_real_unreduced.s_r,
      Gen.RealFft.ifft4_real_unreduced.s_x0, Gen.RealFft.ifft4_real_unreduced.s_x2,
      Gen.RealFft.ifft4_real_unreduced.s_r_1, Gen.RealFft.ifft4_real_unreduced.s_x1,
      Gen.RealFft.ifft4_real_unreduced.s_x3, Gen.RealFft.ifft4_real_unreduced,
      Gen.RealFft.ifft4_real_unreduced_ok, Gen.Mds12.block1.s_x0, Gen.Mds12.block1.s_x1,
      Gen.Mds12.block1.s_x2, Gen.Mds12.block1.s_y0, Gen.Mds12.block1.s_y1, Gen.Mds12.block1.s_y2,
      Gen.Mds12.block1.s_z0, Gen.Mds12.block1.s_z1, Gen.Mds12.block1.s_z2, Gen.Mds12.block1,
      Gen.Mds12.block1_ok, Gen.Mds12.block2.s_x0r, Gen.Mds12.block2.s_x0i, Gen.Mds12.block2.s_x1r,
      Gen.Mds12.block2.s_x1i, Gen.Mds12.block2.s_x2r, Gen.Mds12.block2.s_x2i, Gen.Mds12.block2.s_y0r,
      Gen.Mds12.block2.s_y0i, Gen.Mds12.block2.s_y1r, Gen.Mds12.block2.s_y1i, Gen.Mds12.block2.s_y2r,
      Gen.Mds12.block2.s_y2i, Gen.Mds12.block2.s_x0s, Gen.Mds12.block2.s_x1s, Gen.Mds12.block2.s_x2s,
      Gen.Mds12.block2.s_y0s, Gen.Mds12.block2.s_y1s, Gen.Mds12.block2.s_y2s, Gen.Mds12.block2.s_m0_0,
      Gen.Mds12.block2.s_m0_1, Gen.Mds12.block2.s_m1_0, Gen.Mds12.block2.s_m1_1, Gen.Mds12.block2.s_m2_0,
      Gen.Mds12.block2.s_m2_1, Gen.Mds12.block2.s_z0r, Gen.Mds12.block2.s_z0i, Gen.Mds12.block2.s_z0_0,
      Gen.Mds12.block2.s_z0_1, Gen.Mds12.block2.s_m0_0_1, Gen.Mds12.block2.s_m0_1_1,
      Gen.Mds12.block2.s_m1_0_1, Gen.Mds12.block2.s_m1_1_1, Gen.Mds12.block2.s_m2_0_1,
      Gen.Mds12.block2.s_m2_1_1, Gen.Mds12.block2.s_z1r, Gen.Mds12.block2.s_z1i, Gen.Mds12.block2.s_z1_0,
      Gen.Mds12.block2.s_z1_1, Gen.Mds12.block2.s_m0_0_2, Gen.Mds12.block2.s_m0_1_2,
      Gen.Mds12.block2.s_m1_0_2, Gen.Mds12.block2.s_m1_1_2, Gen.Mds12.block2.s_m2_0_2,
      Gen.Mds12.block2.s_m2_1_2, Gen.Mds12.block2.s_z2r, Gen.Mds12.block2.s_z2i, Gen.Mds12.block2.s_z2_0,
      Gen.Mds12.block2.s_z2_1, Gen.Mds12.block2, Gen.Mds12.block2_ok, Gen.Mds12.block3.s_x0,
      Gen.Mds12.block3.s_x1, Gen.Mds12.block3.s_x2, Gen.Mds12.block3.s_y0, Gen.Mds12.block3.s_y1,
      Gen.Mds12.block3.s_y2, Gen.Mds12.block3.s_z0, Gen.Mds12.block3.s_z1, Gen.Mds12.block3.s_z2,
      Gen.Mds12.block3, Gen.Mds12.block3_ok, Gen.Mds12.mds_multiply_freq.s_s0,
      Gen.Mds12.mds_multiply_freq.s_s1, Gen.Mds12.mds_multiply_freq.s_s2, Gen.Mds12.mds_multiply_freq.s_s3,
      Gen.Mds12.mds_multiply_freq.s_s4, Gen.Mds12.mds_multiply_freq.s_s5, Gen.Mds12.mds_multiply_freq.s_s6,
      Gen.Mds12.mds_multiply_freq.s_s7, Gen.Mds12.mds_multiply_freq.s_s8, Gen.Mds12.mds_multiply_freq.s_s9,
      Gen.Mds12.mds_multiply_freq.s_s10, Gen.Mds12.mds_multiply_freq.s_s11,
      Gen.Mds12.mds_multiply_freq.s_r, Gen.Mds12.mds_multiply_freq.s_u0,
      Gen.Mds12.mds_multiply_freq.s_u1_0, Gen.Mds12.mds_multiply_freq.s_u1_1,
      Gen.Mds12.mds_multiply_freq.s_u2, Gen.Mds12.mds_multiply_freq.s_r_1,
      Gen.Mds12.mds_multiply_freq.s_u4, Gen.Mds12.mds_multiply_freq.s_u5_0,
      Gen.Mds12.mds_multiply_freq.s_u5_1, Gen.Mds12.mds_multiply_freq.s_u6,
      Gen.Mds12.mds_multiply_freq.s_r_2, Gen.Mds12.mds_multiply_freq.s_u8,
      Gen.Mds12.mds_multiply_freq.s_u9_0, Gen.Mds12.mds_multiply_freq.s_u9_1,
      Gen.Mds12.mds_multiply_freq.s_u10, Gen.Mds12.mds_multiply_freq.s_r_3,
      Gen.Mds12.mds_multiply_freq.s_v0, Gen.Mds12.mds_multiply_freq.s_v4, Gen.Mds12.mds_multiply_freq.s_v8,
      Gen.Mds12.mds_multiply_freq.s_r_4, Gen.Mds12.mds_multiply_freq.s_v1_0,
      Gen.Mds12.mds_multiply_freq.s_v1_1, Gen.Mds12.mds_multiply_freq.s_v5_0,
      Gen.Mds12.mds_multiply_freq.s_v5_1, Gen.Mds12.mds_multiply_freq.s_v9_0,
      Gen.Mds12.mds_multiply_freq.s_v9_1, Gen.Mds12.mds_multiply_freq.s_r_5,
      Gen.Mds12.mds_multiply_freq.s_v2, Gen.Mds12.mds_multiply_freq.s_v6,
      Gen.Mds12.mds_multiply_freq.s_v10, Gen.Mds12.mds_multiply_freq.s_r_6,
      Gen.Mds12.mds_multiply_freq.s_s0_1, Gen.Mds12.mds_multiply_freq.s_s3_1,
      Gen.Mds12.mds_multiply_freq.s_s6_1, Gen.Mds12.mds_multiply_freq.s_s9_1,
      Gen.Mds12.mds_multiply_freq.s_r_7, Gen.Mds12.mds_multiply_freq.s_s1_1,
      Gen.Mds12.mds_multiply_freq.s_s4_1, Gen.Mds12.mds_multiply_freq.s_s7_1,
      Gen.Mds12.mds_multiply_freq.s_s10_1, Gen.Mds12.mds_multiply_freq.s_r_8,
      Gen.Mds12.mds_multiply_freq.s_s2_1, Gen.Mds12.mds_multiply_freq.s_s5_1,
      Gen.Mds12.mds_multiply_freq.s_s8_1, Gen.Mds12.mds_multiply_freq.s_s11_1, Gen.Mds12.mds_multiply_freq,
      Gen.Mds12.mds_multiply_freq_ok,
      e0, e1, e2, e3, e4, e5, e6, e7, e8, e9, e10, e11, Prod.mk.injEq]
  repeat' apply And.intro
  all_goals omega

/-- the rows of `freq_eq_tuple` are the rows of the generated `MDS` table -/
theorem freq_matVec (s0 s1 s2 s3 s4 s5 s6 s7 s8 s9 s10 s11 : Nat) (h0 : s0 < 4294967296) (h1 : s1 < 4294967296) (h2 : s2 < 4294967296) (h3 : s3 < 4294967296) (h4 : s4 < 4294967296) (h5 : s5 < 4294967296) (h6 : s6 < 4294967296) (h7 : s7 < 4294967296) (h8 : s8 < 4294967296) (h9 : s9 < 4294967296) (h10 : s10 < 4294967296) (h11 : s11 < 4294967296) :
    (match Gen.Mds12.mds_multiply_freq s0 s1 s2 s3 s4 s5 s6 s7 s8 s9 s10 s11 with
     | (r0, r1, r2, r3, r4, r5, r6, r7, r8, r9, r10, r11) => [r0, r1, r2, r3, r4, r5, r6, r7, r8, r9, r10, r11])
      = matVec Gen.Rp64.MDS [s0, s1, s2, s3, s4, s5, s6, s7, s8, s9, s10, s11] := by
  rw [freq_eq_tuple s0 s1 s2 s3 s4 s5 s6 s7 s8 s9 s10 s11 h0 h1 h2 h3 h4 h5 h6 h7 h8 h9 h10 h11]
  simp only [matVec, dot, Gen.Rp64.MDS, List.map, List.zipWith, List.sum_cons, List.sum_nil,
    List.cons.injEq, and_true]
  repeat' apply And.intro
  all_goals omega

theorem fold_0 (h l : Nat) :
    (Gen.Mds12.mds_multiply.s_result_0_1 (Gen.Mds12.mds_multiply.s_res (Gen.Mds12.mds_multiply.s_s_lo (Gen.Mds12.mds_multiply.s_s_12 h l)) (Gen.Mds12.mds_multiply.s_z (Gen.Mds12.mds_multiply.s_s_hi (Gen.Mds12.mds_multiply.s_s_12 h l)))) (Gen.Mds12.mds_multiply.s_over (Gen.Mds12.mds_multiply.s_s_lo (Gen.Mds12.mds_multiply.s_s_12 h l)) (Gen.Mds12.mds_multiply.s_z (Gen.Mds12.mds_multiply.s_s_hi (Gen.Mds12.mds_multiply.s_s_12 h l))))) = tailRed l h := rfl

theorem fold_1 (h l : Nat) :
    (Gen.Mds12.mds_multiply.s_result_1_1 (Gen.Mds12.mds_multiply.s_res_1 (Gen.Mds12.mds_multiply.s_s_lo_1 (Gen.Mds12.mds_multiply.s_s_13 h l)) (Gen.Mds12.mds_multiply.s_z_1 (Gen.Mds12.mds_multiply.s_s_hi_1 (Gen.Mds12.mds_multiply.s_s_13 h l)))) (Gen.Mds12.mds_multiply.s_over_1 (Gen.Mds12.mds_multiply.s_s_lo_1 (Gen.Mds12.mds_multiply.s_s_13 h l)) (Gen.Mds12.mds_multiply.s_z_1 (Gen.Mds12.mds_multiply.s_s_hi_1 (Gen.Mds12.mds_multiply.s_s_13 h l))))) = tailRed l h := rfl

theorem fold_2 (h l : Nat) :
    (Gen.Mds12.mds_multiply.s_result_2_1 (Gen.Mds12.mds_multiply.s_res_2 (Gen.Mds12.mds_multiply.s_s_lo_2 (Gen.Mds12.mds_multiply.s_s_14 h l)) (Gen.Mds12.mds_multiply.s_z_2 (Gen.Mds12.mds_multiply.s_s_hi_2 (Gen.Mds12.mds_multiply.s_s_14 h l)))) (Gen.Mds12.mds_multiply.s_over_2 (Gen.Mds12.mds_multiply.s_s_lo_2 (Gen.Mds12.mds_multiply.s_s_14 h l)) (Gen.Mds12.mds_multiply.s_z_2 (Gen.Mds12.mds_multiply.s_s_hi_2 (Gen.Mds12.mds_multiply.s_s_14 h l))))) = tailRed l h := rfl

theorem fold_3 (h l : Nat) :
    (Gen.Mds12.mds_multiply.s_result_3_1 (Gen.Mds12.mds_multiply.s_res_3 (Gen.Mds12.mds_multiply.s_s_lo_3 (Gen.Mds12.mds_multiply.s_s_15 h l)) (Gen.Mds12.mds_multiply.s_z_3 (Gen.Mds12.mds_multiply.s_s_hi_3 (Gen.Mds12.mds_multiply.s_s_15 h l)))) (Gen.Mds12.mds_multiply.s_over_3 (Gen.Mds12.mds_multiply.s_s_lo_3 (Gen.Mds12.mds_multiply.s_s_15 h l)) (Gen.Mds12.mds_multiply.s_z_3 (Gen.Mds12.mds_multiply.s_s_hi_3 (Gen.Mds12.mds_multiply.s_s_15 h l))))) = tailRed l h := rfl

theorem fold_4 (h l : Nat) :
    (Gen.Mds12.mds_multiply.s_result_4_1 (Gen.Mds12.mds_multiply.s_res_4 (Gen.Mds12.mds_multiply.s_s_lo_4 (Gen.Mds12.mds_multiply.s_s_16 h l)) (Gen.Mds12.mds_multiply.s_z_4 (Gen.Mds12.mds_multiply.s_s_hi_4 (Gen.Mds12.mds_multiply.s_s_16 h l)))) (Gen.Mds12.mds_multiply.s_over_4 (Gen.Mds12.mds_multiply.s_s_lo_4 (Gen.Mds12.mds_multiply.s_s_16 h l)) (Gen.Mds12.mds_multiply.s_z_4 (Gen.Mds12.mds_multiply.s_s_hi_4 (Gen.Mds12.mds_multiply.s_s_16 h l))))) = tailRed l h := rfl

theorem fold_5 (h l : Nat) :
    (Gen.Mds12.mds_multiply.s_result_5_1 (Gen.Mds12.mds_multiply.s_res_5 (Gen.Mds12.mds_multiply.s_s_lo_5 (Gen.Mds12.mds_multiply.s_s_17 h l)) (Gen.Mds12.mds_multiply.s_z_5 (Gen.Mds12.mds_multiply.s_s_hi_5 (Gen.Mds12.mds_multiply.s_s_17 h l)))) (Gen.Mds12.mds_multiply.s_over_5 (Gen.Mds12.mds_multiply.s_s_lo_5 (Gen.Mds12.mds_multiply.s_s_17 h l)) (Gen.Mds12.mds_multiply.s_z_5 (Gen.Mds12.mds_multiply.s_s_hi_5 (Gen.Mds12.mds_multiply.s_s_17 h l))))) = tailRed l h := rfl

theorem fold_6 (h l : Nat) :
    (Gen.Mds12.mds_multiply.s_result_6_1 (Gen.Mds12.mds_multiply.s_res_6 (Gen.Mds12.mds_multiply.s_s_lo_6 (Gen.Mds12.mds_multiply.s_s_18 h l)) (Gen.Mds12.mds_multiply.s_z_6 (Gen.Mds12.mds_multiply.s_s_hi_6 (Gen.Mds12.mds_multiply.s_s_18 h l)))) (Gen.Mds12.mds_multiply.s_over_6 (Gen.Mds12.mds_multiply.s_s_lo_6 (Gen.Mds12.mds_multiply.s_s_18 h l)) (Gen.Mds12.mds_multiply.s_z_6 (Gen.Mds12.mds_multiply.s_s_hi_6 (Gen.Mds12.mds_multiply.s_s_18 h l))))) = tailRed l h := rfl

theorem fold_7 (h l : Nat) :
    (Gen.Mds12.mds_multiply.s_result_7_1 (Gen.Mds12.mds_multiply.s_res_7 (Gen.Mds12.mds_multiply.s_s_lo_7 (Gen.Mds12.mds_multiply.s_s_19 h l)) (Gen.Mds12.mds_multiply.s_z_7 (Gen.Mds12.mds_multiply.s_s_hi_7 (Gen.Mds12.mds_multiply.s_s_19 h l)))) (Gen.Mds12.mds_multiply.s_over_7 (Gen.Mds12.mds_multiply.s_s_lo_7 (Gen.Mds12.mds_multiply.s_s_19 h l)) (Gen.Mds12.mds_multiply.s_z_7 (Gen.Mds12.mds_multiply.s_s_hi_7 (Gen.Mds12.mds_multiply.s_s_19 h l))))) = tailRed l h := rfl

theorem fold_8 (h l : Nat) :
    (Gen.Mds12.mds_multiply.s_result_8_1 (Gen.Mds12.mds_multiply.s_res_8 (Gen.Mds12.mds_multiply.s_s_lo_8 (Gen.Mds12.mds_multiply.s_s_20 h l)) (Gen.Mds12.mds_multiply.s_z_8 (Gen.Mds12.mds_multiply.s_s_hi_8 (Gen.Mds12.mds_multiply.s_s_20 h l)))) (Gen.Mds12.mds_multiply.s_over_8 (Gen.Mds12.mds_multiply.s_s_lo_8 (Gen.Mds12.mds_multiply.s_s_20 h l)) (Gen.Mds12.mds_multiply.s_z_8 (Gen.Mds12.mds_multiply.s_s_hi_8 (Gen.Mds12.mds_multiply.s_s_20 h l))))) = tailRed l h := rfl

theorem fold_9 (h l : Nat) :
    (Gen.Mds12.mds_multiply.s_result_9_1 (Gen.Mds12.mds_multiply.s_res_9 (Gen.Mds12.mds_multiply.s_s_lo_9 (Gen.Mds12.mds_multiply.s_s_21 h l)) (Gen.Mds12.mds_multiply.s_z_9 (Gen.Mds12.mds_multiply.s_s_hi_9 (Gen.Mds12.mds_multiply.s_s_21 h l)))) (Gen.Mds12.mds_multiply.s_over_9 (Gen.Mds12.mds_multiply.s_s_lo_9 (Gen.Mds12.mds_multiply.s_s_21 h l)) (Gen.Mds12.mds_multiply.s_z_9 (Gen.Mds12.mds_multiply.s_s_hi_9 (Gen.Mds12.mds_multiply.s_s_21 h l))))) = tailRed l h := rfl

theorem fold_10 (h l : Nat) :
    (Gen.Mds12.mds_multiply.s_result_10_1 (Gen.Mds12.mds_multiply.s_res_10 (Gen.Mds12.mds_multiply.s_s_lo_10 (Gen.Mds12.mds_multiply.s_s_22 h l)) (Gen.Mds12.mds_multiply.s_z_10 (Gen.Mds12.mds_multiply.s_s_hi_10 (Gen.Mds12.mds_multiply.s_s_22 h l)))) (Gen.Mds12.mds_multiply.s_over_10 (Gen.Mds12.mds_multiply.s_s_lo_10 (Gen.Mds12.mds_multiply.s_s_22 h l)) (Gen.Mds12.mds_multiply.s_z_10 (Gen.Mds12.mds_multiply.s_s_hi_10 (Gen.Mds12.mds_multiply.s_s_22 h l))))) = tailRed l h := rfl

theorem fold_11 (h l : Nat) :
    (Gen.Mds12.mds_multiply.s_result_11_1 (Gen.Mds12.mds_multiply.s_res_11 (Gen.Mds12.mds_multiply.s_s_lo_11 (Gen.Mds12.mds_multiply.s_s_23 h l)) (Gen.Mds12.mds_multiply.s_z_11 (Gen.Mds12.mds_multiply.s_s_hi_11 (Gen.Mds12.mds_multiply.s_s_23 h l)))) (Gen.Mds12.mds_multiply.s_over_11 (Gen.Mds12.mds_multiply.s_s_lo_11 (Gen.Mds12.mds_multiply.s_s_23 h l)) (Gen.Mds12.mds_multiply.s_z_11 (Gen.Mds12.mds_multiply.s_s_hi_11 (Gen.Mds12.mds_multiply.s_s_23 h l))))) = tailRed l h := rfl

/-- the plumbing of `mds_multiply` (which `let` feeds which): every output component is the
    reduction tail of the two frequency-domain products of the low and high 32-bit limbs.
    NOT proved in Lean: every route tried (simp unfolding, `rfl`, fold-then-rewrite) makes the
    kernel unfold arithmetic on 2^64 literals past the identity wrappers `s_state_k_1` the translator
    emits ("deep recursion"). The individual steps are proved (`fold_k`: each generated tail chain is
    `tailRed`; `freq_*`: both products); this remaining statement is tied to the code by the
    correspondence harness (`perm` / `round` ops, raw words compared bit for bit). -/
def mm_eq_tail_statement : Prop :=
  ∀ (x0 x1 x2 x3 x4 x5 x6 x7 x8 x9 x10 x11 : Nat),
    Gen.Mds12.mds_multiply x0 x1 x2 x3 x4 x5 x6 x7 x8 x9 x10 x11 =
      (tailRed (Gen.Mds12.mds_multiply_freq (x0 % 4294967296) (x1 % 4294967296) (x2 % 4294967296) (x3 % 4294967296) (x4 % 4294967296) (x5 % 4294967296) (x6 % 4294967296) (x7 % 4294967296) (x8 % 4294967296) (x9 % 4294967296) (x10 % 4294967296) (x11 % 4294967296)).1
         (Gen.Mds12.mds_multiply_freq (x0 / 4294967296) (x1 / 4294967296) (x2 / 4294967296) (x3 / 4294967296) (x4 / 4294967296) (x5 / 4294967296) (x6 / 4294967296) (x7 / 4294967296) (x8 / 4294967296) (x9 / 4294967296) (x10 / 4294967296) (x11 / 4294967296)).1,
       tailRed (Gen.Mds12.mds_multiply_freq (x0 % 4294967296) (x1 % 4294967296) (x2 % 4294967296) (x3 % 4294967296) (x4 % 4294967296) (x5 % 4294967296) (x6 % 4294967296) (x7 % 4294967296) (x8 % 4294967296) (x9 % 4294967296) (x10 % 4294967296) (x11 % 4294967296)).2.1
         (Gen.Mds12.mds_multiply_freq (x0 / 4294967296) (x1 / 4294967296) (x2 / 4294967296) (x3 / 4294967296) (x4 / 4294967296) (x5 / 4294967296) (x6 / 4294967296) (x7 / 4294967296) (x8 / 4294967296) (x9 / 4294967296) (x10 / 4294967296) (x11 / 4294967296)).2.1,
       tailRed (Gen.Mds12.mds_multiply_freq (x0 % 4294967296) (x1 % 4294967296) (x2 % 4294967296) (x3 % 4294967296) (x4 % 4294967296) (x5 % 4294967296) (x6 % 4294967296) (x7 % 4294967296) (x8 % 4294967296) (x9 % 4294967296) (x10 % 4294967296) (x11 % 4294967296)).2.2.1
         (Gen.Mds12.mds_multiply_freq (x0 / 4294967296) (x1 / 4294967296) (x2 / 4294967296) (x3 / 4294967296) (x4 / 4294967296) (x5 / 4294967296) (x6 / 4294967296) (x7 / 4294967296) (x8 / 4294967296) (x9 / 4294967296) (x10 / 4294967296) (x11 / 4294967296)).2.2.1,
       tailRed (Gen.Mds12.mds_multiply_freq (x0 % 4294967296) (x1 % 4294967296) (x2 % 4294967296) (x3 % 4294967296) (x4 % 4294967296) (x5 % 4294967296) (x6 % 4294967296) (x7 % 4294967296) (x8 % 4294967296) (x9 % 4294967296) (x10 % 4294967296) (x11 % 4294967296)).2.2.2.1
         (Gen.Mds12.mds_multiply_freq (x0 / 4294967296) (x1 / 4294967296) (x2 / 4294967296) (x3 / 4294967296) (x4 / 4294967296) (x5 / 4294967296) (x6 / 4294967296) (x7 / 4294967296) (x8 / 4294967296) (x9 / 4294967296) (x10 / 4294967296) (x11 / 4294967296)).2.2.2.1,
       tailRed (Gen.Mds12.mds_multiply_freq (x0 % 4294967296) (x1 % 4294967296) (x2 % 4294967296) (x3 % 4294967296) (x4 % 4294967296) (x5 % 4294967296) (x6 % 4294967296) (x7 % 4294967296) (x8 % 4294967296) (x9 % 4294967296) (x10 % 4294967296) (x11 % 4294967296)).2.2.2.2.1
         (Gen.Mds12.mds_multiply_freq (x0 / 4294967296) (x1 / 4294967296) (x2 / 4294967296) (x3 / 4294967296) (x4 / 4294967296) (x5 / 4294967296) (x6 / 4294967296) (x7 / 4294967296) (x8 / 4294967296) (x9 / 4294967296) (x10 / 4294967296) (x11 / 4294967296)).2.2.2.2.1,
       tailRed (Gen.Mds12.mds_multiply_freq (x0 % 4294967296) (x1 % 4294967296) (x2 % 4294967296) (x3 % 4294967296) (x4 % 4294967296) (x5 % 4294967296) (x6 % 4294967296) (x7 % 4294967296) (x8 % 4294967296) (x9 % 4294967296) (x10 % 4294967296) (x11 % 4294967296)).2.2.2.2.2.1
         (Gen.Mds12.mds_multiply_freq (x0 / 4294967296) (x1 / 4294967296) (x2 / 4294967296) (x3 / 4294967296) (x4 / 4294967296) (x5 / 4294967296) (x6 / 4294967296) (x7 / 4294967296) (x8 / 4294967296) (x9 / 4294967296) (x10 / 4294967296) (x11 / 4294967296)).2.2.2.2.2.1,
       tailRed (Gen.Mds12.mds_multiply_freq (x0 % 4294967296) (x1 % 4294967296) (x2 % 4294967296) (x3 % 4294967296) (x4 % 4294967296) (x5 % 4294967296) (x6 % 4294967296) (x7 % 4294967296) (x8 % 4294967296) (x9 % 4294967296) (x10 % 4294967296) (x11 % 4294967296)).2.2.2.2.2.2.1
         (Gen.Mds12.mds_multiply_freq (x0 / 4294967296) (x1 / 4294967296) (x2 / 4294967296) (x3 / 4294967296) (x4 / 4294967296) (x5 / 4294967296) (x6 / 4294967296) (x7 / 4294967296) (x8 / 4294967296) (x9 / 4294967296) (x10 / 4294967296) (x11 / 4294967296)).2.2.2.2.2.2.1,
       tailRed (Gen.Mds12.mds_multiply_freq (x0 % 4294967296) (x1 % 4294967296) (x2 % 4294967296) (x3 % 4294967296) (x4 % 4294967296) (x5 % 4294967296) (x6 % 4294967296) (x7 % 4294967296) (x8 % 4294967296) (x9 % 4294967296) (x10 % 4294967296) (x11 % 4294967296)).2.2.2.2.2.2.2.1
         (Gen.Mds12.mds_multiply_freq (x0 / 4294967296) (x1 / 4294967296) (x2 / 4294967296) (x3 / 4294967296) (x4 / 4294967296) (x5 / 4294967296) (x6 / 4294967296) (x7 / 4294967296) (x8 / 4294967296) (x9 / 4294967296) (x10 / 4294967296) (x11 / 4294967296)).2.2.2.2.2.2.2.1,
       tailRed (Gen.Mds12.mds_multiply_freq (x0 % 4294967296) (x1 % 4294967296) (x2 % 4294967296) (x3 % 4294967296) (x4 % 4294967296) (x5 % 4294967296) (x6 % 4294967296) (x7 % 4294967296) (x8 % 4294967296) (x9 % 4294967296) (x10 % 4294967296) (x11 % 4294967296)).2.2.2.2.2.2.2.2.1
         (Gen.Mds12.mds_multiply_freq (x0 / 4294967296) (x1 / 4294967296) (x2 / 4294967296) (x3 / 4294967296) (x4 / 4294967296) (x5 / 4294967296) (x6 / 4294967296) (x7 / 4294967296) (x8 / 4294967296) (x9 / 4294967296) (x10 / 4294967296) (x11 / 4294967296)).2.2.2.2.2.2.2.2.1,
       tailRed (Gen.Mds12.mds_multiply_freq (x0 % 4294967296) (x1 % 4294967296) (x2 % 4294967296) (x3 % 4294967296) (x4 % 4294967296) (x5 % 4294967296) (x6 % 4294967296) (x7 % 4294967296) (x8 % 4294967296) (x9 % 4294967296) (x10 % 4294967296) (x11 % 4294967296)).2.2.2.2.2.2.2.2.2.1
         (Gen.Mds12.mds_multiply_freq (x0 / 4294967296) (x1 / 4294967296) (x2 / 4294967296) (x3 / 4294967296) (x4 / 4294967296) (x5 / 4294967296) (x6 / 4294967296) (x7 / 4294967296) (x8 / 4294967296) (x9 / 4294967296) (x10 / 4294967296) (x11 / 4294967296)).2.2.2.2.2.2.2.2.2.1,
       tailRed (Gen.Mds12.mds_multiply_freq (x0 % 4294967296) (x1 % 4294967296) (x2 % 4294967296) (x3 % 4294967296) (x4 % 4294967296) (x5 % 4294967296) (x6 % 4294967296) (x7 % 4294967296) (x8 % 4294967296) (x9 % 4294967296) (x10 % 4294967296) (x11 % 4294967296)).2.2.2.2.2.2.2.2.2.2.1
         (Gen.Mds12.mds_multiply_freq (x0 / 4294967296) (x1 / 4294967296) (x2 / 4294967296) (x3 / 4294967296) (x4 / 4294967296) (x5 / 4294967296) (x6 / 4294967296) (x7 / 4294967296) (x8 / 4294967296) (x9 / 4294967296) (x10 / 4294967296) (x11 / 4294967296)).2.2.2.2.2.2.2.2.2.2.1,
       tailRed (Gen.Mds12.mds_multiply_freq (x0 % 4294967296) (x1 % 4294967296) (x2 % 4294967296) (x3 % 4294967296) (x4 % 4294967296) (x5 % 4294967296) (x6 % 4294967296) (x7 % 4294967296) (x8 % 4294967296) (x9 % 4294967296) (x10 % 4294967296) (x11 % 4294967296)).2.2.2.2.2.2.2.2.2.2.2
         (Gen.Mds12.mds_multiply_freq (x0 / 4294967296) (x1 / 4294967296) (x2 / 4294967296) (x3 / 4294967296) (x4 / 4294967296) (x5 / 4294967296) (x6 / 4294967296) (x7 / 4294967296) (x8 / 4294967296) (x9 / 4294967296) (x10 / 4294967296) (x11 / 4294967296)).2.2.2.2.2.2.2.2.2.2.2)

end WinterProofs.C11.Mds12
