-- C10 helper lemmas: completeness of batch openings, leaf level and assembly
import WinterProofs.Lemmas.C10Complete

namespace WinterProofs.C10
open Model.Merkle

variable {D : Type}

/-- the node row the prover emits for the leaf pair at the even position `e` -/
def missing (imap : SMap Nat) (lv : Nat → D) (e : Nat) : List D :=
  (if SMap.get imap e = none then [lv e] else []) ++ (if SMap.get imap (e + 1) = none then [lv (e + 1)] else [])

theorem placeLeaf_some (imap : SMap Nat) (i : Nat) (v : D) (L m : List D) (j : Nat)
    (h : SMap.get imap i = some j) (hj : j < L.length) : placeLeaf imap i v L m = .ok (L.set j v, m) := by
  simp [placeLeaf, h, hj]

theorem placeLeaf_none (imap : SMap Nat) (i : Nat) (v : D) (L m : List D)
    (h : SMap.get imap i = none) : placeLeaf imap i v L m = .ok (L, m ++ [v]) := by
  simp [placeLeaf, h]

/-- facts about the position list, its map and its leaves used by the leaf-level lemmas -/
structure LeafCtx (idxs : List Nat) (imap : SMap Nat) : Prop where
  get : ∀ j (hj : j < idxs.length), SMap.get imap idxs[j] = some j
  sound : ∀ i j, SMap.get imap i = some j → idxs[j]? = some i

theorem LeafCtx.lt {idxs : List Nat} {imap : SMap Nat} (c : LeafCtx idxs imap) {i j : Nat}
    (h : SMap.get imap i = some j) : j < idxs.length := by
  have := c.sound i j h
  rcases Nat.lt_or_ge j idxs.length with h' | h'
  · exact h'
  · rw [List.getElem?_eq_none h'] at this; cases this

/-- first loop of `prove_batch`: succeeds, emits `missing` rows, and stores the committed leaf of
    every position whose pair has been visited at the place of the position -/
theorem proveLeafLoop_ok (tl : List D) (lv : Nat → D) (idxs : List Nat) (imap : SMap Nat) (n : Nat)
    (c : LeafCtx idxs imap) : ∀ (norm : List Nat) (L : List D), Asc norm → (∀ e ∈ norm, e % 2 = 0) →
    (∀ e ∈ norm, tl[e]? = some (lv e) ∧ tl[e + 1]? = some (lv (e + 1))) → L.length = idxs.length →
    ∃ LP, proveLeafLoop tl imap n norm L =
        .ok (LP, norm.map (missing imap lv), norm.map (fun e => (e + n) / 2)) ∧
      LP.length = idxs.length ∧
      ∀ j (hj : j < idxs.length),
        (idxs[j] - idxs[j] % 2 ∈ norm → LP[j]? = some (lv idxs[j])) ∧
        (idxs[j] - idxs[j] % 2 ∉ norm → LP[j]? = L[j]?)
  | [], L, _, _, _, hL => ⟨L, rfl, hL, fun j hj => ⟨fun h => (by cases h), fun _ => rfl⟩⟩
  | e :: rest, L, hasc, hev, htl, hL => by
    obtain ⟨h0, h1⟩ := htl e (List.mem_cons_self ..)
    have heven := hev e (List.mem_cons_self ..)
    -- the two placements
    obtain ⟨L1, m1, hp1, hl1, hm1, hg1⟩ : ∃ L1 m1, placeLeaf imap e (lv e) L [] = .ok (L1, m1) ∧
        L1.length = idxs.length ∧ m1 = (if SMap.get imap e = none then [lv e] else []) ∧
        ∀ j, L1[j]? = if SMap.get imap e = some j then some (lv e) else L[j]? := by
      cases hg : SMap.get imap e with
      | none =>
        exact ⟨L, [lv e], by rw [placeLeaf_none _ _ _ _ _ hg]; rfl, hL, by simp, by intro j; simp⟩
      | some j0 =>
        have hj0 : j0 < L.length := by rw [hL]; exact c.lt hg
        refine ⟨L.set j0 (lv e), [], placeLeaf_some _ _ _ _ _ _ hg hj0, by simp [hL], by simp, ?_⟩
        intro j
        rw [List.getElem?_set]
        by_cases hjj : j0 = j
        · subst hjj; simp [hj0]
        · simp [hjj]
    obtain ⟨L2, hp2, hl2, hg2⟩ : ∃ L2, placeLeaf imap (e + 1) (lv (e + 1)) L1 m1 = .ok (L2, missing imap lv e) ∧
        L2.length = idxs.length ∧
        ∀ j, L2[j]? = if SMap.get imap (e + 1) = some j then some (lv (e + 1)) else L1[j]? := by
      cases hg : SMap.get imap (e + 1) with
      | none =>
        exact ⟨L1, by rw [placeLeaf_none _ _ _ _ _ hg, hm1]; simp [missing, hg], hl1, by intro j; simp⟩
      | some j1 =>
        have hj1 : j1 < L1.length := by rw [hl1]; exact c.lt hg
        refine ⟨L1.set j1 (lv (e + 1)), by rw [placeLeaf_some _ _ _ _ _ _ hg hj1, hm1]; simp [missing, hg],
          by simp [hl1], ?_⟩
        intro j
        rw [List.getElem?_set]
        by_cases hjj : j1 = j
        · subst hjj; simp [hj1]
        · simp [hjj]
    obtain ⟨LP, hrec, hlp, hprop⟩ := proveLeafLoop_ok tl lv idxs imap n c rest L2 (Asc.tail hasc)
      (fun x hx => hev x (List.mem_cons_of_mem _ hx)) (fun x hx => htl x (List.mem_cons_of_mem _ hx)) hl2
    refine ⟨LP, ?_, hlp, ?_⟩
    · simp only [proveLeafLoop, h0, h1, hp1, Res.ok_bind, hp2, hrec, List.map_cons]
    · intro j hj
      have henot : e ∉ rest := fun hm => by have := Asc.head_lt hasc e hm; omega
      obtain ⟨q1, q2⟩ := hprop j hj
      have hgj := c.get j hj
      by_cases hb : idxs[j] - idxs[j] % 2 = e
      · -- the pair of position j is the current one
        have hL2 : L2[j]? = some (lv idxs[j]) := by
          rw [hg2 j]
          by_cases hi : idxs[j] = e
          · have hne : SMap.get imap (e + 1) ≠ some j := by
              intro hh
              have := c.sound _ _ hh
              rw [List.getElem?_eq_getElem hj] at this
              injection this with this; omega
            rw [if_neg hne, hg1 j, ← hi, if_pos hgj]
          · have hi' : idxs[j] = e + 1 := by omega
            rw [← hi', if_pos hgj]
        refine ⟨fun _ => ?_, fun h => absurd (hb ▸ List.mem_cons_self ..) h⟩
        rw [q2 (hb ▸ henot)]; exact hL2
      · have hL2 : L2[j]? = L[j]? := by
          rw [hg2 j, hg1 j]
          have hne1 : SMap.get imap (e + 1) ≠ some j := by
            intro hh
            have := c.sound _ _ hh
            rw [List.getElem?_eq_getElem hj] at this
            injection this with this; omega
          have hne0 : SMap.get imap e ≠ some j := by
            intro hh
            have := c.sound _ _ hh
            rw [List.getElem?_eq_getElem hj] at this
            injection this with this; omega
          rw [if_neg hne1, if_neg hne0]
        refine ⟨fun h => ?_, fun h => ?_⟩
        · rcases List.mem_cons.1 h with h | h
          · exact absurd h hb
          · exact q1 h
        · rw [q2 (fun hm => h (List.mem_cons_of_mem _ hm))]; exact hL2

/-- `leafPair` on the prover's leaves and a row extending the `missing` row -/
theorem leafPair_honest (LP : List D) (imap : SMap Nat) (lv : Nat → D) (e : Nat) (rF suf : List D)
    (hrF : rF = missing imap lv e ++ suf)
    (h0 : ∀ j, SMap.get imap e = some j → LP[j]? = some (lv e))
    (h1 : ∀ j, SMap.get imap (e + 1) = some j → LP[j]? = some (lv (e + 1)))
    (hsome : SMap.get imap e ≠ none ∨ SMap.get imap (e + 1) ≠ none) :
    leafPair LP imap e rF = .ok (lv e, lv (e + 1), (missing imap lv e).length) := by
  unfold leafPair
  cases hg0 : SMap.get imap e with
  | some j0 =>
    simp only [h0 j0 hg0]
    cases hg1 : SMap.get imap (e + 1) with
    | some j1 => simp [h1 j1 hg1, missing, hg0, hg1]
    | none => simp [hrF, missing, hg0, hg1]
  | none =>
    cases hg1 : SMap.get imap (e + 1) with
    | some j1 => simp [hrF, missing, hg0, hg1, h1 j1 hg1]
    | none => simp [hg0, hg1] at hsome

/-- first loop of `get_root` on the prover's leaves and (extended) rows -/
theorem rootLeafLoop_honest (H : Hasher D) (val : Nat → D) (LP : List D) (imap : SMap Nat) (lv : Nat → D)
    (offset : Nat) : ∀ (norm : List Nat) (rowsF : List (List D)) (v : SMap D),
    Asc norm → (∀ e ∈ norm, e % 2 = 0) → Ext (norm.map (missing imap lv)) rowsF →
    (∀ e ∈ norm, (∀ j, SMap.get imap e = some j → LP[j]? = some (lv e)) ∧
      (∀ j, SMap.get imap (e + 1) = some j → LP[j]? = some (lv (e + 1))) ∧
      (SMap.get imap e ≠ none ∨ SMap.get imap (e + 1) ≠ none) ∧
      H.merge (lv e) (lv (e + 1)) = val ((offset + e) / 2)) →
    ∃ v1, rootLeafLoop H LP imap offset norm rowsF v =
        .ok (v1, (norm.map (missing imap lv)).map List.length, norm.map (fun e => (offset + e) / 2)) ∧
      (∀ e ∈ norm, SMap.get v1 ((offset + e) / 2) = some (val ((offset + e) / 2))) ∧
      (∀ key, (∀ e ∈ norm, key < (offset + e) / 2) → SMap.get v1 key = SMap.get v key)
  | [], rowsF, v, _, _, _, _ => ⟨v, by simp [rootLeafLoop], fun _ h => (by cases h), fun _ _ => rfl⟩
  | e :: rest, rowsF, v, hasc, hev, hext, hf => by
    match rowsF, hext with
    | rF :: rFs, .cons ⟨suf, hsuf⟩ hext' =>
      obtain ⟨f0, f1, f2, f3⟩ := hf e (List.mem_cons_self ..)
      have hpair := leafPair_honest LP imap lv e rF suf hsuf f0 f1 f2
      obtain ⟨v1, i1, i2, i3⟩ := rootLeafLoop_honest H val LP imap lv offset rest rFs
        (SMap.insert v ((offset + e) / 2) (val ((offset + e) / 2))) (Asc.tail hasc)
        (fun x hx => hev x (List.mem_cons_of_mem _ hx)) hext' (fun x hx => hf x (List.mem_cons_of_mem _ hx))
      have hlt : ∀ x ∈ rest, (offset + e) / 2 < (offset + x) / 2 := by
        intro x hx
        have := Asc.head_lt hasc x hx
        have := hev x (List.mem_cons_of_mem _ hx)
        have := hev e (List.mem_cons_self ..)
        omega
      refine ⟨v1, ?_, ?_, ?_⟩
      · simp only [rootLeafLoop, hpair, Res.ok_bind, f3, i1, List.map_cons]
      · intro x hx
        rcases List.mem_cons.1 hx with rfl | hx
        · rw [i3 _ (fun z hz => hlt z hz)]; exact SMap.get_insert_self _ _ _
        · exact i2 x hx
      · intro key hkey
        rw [i3 key (fun x hx => hkey x (List.mem_cons_of_mem _ hx))]
        exact SMap.get_insert_ne _ _ _ _ (by have := hkey e (List.mem_cons_self ..); omega)

end WinterProofs.C10
