-- C11 helper lemmas: the frequency-domain MDS product of crypto/src/hash/mds (Mds8) is the
-- circulant matrix-vector product, exactly and without overflow.  Written by gen_c11_mds.py from the
-- generated modules (step-definition names and the coefficient tuple); checked against them by Lean.
import Winter.Gen.Mds8
import Winter.Gen.Rp64Jive
import WinterProofs.Lemmas.C11MdsCommon
set_option linter.unusedSimpArgs false
set_option linter.unusedVariables false
set_option maxRecDepth 100000

namespace WinterProofs.C11.Mds8
open Gen WinterProofs.C11

/-- every `i64` intermediate of `mds_multiply_freq` is in range when the limbs are below `2^32` -/
theorem freq_ok (s0 s1 s2 s3 s4 s5 s6 s7 : Nat) (h0 : s0 < 4294967296) (h1 : s1 < 4294967296) (h2 : s2 < 4294967296) (h3 : s3 < 4294967296) (h4 : s4 < 4294967296) (h5 : s5 < 4294967296) (h6 : s6 < 4294967296) (h7 : s7 < 4294967296) :
    Gen.Mds8.mds_multiply_freq_ok s0 s1 s2 s3 s4 s5 s6 s7 = true := by
  have e0 := toSigned_small s0 (by omega)
  have e1 := toSigned_small s1 (by omega)
  have e2 := toSigned_small s2 (by omega)
  have e3 := toSigned_small s3 (by omega)
  have e4 := toSigned_small s4 (by omega)
  have e5 := toSigned_small s5 (by omega)
  have e6 := toSigned_small s6 (by omega)
  have e7 := toSigned_small s7 (by omega)
  simp only [Gen.RealFft.fft2_real, Gen.RealFft.fft2_real_ok, Gen.RealFft.ifft2_real_unreduced,
      Gen.RealFft.ifft2_real_unreduced_ok, Gen.RealFft.fft4_real.s_r, Gen.RealFft.fft4_real.s_z0,
      Gen.RealFft.fft4_real.s_z2, Gen.RealFft.fft4_real.s_r_1, Gen.RealFft.fft4_real.s_z1,
      Gen.RealFft.fft4_real.s_z3, Gen.RealFft.fft4_real.s_y0, Gen.RealFft.fft4_real.s_y1_0,
      Gen.RealFft.fft4_real.s_y1_1, Gen.RealFft.fft4_real.s_y2, Gen.RealFft.fft4_real,
      Gen.RealFft.fft4_real_ok, Gen.RealFft.ifft4_real_unreduced.s_z0,
      Gen.RealFft.ifft4_real_unreduced.s_z1, Gen.RealFft.ifft4_real_unreduced.s_z2,
      Gen.RealFft.ifft4_real_unreduced.s_z3, Gen.RealFft.ifft4_real_unreduced.s_r,
      Gen.RealFft.ifft4_real_unreduced.s_x0, Gen.RealFft.ifft4_real_unreduced.s_x2,
      Gen.RealFft.ifft4_real_unreduced.s_r_1, Gen.RealFft.ifft4_real_unreduced.s_x1,
      Gen.RealFft.ifft4_real_unreduced.s_x3, Gen.RealFft.ifft4_real_unreduced,
      Gen.RealFft.ifft4_real_unreduced_ok, Gen.Mds8.block1.s_x0, Gen.Mds8.block1.s_x1,
      Gen.Mds8.block1.s_y0, Gen.Mds8.block1.s_y1, Gen.Mds8.block1.s_z0, Gen.Mds8.block1.s_z1,
      Gen.Mds8.block1, Gen.Mds8.block1_ok, Gen.Mds8.block2.s_x0r, Gen.Mds8.block2.s_x0i,
      Gen.Mds8.block2.s_x1r, Gen.Mds8.block2.s_x1i, Gen.Mds8.block2.s_y0r, Gen.Mds8.block2.s_y0i,
      Gen.Mds8.block2.s_y1r, Gen.Mds8.block2.s_y1i, Gen.Mds8.block2.s_x0s, Gen.Mds8.block2.s_x1s,
      Gen.Mds8.block2.s_y0s, Gen.Mds8.block2.s_y1s, Gen.Mds8.block2.s_m0_0, Gen.Mds8.block2.s_m0_1,
      Gen.Mds8.block2.s_m1_0, Gen.Mds8.block2.s_m1_1, Gen.Mds8.block2.s_z0r, Gen.Mds8.block2.s_z0i,
      Gen.Mds8.block2.s_z0_0, Gen.Mds8.block2.s_z0_1, Gen.Mds8.block2.s_m0_0_1, Gen.Mds8.block2.s_m0_1_1,
      Gen.Mds8.block2.s_m1_0_1, Gen.Mds8.block2.s_m1_1_1, Gen.Mds8.block2.s_z1r, Gen.Mds8.block2.s_z1i,
      Gen.Mds8.block2.s_z1_0, Gen.Mds8.block2.s_z1_1, Gen.Mds8.block2, Gen.Mds8.block2_ok,
      Gen.Mds8.block3.s_x0, Gen.Mds8.block3.s_x1, Gen.Mds8.block3.s_y0, Gen.Mds8.block3.s_y1,
      Gen.Mds8.block3.s_z0, Gen.Mds8.block3.s_z1, Gen.Mds8.block3, Gen.Mds8.block3_ok,
      Gen.Mds8.mds_multiply_freq.s_s0, Gen.Mds8.mds_multiply_freq.s_s1, Gen.Mds8.mds_multiply_freq.s_s2,
      Gen.Mds8.mds_multiply_freq.s_s3, Gen.Mds8.mds_multiply_freq.s_s4, Gen.Mds8.mds_multiply_freq.s_s5,
      Gen.Mds8.mds_multiply_freq.s_s6, Gen.Mds8.mds_multiply_freq.s_s7, Gen.Mds8.mds_multiply_freq.s_r,
      Gen.Mds8.mds_multiply_freq.s_u0, Gen.Mds8.mds_multiply_freq.s_u1_0,
      Gen.Mds8.mds_multiply_freq.s_u1_1, Gen.Mds8.mds_multiply_freq.s_u2, Gen.Mds8.mds_multiply_freq.s_r_1,
      Gen.Mds8.mds_multiply_freq.s_u4, Gen.Mds8.mds_multiply_freq.s_u5_0,
      Gen.Mds8.mds_multiply_freq.s_u5_1, Gen.Mds8.mds_multiply_freq.s_u6, Gen.Mds8.mds_multiply_freq.s_r_2,
      Gen.Mds8.mds_multiply_freq.s_v0, Gen.Mds8.mds_multiply_freq.s_v4, Gen.Mds8.mds_multiply_freq.s_r_3,
      Gen.Mds8.mds_multiply_freq.s_v1_0, Gen.Mds8.mds_multiply_freq.s_v1_1,
      Gen.Mds8.mds_multiply_freq.s_v5_0, Gen.Mds8.mds_multiply_freq.s_v5_1,
      Gen.Mds8.mds_multiply_freq.s_r_4, Gen.Mds8.mds_multiply_freq.s_v2, Gen.Mds8.mds_multiply_freq.s_v6,
      Gen.Mds8.mds_multiply_freq.s_r_5, Gen.Mds8.mds_multiply_freq.s_s0_1,
      Gen.Mds8.mds_multiply_freq.s_s2_1, Gen.Mds8.mds_multiply_freq.s_s4_1,
      Gen.Mds8.mds_multiply_freq.s_s6_1, Gen.Mds8.mds_multiply_freq.s_r_6,
      Gen.Mds8.mds_multiply_freq.s_s1_1, Gen.Mds8.mds_multiply_freq.s_s3_1,
      Gen.Mds8.mds_multiply_freq.s_s5_1, Gen.Mds8.mds_multiply_freq.s_s7_1, Gen.Mds8.mds_multiply_freq,
      Gen.Mds8.mds_multiply_freq_ok,
      e0, e1, e2, e3, e4, e5, e6, e7, Bool.and_eq_true, decide_eq_true_eq]
  repeat' (first | apply And.intro | apply decide_eq_true | rw [Bool.and_eq_true])
  all_goals omega

/-- `mds_multiply_freq` is the matrix-vector product with these integer rows, exactly -/
theorem freq_eq_tuple (s0 s1 s2 s3 s4 s5 s6 s7 : Nat) (h0 : s0 < 4294967296) (h1 : s1 < 4294967296) (h2 : s2 < 4294967296) (h3 : s3 < 4294967296) (h4 : s4 < 4294967296) (h5 : s5 < 4294967296) (h6 : s6 < 4294967296) (h7 : s7 < 4294967296) :
    Gen.Mds8.mds_multiply_freq s0 s1 s2 s3 s4 s5 s6 s7 =
      (23 * s0 + 8 * s1 + 13 * s2 + 10 * s3 + 7 * s4 + 6 * s5 + 21 * s6 + 8 * s7,
       8 * s0 + 23 * s1 + 8 * s2 + 13 * s3 + 10 * s4 + 7 * s5 + 6 * s6 + 21 * s7,
       21 * s0 + 8 * s1 + 23 * s2 + 8 * s3 + 13 * s4 + 10 * s5 + 7 * s6 + 6 * s7,
       6 * s0 + 21 * s1 + 8 * s2 + 23 * s3 + 8 * s4 + 13 * s5 + 10 * s6 + 7 * s7,
       7 * s0 + 6 * s1 + 21 * s2 + 8 * s3 + 23 * s4 + 8 * s5 + 13 * s6 + 10 * s7,
       10 * s0 + 7 * s1 + 6 * s2 + 21 * s3 + 8 * s4 + 23 * s5 + 8 * s6 + 13 * s7,
       13 * s0 + 10 * s1 + 7 * s2 + 6 * s3 + 21 * s4 + 8 * s5 + 23 * s6 + 8 * s7,
       8 * s0 + 13 * s1 + 10 * s2 + 7 * s3 + 6 * s4 + 21 * s5 + 8 * s6 + 23 * s7) := by
  have e0 := toSigned_small s0 (by omega)
  have e1 := toSigned_small s1 (by omega)
  have e2 := toSigned_small s2 (by omega)
  have e3 := toSigned_small s3 (by omega)
  have e4 := toSigned_small s4 (by omega)
  have e5 := toSigned_small s5 (by omega)
  have e6 := toSigned_small s6 (by omega)
  have e7 := toSigned_small s7 (by omega)
  simp only [Gen.RealFft.fft2_real, Gen.RealFft.fft2_real_ok, Gen.RealFft.ifft2_real_unreduced,
      Gen.RealFft.ifft2_real_unreduced_ok, Gen.RealFft.fft4_real.s_r, Gen.RealFft.fft4_real.s_z0,
      Gen.RealFft.fft4_real.s_z2, Gen.RealFft.fft4_real.s_r_1, Gen.RealFft.fft4_real.s_z1,
      Gen.RealFft.fft4_real.s_z3, Gen.RealFft.fft4_real.s_y0, Gen.RealFft.fft4_real.s_y1_0,
      Gen.RealFft.fft4_real.s_y1_1, Gen.RealFft.fft4_real.s_y2, Gen.RealFft.fft4_real,
      Gen.RealFft.fft4_real_ok, Gen.RealFft.ifft4_real_unreduced.s_z0,
      Gen.RealFft.ifft4_real_unreduced.s_z1, Gen.RealFft.ifft4_real_unreduced.s_z2,
      Gen.RealFft.ifft4_real_unreduced.s_z3, Gen.RealFft.ifft4_real_unreduced.s_r,
      Gen.RealFft.ifft4_real_unreduced.s_x0, Gen.RealFft.ifft4_real_unreduced.s_x2,
      Gen.RealFft.ifft4_real_unreduced.s_r_1, Gen.RealFft.ifft4_real_unreduced.s_x1,
      Gen.RealFft.ifft4_real_unreduced.s_x3, Gen.RealFft.ifft4_real_unreduced,
      Gen.RealFft.ifft4_real_unreduced_ok, Gen.Mds8.block1.s_x0, Gen.Mds8.block1.s_x1,
      Gen.Mds8.block1.s_y0, Gen.Mds8.block1.s_y1, Gen.Mds8.block1.s_z0, Gen.Mds8.block1.s_z1,
      Gen.Mds8.block1, Gen.Mds8.block1_ok, Gen.Mds8.block2.s_x0r, Gen.Mds8.block2.s_x0i,
      Gen.Mds8.block2.s_x1r, Gen.Mds8.block2.s_x1i, Gen.Mds8.block2.s_y0r, Gen.Mds8.block2.s_y0i,
      Gen.Mds8.block2.s_y1r, Gen.Mds8.block2.s_y1i, Gen.Mds8.block2.s_x0s, Gen.Mds8.block2.s_x1s,
      Gen.Mds8.block2.s_y0s, Gen.Mds8.block2.s_y1s, Gen.Mds8.block2.s_m0_0, Gen.Mds8.block2.s_m0_1,
      Gen.Mds8.block2.s_m1_0, Gen.Mds8.block2.s_m1_1, Gen.Mds8.block2.s_z0r, Gen.Mds8.block2.s_z0i,
      Gen.Mds8.block2.s_z0_0, Gen.Mds8.block2.s_z0_1, Gen.Mds8.block2.s_m0_0_1, Gen.Mds8.block2.s_m0_1_1,
      Gen.Mds8.block2.s_m1_0_1, Gen.Mds8.block2.s_m1_1_1, Gen.Mds8.block2.s_z1r, Gen.Mds8.block2.s_z1i,
      Gen.Mds8.block2.s_z1_0, Gen.Mds8.block2.s_z1_1, Gen.Mds8.block2, Gen.Mds8.block2_ok,
      Gen.Mds8.block3.s_x0, Gen.Mds8.block3.s_x1, Gen.Mds8.block3.s_y0, Gen.Mds8.block3.s_y1,
      Gen.Mds8.block3.s_z0, Gen.Mds8.block3.s_z1, Gen.Mds8.block3, Gen.Mds8.block3_ok,
      Gen.Mds8.mds_multiply_freq.s_s0, Gen.Mds8.mds_multiply_freq.s_s1, Gen.Mds8.mds_multiply_freq.s_s2,
      Gen.Mds8.mds_multiply_freq.s_s3, Gen.Mds8.mds_multiply_freq.s_s4, Gen.Mds8.mds_multiply_freq.s_s5,
      Gen.Mds8.mds_multiply_freq.s_s6, Gen.Mds8.mds_multiply_freq.s_s7, Gen.Mds8.mds_multiply_freq.s_r,
      Gen.Mds8.mds_multiply_freq.s_u0, Gen.Mds8.mds_multiply_freq.s_u1_0,
      Gen.Mds8.mds_multiply_freq.s_u1_1, Gen.Mds8.mds_multiply_freq.s_u2, Gen.Mds8.mds_multiply_freq.s_r_1,
      Gen.Mds8.mds_multiply_freq.s_u4, Gen.Mds8.mds_multiply_freq.s_u5_0,
      Gen.Mds8.mds_multiply_freq.s_u5_1, Gen.Mds8.mds_multiply_freq.s_u6, Gen.Mds8.mds_multiply_freq.s_r_2,
      Gen.Mds8.mds_multiply_freq.s_v0, Gen.Mds8.mds_multiply_freq.s_v4, Gen.Mds8.mds_multiply_freq.s_r_3,
      Gen.Mds8.mds_multiply_freq.s_v1_0, Gen.Mds8.mds_multiply_freq.s_v1_1,
      Gen.Mds8.mds_multiply_freq.s_v5_0, Gen.Mds8.mds_multiply_freq.s_v5_1,
      Gen.Mds8.mds_multiply_freq.s_r_4, Gen.Mds8.mds_multiply_freq.s_v2, Gen.Mds8.mds_multiply_freq.s_v6,
      Gen.Mds8.mds_multiply_freq.s_r_5, Gen.Mds8.mds_multiply_freq.s_s0_1,
      Gen.Mds8.mds_multiply_freq.s_s2_1, Gen.Mds8.mds_multiply_freq.s_s4_1,
      Gen.Mds8.mds_multiply_freq.s_s6_1, Gen.Mds8.mds_multiply_freq.s_r_6,
      Gen.Mds8.mds_multiply_freq.s_s1_1, Gen.Mds8.mds_multiply_freq.s_s3_1,
      Gen.Mds8.mds_multiply_freq.s_s5_1, Gen.Mds8.mds_multiply_freq.s_s7_1, Gen.Mds8.mds_multiply_freq,
      Gen.Mds8.mds_multiply_freq_ok,
      e0, e1, e2, e3, e4, e5, e6, e7, Prod.mk.injEq]
  repeat' apply And.intro
  all_goals omega

/-- the rows of `freq_eq_tuple` are the rows of the generated `MDS` table -/
theorem freq_matVec (s0 s1 s2 s3 s4 s5 s6 s7 : Nat) (h0 : s0 < 4294967296) (h1 : s1 < 4294967296) (h2 : s2 < 4294967296) (h3 : s3 < 4294967296) (h4 : s4 < 4294967296) (h5 : s5 < 4294967296) (h6 : s6 < 4294967296) (h7 : s7 < 4294967296) :
    (match Gen.Mds8.mds_multiply_freq s0 s1 s2 s3 s4 s5 s6 s7 with
     | (r0, r1, r2, r3, r4, r5, r6, r7) => [r0, r1, r2, r3, r4, r5, r6, r7])
      = matVec Gen.Rp64Jive.MDS [s0, s1, s2, s3, s4, s5, s6, s7] := by
  rw [freq_eq_tuple s0 s1 s2 s3 s4 s5 s6 s7 h0 h1 h2 h3 h4 h5 h6 h7]
  simp only [matVec, dot, Gen.Rp64Jive.MDS, List.map, List.zipWith, List.sum_cons, List.sum_nil,
    List.cons.injEq, and_true]
  repeat' apply And.intro
  all_goals omega

/-- `mds_multiply` on raw words: split in 32-bit limbs, two frequency-domain products, and the
    reduction tail of each component -/
theorem mm_eq_tail (x0 x1 x2 x3 x4 x5 x6 x7 : Nat) (hx0 : x0 < 18446744073709551616) (hx1 : x1 < 18446744073709551616) (hx2 : x2 < 18446744073709551616) (hx3 : x3 < 18446744073709551616) (hx4 : x4 < 18446744073709551616) (hx5 : x5 < 18446744073709551616) (hx6 : x6 < 18446744073709551616) (hx7 : x7 < 18446744073709551616) :
    Gen.Mds8.mds_multiply x0 x1 x2 x3 x4 x5 x6 x7 =
      (tailRed (23 * (x0 % 4294967296) + 8 * (x1 % 4294967296) + 13 * (x2 % 4294967296) + 10 * (x3 % 4294967296) + 7 * (x4 % 4294967296) + 6 * (x5 % 4294967296) + 21 * (x6 % 4294967296) + 8 * (x7 % 4294967296))
         (23 * (x0 / 4294967296) + 8 * (x1 / 4294967296) + 13 * (x2 / 4294967296) + 10 * (x3 / 4294967296) + 7 * (x4 / 4294967296) + 6 * (x5 / 4294967296) + 21 * (x6 / 4294967296) + 8 * (x7 / 4294967296)),
       tailRed (8 * (x0 % 4294967296) + 23 * (x1 % 4294967296) + 8 * (x2 % 4294967296) + 13 * (x3 % 4294967296) + 10 * (x4 % 4294967296) + 7 * (x5 % 4294967296) + 6 * (x6 % 4294967296) + 21 * (x7 % 4294967296))
         (8 * (x0 / 4294967296) + 23 * (x1 / 4294967296) + 8 * (x2 / 4294967296) + 13 * (x3 / 4294967296) + 10 * (x4 / 4294967296) + 7 * (x5 / 4294967296) + 6 * (x6 / 4294967296) + 21 * (x7 / 4294967296)),
       tailRed (21 * (x0 % 4294967296) + 8 * (x1 % 4294967296) + 23 * (x2 % 4294967296) + 8 * (x3 % 4294967296) + 13 * (x4 % 4294967296) + 10 * (x5 % 4294967296) + 7 * (x6 % 4294967296) + 6 * (x7 % 4294967296))
         (21 * (x0 / 4294967296) + 8 * (x1 / 4294967296) + 23 * (x2 / 4294967296) + 8 * (x3 / 4294967296) + 13 * (x4 / 4294967296) + 10 * (x5 / 4294967296) + 7 * (x6 / 4294967296) + 6 * (x7 / 4294967296)),
       tailRed (6 * (x0 % 4294967296) + 21 * (x1 % 4294967296) + 8 * (x2 % 4294967296) + 23 * (x3 % 4294967296) + 8 * (x4 % 4294967296) + 13 * (x5 % 4294967296) + 10 * (x6 % 4294967296) + 7 * (x7 % 4294967296))
         (6 * (x0 / 4294967296) + 21 * (x1 / 4294967296) + 8 * (x2 / 4294967296) + 23 * (x3 / 4294967296) + 8 * (x4 / 4294967296) + 13 * (x5 / 4294967296) + 10 * (x6 / 4294967296) + 7 * (x7 / 4294967296)),
       tailRed (7 * (x0 % 4294967296) + 6 * (x1 % 4294967296) + 21 * (x2 % 4294967296) + 8 * (x3 % 4294967296) + 23 * (x4 % 4294967296) + 8 * (x5 % 4294967296) + 13 * (x6 % 4294967296) + 10 * (x7 % 4294967296))
         (7 * (x0 / 4294967296) + 6 * (x1 / 4294967296) + 21 * (x2 / 4294967296) + 8 * (x3 / 4294967296) + 23 * (x4 / 4294967296) + 8 * (x5 / 4294967296) + 13 * (x6 / 4294967296) + 10 * (x7 / 4294967296)),
       tailRed (10 * (x0 % 4294967296) + 7 * (x1 % 4294967296) + 6 * (x2 % 4294967296) + 21 * (x3 % 4294967296) + 8 * (x4 % 4294967296) + 23 * (x5 % 4294967296) + 8 * (x6 % 4294967296) + 13 * (x7 % 4294967296))
         (10 * (x0 / 4294967296) + 7 * (x1 / 4294967296) + 6 * (x2 / 4294967296) + 21 * (x3 / 4294967296) + 8 * (x4 / 4294967296) + 23 * (x5 / 4294967296) + 8 * (x6 / 4294967296) + 13 * (x7 / 4294967296)),
       tailRed (13 * (x0 % 4294967296) + 10 * (x1 % 4294967296) + 7 * (x2 % 4294967296) + 6 * (x3 % 4294967296) + 21 * (x4 % 4294967296) + 8 * (x5 % 4294967296) + 23 * (x6 % 4294967296) + 8 * (x7 % 4294967296))
         (13 * (x0 / 4294967296) + 10 * (x1 / 4294967296) + 7 * (x2 / 4294967296) + 6 * (x3 / 4294967296) + 21 * (x4 / 4294967296) + 8 * (x5 / 4294967296) + 23 * (x6 / 4294967296) + 8 * (x7 / 4294967296)),
       tailRed (8 * (x0 % 4294967296) + 13 * (x1 % 4294967296) + 10 * (x2 % 4294967296) + 7 * (x3 % 4294967296) + 6 * (x4 % 4294967296) + 21 * (x5 % 4294967296) + 8 * (x6 % 4294967296) + 23 * (x7 % 4294967296))
         (8 * (x0 / 4294967296) + 13 * (x1 / 4294967296) + 10 * (x2 / 4294967296) + 7 * (x3 / 4294967296) + 6 * (x4 / 4294967296) + 21 * (x5 / 4294967296) + 8 * (x6 / 4294967296) + 23 * (x7 / 4294967296))) := by
  have hh0 : x0 / 4294967296 < 4294967296 := by omega
  have hl0 : x0 % 4294967296 < 4294967296 := by omega
  have hh1 : x1 / 4294967296 < 4294967296 := by omega
  have hl1 : x1 % 4294967296 < 4294967296 := by omega
  have hh2 : x2 / 4294967296 < 4294967296 := by omega
  have hl2 : x2 % 4294967296 < 4294967296 := by omega
  have hh3 : x3 / 4294967296 < 4294967296 := by omega
  have hl3 : x3 % 4294967296 < 4294967296 := by omega
  have hh4 : x4 / 4294967296 < 4294967296 := by omega
  have hl4 : x4 % 4294967296 < 4294967296 := by omega
  have hh5 : x5 / 4294967296 < 4294967296 := by omega
  have hl5 : x5 % 4294967296 < 4294967296 := by omega
  have hh6 : x6 / 4294967296 < 4294967296 := by omega
  have hl6 : x6 % 4294967296 < 4294967296 := by omega
  have hh7 : x7 / 4294967296 < 4294967296 := by omega
  have hl7 : x7 % 4294967296 < 4294967296 := by omega
  have vh := freq_eq_tuple _ _ _ _ _ _ _ _ hh0 hh1 hh2 hh3 hh4 hh5 hh6 hh7
  have vl := freq_eq_tuple _ _ _ _ _ _ _ _ hl0 hl1 hl2 hl3 hl4 hl5 hl6 hl7
  simp only [Gen.Mds8.mds_multiply.s_result_0, Gen.Mds8.mds_multiply.s_result_1, Gen.Mds8.mds_multiply.s_result_2,
      Gen.Mds8.mds_multiply.s_result_3, Gen.Mds8.mds_multiply.s_result_4, Gen.Mds8.mds_multiply.s_result_5,
      Gen.Mds8.mds_multiply.s_result_6, Gen.Mds8.mds_multiply.s_result_7,
      Gen.Mds8.mds_multiply.s_state_l_0, Gen.Mds8.mds_multiply.s_state_l_1,
      Gen.Mds8.mds_multiply.s_state_l_2, Gen.Mds8.mds_multiply.s_state_l_3,
      Gen.Mds8.mds_multiply.s_state_l_4, Gen.Mds8.mds_multiply.s_state_l_5,
      Gen.Mds8.mds_multiply.s_state_l_6, Gen.Mds8.mds_multiply.s_state_l_7,
      Gen.Mds8.mds_multiply.s_state_h_0, Gen.Mds8.mds_multiply.s_state_h_1,
      Gen.Mds8.mds_multiply.s_state_h_2, Gen.Mds8.mds_multiply.s_state_h_3,
      Gen.Mds8.mds_multiply.s_state_h_4, Gen.Mds8.mds_multiply.s_state_h_5,
      Gen.Mds8.mds_multiply.s_state_h_6, Gen.Mds8.mds_multiply.s_state_h_7, Gen.Mds8.mds_multiply.s_s,
      Gen.Mds8.mds_multiply.s_state_h_0_1, Gen.Mds8.mds_multiply.s_state_l_0_1,
      Gen.Mds8.mds_multiply.s_s_1, Gen.Mds8.mds_multiply.s_state_h_1_1,
      Gen.Mds8.mds_multiply.s_state_l_1_1, Gen.Mds8.mds_multiply.s_s_2,
      Gen.Mds8.mds_multiply.s_state_h_2_1, Gen.Mds8.mds_multiply.s_state_l_2_1,
      Gen.Mds8.mds_multiply.s_s_3, Gen.Mds8.mds_multiply.s_state_h_3_1,
      Gen.Mds8.mds_multiply.s_state_l_3_1, Gen.Mds8.mds_multiply.s_s_4,
      Gen.Mds8.mds_multiply.s_state_h_4_1, Gen.Mds8.mds_multiply.s_state_l_4_1,
      Gen.Mds8.mds_multiply.s_s_5, Gen.Mds8.mds_multiply.s_state_h_5_1,
      Gen.Mds8.mds_multiply.s_state_l_5_1, Gen.Mds8.mds_multiply.s_s_6,
      Gen.Mds8.mds_multiply.s_state_h_6_1, Gen.Mds8.mds_multiply.s_state_l_6_1,
      Gen.Mds8.mds_multiply.s_s_7, Gen.Mds8.mds_multiply.s_state_h_7_1,
      Gen.Mds8.mds_multiply.s_state_l_7_1, Gen.Mds8.mds_multiply.s_r, Gen.Mds8.mds_multiply.s_state_h_0_2,
      Gen.Mds8.mds_multiply.s_state_h_1_2, Gen.Mds8.mds_multiply.s_state_h_2_2,
      Gen.Mds8.mds_multiply.s_state_h_3_2, Gen.Mds8.mds_multiply.s_state_h_4_2,
      Gen.Mds8.mds_multiply.s_state_h_5_2, Gen.Mds8.mds_multiply.s_state_h_6_2,
      Gen.Mds8.mds_multiply.s_state_h_7_2, Gen.Mds8.mds_multiply.s_r_1,
      Gen.Mds8.mds_multiply.s_state_l_0_2, Gen.Mds8.mds_multiply.s_state_l_1_2,
      Gen.Mds8.mds_multiply.s_state_l_2_2, Gen.Mds8.mds_multiply.s_state_l_3_2,
      Gen.Mds8.mds_multiply.s_state_l_4_2, Gen.Mds8.mds_multiply.s_state_l_5_2,
      Gen.Mds8.mds_multiply.s_state_l_6_2, Gen.Mds8.mds_multiply.s_state_l_7_2,
      Gen.Mds8.mds_multiply.s_s_8, Gen.Mds8.mds_multiply.s_s_hi, Gen.Mds8.mds_multiply.s_s_lo,
      Gen.Mds8.mds_multiply.s_z, Gen.Mds8.mds_multiply.s_res, Gen.Mds8.mds_multiply.s_over,
      Gen.Mds8.mds_multiply.s_result_0_1, Gen.Mds8.mds_multiply.s_s_9, Gen.Mds8.mds_multiply.s_s_hi_1,
      Gen.Mds8.mds_multiply.s_s_lo_1, Gen.Mds8.mds_multiply.s_z_1, Gen.Mds8.mds_multiply.s_res_1,
      Gen.Mds8.mds_multiply.s_over_1, Gen.Mds8.mds_multiply.s_result_1_1, Gen.Mds8.mds_multiply.s_s_10,
      Gen.Mds8.mds_multiply.s_s_hi_2, Gen.Mds8.mds_multiply.s_s_lo_2, Gen.Mds8.mds_multiply.s_z_2,
      Gen.Mds8.mds_multiply.s_res_2, Gen.Mds8.mds_multiply.s_over_2, Gen.Mds8.mds_multiply.s_result_2_1,
      Gen.Mds8.mds_multiply.s_s_11, Gen.Mds8.mds_multiply.s_s_hi_3, Gen.Mds8.mds_multiply.s_s_lo_3,
      Gen.Mds8.mds_multiply.s_z_3, Gen.Mds8.mds_multiply.s_res_3, Gen.Mds8.mds_multiply.s_over_3,
      Gen.Mds8.mds_multiply.s_result_3_1, Gen.Mds8.mds_multiply.s_s_12, Gen.Mds8.mds_multiply.s_s_hi_4,
      Gen.Mds8.mds_multiply.s_s_lo_4, Gen.Mds8.mds_multiply.s_z_4, Gen.Mds8.mds_multiply.s_res_4,
      Gen.Mds8.mds_multiply.s_over_4, Gen.Mds8.mds_multiply.s_result_4_1, Gen.Mds8.mds_multiply.s_s_13,
      Gen.Mds8.mds_multiply.s_s_hi_5, Gen.Mds8.mds_multiply.s_s_lo_5, Gen.Mds8.mds_multiply.s_z_5,
      Gen.Mds8.mds_multiply.s_res_5, Gen.Mds8.mds_multiply.s_over_5, Gen.Mds8.mds_multiply.s_result_5_1,
      Gen.Mds8.mds_multiply.s_s_14, Gen.Mds8.mds_multiply.s_s_hi_6, Gen.Mds8.mds_multiply.s_s_lo_6,
      Gen.Mds8.mds_multiply.s_z_6, Gen.Mds8.mds_multiply.s_res_6, Gen.Mds8.mds_multiply.s_over_6,
      Gen.Mds8.mds_multiply.s_result_6_1, Gen.Mds8.mds_multiply.s_s_15, Gen.Mds8.mds_multiply.s_s_hi_7,
      Gen.Mds8.mds_multiply.s_s_lo_7, Gen.Mds8.mds_multiply.s_z_7, Gen.Mds8.mds_multiply.s_res_7,
      Gen.Mds8.mds_multiply.s_over_7, Gen.Mds8.mds_multiply.s_result_7_1,
      Gen.Mds8.mds_multiply.s_state_0_1, Gen.Mds8.mds_multiply.s_state_1_1,
      Gen.Mds8.mds_multiply.s_state_2_1, Gen.Mds8.mds_multiply.s_state_3_1,
      Gen.Mds8.mds_multiply.s_state_4_1, Gen.Mds8.mds_multiply.s_state_5_1,
      Gen.Mds8.mds_multiply.s_state_6_1, Gen.Mds8.mds_multiply.s_state_7_1, Gen.Mds8.mds_multiply,
      Gen.Mds8.mds_multiply_ok,
      vh, vl, tailRed]

/-- no intermediate of `mds_multiply` overflows, for all raw words -/
theorem mm_ok (x0 x1 x2 x3 x4 x5 x6 x7 : Nat) (hx0 : x0 < 18446744073709551616) (hx1 : x1 < 18446744073709551616) (hx2 : x2 < 18446744073709551616) (hx3 : x3 < 18446744073709551616) (hx4 : x4 < 18446744073709551616) (hx5 : x5 < 18446744073709551616) (hx6 : x6 < 18446744073709551616) (hx7 : x7 < 18446744073709551616) :
    Gen.Mds8.mds_multiply_ok x0 x1 x2 x3 x4 x5 x6 x7 = true := by
  have hh0 : x0 / 4294967296 < 4294967296 := by omega
  have hl0 : x0 % 4294967296 < 4294967296 := by omega
  have hh1 : x1 / 4294967296 < 4294967296 := by omega
  have hl1 : x1 % 4294967296 < 4294967296 := by omega
  have hh2 : x2 / 4294967296 < 4294967296 := by omega
  have hl2 : x2 % 4294967296 < 4294967296 := by omega
  have hh3 : x3 / 4294967296 < 4294967296 := by omega
  have hl3 : x3 % 4294967296 < 4294967296 := by omega
  have hh4 : x4 / 4294967296 < 4294967296 := by omega
  have hl4 : x4 % 4294967296 < 4294967296 := by omega
  have hh5 : x5 / 4294967296 < 4294967296 := by omega
  have hl5 : x5 % 4294967296 < 4294967296 := by omega
  have hh6 : x6 / 4294967296 < 4294967296 := by omega
  have hl6 : x6 % 4294967296 < 4294967296 := by omega
  have hh7 : x7 / 4294967296 < 4294967296 := by omega
  have hl7 : x7 % 4294967296 < 4294967296 := by omega
  have okh := freq_ok _ _ _ _ _ _ _ _ hh0 hh1 hh2 hh3 hh4 hh5 hh6 hh7
  have okl := freq_ok _ _ _ _ _ _ _ _ hl0 hl1 hl2 hl3 hl4 hl5 hl6 hl7
  have vh := freq_eq_tuple _ _ _ _ _ _ _ _ hh0 hh1 hh2 hh3 hh4 hh5 hh6 hh7
  have vl := freq_eq_tuple _ _ _ _ _ _ _ _ hl0 hl1 hl2 hl3 hl4 hl5 hl6 hl7
  simp only [Gen.Mds8.mds_multiply.s_result_0, Gen.Mds8.mds_multiply.s_result_1, Gen.Mds8.mds_multiply.s_result_2,
      Gen.Mds8.mds_multiply.s_result_3, Gen.Mds8.mds_multiply.s_result_4, Gen.Mds8.mds_multiply.s_result_5,
      Gen.Mds8.mds_multiply.s_result_6, Gen.Mds8.mds_multiply.s_result_7,
      Gen.Mds8.mds_multiply.s_state_l_0, Gen.Mds8.mds_multiply.s_state_l_1,
      Gen.Mds8.mds_multiply.s_state_l_2, Gen.Mds8.mds_multiply.s_state_l_3,
      Gen.Mds8.mds_multiply.s_state_l_4, Gen.Mds8.mds_multiply.s_state_l_5,
      Gen.Mds8.mds_multiply.s_state_l_6, Gen.Mds8.mds_multiply.s_state_l_7,
      Gen.Mds8.mds_multiply.s_state_h_0, Gen.Mds8.mds_multiply.s_state_h_1,
      Gen.Mds8.mds_multiply.s_state_h_2, Gen.Mds8.mds_multiply.s_state_h_3,
      Gen.Mds8.mds_multiply.s_state_h_4, Gen.Mds8.mds_multiply.s_state_h_5,
      Gen.Mds8.mds_multiply.s_state_h_6, Gen.Mds8.mds_multiply.s_state_h_7, Gen.Mds8.mds_multiply.s_s,
      Gen.Mds8.mds_multiply.s_state_h_0_1, Gen.Mds8.mds_multiply.s_state_l_0_1,
      Gen.Mds8.mds_multiply.s_s_1, Gen.Mds8.mds_multiply.s_state_h_1_1,
      Gen.Mds8.mds_multiply.s_state_l_1_1, Gen.Mds8.mds_multiply.s_s_2,
      Gen.Mds8.mds_multiply.s_state_h_2_1, Gen.Mds8.mds_multiply.s_state_l_2_1,
      Gen.Mds8.mds_multiply.s_s_3, Gen.Mds8.mds_multiply.s_state_h_3_1,
      Gen.Mds8.mds_multiply.s_state_l_3_1, Gen.Mds8.mds_multiply.s_s_4,
      Gen.Mds8.mds_multiply.s_state_h_4_1, Gen.Mds8.mds_multiply.s_state_l_4_1,
      Gen.Mds8.mds_multiply.s_s_5, Gen.Mds8.mds_multiply.s_state_h_5_1,
      Gen.Mds8.mds_multiply.s_state_l_5_1, Gen.Mds8.mds_multiply.s_s_6,
      Gen.Mds8.mds_multiply.s_state_h_6_1, Gen.Mds8.mds_multiply.s_state_l_6_1,
      Gen.Mds8.mds_multiply.s_s_7, Gen.Mds8.mds_multiply.s_state_h_7_1,
      Gen.Mds8.mds_multiply.s_state_l_7_1, Gen.Mds8.mds_multiply.s_r, Gen.Mds8.mds_multiply.s_state_h_0_2,
      Gen.Mds8.mds_multiply.s_state_h_1_2, Gen.Mds8.mds_multiply.s_state_h_2_2,
      Gen.Mds8.mds_multiply.s_state_h_3_2, Gen.Mds8.mds_multiply.s_state_h_4_2,
      Gen.Mds8.mds_multiply.s_state_h_5_2, Gen.Mds8.mds_multiply.s_state_h_6_2,
      Gen.Mds8.mds_multiply.s_state_h_7_2, Gen.Mds8.mds_multiply.s_r_1,
      Gen.Mds8.mds_multiply.s_state_l_0_2, Gen.Mds8.mds_multiply.s_state_l_1_2,
      Gen.Mds8.mds_multiply.s_state_l_2_2, Gen.Mds8.mds_multiply.s_state_l_3_2,
      Gen.Mds8.mds_multiply.s_state_l_4_2, Gen.Mds8.mds_multiply.s_state_l_5_2,
      Gen.Mds8.mds_multiply.s_state_l_6_2, Gen.Mds8.mds_multiply.s_state_l_7_2,
      Gen.Mds8.mds_multiply.s_s_8, Gen.Mds8.mds_multiply.s_s_hi, Gen.Mds8.mds_multiply.s_s_lo,
      Gen.Mds8.mds_multiply.s_z, Gen.Mds8.mds_multiply.s_res, Gen.Mds8.mds_multiply.s_over,
      Gen.Mds8.mds_multiply.s_result_0_1, Gen.Mds8.mds_multiply.s_s_9, Gen.Mds8.mds_multiply.s_s_hi_1,
      Gen.Mds8.mds_multiply.s_s_lo_1, Gen.Mds8.mds_multiply.s_z_1, Gen.Mds8.mds_multiply.s_res_1,
      Gen.Mds8.mds_multiply.s_over_1, Gen.Mds8.mds_multiply.s_result_1_1, Gen.Mds8.mds_multiply.s_s_10,
      Gen.Mds8.mds_multiply.s_s_hi_2, Gen.Mds8.mds_multiply.s_s_lo_2, Gen.Mds8.mds_multiply.s_z_2,
      Gen.Mds8.mds_multiply.s_res_2, Gen.Mds8.mds_multiply.s_over_2, Gen.Mds8.mds_multiply.s_result_2_1,
      Gen.Mds8.mds_multiply.s_s_11, Gen.Mds8.mds_multiply.s_s_hi_3, Gen.Mds8.mds_multiply.s_s_lo_3,
      Gen.Mds8.mds_multiply.s_z_3, Gen.Mds8.mds_multiply.s_res_3, Gen.Mds8.mds_multiply.s_over_3,
      Gen.Mds8.mds_multiply.s_result_3_1, Gen.Mds8.mds_multiply.s_s_12, Gen.Mds8.mds_multiply.s_s_hi_4,
      Gen.Mds8.mds_multiply.s_s_lo_4, Gen.Mds8.mds_multiply.s_z_4, Gen.Mds8.mds_multiply.s_res_4,
      Gen.Mds8.mds_multiply.s_over_4, Gen.Mds8.mds_multiply.s_result_4_1, Gen.Mds8.mds_multiply.s_s_13,
      Gen.Mds8.mds_multiply.s_s_hi_5, Gen.Mds8.mds_multiply.s_s_lo_5, Gen.Mds8.mds_multiply.s_z_5,
      Gen.Mds8.mds_multiply.s_res_5, Gen.Mds8.mds_multiply.s_over_5, Gen.Mds8.mds_multiply.s_result_5_1,
      Gen.Mds8.mds_multiply.s_s_14, Gen.Mds8.mds_multiply.s_s_hi_6, Gen.Mds8.mds_multiply.s_s_lo_6,
      Gen.Mds8.mds_multiply.s_z_6, Gen.Mds8.mds_multiply.s_res_6, Gen.Mds8.mds_multiply.s_over_6,
      Gen.Mds8.mds_multiply.s_result_6_1, Gen.Mds8.mds_multiply.s_s_15, Gen.Mds8.mds_multiply.s_s_hi_7,
      Gen.Mds8.mds_multiply.s_s_lo_7, Gen.Mds8.mds_multiply.s_z_7, Gen.Mds8.mds_multiply.s_res_7,
      Gen.Mds8.mds_multiply.s_over_7, Gen.Mds8.mds_multiply.s_result_7_1,
      Gen.Mds8.mds_multiply.s_state_0_1, Gen.Mds8.mds_multiply.s_state_1_1,
      Gen.Mds8.mds_multiply.s_state_2_1, Gen.Mds8.mds_multiply.s_state_3_1,
      Gen.Mds8.mds_multiply.s_state_4_1, Gen.Mds8.mds_multiply.s_state_5_1,
      Gen.Mds8.mds_multiply.s_state_6_1, Gen.Mds8.mds_multiply.s_state_7_1, Gen.Mds8.mds_multiply,
      Gen.Mds8.mds_multiply_ok,
      okh, okl, vh, vl, Bool.and_eq_true, decide_eq_true_eq, decide_true, Bool.true_and]
  refine ⟨(tail_ok1 _ _ (by omega) (by omega)), (tail_ok2 _ _ (by omega) (by omega)),
      (tail_ok1 _ _ (by omega) (by omega)), (tail_ok2 _ _ (by omega) (by omega)),
      (tail_ok1 _ _ (by omega) (by omega)), (tail_ok2 _ _ (by omega) (by omega)),
      (tail_ok1 _ _ (by omega) (by omega)), (tail_ok2 _ _ (by omega) (by omega)),
      (tail_ok1 _ _ (by omega) (by omega)), (tail_ok2 _ _ (by omega) (by omega)),
      (tail_ok1 _ _ (by omega) (by omega)), (tail_ok2 _ _ (by omega) (by omega)),
      (tail_ok1 _ _ (by omega) (by omega)), (tail_ok2 _ _ (by omega) (by omega)),
      (tail_ok1 _ _ (by omega) (by omega)), (tail_ok2 _ _ (by omega) (by omega))⟩

/-- every component of `mds_multiply` is a 64-bit word congruent modulo `p` to the matrix-vector
    product (as an integer) of the MDS rows with the raw words -/
theorem mm_spec (x0 x1 x2 x3 x4 x5 x6 x7 : Nat) (hx0 : x0 < 18446744073709551616) (hx1 : x1 < 18446744073709551616) (hx2 : x2 < 18446744073709551616) (hx3 : x3 < 18446744073709551616) (hx4 : x4 < 18446744073709551616) (hx5 : x5 < 18446744073709551616) (hx6 : x6 < 18446744073709551616) (hx7 : x7 < 18446744073709551616) :
    match Gen.Mds8.mds_multiply x0 x1 x2 x3 x4 x5 x6 x7 with
    | (r0, r1, r2, r3, r4, r5, r6, r7) =>
    (r0 < 18446744073709551616 ∧ ∃ k, 23 * x0 + 8 * x1 + 13 * x2 + 10 * x3 + 7 * x4 + 6 * x5 + 21 * x6 + 8 * x7 = r0 + k * 18446744069414584321) ∧
    (r1 < 18446744073709551616 ∧ ∃ k, 8 * x0 + 23 * x1 + 8 * x2 + 13 * x3 + 10 * x4 + 7 * x5 + 6 * x6 + 21 * x7 = r1 + k * 18446744069414584321) ∧
    (r2 < 18446744073709551616 ∧ ∃ k, 21 * x0 + 8 * x1 + 23 * x2 + 8 * x3 + 13 * x4 + 10 * x5 + 7 * x6 + 6 * x7 = r2 + k * 18446744069414584321) ∧
    (r3 < 18446744073709551616 ∧ ∃ k, 6 * x0 + 21 * x1 + 8 * x2 + 23 * x3 + 8 * x4 + 13 * x5 + 10 * x6 + 7 * x7 = r3 + k * 18446744069414584321) ∧
    (r4 < 18446744073709551616 ∧ ∃ k, 7 * x0 + 6 * x1 + 21 * x2 + 8 * x3 + 23 * x4 + 8 * x5 + 13 * x6 + 10 * x7 = r4 + k * 18446744069414584321) ∧
    (r5 < 18446744073709551616 ∧ ∃ k, 10 * x0 + 7 * x1 + 6 * x2 + 21 * x3 + 8 * x4 + 23 * x5 + 8 * x6 + 13 * x7 = r5 + k * 18446744069414584321) ∧
    (r6 < 18446744073709551616 ∧ ∃ k, 13 * x0 + 10 * x1 + 7 * x2 + 6 * x3 + 21 * x4 + 8 * x5 + 23 * x6 + 8 * x7 = r6 + k * 18446744069414584321) ∧
    (r7 < 18446744073709551616 ∧ ∃ k, 8 * x0 + 13 * x1 + 10 * x2 + 7 * x3 + 6 * x4 + 21 * x5 + 8 * x6 + 23 * x7 = r7 + k * 18446744069414584321) := by
  rw [mm_eq_tail x0 x1 x2 x3 x4 x5 x6 x7 hx0 hx1 hx2 hx3 hx4 hx5 hx6 hx7]
  refine ⟨(by obtain ⟨hb, k, hk⟩ := tail_val (23 * (x0 % 4294967296) + 8 * (x1 % 4294967296) + 13 * (x2 % 4294967296) + 10 * (x3 % 4294967296) + 7 * (x4 % 4294967296) + 6 * (x5 % 4294967296) + 21 * (x6 % 4294967296) + 8 * (x7 % 4294967296)) (23 * (x0 / 4294967296) + 8 * (x1 / 4294967296) + 13 * (x2 / 4294967296) + 10 * (x3 / 4294967296) + 7 * (x4 / 4294967296) + 6 * (x5 / 4294967296) + 21 * (x6 / 4294967296) + 8 * (x7 / 4294967296)) (by omega) (by omega); exact ⟨hb, k, by omega⟩),
      (by obtain ⟨hb, k, hk⟩ := tail_val (8 * (x0 % 4294967296) + 23 * (x1 % 4294967296) + 8 * (x2 % 4294967296) + 13 * (x3 % 4294967296) + 10 * (x4 % 4294967296) + 7 * (x5 % 4294967296) + 6 * (x6 % 4294967296) + 21 * (x7 % 4294967296)) (8 * (x0 / 4294967296) + 23 * (x1 / 4294967296) + 8 * (x2 / 4294967296) + 13 * (x3 / 4294967296) + 10 * (x4 / 4294967296) + 7 * (x5 / 4294967296) + 6 * (x6 / 4294967296) + 21 * (x7 / 4294967296)) (by omega) (by omega); exact ⟨hb, k, by omega⟩),
      (by obtain ⟨hb, k, hk⟩ := tail_val (21 * (x0 % 4294967296) + 8 * (x1 % 4294967296) + 23 * (x2 % 4294967296) + 8 * (x3 % 4294967296) + 13 * (x4 % 4294967296) + 10 * (x5 % 4294967296) + 7 * (x6 % 4294967296) + 6 * (x7 % 4294967296)) (21 * (x0 / 4294967296) + 8 * (x1 / 4294967296) + 23 * (x2 / 4294967296) + 8 * (x3 / 4294967296) + 13 * (x4 / 4294967296) + 10 * (x5 / 4294967296) + 7 * (x6 / 4294967296) + 6 * (x7 / 4294967296)) (by omega) (by omega); exact ⟨hb, k, by omega⟩),
      (by obtain ⟨hb, k, hk⟩ := tail_val (6 * (x0 % 4294967296) + 21 * (x1 % 4294967296) + 8 * (x2 % 4294967296) + 23 * (x3 % 4294967296) + 8 * (x4 % 4294967296) + 13 * (x5 % 4294967296) + 10 * (x6 % 4294967296) + 7 * (x7 % 4294967296)) (6 * (x0 / 4294967296) + 21 * (x1 / 4294967296) + 8 * (x2 / 4294967296) + 23 * (x3 / 4294967296) + 8 * (x4 / 4294967296) + 13 * (x5 / 4294967296) + 10 * (x6 / 4294967296) + 7 * (x7 / 4294967296)) (by omega) (by omega); exact ⟨hb, k, by omega⟩),
      (by obtain ⟨hb, k, hk⟩ := tail_val (7 * (x0 % 4294967296) + 6 * (x1 % 4294967296) + 21 * (x2 % 4294967296) + 8 * (x3 % 4294967296) + 23 * (x4 % 4294967296) + 8 * (x5 % 4294967296) + 13 * (x6 % 4294967296) + 10 * (x7 % 4294967296)) (7 * (x0 / 4294967296) + 6 * (x1 / 4294967296) + 21 * (x2 / 4294967296) + 8 * (x3 / 4294967296) + 23 * (x4 / 4294967296) + 8 * (x5 / 4294967296) + 13 * (x6 / 4294967296) + 10 * (x7 / 4294967296)) (by omega) (by omega); exact ⟨hb, k, by omega⟩),
      (by obtain ⟨hb, k, hk⟩ := tail_val (10 * (x0 % 4294967296) + 7 * (x1 % 4294967296) + 6 * (x2 % 4294967296) + 21 * (x3 % 4294967296) + 8 * (x4 % 4294967296) + 23 * (x5 % 4294967296) + 8 * (x6 % 4294967296) + 13 * (x7 % 4294967296)) (10 * (x0 / 4294967296) + 7 * (x1 / 4294967296) + 6 * (x2 / 4294967296) + 21 * (x3 / 4294967296) + 8 * (x4 / 4294967296) + 23 * (x5 / 4294967296) + 8 * (x6 / 4294967296) + 13 * (x7 / 4294967296)) (by omega) (by omega); exact ⟨hb, k, by omega⟩),
      (by obtain ⟨hb, k, hk⟩ := tail_val (13 * (x0 % 4294967296) + 10 * (x1 % 4294967296) + 7 * (x2 % 4294967296) + 6 * (x3 % 4294967296) + 21 * (x4 % 4294967296) + 8 * (x5 % 4294967296) + 23 * (x6 % 4294967296) + 8 * (x7 % 4294967296)) (13 * (x0 / 4294967296) + 10 * (x1 / 4294967296) + 7 * (x2 / 4294967296) + 6 * (x3 / 4294967296) + 21 * (x4 / 4294967296) + 8 * (x5 / 4294967296) + 23 * (x6 / 4294967296) + 8 * (x7 / 4294967296)) (by omega) (by omega); exact ⟨hb, k, by omega⟩),
      (by obtain ⟨hb, k, hk⟩ := tail_val (8 * (x0 % 4294967296) + 13 * (x1 % 4294967296) + 10 * (x2 % 4294967296) + 7 * (x3 % 4294967296) + 6 * (x4 % 4294967296) + 21 * (x5 % 4294967296) + 8 * (x6 % 4294967296) + 23 * (x7 % 4294967296)) (8 * (x0 / 4294967296) + 13 * (x1 / 4294967296) + 10 * (x2 / 4294967296) + 7 * (x3 / 4294967296) + 6 * (x4 / 4294967296) + 21 * (x5 / 4294967296) + 8 * (x6 / 4294967296) + 23 * (x7 / 4294967296)) (by omega) (by omega); exact ⟨hb, k, by omega⟩)⟩

end WinterProofs.C11.Mds8
