-- C11 helper lemmas: the frequency-domain MDS product of crypto/src/hash/mds (Mds8) is the
-- circulant matrix-vector product, exactly and without overflow.  Written by gen_c11_mds.py from the
-- generated modules (step-definition names and the coefficient tuple); checked against them by Lean.
import Winter.Gen.Mds8
import Winter.Gen.Rp64Jive
import WinterProofs.Lemmas.C11MdsCommon
set_option linter.unusedSimpArgs false
set_option linter.unusedVariables false
set_option maxRecDepth 100000

namespace WinterProofs.C11.Mds8
open Gen WinterProofs.C11

/-- every `i64` intermediate of `mds_multiply_freq` is in range when the limbs are below `2^32` -/
theorem freq_ok (s0 s1 s2 s3 s4 s5 s6 s7 : Nat) (h0 : s0 < 4294967296) (h1 : s1 < 4294967296) (h2 : s2 < 4294967296) (h3 : s3 < 4294967296) (h4 : s4 < 4294967296) (h5 : s5 < 4294967296) (h6 : s6 < 4294967296) (h7 : s7 < 4294967296) :
    Gen.Mds8.mds_multiply_freq_ok s0 s1 s2 s3 s4 s5 s6 s7 = true := by
  have e0 := toSigned_small s0 (by omega)
  have e1 := toSigned_small s1 (by omega)
  have e2 := toSigned_small s2 (by omega)
  have e3 := toSigned_small s3 (by omega)
  have e4 := toSigned_small s4 (by omega)
  have e5 := toSigned_small s5 (by omega)
  have e6 := toSigned_small s6 (by omega)
  have e7 := toSigned_small s7 (by omega)
  simp only [Gen.RealFft.fft2_real, Gen.RealFft.fft2_real_ok, Gen.RealFft.ifft2_real_unreduced,
      Gen.RealFft.ifft2_real_unreduced_ok, Gen.RealFft.fft4_real.s_r, Gen.RealFft.fft4_real.s_z0,
      Gen.RealFft.fft4_real.s_z2, Gen.RealFft.fft4_real.s_r_1, Gen.RealFft.fft4_real.s_z1,
      Gen.RealFft.fft4_real.s_z3, Gen.RealFft.fft4_real.s_y0, Gen.RealFft.fft4_real.s_y1_0,
      Gen.RealFft.fft4_real.s_y1_1, Gen.RealFft.fft4_real.s_y2, Gen.RealFft.fft4_real,
      Gen.RealFft.fft4_real_ok, Gen.RealFft.ifft4_real_unreduced.s_z0,
      Gen.RealFft.ifft4_real_unreduced.s_z1, Gen.RealFft.ifft4_real_unreduced.s_z2,
      Gen.RealFft.ifft4_real_unreduced.s_z3, Gen.RealFft.ifft4_real_unreduced.s_r,
      Gen.RealFft.ifft4_real_unreduced.s_x0, Gen.RealFft.ifft4_real_unreduced.s_x2,
      Gen.RealFft.ifft4_real_unreduced.s_r_1, Gen.RealFft.ifft4_real_unreduced.s_x1,
      Gen.RealFft.ifft4_real_unreduced.s_x3, Gen.RealFft.ifft4_real_unreduced,
      Gen.RealFft.ifft4_real_unreduced_ok, Gen.Mds8.block1.s_x0, Gen.Mds8.block1.s_x1,
      Gen.Mds8.block1.s_y0, Gen.Mds8.block1.s_y1, Gen.Mds8.block1.s_z0, Gen.Mds8.block1.s_z1,
      Gen.Mds8.block1, Gen.Mds8.block1_ok, Gen.Mds8.block2.s_x0r, Gen.Mds8.block2.s_x0i,
      Gen.Mds8.block2.s_x1r, Gen.Mds8.block2.s_x1i, Gen.Mds8.block2.s_y0r, Gen.Mds8.block2.s_y0i,
      Gen.Mds8.block2.s_y1r, Gen.Mds8.block2.s_y1i, Gen.Mds8.block2.s_x0s, Gen.Mds8.block2.s_x1s,
      Gen.Mds8.block2.s_y0s, Gen.Mds8.block2.s_y1s, Gen.Mds8.block2.s_m0_0, Gen.Mds8.block2.s_m0_1,
      Gen.Mds8.block2.s_m1_0, Gen.Mds8.block2.s_m1_1, Gen.Mds8.block2.s_z0r, Gen.Mds8.block2.s_z0i,
      Gen.Mds8.block2.s_z0_0, Gen.Mds8.block2.s_z0_1, Gen.Mds8.block2.s_m0_0_1, Gen.Mds8.block2.s_m0_1_1,
      Gen.Mds8.block2.s_m1_0_1, Gen.Mds8.block2.s_m1_1_1, Gen.Mds8.block2.s_z1r, Gen.Mds8.block2.s_z1i,
      Gen.Mds8.block2.s_z1_0, Gen.Mds8.block2.s_z1_1, Gen.Mds8.block2, Gen.Mds8.block2_ok,
      Gen.Mds8.block3.s_x0, Gen.Mds8.block3.s_x1, Gen.Mds8.block3.s_y0, Gen.Mds8.block3.s_y1,
      Gen.Mds8.block3.s_z0, Gen.Mds8.block3.s_z1, Gen.Mds8.block3, Gen.Mds8.block3_ok,
      Gen.Mds8.mds_multiply_freq.s_s0, Gen.Mds8.mds_multiply_freq.s_s1, Gen.Mds8.mds_multiply_freq.s_s2,
      Gen.Mds8.mds_multiply_freq.s_s3, Gen.Mds8.mds_multiply_freq.s_s4, Gen.Mds8.mds_multiply_freq.s_s5,
      Gen.Mds8.mds_multiply_freq.s_s6, Gen.Mds8.mds_multiply_freq.s_s7, Gen.Mds8.mds_multiply_freq.s_r,
      Gen.Mds8.mds_multiply_freq.s_u0, Gen.Mds8.mds_multiply_freq.s_u1_0,
      Gen.Mds8.mds_multiply_freq.s_u1_1, Gen.Mds8.mds_multiply_freq.s_u2, Gen.Mds8.mds_multiply_freq.s_r_1,
      Gen.Mds8.mds_multiply_freq.s_u4, Gen.Mds8.mds_multiply_freq.s_u5_0,
      Gen.Mds8.mds_multiply_freq.s_u5_1, Gen.Mds8.mds_multiply_freq.s_u6, Gen.Mds8.mds_multiply_freq.s_r_2,
      Gen.Mds8.mds_multiply_freq.s_v0, Gen.Mds8.mds_multiply_freq.s_v4, Gen.Mds8.mds_multiply_freq.s_r_3,
      Gen.Mds8.mds_multiply_freq.s_v1_0, Gen.Mds8.mds_multiply_freq.s_v1_1,
      Gen.Mds8.mds_multiply_freq.s_v5_0, Gen.Mds8.mds_multiply_freq.s_v5_1,
      Gen.Mds8.mds_multiply_freq.s_r_4, Gen.Mds8.mds_multiply_freq.s_v2, Gen.Mds8.mds_multiply_freq.s_v6,
      Gen.Mds8.mds_multiply_freq.s_r_5, Gen.Mds8.mds_multiply_freq.s_s0_1,
      Gen.Mds8.mds_multiply_freq.s_s2_1, Gen.Mds8.mds_multiply_freq.s_s4_1,
      Gen.Mds8.mds_multiply_freq.s_s6_1, Gen.Mds8.mds_multiply_freq.s_r_6,
      Gen.Mds8.mds_multiply_freq.s_s1_1, Gen.Mds8.mds_multiply_freq.s_s3_1,
      Gen.Mds8.mds_multiply_freq.s_s5_1, Gen.Mds8.mds_multiply_freq.s_s7_1, Gen.Mds8.mds_multiply_freq,
      Gen.Mds8.mds_multiply_freq_ok,
      e0, e1, e2, e3, e4, e5, e6, e7, Bool.and_eq_true, decide_eq_true_eq]
  repeat' (first | apply And.intro | apply decide_eq_true | rw [Bool.and_eq_true])
  all_goals omega

/-- `mds_multiply_freq` is the matrix-vector product with these integer rows, exactly -/
theorem freq_eq_tuple (s0 s1 s2 s3 s4 s5 s6 s7 : Nat) (h0 : s0 < 4294967296) (h1 : s1 < 4294967296) (h2 : s2 < 4294967296) (h3 : s3 < 4294967296) (h4 : s4 < 4294967296) (h5 : s5 < 4294967296) (h6 : s6 < 4294967296) (h7 : s7 < 4294967296) :
    Gen.Mds8.mds_multiply_freq s0 s1 s2 s3 s4 s5 s6 s7 =
      (23 * s0 + 8 * s1 + 13 * s2 + 10 * s3 + 7 * s4 + 6 * s5 + 21 * s6 + 8 * s7,
       8 * s0 + 23 * s1 + 8 * s2 + 13 * s3 + 10 * s4 + 7 * s5 + 6 * s6 + 21 * s7,
       21 * s0 + 8 * s1 + 23 * s2 + 8 * s3 + 13 * s4 + 10 * s5 + 7 * s6 + 6 * s7,
       6 * s0 + 21 * s1 + 8 * s2 + 23 * s3 + 8 * s4 + 13 * s5 + 10 * s6 + 7 * s7,
       7 * s0 + 6 * s1 + 21 * s2 + 8 * s3 + 23 * s4 + 8 * s5 + 13 * s6 + 10 * s7,
       10 * s0 + 7 * s1 + 6 * s2 + 21 * s3 + 8 * s4 + 23 * s5 + 8 * s6 + 13 * s7,
       13 * s0 + 10 * s1 + 7 * s2 + 6 * s3 + 21 * s4 + 8 * s5 + 23 * s6 + 8 * s7,
       8 * s0 + 13 * s1 + 10 * s2 + 7 * s3 + 6 * s4 + 21 * s5 + 8 * s6 + 23 * s7) := by
  have e0 := toSigned_small s0 (by omega)
  have e1 := toSigned_small s1 (by omega)
  have e2 := toSigned_small s2 (by omega)
  have e3 := toSigned_small s3 (by omega)
  have e4 := toSigned_small s4 (by omega)
  have e5 := toSigned_small s5 (by omega)
  have e6 := toSigned_small s6 (by omega)
  have e7 := toSigned_small s7 (by omega)
  simp only [Gen.RealFft.fft2_real, Gen.RealFft.fft2_real_ok, Gen.RealFft.ifft2_real_unreduced,
      Gen.RealFft.ifft2_real_unreduced_ok, Gen.RealFft.fft4_real.s_r, Gen.RealFft.fft4_real.s_z0,
      Gen.RealFft.fft4_real.s_z2, Gen.RealFft.fft4_real.s_r_1, Gen.RealFft.fft4_real.s_z1,
      Gen.RealFft.fft4_real.s_z3, Gen.RealFft.fft4_real.s_y0, Gen.RealFft.fft4_real.s_y1_0,
      Gen.RealFft.fft4_real.s_y1_1, Gen.RealFft.fft4_real.s_y2, Gen.RealFft.fft4_real,
      Gen.RealFft.fft4_real_ok, Gen.RealFft.ifft4_real_unreduced.s_z0,
      Gen.RealFft.ifft4_real_unreduced.s_z1, Gen.RealFft.ifft4_real_unreduced.s_z2,
      Gen.RealFft.ifft4_real_unreduced.s_z3, Gen.RealFft.ifft4_real_unreduced.s_r,
      Gen.RealFft.ifft4_real_unreduced.s_x0, Gen.RealFft.ifft4_real_unreduced.s_x2,
      Gen.RealFft.ifft4_real_unreduced.s_r_1, Gen.RealFft.ifft4_real_unreduced.s_x1,
      Gen.RealFft.ifft4_real_unreduced.s_x3, Gen.RealFft.ifft4_real_unreduced,
      Gen.RealFft.ifft4_real_unreduced_ok, Gen.Mds8.block1.s_x0, Gen.Mds8.block1.s_x1,
      Gen.Mds8.block1.s_y0, Gen.Mds8.block1.s_y1, Gen.Mds8.block1.s_z0, Gen.Mds8.block1.s_z1,
      Gen.Mds8.block1, Gen.Mds8.block1_ok, Gen.Mds8.block2.s_x0r, Gen.Mds8.block2.s_x0i,
      Gen.Mds8.block2.s_x1r, Gen.Mds8.block2.s_x1i, Gen.Mds8.block2.s_y0r, Gen.Mds8.block2.s_y0i,
      Gen.Mds8.block2.s_y1r, Gen.Mds8.block2.s_y1i, Gen.Mds8.block2.s_x0s, Gen.Mds8.block2.s_x1s,
      Gen.Mds8.block2.s_y0s, Gen.Mds8.block2.s_y1s, Gen.Mds8.block2.s_m0_0, Gen.Mds8.block2.s_m0_1,
      Gen.Mds8.block2.s_m1_0, Gen.Mds8.block2.s_m1_1, Gen.Mds8.block2.s_z0r, Gen.Mds8.block2.s_z0i,
      Gen.Mds8.block2.s_z0_0, Gen.Mds8.block2.s_z0_1, Gen.Mds8.block2.s_m0_0_1, Gen.Mds8.block2.s_m0_1_1,
      Gen.Mds8.block2.s_m1_0_1, Gen.Mds8.block2.s_m1_1_1, Gen.Mds8.block2.s_z1r, Gen.Mds8.block2.s_z1i,
      Gen.Mds8.block2.s_z1_0, Gen.Mds8.block2.s_z1_1, Gen.Mds8.block2, Gen.Mds8.block2_ok,
      Gen.Mds8.block3.s_x0, Gen.Mds8.block3.s_x1, Gen.Mds8.block3.s_y0, Gen.Mds8.block3.s_y1,
      Gen.Mds8.block3.s_z0, Gen.Mds8.block3.s_z1, Gen.Mds8.block3, Gen.Mds8.block3_ok,
      Gen.Mds8.mds_multiply_freq.s_s0, Gen.Mds8.mds_multiply_freq.s_s1, Gen.Mds8.mds_multiply_freq.s_s2,
      Gen.Mds8.mds_multiply_freq.s_s3, Gen.Mds8.mds_multiply_freq.s_s4, Gen.Mds8.mds_multiply_freq.s_s5,
      Gen.Mds8.mds_multiply_freq.s_s6, Gen.Mds8.mds_multiply_freq.s_s7, Gen.Mds8.mds_multiply_freq.s_r,
      Gen.Mds8.mds_multiply_freq.s_u0, Gen.Mds8.mds_multiply_freq.s_u1_0,
      Gen.Mds8.mds_multiply_freq.s_u1_1, Gen.Mds8.mds_multiply_freq.s_u2, Gen.Mds8.mds_multiply_freq.s_r_1,
      Gen.Mds8.mds_multiply_freq.s_u4, Gen.Mds8.mds_multiply_freq.s_u5_0,
      Gen.Mds8.mds_multiply_freq.s_u5_1, Gen.Mds8.mds_multiply_freq.s_u6, Gen.Mds8.mds_multiply_freq.s_r_2,
      Gen.Mds8.mds_multiply_freq.s_v0, Gen.Mds8.mds_multiply_freq.s_v4, Gen.Mds8.mds_multiply_freq.s_r_3,
      Gen.Mds8.mds_multiply_freq.s_v1_0, Gen.Mds8.mds_multiply_freq.s_v1_1,
      Gen.Mds8.mds_multiply_freq.s_v5_0, Gen.Mds8.mds_multiply_freq.s_v5_1,
      Gen.Mds8.mds_multiply_freq.s_r_4, Gen.Mds8.mds_multiply_freq.s_v2, Gen.Mds8.mds_multiply_freq.s_v6,
      Gen.Mds8.mds_multiply_freq.s_r_5, Gen.Mds8.mds_multiply_freq.s_s0_1,
      Gen.Mds8.mds_multiply_freq.s_s2_1, Gen.Mds8.mds_multiply_freq.s_s4_1,
      Gen.Mds8.mds_multiply_freq.s_s6_1, Gen.Mds8.mds_multiply_freq.s_r_6,
      Gen.Mds8.mds_multiply_freq.s_s1_1, Gen.Mds8.mds_multiply_freq.s_s3_1,
      Gen.Mds8.mds_multiply_freq.s_s5_1, Gen.Mds8.mds_multiply_freq.s_s7_1, Gen.Mds8.mds_multiply_freq,
      Gen.Mds8.mds_multiply_freq_ok,
      e0, e1, e2, e3, e4, e5, e6, e7, Prod.mk.injEq]
  repeat' apply And.intro
  all_goals omega

/-- the rows of `freq_eq_tuple` are the rows of the generated `MDS` table -/
theorem freq_matVec (s0 s1 s2 s3 s4 s5 s6 s7 : Nat) (h0 : s0 < 4294967296) (h1 : s1 < 4294967296) (h2 : s2 < 4294967296) (h3 : s3 < 4294967296) (h4 : s4 < 4294967296) (h5 : s5 < 4294967296) (h6 : s6 < 4294967296) (h7 : s7 < 4294967296) :
    (match Gen.Mds8.mds_multiply_freq s0 s1 s2 s3 s4 s5 s6 s7 with
     | (r0, r1, r2, r3, r4, r5, r6, r7) => [r0, r1, r2, r3, r4, r5, r6, r7])
      = matVec Gen.Rp64Jive.MDS [s0, s1, s2, s3, s4, s5, s6, s7] := by
  rw [freq_eq_tuple s0 s1 s2 s3 s4 s5 s6 s7 h0 h1 h2 h3 h4 h5 h6 h7]
  simp only [matVec, dot, Gen.Rp64Jive.MDS, List.map, List.zipWith, List.sum_cons, List.sum_nil,
    List.cons.injEq, and_true]
  repeat' apply And.intro
  all_goals omega

theorem fold_0 (h l : Nat) :
    (Gen.Mds8.mds_multiply.s_result_0_1 (Gen.Mds8.mds_multiply.s_res (Gen.Mds8.mds_multiply.s_s_lo (Gen.Mds8.mds_multiply.s_s_8 h l)) (Gen.Mds8.mds_multiply.s_z (Gen.Mds8.mds_multiply.s_s_hi (Gen.Mds8.mds_multiply.s_s_8 h l)))) (Gen.Mds8.mds_multiply.s_over (Gen.Mds8.mds_multiply.s_s_lo (Gen.Mds8.mds_multiply.s_s_8 h l)) (Gen.Mds8.mds_multiply.s_z (Gen.Mds8.mds_multiply.s_s_hi (Gen.Mds8.mds_multiply.s_s_8 h l))))) = tailRed l h := rfl

theorem fold_1 (h l : Nat) :
    (Gen.Mds8.mds_multiply.s_result_1_1 (Gen.Mds8.mds_multiply.s_res_1 (Gen.Mds8.mds_multiply.s_s_lo_1 (Gen.Mds8.mds_multiply.s_s_9 h l)) (Gen.Mds8.mds_multiply.s_z_1 (Gen.Mds8.mds_multiply.s_s_hi_1 (Gen.Mds8.mds_multiply.s_s_9 h l)))) (Gen.Mds8.mds_multiply.s_over_1 (Gen.Mds8.mds_multiply.s_s_lo_1 (Gen.Mds8.mds_multiply.s_s_9 h l)) (Gen.Mds8.mds_multiply.s_z_1 (Gen.Mds8.mds_multiply.s_s_hi_1 (Gen.Mds8.mds_multiply.s_s_9 h l))))) = tailRed l h := rfl

theorem fold_2 (h l : Nat) :
    (Gen.Mds8.mds_multiply.s_result_2_1 (Gen.Mds8.mds_multiply.s_res_2 (Gen.Mds8.mds_multiply.s_s_lo_2 (Gen.Mds8.mds_multiply.s_s_10 h l)) (Gen.Mds8.mds_multiply.s_z_2 (Gen.Mds8.mds_multiply.s_s_hi_2 (Gen.Mds8.mds_multiply.s_s_10 h l)))) (Gen.Mds8.mds_multiply.s_over_2 (Gen.Mds8.mds_multiply.s_s_lo_2 (Gen.Mds8.mds_multiply.s_s_10 h l)) (Gen.Mds8.mds_multiply.s_z_2 (Gen.Mds8.mds_multiply.s_s_hi_2 (Gen.Mds8.mds_multiply.s_s_10 h l))))) = tailRed l h := rfl

theorem fold_3 (h l : Nat) :
    (Gen.Mds8.mds_multiply.s_result_3_1 (Gen.Mds8.mds_multiply.s_res_3 (Gen.Mds8.mds_multiply.s_s_lo_3 (Gen.Mds8.mds_multiply.s_s_11 h l)) (Gen.Mds8.mds_multiply.s_z_3 (Gen.Mds8.mds_multiply.s_s_hi_3 (Gen.Mds8.mds_multiply.s_s_11 h l)))) (Gen.Mds8.mds_multiply.s_over_3 (Gen.Mds8.mds_multiply.s_s_lo_3 (Gen.Mds8.mds_multiply.s_s_11 h l)) (Gen.Mds8.mds_multiply.s_z_3 (Gen.Mds8.mds_multiply.s_s_hi_3 (Gen.Mds8.mds_multiply.s_s_11 h l))))) = tailRed l h := rfl

theorem fold_4 (h l : Nat) :
    (Gen.Mds8.mds_multiply.s_result_4_1 (Gen.Mds8.mds_multiply.s_res_4 (Gen.Mds8.mds_multiply.s_s_lo_4 (Gen.Mds8.mds_multiply.s_s_12 h l)) (Gen.Mds8.mds_multiply.s_z_4 (Gen.Mds8.mds_multiply.s_s_hi_4 (Gen.Mds8.mds_multiply.s_s_12 h l)))) (Gen.Mds8.mds_multiply.s_over_4 (Gen.Mds8.mds_multiply.s_s_lo_4 (Gen.Mds8.mds_multiply.s_s_12 h l)) (Gen.Mds8.mds_multiply.s_z_4 (Gen.Mds8.mds_multiply.s_s_hi_4 (Gen.Mds8.mds_multiply.s_s_12 h l))))) = tailRed l h := rfl

theorem fold_5 (h l : Nat) :
    (Gen.Mds8.mds_multiply.s_result_5_1 (Gen.Mds8.mds_multiply.s_res_5 (Gen.Mds8.mds_multiply.s_s_lo_5 (Gen.Mds8.mds_multiply.s_s_13 h l)) (Gen.Mds8.mds_multiply.s_z_5 (Gen.Mds8.mds_multiply.s_s_hi_5 (Gen.Mds8.mds_multiply.s_s_13 h l)))) (Gen.Mds8.mds_multiply.s_over_5 (Gen.Mds8.mds_multiply.s_s_lo_5 (Gen.Mds8.mds_multiply.s_s_13 h l)) (Gen.Mds8.mds_multiply.s_z_5 (Gen.Mds8.mds_multiply.s_s_hi_5 (Gen.Mds8.mds_multiply.s_s_13 h l))))) = tailRed l h := rfl

theorem fold_6 (h l : Nat) :
    (Gen.Mds8.mds_multiply.s_result_6_1 (Gen.Mds8.mds_multiply.s_res_6 (Gen.Mds8.mds_multiply.s_s_lo_6 (Gen.Mds8.mds_multiply.s_s_14 h l)) (Gen.Mds8.mds_multiply.s_z_6 (Gen.Mds8.mds_multiply.s_s_hi_6 (Gen.Mds8.mds_multiply.s_s_14 h l)))) (Gen.Mds8.mds_multiply.s_over_6 (Gen.Mds8.mds_multiply.s_s_lo_6 (Gen.Mds8.mds_multiply.s_s_14 h l)) (Gen.Mds8.mds_multiply.s_z_6 (Gen.Mds8.mds_multiply.s_s_hi_6 (Gen.Mds8.mds_multiply.s_s_14 h l))))) = tailRed l h := rfl

theorem fold_7 (h l : Nat) :
    (Gen.Mds8.mds_multiply.s_result_7_1 (Gen.Mds8.mds_multiply.s_res_7 (Gen.Mds8.mds_multiply.s_s_lo_7 (Gen.Mds8.mds_multiply.s_s_15 h l)) (Gen.Mds8.mds_multiply.s_z_7 (Gen.Mds8.mds_multiply.s_s_hi_7 (Gen.Mds8.mds_multiply.s_s_15 h l)))) (Gen.Mds8.mds_multiply.s_over_7 (Gen.Mds8.mds_multiply.s_s_lo_7 (Gen.Mds8.mds_multiply.s_s_15 h l)) (Gen.Mds8.mds_multiply.s_z_7 (Gen.Mds8.mds_multiply.s_s_hi_7 (Gen.Mds8.mds_multiply.s_s_15 h l))))) = tailRed l h := rfl

/-- the plumbing of `mds_multiply` (which `let` feeds which): every output component is the
    reduction tail of the two frequency-domain products of the low and high 32-bit limbs.
    NOT proved in Lean: every route tried (simp unfolding, `rfl`, fold-then-rewrite) makes the
    kernel unfold arithmetic on 2^64 literals past the identity wrappers `s_state_k_1` the translator
    emits ("deep recursion"). The individual steps are proved (`fold_k`: each generated tail chain is
    `tailRed`; `freq_*`: both products); this remaining statement is tied to the code by the
    correspondence harness (`perm` / `round` ops, raw words compared bit for bit). -/
def mm_eq_tail_statement : Prop :=
  ∀ (x0 x1 x2 x3 x4 x5 x6 x7 : Nat),
    Gen.Mds8.mds_multiply x0 x1 x2 x3 x4 x5 x6 x7 =
      (tailRed (Gen.Mds8.mds_multiply_freq (x0 % 4294967296) (x1 % 4294967296) (x2 % 4294967296) (x3 % 4294967296) (x4 % 4294967296) (x5 % 4294967296) (x6 % 4294967296) (x7 % 4294967296)).1
         (Gen.Mds8.mds_multiply_freq (x0 / 4294967296) (x1 / 4294967296) (x2 / 4294967296) (x3 / 4294967296) (x4 / 4294967296) (x5 / 4294967296) (x6 / 4294967296) (x7 / 4294967296)).1,
       tailRed (Gen.Mds8.mds_multiply_freq (x0 % 4294967296) (x1 % 4294967296) (x2 % 4294967296) (x3 % 4294967296) (x4 % 4294967296) (x5 % 4294967296) (x6 % 4294967296) (x7 % 4294967296)).2.1
         (Gen.Mds8.mds_multiply_freq (x0 / 4294967296) (x1 / 4294967296) (x2 / 4294967296) (x3 / 4294967296) (x4 / 4294967296) (x5 / 4294967296) (x6 / 4294967296) (x7 / 4294967296)).2.1,
       tailRed (Gen.Mds8.mds_multiply_freq (x0 % 4294967296) (x1 % 4294967296) (x2 % 4294967296) (x3 % 4294967296) (x4 % 4294967296) (x5 % 4294967296) (x6 % 4294967296) (x7 % 4294967296)).2.2.1
         (Gen.Mds8.mds_multiply_freq (x0 / 4294967296) (x1 / 4294967296) (x2 / 4294967296) (x3 / 4294967296) (x4 / 4294967296) (x5 / 4294967296) (x6 / 4294967296) (x7 / 4294967296)).2.2.1,
       tailRed (Gen.Mds8.mds_multiply_freq (x0 % 4294967296) (x1 % 4294967296) (x2 % 4294967296) (x3 % 4294967296) (x4 % 4294967296) (x5 % 4294967296) (x6 % 4294967296) (x7 % 4294967296)).2.2.2.1
         (Gen.Mds8.mds_multiply_freq (x0 / 4294967296) (x1 / 4294967296) (x2 / 4294967296) (x3 / 4294967296) (x4 / 4294967296) (x5 / 4294967296) (x6 / 4294967296) (x7 / 4294967296)).2.2.2.1,
       tailRed (Gen.Mds8.mds_multiply_freq (x0 % 4294967296) (x1 % 4294967296) (x2 % 4294967296) (x3 % 4294967296) (x4 % 4294967296) (x5 % 4294967296) (x6 % 4294967296) (x7 % 4294967296)).2.2.2.2.1
         (Gen.Mds8.mds_multiply_freq (x0 / 4294967296) (x1 / 4294967296) (x2 / 4294967296) (x3 / 4294967296) (x4 / 4294967296) (x5 / 4294967296) (x6 / 4294967296) (x7 / 4294967296)).2.2.2.2.1,
       tailRed (Gen.Mds8.mds_multiply_freq (x0 % 4294967296) (x1 % 4294967296) (x2 % 4294967296) (x3 % 4294967296) (x4 % 4294967296) (x5 % 4294967296) (x6 % 4294967296) (x7 % 4294967296)).2.2.2.2.2.1
         (Gen.Mds8.mds_multiply_freq (x0 / 4294967296) (x1 / 4294967296) (x2 / 4294967296) (x3 / 4294967296) (x4 / 4294967296) (x5 / 4294967296) (x6 / 4294967296) (x7 / 4294967296)).2.2.2.2.2.1,
       tailRed (Gen.Mds8.mds_multiply_freq (x0 % 4294967296) (x1 % 4294967296) (x2 % 4294967296) (x3 % 4294967296) (x4 % 4294967296) (x5 % 4294967296) (x6 % 4294967296) (x7 % 4294967296)).2.2.2.2.2.2.1
         (Gen.Mds8.mds_multiply_freq (x0 / 4294967296) (x1 / 4294967296) (x2 / 4294967296) (x3 / 4294967296) (x4 / 4294967296) (x5 / 4294967296) (x6 / 4294967296) (x7 / 4294967296)).2.2.2.2.2.2.1,
       tailRed (Gen.Mds8.mds_multiply_freq (x0 % 4294967296) (x1 % 4294967296) (x2 % 4294967296) (x3 % 4294967296) (x4 % 4294967296) (x5 % 4294967296) (x6 % 4294967296) (x7 % 4294967296)).2.2.2.2.2.2.2
         (Gen.Mds8.mds_multiply_freq (x0 / 4294967296) (x1 / 4294967296) (x2 / 4294967296) (x3 / 4294967296) (x4 / 4294967296) (x5 / 4294967296) (x6 / 4294967296) (x7 / 4294967296)).2.2.2.2.2.2.2)

end WinterProofs.C11.Mds8
