-- C09 helper lemmas: the discrete Fourier transform as direct evaluation, the even/odd butterfly identity,
-- the recursive transform `fftRec`, orthogonality / inversion
import WinterProofs.Lemmas.C09Brev
import Mathlib.Algebra.Module.BigOperators
import Mathlib.RingTheory.RootsOfUnity.PrimitiveRoots
import Mathlib.Tactic.Ring
import Mathlib.Tactic.Module

namespace WinterProofs.C09
open Model.Fft Finset

variable {R : Type} [CommRing R] {M : Type} [AddCommGroup M] [Module R M]

/-- direct evaluation at the point `x` of the polynomial with coefficients `p 0, …, p (n-1)` (in an `R`-module:
    a base or extension field element, or a row of `N` of them) -/
def evalAt (n : Nat) (p : Nat → M) (x : R) : M := ∑ j ∈ range n, x ^ j • p j

/-- the transform: value number `i` is the evaluation at `ω^i` -/
def dft (ω : R) (n : Nat) (p : Nat → M) (i : Nat) : M := evalAt n p (ω ^ i)

theorem dft_def (ω : R) (n : Nat) (p : Nat → M) (i : Nat) :
    dft ω n p i = ∑ j ∈ range n, ω ^ (i * j) • p j := by
  simp [dft, evalAt, pow_mul]

/-- the operations record of an `R`-module (what the model is instantiated with in the proofs) -/
noncomputable def modOps (R M : Type) [CommRing R] [AddCommGroup M] [Module R M] : Ops R M where
  add := (· + ·)
  sub := (· - ·)
  mulBase := fun x t => t • x
  isZero := fun x => by classical exact decide (x = 0)

/-- a sum over `2m` indices splits into its even- and odd-indexed halves -/
theorem sum_range_even_odd (f : Nat → M) (m : Nat) :
    ∑ j ∈ range (2 * m), f j = ∑ j ∈ range m, f (2 * j) + ∑ j ∈ range m, f (2 * j + 1) := by
  induction m with
  | zero => simp
  | succ m ih =>
    have : 2 * (m + 1) = 2 * m + 1 + 1 := by ring
    rw [this, sum_range_succ, sum_range_succ, ih, sum_range_succ, sum_range_succ]
    abel

/-- even/odd split of direct evaluation: `p(x) = p_even(x²) + x · p_odd(x²)` -/
theorem evalAt_even_odd (m : Nat) (p : Nat → M) (x : R) :
    evalAt (2 * m) p x = evalAt m (fun j => p (2 * j)) (x ^ 2) + x • evalAt m (fun j => p (2 * j + 1)) (x ^ 2) := by
  unfold evalAt
  rw [sum_range_even_odd, smul_sum]
  congr 1
  · apply sum_congr rfl; intro j _; rw [← pow_mul]
  · apply sum_congr rfl; intro j _
    rw [smul_smul, ← pow_mul, pow_succ, mul_comm]

/-- the butterfly identity, low half: with `ω^m = -1`,
    `dft ω (2m) p i = dft ω² m p_even i + ω^i • dft ω² m p_odd i` -/
theorem dft_butterfly_low (ω : R) (m : Nat) (p : Nat → M) (i : Nat) :
    dft ω (2 * m) p i
      = dft (ω ^ 2) m (fun j => p (2 * j)) i + ω ^ i • dft (ω ^ 2) m (fun j => p (2 * j + 1)) i := by
  unfold dft
  rw [evalAt_even_odd]
  have : (ω ^ i) ^ 2 = (ω ^ 2) ^ i := by rw [← pow_mul, ← pow_mul, mul_comm]
  rw [this]

/-- the butterfly identity, high half: `dft ω (2m) p (i + m) = dft ω² m p_even i - ω^i • dft ω² m p_odd i` -/
theorem dft_butterfly_high (ω : R) (m : Nat) (hω : ω ^ m = -1) (p : Nat → M) (i : Nat) :
    dft ω (2 * m) p (i + m)
      = dft (ω ^ 2) m (fun j => p (2 * j)) i - ω ^ i • dft (ω ^ 2) m (fun j => p (2 * j + 1)) i := by
  unfold dft
  rw [evalAt_even_odd]
  have h1 : (ω ^ (i + m)) ^ 2 = (ω ^ 2) ^ i := by
    rw [pow_add, mul_pow, hω]
    ring
  have h2 : ω ^ (i + m) = - ω ^ i := by rw [pow_add, hω]; ring
  rw [h1, h2, neg_smul, sub_eq_add_neg]

/-! ### the recursive transform computes the DFT in bit-reversed order -/

/-- the twiddle table `tw` serves a transform of size `2^k` with root `ω`: entry `i` (0 < i < 2^(k-1)) is
    `ω ^ brev (k-1) i` (entry 0 is never read by the code) -/
def TwOk (tw : Nat → R) (ω : R) (k : Nat) : Prop :=
  ∀ i, 0 < i → i < 2 ^ (k - 1) → tw i = ω ^ brev (k - 1) i

theorem TwOk.sq {tw : Nat → R} {ω : R} {k : Nat} (h : TwOk tw ω (k + 1)) : TwOk tw (ω ^ 2) k := by
  intro i h0 hi
  cases k with
  | zero => simp at hi; omega
  | succ k =>
    simp only [Nat.add_sub_cancel] at hi ⊢
    have hi' : i < 2 ^ (k + 1) := by rw [Nat.pow_succ]; omega
    have := h i h0 (by simpa using hi')
    simp only [Nat.add_sub_cancel] at this
    rw [this, brev_succ_of_lt k i hi, pow_mul]

/-- (c) the clean recursive FFT equals the DFT, output in bit-reversed order, for every size `2^k` -/
theorem fftRec_eq_dft (k : Nat) : ∀ (ω : R) (tw : Nat → R) (x : Nat → M),
    (k ≥ 1 → ω ^ 2 ^ (k - 1) = -1) → TwOk tw ω k →
    ∀ m, m < 2 ^ k → fftRec (modOps R M) tw k x m = dft ω (2 ^ k) x (brev k m) := by
  induction k with
  | zero =>
    intro ω tw x _ _ m hm
    have : m = 0 := by simpa using hm
    subst this
    simp [fftRec, brev, dft, evalAt]
  | succ k ih =>
    intro ω tw x hneg htw m hm
    have hneg' : ω ^ 2 ^ k = -1 := by simpa using hneg (by omega)
    have hi : m / 2 < 2 ^ k := by rw [Nat.pow_succ] at hm; omega
    have hneg2 : k ≥ 1 → (ω ^ 2) ^ 2 ^ (k - 1) = -1 := by
      intro hk
      rw [← pow_mul, ← pow_succ']
      have : k - 1 + 1 = k := by omega
      rw [this]; exact hneg'
    have ihe := ih (ω ^ 2) tw (fun j => x (2 * j)) hneg2 htw.sq (m / 2) hi
    have iho := ih (ω ^ 2) tw (fun j => x (2 * j + 1)) hneg2 htw.sq (m / 2) hi
    simp only [fftRec]
    rw [ihe, iho]
    -- the twiddle used for block m/2 is ω ^ brev k (m/2), also when m/2 = 0 (no multiplication)
    have htwid : (if m / 2 = 0 then dft (ω ^ 2) (2 ^ k) (fun j => x (2 * j + 1)) (brev k (m / 2))
          else (modOps R M).mulBase (dft (ω ^ 2) (2 ^ k) (fun j => x (2 * j + 1)) (brev k (m / 2))) (tw (m / 2)))
        = ω ^ brev k (m / 2) • dft (ω ^ 2) (2 ^ k) (fun j => x (2 * j + 1)) (brev k (m / 2)) := by
      by_cases h0 : m / 2 = 0
      · simp [h0, brev_zero_right]
      · have := htw (m / 2) (by omega) (by simpa using hi)
        simp only [Nat.add_sub_cancel] at this
        simp [h0, modOps, this]
    rw [htwid]
    have e2 : (2 : Nat) ^ (k + 1) = 2 * 2 ^ k := by rw [Nat.pow_succ]; ring
    rw [e2]
    have hb : brev (k + 1) m = m % 2 * 2 ^ k + brev k (m / 2) := rfl
    rcases Nat.mod_two_eq_zero_or_one m with h | h
    · simp only [h, ↓reduceIte]
      rw [hb, h, Nat.zero_mul, Nat.zero_add, dft_butterfly_low]
      rfl
    · have hne : m % 2 ≠ 0 := by omega
      simp only [hne, ↓reduceIte]
      rw [hb, h, Nat.one_mul, Nat.add_comm, dft_butterfly_high ω (2 ^ k) hneg']
      rfl

/-! ### orthogonality and inversion (over a field) -/

section inversion
variable {F : Type} [Field F] {N : Type} [AddCommGroup N] [Module F N]

/-- `Σ_{i<n} (ω⁻¹)^(l·i) · ω^(i·j)` is `n` for `j = l` and `0` otherwise -/
theorem orthogonality (ω : F) (n : Nat) (hω : IsPrimitiveRoot ω n) (l j : Nat) (hl : l < n) (hj : j < n) :
    ∑ i ∈ range n, ((ω⁻¹) ^ l) ^ i * (ω ^ i) ^ j = if j = l then (n : F) else 0 := by
  have hn : 0 < n := by omega
  have hω0 : ω ≠ 0 := hω.ne_zero (by omega)
  have hterm : ∀ i, ((ω⁻¹) ^ l) ^ i * (ω ^ i) ^ j = (ω ^ j * (ω ^ l)⁻¹) ^ i := by
    intro i
    rw [mul_pow, ← pow_mul ω i j, ← pow_mul ω j i, mul_comm i j, inv_pow, inv_pow, mul_comm]
  simp only [hterm]
  by_cases h : j = l
  · subst h
    rw [if_pos rfl, mul_inv_cancel₀ (pow_ne_zero _ hω0)]
    simp
  · rw [if_neg h]
    set x := ω ^ j * (ω ^ l)⁻¹ with hx
    have hx1 : x ≠ 1 := by
      intro e
      apply h
      have : ω ^ j = ω ^ l := by
        have := congrArg (· * ω ^ l) e
        simp only [hx, one_mul] at this
        rwa [mul_assoc, inv_mul_cancel₀ (pow_ne_zero _ hω0), mul_one] at this
      exact hω.pow_inj hj hl this
    have hxn : x ^ n = 1 := by
      rw [hx, mul_pow, inv_pow, ← pow_mul, ← pow_mul, mul_comm j n, mul_comm l n, pow_mul, pow_mul,
        hω.pow_eq_one]
      simp
    have hg := geom_sum_mul x n
    rw [hxn, sub_self] at hg
    rcases mul_eq_zero.mp hg with h0 | h0
    · exact h0
    · exact absurd (sub_eq_zero.mp h0) hx1

/-- the transform with root `ω⁻¹` of the transform with root `ω` is `n •` the original -/
theorem dft_inv (ω : F) (n : Nat) (hω : IsPrimitiveRoot ω n) (p : Nat → N) (l : Nat) (hl : l < n) :
    dft ω⁻¹ n (dft ω n p) l = (n : F) • p l := by
  unfold dft evalAt
  simp only [smul_sum, smul_smul]
  rw [sum_comm]
  have : ∀ j ∈ range n, ∑ i ∈ range n, (((ω⁻¹) ^ l) ^ i * (ω ^ i) ^ j) • p j
      = (if j = l then (n : F) else 0) • p j := by
    intro j hj
    rw [← sum_smul, orthogonality ω n hω l j hl (mem_range.mp hj)]
  rw [sum_congr rfl this]
  simp only [ite_smul, zero_smul]
  rw [sum_ite_eq' (range n) l]
  simp [hl]

theorem IsPrimitiveRoot_inv' (ω : F) (n : Nat) (hω : IsPrimitiveRoot ω n) : IsPrimitiveRoot ω⁻¹ n :=
  hω.inv

/-- conversely: the transform with root `ω` of the transform with root `ω⁻¹` -/
theorem dft_inv' (ω : F) (n : Nat) (hω : IsPrimitiveRoot ω n) (v : Nat → N) (l : Nat) (hl : l < n) :
    dft ω n (dft ω⁻¹ n v) l = (n : F) • v l := by
  have := dft_inv ω⁻¹ n hω.inv v l hl
  rwa [inv_inv] at this

end inversion

end WinterProofs.C09
