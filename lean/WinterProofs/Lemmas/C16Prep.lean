-- C16: `prepare_assertions` accepts exactly the valid, pairwise non-overlapping assertion lists.
import WinterProofs.Lemmas.C16Model
namespace WinterProofs.C16L
open Model.Divisor
variable {α : Type}

theorem mem_insertSorted (a x : Assertion α) (l : List (Assertion α)) :
    x ∈ insertSorted a l ↔ x = a ∨ x ∈ l := by
  induction l with
  | nil => simp [insertSorted]
  | cons b rest ih =>
    unfold insertSorted
    split
    · simp
    · simp only [List.mem_cons, ih]
      constructor
      · rintro (h | h | h)
        · exact Or.inr (Or.inl h)
        · exact Or.inl h
        · exact Or.inr (Or.inr h)
      · rintro (h | h | h)
        · exact Or.inr (Or.inl h)
        · exact Or.inl h
        · exact Or.inr (Or.inr h)

/-- one step of the `prepare_assertions` loop -/
def prepStep (width n : Nat) (acc : Res (List (Assertion α))) (a : Assertion α) : Res (List (Assertion α)) :=
  match acc with
  | .panic s => .panic s
  | .ok sorted =>
    if !a.validateTraceWidth width then .panic "assertion is invalid: width"
    else match a.validateTraceLength n with
      | .error _ => .panic "assertion is invalid: length"
      | .ok () =>
        if sorted.any (fun b => b.column == a.column && b.overlapsWith a) then .panic "overlaps"
        else .ok (insertSorted a sorted)

theorem prepareAssertions_eq (as : List (Assertion α)) (width n : Nat) :
    prepareAssertions as width n = as.foldl (prepStep width n) (.ok []) := rfl

theorem foldl_prepStep_panic (as : List (Assertion α)) (width n : Nat) (s : String) :
    as.foldl (prepStep width n) (.panic s) = .panic s := by
  induction as with
  | nil => rfl
  | cons a rest ih => exact ih

theorem col_and_overlaps (a b : Assertion α) :
    (b.column == a.column && b.overlapsWith a) = b.overlapsWith a := by
  by_cases h : b.column = a.column
  · simp [h]
  · have : b.overlapsWith a = false := by
      unfold Assertion.overlapsWith; simp [h]
    simp [this]

theorem foldl_prepStep_ok_iff (as : List (Assertion α)) (width n : Nat) (sorted0 : List (Assertion α)) :
    (∃ out, as.foldl (prepStep width n) (.ok sorted0) = .ok out) ↔
      (∀ a ∈ as, a.column < width ∧ a.validateTraceLength n = .ok ()) ∧
      (∀ a ∈ as, ∀ b ∈ sorted0, b.overlapsWith a = false) ∧
      as.Pairwise (fun a b => a.overlapsWith b = false) := by
  induction as generalizing sorted0 with
  | nil => simp
  | cons a rest ih =>
    rw [List.foldl_cons]
    by_cases hw : a.column < width
    · cases hv : a.validateTraceLength n with
      | error e =>
        have hstep : prepStep width n (.ok sorted0) a = .panic "assertion is invalid: length" := by
          simp [prepStep, Assertion.validateTraceWidth, hw, hv]
        rw [hstep, foldl_prepStep_panic]
        constructor
        · rintro ⟨_, h⟩; cases h
        · rintro ⟨h, _⟩
          have := (h a (List.mem_cons_self)).2
          rw [hv] at this; cases this
      | ok u =>
        cases u
        by_cases hov : sorted0.any (fun b => b.overlapsWith a) = true
        · have hstep : prepStep width n (.ok sorted0) a = .panic "overlaps" := by
            simp only [prepStep, Assertion.validateTraceWidth, hw, hv, col_and_overlaps, hov]
            simp
          rw [hstep, foldl_prepStep_panic]
          constructor
          · rintro ⟨_, h⟩; cases h
          · rintro ⟨_, h, _⟩
            rw [List.any_eq_true] at hov
            obtain ⟨b, hb, hba⟩ := hov
            have := h a (List.mem_cons_self) b hb
            rw [this] at hba; cases hba
        · have hov' : sorted0.any (fun b => b.overlapsWith a) = false := by simpa using hov
          have hstep : prepStep width n (.ok sorted0) a = .ok (insertSorted a sorted0) := by
            simp only [prepStep, Assertion.validateTraceWidth, hw, hv, col_and_overlaps, hov']
            simp
          rw [hstep, ih (insertSorted a sorted0)]
          have hnone : ∀ b ∈ sorted0, b.overlapsWith a = false := by
            intro b hb
            rw [List.any_eq_false] at hov'
            simpa using hov' b hb
          constructor
          · rintro ⟨h1, h2, h3⟩
            refine ⟨?_, ?_, ?_⟩
            · intro x hx
              rcases List.mem_cons.mp hx with rfl | hx
              · exact ⟨hw, hv⟩
              · exact h1 x hx
            · intro x hx b hb
              rcases List.mem_cons.mp hx with rfl | hx
              · exact hnone b hb
              · exact h2 x hx b ((mem_insertSorted _ _ _).mpr (Or.inr hb))
            · rw [List.pairwise_cons]
              exact ⟨fun x hx => h2 x hx a ((mem_insertSorted _ _ _).mpr (Or.inl rfl)), h3⟩
          · rintro ⟨h1, h2, h3⟩
            rw [List.pairwise_cons] at h3
            refine ⟨fun x hx => h1 x (List.mem_cons_of_mem _ hx), ?_, h3.2⟩
            intro x hx b hb
            rcases (mem_insertSorted _ _ _).mp hb with rfl | hb
            · exact h3.1 x hx
            · exact h2 x (List.mem_cons_of_mem _ hx) b hb
    · have hstep : prepStep width n (.ok sorted0) a = .panic "assertion is invalid: width" := by
        simp [prepStep, Assertion.validateTraceWidth, hw]
      rw [hstep, foldl_prepStep_panic]
      constructor
      · rintro ⟨_, h⟩; cases h
      · rintro ⟨h, _⟩
        exact absurd (h a (List.mem_cons_self)).1 hw

/-- the accepted assertions are all kept (and nothing else): the output lists exactly the input -/
theorem foldl_prepStep_mem (as : List (Assertion α)) (width n : Nat) (sorted0 out : List (Assertion α))
    (h : as.foldl (prepStep width n) (.ok sorted0) = .ok out) : ∀ x, x ∈ out ↔ x ∈ sorted0 ∨ x ∈ as := by
  induction as generalizing sorted0 with
  | nil =>
    simp only [List.foldl_nil, Res.ok.injEq] at h
    subst h; simp
  | cons a rest ih =>
    rw [List.foldl_cons] at h
    cases hstep : prepStep width n (.ok sorted0) a with
    | panic s => rw [hstep, foldl_prepStep_panic] at h; cases h
    | ok l =>
      rw [hstep] at h
      have hl : l = insertSorted a sorted0 := by
        unfold prepStep at hstep
        simp only at hstep
        split at hstep
        · cases hstep
        · split at hstep
          · cases hstep
          · split at hstep
            · cases hstep
            · cases hstep; rfl
      subst hl
      intro x
      rw [ih _ h x, mem_insertSorted, List.mem_cons]
      constructor
      · rintro ((h | h) | h)
        · exact Or.inr (Or.inl h)
        · exact Or.inl h
        · exact Or.inr (Or.inr h)
      · rintro (h | h | h)
        · exact Or.inl (Or.inr h)
        · exact Or.inl (Or.inl h)
        · exact Or.inr h

end WinterProofs.C16L
