-- C05: the algebraic over-degree lemma tied to the model: the honest prover's last layer for an over-degree
-- polynomial fails the verifier's remainder check at some position of the last domain, whatever remainder with at
-- most the allowed number of coefficients is presented (helper lemmas)
import WinterProofs.Lemmas.C15Complete

namespace WinterProofs.C05

open Model.Fri Finset Polynomial WinterProofs.C15

variable {F : Type} [Field F] [DecidableEq F]
variable (root : ℕ → F) (rootOk : ℕ → Bool) (offset : F)

local notation "ops" => fieldOps root rootOk offset

omit [DecidableEq F] in
/-- the polynomial with coefficient list `cs` -/
noncomputable def listPoly (cs : List F) : F[X] := ∑ k ∈ range cs.length, C (cs.getD k 0) * X ^ k

omit [DecidableEq F] in
theorem natDegree_listPoly_lt (cs : List F) (t : ℕ) (ht : 0 < t) (h : cs.length ≤ t) :
    (listPoly cs).natDegree < t := by
  unfold listPoly
  have : (∑ k ∈ range cs.length, C (cs.getD k 0) * X ^ k).natDegree ≤ t - 1 := by
    apply natDegree_sum_le_of_forall_le
    intro k hk
    have hk' : k < cs.length := by simpa using hk
    calc (C (cs.getD k 0) * X ^ k).natDegree ≤ k := natDegree_C_mul_X_pow_le _ _
      _ ≤ t - 1 := by omega
  omega

theorem eval_listPoly (cs : List F) (x : F) : (listPoly cs).eval x = horner ops cs x := by
  rw [horner_fieldOps]
  unfold listPoly
  simp [eval_finsetSum]

/-- Honest folding of an over-degree polynomial on the model.  Let `f` have degree `≥ N^L·t` (above the bound
    `t·N^L − 1`) and `< n = t·b·N^L` (any function on the domain is such a polynomial), let the prover build its `L`
    layers with challenges none of which is a root of the lead polynomial of its layer.  Then for EVERY remainder
    with at most `t` coefficients there is a position of the last domain at which the verifier's remainder check
    `eval_horner(remainder, offset·g_L^p) = last layer value` fails. -/
theorem over_degree_last_layer_mismatch (N L t b : ℕ) (hN : 0 < N) (ht : 0 < t) (hb : 0 < b)
    (hsteps : ∀ j, j < L → StepOK root rootOk N (t * b * N ^ (L - j)))
    (hprim : IsPrimitiveRoot (root (Nat.log2 (t * b))) (t * b))
    (hoff : offset ≠ 0) (f : F[X]) (hlow : N ^ L * t ≤ f.natDegree) (hhigh : f.natDegree < t * b * N ^ L)
    (αs : List F) (hαs : L ≤ αs.length)
    (hgood : FriAlg.GoodChallenges N (offset ^ (N - 1)) (αs.take L) f)
    (rem : List F) (hrem : rem.length ≤ t) :
    ∃ ls last, buildLayersLoop ops N L αs
        (evalsOf offset (root (Nat.log2 (t * b * N ^ L))) f (t * b * N ^ L)) = .ok (ls, last) ∧
      ∃ p, p < t * b ∧
        horner ops rem (offset * root (Nat.log2 (t * b)) ^ p) ≠ last.getD p 0 := by
  have hm : 0 < t * b := Nat.mul_pos ht hb
  obtain ⟨ls, hbuild⟩ := buildLayersLoop_poly root rootOk offset N hN hoff L (t * b) αs f hm hαs hsteps
  refine ⟨ls, _, hbuild, ?_⟩
  set hL := FriAlg.foldLayers N (offset ^ (N - 1)) (αs.take L) f with hLdef
  have hc : offset ^ (N - 1) ≠ 0 := pow_ne_zero _ hoff
  have hlen : (αs.take L).length = L := by rw [List.length_take]; omega
  -- the last layer's polynomial has degree ≥ t and < t·b
  have hdeg_ge : t ≤ hL.natDegree := by
    apply FriAlg.over_degree_foldLayers hN hc (αs.take L) f t _ hgood
    rw [hlen]; exact hlow
  have hdeg_lt : hL.natDegree < t * b := by
    apply FriAlg.low_degree_foldLayers hN hc (αs.take L) f (t * b)
    rw [hlen, Nat.mul_comm]; exact hhigh
  -- the last domain as a finite set of t·b distinct points
  set g := root (Nat.log2 (t * b)) with hgdef
  have hinj : Set.InjOn (fun j => offset * g ^ j) (range (t * b) : Set ℕ) :=
    FriAlg.nodes_injective hprim hoff
  set s : Finset F := (range (t * b)).image (fun j => offset * g ^ j) with hsdef
  have hcard : s.card = t * b := by
    rw [hsdef, Finset.card_image_of_injOn hinj, Finset.card_range]
  have hnot := FriAlg.over_degree_not_remainder hL (listPoly rem) s t (by rw [hcard]; exact hdeg_lt) hdeg_ge
    (natDegree_listPoly_lt rem t ht hrem)
  -- hence some domain point separates them
  have : ∃ p, p < t * b ∧ hL.eval (offset * g ^ p) ≠ (listPoly rem).eval (offset * g ^ p) := by
    by_contra hcon
    apply hnot
    intro y hy
    rw [hsdef, Finset.mem_image] at hy
    obtain ⟨p, hp, rfl⟩ := hy
    have hp' : p < t * b := by simpa using hp
    by_contra hne
    exact hcon ⟨p, hp', hne⟩
  obtain ⟨p, hp, hne⟩ := this
  refine ⟨p, hp, ?_⟩
  rw [← eval_listPoly root rootOk offset rem]
  have : (evalsOf offset g hL (t * b)).getD p 0 = hL.eval (offset * g ^ p) := by
    rw [List.getD_eq_getElem?_getD, evalsOf_getElem? offset g hL (t * b) p hp]
    rfl
  rw [this]
  exact fun h => hne h.symm

end WinterProofs.C05
