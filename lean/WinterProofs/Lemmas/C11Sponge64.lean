-- C11 helper lemmas (Rp64_256): `merge_with_int` is `hash_elements` of the seed followed by the integer's
-- elements; the byte encoding yields 64-bit integers; so `hash`, `merge`, `merge_with_int` all reduce to
-- `hash_elements`, whose residue-level meaning is `SpongeSem.hashElements_sem`.
import Winter.Model.Rescue
import WinterProofs.Lemmas.C11Sponge
import WinterProofs.Lemmas.C11Misc
import WinterProofs.Lemmas.C11MergeInt
import WinterProofs.Lemmas.C11Round12
import WinterProofs.Lemmas.C11SpongeSem
set_option linter.unusedVariables false
set_option linter.unusedSimpArgs false

namespace WinterProofs.C11.Sponge64
open Model Model.Rescue WinterProofs.C11.Sponge WinterProofs.C11.Sem WinterProofs.F64Z

/-! ### the byte encoding yields integers below 2^57 -/

theorem encodeChunks_lt : ∀ (cs : List (List Nat)), WF cs → (∀ c ∈ cs, c.length ≤ 7) →
    ∀ e ∈ encodeChunks cs, e < 144115188075855872
  | [], _, _ => by simp [encodeChunks]
  | [c], w, hl => by
    intro e he
    simp only [encodeChunks, List.mem_cons, List.not_mem_nil, or_false] at he
    have h1 := ofLe_lt c w
    have h7 := hl c (by simp)
    have hp : 256 ^ c.length ≤ 256 ^ 7 := Nat.pow_le_pow_right (by decide) h7
    have : (256 : Nat) ^ 7 = 72057594037927936 := by decide
    omega
  | c :: c' :: rest, w, hl => by
    intro e he
    simp only [encodeChunks, List.mem_cons] at he
    rcases he with rfl | he
    · have h1 := ofLe_lt c w.2.1
      rw [w.1] at h1
      have : (256 : Nat) ^ 7 = 72057594037927936 := by decide
      omega
    · exact encodeChunks_lt (c' :: rest) w.2.2 (fun x hx => hl x (List.mem_cons_of_mem _ hx)) e
        (by simpa [encodeChunks] using he)

theorem encodeBytes_lt (bs : List Nat) (hb : ∀ x ∈ bs, x < 256) : ∀ e ∈ encodeBytes bs, e < 144115188075855872 := by
  unfold encodeBytes chunks7
  exact encodeChunks_lt _ (chunksAux_WF bs.length bs (Nat.le_refl _) hb)
    (fun c hc => ((chunksAux_spec bs.length bs (Nat.le_refl _)).1 c hc).2)

/-! ### rows of integers given to `new` -/

theorem newRow_inv : ∀ (r : List Nat), (∀ k ∈ r, k < 18446744073709551616) → AllInv RoundCommon.S64 (r.map Gen.F64.new)
  | [], _ => AllInv.nil _
  | k :: r, h => by
    have hk := h k (List.mem_cons_self)
    have i2 := newRow_inv r (fun x hx => h x (List.mem_cons_of_mem _ hx))
    have hk' : k < 2 ^ 64 := by norm_num; exact hk
    exact AllInv.cons _ (new_inv k hk') i2

theorem newRow_val (r : List Nat) (h : ∀ k ∈ r, k < 18446744073709551616) :
    (r.map Gen.F64.new).map val = r.map (fun (k : Nat) => (k : ZMod P)) := by
  rw [List.map_map]
  apply List.map_congr_left
  intro k hk
  have hk' : k < 2 ^ 64 := by norm_num; exact h k hk
  exact val_new k hk'

theorem allInv_append {a b : List Nat} (ha : AllInv RoundCommon.S64 a) (hb : AllInv RoundCommon.S64 b) :
    AllInv RoundCommon.S64 (a ++ b) := by
  intro e he
  rcases List.mem_append.mp he with h | h
  · exact ha e h
  · exact hb e h

/-! ### `merge_with_int` -/

/-- the reference `merge_with_int` on residues: the state holds the domain flag (5, or 6 when the
    integer is not below `p`) in the first capacity element, the seed, then `v` and `v div p`; it is
    permuted and the digest is squeezed -/
noncomputable def refMergeWithInt (seed : List (ZMod P)) (v : Nat) : List (ZMod P) :=
  SpongeSem.refDigest rp64 (Round12.refPerm
    (([if v < 18446744069414584321 then 5 else 6, 0, 0, 0].map (fun (k : Nat) => (k : ZMod P))) ++ seed ++
     ([v, if v < 18446744069414584321 then 0 else v / 18446744069414584321, 0, 0].map (fun (k : Nat) => (k : ZMod P)))))

theorem mergeWithInt_sem (s0 s1 s2 s3 v : Nat) (h0 : Inv s0) (h1 : Inv s1) (h2 : Inv s2) (h3 : Inv s3)
    (hv : v < 18446744073709551616) :
    AllInv RoundCommon.S64 (mergeWithInt rp64 [s0, s1, s2, s3] v) ∧
    (mergeWithInt rp64 [s0, s1, s2, s3] v).map val = refMergeWithInt ([s0, s1, s2, s3].map val) v := by
  have hq : v / 18446744069414584321 < 18446744073709551616 := Nat.lt_of_le_of_lt (Nat.div_le_self _ _) hv
  have hseed : AllInv RoundCommon.S64 [s0, s1, s2, s3] := by
    intro e he
    simp only [List.mem_cons, List.not_mem_nil, or_false] at he
    rcases he with rfl | rfl | rfl | rfl <;> assumption
  -- the state, as three blocks
  have key : ∀ (f o : Nat), f < 18446744073709551616 → o < 18446744073709551616 →
      AllInv RoundCommon.S64 (digestOf rp64 (applyPermutation rp64
        ([f, 0, 0, 0].map Gen.F64.new ++ [s0, s1, s2, s3] ++ [v, o, 0, 0].map Gen.F64.new))) ∧
      (digestOf rp64 (applyPermutation rp64
        ([f, 0, 0, 0].map Gen.F64.new ++ [s0, s1, s2, s3] ++ [v, o, 0, 0].map Gen.F64.new))).map val
        = SpongeSem.refDigest rp64 (Round12.refPerm
            ([f, 0, 0, 0].map (fun (k : Nat) => (k : ZMod P)) ++ [s0, s1, s2, s3].map val ++
             [v, o, 0, 0].map (fun (k : Nat) => (k : ZMod P)))) := by
    intro f o hf ho
    have hA : ∀ k ∈ [f, 0, 0, 0], k < 18446744073709551616 := by
      intro k hk
      simp only [List.mem_cons, List.not_mem_nil, or_false] at hk
      rcases hk with rfl | rfl | rfl | rfl <;> first | exact hf | decide
    have hC : ∀ k ∈ [v, o, 0, 0], k < 18446744073709551616 := by
      intro k hk
      simp only [List.mem_cons, List.not_mem_nil, or_false] at hk
      rcases hk with rfl | rfl | rfl | rfl <;> first | exact hv | exact ho | decide
    have hall := allInv_append (allInv_append (newRow_inv _ hA) hseed) (newRow_inv _ hC)
    obtain ⟨_, ip, vp⟩ := Round12.perm_sem _ (by simp) hall
    obtain ⟨id, vd⟩ := SpongeSem.digest_sem (Round12.perm) _ ip
    refine ⟨id, ?_⟩
    have ev : (Round12.perm).S.val = val := rfl
    rw [ev] at vd
    rw [vd, vp, List.map_append, List.map_append, newRow_val _ hA, newRow_val _ hC]
  have hj : ¬ rp64.jive = true := by decide
  unfold mergeWithInt refMergeWithInt
  rw [if_neg hj, MergeInt.rp64_state]
  by_cases hlt : v < 18446744069414584321
  · rw [if_pos hlt, if_pos hlt, if_pos hlt]
    exact key 5 0 (by decide) (by decide)
  · rw [if_neg hlt, if_neg hlt, if_neg hlt]
    exact key 6 (v / 18446744069414584321) (by decide) hq

end WinterProofs.C11.Sponge64
