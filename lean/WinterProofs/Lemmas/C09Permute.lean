-- C09 helper lemmas: `permute_index` is `brev`; the `permute` loop realises the bit-reversal permutation
import WinterProofs.Lemmas.C09Brev

namespace WinterProofs.C09
open Model.Fft

theorem isPow2_two_pow (k : Nat) : isPow2 (2 ^ k) = true := by
  have h : (2 : Nat) ^ k ≠ 0 := by positivity
  simp [isPow2, Nat.log2_two_pow]

theorem ilog2_two_pow (k : Nat) : ilog2 (2 ^ k) = some k := by
  have h : (2 : Nat) ^ k ≠ 0 := by positivity
  simp [ilog2, Nat.log2_two_pow]

theorem isPow2_iff (n : Nat) : isPow2 n = true ↔ ∃ k, n = 2 ^ k := by
  constructor
  · intro h
    simp [isPow2] at h
    exact ⟨_, h.2⟩
  · rintro ⟨k, rfl⟩
    exact isPow2_two_pow k

theorem trailingZeros_two_pow (f k : Nat) (h : k ≤ f) : trailingZeros f (2 ^ k) = k := by
  induction f generalizing k with
  | zero =>
    have : k = 0 := by omega
    subst this; rfl
  | succ f ih =>
    cases k with
    | zero => simp [trailingZeros]
    | succ k =>
      have h1 : (2 : Nat) ^ (k + 1) % 2 = 0 := by rw [Nat.pow_succ]; omega
      have h2 : (2 : Nat) ^ (k + 1) / 2 = 2 ^ k := by rw [Nat.pow_succ]; omega
      simp only [trailingZeros, h1, h2]
      rw [ih k (by omega)]
      simp; omega

/-- `permute_index(2^k, i)` is the `k`-bit reversal of `i` (sizes that fit a 64-bit `usize`) -/
theorem permuteIndex_two_pow (k i : Nat) (hk : k ≤ 64) (hi : i < 2 ^ k) :
    permuteIndex (2 ^ k) i = some (brev k i) := by
  unfold permuteIndex
  rw [trailingZeros_two_pow 64 k hk]
  simp only [hi, isPow2_two_pow, and_self, ↓reduceIte, Option.some.injEq]
  rcases Nat.eq_zero_or_pos k with rfl | hpos
  · have : i = 0 := by simpa using hi
    subst this
    simp [brev]
  · have e : (64 - k) % 64 = 64 - k := Nat.mod_eq_of_lt (by omega)
    rw [e, Nat.shiftRight_eq_div_pow]
    have e2 : brev 64 i = brev (k + (64 - k)) i := by congr 1; omega
    rw [e2, brev_add k (64 - k) i hi]
    exact Nat.mul_div_cancel_left _ (Nat.pow_pos (by decide))

/-! ### loops -/

/-- invariant rule for `forRange` -/
theorem forRange_inv {σ : Type} (f : Nat → σ → Option σ) (P : Nat → σ → Prop) :
    ∀ (cnt start : Nat) (s : σ), P start s →
      (∀ i s, start ≤ i → i < start + cnt → P i s → ∃ s', f i s = some s' ∧ P (i + 1) s') →
      ∃ s', forRange f start cnt s = some s' ∧ P (start + cnt) s' := by
  intro cnt
  induction cnt with
  | zero => intro start s h0 _; exact ⟨s, rfl, by simpa using h0⟩
  | succ cnt ih =>
    intro start s h0 hstep
    obtain ⟨s1, e1, p1⟩ := hstep start s (Nat.le_refl _) (by omega) h0
    obtain ⟨s2, e2, p2⟩ := ih (start + 1) s1 p1 (fun i s hi1 hi2 hp => hstep i s (by omega) (by omega) hp)
    refine ⟨s2, ?_, ?_⟩
    · simp [forRange, e1, e2]
    · have : start + (cnt + 1) = start + 1 + cnt := by omega
      rw [this]; exact p2

/-- invariant rule for a loop followed by a continuation (the loop body is taken from the goal) -/
theorem forRange_bind_inv {σ τ : Type} (f : Nat → σ → Option σ) (P : Nat → σ → Prop) (Q : τ → Prop)
    (cnt start : Nat) (s : σ) (k : σ → Option τ) (h0 : P start s)
    (hstep : ∀ i s, start ≤ i → i < start + cnt → P i s → ∃ s', f i s = some s' ∧ P (i + 1) s')
    (hk : ∀ s', P (start + cnt) s' → ∃ r, k s' = some r ∧ Q r) :
    ∃ r, (forRange f start cnt s).bind k = some r ∧ Q r := by
  obtain ⟨s', e, hp⟩ := forRange_inv f P cnt start s h0 hstep
  obtain ⟨r, er, hq⟩ := hk s' hp
  exact ⟨r, by rw [e, Option.bind_some, er], hq⟩

/-! ### `permute` -/

/-- `FftInputs::permute` on `2^k` elements never panics and moves the element at the bit-reversed index
    `brev k i` to position `i` -/
theorem permute_spec {α : Type} (k : Nat) (hk : k ≤ 64) (a : Array α) (hsz : a.size = 2 ^ k) :
    ∃ b, permute a = some b ∧ b.size = a.size ∧ ∀ p, p < a.size → b[p]? = a[brev k p]? := by
  unfold permute
  -- invariant after the first `t` iterations
  let P : Nat → Array α → Prop := fun t b =>
    b.size = a.size ∧ ∀ p, p < a.size → b[p]? = if p < t ∨ brev k p < t then a[brev k p]? else a[p]?
  have hinv := forRange_inv (σ := Array α)
    (fun i a =>
      match permuteIndex a.size i with
      | none => none
      | some j => if j > i then swap a i j else some a) P a.size 0 a
    ⟨rfl, fun p _ => by simp⟩
    (by
      intro t b _ ht ⟨hbs, hb⟩
      have ht' : t < 2 ^ k := by omega
      have hj : brev k t < 2 ^ k := brev_lt k t
      simp only [hbs, hsz, permuteIndex_two_pow k t hk ht']
      by_cases hgt : brev k t > t
      · have hsw : swap b t (brev k t) = some (b.swap t (brev k t) (by omega) (by omega)) := by
          simp [swap, hbs, hsz, ht', hj]
        simp only [hgt, ↓reduceIte, hsw]
        refine ⟨_, rfl, by simp [hbs], ?_⟩
        intro p hp
        rw [Array.getElem?_swap]
        have hp' : p < 2 ^ k := by omega
        by_cases h1 : brev k t = p
        · -- p = j : gets b[t] = a[t] = a[brev k p]
          have hbt := hb t (by omega)
          have : ¬ (t < t ∨ brev k t < t) := by omega
          rw [if_neg this] at hbt
          have e : brev k p = t := by rw [← h1, brev_brev k t ht']
          simp only [h1, ↓reduceIte]
          rw [if_pos (by right; omega), e]
          rw [← hbt]; exact (Array.getElem?_eq_getElem _).symm
        · by_cases h2 : t = p
          · subst h2
            have hbj := hb (brev k t) (by omega)
            rw [brev_brev k t ht'] at hbj
            have : ¬ (brev k t < t ∨ t < t) := by omega
            rw [if_neg this] at hbj
            simp only [h1, ↓reduceIte]
            rw [if_pos (by left; omega)]
            rw [← hbj]; exact (Array.getElem?_eq_getElem _).symm
          · simp only [h1, h2, ↓reduceIte]
            rw [hb p hp]
            have hne : brev k p ≠ t := by
              intro e
              apply h1
              rw [← e, brev_brev k p hp']
            have c : (p < t ∨ brev k p < t) ↔ (p < t + 1 ∨ brev k p < t + 1) := by omega
            simp only [c]
      · simp only [hgt, ↓reduceIte]
        refine ⟨b, rfl, hbs, ?_⟩
        intro p hp
        have hp' : p < 2 ^ k := by omega
        rw [hb p hp]
        by_cases c1 : p < t ∨ brev k p < t
        · rw [if_pos c1, if_pos (by omega)]
        · rw [if_neg c1]
          by_cases c2 : p < t + 1 ∨ brev k p < t + 1
          · rw [if_pos c2]
            -- p = t or brev k p = t; either way brev k t ≤ t forces brev k p = p
            have : brev k p = p := by
              rcases c2 with c2 | c2
              · have : p = t := by omega
                subst this
                have : brev k p ≤ p := by omega
                omega
              · have e : brev k p = t := by omega
                have e' : brev k t = p := by rw [← e, brev_brev k p hp']
                omega
            rw [this]
          · rw [if_neg c2])
  obtain ⟨b, hb1, hb2, hb3⟩ := hinv
  refine ⟨b, hb1, hb2, ?_⟩
  intro p hp
  rw [hb3 p hp]
  simp only [Nat.zero_add]
  rw [if_pos (by left; exact hp)]

end WinterProofs.C09
